package main

import (
	"fmt"
	"io"
	"os"
	"strings"
	"sync"
	"sync/atomic"
	"time"

	bfe_http "github.com/bfenetworks/bfe/bfe_http"
	"github.com/bfenetworks/bfe/bfe_http2"
	"golang.org/x/net/http2"
	"golang.org/x/net/http2/hpack"

	"verifharness/h2cli"
	"verifharness/vkit"
)

// C35: for any client frame sequence the server applies the RFC 7540 stream
// rules named in the statement and never reaches an internal-invariant panic.
//
// A reference stream-state tracker (written from RFC 7540 5.1, 5.1.1, 5.1.2,
// 8.1, 8.1.2) classifies every frame before it is sent:
//   LEGAL  - must be processed normally (no RST_STREAM for that stream, no GOAWAY)
//   REJECT - must be refused: RST_STREAM on that stream, GOAWAY/close, or (new
//            streams only) a 4xx response; the harness handler must never run
//   CONN   - must end the connection (GOAWAY or close)
//   EITHER - the statement lists no rule or the RFC allows a race
// The script is in lockstep (PING round trip after each group) so that every
// stream closure at the server is known to the tracker.

const c35MaxStreams = 3

type c35Op struct {
	Kind   string `json:"kind"` // headers | data | rst | priority | wupdate | release | cont-abuse
	ID     uint32 `json:"id"`
	HK     string `json:"hk,omitempty"`    // header kind
	ES     bool   `json:"es,omitempty"`    // END_STREAM
	Split  bool   `json:"split,omitempty"` // HEADERS + CONTINUATION
	N      int    `json:"n,omitempty"`     // DATA length / window increment selector
	Mode   string `json:"mode,omitempty"`  // handler mode for a new stream: block | now | readbody
	NoSync bool   `json:"nosync,omitempty"`
	Dep    uint32 `json:"dep,omitempty"`
	Pad    uint8  `json:"pad,omitempty"`  // HEADERS / DATA: PADDED with this (valid) Pad Length
	Prio   bool   `json:"prio,omitempty"` // HEADERS: PRIORITY flag, dependency Dep (never the stream itself), weight 5
	Excl   bool   `json:"excl,omitempty"`
}

func (o c35Op) String() string {
	s := fmt.Sprintf("%s(%d", o.Kind, o.ID)
	if o.HK != "" {
		s += "," + o.HK
	}
	if o.ES {
		s += ",ES"
	}
	if o.Split {
		s += ",split"
	}
	if o.Kind == "data" || o.Kind == "wupdate" {
		s += fmt.Sprintf(",n=%d", o.N)
	}
	if o.Mode != "" {
		s += "," + o.Mode
	}
	if o.Pad > 0 {
		s += fmt.Sprintf(",pad=%d", o.Pad)
	}
	if o.Prio {
		s += fmt.Sprintf(",prio=%d/%v", o.Dep, o.Excl)
	}
	if o.NoSync {
		s += ",nosync"
	}
	return s + ")"
}

type c35Case struct {
	Ops []c35Op `json:"ops"`
}

// header kinds
var c35ValidHK = []string{"get", "post", "post-te-trailers"}
var c35BadHK = []string{"head-open-body", "bad-method", "bad-path", "no-method", "no-path", "no-scheme", "empty-path", "unknown-pseudo", "status-pseudo", "dup-path",
	"pseudo-after-regular", "uppercase-name", "connection", "keep-alive", "proxy-connection", "transfer-encoding", "upgrade", "te-gzip"}

func c35Fields(hk string, k int) []hpack.HeaderField {
	tag := hf("x-k", fmt.Sprint(k))
	base := func(method string) []hpack.HeaderField {
		return []hpack.HeaderField{hf(":method", method), hf(":scheme", "https"), hf(":authority", "verif.test"), hf(":path", "/s")}
	}
	switch hk {
	case "get":
		return append(base("GET"), tag)
	case "post":
		return append(base("POST"), tag)
	case "post-te-trailers":
		return append(base("POST"), tag, hf("te", "trailers"), hf("trailer", "x-t"))
	case "trailers":
		return []hpack.HeaderField{hf("x-t", "1"), tag}
	case "trailers-pseudo":
		return []hpack.HeaderField{hf(":path", "/x"), hf("x-t", "1"), tag}
	case "head-open-body":
		return append(base("HEAD"), tag)
	case "bad-method":
		return []hpack.HeaderField{hf(":method", "G T"), hf(":scheme", "https"), hf(":authority", "verif.test"), hf(":path", "/s"), tag}
	case "bad-path":
		return []hpack.HeaderField{hf(":method", "GET"), hf(":scheme", "https"), hf(":authority", "verif.test"), hf(":path", "no-slash"), tag}
	case "no-method":
		return []hpack.HeaderField{hf(":scheme", "https"), hf(":authority", "verif.test"), hf(":path", "/s"), tag}
	case "no-path":
		return []hpack.HeaderField{hf(":method", "GET"), hf(":scheme", "https"), hf(":authority", "verif.test"), tag}
	case "no-scheme":
		return []hpack.HeaderField{hf(":method", "GET"), hf(":authority", "verif.test"), hf(":path", "/s"), tag}
	case "empty-path":
		return []hpack.HeaderField{hf(":method", "GET"), hf(":scheme", "https"), hf(":authority", "verif.test"), hf(":path", ""), tag}
	case "unknown-pseudo":
		return append(base("GET"), hf(":foo", "bar"), tag)
	case "status-pseudo":
		return append(base("GET"), hf(":status", "200"), tag)
	case "dup-path":
		return append(base("GET"), hf(":path", "/again"), tag)
	case "pseudo-after-regular":
		return []hpack.HeaderField{hf(":method", "GET"), hf(":scheme", "https"), tag, hf(":authority", "verif.test"), hf(":path", "/s")}
	case "uppercase-name":
		return append(base("GET"), tag, hf("X-Upper", "1"))
	case "connection":
		return append(base("GET"), tag, hf("connection", "close"))
	case "keep-alive":
		return append(base("GET"), tag, hf("keep-alive", "timeout=5"))
	case "proxy-connection":
		return append(base("GET"), tag, hf("proxy-connection", "keep-alive"))
	case "transfer-encoding":
		return append(base("POST"), tag, hf("transfer-encoding", "chunked"))
	case "upgrade":
		return append(base("GET"), tag, hf("upgrade", "h2c"))
	case "te-gzip":
		return append(base("GET"), tag, hf("te", "gzip"))
	}
	return append(base("GET"), tag)
}

// c35RefusalClass groups the malformed request shapes by what is wrong with them.
func c35RefusalClass(hk string) string {
	switch hk {
	case "unknown-pseudo", "status-pseudo", "dup-path", "pseudo-after-regular", "uppercase-name":
		return "malformed-block" // the header block itself breaks 8.1.2 (field names, pseudo-header set or order)
	case "connection", "keep-alive", "proxy-connection", "transfer-encoding", "upgrade", "te-gzip":
		return "connection-specific"
	}
	return "bad-request-line" // missing/empty/invalid :method :path :scheme, HEAD with a body
}

func c35IsValid(hk string) bool {
	for _, v := range c35ValidHK {
		if v == hk {
			return true
		}
	}
	return false
}

// ---- reference tracker ----

type c35RefStream struct {
	state    string // open | hcr | closed
	closedBy string // client-rst | ended | server
	mode     string
	limbo    bool   // (unused since the refused-open rule was tightened; kept for the adoption logic)
	refused  string // non-empty: the HEADERS that opened the stream was refused; class of the refusal
	opIdx    int
}

type c35Ref struct {
	streams      map[uint32]*c35RefStream
	maxAccepted  uint32 // highest id used by a HEADERS frame that opened a stream, served or refused (5.1.1)
	maxAttempted uint32
	maxServed    uint32 // highest id whose request was accepted
	topRefusal   string // class of the refusal that set maxAccepted, "" if it was an accepted stream
}

func (rf *c35Ref) openCount() int {
	n := 0
	for _, s := range rf.streams {
		if !s.limbo && s.state != "closed" {
			n++
		}
	}
	return n
}

const (
	expLegal  = "LEGAL"
	expReject = "REJECT"
	expConn   = "CONN"
	expEither = "EITHER"
	expNoConn = "NOCONN" // may be ignored or answered with a stream error, but must not end the connection
)

// classify returns the expectation and a shape string, and advances the reference state.
func (rf *c35Ref) classify(k int, op c35Op) (exp, shape string) {
	if op.HK == "head-open-body" {
		op.ES = false // HEAD with END_STREAM would be a valid request; this shape is HEAD with an open body
	}
	st := rf.streams[op.ID]
	stateOf := func() string {
		switch {
		case op.ID == 0:
			return "stream0"
		case st != nil && st.limbo:
			return "after-malformed-open"
		case st != nil && st.refused != "":
			// RFC 7540 5.1.1: the refused HEADERS opened the stream (and the stream error closed it);
			// its identifier is used up and the stream is closed, not idle
			return "refused-open:" + st.refused
		case st != nil && st.mode == "self" && st.state != "closed":
			// a stream the tracker adopted from the server (accepted EITHER HEADERS) whose handler
			// finishes at a time the script does not control: every frame on it races with its end
			return "adopted-self-finishing"
		case st != nil && st.state == "closed":
			return "closed-by-" + st.closedBy
		case st != nil && st.state == "hcr":
			return "half-closed-remote"
		case st != nil:
			return "open"
		case op.ID%2 == 0:
			return "even-idle"
		case op.ID < rf.maxAccepted && op.ID > rf.maxServed && rf.topRefusal != "":
			return "below-refused-open:" + rf.topRefusal
		case op.ID < rf.maxAccepted:
			return "implicitly-closed"
		case op.ID < rf.maxAttempted:
			return "below-attempted"
		}
		return "idle"
	}
	s := stateOf()
	switch op.Kind {
	case "headers":
		es := ""
		if op.ES {
			es = "+ES"
		}
		shape = "HEADERS(" + op.HK + ")" + es + "@" + s
		if strings.HasPrefix(s, "refused-open:") || strings.HasPrefix(s, "below-refused-open:") {
			// the identifier is not greater than one already used: must not be served
			// (connection error PROTOCOL_ERROR per 5.1.1; a stream error is tolerated)
			return expReject, "HEADERS@" + s
		}
		switch s {
		case "stream0", "after-malformed-open", "closed-by-server", "below-attempted":
			return expEither, shape
		case "open":
			if op.HK == "trailers" && op.ES {
				st.state = "hcr"
				return expLegal, shape
			}
			// trailers without END_STREAM, pseudo-headers in trailers, or a second request block
			st.state, st.closedBy = "closed", "server"
			return expReject, shape
		case "half-closed-remote":
			if st.mode == "block" {
				st.state, st.closedBy = "closed", "server"
				return expReject, shape
			}
			return expEither, shape
		case "closed-by-client-rst", "closed-by-ended", "implicitly-closed":
			return expReject, shape
		case "even-idle":
			if !c35IsValid(op.HK) {
				// two defects in one frame (malformed block on an even id): the RFC does not order them
				return expReject, shape
			}
			return expConn, shape
		case "idle":
			if op.ID > rf.maxAttempted {
				rf.maxAttempted = op.ID
			}
			if !c35IsValid(op.HK) {
				cls := c35RefusalClass(op.HK)
				rf.streams[op.ID] = &c35RefStream{state: "closed", closedBy: "server", refused: cls, opIdx: k}
				rf.maxAccepted, rf.topRefusal = op.ID, cls
				return expReject, shape
			}
			if rf.openCount() >= c35MaxStreams {
				shape = "HEADERS(valid)" + es + "@over-concurrency-limit"
				rf.streams[op.ID] = &c35RefStream{state: "closed", closedBy: "server", refused: "over-limit", opIdx: k}
				rf.maxAccepted, rf.topRefusal = op.ID, "over-limit"
				return expReject, shape
			}
			ns := &c35RefStream{state: "open", mode: op.Mode, opIdx: k}
			if op.ES {
				ns.state = "hcr"
			}
			rf.streams[op.ID] = ns
			rf.maxAccepted, rf.maxServed, rf.topRefusal = op.ID, op.ID, ""
			return expLegal, shape
		}
	case "data":
		es := ""
		if op.ES {
			es = "+ES"
		}
		shape = "DATA" + es + "@" + s
		switch s {
		case "open":
			if op.ES {
				st.state = "hcr"
			}
			return expLegal, shape
		case "half-closed-remote":
			if st.mode == "block" {
				st.state, st.closedBy = "closed", "server"
				return expReject, shape
			}
			return expEither, shape
		case "closed-by-client-rst", "closed-by-ended", "implicitly-closed":
			return expReject, shape
		}
		return expEither, shape
	case "rst":
		shape = "RST_STREAM@" + s
		if strings.HasPrefix(s, "refused-open:") {
			return expLegal, shape // RST_STREAM for a closed stream: must not be taken for an idle one (6.4)
		}
		switch s {
		case "open", "half-closed-remote":
			st.state, st.closedBy = "closed", "client-rst"
			return expLegal, shape
		}
		return expEither, shape
	case "priority":
		if strings.HasPrefix(s, "refused-open:") {
			return expNoConn, "PRIORITY@" + s
		}
		return expEither, "PRIORITY@" + s
	case "wupdate":
		if strings.HasPrefix(s, "refused-open:") {
			// closed stream: ignore or stream error, never a connection error for an "idle" stream
			return expNoConn, "WINDOW_UPDATE@" + s
		}
		return expEither, fmt.Sprintf("WINDOW_UPDATE(%d)@%s", op.N, s)
	case "cont-abuse":
		return expEither, "HEADERS-without-END_HEADERS-then-PING"
	}
	return expEither, op.Kind + "@" + s
}

// ---- handler ----

type c35Handler struct {
	mu      sync.Mutex
	invoked map[int]uint32 // op index -> (unused) marker
	release map[int]chan struct{}
	modes   map[int]string
	all     chan struct{}
	census  handlerCensus
}

func (h *c35Handler) relCh(k int) chan struct{} {
	h.mu.Lock()
	defer h.mu.Unlock()
	c, ok := h.release[k]
	if !ok {
		c = make(chan struct{})
		h.release[k] = c
	}
	return c
}

func (h *c35Handler) ServeHTTP(w bfe_http.ResponseWriter, req *bfe_http.Request) {
	k := -1
	fmt.Sscan(req.Header.Get("X-K"), &k)
	h.census.enter("h")
	defer h.census.leave("h")
	h.mu.Lock()
	h.invoked[k] = 1
	mode := h.modes[k]
	h.mu.Unlock()
	switch mode {
	case "now":
	case "readbody":
		io.Copy(io.Discard, req.Body)
	default:
		cn := w.(bfe_http.CloseNotifier).CloseNotify()
		select {
		case <-h.relCh(k):
		case <-h.all:
		case <-cn:
		}
	}
	w.Header().Set("X-Served", fmt.Sprint(k))
	w.WriteHeader(200)
	io.WriteString(w, "done")
}

func (h *c35Handler) wasInvoked(k int) bool {
	h.mu.Lock()
	defer h.mu.Unlock()
	return h.invoked[k] != 0
}

// ---- generator ----

func c35Gen(r *vkit.Run, i int) *c35Case {
	g := r.Rng("c35", i)
	cs := &c35Case{}
	n := g.Range(3, 24)
	// a light-weight shadow of the tracker steers the generator towards populated states
	rf := &c35Ref{streams: map[uint32]*c35RefStream{}}
	nextOdd := func() uint32 {
		m := rf.maxAttempted
		if m%2 == 0 {
			return m + 1
		}
		return m + 2
	}
	for k := 0; k < n; k++ {
		var op c35Op
		pickID := func() uint32 {
			switch g.Intn(10) {
			case 0:
				return uint32(g.Intn(10)) // anything incl. 0 and even
			case 1:
				return uint32(2 * g.Intn(5)) // even
			case 2, 3:
				id := nextOdd()
				if id > 9 {
					id = 9
				}
				return id
			default:
				// an id that has been used
				var ids []uint32
				for id := range rf.streams {
					ids = append(ids, id)
				}
				if len(ids) == 0 {
					return 1
				}
				// deterministic order
				for a := 1; a < len(ids); a++ {
					for b := a; b > 0 && ids[b] < ids[b-1]; b-- {
						ids[b], ids[b-1] = ids[b-1], ids[b]
					}
				}
				return ids[g.Intn(len(ids))]
			}
		}
		// follow-ups to a refused open: its id N again, a lower unused odd id, RST_STREAM / WINDOW_UPDATE /
		// PRIORITY on N, or a fresh higher id that must still work
		var refused []uint32
		for id, st := range rf.streams {
			if st.refused != "" {
				refused = append(refused, id)
			}
		}
		for a := 1; a < len(refused); a++ {
			for b := a; b > 0 && refused[b] < refused[b-1]; b-- {
				refused[b], refused[b-1] = refused[b-1], refused[b]
			}
		}
		steer := len(refused) > 0 && g.Chance(2, 5)
		if steer {
			N := refused[g.Intn(len(refused))]
			valid := c35ValidHK[g.Intn(len(c35ValidHK))]
			mode := []string{"block", "now", "now"}[g.Intn(3)]
			switch g.Intn(7) {
			case 0:
				op = c35Op{Kind: "headers", ID: N, HK: valid, ES: g.Bool(), Mode: mode}
			case 1:
				low := N
				for c := N; c >= 3; c -= 2 {
					if _, used := rf.streams[c-2]; !used {
						low = c - 2
						break
					}
				}
				op = c35Op{Kind: "headers", ID: low, HK: valid, ES: g.Bool(), Mode: mode}
			case 2:
				op = c35Op{Kind: "rst", ID: N}
			case 3:
				op = c35Op{Kind: "wupdate", ID: N, N: 1}
			case 4:
				op = c35Op{Kind: "priority", ID: N, Dep: 0}
			default:
				id := nextOdd()
				if id > 19 {
					steer = false
				}
				op = c35Op{Kind: "headers", ID: id, HK: valid, ES: true, Mode: "now"}
			}
		}
		switch x := g.Intn(20); {
		case steer:
		case x < 7:
			op = c35Op{Kind: "headers", ID: pickID(), ES: g.Bool(), Split: g.Chance(1, 5)}
			st := rf.streams[op.ID]
			switch {
			case st != nil && g.Chance(3, 4):
				op.HK = []string{"trailers", "trailers", "trailers-pseudo", "get"}[g.Intn(4)]
			case g.Chance(1, 3):
				op.HK = c35BadHK[g.Intn(len(c35BadHK))]
			default:
				op.HK = c35ValidHK[g.Intn(len(c35ValidHK))]
			}
			if st == nil && g.Chance(2, 3) {
				id := nextOdd()
				if id <= 19 {
					op.ID = id
				}
			}
			op.Mode = []string{"block", "block", "block", "now", "readbody"}[g.Intn(5)]
		case x < 11:
			op = c35Op{Kind: "data", ID: pickID(), N: []int{0, 1, 10, 100}[g.Intn(4)], ES: g.Chance(1, 3)}
		case x < 13:
			op = c35Op{Kind: "rst", ID: pickID()}
		case x < 14:
			op = c35Op{Kind: "priority", ID: pickID(), Dep: uint32(g.Intn(10))}
		case x < 15:
			op = c35Op{Kind: "wupdate", ID: pickID(), N: g.Intn(3)}
		case x < 19:
			// release a blocked handler
			var ids []uint32
			for id, s := range rf.streams {
				if !s.limbo && s.state != "closed" && s.mode == "block" {
					ids = append(ids, id)
				}
			}
			if len(ids) == 0 {
				op = c35Op{Kind: "data", ID: pickID(), N: 1}
			} else {
				for a := 1; a < len(ids); a++ {
					for b := a; b > 0 && ids[b] < ids[b-1]; b-- {
						ids[b], ids[b-1] = ids[b-1], ids[b]
					}
				}
				op = c35Op{Kind: "release", ID: ids[g.Intn(len(ids))]}
			}
		default:
			if k == n-1 {
				op = c35Op{Kind: "cont-abuse", ID: nextOdd()}
			} else {
				op = c35Op{Kind: "priority", ID: pickID(), Dep: uint32(g.Intn(10))}
			}
		}
		// valid padding and priority fields are transparent to the stream rules: any HEADERS / DATA of the
		// script may carry them (the invalid ones are the flag-space driver's business)
		if op.Kind == "headers" || op.Kind == "data" {
			if g.Chance(1, 4) {
				op.Pad = uint8(g.Range(1, 9))
			}
			if op.Kind == "headers" && g.Chance(1, 5) {
				op.Prio, op.Excl = true, g.Bool()
				op.Dep = uint32(g.Intn(10))
				if op.Dep == op.ID {
					op.Dep = 0
				}
			}
		}
		exp, shp := rf.classify(k, op)
		if op.Kind == "release" {
			if s := rf.streams[op.ID]; s != nil {
				if s.state == "open" {
					s.state, s.closedBy = "closed", "server"
				} else {
					s.state, s.closedBy = "closed", "ended"
				}
			}
		}
		if exp == expLegal && op.Kind != "release" && !strings.Contains(shp, "refused-open") && g.Chance(1, 4) {
			op.NoSync = true
		}
		if op.Kind == "headers" && exp == expLegal && op.Mode != "block" {
			// the stream finishes on its own; the shadow treats it as closed by the server once over
			op.NoSync = false
		}
		cs.Ops = append(cs.Ops, op)
		if exp == expConn {
			break
		}
	}
	return cs
}

type pendHdr struct {
	k    int
	exp  string
	mode string
}

type c35Outcome struct {
	ran       int
	rejects   int
	legals    int
	conns     int
	why       string
	connEnded bool
}

func c35RunCase(r *vkit.Run, cs *c35Case) (out c35Outcome) {
	h := &c35Handler{invoked: map[int]uint32{}, release: map[int]chan struct{}{}, modes: map[int]string{}, all: make(chan struct{})}
	srv := &bfe_http2.Server{MaxConcurrentStreams: c35MaxStreams}
	tc := dialPipe(srv, h)
	rf := &c35Ref{streams: map[uint32]*c35RefStream{}}
	var mustNotRun []int // op indexes whose HEADERS must never reach the harness handler
	shapes := map[int]string{}
	violated := false
	viol := func(sig, what string, upto int) {
		violated = true
		w := map[string]interface{}{"ops": cs.Ops[:upto+1], "ops_text": fmt.Sprint(cs.Ops[:upto+1])}
		var tail []string
		evs := tc.cli.Events()
		for k := len(evs) - 8; k < len(evs); k++ {
			if k >= 0 {
				tail = append(tail, evs[k].String())
			}
		}
		w["last_frames_from_server"] = tail
		r.Violation(sig, what, w)
	}
	lastShape := ""
	defer func() {
		close(h.all)
		tc.cli.Close()
		if !tc.waitDone(20 * time.Second) {
			r.Inconclusive("C35: serve goroutine still running 20s after the client closed")
		}
		if !h.census.waitNone(20 * time.Second) {
			r.Violation("handler-goroutine-leak", "a handler goroutine was still running 20s after the connection ended", cs)
		}
		if p := tc.vc.Panicked(); p != "" {
			atomic.AddInt32(&panicSeen, 1)
			r.Violation("panic:"+c35PanicShape(tc.vc.PanicStack(), p), "bfe_http2 serve goroutine panicked ("+p+") after "+lastShape,
				map[string]interface{}{"ops": cs.Ops[:out.ran], "ops_text": fmt.Sprint(cs.Ops[:out.ran]), "panic": p, "stack": trunc(tc.vc.PanicStack(), 3000)})
		}
		// handlers of refused requests must never have run (checked after everything settled)
		for _, k := range mustNotRun {
			if h.wasInvoked(k) && !violated {
				viol("accepted:"+shapes[k], "the request of op "+fmt.Sprint(k)+" "+cs.Ops[k].String()+" had to be refused but reached the handler", k)
			}
		}
	}()
	if err := tc.cli.Start(); err != nil {
		out.why = "start"
		return
	}
	if _, err := tc.cli.Sync(); err != nil {
		out.why = "first sync"
		return
	}
	evPos := tc.cli.NumEvents()
	type pend struct {
		k     int
		op    c35Op
		exp   string
		shape string
	}
	var group []pend
	// respEnded: the server finished (END_STREAM) or reset stream id after its HEADERS was sent
	// (earlier RST_STREAMs for the same id, e.g. answers to DATA on the then idle stream, do not count)
	since := map[uint32]int{}
	lastHdr := map[uint32]pendHdr{}
	respEnded := func(evs []h2cli.Event, id uint32) bool {
		for i := since[id]; i < len(evs); i++ {
			e := evs[i]
			if e.StreamID == id && (e.EndStream || e.Type == http2.FrameRSTStream) {
				return true
			}
		}
		return false
	}
	for k, op := range cs.Ops {
		out.ran = k + 1
		exp, shape := rf.classify(k, op)
		shapes[k] = shape
		lastShape = shape
		r.Count("exp:"+exp, 1)
		var err error
		switch op.Kind {
		case "headers":
			h.mu.Lock()
			h.modes[k] = op.Mode
			h.mu.Unlock()
			if exp == expReject || exp == expConn {
				mustNotRun = append(mustNotRun, k)
			}
			o := h2cli.HeadersOpt{EndStream: op.ES && op.HK != "head-open-body"}
			if op.Split {
				o.Split = 3
			}
			o.PadLen = op.Pad
			if op.Prio {
				o.Priority = &http2.PriorityParam{StreamDep: op.Dep, Exclusive: op.Excl, Weight: 5}
				r.Count("headers_with_priority_fields", 1)
			}
			if op.Pad > 0 {
				r.Count("headers_padded", 1)
			}
			if strings.HasSuffix(shape, "@idle") || strings.HasSuffix(shape, "@over-concurrency-limit") || strings.HasSuffix(shape, "@even-idle") {
				since[op.ID] = tc.cli.NumEvents()
			}
			lastHdr[op.ID] = pendHdr{k, exp, op.Mode}
			err = tc.cli.WriteHeaders(op.ID, c35Fields(op.HK, k), o)
		case "data":
			if op.Pad > 0 {
				r.Count("data_padded", 1)
				err = tc.cli.WriteDataPadded(op.ID, op.ES, make([]byte, op.N), int(op.Pad))
			} else {
				err = tc.cli.WriteData(op.ID, op.ES, make([]byte, op.N))
			}
		case "rst":
			err = tc.cli.WriteRST(op.ID, http2.ErrCodeCancel)
		case "priority":
			err = tc.cli.WritePriority(op.ID, http2.PriorityParam{StreamDep: op.Dep, Weight: 5})
		case "wupdate":
			err = tc.cli.WriteWindowUpdate(op.ID, []uint32{0, 1, 1<<31 - 1}[op.N])
		case "cont-abuse":
			err = tc.cli.WriteHeaders(op.ID, c35Fields("get", k), h2cli.HeadersOpt{NoEndHdrs: true})
		case "release":
			st := rf.streams[op.ID]
			if st == nil || st.state == "closed" || st.mode != "block" {
				continue
			}
			close(h.relCh(st.opIdx))
			werr := tc.cli.Wait(func(evs []h2cli.Event) bool { return respEnded(evs, op.ID) })
			if werr == h2cli.ErrTimeout {
				out.why = "released handler's response did not arrive"
				return
			}
			if st.state == "open" {
				// the client had not finished its request: the server resets the stream itself, so
				// client frames still in flight are an allowed race
				st.state, st.closedBy = "closed", "server"
			} else {
				st.state, st.closedBy = "closed", "ended"
			}
		}
		if err != nil {
			out.connEnded = true
		}
		group = append(group, pend{k, op, exp, shape})
		if op.NoSync && k != len(cs.Ops)-1 && err == nil {
			continue
		}
		// ---- end of group: round trip, then judge the reactions ----
		_, serr := tc.cli.Sync()
		evs := tc.cli.Events()
		window := evs[evPos:]
		evPos = len(evs)
		connErr := serr != nil
		var goAway *h2cli.Event
		rst := map[uint32]http2.ErrCode{}
		for i := range window {
			e := &window[i]
			switch e.Type {
			case http2.FrameGoAway:
				goAway = e
				if e.ErrCode != http2.ErrCodeNo {
					connErr = true
				}
			case http2.FrameRSTStream:
				rst[e.StreamID] = e.ErrCode
			}
		}
		allLegal := true
		for _, p := range group {
			if p.exp != expLegal && p.exp != expNoConn {
				allLegal = false // a connection error in this window may belong to that other frame
			}
		}
		for gi, p := range group {
			_, gotRST := rst[p.op.ID]
			switch p.exp {
			case expConn:
				out.conns++
				if !connErr {
					viol("no-connection-error:"+p.shape, fmt.Sprintf("op %d %v must be a connection error; server reaction: rst=%v goaway=%v", p.k, p.op, rst, goAway), p.k)
					return
				}
				r.Count("conn_errors_observed", 1)
			case expReject:
				out.rejects++
				switch {
				case connErr:
					r.Count("reject_by_connection_error", 1)
				case gotRST:
					r.Count("reject_by_rst:"+rst[p.op.ID].String(), 1)
				case p.op.Kind == "headers" && (strings.HasSuffix(p.shape, "@idle") || strings.HasSuffix(p.shape, "@over-concurrency-limit")):
					// a refused new request may also be answered with a 4xx response; the handler must not run
					var status string
					werr := tc.cli.Wait(func(evs []h2cli.Event) bool {
						if h.wasInvoked(p.k) {
							return true
						}
						for _, e := range evs {
							if e.StreamID == p.op.ID && e.Type == http2.FrameHeaders {
								for _, f := range e.Fields {
									if f.Name == ":status" {
										status = f.Value
									}
								}
								return true
							}
							if e.StreamID == p.op.ID && e.Type == http2.FrameRSTStream {
								status = "rst"
								return true
							}
						}
						return false
					})
					switch {
					case h.wasInvoked(p.k):
						viol("accepted:"+p.shape, fmt.Sprintf("op %d %v had to be refused but reached the handler", p.k, p.op), p.k)
						return
					case werr == h2cli.ErrEnded:
						r.Count("reject_by_connection_error", 1)
						connErr = true
					case werr != nil:
						// neither refused nor served within the safety bound: poll the handler flag a last time
						out.why = "no visible reaction to a malformed request"
						return
					case status == "rst" || strings.HasPrefix(status, "4"):
						r.Count("reject_by_response_"+status, 1)
						// the refusal is a complete response: wait for its end so that the stream is gone at the server
						if werr := tc.cli.Wait(func(evs []h2cli.Event) bool { return respEnded(evs, p.op.ID) }); werr == h2cli.ErrTimeout {
							out.why = "4xx refusal never finished"
							return
						}
					default:
						viol("accepted:"+p.shape, fmt.Sprintf("op %d %v had to be refused but was answered with status %s", p.k, p.op, status), p.k)
						return
					}
				default:
					viol("no-error:"+p.shape, fmt.Sprintf("op %d %v must be refused (stream or connection error); server sent neither RST_STREAM for stream %d nor GOAWAY", p.k, p.op, p.op.ID), p.k)
					return
				}
			case expNoConn:
				out.rejects++
				if connErr && !allLegal {
					break // pipelined with a frame that may legitimately end the connection: not attributable
				}
				if connErr {
					code := "close"
					if goAway != nil {
						code = goAway.ErrCode.String()
					}
					viol("connection-error:"+p.shape+":"+code, fmt.Sprintf("op %d %v addresses a closed stream (its opening HEADERS was refused, the identifier is used) but the connection ended (%s)", p.k, p.op, code), p.k)
					return
				}
				r.Count("frames_on_refused_stream_tolerated", 1)
			case expLegal:
				out.legals++
				if !allLegal || gi < 0 {
					break
				}
				if connErr {
					code := "close"
					if goAway != nil {
						code = goAway.ErrCode.String()
					}
					viol("legal-frame-rejected:"+p.shape+":connection-"+code, fmt.Sprintf("group %v is legal but the connection ended (%s)", group, code), p.k)
					return
				}
				if gotRST && p.op.Kind != "rst" {
					// a NO_ERROR reset after a complete response is the server's way to stop an unread upload (8.1)
					if rst[p.op.ID] == http2.ErrCodeNo && respEnded(evs, p.op.ID) {
						break
					}
					viol("legal-frame-rejected:"+p.shape+":rst-"+rst[p.op.ID].String(), fmt.Sprintf("op %d %v is legal but stream %d was reset with %v", p.k, p.op, p.op.ID, rst[p.op.ID]), p.k)
					return
				}
				if p.op.Kind == "headers" && strings.HasSuffix(p.shape, "@idle") {
					// a legal new request must reach the handler
					dl := time.Now().Add(20 * time.Second)
					for !h.wasInvoked(p.k) && time.Now().Before(dl) {
						if e, _ := tc.cli.Ended(); e {
							break
						}
						time.Sleep(200 * time.Microsecond)
					}
					if !h.wasInvoked(p.k) {
						if e, _ := tc.cli.Ended(); e {
							viol("legal-frame-rejected:"+p.shape+":connection-close", fmt.Sprintf("op %d %v is a legal request but the connection ended", p.k, p.op), p.k)
						} else {
							out.why = "legal request did not reach the handler within the safety bound"
						}
						return
					}
					r.Count("legal_requests_served", 1)
				}
			}
		}
		// bring the tracker up to date with closures the server decided on
		for id := range rst {
			if s := rf.streams[id]; s != nil && s.state != "closed" {
				s.state, s.closedBy = "closed", "server"
			}
		}
		// streams whose handler finishes on its own: wait until they are over so that the tracker is exact
		for _, p := range group {
			if p.op.Kind == "headers" && p.exp == expLegal {
				s := rf.streams[p.op.ID]
				if s == nil || s.state == "closed" {
					continue
				}
				if s.mode == "now" || (s.mode == "readbody" && s.state == "hcr") {
					werr := tc.cli.Wait(func(evs []h2cli.Event) bool { return respEnded(evs, p.op.ID) })
					if werr == h2cli.ErrTimeout {
						out.why = "response of a self-finishing handler did not arrive"
						return
					}
					s.state, s.closedBy = "closed", "server"
					if s.mode == "readbody" {
						s.closedBy = "ended"
					}
				}
			}
			if (p.op.Kind == "data" || p.op.Kind == "headers") && p.op.ES && p.exp == expLegal {
				s := rf.streams[p.op.ID]
				if s != nil && s.state == "hcr" && s.mode == "readbody" {
					werr := tc.cli.Wait(func(evs []h2cli.Event) bool { return respEnded(evs, p.op.ID) })
					if werr == h2cli.ErrTimeout {
						out.why = "response of a body-reading handler did not arrive"
						return
					}
					s.state, s.closedBy = "closed", "ended"
				}
			}
		}
		group = group[:0]
		if connErr || out.connEnded {
			out.connEnded = true
			return
		}
		if e, _ := tc.cli.Ended(); e {
			out.connEnded = true
			return
		}
		// after waiting for responses do one more round trip so that the RST(NO_ERROR) that may follow
		// an early response is in, then self-check the tracker against the server's own count
		if _, err := tc.cli.Sync(); err != nil {
			out.connEnded = true
			return
		}
		evs = tc.cli.Events()
		for _, e := range evs[evPos:] {
			if e.Type == http2.FrameRSTStream {
				if s := rf.streams[e.StreamID]; s != nil && s.state != "closed" {
					s.state, s.closedBy = "closed", "server"
				}
			}
		}
		evPos = len(evs)
		if snap, alive := tc.vc.OnServe(); alive {
			// an EITHER HEADERS on an id whose state the RFC leaves open (after a malformed open, below an
			// attempted id) may have been accepted as a new stream: adopt the server's decision
			for _, ss := range snap.Streams {
				cur := rf.streams[ss.ID]
				if cur != nil && !cur.limbo && cur.state != "closed" {
					continue
				}
				lh, ok := lastHdr[ss.ID]
				if !ok || lh.exp != expEither {
					continue
				}
				ns := &c35RefStream{state: "open", mode: lh.mode, opIdx: lh.k}
				if ss.State == 3 {
					ns.state = "hcr"
				}
				if ns.mode != "block" {
					// it will finish on its own at a time the script does not control
					ns.mode = "self"
				}
				rf.streams[ss.ID] = ns
				if ss.ID > rf.maxAccepted {
					rf.maxAccepted = ss.ID
				}
				if ss.ID > rf.maxAttempted {
					rf.maxAttempted = ss.ID
				}
				r.Count("tracker_adopted_server_decision", 1)
			}
			// adopted streams finish on their own: follow the server
			for id, cur := range rf.streams {
				if cur.mode != "self" || cur.state == "closed" {
					continue
				}
				found := false
				for _, ss := range snap.Streams {
					if ss.ID == id {
						found = true
					}
				}
				if !found {
					cur.state, cur.closedBy = "closed", "server"
				}
			}
			if int(snap.CurOpenStreams) != rf.openCount() {
				out.why = fmt.Sprintf("tracker desync: server has %d open streams, tracker %d", snap.CurOpenStreams, rf.openCount())
				if os.Getenv("VH2_DEBUG") != "" {
					fmt.Fprintf(os.Stderr, "DESYNC %s after %v\n  server streams %+v\n", out.why, cs.Ops[:k+1], snap.Streams)
				}
				return
			}
			r.Count("tracker_selfchecks_ok", 1)
		}
	}
	return
}

// c35PanicShape names a serve panic by its class and the innermost bfe_http2
// function on the panicking stack (the cause), not by the frame sequence.
func c35PanicShape(stack, p string) string {
	cls := "other"
	switch {
	case strings.Contains(p, "nil pointer"):
		cls = "nil-deref"
	case strings.Contains(p, "internal error"):
		cls = "internal-error"
	case strings.Contains(p, "invariant"):
		cls = "invariant"
	case strings.Contains(p, "out of range"):
		cls = "index-out-of-range"
	}
	fn := "unknown"
	past := false
	for _, l := range strings.Split(stack, "\n") {
		if strings.HasPrefix(l, "panic(") {
			past = true
			continue
		}
		if past && strings.HasPrefix(l, "github.com/bfenetworks/bfe/bfe_http2.") && !strings.Contains(l, "notePanic") && !strings.Contains(l, "erif") {
			fn = strings.TrimPrefix(l, "github.com/bfenetworks/bfe/bfe_http2.")
			if j := strings.LastIndex(fn, "("); j > 0 {
				fn = fn[:j]
			}
			break
		}
	}
	return cls + ":" + fn
}

func c35(r *vkit.Run) {
	if os.Getenv("VH2_DEBUG") == "probe35" {
		c35Probe()
		r.SetMinDistinct(0)
		r.Evals(1)
		return
	}
	r.SetRule("one case = one connection (net.Pipe, MAX_CONCURRENT_STREAMS=3) fed 3-24 frames over stream ids 0-9 (even, decreasing, reused): HEADERS (3 valid request shapes, 15 malformed ones: missing/empty/unknown/duplicate/misordered pseudo-headers, upper-case names, connection-specific fields, TE!=trailers; trailers with/without END_STREAM, with pseudo-headers; optional CONTINUATION split), DATA 0-100 octets with/without END_STREAM on every state, RST_STREAM, PRIORITY, WINDOW_UPDATE 0/1/2^31-1, HEADERS without END_HEADERS followed by PING, handler completion (handlers block until released, return at once, or read the body); 1/4 of the HEADERS and DATA frames are PADDED (valid Pad Length 1-8), 1/5 of the HEADERS carry priority fields (dependency 0-9, never the stream itself, exclusive or not). Lockstep: PING round trip after each group (1/4 of legal frames are pipelined with the next). A reference tracker written from RFC 7540 5.1/5.1.1/5.1.2/8.1/8.1.2 classifies every frame LEGAL / REJECT / CONN / EITHER; only the rules named in the statement are REJECT/CONN (even or non-increasing ids - an id whose opening HEADERS was refused with RST_STREAM, a 4xx answer or REFUSED_STREAM counts as used (5.1.1) and later HEADERS with that or a lower id must not be served, while RST_STREAM / WINDOW_UPDATE / PRIORITY on it address a closed stream and must not end the connection; concurrency limit, DATA/HEADERS on closed or half-closed(remote) streams, trailers without END_STREAM or with pseudo-headers, malformed pseudo-headers, connection-specific fields); everything else (idle-stream DATA/RST/WINDOW_UPDATE, stream 0, DATA after a server-side reset) is EITHER. The tracker is self-checked against the server's open-stream count after every group. Independently: recovered serve panics (hook + H2PanicConn) and handler goroutine census after the connection ended. Flag space (c35flags.go; runs first, 8 connections at a time, every step written ahead because a panic on the server's readFrames goroutine - which has no recover - kills the process; bin/check turns that fatal exit into a VIOLATION crash:<panic site> whose witness lists the <= 8 steps on the wire, and replaying it runs them one by one): frames written octet by octet - HEADERS with all 16 combinations of END_STREAM/END_HEADERS/PADDED/PRIORITY (1/3 with the undefined bits 0xd2 on top), header block empty / one octet / complete, 0 or 4 octets of padding present, Pad Length on 0,1,2, the number of padding octets present, payload length-7..+1 and 255 (classes: fits / overlaps the priority fields / exceeds the frame; thorough: every value), payloads of 0,2,3,4,5 octets ending inside the optional fields, priority fields drawn from dependency {0, itself, stream 1, an idle stream} x exclusive bit x weight {0,15,255}, frames without END_HEADERS followed by a CONTINUATION whose flags are drawn from {EH, EH|0x08, EH|0x20, EH|0x29, 0xff}; DATA x {ES,PADDED} x length {0,1,2,6,20} x Pad Length {0,1,len-2..len+1,255}; PRIORITY frames x 6 flag patterns x 8 priority-field kinds and lengths 0,1,4,6; CONTINUATION with no header block in progress x 5 flag patterns; PUSH_PROMISE x {EH,PADDED} x lengths x Pad Length; RST_STREAM, SETTINGS, PING, GOAWAY, WINDOW_UPDATE and two unknown types x 6 flag patterns x lengths 0,1,4,5,6,8,9 (quick: half of them) - each on a fresh (idle) stream and (HEADERS, PRIORITY, PUSH_PROMISE quick: a seeded 1/4-1/2; DATA: all) on an open, a half-closed(remote), a client-reset stream and stream 0. Judged per step: the PING that follows is acknowledged, or the connection ends with GOAWAY or close (never a verdict from time: no reaction within 60 s = incomplete); no recovered serve panic; the process lives; a complete valid request with valid padding / priority fields (not self-dependent) / undefined flag bits (RFC 7540 4.1: MUST be ignored) on a fresh connection must be served and valid DATA on an open stream must not be refused. How invalid padding is refused (stream error, connection error, close) is recorded, not judged: the statement names no padding rule. Non-trivial = at least one REJECT/CONN frame was judged (sequence driver) / every flag-space step; distinct = op list / (context, frames)")
	r.Assume("x/net http2 Framer+hpack as client codec; a REJECT of a new request may be RST_STREAM, GOAWAY/close or a 4xx answer as long as the handler never runs")
	if r.Replay != "" {
		var w struct {
			Ops      []c35Op   `json:"ops"`
			FlagStep *c35fStep `json:"flag_step"`
			CurCase  struct {
				Case struct {
					InFlight []struct {
						Step struct {
							FlagStep *c35fStep `json:"flag_step"`
						} `json:"step"`
					} `json:"in_flight"`
				} `json:"case"`
			} `json:"cur_case"` // witness of a crash report: the steps written ahead
		}
		if err := r.LoadReplay(&w); err != nil {
			r.Inconclusive(err.Error())
			return
		}
		var fsteps []*c35fStep
		if w.FlagStep != nil {
			fsteps = append(fsteps, w.FlagStep)
		}
		for _, f := range w.CurCase.Case.InFlight {
			if f.Step.FlagStep != nil {
				fsteps = append(fsteps, f.Step.FlagStep)
			}
		}
		if len(fsteps) > 0 {
			// one at a time: a crash now names the single step that was on the wire
			c35fReplay(r, fsteps)
			r.SetMinDistinct(0)
			return
		}
		cs := &c35Case{Ops: w.Ops}
		out := c35RunCase(r, cs)
		if out.why != "" {
			r.Inconclusive("replay: " + out.why)
		}
		r.Evals(1)
		r.SetMinDistinct(0)
		return
	}
	// the flag-space driver first and alone: a fatal crash is then attributed to exactly one step
	fsteps := c35fSteps(r)
	r.Count("flag_steps_generated", int64(len(fsteps)))
	c35FlagSpace(r, fsteps, c35fLanes)
	c35fCoverage(r, fsteps)
	n := envN(r.N(6000, 80000))
	vkit.Parallel(n, 64, func(i int) {
		cs := c35Gen(r, i)
		out := c35RunCase(r, cs)
		r.CaseS(fmt.Sprint(cs.Ops), out.rejects+out.conns > 0)
		r.Count("frames_sent", int64(out.ran))
		if out.why != "" {
			r.Count("cases_incomplete", 1)
			r.Count("incomplete:"+strings.SplitN(out.why, ":", 2)[0], 1)
		}
		if r.WantSample() && out.rejects > 1 {
			r.Sample(fmt.Sprint(cs.Ops))
		}
	})
	c35InFlight(r)
	if r.Counter("exp:REJECT") == 0 || r.Counter("exp:CONN") == 0 || r.Counter("exp:LEGAL") == 0 {
		r.Inconclusive("C35: an expectation class was never generated")
	}
	if r.Counter("headers_padded") == 0 || r.Counter("headers_with_priority_fields") == 0 || r.Counter("data_padded") == 0 {
		r.Inconclusive("C35: the sequence driver sent no padded HEADERS / DATA or no HEADERS with priority fields")
	}
	if r.Counter("legal_requests_served") == 0 {
		r.Inconclusive("C35: no legal request was served")
	}
	if int(r.Counter("cases_incomplete")) > n/10 {
		r.Inconclusive(fmt.Sprintf("C35: %d of %d cases incomplete", r.Counter("cases_incomplete"), n))
	}
}
