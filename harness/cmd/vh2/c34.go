package main

import (
	"encoding/binary"
	"encoding/json"
	"fmt"
	"os"
	"sync"
	"sync/atomic"
	"time"

	bfe_http "github.com/bfenetworks/bfe/bfe_http"
	"golang.org/x/net/http2"
	"golang.org/x/net/http2/hpack"

	"verifharness/h2cli"
	"verifharness/vkit"
)

// C34: DATA frames the server sends never exceed the client's current stream
// and connection windows or its MAX_FRAME_SIZE; frames of one stream arrive in
// the order produced; nothing on a stream after it ended or was reset.
//
// The scripted client owns the truth. Its view of a send window of the server
// is an upper bound of the server's real window at every instant: its own
// WINDOW_UPDATEs are added before they are written, received DATA is subtracted
// on arrival, SETTINGS_INITIAL_WINDOW_SIZE changes are applied when the
// server's acknowledgement arrives (the ack separates frames sent under the
// old and the new value). A negative view on arrival is therefore a violation.

// c34Byte is the body pattern: octet k of stream id.
func c34Byte(id uint32, k int64) byte {
	x := uint64(k)*0x9E3779B97F4A7C15 + uint64(id)*0xBF58476D1CE4E5B9
	x ^= x >> 29
	return byte(x * 0x94D049BB133111EB >> 56)
}

func c34Fill(id uint32, off int64, b []byte) {
	for i := range b {
		b[i] = c34Byte(id, off+int64(i))
	}
}

type c34StreamPlan struct {
	Chunks  []int  `json:"chunks"`   // handler write sizes in order
	FlushAt []int  `json:"flush_at"` // flush after these chunk indexes
	ResetAt int64  `json:"reset_at"` // client resets the stream once it has received this many octets (-1 never)
	OpenAt  int    `json:"open_at"`  // opened after this many DATA events were seen (0 = at start)
	Policy  string `json:"policy"`   // stream-level window policy: drip | exact | huge | batch
}

type c34Action struct {
	AfterData int    `json:"after_data"` // trigger once this many DATA events arrived
	Kind      string `json:"kind"`       // iws | mfs
	Val       uint32 `json:"val"`
}

type c34Case struct {
	IWS        uint32          `json:"initial_window_size"`
	MFS        uint32          `json:"max_frame_size"`
	ConnPolicy string          `json:"conn_policy"`
	Streams    []c34StreamPlan `json:"streams"`
	Actions    []c34Action     `json:"actions"`
	Seed       uint64          `json:"seed"`
}

type c34Handler struct {
	plans  sync.Map // key -> *c34HState
	census handlerCensus
}

type c34HState struct {
	id    uint32
	plan  *c34StreamPlan
	wrote int64 // octets accepted by Write without error
	werr  atomic.Value
	done  chan struct{}
}

func (h *c34Handler) ServeHTTP(w bfe_http.ResponseWriter, req *bfe_http.Request) {
	key := req.Header.Get("X-Ctl")
	h.census.enter(key)
	defer h.census.leave(key)
	v, ok := h.plans.Load(key)
	if !ok {
		w.WriteHeader(500)
		return
	}
	st := v.(*c34HState)
	defer close(st.done)
	w.Header().Set("Content-Type", "application/octet-stream")
	fl := map[int]bool{}
	for _, i := range st.plan.FlushAt {
		fl[i] = true
	}
	var off int64
	for i, n := range st.plan.Chunks {
		b := make([]byte, n)
		c34Fill(st.id, off, b)
		m, err := w.Write(b)
		off += int64(m)
		atomic.StoreInt64(&st.wrote, off)
		if err != nil {
			st.werr.Store(err.Error())
			return
		}
		if fl[i] {
			w.(bfe_http.Flusher).Flush()
		}
	}
}

// c34Client is the oracle state, updated on the reader goroutine.
type c34Client struct {
	r  *vkit.Run
	cs *c34Case

	mu       sync.Mutex
	conn     int64
	win      map[uint32]int64
	bornPend map[uint32]bool // stream opened while an IWS change was unacknowledged
	recvd    map[uint32]int64
	ended    map[uint32]bool
	rstSent  map[uint32]bool
	rstPing  map[[8]byte]uint32
	rstAcked map[uint32]bool
	gotHdr   map[uint32]bool
	ackedIWS int64
	pendIWS  int64 // -1 none
	ackedMFS uint32
	pendMFS  uint32 // 0 none
	setPend  bool
	dataEvs  int
	viol     []string
	goAway   bool
	srvRST   map[uint32]http2.ErrCode
	maxFrame uint32
	negSeen  bool // a stream window view was negative at some point (6.9.2 coverage)
	iwsDown  bool // the client has sent a SETTINGS that lowers INITIAL_WINDOW_SIZE
}

func (c *c34Client) flag(sig, what string) {
	c.viol = append(c.viol, sig+"|"+what)
}

func (c *c34Client) onEvent(e *h2cli.Event) {
	c.mu.Lock()
	defer c.mu.Unlock()
	switch e.Type {
	case http2.FrameData:
		id := e.StreamID
		c.dataEvs++
		if c.ended[id] {
			c.flag("frame-after-end-stream", fmt.Sprintf("DATA on stream %d after END_STREAM", id))
		}
		if c.rstAcked[id] {
			c.flag("frame-after-acked-reset", fmt.Sprintf("DATA on stream %d after the client's RST_STREAM was followed by a PING round trip", id))
		}
		L := int64(e.FlowLen)
		c.conn -= L
		c.win[id] -= L
		if c.conn < 0 && L > 0 {
			c.flag("window-exceeded:connection", fmt.Sprintf("DATA of %d octets on stream %d arrived with connection window view %d before it", L, id, c.conn+L))
		}
		if c.win[id] < 0 && L > 0 { // a zero-length frame (END_STREAM) consumes nothing and is legal at any window
			c.flag("window-exceeded:stream", fmt.Sprintf("DATA of %d octets on stream %d arrived with stream window view %d before it", L, id, c.win[id]+L))
		}
		lim := c.ackedMFS
		if c.pendMFS > lim {
			lim = c.pendMFS
		}
		if e.FlowLen > lim {
			c.flag("frame-size-exceeded", fmt.Sprintf("DATA frame of %d octets, MAX_FRAME_SIZE in force %d (acked %d, pending %d)", e.FlowLen, lim, c.ackedMFS, c.pendMFS))
		}
		if e.FlowLen > c.maxFrame {
			c.maxFrame = e.FlowLen
		}
		off := c.recvd[id]
		for i, b := range e.Data {
			if b != c34Byte(id, off+int64(i)) {
				if c.rstSent[id] {
					// frames may still arrive between the client's RST_STREAM and the PING ack, but they
					// must carry what the handler produced
					c.flag("data-corrupt-after-client-reset", fmt.Sprintf("stream %d (reset by the client, PING not yet acknowledged): octet at offset %d of a DATA frame differs from what the handler wrote at that offset", id, off+int64(i)))
				} else {
					c.flag("data-order-or-content", fmt.Sprintf("stream %d: octet at offset %d differs from what the handler wrote at that offset", id, off+int64(i)))
				}
				break
			}
		}
		c.recvd[id] = off + int64(len(e.Data))
		if e.EndStream {
			c.ended[id] = true
		}
	case http2.FrameHeaders:
		id := e.StreamID
		if c.ended[id] {
			c.flag("frame-after-end-stream", fmt.Sprintf("HEADERS on stream %d after END_STREAM", id))
		}
		if c.rstAcked[id] {
			c.flag("frame-after-acked-reset", fmt.Sprintf("HEADERS on stream %d after acknowledged reset", id))
		}
		c.gotHdr[id] = true
		if e.EndStream {
			c.ended[id] = true
		}
	case http2.FrameSettings:
		if e.Ack && c.setPend {
			c.setPend = false
			if c.pendIWS >= 0 {
				d := c.pendIWS - c.ackedIWS
				for id := range c.win {
					if !c.bornPend[id] {
						c.win[id] += d
						if c.win[id] < 0 {
							c.negSeen = true
						}
					}
				}
				c.ackedIWS = c.pendIWS
				c.pendIWS = -1
			}
			for id := range c.bornPend {
				delete(c.bornPend, id)
			}
			if c.pendMFS != 0 {
				c.ackedMFS = c.pendMFS
				c.pendMFS = 0
			}
		}
	case http2.FramePing:
		if e.Ack {
			if id, ok := c.rstPing[e.PingData]; ok {
				c.rstAcked[id] = true
			}
		}
	case http2.FrameGoAway:
		c.goAway = true
	case http2.FrameRSTStream:
		c.srvRST[e.StreamID] = e.ErrCode
	}
}

func c34Gen(r *vkit.Run, i int) *c34Case {
	g := r.Rng("c34", i)
	cs := &c34Case{Seed: g.U64()}
	cs.IWS = []uint32{0, 1, 100, 5000, 65535, 65535, 1 << 20}[g.Intn(7)]
	cs.MFS = []uint32{16384, 16384, 16385, 65536, 1 << 20, 1<<24 - 1}[g.Intn(6)]
	cs.ConnPolicy = []string{"drip", "exact", "huge", "batch"}[g.Intn(4)]
	n := g.Range(1, 8)
	if g.Chance(1, 6) {
		n = g.Range(9, 16)
	}
	small := cs.ConnPolicy == "drip"
	var totalAll int
	for k := 0; k < n; k++ {
		var p c34StreamPlan
		p.Policy = []string{"drip", "exact", "huge", "batch"}[g.Intn(4)]
		var total int
		switch {
		case small || p.Policy == "drip" || cs.IWS <= 100 && g.Bool():
			total = g.Range(0, 1500)
		case g.Chance(1, 12):
			total = g.Range(300000, 1200000)
		default:
			total = g.Range(0, 150000)
		}
		totalAll += total
		left := total
		for left > 0 {
			c := []int{1, 10, 100, 1000, 4095, 4096, 4097, 5000, 16384, 65536, 300000}[g.Intn(11)]
			if c > left {
				c = left
			}
			p.Chunks = append(p.Chunks, c)
			left -= c
			if g.Chance(1, 5) {
				p.FlushAt = append(p.FlushAt, len(p.Chunks)-1)
			}
		}
		if total == 0 && g.Bool() {
			p.Chunks = []int{0}
		}
		p.ResetAt = -1
		if g.Chance(1, 5) {
			p.ResetAt = int64(g.Range(0, total))
		}
		if k > 0 && g.Chance(1, 3) {
			p.OpenAt = g.Range(1, 6)
		}
		cs.Streams = append(cs.Streams, p)
	}
	na := g.Intn(4)
	for a := 0; a < na; a++ {
		act := c34Action{AfterData: g.Range(1, 12)}
		if g.Chance(2, 3) {
			act.Kind = "iws"
			act.Val = []uint32{0, 0, 1, 10, 1000, 65535, 200000}[g.Intn(7)]
		} else {
			act.Kind = "mfs"
			act.Val = []uint32{16384, 16384, 17000, 65536, 1 << 20}[g.Intn(5)]
		}
		cs.Actions = append(cs.Actions, act)
	}
	return cs
}

type c34Result struct {
	ok       bool
	why      string
	nontriv  bool
	negSeen  bool
	resets   int
	maxFrame uint32
}

// c34Inc is the increment a policy grants when a window view is at or below its low-water mark.
func c34Inc(policy string, g *vkit.Rand, view int64) uint32 {
	switch policy {
	case "drip":
		if view < 0 {
			// a SETTINGS_INITIAL_WINDOW_SIZE cut left the window negative: climb back in a few
			// WINDOW_UPDATEs (each still arrives at a negative window) instead of 1-40 octets a time
			return uint32(-view/3) + uint32(g.Range(1, 40))
		}
		if g.Bool() {
			return 1
		}
		return uint32(g.Range(1, 40))
	case "exact":
		return uint32(g.Range(1000, 20000))
	case "huge":
		return 1 << 20
	default:
		return 65535
	}
}

func c34Low(policy string) int64 {
	switch policy {
	case "drip":
		return 0
	case "exact":
		return 500
	case "huge":
		return 100000
	default:
		return 30000
	}
}

func c34RunCase(r *vkit.Run, cs *c34Case) (res c34Result) {
	h := &c34Handler{}
	tc := dialPipe(nil, h)
	g := vkit.NewRand(cs.Seed)
	c := &c34Client{r: r, cs: cs, conn: 65535, win: map[uint32]int64{}, bornPend: map[uint32]bool{}, recvd: map[uint32]int64{},
		ended: map[uint32]bool{}, rstSent: map[uint32]bool{}, rstPing: map[[8]byte]uint32{}, rstAcked: map[uint32]bool{},
		gotHdr: map[uint32]bool{}, ackedIWS: 65535, pendIWS: int64(cs.IWS), ackedMFS: 16384, pendMFS: cs.MFS, setPend: true,
		srvRST: map[uint32]http2.ErrCode{}}
	tc.cli.OnEvent = c.onEvent
	tc.cli.Timeout = 5 * time.Second // the main loop turns a quiet period into a quiescence check, see below
	states := make([]*c34HState, len(cs.Streams))
	defer func() {
		tc.cli.Close()
		tc.waitDone(20 * time.Second)
		if !h.census.waitNone(20 * time.Second) {
			r.Violation("handler-goroutine-leak", "handler goroutine still blocked 20s after the connection ended", cs)
		}
		if p := tc.vc.Panicked(); p != "" {
			r.Violation("panic:outbound:"+trunc(p, 40), "serve goroutine panicked: "+p, cs)
		}
	}()
	if err := tc.cli.Start(http2.Setting{ID: http2.SettingInitialWindowSize, Val: cs.IWS},
		http2.Setting{ID: http2.SettingMaxFrameSize, Val: cs.MFS}); err != nil {
		res.why = "start"
		return
	}
	// stream ids are assigned in opening order (they must increase on the wire)
	ids := make([]uint32, len(cs.Streams))
	nextID := uint32(1)
	sid := func(i int) uint32 { return ids[i] }
	opened := make([]bool, len(cs.Streams))
	open := func(i int) error {
		ids[i] = nextID
		nextID += 2
		id := sid(i)
		st := &c34HState{id: id, plan: &cs.Streams[i], done: make(chan struct{})}
		states[i] = st
		key := fmt.Sprintf("d%d", i)
		h.plans.Store(key, st)
		c.mu.Lock()
		if c.setPend && c.pendIWS >= 0 {
			c.win[id] = c.pendIWS
			c.bornPend[id] = true
		} else {
			c.win[id] = c.ackedIWS
		}
		c.mu.Unlock()
		opened[i] = true
		return tc.cli.WriteHeaders(id, h2cli.Req("GET", "/dl", hpack.HeaderField{Name: "x-ctl", Value: key}), h2cli.HeadersOpt{EndStream: true})
	}
	var pingN uint64
	actDone := make([]bool, len(cs.Actions))
	seen := 0
	// feed: top up windows by policy, fire actions and resets; returns false on write error
	feed := func() bool {
		c.mu.Lock()
		dataEvs := c.dataEvs
		type wu struct {
			id  uint32
			inc uint32
		}
		var wus []wu
		// connection window
		for c.conn <= c34Low(cs.ConnPolicy) {
			inc := c34Inc(cs.ConnPolicy, g, c.conn)
			if c.conn+int64(inc) > 1<<30 {
				break
			}
			c.conn += int64(inc)
			wus = append(wus, wu{0, inc})
			if cs.ConnPolicy == "drip" && c.conn > 0 {
				break
			}
		}
		var resets []uint32
		for i := range cs.Streams {
			if !opened[i] {
				continue
			}
			id := sid(i)
			p := &cs.Streams[i]
			if c.ended[id] || c.rstSent[id] {
				continue
			}
			if p.ResetAt >= 0 && c.recvd[id] >= p.ResetAt && c.gotHdr[id] {
				c.rstSent[id] = true
				resets = append(resets, id)
				continue
			}
			for c.win[id] <= c34Low(p.Policy) {
				inc := c34Inc(p.Policy, g, c.win[id])
				if c.win[id]+int64(inc) > 1<<30 {
					break
				}
				c.win[id] += int64(inc)
				wus = append(wus, wu{id, inc})
				if p.Policy == "drip" && c.win[id] > 0 {
					break // one small grant per round once the window is positive again
				}
			}
		}
		var sets []http2.Setting
		if !c.setPend {
			for a := range cs.Actions {
				if actDone[a] || dataEvs < cs.Actions[a].AfterData {
					continue
				}
				actDone[a] = true
				act := cs.Actions[a]
				c.setPend = true
				if act.Kind == "iws" {
					if int64(act.Val) < c.ackedIWS {
						c.iwsDown = true
					}
					c.pendIWS = int64(act.Val)
					sets = append(sets, http2.Setting{ID: http2.SettingInitialWindowSize, Val: act.Val})
				} else {
					c.pendMFS = act.Val
					sets = append(sets, http2.Setting{ID: http2.SettingMaxFrameSize, Val: act.Val})
				}
				break
			}
		}
		type rp struct {
			id uint32
			d  [8]byte
		}
		var rps []rp
		for _, id := range resets {
			pingN++
			var d [8]byte
			binary.BigEndian.PutUint64(d[:], 0x5253540000000000|pingN)
			c.rstPing[d] = id
			rps = append(rps, rp{id, d})
		}
		c.mu.Unlock()
		for _, w := range wus {
			if tc.cli.WriteWindowUpdate(w.id, w.inc) != nil {
				return false
			}
		}
		if len(sets) > 0 {
			if tc.cli.WriteSettings(sets...) != nil {
				return false
			}
		}
		for _, x := range rps {
			if tc.cli.WriteRST(x.id, http2.ErrCodeCancel) != nil || tc.cli.WritePing(false, x.d) != nil {
				return false
			}
			res.resets++
		}
		for i := range cs.Streams {
			if !opened[i] && dataEvs >= cs.Streams[i].OpenAt {
				if open(i) != nil {
					return false
				}
			}
		}
		return true
	}
	finished := func() bool {
		c.mu.Lock()
		defer c.mu.Unlock()
		if len(c.viol) > 0 {
			return true
		}
		for i := range cs.Streams {
			id := sid(i)
			if !opened[i] {
				// streams that wait for DATA events which will never come: open them now
				return false
			}
			if c.rstSent[id] {
				if !c.rstAcked[id] {
					return false
				}
				continue
			}
			if !c.ended[id] {
				if _, rst := c.srvRST[id]; rst {
					continue
				}
				return false
			}
		}
		return !c.setPend
	}
	for i := range cs.Streams {
		if cs.Streams[i].OpenAt == 0 {
			if open(i) != nil {
				res.why = "open"
				return
			}
		}
	}
	idle := 0
	for {
		if !feed() {
			res.why = "write error"
			break
		}
		// open late streams promptly when no more DATA can be expected from the open ones
		c.mu.Lock()
		allQuiet := true
		for i := range cs.Streams {
			if opened[i] && !c.ended[sid(i)] && !c.rstSent[sid(i)] {
				allQuiet = false
			}
		}
		c.mu.Unlock()
		if allQuiet {
			for i := range cs.Streams {
				if !opened[i] {
					if open(i) != nil {
						res.why = "open"
					}
				}
			}
		}
		if finished() {
			break
		}
		n0 := seen
		err := tc.cli.Wait(func(evs []h2cli.Event) bool { return len(evs) > n0 })
		seen = tc.cli.NumEvents()
		if err == h2cli.ErrTimeout {
			// nothing arrived for a few seconds. Decide at quiescence whether anything can still come:
			// after two PING round trips on an idle serve loop every WINDOW_UPDATE of the client has been
			// applied and nothing is in flight, so the server's send windows must equal the client's view.
			idle++
			for i := range cs.Streams {
				if !opened[i] {
					if open(i) != nil {
						res.why = "open"
					}
					idle = 0
				}
			}
			if idle == 0 {
				continue
			}
			if tc.quiesceBlocked() {
				snap, alive := tc.vc.OnServe()
				c.mu.Lock()
				view := c.conn
				anyReset := len(c.rstSent) > 0
				anySrvReset := len(c.srvRST) > 0
				c.mu.Unlock()
				if alive && snap.StreamQueueFrames > 0 && int64(snap.ConnFlow) < view {
					why := "other"
					if anyReset {
						why = "after-client-reset"
					} else if anySrvReset {
						why = "after-server-reset"
					}
					r.Violation("conn-send-window-leak:"+why,
						fmt.Sprintf("quiescent server holds %d queued DATA frames but its connection send window is %d while the client has granted %d (its view, nothing in flight): %d octets were taken from the connection window without being sent (the window shrinks for the rest of the connection; at 0 the remaining responses can never complete)", snap.StreamQueueFrames, snap.ConnFlow, view, view-int64(snap.ConnFlow)), cs)
					res.why = "stalled: connection send window leaked"
					break
				}
			}
			if idle > 12 {
				res.why = "no progress within safety timeout"
				break
			}
			continue
		}
		if err != nil {
			res.why = "connection ended early"
			break
		}
		c.mu.Lock()
		ga := c.goAway
		c.mu.Unlock()
		if ga {
			res.why = "server sent GOAWAY"
			break
		}
	}
	tc.cli.Sync()
	// a GOAWAY with an error code is never a legal answer to this client
	c.mu.Lock()
	neg := c.iwsDown
	c.mu.Unlock()
	for _, e := range tc.cli.Events() {
		if e.Type == http2.FrameGoAway && e.ErrCode == http2.ErrCodeFlowControl && neg {
			r.Violation("negative-window:settings-rejected-as-overflow",
				"server sent GOAWAY FLOW_CONTROL_ERROR after a SETTINGS_INITIAL_WINDOW_SIZE change while a stream send window was negative; no window view ever exceeded 2^30", cs)
		} else if e.Type == http2.FrameGoAway && e.ErrCode != http2.ErrCodeNo {
			r.Violation("server-goaway:"+e.ErrCode.String(), "server sent GOAWAY "+e.ErrCode.String()+" to a client that did nothing wrong: "+e.Debug, cs)
		}
	}
	// judge
	c.mu.Lock()
	viols := append([]string(nil), c.viol...)
	res.negSeen = c.negSeen
	res.maxFrame = c.maxFrame
	c.mu.Unlock()
	for _, v := range viols {
		var sig, what string
		for k := 0; k < len(v); k++ {
			if v[k] == '|' {
				sig, what = v[:k], v[k+1:]
				break
			}
		}
		r.Violation(sig, what, cs)
	}
	if res.why != "" || len(viols) > 0 {
		return
	}
	// completeness: every stream that was not reset delivered exactly what the handler wrote
	c.mu.Lock()
	defer c.mu.Unlock()
	for i := range cs.Streams {
		id := sid(i)
		st := states[i]
		if st == nil {
			continue
		}
		var planned int64
		for _, n := range cs.Streams[i].Chunks {
			planned += int64(n)
		}
		if c.rstSent[id] {
			continue
		}
		if code, rst := c.srvRST[id]; rst {
			if code == http2.ErrCodeFlowControl && c.iwsDown {
				r.Violation("negative-window:window-update-rejected-as-overflow",
					fmt.Sprintf("server reset stream %d with FLOW_CONTROL_ERROR after the client's WINDOW_UPDATE on a stream whose send window had become negative through a SETTINGS_INITIAL_WINDOW_SIZE reduction (RFC 7540 6.9.2); received %d octets, the window view never exceeded 2^30", id, c.recvd[id]), cs)
			} else {
				r.Violation("server-reset-response:"+code.String(), fmt.Sprintf("server reset stream %d (%v) although the client did nothing wrong", id, code), cs)
			}
			continue
		}
		select {
		case <-st.done:
		case <-time.After(10 * time.Second):
			res.why = "handler still running after END_STREAM"
			return
		}
		wrote := atomic.LoadInt64(&st.wrote)
		if e := st.werr.Load(); e != nil {
			r.Violation("handler-write-error", fmt.Sprintf("Write on stream %d failed with %v after %d octets although the client never reset it", id, e, wrote), cs)
			continue
		}
		if c.recvd[id] != wrote || wrote != planned {
			r.Violation("data-incomplete", fmt.Sprintf("stream %d ended after %d octets; handler wrote %d of %d planned", id, c.recvd[id], wrote, planned), cs)
		}
		if planned > 0 {
			res.nontriv = true
		}
	}
	res.ok = true
	return
}

func c34(r *vkit.Run) {
	r.SetRule("one case = one connection over net.Pipe: 1-16 GET streams whose handlers write 0..1.2 MB of a position-dependent pattern in chunks of 1..300000 octets with random flushes; client SETTINGS_INITIAL_WINDOW_SIZE in {0,1,100,5000,65535,2^20} and MAX_FRAME_SIZE in {16384,16385,65536,2^20,2^24-1}; window policies per stream and for the connection: drip (1..40 octets), exact-ish, huge (2^20), batch; up to 3 mid-connection SETTINGS (INITIAL_WINDOW_SIZE to 0/1/10/1000/65535/200000 => negative windows; MAX_FRAME_SIZE changes), one SETTINGS in flight at a time; 1/5 of the streams reset by the client at a random offset followed by a PING; streams opened late. Oracles on frame arrival: connection/stream window view >= 0 after subtracting the frame, length <= MAX_FRAME_SIZE in force (max(old,new) while a change is unacknowledged), payload equals the handler's pattern at the running offset, nothing after END_STREAM or after reset+PING ack; at the end received == written for every non-reset stream. Non-trivial = at least one stream with a non-empty body completed; distinct = case description")
	r.Assume("only one client SETTINGS is outstanding at a time (bfe acknowledges with a boolean flag; overlapping SETTINGS would make ack attribution ambiguous and is outside the statement)")
	if r.Replay != "" {
		var cs c34Case
		if err := r.LoadReplay(&cs); err != nil {
			r.Inconclusive(err.Error())
			return
		}
		res := c34RunCase(r, &cs)
		if !res.ok && res.why != "" {
			r.Inconclusive("replay did not complete: " + res.why)
		}
		r.Evals(1)
		r.SetMinDistinct(0)
		return
	}
	n := envN(r.N(700, 7000))
	var neg, resets, big int64
	vkit.Parallel(n, 64, func(i int) {
		cs := c34Gen(r, i)
		res := c34RunCase(r, cs)
		r.CaseS(fmt.Sprintf("%+v", *cs), res.ok && res.nontriv)
		if res.why != "" {
			r.Count("incomplete:"+res.why, 1)
			if os.Getenv("VH2_DEBUG") != "" {
				b, _ := json.Marshal(cs)
				fmt.Fprintf(os.Stderr, "INCOMPLETE %s %s\n", res.why, trunc(string(b), 1500))
			}
		}
		if res.negSeen {
			atomic.AddInt64(&neg, 1)
		}
		atomic.AddInt64(&resets, int64(res.resets))
		if res.maxFrame > 16384 {
			atomic.AddInt64(&big, 1)
		}
		if res.ok {
			r.Count("cases_completed", 1)
		}
		if r.WantSample() && res.ok && len(cs.Streams) <= 2 {
			r.Sample(cs)
		}
	})
	r.Count("cases_with_negative_stream_window", neg)
	r.Count("client_resets_sent", resets)
	r.Count("cases_with_frames_above_16384", big)
	if neg == 0 {
		r.Inconclusive("C34: no case drove a stream window negative (6.9.2)")
	}
	if resets == 0 {
		r.Inconclusive("C34: no client reset was exercised")
	}
	if big == 0 {
		r.Inconclusive("C34: no DATA frame larger than 16384 was observed (MAX_FRAME_SIZE axis not reached)")
	}
	if int(r.Counter("cases_completed")) < n/2 {
		r.Inconclusive(fmt.Sprintf("C34: only %d of %d cases ran to completion", r.Counter("cases_completed"), n))
	}
}
