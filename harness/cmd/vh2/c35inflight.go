package main

import (
	"fmt"
	"io"
	"sync"
	"sync/atomic"
	"time"

	bfe_http "github.com/bfenetworks/bfe/bfe_http"
	"github.com/bfenetworks/bfe/bfe_http2"
	"golang.org/x/net/http2"

	"verifharness/h2cli"
	"verifharness/vkit"
)

// C35, second driver: a client frame that closes a stream arrives while a
// frame of that stream's handler is IN FLIGHT (started by the serve loop, its
// conn.Write blocked because the client is not reading). The stream is then
// closed once by the client's frame and the serve loop meets it again when the
// write completes. No internal-invariant panic may result.
//
// Staging over net.Pipe (no buffering) with the client's read gate:
//   1. gate the reader; one PING absorbs the ReadFrame already in progress
//   2. PING -> its ack is flushed, the flush blocks (nobody reads)
//   3. 240 PING + 1 SETTINGS -> 240 acks (17 octets) + 1 SETTINGS ack (9) wait in the queue
//   4. the handler acts (panics / returns after a 5000-octet write)
//   5. one read permit: the blocked flush completes, the server writes the
//      4089 queued octets into its 4096-octet write buffer and then the
//      handler's frame, which overflows the buffer => its Write blocks
//      (snapshot: WritingFrame && NeedsFlush)
//   6. the client sends the closing frame (RST_STREAM, or WINDOW_UPDATE 0 =>
//      stream error) and waits until the stream left the server's map
//   7. ungate; PING round trip
// plus un-staged races: the closing frame is simply written at the moment the
// handler is released.

var expectedHandlerPanics int64 // handler panics provoked on purpose (bfe counts them in H2PanicStream)

type c35ifCase struct {
	Staged  bool   `json:"staged"`
	Handler string `json:"handler"` // panic | big-final | small-final
	Closer  string `json:"closer"`  // rst | wupdate0 | data-after-es
	Body    bool   `json:"request_body_open"`
}

type c35ifHandler struct {
	release chan struct{}
	entered chan struct{}
	mode    string
	census  handlerCensus
	once    sync.Once
}

func (h *c35ifHandler) ServeHTTP(w bfe_http.ResponseWriter, req *bfe_http.Request) {
	h.census.enter("h")
	defer h.census.leave("h")
	h.once.Do(func() { close(h.entered) })
	cn := w.(bfe_http.CloseNotifier).CloseNotify()
	select {
	case <-h.release:
	case <-cn:
		return
	}
	switch h.mode {
	case "panic":
		atomic.AddInt64(&expectedHandlerPanics, 1)
		panic("verif: intended handler panic")
	case "big-final":
		w.Write(make([]byte, 5000))
	default:
		io.WriteString(w, "ok")
	}
}

func c35ifRun(r *vkit.Run, cs *c35ifCase) (staged bool, why string) {
	h := &c35ifHandler{release: make(chan struct{}), entered: make(chan struct{}), mode: cs.Handler}
	tc := dialPipe(nil, h)
	var relOnce sync.Once
	release := func() { relOnce.Do(func() { close(h.release) }) }
	defer func() {
		release()
		tc.cli.Ungate()
		tc.cli.Close()
		if !tc.waitDone(20 * time.Second) {
			r.Inconclusive("C35 in-flight: serve goroutine still running 20s after close")
		}
		if !h.census.waitNone(20 * time.Second) {
			r.Violation("handler-goroutine-leak", "handler goroutine still running 20s after the connection ended", cs)
		}
		if p := tc.vc.Panicked(); p != "" {
			atomic.AddInt32(&panicSeen, 1)
			r.Violation("panic:"+c35PanicShape(tc.vc.PanicStack(), p),
				fmt.Sprintf("bfe_http2 serve goroutine panicked (%s): stream closed by the client's %s while the handler's frame (%s) was in flight", p, cs.Closer, cs.Handler),
				map[string]interface{}{"case": cs, "panic": p, "stack": trunc(tc.vc.PanicStack(), 3000)})
		}
	}()
	if tc.cli.Start() != nil {
		return false, "start"
	}
	if _, err := tc.cli.Sync(); err != nil {
		return false, "sync"
	}
	method := "GET"
	if cs.Body {
		method = "POST"
	}
	if tc.cli.WriteHeaders(1, h2cli.Req(method, "/if"), h2cli.HeadersOpt{EndStream: !cs.Body}) != nil {
		return false, "headers"
	}
	select {
	case <-h.entered:
	case <-time.After(20 * time.Second):
		return false, "handler not entered"
	}
	poll := func(pred func(s bfe_http2.VerifSnapshot) bool) bool {
		for i := 0; i < 40000; i++ {
			s, alive := tc.vc.OnServe()
			if !alive {
				return false
			}
			if pred(s) {
				return true
			}
			time.Sleep(100 * time.Microsecond)
		}
		return false
	}
	closer := func() error {
		switch cs.Closer {
		case "wupdate0":
			return tc.cli.WriteWindowUpdate(1, 0)
		case "data-after-es":
			return tc.cli.WriteData(1, true, []byte("x")) // DATA on a half-closed(remote) stream => stream error
		}
		return tc.cli.WriteRST(1, http2.ErrCodeCancel)
	}
	gone := func(s bfe_http2.VerifSnapshot) bool {
		for _, st := range s.Streams {
			if st.ID == 1 {
				return false
			}
		}
		return true
	}
	if !cs.Staged {
		// plain race: closing frame and handler action at the same moment
		go release()
		if closer() != nil {
			return false, "closer write"
		}
		tc.cli.Sync()
		tc.cli.Sync()
		return false, ""
	}
	tc.cli.Gate()
	if _, err := tc.cli.Sync(); err != nil { // absorbs the ReadFrame that was already in progress
		return false, "gate sync"
	}
	var d [8]byte
	d[0] = 0xEE
	if tc.cli.WritePing(false, d) != nil {
		return false, "ping"
	}
	if !poll(func(s bfe_http2.VerifSnapshot) bool { return s.WritingFrame && s.ZeroQueueLen == 0 && !s.NeedsFlush }) {
		return false, "flush did not block"
	}
	for i := 0; i < 240; i++ {
		d[1], d[2] = byte(i), byte(i>>8)
		if tc.cli.WritePing(false, d) != nil {
			return false, "filler ping"
		}
	}
	if tc.cli.WriteSettings() != nil {
		return false, "filler settings"
	}
	if !poll(func(s bfe_http2.VerifSnapshot) bool { return s.ZeroQueueLen == 240 && s.NeedSettingsAck }) {
		return false, "filler not queued"
	}
	release()
	if !poll(func(s bfe_http2.VerifSnapshot) bool { return s.StreamQueueFrames >= 1 }) {
		return false, "handler frame not queued"
	}
	tc.cli.Permit(1)
	// now the handler's frame must be the one in flight: started (needsFrameFlush set) and not finished
	if !poll(func(s bfe_http2.VerifSnapshot) bool {
		return s.WritingFrame && s.NeedsFlush && s.ZeroQueueLen == 0 && !s.NeedSettingsAck && !gone(s)
	}) {
		return false, "handler frame not in flight"
	}
	inFlight, _ := tc.vc.OnServe()
	if closer() != nil {
		return false, "closer write"
	}
	if !poll(gone) {
		return false, "stream not closed by the client's frame"
	}
	r.Count("inflight_staged:"+cs.Handler+"/"+cs.Closer, 1)
	_ = inFlight
	tc.cli.Ungate()
	if _, err := tc.cli.Sync(); err != nil {
		// the connection ended: fine only if the server did not panic (judged in the deferred block)
		r.Count("inflight_connection_ended_after_ungate", 1)
	}
	return true, ""
}

func c35InFlight(r *vkit.Run) {
	var cases []c35ifCase
	for _, hm := range []string{"panic", "big-final"} {
		for _, cl := range []string{"rst", "wupdate0", "data-after-es"} {
			for _, body := range []bool{false, true} {
				if cl == "data-after-es" && body {
					continue // DATA+END_STREAM on an open stream is a legal end of the request, not a closer
				}
				cases = append(cases, c35ifCase{Staged: true, Handler: hm, Closer: cl, Body: body})
			}
		}
	}
	reps := r.N(3, 20)
	stagedOK := int64(0)
	vkit.Parallel(len(cases)*reps, 8, func(i int) {
		cs := cases[i%len(cases)]
		ok, why := c35ifRun(r, &cs)
		if ok {
			atomic.AddInt64(&stagedOK, 1)
		} else if why != "" {
			r.Count("inflight_not_staged:"+why, 1)
		}
		r.CaseS(fmt.Sprintf("inflight|%+v", cs), ok)
	})
	races := r.N(300, 6000)
	vkit.Parallel(races, 32, func(i int) {
		g := r.Rng("c35-race", i)
		cs := c35ifCase{Handler: []string{"panic", "panic", "big-final", "small-final"}[g.Intn(4)], Closer: []string{"rst", "wupdate0", "data-after-es"}[g.Intn(3)]}
		cs.Body = cs.Closer != "data-after-es" && g.Bool()
		c35ifRun(r, &cs)
		r.Evals(1)
	})
	r.Count("inflight_staged_total", stagedOK)
	if stagedOK == 0 && r.Violations() == 0 {
		r.Inconclusive("C35: the in-flight window was never staged")
	}
}
