package main

import (
	"encoding/json"
	"fmt"
	"io"
	"os"
	"strings"
	"sync"
	"sync/atomic"
	"time"

	bfe_http "github.com/bfenetworks/bfe/bfe_http"
	"github.com/bfenetworks/bfe/bfe_http2"
	"golang.org/x/net/http2"
	"golang.org/x/net/http2/hpack"

	"verifharness/h2cli"
	"verifharness/vkit"
)

// C33: the server never accepts more DATA than it advertised, answers excess
// with FLOW_CONTROL_ERROR, and re-opens the windows by exactly what it
// consumed (padding included) so that a respecting client never stalls.
//
// The scripted client owns the truth about the advertised windows:
//   window = announced initial + sum(WINDOW_UPDATE) - sum(DATA flow length sent).

const (
	c33InitConn      = 65535
	c33LargeConnBump = (1 << 30) - 65535
)

// ---- handler side ----

type c33Ctl struct {
	Kind  string // readall | readn | closebody
	Chunk int
	ReadN int64 // readn/closebody: stop after this many bytes (0 = never read)

	hold       chan struct{} // handler starts when closed
	fin        chan struct{} // closebody: handler returns when closed
	bodyClosed chan struct{}
	done       chan struct{}
	read       int64
	readErr    atomic.Value
}

func newC33Ctl(kind string, chunk int, readN int64) *c33Ctl {
	return &c33Ctl{Kind: kind, Chunk: chunk, ReadN: readN, hold: make(chan struct{}), fin: make(chan struct{}),
		bodyClosed: make(chan struct{}), done: make(chan struct{})}
}

func closeOnce(ch chan struct{}) {
	defer func() { recover() }()
	close(ch)
}

type c33Handler struct {
	ctl      sync.Map // key string -> *c33Ctl
	census   handlerCensus
	progress chan struct{} // poked (non-blocking) whenever a handler made progress
}

func poke(ch chan struct{}) {
	select {
	case ch <- struct{}{}:
	default:
	}
}

func (h *c33Handler) ServeHTTP(w bfe_http.ResponseWriter, req *bfe_http.Request) {
	key := req.Header.Get("X-Ctl")
	h.census.enter(key)
	defer h.census.leave(key)
	v, ok := h.ctl.Load(key)
	if !ok {
		w.WriteHeader(500)
		return
	}
	c := v.(*c33Ctl)
	defer poke(h.progress)
	defer close(c.done)
	cn := w.(bfe_http.CloseNotifier).CloseNotify()
	select {
	case <-c.hold:
	case <-cn:
	}
	buf := make([]byte, c.Chunk)
	readUntil := func(limit int64) {
		for limit < 0 || atomic.LoadInt64(&c.read) < limit {
			b := buf
			if limit >= 0 {
				if rem := limit - atomic.LoadInt64(&c.read); rem < int64(len(b)) {
					b = b[:rem]
				}
			}
			n, err := req.Body.Read(b)
			atomic.AddInt64(&c.read, int64(n))
			poke(h.progress)
			if err != nil {
				c.readErr.Store(err.Error())
				return
			}
		}
	}
	switch c.Kind {
	case "readall":
		readUntil(-1)
	case "readn":
		readUntil(c.ReadN)
	case "closebody":
		readUntil(c.ReadN)
		req.Body.Close()
		close(c.bodyClosed)
		poke(h.progress)
		select {
		case <-c.fin:
		case <-cn:
		}
	}
	w.WriteHeader(200)
	io.WriteString(w, "ok")
}

// ---- client side window truth ----

type c33Win struct {
	mu         sync.Mutex
	conn       int64
	connWU     int64
	connSent   int64
	isw        int64
	stream     map[uint32]int64
	streamWU   map[uint32]int64
	streamSent map[uint32]int64
	gotRST     map[uint32]http2.ErrCode
	gotEnd     map[uint32]bool
	goAway     *h2cli.Event
	haveSet    bool
}

func newC33Win() *c33Win {
	return &c33Win{conn: c33InitConn, isw: 65535, stream: map[uint32]int64{}, streamWU: map[uint32]int64{},
		streamSent: map[uint32]int64{}, gotRST: map[uint32]http2.ErrCode{}, gotEnd: map[uint32]bool{}}
}

func (w *c33Win) onEvent(e *h2cli.Event) {
	w.mu.Lock()
	defer w.mu.Unlock()
	switch e.Type {
	case http2.FrameWindowUpdate:
		if e.StreamID == 0 {
			w.conn += int64(e.Increment)
			w.connWU += int64(e.Increment)
		} else {
			w.stream[e.StreamID] += int64(e.Increment)
			w.streamWU[e.StreamID] += int64(e.Increment)
		}
	case http2.FrameSettings:
		if !e.Ack && !w.haveSet {
			w.haveSet = true
			for _, s := range e.Settings {
				if s.ID == http2.SettingInitialWindowSize {
					w.isw = int64(s.Val)
				}
			}
		}
	case http2.FrameRSTStream:
		w.gotRST[e.StreamID] = e.ErrCode
	case http2.FrameGoAway:
		ev := *e
		w.goAway = &ev
	case http2.FrameHeaders, http2.FrameData:
		if e.EndStream {
			w.gotEnd[e.StreamID] = true
		}
	}
}

// ---- scenario description (also the replay witness) ----

type c33Frame struct {
	Data int  `json:"data"`
	Pad  int  `json:"pad"` // -1: unpadded; >=0: PADDED flag with that many pad octets (+1 length octet)
	End  bool `json:"end,omitempty"`
}

func (f c33Frame) flow() int64 {
	if f.Pad < 0 {
		return int64(f.Data)
	}
	return int64(f.Data + f.Pad + 1)
}

type c33Stream struct {
	Kind     string     `json:"kind"` // readall | readn | closebody
	Chunk    int        `json:"chunk"`
	ReadN    int64      `json:"read_n"`
	Hold     bool       `json:"hold"`             // handler starts only after all of Frames were sent
	Frames   []c33Frame `json:"frames"`           // sent while respecting the windows
	After    []c33Frame `json:"after,omitempty"`  // closebody: sent after the handler closed the body
	DeclLen  int64      `json:"decl_len"`         // -1: no content-length
	ClientR  bool       `json:"client_rst"`       // client resets the stream after Frames
	MidSync  bool       `json:"mid_sync"`         // readall: check per-stream conservation before END_STREAM
	Excess   string     `json:"excess,omitempty"` // "stream" | "conn": final frame exceeds that window by 1..k
	ExcessBy int        `json:"excess_by,omitempty"`
}

type c33Case struct {
	Class      string      `json:"class"`
	LargeConn  bool        `json:"large_conn_window"`
	StreamWin  uint32      `json:"max_upload_buffer_per_stream"`
	Streams    []c33Stream `json:"streams"`
	Concurrent bool        `json:"concurrent"`
	ClientSet  bool        `json:"client_settings_midway"`
	Note       string      `json:"note,omitempty"`
	Extra      interface{} `json:"extra,omitempty"`
}

type c33Result struct {
	ok            bool // ran to the end
	inconclusive  string
	connDeficit   int64 // sent - refunded at final quiescence
	sent          int64
	stallAt       int // stream index at which a definite stall was seen, -1 none
	srvConnInflow int32
	cliConn       int64
	tail          []string
}

var c33Reported sync.Map // signature -> true (witness built only once)

// c33RunCase executes one connection. All oracles live here.
func c33RunCase(r *vkit.Run, cs *c33Case, report bool) (res c33Result) {
	res.stallAt = -1
	h := &c33Handler{progress: make(chan struct{}, 1)}
	srv := &bfe_http2.Server{MaxUploadBufferPerStream: cs.StreamWin}
	tc := dialPipe(srv, h)
	win := newC33Win()
	tc.cli.OnEvent = func(e *h2cli.Event) {
		win.onEvent(e)
		if e.Type != http2.FrameWindowUpdate && e.Type != http2.FramePing {
			poke(h.progress)
		}
	}
	ctls := make([]*c33Ctl, len(cs.Streams))
	sentData := make([]int64, len(cs.Streams)) // DATA payload octets (without padding) written so far, per stream
	st8 := &c33State{cs: cs, ctls: ctls, win: win, sentData: sentData, progress: h.progress}
	defer func() {
		for _, c := range ctls {
			if c != nil {
				closeOnce(c.hold)
				closeOnce(c.fin)
			}
		}
		if os.Getenv("VH2_DEBUG") != "" {
			evs := tc.cli.Events()
			for k := len(evs) - 12; k < len(evs); k++ {
				if k >= 0 {
					res.tail = append(res.tail, evs[k].String())
				}
			}
			e, err := tc.cli.Ended()
			res.tail = append(res.tail, fmt.Sprintf("ended=%v err=%v werr=%v", e, err, tc.cli.WriteErr()))
		}
		tc.cli.Close()
		if !tc.waitDone(20 * time.Second) {
			r.Inconclusive("C33: serve goroutine still running 20s after client close")
		}
		if !h.census.waitNone(20 * time.Second) {
			r.Violation("handler-goroutine-leak", "handler goroutine still blocked 20s after the connection ended", cs)
		}
		if p := tc.vc.Panicked(); p != "" && report {
			atomic.AddInt32(&panicSeen, 0)
			sig := "panic:flow:" + c33PanicClass(p)
			r.Violation(sig, "serve goroutine panicked: "+p, cs)
		}
	}()
	viol := func(sig, what string) {
		if report {
			r.Violation(sig, what, cs)
		}
	}
	if err := tc.cli.Start(); err != nil {
		res.inconclusive = "start: " + err.Error()
		return
	}
	// wait for the server's SETTINGS (announced stream window) and, if configured, the conn bump
	err := tc.cli.Wait(func(evs []h2cli.Event) bool {
		for _, e := range evs {
			if e.Type == http2.FrameSettings && !e.Ack {
				return true
			}
		}
		return false
	})
	if err != nil {
		res.inconclusive = "no server SETTINGS: " + err.Error()
		return
	}
	if !tc.quiesce() {
		res.inconclusive = "initial quiesce failed"
		return
	}
	win.mu.Lock()
	isw := win.isw
	bump := win.connWU
	win.mu.Unlock()
	wantISW := int64(65535)
	if cs.StreamWin > 0 {
		wantISW = int64(cs.StreamWin)
	}
	if isw != wantISW {
		viol("announced-window-mismatch", fmt.Sprintf("SETTINGS_INITIAL_WINDOW_SIZE announced %d, configured %d", isw, wantISW))
	}
	wantBump := int64(0)
	if cs.LargeConn {
		wantBump = c33LargeConnBump
	}
	if bump != wantBump {
		viol("initial-conn-bump", fmt.Sprintf("initial connection WINDOW_UPDATE total %d, expected %d", bump, wantBump))
	}

	ended := func() bool {
		e, _ := tc.cli.Ended()
		return e
	}
	streamID := func(i int) uint32 { return uint32(2*i + 1) }

	// take reserves flow length L on stream id, blocking while WINDOW_UPDATEs may still arrive.
	// Returns "ok", "stall" (definite: quiescent, windows still insufficient), "rst" (stream was
	// reset/ended by the server meanwhile) or "end".
	take := func(i int, L int64) string {
		id := streamID(i)
		for attempt := 0; ; attempt++ {
			win.mu.Lock()
			_, rst := win.gotRST[id]
			ga := win.goAway != nil
			if rst || win.gotEnd[id] {
				win.mu.Unlock()
				return "rst"
			}
			if ga {
				win.mu.Unlock()
				return "end"
			}
			if win.stream[id] >= L && win.conn >= L {
				win.stream[id] -= L
				win.conn -= L
				win.streamSent[id] += L
				win.connSent += L
				win.mu.Unlock()
				return "ok"
			}
			win.mu.Unlock()
			if ended() {
				return "end"
			}
			// Not enough window. If the handler of this stream is held back the client
			// lets it run (a held handler is the harness's own doing, not a stall).
			if cs.Streams[i].Hold {
				closeOnce(ctls[i].hold)
			}
			// Decide at quiescence whether an update can still come: every reading handler
			// must have consumed all octets buffered for it.
			settled := st8.waitConsumed()
			if !tc.quiesce() {
				return "end"
			}
			win.mu.Lock()
			enough := win.stream[id] >= L && win.conn >= L
			_, rst = win.gotRST[id]
			rst = rst || win.gotEnd[id]
			win.mu.Unlock()
			if enough || rst {
				continue
			}
			if settled && st8.allConsumed() {
				return "stall"
			}
			if attempt > 3 {
				return "end"
			}
		}
	}

	sendFrame := func(i int, f c33Frame) error {
		id := streamID(i)
		defer atomic.AddInt64(&sentData[i], int64(f.Data))
		if f.Pad < 0 {
			return tc.cli.WriteData(id, f.End, make([]byte, f.Data))
		}
		return tc.cli.WriteDataPadded(id, f.End, make([]byte, f.Data), f.Pad)
	}

	openStream := func(i int) error {
		st := &cs.Streams[i]
		c := newC33Ctl(st.Kind, st.Chunk, st.ReadN)
		ctls[i] = c
		key := fmt.Sprintf("s%d", i)
		h.ctl.Store(key, c)
		if !st.Hold {
			close(c.hold)
		}
		fields := h2cli.Req("POST", "/up", hpack.HeaderField{Name: "x-ctl", Value: key})
		if st.DeclLen >= 0 {
			fields = append(fields, hpack.HeaderField{Name: "content-length", Value: fmt.Sprint(st.DeclLen)})
		}
		win.mu.Lock()
		win.stream[streamID(i)] = win.isw
		win.mu.Unlock()
		return tc.cli.WriteHeaders(streamID(i), fields, h2cli.HeadersOpt{})
	}

	endSent := func(j int) bool {
		fs := cs.Streams[j].Frames
		return len(fs) > 0 && fs[len(fs)-1].End
	}
	// runStream plays one stream's script; returns false to abort the connection.
	runStream := func(i int) bool {
		st := &cs.Streams[i]
		id := streamID(i)
		legit := int64(0)
		for _, f := range st.Frames {
			switch take(i, f.flow()) {
			case "stall":
				res.stallAt = i
				return false
			case "rst":
				return true
			case "end":
				return false
			}
			if sendFrame(i, f) != nil {
				return false
			}
			legit += int64(f.Data)
		}
		if st.Excess != "" {
			// make the client's view exact, then exceed it
			st8.waitConsumed()
			if !tc.quiesce() {
				return false
			}
			win.mu.Lock()
			sw, cw := win.stream[id], win.conn
			win.mu.Unlock()
			var L int64
			if st.Excess == "stream" {
				L = sw + int64(st.ExcessBy)
			} else {
				L = cw + int64(st.ExcessBy)
			}
			// skip when the excess cannot be isolated to the intended window, or the frame would be
			// larger than the server's max frame size (FRAME_SIZE_ERROR instead)
			if (st.Excess == "stream" && L > cw) || (st.Excess == "conn" && L > sw) || L > 1<<20 {
				r.Count("excess_not_isolable_skipped", 1)
				// finish every stream that is still open (the window-eating neighbour too)
				for j, c := range ctls {
					if c != nil && j <= i && (j == i || cs.Streams[j].Hold) && !endSent(j) {
						closeOnce(c.hold)
						if tc.cli.WriteData(streamID(j), true, nil) != nil {
							return false
						}
					}
				}
				return true
			}
			r.Count("excess_frames_sent", 1)
			if tc.cli.WriteData(id, false, make([]byte, L)) != nil {
				return false
			}
			tc.cli.Sync() // either the ack or the end of the connection
			win.mu.Lock()
			code, rst := win.gotRST[id]
			ga := win.goAway
			win.mu.Unlock()
			switch {
			case rst && code == http2.ErrCodeFlowControl:
				r.Count("excess_answered_rst_flow_control", 1)
			case ga != nil && ga.ErrCode == http2.ErrCodeFlowControl:
				r.Count("excess_answered_goaway_flow_control", 1)
			default:
				got := "nothing"
				if rst {
					got = "RST_STREAM " + code.String()
				} else if ga != nil {
					got = "GOAWAY " + ga.ErrCode.String()
				}
				viol("excess-not-flow-control-error:"+st.Excess+"-window",
					fmt.Sprintf("DATA of %d octets exceeded the advertised %s window (stream=%d conn=%d) but the server answered %s", L, st.Excess, sw, cw, got))
			}
			// the handler must never see the excess octets
			closeOnce(ctls[i].hold)
			select {
			case <-ctls[i].done:
			case <-time.After(20 * time.Second):
			}
			if got := atomic.LoadInt64(&ctls[i].read); got > legit {
				viol("excess-delivered-to-handler", fmt.Sprintf("handler read %d octets, only %d were within the advertised windows", got, legit))
			}
			return false // windows of client and server legitimately differ after an excess frame: stop here
		}
		if st.MidSync && st.Kind == "readall" {
			closeOnce(ctls[i].hold)
			st8.waitConsumed()
			if !tc.quiesce() {
				return false
			}
			win.mu.Lock()
			sent, wu := win.streamSent[id], win.streamWU[id]
			_, rst := win.gotRST[id]
			win.mu.Unlock()
			if !rst {
				r.Count("stream_conservation_checks", 1)
				if sent != wu {
					viol("stream-window-conservation", fmt.Sprintf("stream %d open, handler consumed everything, quiescent: DATA octets sent %d, WINDOW_UPDATE total %d", id, sent, wu))
				}
			}
			// finish the stream
			if tc.cli.WriteData(id, true, nil) != nil {
				return false
			}
		}
		if st.Kind == "closebody" {
			closeOnce(ctls[i].hold)
			select {
			case <-ctls[i].bodyClosed:
			case <-ctls[i].done:
			case <-time.After(20 * time.Second):
				res.inconclusive = "closebody handler did not reach Close"
				return false
			}
			for _, f := range st.After {
				switch take(i, f.flow()) {
				case "stall":
					res.stallAt = i
					return false
				case "end":
					return false
				case "rst":
					goto afterDone
				}
				if sendFrame(i, f) != nil {
					return false
				}
			}
		afterDone:
			tc.cli.Sync()
			closeOnce(ctls[i].fin)
		}
		if st.ClientR {
			tc.cli.Sync() // all DATA processed (buffered) before the reset
			if tc.cli.WriteRST(id, http2.ErrCodeCancel) != nil {
				return false
			}
		}
		if st.Hold {
			tc.cli.Sync() // everything sent is at the server before the handler starts
			closeOnce(ctls[i].hold)
		}
		return true
	}

	aborted := false
	if cs.Concurrent {
		for i := range cs.Streams {
			if openStream(i) != nil {
				aborted = true
			}
		}
	}
	for i := range cs.Streams {
		if aborted {
			break
		}
		if !cs.Concurrent {
			if openStream(i) != nil {
				aborted = true
				break
			}
		}
		if cs.ClientSet && i == len(cs.Streams)/2 {
			// client SETTINGS concern the other direction only; must not disturb inbound accounting
			tc.cli.WriteSettings(http2.Setting{ID: http2.SettingInitialWindowSize, Val: 1000},
				http2.Setting{ID: http2.SettingMaxFrameSize, Val: 20000})
		}
		if !runStream(i) {
			aborted = true
			break
		}
		if !cs.Concurrent && cs.Streams[i].ClientR {
			tc.cli.Sync()
		} else if !cs.Concurrent {
			// sequential: wait until the stream is over at the server (response or reset)
			id := streamID(i)
			tc.cli.Wait(func(evs []h2cli.Event) bool {
				win.mu.Lock()
				defer win.mu.Unlock()
				_, rst := win.gotRST[id]
				return rst || win.gotEnd[id] || win.goAway != nil
			})
		}
	}
	win.mu.Lock()
	res.sent = win.connSent
	win.mu.Unlock()
	if res.stallAt >= 0 {
		res.ok = true
		win.mu.Lock()
		res.connDeficit = win.connSent - (win.connWU - wantBump)
		res.cliConn = win.conn
		win.mu.Unlock()
		if s, alive := tc.vc.OnServe(); alive {
			res.srvConnInflow = s.ConnInflow
		}
		return
	}
	if aborted {
		if cs.Class == "excess" {
			res.ok = true
		}
		return
	}
	// let every handler finish, then final quiescence
	for _, c := range ctls {
		closeOnce(c.hold)
		closeOnce(c.fin)
	}
	for i, c := range ctls {
		select {
		case <-c.done:
		case <-time.After(30 * time.Second):
			res.inconclusive = fmt.Sprintf("handler %d did not finish", i)
			return
		}
	}
	// wait until every stream is finished from the server's side (END_STREAM or RST seen)
	err = tc.cli.Wait(func(evs []h2cli.Event) bool {
		win.mu.Lock()
		defer win.mu.Unlock()
		for i := range cs.Streams {
			id := streamID(i)
			if _, rst := win.gotRST[id]; !rst && !win.gotEnd[id] && !cs.Streams[i].ClientR {
				return false
			}
		}
		return true
	})
	if err != nil {
		res.inconclusive = "responses incomplete: " + err.Error()
		return
	}
	if !tc.quiesce() {
		res.inconclusive = "final quiesce failed"
		return
	}
	snap, alive := tc.vc.OnServe()
	win.mu.Lock()
	res.connDeficit = win.connSent - (win.connWU - wantBump)
	res.cliConn = win.conn
	win.mu.Unlock()
	if alive {
		res.srvConnInflow = snap.ConnInflow
		if len(snap.Streams) != 0 {
			res.inconclusive = "streams still open at final quiescence"
			return
		}
	}
	res.ok = true
	return
}

func c33PanicClass(p string) string {
	switch {
	case strings.Contains(p, "too many window updates"):
		return "too-many-window-updates"
	case strings.Contains(p, "took too much"):
		return "took-too-much"
	case strings.Contains(p, "negative update"):
		return "negative-update"
	}
	return "other"
}

type c33State struct {
	cs       *c33Case
	ctls     []*c33Ctl
	win      *c33Win
	sentData []int64
	progress chan struct{}
}

// waitConsumed waits (polling; not an oracle) until allConsumed holds; false
// if it did not settle within the safety bound.
func (s *c33State) waitConsumed() bool {
	dl := time.Now().Add(20 * time.Second)
	var t *time.Timer
	for !s.allConsumed() {
		if time.Now().After(dl) {
			return false
		}
		if t == nil {
			t = time.NewTimer(5 * time.Millisecond)
			defer t.Stop()
		} else {
			t.Reset(5 * time.Millisecond)
		}
		select {
		case <-s.progress:
		case <-t.C:
		}
	}
	return true
}

// allConsumed: no handler can cause a further WINDOW_UPDATE unless the script
// itself moves on. readall: it has read every payload octet written so far;
// a handler that returned: the client has seen the end of its stream (the
// server has then closed the stream); closebody: it has closed the body.
func (s *c33State) allConsumed() bool {
	for i, c := range s.ctls {
		if c == nil {
			continue
		}
		id := uint32(2*i + 1)
		select {
		case <-c.done:
			s.win.mu.Lock()
			_, rst := s.win.gotRST[id]
			over := rst || s.win.gotEnd[id] || s.win.goAway != nil
			s.win.mu.Unlock()
			if !over && !s.cs.Streams[i].ClientR {
				return false
			}
			continue
		default:
		}
		select {
		case <-c.hold:
		default:
			continue // not started: it is not going to read until the script releases it
		}
		switch c.Kind {
		case "readall":
			if atomic.LoadInt64(&c.read) < atomic.LoadInt64(&s.sentData[i]) && c.readErr.Load() == nil {
				return false
			}
		case "closebody":
			select {
			case <-c.bodyClosed:
			default:
				return false
			}
		default: // readn: it is on its way to returning
			return false
		}
	}
	return true
}

// ---- generators ----

func c33GenFrames(g *vkit.Rand, total int, maxFlow int64, end bool) []c33Frame {
	var fs []c33Frame
	left := total
	for left > 0 || len(fs) == 0 {
		var f c33Frame
		f.Pad = -1
		switch g.Intn(8) {
		case 0:
			f.Data = 0
		case 1:
			f.Data = 1
		case 2:
			f.Data = g.Range(16000, 16384)
		default:
			f.Data = g.Range(1, 9000)
		}
		if f.Data > left {
			f.Data = left
		}
		if g.Chance(1, 3) {
			f.Pad = []int{0, 1, 7, 100, 255}[g.Intn(5)]
		}
		for f.flow() > maxFlow {
			if f.Pad >= 0 {
				f.Pad = -1
			} else {
				f.Data = int(maxFlow)
			}
		}
		left -= f.Data
		fs = append(fs, f)
		if total == 0 {
			break
		}
	}
	if end {
		fs[len(fs)-1].End = true
	}
	return fs
}

func c33ReadAll(g *vkit.Rand, isw int64) c33Stream {
	st := c33Stream{Kind: "readall", DeclLen: -1}
	st.Chunk = []int{1, 7, 100, 1000, 4096, 16384, 70000}[g.Intn(7)]
	total := []int{0, 1, 500, 20000, 65535, 65536, 150000, 400000}[g.Intn(8)]
	// every body read makes the server queue a connection-level WINDOW_UPDATE; those count as
	// control frames and more than 10000 queued close the connection (C37's limit), so keep the
	// number of reads per stream well below that
	if total > st.Chunk*800 {
		total = st.Chunk * 800
	}
	st.MidSync = g.Bool()
	st.Hold = g.Chance(1, 4)
	if st.Hold && int64(total) > isw/2 {
		// a held handler lets at most one stream window through before it must run; fine, take() releases it
	}
	st.Frames = c33GenFrames(g, total, minI64(isw, 16384+256), !st.MidSync)
	if g.Chance(1, 3) {
		st.DeclLen = int64(0)
		for _, f := range st.Frames {
			st.DeclLen += int64(f.Data)
		}
	}
	return st
}

func minI64(a, b int64) int64 {
	if a < b {
		return a
	}
	return b
}

func c33Gen(r *vkit.Run, i int) *c33Case {
	g := r.Rng("c33", i)
	cs := &c33Case{}
	cs.StreamWin = []uint32{0, 0, 20000, 200000}[g.Intn(4)]
	isw := int64(65535)
	if cs.StreamWin > 0 {
		isw = int64(cs.StreamWin)
	}
	cs.Concurrent = g.Bool()
	cs.ClientSet = g.Chance(1, 4)
	classes := []string{"clean", "clean", "clean", "early-return", "client-rst", "body-close", "beyond-content-length", "excess", "excess"}
	cs.Class = classes[g.Intn(len(classes))]
	n := g.Range(1, 6)
	risky := func() c33Stream {
		// keep the stream's total within one stream window and a fraction of the conn window so the
		// script never needs an update for it
		budget := int(minI64(isw, 20000))
		switch cs.Class {
		case "early-return":
			total := g.Range(1, budget)
			st := c33Stream{Kind: "readn", Chunk: []int{1, 100, 4096}[g.Intn(3)], DeclLen: -1, Hold: true}
			st.ReadN = int64([]int{0, 0, 1, total / 2}[g.Intn(4)])
			if st.ReadN > 800 && st.Chunk == 1 {
				st.Chunk = 100
			}
			st.Frames = c33GenFrames(g, total, int64(budget), g.Bool())
			return st
		case "client-rst":
			total := g.Range(1, budget)
			st := c33Stream{Kind: "readall", Chunk: 4096, DeclLen: -1, Hold: true, ClientR: true}
			st.Frames = c33GenFrames(g, total, int64(budget), false)
			return st
		case "body-close":
			total := g.Range(2, budget/2)
			st := c33Stream{Kind: "closebody", Chunk: 1000, DeclLen: -1}
			st.ReadN = int64(g.Range(0, total))
			st.Frames = c33GenFrames(g, total, int64(budget), false)
			st.After = c33GenFrames(g, g.Range(1, budget/2), int64(budget), false)
			return st
		case "beyond-content-length":
			total := g.Range(1, budget/2)
			st := c33Stream{Kind: "readall", Chunk: 4096, MidSync: false}
			st.Frames = c33GenFrames(g, total, int64(budget), false)
			st.DeclLen = int64(total)
			// the frame that crosses the declared length (data >= 1)
			extra := c33Frame{Data: g.Range(1, 3000), Pad: -1}
			if g.Chance(1, 3) {
				extra.Pad = g.Intn(50)
			}
			st.Frames = append(st.Frames, extra)
			return st
		}
		return c33ReadAll(g, isw)
	}
	for k := 0; k < n; k++ {
		if cs.Class != "clean" && cs.Class != "excess" && (k == 0 || g.Bool()) {
			cs.Streams = append(cs.Streams, risky())
		} else {
			cs.Streams = append(cs.Streams, c33ReadAll(g, isw))
		}
	}
	if cs.Class == "excess" {
		// last stream: held handler, a few frames, then exceed the stream or the connection window
		st := c33Stream{Kind: "readall", Chunk: 4096, DeclLen: -1, Hold: true}
		st.Excess = []string{"stream", "conn"}[g.Intn(2)]
		st.ExcessBy = []int{1, 1, 2, 1000}[g.Intn(4)]
		total := g.Range(0, int(minI64(isw, 60000)))
		if st.Excess == "conn" && isw <= 65535 {
			// the conn window must be the smaller one: make earlier held streams eat it, see below
			total = g.Range(0, 20000)
		}
		st.Frames = c33GenFrames(g, total, minI64(isw, 16384), false)
		if st.Excess == "conn" {
			// a second held stream that consumes connection window so that conn < this stream's window
			eat := c33Stream{Kind: "readall", Chunk: 4096, DeclLen: -1, Hold: true}
			eat.Frames = c33GenFrames(g, g.Range(20000, int(minI64(isw, 40000))), minI64(isw, 16384), false)
			cs.Streams = []c33Stream{eat}
			cs.Concurrent = true
		} else {
			// keep readall neighbours only if they finish (sequential) so the view is exact
			cs.Concurrent = false
		}
		cs.Streams = append(cs.Streams, st)
	}
	return cs
}

// c33Minimal builds the minimal single-stream witness of a leak class and
// repeats it on one connection until the client's connection window is
// exhausted at quiescence (the literal stall of the property statement).
func c33Minimal(r *vkit.Run, class string) map[string]interface{} {
	mk := func() c33Stream {
		switch class {
		case "early-return":
			return c33Stream{Kind: "readn", Chunk: 4096, ReadN: 0, DeclLen: -1, Hold: true, Frames: []c33Frame{{Data: 16384, Pad: -1}}}
		case "client-rst":
			return c33Stream{Kind: "readall", Chunk: 4096, DeclLen: -1, Hold: true, ClientR: true, Frames: []c33Frame{{Data: 16384, Pad: -1}}}
		case "body-close":
			return c33Stream{Kind: "closebody", Chunk: 4096, ReadN: 0, DeclLen: -1, Frames: []c33Frame{{Data: 1, Pad: -1}}, After: []c33Frame{{Data: 16384, Pad: -1}}}
		case "beyond-content-length":
			return c33Stream{Kind: "readall", Chunk: 4096, DeclLen: 1, Frames: []c33Frame{{Data: 1, Pad: -1}, {Data: 16384, Pad: -1}}}
		}
		return c33Stream{}
	}
	one := &c33Case{Class: class, Streams: []c33Stream{mk()}}
	r1 := c33RunCase(r, one, false)
	many := &c33Case{Class: class}
	for i := 0; i < 8; i++ {
		many.Streams = append(many.Streams, mk())
	}
	rm := c33RunCase(r, many, false)
	return map[string]interface{}{
		"single_stream_case":            one,
		"single_stream_octets_sent":     r1.sent,
		"single_stream_conn_deficit":    r1.connDeficit,
		"single_stream_server_inflow":   r1.srvConnInflow,
		"single_stream_client_conn_win": r1.cliConn,
		"repeat_8_streams_stalled_at":   rm.stallAt,
		"repeat_client_conn_window":     rm.cliConn,
		"repeat_server_conn_inflow":     rm.srvConnInflow,
		"meaning":                       "stalled_at>=0: before sending on that stream the client (which never exceeded a window) had too little connection window, the server was quiescent and no handler had anything left to read: no WINDOW_UPDATE can ever come",
	}
}

var c33LeakSig = map[string]string{
	"early-return":          "conn-window-leak:unread-body-at-handler-return",
	"client-rst":            "conn-window-leak:unread-body-at-client-rst",
	"body-close":            "conn-window-leak:data-after-body-close",
	"beyond-content-length": "conn-window-leak:data-beyond-content-length",
	"clean":                 "conn-window-leak:all-handlers-read-everything",
	"excess":                "conn-window-leak:excess-scenario",
}

func c33Judge(r *vkit.Run, cs *c33Case, res c33Result) {
	if (res.inconclusive != "" || !res.ok) && os.Getenv("VH2_DEBUG") != "" {
		b, _ := json.Marshal(cs)
		fmt.Fprintf(os.Stderr, "DEBUG case inconclusive=%q ok=%v stall=%d: %s\n  tail: %v\n", res.inconclusive, res.ok, res.stallAt, trunc(string(b), 1500), res.tail)
	}
	if res.inconclusive != "" {
		r.Count("cases_inconclusive", 1)
		r.Count("inconclusive:"+strings.SplitN(res.inconclusive, ":", 2)[0], 1)
		return
	}
	if !res.ok {
		r.Count("cases_aborted", 1)
		return
	}
	r.Count("class:"+cs.Class, 1)
	if cs.Class == "excess" {
		return
	}
	r.Count("conn_conservation_checks", 1)
	if res.connDeficit == 0 && res.stallAt < 0 {
		r.Count("conn_conservation_held", 1)
		return
	}
	sig := c33LeakSig[cs.Class]
	if res.connDeficit == 0 {
		sig = "stall:window-not-reopened:" + cs.Class
	}
	if res.connDeficit < 0 {
		sig = strings.Replace(sig, "leak", "over-refund", 1)
	}
	what := fmt.Sprintf("at quiescence with every stream closed the connection window was re-opened by %d octets less than the %d DATA octets (padding included) the client sent (client view of conn window %d, server inflow %d); stall observed at stream index %d",
		res.connDeficit, res.sent, res.cliConn, res.srvConnInflow, res.stallAt)
	if _, dup := c33Reported.LoadOrStore(sig, true); !dup {
		if _, ok := c33LeakSig[cs.Class]; ok && cs.Class != "clean" && cs.Class != "excess" && res.connDeficit > 0 {
			cs.Extra = c33Minimal(r, cs.Class)
		}
	}
	r.Violation(sig, what, cs)
}

func c33(r *vkit.Run) {
	r.SetRule("one case = one connection over net.Pipe to the real bfe_http2 server (1-6 POST streams (1-2 extra in the excess class), sequential or concurrent; DATA 0..16384 octets, 1/3 padded with 0/1/7/100/255 pad octets; stream window 65535/20000/200000 via MaxUploadBufferPerStream; with and without the large connection receive window; client SETTINGS midway in 1/4). Handlers: read everything in 1..70000-octet reads, at most 800 reads per stream (optionally started late), read N then return, never read, close the body and stay. Classes: clean, early-return, client-rst, body-close, beyond-content-length, excess (stream / connection window exceeded by 1,2,1000 after the client's view was made exact by quiescence). Oracles: excess => RST_STREAM or GOAWAY FLOW_CONTROL_ERROR and handler never sees the octets; per open stream whose handler consumed everything: sum(WINDOW_UPDATE)==sum(DATA flow length); per connection at final quiescence (all streams closed): same; a window that is still too small at quiescence when no handler can read further = stall. Quiescence = serve loop reports empty scheduler and no frame in flight, then PING round trip, twice. Non-trivial = case ran to its final check; distinct = full case description")
	r.Assume("x/net http2 Framer is the client codec; 'consumed' includes octets the server discards (stream closed/reset): RFC 7540 6.9 requires them to be counted and the statement requires that a respecting client never stalls")
	if r.Replay != "" {
		var cs c33Case
		if err := r.LoadReplay(&cs); err != nil {
			r.Inconclusive(err.Error())
			return
		}
		cs.Extra = nil
		bfe_http2.VerifSetLargeConnRecvWindow(cs.LargeConn)
		res := c33RunCase(r, &cs, true)
		c33Judge(r, &cs, res)
		r.Evals(1)
		r.SetMinDistinct(0)
		return
	}
	n := envN(r.N(300, 4500))
	for phase := 0; phase < 2; phase++ {
		large := phase == 1
		bfe_http2.VerifSetLargeConnRecvWindow(large)
		cnt := n * 3 / 4
		if large {
			cnt = n / 4
		}
		vkit.Parallel(cnt, 96, func(i int) {
			idx := i
			if large {
				idx += 10000000
			}
			cs := c33Gen(r, idx)
			cs.LargeConn = large
			t0 := time.Now()
			res := c33RunCase(r, cs, true)
			if d := time.Since(t0); d > 5*time.Second && os.Getenv("VH2_DEBUG") != "" {
				b, _ := json.Marshal(cs)
				fmt.Fprintf(os.Stderr, "SLOW %v class=%s ok=%v %s\n", d, cs.Class, res.ok, trunc(string(b), 1200))
			}
			key := fmt.Sprintf("%+v", *cs)
			r.CaseS(key, res.ok)
			c33Judge(r, cs, res)
			if r.WantSample() && res.ok && len(cs.Streams) <= 2 {
				r.Sample(cs)
			}
		})
	}
	bfe_http2.VerifSetLargeConnRecvWindow(false)
	for _, need := range []string{"class:clean", "excess_frames_sent", "stream_conservation_checks", "conn_conservation_checks"} {
		if r.Counter(need) == 0 {
			r.Inconclusive("C33: workload never reached " + need)
		}
	}
	if r.Counter("excess_answered_rst_flow_control")+r.Counter("excess_answered_goaway_flow_control") == 0 && r.Violations() == 0 {
		r.Inconclusive("C33: no excess frame was answered with FLOW_CONTROL_ERROR")
	}
}
