package main

import (
	"fmt"
	"strings"
	"sync"
	"sync/atomic"
	"time"

	bfe_http "github.com/bfenetworks/bfe/bfe_http"
	"github.com/bfenetworks/bfe/bfe_http2"
	"golang.org/x/net/http2"

	"verifharness/h2cli"
	"verifharness/vkit"
)

// C36: for any sequence of PRIORITY frames and prioritised HEADERS no stream
// becomes its own ancestor and priority processing terminates.
//
// Oracle (from the statement): after every priority-bearing operation walk
// `parent` from every node reachable from the stream map with a step bound
// equal to the number of nodes; exceeding the bound is a cycle.

type c36Op struct {
	Kind string `json:"kind"` // "prio" | "close" | "open"
	ID   uint32 `json:"id"`
	Dep  uint32 `json:"dep,omitempty"`
	Excl bool   `json:"excl,omitempty"`
	W    uint8  `json:"w,omitempty"`
}

func (o c36Op) String() string {
	switch o.Kind {
	case "close":
		return fmt.Sprintf("close(%d)", o.ID)
	case "open":
		return fmt.Sprintf("open(%d)", o.ID)
	}
	e := ""
	if o.Excl {
		e = ",excl"
	}
	return fmt.Sprintf("prio(%d->%d%s)", o.ID, o.Dep, e)
}

type c36Witness struct {
	Driver  string   `json:"driver"`
	Streams []uint32 `json:"streams"`
	Ops     []c36Op  `json:"ops"`
	Tree    string   `json:"tree_after,omitempty"`
}

// c36Cycle walks the parent edges; returns a description of a cycle or "".
func c36Cycle(nodes []bfe_http2.VerifNode) string {
	n := len(nodes)
	for i := range nodes {
		cur := i
		for steps := 0; ; steps++ {
			p := nodes[cur].Parent
			if p < 0 {
				break
			}
			if p == i {
				return fmt.Sprintf("stream %d is its own ancestor", nodes[i].ID)
			}
			if steps > n {
				return fmt.Sprintf("walk from stream %d exceeds %d steps (cycle among its ancestors)", nodes[i].ID, n)
			}
			cur = p
		}
	}
	return ""
}

func c36Tree(nodes []bfe_http2.VerifNode) string {
	var sb strings.Builder
	for _, nd := range nodes {
		p := "nil"
		if nd.Parent >= 0 {
			p = fmt.Sprint(nodes[nd.Parent].ID)
		}
		c := ""
		if !nd.InMap {
			c = "(closed)"
		}
		fmt.Fprintf(&sb, "%d%s->%s ", nd.ID, c, p)
	}
	return sb.String()
}

func c36Depth(nodes []bfe_http2.VerifNode) int {
	max := 0
	for i := range nodes {
		d, cur := 0, i
		for nodes[cur].Parent >= 0 && d <= len(nodes) {
			cur = nodes[cur].Parent
			d++
		}
		if d > max {
			max = d
		}
	}
	return max
}

// isDescendant: is node with id `of` a strict descendant of node with id `anc` (both in map)?
func c36IsDescendant(nodes []bfe_http2.VerifNode, of, anc uint32) bool {
	for i := range nodes {
		if nodes[i].ID == of && nodes[i].InMap {
			cur := i
			for s := 0; nodes[cur].Parent >= 0 && s <= len(nodes); s++ {
				cur = nodes[cur].Parent
				if nodes[cur].ID == anc && nodes[cur].InMap {
					return true
				}
			}
		}
	}
	return false
}

// heartbeat slots for the non-termination watchdog
type c36Beat struct {
	mu      sync.Mutex
	inCall  bool
	calls   uint64
	streams []uint32
	ops     []c36Op // prefix including the op being executed (owned by the worker; copied by the watchdog under mu)
}

type c36Dog struct {
	r     *vkit.Run
	beats []*c36Beat
	stop  chan struct{}
}

const c36CallBound = 30 * time.Second // safety net only; see rule text

func newC36Dog(r *vkit.Run, n int) *c36Dog {
	d := &c36Dog{r: r, stop: make(chan struct{})}
	for i := 0; i < n; i++ {
		d.beats = append(d.beats, &c36Beat{})
	}
	lastCalls := make([]uint64, n)
	lastSeen := make([]time.Time, n)
	for i := range lastSeen {
		lastSeen[i] = time.Now()
	}
	go func() {
		t := time.NewTicker(500 * time.Millisecond)
		defer t.Stop()
		for {
			select {
			case <-d.stop:
				return
			case <-t.C:
			}
			for bi, b := range d.beats {
				b.mu.Lock()
				if !b.inCall || b.calls != lastCalls[bi] {
					lastCalls[bi], lastSeen[bi] = b.calls, time.Now()
				}
				hung := b.inCall && time.Since(lastSeen[bi]) > c36CallBound
				var w c36Witness
				if hung { // the worker is stuck inside the call, so its op slice is stable
					w = c36Witness{Driver: "private-map", Streams: b.streams, Ops: append([]c36Op(nil), b.ops...)}
				}
				b.mu.Unlock()
				if hung {
					r.Violation("nontermination:adjustStreamPriority",
						fmt.Sprintf("adjustStreamPriority did not return within %v although the tree was acyclic before the call; ops=%v", c36CallBound, w.Ops), w)
					r.Finish()
				}
			}
		}
	}()
	return d
}

// c36Run applies ops to a fresh private tree through the real
// adjustStreamPriority, checking acyclicity after every op. Returns the final
// nodes, whether a descendant re-parenting happened, and false if a violation was reported.
func c36Run(r *vkit.Run, beat *c36Beat, streams []uint32, ops []c36Op) (nodes []bfe_http2.VerifNode, descCase bool, ok bool) {
	t := bfe_http2.VerifNewPriorityTree(streams)
	nodes = t.Nodes()
	for i, op := range ops {
		switch op.Kind {
		case "close":
			t.Close(op.ID)
		case "open":
			t.Open(op.ID)
		default:
			if c36IsDescendant(nodes, op.Dep, op.ID) {
				descCase = true
			}
			if beat != nil {
				beat.mu.Lock()
				beat.inCall = true
				beat.calls++
				beat.streams, beat.ops = streams, ops[:i+1]
				beat.mu.Unlock()
			}
			t.Adjust(op.ID, op.Dep, op.Excl, op.W)
			if beat != nil {
				beat.mu.Lock()
				beat.inCall = false
				beat.mu.Unlock()
			}
		}
		nodes = t.Nodes()
		if why := c36Cycle(nodes); why != "" {
			w := c36Witness{Driver: "private-map", Streams: streams, Ops: append([]c36Op(nil), ops[:i+1]...), Tree: c36Tree(nodes)}
			r.Violation("cycle:"+c36Shape(ops[:i+1]), why+" after "+fmt.Sprint(ops[:i+1]), w)
			atomic.AddInt32(&c36Viol, 1)
			// at most once per process: the demonstration leaves a spinning goroutine behind if it hangs
			c36DemoOnce.Do(func() { c36DemonstrateHang(r, streams, ops[:i+1]) })
			return nodes, descCase, false
		}
	}
	return nodes, descCase, true
}

// c36Shape: signature from the last op (the one that closed the cycle).
func c36Shape(ops []c36Op) string {
	last := ops[len(ops)-1]
	s := "dep-on-other"
	if last.Kind != "prio" {
		s = last.Kind
	} else if last.Dep == last.ID {
		s = "self-dependency"
	} else if last.Dep == 0 {
		s = "dep-0"
	}
	if last.Excl {
		s += ",exclusive"
	}
	nclosed := 0
	for _, o := range ops {
		if o.Kind == "close" {
			nclosed++
		}
	}
	if nclosed > 0 {
		s += ",with-closed-streams"
	}
	return s
}

var (
	c36Viol     int32 // violations reported so far; the drivers stop early once a handful is in
	c36DemoOnce sync.Once
)

func c36Enough() bool { return atomic.LoadInt32(&c36Viol) >= 6 }

// c36DemonstrateHang: once a cycle exists, a further priority update that
// walks the cyclic ancestors cannot terminate; show it (bounded) for the report.
func c36DemonstrateHang(r *vkit.Run, streams []uint32, ops []c36Op) {
	done := make(chan struct{})
	go func() {
		t := bfe_http2.VerifNewPriorityTree(streams)
		for _, op := range ops {
			switch op.Kind {
			case "close":
				t.Close(op.ID)
			case "open":
				t.Open(op.ID)
			default:
				t.Adjust(op.ID, op.Dep, op.Excl, op.W)
			}
		}
		// re-parent every stream under every other: some call must walk the cycle
		for _, a := range streams {
			for _, b := range streams {
				if a != b {
					t.Adjust(a, b, false, 0)
				}
			}
		}
		close(done)
	}()
	select {
	case <-done:
		r.Count("hang_demo_terminated", 1)
	case <-time.After(2 * time.Second):
		r.Count("hang_demo_did_not_terminate", 1)
	}
}

func c36Key(nodes []bfe_http2.VerifNode, descCase bool, last c36Op) uint64 {
	return vkit.Hash64(c36Tree(nodes), fmt.Sprint(descCase), last.Kind, fmt.Sprint(last.Excl))
}

func c36Alphabet(streams []uint32, withClose bool) []c36Op {
	var al []c36Op
	deps := append([]uint32{0}, streams...)
	for _, id := range streams {
		for _, dep := range deps { // includes dep == id (self-dependency)
			for _, ex := range []bool{false, true} {
				al = append(al, c36Op{Kind: "prio", ID: id, Dep: dep, Excl: ex, W: 15})
			}
		}
	}
	if withClose {
		for _, id := range streams {
			al = append(al, c36Op{Kind: "close", ID: id})
		}
	}
	return al
}

func c36(r *vkit.Run) {
	r.SetRule("driver a (private stream map, real adjustStreamPriority via accessor): EXHAUSTIVE over all sequences of length<=4 of {PRIORITY(id,dep,excl): id in 5 streams, dep in {0}+5 streams incl. self, excl in {0,1}} + {close(id)} (65-letter alphabet, 18.1M sequences; thorough adds length 5 over 3 streams+close and length<=6 over 2 streams) and random long sequences (5-80 ops, 3-12 streams, opens of new ids and closes mixed in); acyclicity walk (step bound = node count, closed-but-referenced streams included) after EVERY op. driver b: real server on net.Pipe fed HEADERS(+priority)/PRIORITY/RST_STREAM with blocking handlers, tree read on the serve goroutine after each frame (PING round trip first). Termination: every call is covered by a 30 s heartbeat watchdog; since the tree is verified acyclic before each call the loops of adjustStreamPriority are bounded, so the watchdog is a safety net not a timing oracle. Non-trivial = a PRIORITY re-parented a stream under its own descendant, or final depth>=2; distinct = (final tree incl. closed nodes, descendant-case flag, last op kind)")
	r.Assume("trusted: verifNodes accessor (pointer walk with visited set) and x/net http2 Framer as client codec")
	if r.Replay != "" {
		var w c36Witness
		if err := r.LoadReplay(&w); err != nil {
			r.Inconclusive(err.Error())
			return
		}
		r.SetMinDistinct(0)
		if w.Driver == "server" {
			c36ServerCase(r, w.Streams, w.Ops, nil)
		} else {
			c36Run(r, nil, w.Streams, w.Ops)
		}
		r.Evals(1)
		return
	}

	workers := 16
	dog := newC36Dog(r, workers+1)
	defer close(dog.stop)

	// ---- exhaustive part ----
	// DFS over op sequences with snapshot/restore of the private map (so each
	// sequence costs one real adjustStreamPriority call, not its whole prefix).
	var desc, deep int64
	exhaust := func(streams []uint32, maxLen int, withClose bool) {
		al := c36Alphabet(streams, withClose)
		n := len(al)
		ns := len(streams)
		idxOf := map[uint32]int{}
		for i, id := range streams {
			idxOf[id] = i
		}
		vkit.Parallel(n, workers, func(i int) {
			beat := dog.beats[i%workers]
			t := bfe_http2.VerifNewPriorityTree(streams)
			var total, nDesc, nDeep int64
			seen := map[uint64]struct{}{} // worker-local: only first sightings go to the shared distinct set
			ops := make([]c36Op, 0, maxLen)
			saveP := make([][]int, maxLen+1)
			saveM := make([][]bool, maxLen+1)
			for d := range saveP {
				saveP[d] = make([]int, 0, ns)
				saveM[d] = make([]bool, 0, ns)
			}
			curP := make([]int, 0, ns)
			curM := make([]bool, 0, ns)
			var rec func(depth int)
			// apply runs op on the live tree and checks it; false = violation (already reported)
			apply := func(depth int, op c36Op) bool {
				saveP[depth], saveM[depth] = t.Parents(saveP[depth], saveM[depth])
				dc := false
				switch op.Kind {
				case "close":
					t.Close(op.ID)
				default:
					if op.Dep != 0 && op.Dep != op.ID {
						a, b := idxOf[op.ID], idxOf[op.Dep]
						if saveM[depth][a] && saveM[depth][b] {
							for cur, s := b, 0; saveP[depth][cur] >= 0 && s <= ns; s++ {
								cur = saveP[depth][cur]
								if cur == a {
									dc = true
									break
								}
							}
						}
					}
					beat.mu.Lock()
					beat.inCall = true
					beat.calls++
					beat.streams, beat.ops = streams, ops
					beat.mu.Unlock()
					t.Adjust(op.ID, op.Dep, op.Excl, op.W)
					beat.mu.Lock()
					beat.inCall = false
					beat.mu.Unlock()
				}
				curP, curM = t.Parents(curP, curM)
				// acyclicity walk with step bound
				maxDepth := 0
				for i := range curP {
					cur, steps := i, 0
					for curP[cur] >= 0 {
						cur = curP[cur]
						steps++
						if cur == i || steps > ns {
							// report through the slow path (fresh tree, full witness)
							c36Run(r, nil, streams, append([]c36Op(nil), ops...))
							return false
						}
					}
					if steps > maxDepth {
						maxDepth = steps
					}
				}
				total++
				if dc {
					nDesc++
				}
				if dc || maxDepth >= 2 {
					nDeep++
					var k uint64 = 1469598103934665603
					for i := range curP {
						k = (k ^ uint64(curP[i]+2)) * 1099511628211
						if curM[i] {
							k = (k ^ 7) * 1099511628211
						}
					}
					if dc {
						k = (k ^ 99) * 1099511628211
					}
					if op.Excl {
						k = (k ^ 55) * 1099511628211
					}
					if op.Kind == "close" {
						k = (k ^ 33) * 1099511628211
					}
					if _, dup := seen[k]; !dup {
						seen[k] = struct{}{}
						r.Case(k, true)
						total--
					}
				}
				return true
			}
			rec = func(depth int) {
				if depth == maxLen {
					return
				}
				for _, op := range al {
					if c36Enough() {
						return
					}
					ops = append(ops, op)
					if apply(depth, op) {
						rec(depth + 1)
					}
					t.Restore(saveP[depth], saveM[depth])
					ops = ops[:len(ops)-1]
				}
			}
			if c36Enough() {
				return
			}
			ops = append(ops, al[i])
			if apply(0, al[i]) {
				rec(1)
			}
			r.Evals(total)
			atomic.AddInt64(&desc, nDesc)
			atomic.AddInt64(&deep, nDeep)
		})
	}
	s5 := []uint32{1, 3, 5, 7, 9}
	t0 := time.Now()
	exhaust(s5, 4, true)
	r.Count("phase_exhaustive_ms", time.Since(t0).Milliseconds())
	if !r.Quick() {
		exhaust([]uint32{1, 3, 5}, 5, true)
		exhaust([]uint32{1, 3}, 6, true)
	}
	r.Count("exhaustive_descendant_reparent_cases", atomic.LoadInt64(&desc))
	r.Count("exhaustive_nontrivial", atomic.LoadInt64(&deep))
	r.SetExhaustive(false) // the exhaustive part is complete for its stated bounds; the property quantifies over all sequences

	// ---- random long sequences on the private map ----
	nr := r.N(50000, 2000000)
	vkit.Parallel(nr, workers, func(i int) {
		if c36Enough() {
			return
		}
		g := r.Rng("prio-long", i)
		ns := g.Range(3, 12)
		var streams []uint32
		for k := 0; k < ns; k++ {
			streams = append(streams, uint32(2*k+1))
		}
		next := uint32(2*ns + 1)
		known := append([]uint32(nil), streams...)
		nops := g.Range(5, 80)
		var ops []c36Op
		for k := 0; k < nops; k++ {
			switch {
			case g.Chance(1, 12):
				ops = append(ops, c36Op{Kind: "close", ID: known[g.Intn(len(known))]})
			case g.Chance(1, 15):
				op := c36Op{Kind: "open", ID: next}
				known = append(known, next)
				next += 2
				ops = append(ops, op)
			default:
				id := known[g.Intn(len(known))]
				dep := uint32(0)
				switch g.Intn(10) {
				case 0:
				case 1:
					dep = id
				case 2:
					dep = next + 10 // idle stream
				default:
					dep = known[g.Intn(len(known))]
				}
				ops = append(ops, c36Op{Kind: "prio", ID: id, Dep: dep, Excl: g.Chance(2, 5), W: uint8(g.Intn(256))})
			}
		}
		nodes, dc, ok := c36Run(r, dog.beats[i%workers], streams, ops)
		if ok {
			r.Case(c36Key(nodes, dc, ops[len(ops)-1]), dc || c36Depth(nodes) >= 2)
			if dc {
				r.Count("random_descendant_reparent_cases", 1)
			}
			if r.WantSample() && dc {
				r.Sample(map[string]interface{}{"ops": fmt.Sprint(ops), "tree": c36Tree(nodes)})
			}
		}
	})

	// ---- driver b: the real server ----
	nc := r.N(250, 5000)
	var observed, srvDeep int64
	vkit.Parallel(nc, 32, func(i int) {
		if c36Enough() {
			return
		}
		g := r.Rng("prio-server", i)
		ns := g.Range(2, 7)
		var streams []uint32
		for k := 0; k < ns; k++ {
			streams = append(streams, uint32(2*k+1))
		}
		nops := g.Range(4, 30)
		var ops []c36Op
		open := map[uint32]bool{}
		nextOpen := 0
		for k := 0; k < nops; k++ {
			switch {
			case nextOpen < ns && (k < 2 || g.Chance(1, 4)):
				id := streams[nextOpen]
				nextOpen++
				op := c36Op{Kind: "open", ID: id}
				if g.Chance(3, 4) { // HEADERS carrying priority
					deps := append([]uint32{0, id, id + 20}, streams...)
					op.Dep = deps[g.Intn(len(deps))]
					op.Excl = g.Chance(2, 5)
					op.W = uint8(g.Intn(256))
					op.Kind = "open+prio"
				}
				open[id] = true
				ops = append(ops, op)
			case len(open) > 0 && g.Chance(1, 8):
				var ids []uint32
				for _, id := range streams {
					if open[id] {
						ids = append(ids, id)
					}
				}
				id := ids[g.Intn(len(ids))]
				delete(open, id)
				kind := "close" // RST_STREAM from the client
				if g.Bool() {
					kind = "finish" // handler released, response ends the stream
				}
				ops = append(ops, c36Op{Kind: kind, ID: id})
			default:
				id := streams[g.Intn(ns)]
				deps := append([]uint32{0, id, 99}, streams...)
				ops = append(ops, c36Op{Kind: "prio", ID: id, Dep: deps[g.Intn(len(deps))], Excl: g.Chance(2, 5), W: uint8(g.Intn(256))})
			}
		}
		obs, depth := c36ServerCase(r, streams, ops, dog.beats[workers])
		atomic.AddInt64(&observed, int64(obs))
		if depth >= 2 {
			atomic.AddInt64(&srvDeep, 1)
		}
		r.CaseS("srv|"+fmt.Sprint(ops), depth >= 2)
	})
	r.Count("server_tree_snapshots", observed)
	r.Count("server_cases_depth_ge2", srvDeep)
	if c36Enough() {
		return // stopped early on violations; the coverage counters below are meaningless then
	}
	if observed == 0 {
		r.Inconclusive("driver b never observed the server's tree")
	}
	if srvDeep == 0 {
		r.Inconclusive("driver b never produced a dependency chain of depth >= 2 on the real server")
	}
}

type c36Handler struct {
	mu      sync.Mutex
	release map[uint32]chan struct{}
	all     chan struct{}
}

func (h *c36Handler) ch(id uint32) chan struct{} {
	h.mu.Lock()
	defer h.mu.Unlock()
	c, ok := h.release[id]
	if !ok {
		c = make(chan struct{})
		h.release[id] = c
	}
	return c
}

func (h *c36Handler) ServeHTTP(w bfe_http.ResponseWriter, req *bfe_http.Request) {
	var id uint32
	fmt.Sscan(req.Header.Get("X-Id"), &id)
	cn := w.(bfe_http.CloseNotifier).CloseNotify()
	select {
	case <-h.ch(id):
	case <-h.all:
	case <-cn:
	}
	w.WriteHeader(204)
}

// c36ServerCase feeds ops to the real server and inspects the tree on the
// serve goroutine after every frame. Returns snapshots taken and max depth seen.
func c36ServerCase(r *vkit.Run, streams []uint32, ops []c36Op, _ *c36Beat) (snaps, maxDepth int) {
	h := &c36Handler{release: map[uint32]chan struct{}{}, all: make(chan struct{})}
	tc := dialPipe(nil, h)
	defer func() {
		close(h.all)
		tc.cli.Close()
		tc.waitDone(10 * time.Second)
	}()
	if err := tc.cli.Start(); err != nil {
		return 0, 0
	}
	for i, op := range ops {
		var err error
		switch op.Kind {
		case "open", "open+prio":
			o := h2cli.HeadersOpt{EndStream: true}
			if op.Kind == "open+prio" {
				o.Priority = &http2.PriorityParam{StreamDep: op.Dep, Exclusive: op.Excl, Weight: op.W}
			}
			err = tc.cli.WriteHeaders(op.ID, h2cli.Req("GET", "/p", hf("x-id", fmt.Sprint(op.ID))), o)
		case "close":
			err = tc.cli.WriteRST(op.ID, http2.ErrCodeCancel)
		case "finish":
			close(h.ch(op.ID))
			// wait for the response so that the stream is closed at the server
			err = tc.cli.Wait(func(evs []h2cli.Event) bool {
				for _, e := range evs {
					if e.StreamID == op.ID && e.EndStream {
						return true
					}
				}
				return false
			})
		default:
			err = tc.cli.WritePriority(op.ID, http2.PriorityParam{StreamDep: op.Dep, Exclusive: op.Excl, Weight: op.W})
		}
		if err != nil {
			break
		}
		if _, err := tc.cli.Sync(); err != nil {
			break
		}
		s, alive := tc.vc.OnServe()
		if !alive {
			break
		}
		snaps++
		if d := c36Depth(s.Nodes); d > maxDepth {
			maxDepth = d
		}
		if why := c36Cycle(s.Nodes); why != "" {
			w := c36Witness{Driver: "server", Streams: streams, Ops: append([]c36Op(nil), ops[:i+1]...), Tree: c36Tree(s.Nodes)}
			r.Violation("cycle:server,"+c36Shape(ops[:i+1]), why+" on the real server after "+fmt.Sprint(ops[:i+1]), w)
			atomic.AddInt32(&c36Viol, 1)
			return
		}
	}
	// a GOAWAY with an error code here means the server rejected a legal priority frame: not C36's concern
	return
}
