// vh2 decides the HTTP/2 server properties C33 (inbound flow control),
// C34 (outbound DATA), C35 (stream state machine / no internal panic),
// C36 (priority tree acyclic), C37 (control-frame floods), C38 (responses).
package main

import (
	"fmt"
	"os"

	"verifharness/vkit"
)

func main() {
	r := vkit.Start("exploration")
	initKit()
	switch r.Prop {
	case "C33":
		c33(r)
	case "C34":
		c34(r)
	case "C35":
		c35(r)
	case "C36":
		c36(r)
	case "C37":
		c37(r)
	case "C38":
		c38(r)
	default:
		fmt.Fprintln(os.Stderr, "vh2: unknown property", r.Prop)
		os.Exit(vkit.ExitInconclusive)
	}
	checkPanics(r)
	r.Finish()
}
