package main

import (
	"encoding/binary"
	"encoding/hex"
	"encoding/json"
	"fmt"
	"os"
	"path/filepath"
	"sort"
	"strings"
	"sync"
	"sync/atomic"
	"syscall"
	"time"

	"github.com/bfenetworks/bfe/bfe_http2"
	"golang.org/x/net/http2"

	"verifharness/h2cli"
	"verifharness/vkit"
)

// C35, third driver: the FLAG SPACE of the frames that carry padding, priority
// fields or header-block fragments. The sequence driver (c35.go) only writes
// well-formed frames through the x/net Framer; here every frame is written
// octet by octet: HEADERS with all 16 combinations of END_STREAM, END_HEADERS,
// PADDED, PRIORITY (plus undefined flag bits), Pad Length on every boundary
// of the payload (0,1,2, len-7..len+1, 255: fits / overlaps the priority fields /
// exceeds the frame), payloads cut short in the middle of the optional fields,
// zero-length payloads with flags set, priority fields with self-dependency,
// the exclusive bit, dependencies on closed and on idle streams; DATA with Pad
// Length below, at and above the payload length; CONTINUATION with flags that
// have no meaning for it; PRIORITY frames of every length; PUSH_PROMISE and all
// other frame types with wrong lengths and all flag patterns - each addressed
// to an idle, an open, a half-closed(remote), a closed stream and stream 0.
//
// Oracle (exactly the last sentence of the statement): after each hostile frame
// the connection either continues (a PING is acknowledged) or ends with GOAWAY
// or close, no serve-goroutine panic was recovered, and - because the server
// reads frames on a goroutine WITHOUT recover - the process is still alive. A
// request that is legal (valid padding / priority fields / undefined flags that
// RFC 7540 4.1 says MUST be ignored, complete valid header block on a fresh
// stream) must be served; legal DATA on an open stream must not be refused.
//
// A panic on the readFrames goroutine kills this very process (the server runs
// in-process). Therefore the driver runs ALONE and SEQUENTIALLY, before the
// parallel drivers, and writes the step ahead (vkit.WriteAhead) before every
// hostile frame: bin/check turns the fatal exit into a VIOLATION whose witness
// is exactly the step that was on the wire.

const (
	ffES   = 0x01
	ffEH   = 0x04
	ffPAD  = 0x08
	ffPRIO = 0x20
	ffJunk = 0xd2 // 0x02|0x10|0x40|0x80: bits without meaning for any frame type used here
)

type c35fFrame struct {
	Type      uint8  `json:"type"`
	Flags     uint8  `json:"flags"`
	PadLen    int    `json:"pad_length"`           // -1: no Pad Length octet
	Prio      string `json:"prio,omitempty"`       // zero | self | self-excl | other | other-excl | ghost | ghost-excl
	Weight    uint8  `json:"weight,omitempty"`     //
	Body      string `json:"body,omitempty"`       // one | full | first | rest | post
	PadOctets int    `json:"pad_octets,omitempty"` // zero octets appended after the body
	Raw       string `json:"raw_hex,omitempty"`    // if HasRaw: the payload is exactly these octets
	HasRaw    bool   `json:"has_raw,omitempty"`
}

type c35fStep struct {
	Ctx    string      `json:"ctx"` // idle | open | hcr | closed | zero
	Frames []c35fFrame `json:"frames"`
	Legal  bool        `json:"legal,omitempty"`
	Shape  string      `json:"shape"`
}

var c35fTypeNames = map[uint8]string{0: "DATA", 1: "HEADERS", 2: "PRIORITY", 3: "RST_STREAM", 4: "SETTINGS", 5: "PUSH_PROMISE", 6: "PING", 7: "GOAWAY", 8: "WINDOW_UPDATE", 9: "CONTINUATION"}

func c35fTypeName(t uint8) string {
	if n, ok := c35fTypeNames[t]; ok {
		return n
	}
	return fmt.Sprintf("TYPE_%#02x", t)
}

func c35fFlagNames(t, fl uint8) string {
	var p []string
	if fl&ffES != 0 {
		p = append(p, "ES")
	}
	if fl&ffEH != 0 {
		p = append(p, "EH")
	}
	if fl&ffPAD != 0 {
		p = append(p, "PADDED")
	}
	if fl&ffPRIO != 0 {
		p = append(p, "PRIORITY")
	}
	if fl&ffJunk != 0 {
		p = append(p, "undef")
	}
	if len(p) == 0 {
		return "none"
	}
	return strings.Join(p, "+")
}

// c35fBlock is a complete request header block in a representation that leaves
// the HPACK dynamic table alone (indexed static entries and literals without
// indexing), so that a refused frame cannot desynchronise the two codecs.
func c35fBlock(method string, k int) []byte {
	b := []byte{0x82, 0x87, 0x84} // :method GET, :scheme https, :path /
	if method == "POST" {
		b[0] = 0x83
	}
	b = append(b, 0x01, 0x0a)
	b = append(b, "verif.test"...) // :authority (name index 1), literal without indexing
	v := fmt.Sprint(k)
	b = append(b, 0x00, 0x03)
	b = append(b, "x-k"...)
	b = append(b, byte(len(v)))
	b = append(b, v...)
	return b
}

const c35fFirstLen = 7 // where a block is split into HEADERS + CONTINUATION

func (f *c35fFrame) bodyBytes(k int) []byte {
	switch f.Body {
	case "one":
		return []byte{0x82}
	case "full":
		return c35fBlock("GET", k)
	case "post":
		return c35fBlock("POST", k)
	case "first":
		return c35fBlock("GET", k)[:c35fFirstLen]
	case "rest":
		return c35fBlock("GET", k)[c35fFirstLen:]
	}
	return nil
}

func (f *c35fFrame) prioBytes(id uint32) []byte {
	if f.Prio == "" {
		return nil
	}
	var dep uint32
	switch strings.TrimSuffix(f.Prio, "-excl") {
	case "self":
		dep = id
	case "other":
		dep = 1 // the first stream of the connection (closed or open by now)
		if id <= 1 {
			dep = 3 // this IS the first stream: depend on a different (idle) one, "self" has its own kind
		}
	case "ghost":
		dep = id + 1001 // an idle stream
	}
	if strings.HasSuffix(f.Prio, "-excl") {
		dep |= 1 << 31
	}
	var b [5]byte
	binary.BigEndian.PutUint32(b[:4], dep)
	b[4] = f.Weight
	return b[:]
}

func (f *c35fFrame) payload(id uint32, k int) []byte {
	if f.HasRaw {
		b, _ := hex.DecodeString(f.Raw)
		return b
	}
	var b []byte
	if f.PadLen >= 0 {
		b = append(b, byte(f.PadLen))
	}
	b = append(b, f.prioBytes(id)...)
	b = append(b, f.bodyBytes(k)...)
	b = append(b, make([]byte, f.PadOctets)...)
	return b
}

// padClass names where Pad Length points, given the layout of the payload.
func c35fPadClass(padLen, total int, prio bool) string {
	if padLen < 0 {
		return "unpadded"
	}
	rem0 := total - 1
	rem := rem0
	if prio {
		rem -= 5
	}
	switch {
	case padLen <= rem:
		return "pad-fits"
	case padLen <= rem0:
		return "pad-overlaps-priority-fields"
	}
	return "pad-exceeds-frame"
}

func c35fBoundary(total, exact int, wide bool) []int {
	set := map[int]bool{0: true, 1: true, 2: true, 255: true, exact: true}
	for d := -7; d <= 1; d++ {
		set[total+d] = true
	}
	if wide {
		for l := 0; l <= total+1; l++ {
			set[l] = true
		}
	}
	var o []int
	for l := range set {
		if l >= 0 && l <= 255 {
			o = append(o, l)
		}
	}
	sort.Ints(o)
	return o
}

var c35fPrioKinds = []string{"zero", "self", "self-excl", "other", "other-excl", "ghost", "ghost-excl", "zero-excl"}

// c35fSteps is the step list: a pure function of (seed, tier).
func c35fSteps(r *vkit.Run) []c35fStep {
	var out []c35fStep
	n := 0
	thorough := !r.Quick()
	// keep decides whether a candidate is run in a context: everything in the context named first
	// (the parsers do not look at the stream state), a seeded fraction in the other contexts
	emit := func(st c35fStep, ctxs []string, num, den int) {
		for ci, ctx := range ctxs {
			n++
			g := r.Rng("c35-flags-keep", n)
			if ci > 0 && !thorough && !g.Chance(num, den) {
				continue
			}
			s := st
			s.Frames = append([]c35fFrame(nil), st.Frames...)
			s.Ctx = ctx
			s.Legal = st.Legal && ctx == "idle"
			if s.Frames[0].Type == 0 {
				s.Legal = st.Legal && ctx == "open"
			}
			out = append(out, s)
		}
	}
	all := []string{"idle", "open", "hcr", "closed", "zero"}
	contFlags := []uint8{ffEH, ffEH | ffPAD, ffEH | ffPRIO, ffEH | ffPAD | ffPRIO | ffES, 0xff}
	// ---- HEADERS ----
	for bits := 0; bits < 16; bits++ {
		var fl uint8
		if bits&1 != 0 {
			fl |= ffES
		}
		if bits&2 != 0 {
			fl |= ffEH
		}
		if bits&4 != 0 {
			fl |= ffPAD
		}
		if bits&8 != 0 {
			fl |= ffPRIO
		}
		hasPad, hasPrio := fl&ffPAD != 0, fl&ffPRIO != 0
		pre := 0
		if hasPad {
			pre++
		}
		if hasPrio {
			pre += 5
		}
		bodies := []string{"", "one", "full"}
		padOctets := []int{0}
		if hasPad {
			padOctets = []int{0, 4}
		}
		for _, body := range bodies {
			for _, po := range padOctets {
				n++
				g := r.Rng("c35-flags-h", n)
				b := body
				if b == "full" && fl&ffEH == 0 {
					b = "first" // completed by the CONTINUATION that follows
				}
				blen := len((&c35fFrame{Body: b}).bodyBytes(0))
				total := pre + blen + po
				pls := []int{-1}
				if hasPad {
					pls = c35fBoundary(total, po, thorough)
				}
				for _, pl := range pls {
					f := c35fFrame{Type: 1, Flags: fl, PadLen: pl, Body: b, PadOctets: po}
					if hasPrio {
						f.Prio = c35fPrioKinds[g.Intn(len(c35fPrioKinds))]
						f.Weight = []uint8{0, 15, 255}[g.Intn(3)]
					}
					if g.Chance(1, 3) {
						f.Flags |= ffJunk
					}
					st := c35fStep{Frames: []c35fFrame{f}}
					st.Shape = "HEADERS[" + c35fFlagNames(1, f.Flags&^ffJunk) + "]:" + c35fPadClass(pl, total, hasPrio)
					selfDep := strings.HasPrefix(f.Prio, "self")
					// legal: the fragment is exactly the block (Pad Length = octets of padding present)
					exact := !hasPad || pl == po
					st.Legal = body == "full" && exact && !selfDep
					if fl&ffEH == 0 {
						cf := c35fFrame{Type: 9, Flags: contFlags[g.Intn(len(contFlags))], PadLen: -1}
						if b == "first" {
							cf.Body = "rest"
						}
						st.Frames = append(st.Frames, cf)
						st.Shape += "+CONTINUATION[" + c35fFlagNames(9, cf.Flags&^ffJunk) + "]"
					}
					emit(st, all, 1, 4)
				}
			}
		}
		// payloads cut short: nothing at all, or the frame ends inside the optional fields
		for _, T := range []int{0, 2, 3, 4, 5} {
			for _, first := range []int{0, T, 255} {
				raw := make([]byte, T)
				if T > 0 {
					raw[0] = byte(first)
				}
				f := c35fFrame{Type: 1, Flags: fl, PadLen: -1, HasRaw: true, Raw: hex.EncodeToString(raw)}
				st := c35fStep{Frames: []c35fFrame{f}, Shape: fmt.Sprintf("HEADERS[%s]:payload-cut-short", c35fFlagNames(1, fl))}
				if T == 0 {
					st.Shape = fmt.Sprintf("HEADERS[%s]:zero-length-payload", c35fFlagNames(1, fl))
					if first != 0 {
						continue
					}
				}
				if fl&ffEH == 0 {
					st.Frames = append(st.Frames, c35fFrame{Type: 9, Flags: ffEH, PadLen: -1})
				}
				emit(st, all, 1, 4)
			}
		}
	}
	// ---- DATA ----
	for _, fl := range []uint8{0, ffES, ffPAD, ffPAD | ffES} {
		for _, T := range []int{0, 1, 2, 6, 20} {
			pls := []int{-1}
			if fl&ffPAD != 0 {
				pls = nil
				for _, l := range []int{0, 1, T - 2, T - 1, T, T + 1, 255} {
					if l >= 0 && l <= 255 && !inInts(pls, l) {
						pls = append(pls, l)
					}
				}
				if thorough {
					pls = c35fBoundary(T, 0, true)
				}
			}
			for _, pl := range pls {
				n++
				g := r.Rng("c35-flags-d", n)
				raw := make([]byte, T)
				cls := "unpadded"
				legal := true
				if fl&ffPAD != 0 {
					switch {
					case T == 0:
						cls, legal = "padded-zero-length-payload", false
					case pl <= T-1:
						cls = "pad-fits"
					case pl == T:
						cls, legal = "pad-equals-frame-length", false
					default:
						cls, legal = "pad-exceeds-frame", false
					}
					if T > 0 {
						raw[0] = byte(pl)
					}
				}
				f := c35fFrame{Type: 0, Flags: fl, PadLen: -1, HasRaw: true, Raw: hex.EncodeToString(raw)}
				if g.Chance(1, 3) {
					f.Flags |= 0xf6 &^ (ffES | ffPAD)
				}
				st := c35fStep{Frames: []c35fFrame{f}, Legal: legal, Shape: "DATA[" + c35fFlagNames(0, fl) + "]:" + cls}
				emit(st, []string{"open", "idle", "hcr", "closed", "zero"}, 1, 1)
			}
		}
	}
	// ---- PRIORITY frames ----
	for _, fl := range []uint8{0, ffES, ffPAD, ffPRIO, ffPAD | ffPRIO | ffEH | ffES, 0xff} {
		for _, pk := range c35fPrioKinds {
			n++
			g := r.Rng("c35-flags-p", n)
			f := c35fFrame{Type: 2, Flags: fl, PadLen: -1, Prio: pk, Weight: []uint8{0, 15, 255}[g.Intn(3)]}
			emit(c35fStep{Frames: []c35fFrame{f}, Shape: "PRIORITY-frame[" + c35fFlagNames(2, fl) + "]:" + pk}, all, 1, 2)
		}
		for _, T := range []int{0, 1, 4, 6} {
			f := c35fFrame{Type: 2, Flags: fl, PadLen: -1, HasRaw: true, Raw: hex.EncodeToString(make([]byte, T))}
			emit(c35fStep{Frames: []c35fFrame{f}, Shape: "PRIORITY-frame[" + c35fFlagNames(2, fl) + "]:wrong-length"}, all, 1, 2)
		}
	}
	// ---- CONTINUATION without a header block in progress ----
	for _, fl := range []uint8{0, ffEH, ffEH | ffPAD, ffEH | ffPRIO, 0xff} {
		for _, body := range []string{"", "one"} {
			f := c35fFrame{Type: 9, Flags: fl, PadLen: -1, Body: body}
			emit(c35fStep{Frames: []c35fFrame{f}, Shape: "CONTINUATION[" + c35fFlagNames(9, fl&^ffJunk) + "]:unexpected"}, []string{"idle", "open", "zero"}, 1, 1)
		}
	}
	// ---- PUSH_PROMISE from the client (padded like HEADERS) ----
	for _, fl := range []uint8{0, ffEH, ffPAD, ffPAD | ffEH} {
		for _, T := range []int{0, 1, 4, 5, 9} {
			pls := []int{-1}
			if fl&ffPAD != 0 {
				pls = []int{0, 1, 255}
				for _, l := range []int{T - 5, T - 2, T - 1, T, T + 1} {
					if l >= 0 && !inInts(pls, l) {
						pls = append(pls, l)
					}
				}
			}
			for _, pl := range pls {
				raw := make([]byte, T)
				if pl >= 0 && T > 0 {
					raw[0] = byte(pl)
				}
				if T >= 5 {
					raw[T-1] = 2 // promised stream id 2
				}
				f := c35fFrame{Type: 5, Flags: fl, PadLen: -1, HasRaw: true, Raw: hex.EncodeToString(raw)}
				emit(c35fStep{Frames: []c35fFrame{f}, Shape: "PUSH_PROMISE[" + c35fFlagNames(5, fl) + "]"}, []string{"idle", "zero", "open"}, 1, 2)
			}
		}
	}
	// ---- every other frame type: all flag patterns x lengths around the fixed sizes ----
	for _, t := range []uint8{3, 4, 6, 7, 8, 0x0a, 0xfe} {
		for _, fl := range []uint8{0, ffES, ffPAD, ffPRIO, ffPAD | ffPRIO | ffES, 0xff} {
			for _, T := range []int{0, 1, 4, 5, 6, 8, 9} {
				n++
				g := r.Rng("c35-flags-o", n)
				raw := g.Bytes(T)
				if g.Bool() {
					raw = make([]byte, T)
				}
				f := c35fFrame{Type: t, Flags: fl, PadLen: -1, HasRaw: true, Raw: hex.EncodeToString(raw)}
				ctx := []string{"zero", "open", "idle"}[g.Intn(3)]
				if !thorough && g.Bool() {
					continue
				}
				emit(c35fStep{Frames: []c35fFrame{f}, Shape: c35fTypeName(t) + ":flags-and-lengths"}, []string{ctx}, 1, 1)
			}
		}
	}
	return out
}

func inInts(xs []int, v int) bool {
	for _, x := range xs {
		if x == v {
			return true
		}
	}
	return false
}

// ---- execution ----

type c35fConn struct {
	tc      *testConn
	h       *c35Handler
	nextID  uint32
	k       int
	steps   int
	pingSeq uint64
	acked   bool
}

func c35fDial() (*c35fConn, bool) {
	h := &c35Handler{invoked: map[int]uint32{}, release: map[int]chan struct{}{}, modes: map[int]string{-1: "now"}, all: make(chan struct{})}
	fc := &c35fConn{tc: dialPipe(&bfe_http2.Server{}, h), h: h, nextID: 1}
	fc.tc.cli.AutoAckSettings = false // the reader goroutine must never block in a write (see await)
	// no round trip of its own: preface and SETTINGS travel ahead of the first step's frames
	if fc.tc.cli.Start() != nil {
		return fc, false
	}
	return fc, true
}

// retire closes the connection and checks what only shows once it is over.
func (fc *c35fConn) retire(r *vkit.Run, last *c35fStep, wire []string) {
	close(fc.h.all)
	fc.tc.cli.Close()
	if !fc.tc.waitDone(20 * time.Second) {
		r.Inconclusive("C35 flag space: serve goroutine still running 20s after the client closed")
	}
	if !fc.h.census.waitNone(20 * time.Second) {
		r.Violation("handler-goroutine-leak", "a handler goroutine was still running 20s after the connection ended", last)
	}
	if p := fc.tc.vc.Panicked(); p != "" {
		atomic.AddInt32(&panicSeen, 1)
		shape := ""
		if last != nil {
			shape = last.Shape
		}
		r.Violation("panic:"+c35PanicShape(fc.tc.vc.PanicStack(), p), "bfe_http2 serve goroutine panicked ("+p+") after "+shape,
			map[string]interface{}{"flag_step": last, "wire_hex": wire, "panic": p, "stack": trunc(fc.tc.vc.PanicStack(), 3000)})
	}
}

// await waits for the acknowledgement of the PING that closes a step, a GOAWAY, or the end of the
// connection, whichever the reader sees first (after a GOAWAY with an error code the server stops
// answering - after a framer-level error it even stops reading - and closes a little later; the
// GOAWAY already is the permitted ending).
func (fc *c35fConn) await(from int, d [8]byte) (outcome string, goAway *h2cli.Event) {
	pos := from
	acked := false
	err := fc.tc.cli.Wait(func(evs []h2cli.Event) bool {
		for ; pos < len(evs); pos++ {
			e := evs[pos]
			if e.Type == http2.FrameGoAway {
				cp := e
				goAway = &cp
				return true
			}
			if e.Type == http2.FramePing && e.Ack && e.PingData == d {
				acked = true
				return true
			}
		}
		return false
	})
	switch {
	case goAway != nil:
		return "goaway", goAway
	case acked:
		return "continues", nil
	case err == h2cli.ErrTimeout:
		return "timeout", nil
	}
	return "closed", nil
}

func (fc *c35fConn) waitInvoked(k int) bool {
	dl := time.Now().Add(20 * time.Second)
	for !fc.h.wasInvoked(k) {
		if e, _ := fc.tc.cli.Ended(); e || time.Now().After(dl) {
			return fc.h.wasInvoked(k)
		}
		time.Sleep(100 * time.Microsecond)
	}
	return true
}

// c35fRunStep runs one step on fc. It returns false when the connection is used up.
// A refusal of a LEGAL step is returned (rejected), not reported: the caller repeats the step on a fresh
// connection and reports only a refusal that repeats, so that a connection the server dropped for a
// reason of its own clock (2 s first-SETTINGS timer on a stalled machine) is never taken for a verdict.
type c35fRejected struct {
	sig, what string
	wit       interface{}
}

func c35fRunStep(r *vkit.Run, fc *c35fConn, st *c35fStep, ahead func(v interface{})) (alive bool, why string, rej *c35fRejected) {
	cli := fc.tc.cli
	id := fc.nextID
	fc.nextID += 2
	setupK := -1
	from := cli.NumEvents()
	var group []h2cli.RawFrame
	if !fc.acked {
		fc.acked = true // a real client acknowledges the server's SETTINGS; ours does it up front
		group = append(group, h2cli.RawFrame{Type: http2.FrameSettings, Flags: http2.FlagSettingsAck})
	}
	switch st.Ctx {
	case "zero":
		id = 0
	case "open", "hcr", "closed":
		// the set-up frames travel right ahead of the hostile frame (the server processes frames in
		// order; the stream is open as soon as its HEADERS was processed, whatever the handler does)
		fc.k++
		setupK = fc.k
		fc.h.mu.Lock()
		fc.h.modes[setupK] = "block"
		fc.h.mu.Unlock()
		fl, body := http2.Flags(ffEH), "post"
		if st.Ctx != "open" {
			fl, body = http2.Flags(ffEH|ffES), "full"
		}
		group = append(group, h2cli.RawFrame{Type: http2.FrameHeaders, Flags: fl, ID: id, Payload: (&c35fFrame{Body: body}).bodyBytes(setupK)})
		if st.Ctx == "closed" {
			group = append(group, h2cli.RawFrame{Type: http2.FrameRSTStream, ID: id, Payload: []byte{0, 0, 0, 8}})
		}
	}
	fc.k++
	k := fc.k
	fc.h.mu.Lock()
	fc.h.modes[k] = "now"
	fc.h.mu.Unlock()
	var wire []string
	for i := range st.Frames {
		p := st.Frames[i].payload(id, k)
		group = append(group, h2cli.RawFrame{Type: http2.FrameType(st.Frames[i].Type), Flags: http2.Flags(st.Frames[i].Flags), ID: id, Payload: p})
		wire = append(wire, fmt.Sprintf("type=%s flags=%#02x stream=%d length=%d payload=%s", c35fTypeName(st.Frames[i].Type), st.Frames[i].Flags, id, len(p), hex.EncodeToString(p)))
	}
	fc.pingSeq++
	var d [8]byte
	binary.BigEndian.PutUint64(d[:], 0xF1A6000000000000|fc.pingSeq)
	group = append(group, h2cli.RawFrame{Type: http2.FramePing, Payload: d[:]})
	ahead(map[string]interface{}{"flag_step": st, "wire": wire})
	// net.Pipe writes block until the peer reads, and after a framer-level connection error the server
	// stops reading: the frames are written beside the wait for the reaction, with a safety bound
	cli.NetConn().SetWriteDeadline(time.Now().Add(60 * time.Second))
	wrote := make(chan error, 1)
	go func() { wrote <- cli.WriteRawGroup(group) }()
	oc, ga := fc.await(from, d)
	if oc == "continues" {
		<-wrote // the acknowledged PING was the last frame of the group
	}
	r.Count("flag_outcome:"+oc, 1)
	wit := func() interface{} {
		var tail []string
		evs := cli.Events()
		for i := from; i < len(evs) && len(tail) < 8; i++ {
			tail = append(tail, evs[i].String())
		}
		return map[string]interface{}{"flag_step": st, "stream_id": id, "wire_hex": wire, "outcome": oc, "frames_from_server": tail}
	}
	var rst *h2cli.Event
	evs := cli.Events()
	for i := from; i < len(evs); i++ {
		if evs[i].Type == http2.FrameRSTStream && evs[i].StreamID == id && id != 0 {
			e := evs[i]
			rst = &e
		}
	}
	switch oc {
	case "timeout":
		return false, "no reaction within the safety bound", nil
	case "goaway":
		r.Count("flag_goaway:"+ga.ErrCode.String(), 1)
	case "continues":
		if rst != nil {
			r.Count("flag_rst:"+rst.ErrCode.String(), 1)
		}
	}
	if st.Legal {
		r.Count("flag_legal_steps", 1)
		switch {
		case oc != "continues":
			code := "close"
			if ga != nil {
				code = ga.ErrCode.String()
			}
			return false, "", &c35fRejected{"legal-frame-rejected:" + st.Shape + ":connection-" + code, fmt.Sprintf("%s is legal (valid padding / priority fields, undefined flags must be ignored) but the connection ended (%s)", st.Shape, code), wit()}
		case st.Frames[0].Type == 1:
			if rst != nil && rst.ErrCode != http2.ErrCodeNo {
				return false, "", &c35fRejected{"legal-frame-rejected:" + st.Shape + ":rst-" + rst.ErrCode.String(), fmt.Sprintf("%s carries a complete valid request with valid padding / priority fields but stream %d was reset with %v", st.Shape, id, rst.ErrCode), wit()}
			}
			if !fc.waitInvoked(k) {
				if e, _ := cli.Ended(); e {
					return false, "", &c35fRejected{"legal-frame-rejected:" + st.Shape + ":connection-close", st.Shape + " is a legal request but the connection ended", wit()}
				}
				return false, "legal request did not reach the handler within the safety bound", nil
			}
			r.Count("flag_legal_requests_served", 1)
		default:
			if rst != nil && rst.ErrCode != http2.ErrCodeNo {
				return false, "", &c35fRejected{"legal-frame-rejected:" + st.Shape + ":rst-" + rst.ErrCode.String(), fmt.Sprintf("%s on an open stream is legal but stream %d was reset with %v", st.Shape, id, rst.ErrCode), wit()}
			}
			r.Count("flag_legal_data_accepted", 1)
		}
	}
	if oc != "continues" {
		return false, "", nil
	}
	// let the blocked set-up handler go: client reset, then release
	if setupK >= 0 {
		if st.Ctx != "closed" {
			cli.WriteRST(id, http2.ErrCodeCancel)
		}
		close(fc.h.relCh(setupK))
	}
	switch st.Frames[0].Type {
	case 0, 1, 2, 9:
		return true, "", nil
	}
	// SETTINGS, GOAWAY, WINDOW_UPDATE ... may change what the connection accepts afterwards
	return false, "", nil
}

// c35fLanes connections run side by side: every hostile frame still costs one round trip through
// six goroutine hand-overs, which on a loaded machine is milliseconds. The write-ahead file holds the
// steps of ALL lanes that are on the wire (at most c35fLanes, the culprit of a fatal crash is one of
// them); replaying such a witness runs them one at a time and names the single step.
const c35fLanes = 8

type c35fAhead struct {
	mu   sync.Mutex
	seq  int
	cur  []interface{}
	m    []byte // $VERIF_SCRATCH/cur_case.C35.json, mapped shared
	high int    // longest content written so far
}

const c35fAheadSize = 16384

// write is vkit.WriteAhead (same file, same format) without a file-system operation per call: on a
// busy disk every open/truncate/close - and even a plain write(2), which has to update the inode
// through the journal - takes milliseconds and would serialise the lanes. The file is created once
// through vkit, extended to a fixed size and mapped shared; a step is written ahead by copying it
// into the mapping, padded with blanks (JSON ignores trailing white space). The page cache keeps
// the content when the process dies.
func (a *c35fAhead) write(r *vkit.Run, v interface{}) {
	b, _ := json.Marshal(map[string]interface{}{"property": r.Prop, "seed": r.Seed, "tier": r.Tier, "case": v})
	if a.m == nil || len(b) > len(a.m) {
		a.unmap()
		r.WriteAhead(v)
		d := os.Getenv("VERIF_SCRATCH")
		if d == "" || len(b) > c35fAheadSize {
			return
		}
		f, err := os.OpenFile(filepath.Join(d, "cur_case."+r.Prop+".json"), os.O_RDWR, 0)
		if err != nil {
			return
		}
		defer f.Close()
		if f.Truncate(c35fAheadSize) != nil {
			return
		}
		m, err := syscall.Mmap(int(f.Fd()), 0, c35fAheadSize, syscall.PROT_READ|syscall.PROT_WRITE, syscall.MAP_SHARED)
		if err != nil {
			r.WriteAhead(v) // back to the plain file
			return
		}
		a.m, a.high = m, len(m) // the first copy blanks the zero octets of the extension
	}
	if len(b) > a.high {
		a.high = len(b)
	}
	n := len(b)
	for len(b) < a.high {
		b = append(b, ' ')
	}
	copy(a.m, b)
	a.high = n
}

func (a *c35fAhead) unmap() {
	if a.m != nil {
		syscall.Munmap(a.m)
		a.m = nil
	}
}

func (a *c35fAhead) close() {
	a.mu.Lock()
	a.unmap()
	a.mu.Unlock()
}

func (a *c35fAhead) set(r *vkit.Run, lane int, v interface{}) {
	a.mu.Lock()
	defer a.mu.Unlock()
	a.seq++
	a.cur[lane] = map[string]interface{}{"written_seq": a.seq, "lane": lane, "step": v}
	var fl []interface{}
	for _, c := range a.cur {
		if c != nil {
			fl = append(fl, c)
		}
	}
	a.write(r, map[string]interface{}{"phase": "flag space: hostile frames on the wire (nothing else runs in the process)", "in_flight": fl})
}

func (a *c35fAhead) clear(lane int) {
	a.mu.Lock()
	a.cur[lane] = nil
	a.mu.Unlock()
}

// c35FlagSpace runs the whole step list on `lanes` connections at a time.
func c35FlagSpace(r *vkit.Run, steps []c35fStep, lanes int) {
	t0 := time.Now()
	// after a connection error the server stops reading and closes 250 ms later: the end-of-connection
	// checks (serve goroutine gone, no recovered panic, no handler left) run beside the next steps
	var reap sync.WaitGroup
	ahead := &c35fAhead{cur: make([]interface{}, lanes)}
	var next int64 = -1
	var wg sync.WaitGroup
	for lane := 0; lane < lanes; lane++ {
		wg.Add(1)
		go func(lane int) {
			defer wg.Done()
			var fc *c35fConn
			var last *c35fStep
			retire := func() {
				if fc != nil {
					reap.Add(1)
					go func(fc *c35fConn, last *c35fStep) {
						defer reap.Done()
						fc.retire(r, last, nil)
					}(fc, last)
					fc = nil
				}
			}
			defer retire()
			for {
				i := int(atomic.AddInt64(&next, 1))
				if i >= len(steps) {
					return
				}
				st := &steps[i]
				if fc != nil && (st.Legal || fc.steps >= 48) {
					retire() // a legal step is judged on a connection that has seen nothing else
				}
				if fc == nil {
					var ok bool
					if fc, ok = c35fDial(); !ok {
						r.Count("flag_steps_incomplete", 1)
						retire()
						continue
					}
				}
				fc.steps++
				last = st
				alive, why, rej := c35fRunStep(r, fc, st, func(v interface{}) { ahead.set(r, lane, v) })
				ahead.clear(lane)
				for attempt := 2; rej != nil; attempt++ {
					if attempt > 3 {
						r.Violation(rej.sig, rej.what+" (3 times on 3 fresh connections)", rej.wit)
						break
					}
					r.Count("flag_legal_step_repeated", 1)
					retire()
					var ok bool
					if fc, ok = c35fDial(); !ok {
						retire()
						why = "legal step refused once, repetition could not be set up"
						break
					}
					alive, why, rej = c35fRunStep(r, fc, st, func(v interface{}) { ahead.set(r, lane, v) })
					ahead.clear(lane)
				}
				r.CaseS(fmt.Sprintf("flags|%s|%+v", st.Ctx, st.Frames), true)
				r.Count("flag_steps", 1)
				r.Count("flagshape:"+st.Shape, 1)
				r.Count("flag_ctx:"+st.Ctx, 1)
				for _, f := range st.Frames {
					if f.Prio != "" {
						r.Count("flag_prio:"+f.Prio, 1)
					}
				}
				if why != "" {
					r.Count("flag_steps_incomplete", 1)
					r.Count("flag_incomplete:"+why, 1)
				}
				if r.WantSample() && i%397 == 5 {
					r.Sample(map[string]interface{}{"flag_step": st})
				}
				if !alive {
					retire()
				}
			}
		}(lane)
	}
	wg.Wait()
	reap.Wait()
	ahead.close()
	r.WriteAhead(map[string]interface{}{"phase": "flag-space driver finished; parallel drivers running (no single current case)"})
	r.Extra("flag_space_wall_s", time.Since(t0).Seconds()) // evidence only, never judged
}

// c35fCoverage makes the run inconclusive if a shape the driver exists for never occurred.
func c35fCoverage(r *vkit.Run, steps []c35fStep) {
	need := []string{
		"flagshape:HEADERS[EH+PADDED+PRIORITY]:pad-fits",
		"flagshape:HEADERS[EH+PADDED+PRIORITY]:pad-overlaps-priority-fields",
		"flagshape:HEADERS[EH+PADDED+PRIORITY]:pad-exceeds-frame",
		"flagshape:HEADERS[ES+EH+PADDED+PRIORITY]:pad-overlaps-priority-fields",
		"flagshape:HEADERS[EH+PADDED]:pad-exceeds-frame",
		"flagshape:HEADERS[PADDED+PRIORITY]:zero-length-payload",
		"flagshape:HEADERS[EH+PRIORITY]:payload-cut-short",
		"flagshape:DATA[PADDED]:pad-equals-frame-length",
		"flagshape:DATA[PADDED]:pad-exceeds-frame",
		"flagshape:DATA[ES+PADDED]:padded-zero-length-payload",
		"flagshape:DATA[PADDED]:pad-fits",
		"flagshape:PRIORITY-frame[none]:self",
		"flagshape:PRIORITY-frame[none]:wrong-length",
		"flagshape:CONTINUATION[EH+PADDED]:unexpected",
		"flag_prio:self", "flag_prio:self-excl", "flag_prio:ghost-excl", "flag_prio:other",
		"flag_ctx:idle", "flag_ctx:open", "flag_ctx:hcr", "flag_ctx:closed", "flag_ctx:zero",
		"flag_outcome:continues", "flag_outcome:goaway",
		"flag_legal_requests_served", "flag_legal_data_accepted",
	}
	for _, c := range need {
		if r.Counter(c) == 0 {
			r.Inconclusive("C35 flag space: required shape never occurred: " + c)
		}
	}
	contWithFlags := int64(0)
	for _, st := range steps {
		if len(st.Frames) == 2 && st.Frames[1].Flags&^ffEH != 0 {
			contWithFlags++
		}
	}
	r.Count("flag_continuation_with_foreign_flags", contWithFlags)
	if contWithFlags == 0 {
		r.Inconclusive("C35 flag space: no CONTINUATION with flags of other frame types was sent")
	}
	if int(r.Counter("flag_steps_incomplete")) > len(steps)/10 {
		r.Inconclusive(fmt.Sprintf("C35 flag space: %d of %d steps incomplete", r.Counter("flag_steps_incomplete"), len(steps)))
	}
}

// c35fReplay re-runs one step (from a violation witness or from the write-ahead of a crash).
func c35fReplay(r *vkit.Run, sts []*c35fStep) {
	for _, st := range sts {
		c35FlagSpace(r, []c35fStep{*st}, 1)
	}
}
