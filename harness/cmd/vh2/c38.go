package main

import (
	"bytes"
	"fmt"
	"sort"
	"strings"
	"sync"
	"time"

	bfe_http "github.com/bfenetworks/bfe/bfe_http"
	"golang.org/x/net/http2"

	"verifharness/h2cli"
	"verifharness/vkit"
)

// C38: a response delivered over HTTP/2 has the handler's status, its header
// fields lower-cased with connection-specific fields removed, a body equal to
// the bytes written (none for HEAD and body-less statuses), declared trailers
// after the body, and END_STREAM exactly once at the end.
//
// The expected response is computed from the handler script by a small model
// written from the statement; the observed one is decoded on the client side
// with x/net's hpack.

type c38Script struct {
	Method   string `json:"method"`
	Status   int    `json:"status"` // 0: never call WriteHeader (implicit 200)
	Headers  string `json:"headers"`
	Writes   string `json:"writes"`
	Trailers string `json:"trailers"`
}

var (
	c38Methods    = []string{"GET", "HEAD", "POST"}
	c38Statuses   = []int{0, 200, 201, 404, 500, 204, 304, 199}
	c38HeaderSets = []string{"none", "mixed-case", "multi-value", "connection", "keep-alive", "transfer-encoding", "proxy-connection+upgrade",
		"content-type", "content-length-right", "content-length-small", "content-length-big", "date", "connection-nominates"}
	c38WritePats    = []string{"none", "empty", "small", "over-buffer", "two-flush-between", "flush-first", "large", "many-small"}
	c38TrailerModes = []string{"none", "predeclared", "prefix", "declared-unset", "both"}
)

func c38Body(pat string) [][]byte {
	mk := func(n int, tag byte) []byte {
		b := make([]byte, n)
		for i := range b {
			b[i] = 'a' + byte((i+int(tag))%26)
		}
		if n > 0 {
			b[0] = tag
		}
		return b
	}
	switch pat {
	case "empty":
		return [][]byte{{}}
	case "small":
		return [][]byte{mk(10, '1')}
	case "over-buffer":
		return [][]byte{mk(5000, '2')}
	case "two-flush-between":
		return [][]byte{mk(100, '3'), nil, mk(7, '4')} // nil = Flush
	case "flush-first":
		return [][]byte{nil, mk(20, '5')}
	case "large":
		return [][]byte{mk(70000, '6')}
	case "many-small":
		var w [][]byte
		for i := 0; i < 12; i++ {
			w = append(w, mk(3, byte('A'+i)))
			if i%4 == 3 {
				w = append(w, nil)
			}
		}
		return w
	}
	return nil
}

// c38BigVal is a deterministic printable value that Huffman coding cannot
// shrink much (mixed punctuation/upper case), n octets long.
func c38BigVal(tag, n int) string {
	const alpha = "{}|~^`\\<>@#$%&*?!;QZXJKVWY_+=[]"
	b := make([]byte, n)
	x := uint32(tag*2654435761 + 12345)
	for i := range b {
		x = x*1664525 + 1013904223
		b[i] = alpha[(x>>16)%uint32(len(alpha))]
	}
	return string(b)
}

// c38BigFields: k header fields of 8000 octets each (k=4: block > 16 KB, needs CONTINUATION; k=12: > 64 KB).
func c38BigFields(k int) map[string]string {
	m := map[string]string{}
	for i := 0; i < k; i++ {
		m[fmt.Sprintf("X-Big-%02d", i)] = c38BigVal(i, 8000)
	}
	return m
}

func c38TotalLen(pat string) int {
	n := 0
	for _, w := range c38Body(pat) {
		n += len(w)
	}
	return n
}

// c38SetHeaders applies the header-set to the handler's header map and
// returns what the model expects (lower-cased name -> values) plus the
// connection-specific names the handler set.
func c38SetHeaders(set string, writes string, h bfe_http.Header) (exp map[string][]string, connSpecific []string, nominated []string) {
	exp = map[string][]string{}
	put := func(k string, vs ...string) {
		for _, v := range vs {
			if h != nil {
				h.Add(k, v)
			}
		}
	}
	switch set {
	case "mixed-case":
		put("X-Mixed-CASE", "Value-Keeps-Case")
		exp["x-mixed-case"] = []string{"Value-Keeps-Case"}
	case "multi-value":
		put("X-Multi", "a", "b", "a")
		exp["x-multi"] = []string{"a", "b", "a"}
	case "connection":
		put("Connection", "close")
		put("X-Plain", "1")
		exp["x-plain"] = []string{"1"}
		connSpecific = []string{"connection"}
	case "keep-alive":
		put("Keep-Alive", "timeout=5")
		put("Connection", "keep-alive")
		connSpecific = []string{"keep-alive", "connection"}
	case "transfer-encoding":
		put("Transfer-Encoding", "chunked")
		connSpecific = []string{"transfer-encoding"}
	case "proxy-connection+upgrade":
		put("Proxy-Connection", "keep-alive")
		put("Upgrade", "websocket")
		put("X-After", "z")
		exp["x-after"] = []string{"z"}
		connSpecific = []string{"proxy-connection", "upgrade"}
	case "content-type":
		put("Content-Type", "text/x-verif; charset=iso-8859-1")
		exp["content-type"] = []string{"text/x-verif; charset=iso-8859-1"}
	case "content-length-right":
		v := fmt.Sprint(c38TotalLen(writes))
		put("Content-Length", v)
		exp["content-length"] = []string{v}
	case "content-length-small":
		put("Content-Length", "5")
		exp["content-length"] = []string{"5"}
	case "content-length-big":
		put("Content-Length", "99999")
		exp["content-length"] = []string{"99999"}
	case "date":
		put("Date", "Thu, 01 Jan 1970 00:00:00 GMT")
		exp["date"] = []string{"Thu, 01 Jan 1970 00:00:00 GMT"}
	case "big-16k", "big-64k":
		k := 4
		if set == "big-64k" {
			k = 12
		}
		for name, v := range c38BigFields(k) {
			put(name, v)
			exp[strings.ToLower(name)] = []string{v}
		}
	case "connection-nominates":
		put("Connection", "X-Hop")
		put("X-Hop", "1")
		put("X-Keep", "2")
		exp["x-keep"] = []string{"2"}
		connSpecific = []string{"connection"}
		nominated = []string{"x-hop"}
	}
	return
}

type c38Observed struct {
	wrote     []byte // concatenation of what Write accepted (n returned)
	writeErrs []string
}

type c38Handler struct {
	scripts sync.Map // key -> *c38Script
	obs     sync.Map // key -> *c38Observed
	census  handlerCensus
}

func (h *c38Handler) ServeHTTP(w bfe_http.ResponseWriter, req *bfe_http.Request) {
	key := req.Header.Get("X-Ctl")
	h.census.enter(key)
	defer h.census.leave(key)
	v, ok := h.scripts.Load(key)
	if !ok {
		w.WriteHeader(599)
		return
	}
	sc := v.(*c38Script)
	ob := &c38Observed{}
	defer h.obs.Store(key, ob)
	c38SetHeaders(sc.Headers, sc.Writes, w.Header())
	switch sc.Trailers {
	case "predeclared", "declared-unset", "predeclared-big":
		w.Header().Set("Trailer", "X-T1")
	case "both":
		w.Header().Set("Trailer", "X-T1")
	}
	if sc.Status != 0 {
		w.WriteHeader(sc.Status)
	}
	for _, b := range c38Body(sc.Writes) {
		if b == nil {
			w.(bfe_http.Flusher).Flush()
			continue
		}
		n, err := w.Write(b)
		ob.wrote = append(ob.wrote, b[:n]...)
		if err != nil {
			ob.writeErrs = append(ob.writeErrs, err.Error())
		}
	}
	switch sc.Trailers {
	case "predeclared-big":
		w.Header().Set("X-T1", c38BigVal(77, 40000))
	case "prefix-big":
		w.Header().Set("Trailer:X-T2", c38BigVal(78, 40000))
	case "predeclared":
		w.Header().Set("X-T1", "tv1")
	case "prefix":
		w.Header().Set("Trailer:X-T2", "tv2")
	case "both":
		w.Header().Set("X-T1", "tv1")
		w.Header().Set("Trailer:X-T2", "tv2")
	}
}

func c38Bodyless(sc *c38Script) bool {
	st := sc.Status
	return sc.Method == "HEAD" || st == 204 || st == 304 || (st >= 100 && st <= 199)
}

// c38Check compares the decoded frames of one stream with the model.
func c38Check(r *vkit.Run, sc *c38Script, ob *c38Observed, evs []h2cli.Event, id uint32) {
	report := func(sig, what string) {
		var frames []string
		for _, e := range evs {
			s := e.String()
			if len(s) > 300 {
				s = s[:300]
			}
			frames = append(frames, s)
		}
		r.Violation(sig, what, map[string]interface{}{"script": sc, "frames_received": frames, "handler_write_errors": ob.writeErrs})
	}
	shape := fmt.Sprintf("%s/%d/%s/%s/%s", sc.Method, sc.Status, sc.Headers, sc.Writes, sc.Trailers)
	if len(evs) == 0 {
		report("no-response", "no frame at all for "+shape)
		return
	}
	for _, e := range evs {
		if e.Type == http2.FrameHeaders && e.Frames > 1 {
			r.Count("header_blocks_with_continuation", 1)
			if e.EndStream {
				r.Count("stream_ending_header_blocks_with_continuation", 1)
			}
			if e.Frames > 4 {
				r.Count("header_blocks_over_64k", 1)
			}
		}
	}
	// ---- END_STREAM exactly once and last ----
	ends := 0
	for i, e := range evs {
		if e.EndStream {
			ends++
			if i != len(evs)-1 {
				report("end-stream:not-last", fmt.Sprintf("%s: END_STREAM on frame %d of %d", shape, i+1, len(evs)))
				return
			}
		}
		if e.Type == http2.FrameRSTStream {
			report("reset-instead-of-response:"+e.ErrCode.String(), shape+": server reset the stream")
			return
		}
	}
	if ends == 0 {
		why := "other"
		if sc.Trailers == "declared-unset" {
			why = "declared-trailer-never-set"
		}
		for _, e := range evs {
			if e.Type == http2.FrameHeaders && e.Frames > 1 {
				why = "header-block-in-continuation-frames"
			}
		}
		report("end-stream:never-sent:"+why, fmt.Sprintf("%s: the handler returned and the server went quiescent (empty scheduler, PING round trips) without ever sending END_STREAM", shape))
		return
	}
	if ends != 1 {
		report(fmt.Sprintf("end-stream:count-%d", ends), fmt.Sprintf("%s: END_STREAM seen %d times", shape, ends))
		return
	}
	first := evs[0]
	if first.Type != http2.FrameHeaders || first.HdrErr != "" {
		report("first-frame-not-headers", shape+": first frame is "+first.String()+" "+first.HdrErr)
		return
	}
	// ---- status ----
	wantStatus := sc.Status
	if wantStatus == 0 {
		wantStatus = 200
	}
	got := map[string][]string{}
	for _, f := range first.Fields {
		got[f.Name] = append(got[f.Name], f.Value)
		if f.Name != strings.ToLower(f.Name) {
			report("header-not-lowercased", fmt.Sprintf("%s: field name %q", shape, f.Name))
			return
		}
	}
	if len(got[":status"]) != 1 || got[":status"][0] != fmt.Sprint(wantStatus) {
		report("status", fmt.Sprintf("%s: :status %v, handler set %d", shape, got[":status"], wantStatus))
		return
	}
	// ---- header fields ----
	exp, connSpecific, nominated := c38SetHeaders(sc.Headers, sc.Writes, nil)
	switch sc.Trailers {
	case "predeclared", "declared-unset", "both", "predeclared-big":
		exp["trailer"] = []string{"X-T1"}
	}
	for _, n := range connSpecific {
		if _, ok := got[n]; ok {
			report("connection-specific-sent:"+n, fmt.Sprintf("%s: response carries %q: %v", shape, n, got[n]))
			return
		}
	}
	for _, n := range nominated {
		if _, ok := got[n]; ok {
			// fields nominated by the handler's Connection header: RFC 7540 8.1.2.2 puts the duty on
			// intermediaries translating HTTP/1.x; the statement does not single them out => observed, not judged
			r.Count("observed_connection_nominated_field_forwarded", 1)
		} else {
			r.Count("observed_connection_nominated_field_removed", 1)
		}
		delete(got, n)
	}
	for n, vs := range exp {
		if fmt.Sprint(got[n]) != fmt.Sprint(vs) {
			cls := n
			if strings.HasPrefix(n, "x-") {
				cls = "custom"
			}
			report("header-mismatch:"+cls, fmt.Sprintf("%s: field %q is %s, handler set %s", shape, n, trunc(fmt.Sprint(got[n]), 200), trunc(fmt.Sprint(vs), 200)))
			return
		}
	}
	for n := range got {
		if n == ":status" {
			continue
		}
		if _, ok := exp[n]; ok {
			continue
		}
		switch n {
		case "content-type", "content-length", "date":
			// generated by the server when the handler left them out
		default:
			report("header-extra:"+n, fmt.Sprintf("%s: field %q=%v was not set by the handler", shape, n, got[n]))
			return
		}
	}
	// ---- body ----
	var body []byte
	var trailer *h2cli.Event
	for i := 1; i < len(evs); i++ {
		e := evs[i]
		switch e.Type {
		case http2.FrameData:
			if trailer != nil {
				report("data-after-trailers", shape+": DATA after the trailing HEADERS")
				return
			}
			body = append(body, e.Data...)
		case http2.FrameHeaders:
			if trailer != nil {
				report("second-trailer-block", shape)
				return
			}
			ev := e
			trailer = &ev
		}
	}
	wantBody := ob.wrote
	if c38Bodyless(sc) {
		if len(body) != 0 {
			report("body-on-bodyless:"+sc.Method+fmt.Sprintf("/%d", sc.Status), fmt.Sprintf("%s: %d body octets on a response that must not have a body", shape, len(body)))
			return
		}
	} else if !bytes.Equal(body, wantBody) {
		report("body-mismatch:"+sc.Writes+"/"+sc.Headers, fmt.Sprintf("%s: body has %d octets, handler's accepted writes %d octets", shape, len(body), len(wantBody)))
		return
	}
	// ---- trailers ----
	wantTr := map[string][]string{}
	if sc.Method != "HEAD" {
		switch sc.Trailers {
		case "predeclared-big":
			wantTr["x-t1"] = []string{c38BigVal(77, 40000)}
		case "prefix-big":
			wantTr["x-t2"] = []string{c38BigVal(78, 40000)}
		case "predeclared":
			wantTr["x-t1"] = []string{"tv1"}
		case "prefix":
			wantTr["x-t2"] = []string{"tv2"}
		case "both":
			wantTr["x-t1"] = []string{"tv1"}
			wantTr["x-t2"] = []string{"tv2"}
		}
	}
	gotTr := map[string][]string{}
	if trailer != nil {
		if !trailer.EndStream {
			report("trailers-without-end-stream", shape)
			return
		}
		for _, f := range trailer.Fields {
			gotTr[f.Name] = append(gotTr[f.Name], f.Value)
		}
	}
	if sc.Trailers == "declared-unset" && trailer != nil && len(gotTr) == 0 {
		// an empty trailing block for a declared but never set trailer: nothing to compare
	} else if fmt.Sprint(sortedMap(gotTr)) != fmt.Sprint(sortedMap(wantTr)) {
		kind := "trailers-mismatch"
		if len(gotTr) == 0 {
			kind = "trailers-missing"
		} else if len(wantTr) == 0 {
			kind = "trailers-unexpected"
		}
		bodyKind := "with-body"
		if len(wantBody) == 0 {
			bodyKind = "empty-body"
		}
		report(kind+":"+sc.Trailers+"/"+bodyKind, fmt.Sprintf("%s: trailers received %s, handler declared and set %s", shape, trunc(fmt.Sprint(gotTr), 200), trunc(fmt.Sprint(wantTr), 200)))
		return
	}
}

func sortedMap(m map[string][]string) []string {
	var out []string
	for k, v := range m {
		out = append(out, fmt.Sprintf("%s=%v", k, v))
	}
	sort.Strings(out)
	return out
}

func c38All() []c38Script {
	var all []c38Script
	for _, m := range c38Methods {
		for _, st := range c38Statuses {
			for _, hs := range c38HeaderSets {
				for _, wp := range c38WritePats {
					for _, tm := range c38TrailerModes {
						bodyless := m == "HEAD" || st == 204 || st == 304 || st == 199
						if bodyless && tm != "none" {
							continue // trailers on responses without a body: the statement says nothing; excluded
						}
						if st == 0 && wp == "none" && (tm == "predeclared" || tm == "prefix" || tm == "both") {
							// nothing fixes the header set before the trailer values are stored, so they are
							// legitimately part of the header block as well: ambiguous, excluded
							continue
						}
						all = append(all, c38Script{Method: m, Status: st, Headers: hs, Writes: wp, Trailers: tm})
					}
				}
			}
		}
	}
	// header block size axis: blocks that need CONTINUATION frames (> 16 KB) and > 64 KB, for the
	// response header block (also when it ends the stream: HEAD, 204, 304, 1xx, no writes) ...
	for _, m := range c38Methods {
		for _, st := range c38Statuses {
			for _, hs := range []string{"big-16k", "big-64k"} {
				for _, wp := range []string{"none", "small", "over-buffer"} {
					for _, tm := range []string{"none", "predeclared"} {
						bodyless := m == "HEAD" || st == 204 || st == 304 || st == 199
						if tm != "none" && (bodyless || (st == 0 && wp == "none")) {
							continue
						}
						all = append(all, c38Script{Method: m, Status: st, Headers: hs, Writes: wp, Trailers: tm})
					}
				}
			}
		}
	}
	// ... and for the trailer block (always stream-ending)
	for _, m := range []string{"GET", "POST"} {
		for _, st := range []int{0, 200, 404} {
			for _, hs := range []string{"none", "mixed-case", "big-16k"} {
				for _, wp := range c38WritePats {
					for _, tm := range []string{"predeclared-big", "prefix-big"} {
						if st == 0 && wp == "none" {
							continue
						}
						all = append(all, c38Script{Method: m, Status: st, Headers: hs, Writes: wp, Trailers: tm})
					}
				}
			}
		}
	}
	return all
}

// c38RunBatch runs the scripts sequentially as streams of one connection.
func c38RunBatch(r *vkit.Run, batch []c38Script) {
	h := &c38Handler{}
	tc := dialPipe(nil, h)
	defer func() {
		tc.cli.Close()
		tc.waitDone(20 * time.Second)
		if !h.census.waitNone(20 * time.Second) {
			r.Violation("handler-goroutine-leak", "handler still running after the connection ended", batch)
		}
		if p := tc.vc.Panicked(); p != "" {
			r.Violation("panic:response:"+trunc(p, 40), "serve goroutine panicked: "+p, batch)
		}
	}()
	// windows large enough for every body so that flow control never interferes
	if err := tc.cli.Start(http2.Setting{ID: http2.SettingInitialWindowSize, Val: 1 << 20}); err != nil {
		r.Count("batches_failed_start", 1)
		return
	}
	if tc.cli.WriteWindowUpdate(0, 1<<30) != nil {
		return
	}
	for i := range batch {
		sc := &batch[i]
		id := uint32(2*i + 1)
		key := fmt.Sprintf("k%d", i)
		h.scripts.Store(key, sc)
		if err := tc.cli.WriteHeaders(id, h2cli.Req(sc.Method, "/r", hf("x-ctl", key)), h2cli.HeadersOpt{EndStream: true}); err != nil {
			r.Count("streams_not_sent", int64(len(batch)-i))
			return
		}
		streamOver := func(evs []h2cli.Event) bool {
			for _, e := range evs {
				if e.StreamID == id && (e.EndStream || e.Type == http2.FrameRSTStream) {
					return true
				}
			}
			return false
		}
		// wait for the handler to return (it always does: it never blocks on anything but the server)
		var v interface{}
		ok := false
		dl := time.Now().Add(60 * time.Second)
		for !ok && time.Now().Before(dl) {
			if v, ok = h.obs.Load(key); !ok {
				if e, _ := tc.cli.Ended(); e {
					break
				}
				time.Sleep(200 * time.Microsecond)
			}
		}
		if !ok {
			r.Count("handler_result_missing", 1)
			return
		}
		// ServeHTTP returned, but bfe's own end-of-handler flush runs after it: wait until the server
		// has closed the stream (it does so when it has written, or believes to have written, the
		// frame that ends the stream); after that and a quiescent serve loop nothing more can come
		for time.Now().Before(dl) {
			snap, up := tc.vc.OnServe()
			if !up {
				break
			}
			open := false
			for _, ss := range snap.Streams {
				if ss.ID == id {
					open = true
				}
			}
			if !open {
				break
			}
			time.Sleep(200 * time.Microsecond)
		}
		alive := tc.quiesce()
		evsNow := tc.cli.Events()
		var mine []h2cli.Event
		for _, e := range evsNow {
			if e.StreamID == id && (e.Type == http2.FrameHeaders || e.Type == http2.FrameData || e.Type == http2.FrameRSTStream) {
				mine = append(mine, e)
			}
		}
		if !alive && !streamOver(evsNow) {
			r.Count("connection_lost_mid_batch", 1)
			return
		}
		c38Check(r, sc, v.(*c38Observed), mine, id)
		nontriv := sc.Headers != "none" || sc.Trailers != "none" || sc.Writes != "none"
		r.CaseS(fmt.Sprintf("%+v", *sc), nontriv)
		if !alive {
			return
		}
	}
}

func c38(r *vkit.Run) {
	r.SetRule("finite axes enumerated completely: method {GET,HEAD,POST} x status {implicit,200,201,404,500,204,304,199} x header set {none, mixed case, multi-value, Connection, Keep-Alive, Transfer-Encoding, Proxy-Connection+Upgrade, Content-Type, Content-Length right/too small/too big, Date, Connection nominating a field} x write pattern {none, empty write, 10 B, 5000 B (> 4 KB buffer), two writes with Flush between, Flush first, 70000 B, 12x3 B with flushes} x trailers {none, predeclared via Trailer, 'Trailer:' prefix, declared but never set, both}; plus a header-block-size axis: response header sets of 4 resp. 12 fields of 8000 hardly compressible octets (HPACK block > 16 KB resp. > 64 KB => HEADERS + CONTINUATION frames) x every method x status x {no write, 10 B, 5000 B} x {no trailers, predeclared}, and 40000-octet trailer values (predeclared and 'Trailer:'-prefixed) x {GET,POST} x {implicit,200,404} x {none, mixed case, >16 KB header set} x every write pattern; trailers on body-less responses are excluded (statement silent). Each script is one stream; 24 streams per connection; client windows 2^20/2^30 so flow control never interferes. Model: status as set (200 if never set); every handler field lower-cased with values in order, Connection/Keep-Alive/Proxy-Connection/Transfer-Encoding/Upgrade absent, only content-type/content-length/date may be added; body = concatenation of the octets Write accepted (none for HEAD,1xx,204,304); trailer block = exactly the declared trailers that were set; END_STREAM once and last. bfe's extra HopHeaders (Proxy-Authenticate/Proxy-Authorization) and fields nominated by Connection are observed, not judged. Thorough repeats the enumeration with 3 more stream orders/batchings. Non-trivial = script sets a header, writes or trailers; distinct = script")
	r.Assume("x/net hpack decoder as independent codec")
	if r.Replay != "" {
		var w struct {
			Script c38Script `json:"script"`
		}
		if err := r.LoadReplay(&w); err != nil {
			r.Inconclusive(err.Error())
			return
		}
		c38RunBatch(r, []c38Script{w.Script})
		r.SetMinDistinct(0)
		return
	}
	all := c38All()
	r.Count("scripts_enumerated", int64(len(all)))
	rounds := r.N(1, 4)
	for round := 0; round < rounds; round++ {
		order := make([]int, len(all))
		for i := range order {
			order[i] = i
		}
		if round > 0 {
			order = r.Rng("c38-order", round).Perm(len(all))
		}
		per := 24
		nb := (len(all) + per - 1) / per
		vkit.Parallel(nb, 32, func(b int) {
			var batch []c38Script
			for k := b * per; k < (b+1)*per && k < len(all); k++ {
				batch = append(batch, all[order[k]])
			}
			c38RunBatch(r, batch)
		})
	}
	r.SetExhaustive(true)
	if r.Violations() == 0 && (r.Counter("stream_ending_header_blocks_with_continuation") == 0 || r.Counter("header_blocks_over_64k") == 0) {
		r.Inconclusive("C38: no stream-ending header block was split into CONTINUATION frames (block-size axis not reached)")
	}
}
