package main

import (
	"fmt"
	"os"
	"time"

	"golang.org/x/net/http2"

	"verifharness/h2cli"
)

// c35Probe (developer aid, VH2_DEBUG=probe35): what does the server do with a
// stream id after it refused the HEADERS that opened it?
func c35Probe() {
	kinds := append([]string{"head-open-body", "bad-method", "bad-path"}, c35BadHK...)
	for _, hk := range kinds {
		for _, follow := range []string{"same-id", "rst", "wupdate", "priority"} {
			h := &c35Handler{invoked: map[int]uint32{}, release: map[int]chan struct{}{}, modes: map[int]string{0: "now", 1: "now", 2: "now"}, all: make(chan struct{})}
			tc := dialPipe(nil, h)
			tc.cli.Timeout = 3 * time.Second
			tc.cli.Start()
			tc.cli.Sync()
			n0 := tc.cli.NumEvents()
			tc.cli.WriteHeaders(1, c35Fields(hk, 0), h2cli.HeadersOpt{EndStream: hk != "head-open-body"})
			tc.cli.Sync()
			time.Sleep(20 * time.Millisecond)
			tc.cli.Sync()
			first := fmt.Sprint(tc.cli.Events()[n0:])
			n1 := tc.cli.NumEvents()
			switch follow {
			case "same-id":
				tc.cli.WriteHeaders(1, c35Fields("get", 1), h2cli.HeadersOpt{EndStream: true})
			case "rst":
				tc.cli.WriteRST(1, http2.ErrCodeCancel)
			case "wupdate":
				tc.cli.WriteWindowUpdate(1, 1)
			case "priority":
				tc.cli.WritePriority(1, http2.PriorityParam{StreamDep: 0, Weight: 3})
			}
			tc.cli.Sync()
			tc.cli.WriteHeaders(3, c35Fields("get", 2), h2cli.HeadersOpt{EndStream: true})
			tc.cli.Sync()
			time.Sleep(20 * time.Millisecond)
			tc.cli.Sync()
			evs := tc.cli.Events()
			second := ""
			if len(evs) >= n1 {
				second = fmt.Sprint(evs[n1:])
			}
			fmt.Fprintf(os.Stderr, "PROBE %-22s %-8s first=%s\n    then=%s\n", hk, follow, trunc(first, 160), trunc(second, 420))
			close(h.all)
			tc.cli.Close()
			tc.waitDone(5 * time.Second)
		}
	}
}
