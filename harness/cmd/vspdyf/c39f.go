package main

import (
	"bytes"
	"fmt"
	"io"
	"reflect"
	"sort"
	"strings"
	"sync"
	"unsafe"

	"github.com/bfenetworks/bfe/bfe_spdy"

	"verifharness/vkit"
)

// C39, follow-up part: "without losing frame boundaries" and "through the
// shared compression context" are statements about what comes AFTER a frame.
// Phases 1-4 (c39.go) only look behind frames that were returned successfully
// and never put a frame behind one the reader rejects. Here one Framer reads
//
//	[valid frames] ERRONEOUS-BUT-WELL-FRAMED frame [valid frames] ...
//
// and, unless the erroneous frame ended the connection, every following frame
// must be read back exactly as sent.
//
// Which errors end the connection is taken from bfe's own marking
// (frame_types.go: "Error ... StreamId is 0 if Error is not associated with a
// stream") and from SPDY/3: a stream error (2.4.2) leaves the session usable
// and "the endpoint must still process the compressed header block to keep the
// compression state in sync" (2.6.1/2.6.10: duplicate or upper-case header
// names are stream errors); a session error (2.4.1) ends it.
//
//	recoverable  ReadFrame returns *bfe_spdy.Error with StreamId != 0
//	accepted     ReadFrame returns the frame (bfe does not check that rule)
//	fatal        any other error (*Error with StreamId 0, io errors, fmt errors):
//	             nothing is demanded behind it, the sequence ends there
//
// Two ways of producing the byte stream:
//
//	writer   everything is written by bfe's own Framer (real deflate with the
//	         SPDY dictionary, back references across frames); erroneous frames
//	         are those the writer can emit: two keys that lower-case to one name,
//	         hop-by-hop names, :path above 8 KiB, empty name, empty value.
//	crafted  every frame is serialised here from the SPDY/3 layout; header
//	         blocks travel in stored deflate blocks (no dictionary needed), so
//	         the decompressed content is chosen byte by byte: all shapes.
//
// Both in the production mode (shared zlib context) and with header compression
// switched off (Framer.headerCompressionDisabled, an unexported test/debug
// switch; set through reflect+unsafe because /repo may not be edited).

type c39FUItem struct {
	Role    string `json:"role"`            // valid | erroneous
	Shape   string `json:"shape,omitempty"` // erroneous: which rule is broken
	Frame   fdesc  `json:"frame"`           // valid: what must be read back; erroneous: the frame the deviation was applied to
	Version uint16 `json:"version,omitempty"`
	CtlType uint16 `json:"ctl_type,omitempty"` // erroneous, crafted: control type if not the one of Frame
	Block   []byte `json:"block,omitempty"`    // erroneous, crafted: decompressed header block as sent
	Block2  []byte `json:"block2,omitempty"`   // erroneous, crafted, compressed: bytes sent in a second deflate sync segment of the same frame
	Payload []byte `json:"payload,omitempty"`  // erroneous, crafted, non-header frame: payload as sent
}

type c39FU struct {
	Items     []c39FUItem `json:"followup_items"`
	Mode      string      `json:"mode"`   // compressed | uncompressed
	Source    string      `json:"source"` // writer | crafted
	Delivery  int         `json:"delivery"`
	ChunkSeed uint64      `json:"chunk_seed"`
}

// ---------------------------------------------------------------- counters

type c39FUStats struct {
	mu       sync.Mutex
	outcome  map[string]int64 // mode|shape|outcome
	verified map[string]int64 // mode|shape|outcome|header or other: valid frames read back equal behind it
	n        map[string]int64
}

func newC39FUStats() *c39FUStats {
	return &c39FUStats{outcome: map[string]int64{}, verified: map[string]int64{}, n: map[string]int64{}}
}

func (s *c39FUStats) add(m map[string]int64, k string, d int64) {
	s.mu.Lock()
	m[k] += d
	s.mu.Unlock()
}

// ---------------------------------------------------------------- uncompressed switch

func c39SetUncompressed(f *bfe_spdy.Framer) bool {
	fld := reflect.ValueOf(f).Elem().FieldByName("headerCompressionDisabled")
	if !fld.IsValid() || fld.Kind() != reflect.Bool || !fld.CanAddr() {
		return false
	}
	*(*bool)(unsafe.Pointer(fld.UnsafeAddr())) = true
	return true
}

// ---------------------------------------------------------------- SPDY/3 serialiser (independent of bfe's writer)

var c39CtlCode = map[string]uint16{"syn_stream": 1, "syn_reply": 2, "rst_stream": 3, "settings": 4, "ping": 6, "goaway": 7, "headers": 8, "window_update": 9}

type c39Pair struct{ n, v []byte }

func c39PairsOf(hs []hdesc) []c39Pair {
	ps := make([]c39Pair, 0, len(hs))
	for _, h := range hs {
		ps = append(ps, c39Pair{[]byte(strings.ToLower(string(h.Name))), bytes.Join(h.Values, []byte{0})})
	}
	return ps
}

func c39BlockOf(num uint32, ps []c39Pair) []byte {
	b := be32(num)
	for _, p := range ps {
		b = append(b, be32(uint32(len(p.n)))...)
		b = append(b, p.n...)
		b = append(b, be32(uint32(len(p.v)))...)
		b = append(b, p.v...)
	}
	return b
}

func c39IsHeaderType(t string) bool { return t == "syn_stream" || t == "syn_reply" || t == "headers" }

// c39Wire serialises one item. zfirst: the zlib stream header is still to be sent.
func c39Wire(it *c39FUItem, compressed bool, zhdr []byte, zfirst *bool) []byte {
	fd := &it.Frame
	version := uint16(3)
	if it.Version != 0 {
		version = it.Version
	}
	ctl := func(typ uint16, flags uint8, payload []byte) []byte {
		b := c39Ctl(typ, flags, uint32(len(payload)), payload)
		b[0], b[1] = 0x80|byte(version>>8), byte(version)
		return b
	}
	if it.Payload != nil {
		return ctl(it.CtlType, fd.Flags, it.Payload)
	}
	switch fd.Type {
	case "syn_stream", "syn_reply", "headers":
		content := it.Block
		if content == nil {
			content = c39BlockOf(uint32(len(fd.Headers)), c39PairsOf(fd.Headers))
		}
		fixed := be32(fd.StreamId)
		if fd.Type == "syn_stream" {
			fixed = append(fixed, be32(fd.Assoc)...)
			fixed = append(fixed, fd.Priority<<5, fd.Slot)
		}
		if compressed {
			var z []byte
			if *zfirst {
				z, *zfirst = zhdr, false
			}
			content = c39Stored(content, z)
			if it.Block2 != nil {
				content = append(content, c39Stored(it.Block2, nil)...)
			}
		}
		return ctl(c39CtlCode[fd.Type], fd.Flags, append(fixed, content...))
	case "rst_stream":
		return ctl(3, 0, append(be32(fd.StreamId), be32(fd.Status)...))
	case "settings":
		p := be32(uint32(len(fd.Settings)))
		for _, s := range fd.Settings {
			p = append(p, be32(s[0]<<24|s[1]&0xffffff)...)
			p = append(p, be32(s[2])...)
		}
		return ctl(4, fd.Flags, p)
	case "ping":
		return ctl(6, 0, be32(fd.Id))
	case "goaway":
		return ctl(7, 0, append(be32(fd.StreamId), be32(fd.Status)...))
	case "window_update":
		return ctl(9, 0, append(be32(fd.StreamId), be32(fd.Delta)...))
	case "data":
		n := len(fd.Data)
		b := append(be32(fd.StreamId), fd.Flags, byte(n>>16), byte(n>>8), byte(n))
		return append(b, fd.Data...)
	}
	return nil
}

// c39CompareFU: got must carry the fields of fd. wantCF ("" = not checked) is
// the expected rendering of the control frame header.
func c39CompareFU(fd *fdesc, wantCF string, got bfe_spdy.Frame) string {
	neq := func(name string, a, b interface{}) string {
		return fmt.Sprintf("field %s: sent %v read %v", name, a, b)
	}
	cf := func(h bfe_spdy.ControlFrameHeader) string {
		if g := fmt.Sprintf("%+v", h); wantCF != "" && g != wantCF {
			return neq("CFHeader", wantCF, g)
		}
		return ""
	}
	typ, d := "", ""
	switch g := got.(type) {
	case *bfe_spdy.SynStreamFrame:
		typ, d = "syn_stream", cf(g.CFHeader)
		switch {
		case d != "" || fd.Type != typ:
		case uint8(g.CFHeader.Flags) != fd.Flags:
			d = neq("Flags", fd.Flags, g.CFHeader.Flags)
		case uint32(g.StreamId) != fd.StreamId:
			d = neq("StreamId", fd.StreamId, g.StreamId)
		case uint32(g.AssociatedToStreamId) != fd.Assoc:
			d = neq("AssociatedToStreamId", fd.Assoc, g.AssociatedToStreamId)
		case g.Priority != fd.Priority:
			d = neq("Priority", fd.Priority, g.Priority)
		case g.Slot != fd.Slot:
			d = neq("Slot", fd.Slot, g.Slot)
		default:
			if x := c39HeadersEqual(fd.Headers, g.Headers); x != "" {
				d = "headers: " + x
			}
		}
	case *bfe_spdy.SynReplyFrame:
		typ, d = "syn_reply", cf(g.CFHeader)
		switch {
		case d != "" || fd.Type != typ:
		case uint8(g.CFHeader.Flags) != fd.Flags:
			d = neq("Flags", fd.Flags, g.CFHeader.Flags)
		case uint32(g.StreamId) != fd.StreamId:
			d = neq("StreamId", fd.StreamId, g.StreamId)
		default:
			if x := c39HeadersEqual(fd.Headers, g.Headers); x != "" {
				d = "headers: " + x
			}
		}
	case *bfe_spdy.HeadersFrame:
		typ, d = "headers", cf(g.CFHeader)
		switch {
		case d != "" || fd.Type != typ:
		case uint8(g.CFHeader.Flags) != fd.Flags:
			d = neq("Flags", fd.Flags, g.CFHeader.Flags)
		case uint32(g.StreamId) != fd.StreamId:
			d = neq("StreamId", fd.StreamId, g.StreamId)
		default:
			if x := c39HeadersEqual(fd.Headers, g.Headers); x != "" {
				d = "headers: " + x
			}
		}
	case *bfe_spdy.RstStreamFrame:
		typ, d = "rst_stream", cf(g.CFHeader)
		switch {
		case d != "" || fd.Type != typ:
		case uint32(g.StreamId) != fd.StreamId:
			d = neq("StreamId", fd.StreamId, g.StreamId)
		case uint32(g.Status) != fd.Status:
			d = neq("Status", fd.Status, g.Status)
		}
	case *bfe_spdy.SettingsFrame:
		typ, d = "settings", cf(g.CFHeader)
		switch {
		case d != "" || fd.Type != typ:
		case uint8(g.CFHeader.Flags) != fd.Flags:
			d = neq("Flags", fd.Flags, g.CFHeader.Flags)
		case len(g.FlagIdValues) != len(fd.Settings):
			d = neq("len(FlagIdValues)", len(fd.Settings), len(g.FlagIdValues))
		default:
			for i, s := range fd.Settings {
				if x := g.FlagIdValues[i]; uint32(x.Flag) != s[0] || uint32(x.Id) != s[1] || x.Value != s[2] {
					d = neq(fmt.Sprintf("FlagIdValues[%d]", i), s, x)
					break
				}
			}
		}
	case *bfe_spdy.PingFrame:
		typ, d = "ping", cf(g.CFHeader)
		if d == "" && fd.Type == typ && g.Id != fd.Id {
			d = neq("Id", fd.Id, g.Id)
		}
	case *bfe_spdy.GoAwayFrame:
		typ, d = "goaway", cf(g.CFHeader)
		switch {
		case d != "" || fd.Type != typ:
		case uint32(g.LastGoodStreamId) != fd.StreamId:
			d = neq("LastGoodStreamId", fd.StreamId, g.LastGoodStreamId)
		case uint32(g.Status) != fd.Status:
			d = neq("Status", fd.Status, g.Status)
		}
	case *bfe_spdy.WindowUpdateFrame:
		typ, d = "window_update", cf(g.CFHeader)
		switch {
		case d != "" || fd.Type != typ:
		case uint32(g.StreamId) != fd.StreamId:
			d = neq("StreamId", fd.StreamId, g.StreamId)
		case g.DeltaWindowSize != fd.Delta:
			d = neq("DeltaWindowSize", fd.Delta, g.DeltaWindowSize)
		}
	case *bfe_spdy.DataFrame:
		typ = "data"
		switch {
		case fd.Type != typ:
		case uint32(g.StreamId) != fd.StreamId:
			d = neq("StreamId", fd.StreamId, g.StreamId)
		case uint8(g.Flags) != fd.Flags:
			d = neq("Flags", fd.Flags, g.Flags)
		case !bytes.Equal(g.Data, fd.Data):
			d = neq("len(Data)", len(fd.Data), len(g.Data))
		}
	default:
		return fmt.Sprintf("unexpected frame %T", got)
	}
	if fd.Type != typ {
		return fmt.Sprintf("frame type: sent %s read %s", fd.Type, typ)
	}
	return d
}

// c39CFOf renders the control frame header bfe's writer left in a written frame.
func c39CFOf(f bfe_spdy.Frame) string {
	switch w := f.(type) {
	case *bfe_spdy.SynStreamFrame:
		return fmt.Sprintf("%+v", w.CFHeader)
	case *bfe_spdy.SynReplyFrame:
		return fmt.Sprintf("%+v", w.CFHeader)
	case *bfe_spdy.HeadersFrame:
		return fmt.Sprintf("%+v", w.CFHeader)
	case *bfe_spdy.RstStreamFrame:
		return fmt.Sprintf("%+v", w.CFHeader)
	case *bfe_spdy.SettingsFrame:
		return fmt.Sprintf("%+v", w.CFHeader)
	case *bfe_spdy.PingFrame:
		return fmt.Sprintf("%+v", w.CFHeader)
	case *bfe_spdy.GoAwayFrame:
		return fmt.Sprintf("%+v", w.CFHeader)
	case *bfe_spdy.WindowUpdateFrame:
		return fmt.Sprintf("%+v", w.CFHeader)
	}
	return ""
}

// ---------------------------------------------------------------- running one sequence

// c39RunFU produces the byte stream of w and reads it back through one Framer.
func c39RunFU(r *vkit.Run, fs *c39FUStats, zhdr []byte, w *c39FU) (wire []byte, nontrivial bool) {
	desc := func() interface{} { return w }
	compressed := w.Mode == "compressed"
	ends := make([]int, len(w.Items))
	wantCF := make([]string, len(w.Items))
	var buf bytes.Buffer
	if w.Source == "writer" {
		wf, err := bfe_spdy.NewFramer(&buf, nil)
		if err != nil {
			r.Inconclusive("NewFramer: " + err.Error())
			return nil, false
		}
		defer wf.ReleaseWriter()
		if !compressed && !c39SetUncompressed(wf) {
			r.Inconclusive("cannot switch the writing Framer to uncompressed headers (field headerCompressionDisabled not found)")
			return nil, false
		}
		for i := range w.Items {
			f := w.Items[i].Frame.build()
			var werr error
			if r.Try(desc, func() { werr = wf.WriteFrame(f) }) {
				return nil, false
			}
			if werr != nil {
				if w.Items[i].Role == "valid" {
					r.Violation("write:"+w.Items[i].Frame.Type+":valid-frame-refused:"+c39ErrSig(werr), fmt.Sprintf("WriteFrame(#%d) = %v", i, werr), w)
				} else {
					fs.add(fs.n, "writer_refused_erroneous_frame", 1)
				}
				return nil, false
			}
			wantCF[i] = c39CFOf(f)
			ends[i] = buf.Len()
		}
	} else {
		zfirst := true
		for i := range w.Items {
			it := &w.Items[i]
			b := c39Wire(it, compressed, zhdr, &zfirst)
			buf.Write(b)
			ends[i] = buf.Len()
			if it.Role == "valid" && it.Frame.Type != "data" {
				wantCF[i] = fmt.Sprintf("{version:3 frameType:%d Flags:%d length:%d}", c39CtlCode[it.Frame.Type], it.Frame.wantFlags(), len(b)-8)
			}
		}
	}
	wire = append([]byte{}, buf.Bytes()...)
	src := &c39Src{data: wire, mode: w.Delivery, g: vkit.NewRand(w.ChunkSeed)}
	rf, err := bfe_spdy.NewFramer(io.Discard, src)
	if err != nil {
		r.Inconclusive("NewFramer: " + err.Error())
		return wire, false
	}
	defer rf.ReleaseWriter()
	if !compressed && !c39SetUncompressed(rf) {
		r.Inconclusive("cannot switch the reading Framer to uncompressed headers (field headerCompressionDisabled not found)")
		return wire, false
	}
	fs.add(fs.n, "sequences:"+w.Mode+":"+w.Source, 1)

	behind := "" // shape|outcome of the latest erroneous frame
	behindShape, behindOutcome := "", ""
	fail := func(i int, kind, what string) {
		sig := "followup:" + w.Mode + ":no-erroneous-frame-before:next-" + kind
		if behind != "" {
			sig = "followup:" + w.Mode + ":" + behindShape + ":" + behindOutcome + ":next-" + kind
		}
		if c39FUTrailing(behindShape) {
			// one signature of its own: the frame is ACCEPTED although its block goes on after the declared pairs
			sig = "followup:" + w.Mode + ":block-bytes-after-declared-pairs-reach-next-block"
		}
		r.Violation(sig, fmt.Sprintf("%s/%s, delivery %s: frame #%d (%s, valid) behind %s: %s", w.Mode, w.Source, c39Modes[w.Delivery], i, w.Items[i].Frame.Type,
			map[bool]string{true: "no erroneous frame", false: "an erroneous frame (" + behindShape + ") whose ReadFrame outcome was " + behindOutcome}[behind == ""], what), w)
	}
	for i := range w.Items {
		it := &w.Items[i]
		var got bfe_spdy.Frame
		var rerr error
		if r.Try(desc, func() { got, rerr = rf.ReadFrame() }) {
			return wire, false
		}
		if it.Role == "erroneous" && c39FUTrailing(behindShape) {
			// the block of that frame went on after its declared pairs: what the inflater still
			// holds is unknown, so a further erroneous frame cannot be classified any more
			return wire, nontrivial
		}
		if it.Role == "erroneous" {
			outcome := "fatal"
			if e, ok := rerr.(*bfe_spdy.Error); rerr == nil {
				outcome = "accepted"
			} else if ok && e.StreamId != 0 {
				outcome = "recoverable"
			}
			fs.add(fs.outcome, w.Mode+"|"+it.Shape+"|"+outcome, 1)
			if rerr != nil && got != nil {
				r.Violation("read:frame-and-error-together", fmt.Sprintf("ReadFrame returned (%T, %v)", got, rerr), w)
				return wire, false
			}
			if outcome == "fatal" {
				return wire, nontrivial
			}
			if outcome == "accepted" && src.pos != ends[i] {
				r.Violation("followup:"+w.Mode+":"+it.Shape+":accepted:reader-not-at-frame-end",
					fmt.Sprintf("frame #%d (%s) was returned without error; reader stands at byte %d, the frame ends at %d", i, it.Shape, src.pos, ends[i]), w)
				return wire, false
			}
			behind, behindShape, behindOutcome = it.Shape+"|"+outcome, it.Shape, outcome
			continue
		}
		if rerr != nil {
			fail(i, "read-error", "ReadFrame error: "+rerr.Error())
			return wire, false
		}
		if d := c39CompareFU(&it.Frame, wantCF[i], got); d != "" {
			kind := "fields"
			if strings.HasPrefix(d, "headers") {
				kind = "headers"
			}
			fail(i, kind, d)
			return wire, false
		}
		if src.pos != ends[i] {
			fail(i, "boundary", fmt.Sprintf("reader stands at byte %d, frame ends at %d", src.pos, ends[i]))
			return wire, false
		}
		if behind != "" {
			nontrivial = true
			k := "other"
			if c39IsHeaderType(it.Frame.Type) {
				k = "header"
			}
			fs.add(fs.verified, w.Mode+"|"+behind+"|"+k, 1)
		} else {
			fs.add(fs.n, "valid_frames_before_first_erroneous", 1)
		}
	}
	var got bfe_spdy.Frame
	var rerr error
	if r.Try(desc, func() { got, rerr = rf.ReadFrame() }) {
		return wire, false
	}
	if rerr != io.EOF || got != nil {
		fail(len(w.Items)-1, "trailing", fmt.Sprintf("after the last frame ReadFrame = (%T, %v), want (nil, EOF)", got, rerr))
		return wire, false
	}
	return wire, nontrivial
}

// ---------------------------------------------------------------- generators

// Expected outcome per shape on a reader that follows bfe's own marking and
// SPDY/3 (bookkeeping for "did the workload reach it"; the oracle uses the
// OBSERVED outcome).
var c39FUShapes = []struct {
	name, expect string
	crafted      bool // needs the crafted source
	blockLevel   bool // deviates from the frame length / pair count: not in uncompressed mode, where the reader ignores the frame length
}{
	{"dup-colon", "recoverable", false, false},       // a name canonicalisation leaves alone (:path, :method, 1x) twice
	{"dup-plain", "accepted", false, false},          // x-a twice: bfe's duplicate test does not see it
	{"dup-nonascii", "recoverable", true, false},     // é twice
	{"upper", "recoverable", true, false},            // X-Up, :PATH
	{"upper+dup", "recoverable", true, false},        //
	{"empty-name", "accepted", false, false},         // SPDY/3: stream error; bfe accepts
	{"empty-name-twice", "recoverable", true, false}, //
	{"empty-value", "accepted", false, false},        // zero-length value (SPDY/3: illegal)
	{"nul-edge-value", "accepted", true, false},      // value starting/ending with NUL, empty element
	{"forbidden", "recoverable", false, false},       // connection, keep-alive, proxy-connection, transfer-encoding
	{"long-path", "recoverable", false, false},       // :path above 8 KiB on SYN_STREAM / HEADERS
	{"sid-high-bit", "accepted", true, false},        // reserved bit of the stream id set
	{"bad-version", "accepted", true, false},         // control frame of another version (bfe does not look at it)
	{"count-below-pairs", "accepted", true, true},    // numHeaders smaller than the pairs present
	{"second-sync-segment", "accepted", true, true},  // complete block, then more inflated bytes in a second deflate sync segment of the same frame
	{"count-above-pairs", "fatal", true, true},       // numHeaders larger than the pairs present
	{"count-huge", "fatal", true, true},              // 1024 / 1025 / 2^31 / 2^32-1 announced
	{"length-over", "fatal", true, true},             // a name/value length beyond the block
	{"truncated-block", "fatal", true, true},         //
	{"sid-zero", "fatal", true, false},               // *Error{ZeroStreamId, 0}: not associated with a stream
	{"unknown-type", "fatal", true, false},           // *Error{InvalidControlFrame, 0}, payload not consumed
}

// c39FUTrailing: shapes whose inflated block goes on after the declared pairs.
func c39FUTrailing(shape string) bool {
	return shape == "count-below-pairs" || shape == "second-sync-segment"
}

var c39FUSafeNames = []string{"x-a", "x-b", "accept", "user-agent", "cookie", "x-forwarded-for", "etag", "a", "content-type", "x-0123456789"}

// c39FUHeaderFrame is a small valid header-bearing frame.
func c39FUHeaderFrame(g *vkit.Rand, typ string) fdesc {
	fd := fdesc{Type: typ, StreamId: c39Sid(g), Flags: uint8(g.Intn(2))}
	if typ == "syn_stream" {
		fd.Priority, fd.Slot = uint8(g.Intn(8)), uint8(g.Intn(256))
	}
	n := 1 + g.Intn(5)
	for _, k := range g.Perm(len(c39FUSafeNames))[:n] {
		v := c39Value(g)
		if len(v) > 200 {
			v = v[:200]
		}
		fd.Headers = append(fd.Headers, hdesc{Name: []byte(c39FUSafeNames[k]), Values: [][]byte{v}})
	}
	return fd
}

func c39FUValid(g *vkit.Rand) c39FUItem {
	for {
		var fd fdesc
		if g.Chance(1, 2) {
			fd = c39FUHeaderFrame(g, c39Types[g.Intn(3)])
		} else {
			fd = c39Frame(g, false)
		}
		if len(fd.Data) > 20000 {
			fd.Data = fd.Data[:20000]
		}
		if fd.Type == "syn_stream" || fd.Type == "syn_reply" || fd.Type == "headers" {
			if fd.Flags > 3 {
				fd.Flags &= 3
			}
		}
		return c39FUItem{Role: "valid", Frame: fd}
	}
}

// c39FUErroneous builds one erroneous frame of the given shape. ok=false when
// the shape does not exist for that source.
func c39FUErroneous(g *vkit.Rand, shape, source string) (it c39FUItem, ok bool) {
	typ := c39Types[g.Intn(3)]
	base := c39FUHeaderFrame(g, typ)
	it = c39FUItem{Role: "erroneous", Shape: shape, Frame: base}
	ps := c39PairsOf(base.Headers)
	insert := func(at int, p c39Pair) {
		ps = append(ps, c39Pair{})
		copy(ps[at+1:], ps[at:])
		ps[at] = p
	}
	val := func() []byte {
		v := c39Value(g)
		if len(v) > 100 {
			v = v[:100]
		}
		return v
	}
	num := func() uint32 { return uint32(len(ps)) }
	writerHdr := func(extra ...hdesc) {
		it.Frame.Headers = append(it.Frame.Headers, extra...)
	}
	colon := []string{":path", ":method", ":host", ":version", ":scheme", ":status", "1x", "0-rtt"}
	switch shape {
	case "dup-colon", "dup-plain", "dup-nonascii", "upper+dup", "empty-name-twice":
		name := ""
		switch shape {
		case "dup-colon":
			name = g.PickS(colon)
		case "dup-plain":
			name = g.PickS([]string{"x-dup", "set-cookie", "via"})
		case "dup-nonascii":
			name = g.PickS([]string{"é", "x-é", "ключ"})
		case "upper+dup":
			name = g.PickS([]string{":Path", "X-Dup", ":METHOD"})
		}
		if source == "writer" {
			if shape != "dup-colon" && shape != "dup-plain" {
				return it, false
			}
			// two map keys that lower-case to the same name
			up := strings.ToUpper(name[:2]) + name[2:]
			if up == name {
				up = strings.ToUpper(name)
			}
			if up == name { // "1x" style names have an upper-case variant further right; "0-rtt" too
				return it, false
			}
			writerHdr(hdesc{Name: []byte(name), Values: [][]byte{val()}}, hdesc{Name: []byte(up), Values: [][]byte{val()}})
			return it, true
		}
		a := g.Intn(len(ps) + 1)
		insert(a, c39Pair{[]byte(name), val()})
		b := a + 1 + g.Intn(len(ps)-a)
		insert(b, c39Pair{[]byte(name), val()})
		if g.Chance(1, 4) { // a third time
			insert(g.Intn(len(ps)+1), c39Pair{[]byte(name), val()})
		}
		it.Block = c39BlockOf(num(), ps)
	case "upper":
		if source == "writer" {
			return it, false
		}
		name := g.PickS([]string{"X-Up", ":PATH", "x-uP", "ACCEPT-LANGUAGE", "É", "x-Été"})
		insert(g.Intn(len(ps)+1), c39Pair{[]byte(name), val()})
		it.Block = c39BlockOf(num(), ps)
	case "empty-name":
		if source == "writer" {
			writerHdr(hdesc{Name: []byte{}, Values: [][]byte{val()}})
			return it, true
		}
		insert(g.Intn(len(ps)+1), c39Pair{[]byte{}, val()})
		it.Block = c39BlockOf(num(), ps)
	case "empty-value":
		if source == "writer" {
			writerHdr(hdesc{Name: []byte("x-empty"), Values: [][]byte{{}}})
			return it, true
		}
		insert(g.Intn(len(ps)+1), c39Pair{[]byte("x-empty"), []byte{}})
		it.Block = c39BlockOf(num(), ps)
	case "nul-edge-value":
		if source == "writer" {
			return it, false
		}
		insert(g.Intn(len(ps)+1), c39Pair{[]byte("x-nul"), []byte(g.PickS([]string{"\x00a", "a\x00", "a\x00\x00b", "\x00"}))})
		it.Block = c39BlockOf(num(), ps)
	case "forbidden":
		name := g.PickS([]string{"connection", "keep-alive", "proxy-connection", "transfer-encoding"})
		if source == "writer" {
			writerHdr(hdesc{Name: []byte(name), Values: [][]byte{[]byte("close")}})
			return it, true
		}
		insert(g.Intn(len(ps)+1), c39Pair{[]byte(name), []byte("close")})
		it.Block = c39BlockOf(num(), ps)
	case "long-path":
		if typ == "syn_reply" {
			it.Frame.Type = "syn_stream"
			it.Frame.Priority = uint8(g.Intn(8))
		}
		path := []byte("/" + strings.Repeat("p", 8192+g.Intn(900)))
		if source == "writer" {
			writerHdr(hdesc{Name: []byte(":path"), Values: [][]byte{path}})
			return it, true
		}
		insert(g.Intn(len(ps)+1), c39Pair{[]byte(":path"), path})
		it.Block = c39BlockOf(num(), ps)
	case "sid-high-bit":
		if source == "writer" {
			return it, false
		}
		it.Frame.StreamId |= 0x80000000
	case "bad-version":
		if source == "writer" {
			return it, false
		}
		v := c39FUValid(g)
		for v.Frame.Type == "data" {
			v = c39FUValid(g)
		}
		it.Frame = v.Frame
		it.Version = []uint16{1, 2, 4, 0x7fff}[g.Intn(4)]
	case "count-below-pairs":
		if source == "writer" {
			return it, false
		}
		n := uint32(g.Intn(len(ps)))
		it.Block = c39BlockOf(n, ps)
	case "second-sync-segment":
		if source == "writer" {
			return it, false
		}
		it.Block = c39BlockOf(num(), ps)
		it.Block2 = c39BlockOf(0, []c39Pair{{[]byte("zz"), val()}})[4:] // one more pair, without a count
	case "count-above-pairs":
		if source == "writer" {
			return it, false
		}
		it.Block = c39BlockOf(num()+1+uint32(g.Intn(4)), ps)
	case "count-huge":
		if source == "writer" {
			return it, false
		}
		it.Block = c39BlockOf([]uint32{1024, 1025, 1 << 31, 0xffffffff}[g.Intn(4)], ps)
	case "length-over":
		if source == "writer" {
			return it, false
		}
		b := c39BlockOf(num(), ps[:len(ps)-1])
		last := ps[len(ps)-1]
		over := uint32([]int{1, 1 + g.Intn(8), 100, g.Intn(70000)}[g.Intn(4)]) + 1
		if g.Bool() {
			b = append(b, be32(uint32(len(last.n))+over)...)
			b = append(b, last.n...)
		} else {
			b = append(b, be32(uint32(len(last.n)))...)
			b = append(b, last.n...)
			b = append(b, be32(uint32(len(last.v))+over)...)
			b = append(b, last.v...)
		}
		it.Block = b
	case "truncated-block":
		if source == "writer" {
			return it, false
		}
		b := c39BlockOf(num(), ps)
		it.Block = b[:g.Intn(len(b))]
	case "sid-zero":
		if source == "writer" {
			return it, false
		}
		it.Frame.StreamId = 0
	case "unknown-type":
		if source == "writer" {
			return it, false
		}
		it.CtlType = []uint16{0, 5, 10, 11, 255, 0x7fff}[g.Intn(6)]
		it.Payload = g.Bytes(1 + g.Intn(24))
		it.Frame = fdesc{Type: "unknown", Flags: uint8(g.Intn(256))}
	default:
		return it, false
	}
	return it, true
}

func c39GenFU(r *vkit.Run, i int) *c39FU {
	g := r.Rng("followup", i)
	w := &c39FU{Mode: "compressed", Source: "crafted", Delivery: g.Intn(3), ChunkSeed: g.U64()}
	if i%3 == 2 {
		w.Mode = "uncompressed"
	}
	if i%4 == 1 {
		w.Source = "writer"
	}
	pick := func() (c39FUItem, bool) {
		for tries := 0; tries < 40; tries++ {
			s := c39FUShapes[g.Intn(len(c39FUShapes))]
			if s.expect == "fatal" && !g.Chance(1, 3) {
				continue // fatal shapes end the sequence: fewer of them
			}
			if (s.crafted && w.Source == "writer") || (s.blockLevel && w.Mode == "uncompressed") {
				continue
			}
			if it, ok := c39FUErroneous(g, s.name, w.Source); ok {
				return it, true
			}
		}
		return c39FUItem{}, false
	}
	for n := g.Intn(3); n > 0; n-- {
		w.Items = append(w.Items, c39FUValid(g))
	}
	rounds := 1
	if g.Chance(1, 3) {
		rounds = 2 + g.Intn(2)
	}
	for ; rounds > 0; rounds-- {
		it, ok := pick()
		if ok {
			w.Items = append(w.Items, it)
		}
		if ok && c39FUTrailing(it.Shape) {
			rounds = 1 // nothing erroneous behind it, see c39RunFU
		}
		if g.Chance(2, 3) { // a header-bearing frame directly behind it: the one that shares the compression context
			w.Items = append(w.Items, c39FUItem{Role: "valid", Frame: c39FUHeaderFrame(g, c39Types[g.Intn(3)])})
		}
		for n := 1 + g.Intn(3); n > 0; n-- {
			w.Items = append(w.Items, c39FUValid(g))
		}
	}
	return w
}

// ---------------------------------------------------------------- driver

const c39FURule = " (3) FOLLOW-UP (c39f.go): sequences [0..2 valid frames] E [valid frames] (1..3 rounds) read through ONE Framer, where E is an erroneous-but-well-framed frame and the valid frames are all 9 types (a header-bearing one directly behind E in 2/3 of the rounds). " +
	"Sources: 'writer' = everything written by bfe's own Framer (real deflate, SPDY dictionary, back references), E limited to what it can emit (two keys lower-casing to one name, hop-by-hop name, :path > 8 KiB, empty name, empty value); " +
	"'crafted' = every frame serialised here from the SPDY/3 layout with header blocks in stored deflate blocks, so the decompressed block is chosen byte by byte. Modes: compressed (production; one inflater for the connection) and uncompressed (Framer.headerCompressionDisabled, unexported test switch, set via reflect+unsafe). " +
	"Shapes of E: duplicate name that canonicalisation leaves alone (:path, :method, :host, 1x ... - the only duplicates bfe detects), duplicate ordinary name, duplicate non-ASCII name, upper-case name, upper-case + duplicate, empty name (once / twice), empty value, value with NUL at an edge, hop-by-hop name, :path > 8 KiB, " +
	"reserved bit of the stream id, other control-frame version, numHeaders below / above the pairs present, a complete block followed by more inflated bytes in a second deflate sync segment of the same frame, numHeaders 1024/1025/2^31/2^32-1, name/value length beyond the block, truncated block, stream id 0, unknown control type. " +
	"Classification of the OBSERVED outcome of ReadFrame on E, from bfe's own marking (Error.StreamId 'is 0 if Error is not associated with a stream') and SPDY/3 2.4.1/2.4.2/2.6.10: accepted (frame returned) / recoverable (*Error with StreamId != 0: a stream error; the session goes on and the compression state must stay in sync) / " +
	"fatal (every other error: *Error with StreamId 0 = WrongCompressedPayloadSize, ZeroStreamId, InvalidControlFrame for unknown types; io and fmt errors) - behind a fatal outcome NOTHING is demanded and the sequence ends. " +
	"Oracle: behind an accepted or recoverable E every following valid frame is returned without error with equal fields (control header incl. length and flags, ids) and equal headers, the reader stands exactly at its end, and (nil, EOF) follows the last one; an accepted E leaves the reader at its own end. " +
	"Excluded and said so: in uncompressed mode bfe's reader ignores the frame length by construction, so the shapes that disagree with it (counts, lengths, truncation) run in compressed mode only; malformed fixed-size control frames (PING/GOAWAY/WINDOW_UPDATE flags or length), for which SPDY/3 defines no stream error and bfe returns before consuming the payload, are not E shapes. " +
	"Inconclusive (per mode) if a shape was never read, if a shape had an accepted/recoverable outcome but no header-bearing valid frame was verified behind it, or if no frame at all was verified behind a recoverable error / an accepted E / by a non-header frame. Non-trivial follow-up sequence = >= 1 valid frame verified behind an accepted/recoverable E."

func c39FollowUp(r *vkit.Run, zhdr []byte) {
	fs := newC39FUStats()
	n := r.N(24000, 400000)
	vkit.Parallel(n, 0, func(i int) {
		w := c39GenFU(r, i)
		wire, nt := c39RunFU(r, fs, zhdr, w)
		r.Case(vkit.Hash64("fu", w.Mode, w.Source, string(wire), fmt.Sprint(w.Delivery)), nt)
		if nt && i%2001 == 3 && r.WantSample() {
			var items []string
			for _, it := range w.Items {
				if it.Role == "valid" {
					items = append(items, it.Frame.Type)
				} else {
					items = append(items, "E:"+it.Shape)
				}
			}
			r.Sample(map[string]interface{}{"followup": items, "mode": w.Mode, "source": w.Source, "delivery": c39Modes[w.Delivery], "wire_bytes": len(wire)})
		}
	})
	c39FUFinish(r, fs)
}

func c39FUFinish(r *vkit.Run, fs *c39FUStats) {
	fs.mu.Lock()
	defer fs.mu.Unlock()
	matrix := map[string]map[string]int64{}
	put := func(row, col string, v int64) {
		if matrix[row] == nil {
			matrix[row] = map[string]int64{}
		}
		matrix[row][col] += v
	}
	var tot = map[string]int64{}
	for k, v := range fs.outcome {
		p := strings.Split(k, "|")
		put(p[0]+" "+p[1], "outcome_"+p[2], v)
		tot["followup_erroneous_"+p[2]] += v
	}
	for k, v := range fs.verified {
		p := strings.Split(k, "|")
		put(p[0]+" "+p[1], "valid_"+p[3]+"_frames_verified_behind_"+p[2], v)
		tot["followup_valid_frames_verified_behind_"+p[2]] += v
	}
	r.Extra("c39_followup_by_mode_and_shape", matrix)
	keys := make([]string, 0, len(tot)+len(fs.n))
	for k, v := range fs.n {
		tot["followup_"+k] += v
	}
	for k := range tot {
		keys = append(keys, k)
	}
	sort.Strings(keys)
	for _, k := range keys {
		r.Count(k, tot[k])
	}
	if r.Replay != "" {
		return
	}
	var missing []string
	for _, mode := range []string{"compressed", "uncompressed"} {
		var other, hdrRec, hdrAcc int64
		for _, s := range c39FUShapes {
			if s.blockLevel && mode == "uncompressed" {
				continue
			}
			k := mode + "|" + s.name + "|"
			if fs.outcome[k+"accepted"]+fs.outcome[k+"recoverable"]+fs.outcome[k+"fatal"] == 0 {
				missing = append(missing, mode+" "+s.name+" (never read)")
				continue
			}
			// the outcome is bfe's business; whatever non-fatal outcome occurred must have been followed up
			for _, oc := range []string{"accepted", "recoverable"} {
				if c39FUTrailing(s.name) {
					continue // accepted today, and then what follows is misread (reported as a violation, not verified)
				}
				if fs.outcome[k+oc] > 0 && fs.verified[k+oc+"|header"] == 0 {
					missing = append(missing, mode+" "+s.name+" ("+oc+", but no header-bearing frame verified behind it)")
				}
				other += fs.verified[k+oc+"|other"]
			}
			hdrRec += fs.verified[k+"recoverable|header"]
			hdrAcc += fs.verified[k+"accepted|header"]
		}
		if other == 0 {
			missing = append(missing, mode+": no PING/DATA/SETTINGS/... frame verified behind an erroneous frame")
		}
		if hdrRec == 0 {
			missing = append(missing, mode+": no header-bearing frame verified behind a recoverable error")
		}
		if hdrAcc == 0 {
			missing = append(missing, mode+": no header-bearing frame verified behind an accepted erroneous frame")
		}
	}
	if len(missing) > 0 {
		sort.Strings(missing)
		r.Inconclusive("follow-up workload never reached: " + strings.Join(missing, "; "))
	}
}
