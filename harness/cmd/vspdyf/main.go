// vspdyf decides C39 (SPDY framer round trip and robust parsing) through the
// exported bfe_spdy.Framer API only.
package main

import (
	"fmt"
	"os"

	"verifharness/vkit"
)

func main() {
	if os.Getenv("VERIF_C39_CHILD") != "" {
		c39Child()
		return
	}
	r := vkit.Start("exploration")
	switch r.Prop {
	case "C39":
		c39(r)
	default:
		fmt.Fprintln(os.Stderr, "vspdyf: unknown property", r.Prop)
		os.Exit(vkit.ExitInconclusive)
	}
	r.Finish()
}
