package main

import (
	"bytes"
	"fmt"
	"io"
	"sort"
	"strings"
	"sync"

	"github.com/bfenetworks/bfe/bfe_spdy"

	"verifharness/vkit"
)

// C39, refused-write part: "every SPDY frame the framer writes ... is read back
// with the same fields and headers through the shared compression context" is a
// statement about ALL frames one Framer writes during the life of a connection,
// whatever else was asked of that Framer in between. Phases 1-6 only ever call
// WriteFrame with frames it accepts. Here one Framer is asked
//
//	[valid frames] REFUSED write(s) [valid frames] ...
//
// and a second Framer, which shares the compression context from the first
// byte, reads the wire back.
//
// What WriteFrame refuses is enumerated from bfe_spdy/frame_write.go (these are
// all `return &Error{...}` of the write path; header names/values, flags and
// field widths are never refused by the writer):
//
//	syn_stream / syn_reply / headers   StreamId == 0                  ZeroStreamId
//	rst_stream                         StreamId == 0                  ZeroStreamId
//	rst_stream                         Status == 0                    InvalidControlFrame
//	ping                               Id == 0                        ZeroStreamId
//	data                               StreamId == 0                  ZeroStreamId
//	data                               reserved bit of StreamId set   InvalidDataFrame
//	data                               len(Data) > MaxDataLength      InvalidDataFrame
//
// plus PROBES: frames outside what SPDY/3 can carry that today's writer happens
// to accept (reserved bits in control-frame ids, priority > 7, 25-bit settings
// id, zero / 2^31 window delta, empty / hop-by-hop header names, > 1024 names).
// A probe that is accepted ends the sequence (nothing is demanded of a frame
// outside the format); a probe that is refused is treated like any refusal.
//
// Oracle (from the statement, nothing more):
//
//	a refused write (WriteFrame returned an error) is not a frame the framer
//	wrote: the wire is exactly as long as before;
//	every accepted frame - before, between and behind refused writes - is read
//	back without error with equal fields, equal control header and equal
//	headers, the reader stands exactly at its end, and (nil, EOF) follows the
//	last one.
//
// Whether a frame SHOULD be refused is not judged: an "expected" refusal that
// is accepted ends the sequence and is counted; the run is inconclusive if a
// reason x following-header-type x mode cell was never verified.
//
// Not covered, said so: errors of the underlying io.Writer (a failed write of
// the connection is fatal for the connection in the only caller; nothing can be
// demanded of a wire that took half a frame).

type c39WItem struct {
	Role    string `json:"role"`             // valid | refuse | probe
	Reason  string `json:"reason,omitempty"` // refuse/probe: which rule the frame breaks
	Frame   fdesc  `json:"frame"`
	BigData int    `json:"big_data,omitempty"` // data frame with this many zero bytes (kept out of the witness)
}

type c39W struct {
	Items     []c39WItem `json:"refused_write_items"`
	Mode      string     `json:"mode"` // compressed | uncompressed
	Delivery  int        `json:"delivery"`
	ChunkSeed uint64     `json:"chunk_seed"`
}

// Reasons enumerated from frame_write.go. The order is part of the case list.
var c39WReasons = []string{
	"syn_stream:stream-id-0",
	"syn_reply:stream-id-0",
	"headers:stream-id-0",
	"rst_stream:stream-id-0",
	"rst_stream:status-0",
	"rst_stream:stream-id-0+status-0",
	"ping:id-0",
	"data:stream-id-0",
	"data:reserved-bit",
	"data:reserved-bit-only",
	"data:oversized",
}

var c39WProbes = []string{
	"syn_stream:reserved-bit",
	"syn_stream:assoc-reserved-bit",
	"syn_stream:priority-above-7",
	"syn_reply:reserved-bit",
	"headers:reserved-bit",
	"rst_stream:reserved-bit",
	"goaway:reserved-bit",
	"window_update:reserved-bit",
	"window_update:delta-0",
	"window_update:delta-2^31",
	"settings:id-25-bits",
	"headers:empty-name",
	"syn_reply:hop-by-hop-name",
	"syn_stream:1025-names",
}

var (
	c39WBigOnce sync.Once
	c39WBig     []byte
)

func (it *c39WItem) build() bfe_spdy.Frame {
	if it.BigData > 0 {
		c39WBigOnce.Do(func() { c39WBig = make([]byte, bfe_spdy.MaxDataLength+1) })
		n := it.BigData
		if n > len(c39WBig) {
			n = len(c39WBig)
		}
		// never modified by the writer; shared by all goroutines
		return &bfe_spdy.DataFrame{StreamId: bfe_spdy.StreamId(it.Frame.StreamId), Flags: bfe_spdy.DataFlags(it.Frame.Flags), Data: c39WBig[:n]}
	}
	return it.Frame.build()
}

// c39WHeaders: header sets for refused header-bearing frames - they are what
// would be left behind in the compressor / header buffer.
func c39WHeaders(g *vkit.Rand) []hdesc {
	switch g.Intn(6) {
	case 0:
		return nil
	case 1:
		return []hdesc{{Name: []byte("x-rejected"), Values: [][]byte{[]byte("must-never-be-seen")}}}
	case 2: // what a real response / request carries: dictionary hits, back references into earlier frames
		return []hdesc{
			{Name: []byte(":status"), Values: [][]byte{[]byte("200 OK")}},
			{Name: []byte(":version"), Values: [][]byte{[]byte("HTTP/1.1")}},
			{Name: []byte("content-type"), Values: [][]byte{[]byte("text/html")}},
		}
	case 3: // incompressible and large: crosses the deflate window bookkeeping
		return []hdesc{{Name: []byte("x-blob"), Values: [][]byte{g.Bytes(500 + g.Intn(6000))}}}
	}
	return c39FUHeaderFrame(g, "headers").Headers
}

func c39WRefusal(g *vkit.Rand, reason string) c39WItem {
	it := c39WItem{Role: "refuse", Reason: reason}
	typ := reason[:strings.IndexByte(reason, ':')]
	fd := fdesc{Type: typ}
	switch reason {
	case "syn_stream:stream-id-0":
		fd.Assoc, fd.Priority, fd.Slot, fd.Flags = uint32(g.Intn(2))*c39Sid(g), uint8(g.Intn(8)), uint8(g.Intn(256)), uint8(g.Intn(4))
		fd.Headers = c39WHeaders(g)
	case "syn_reply:stream-id-0", "headers:stream-id-0":
		fd.Flags = uint8(g.Intn(2))
		fd.Headers = c39WHeaders(g)
	case "rst_stream:stream-id-0":
		fd.Status = 1 + uint32(g.Intn(11))
	case "rst_stream:status-0":
		fd.StreamId = c39Sid(g)
	case "rst_stream:stream-id-0+status-0":
	case "ping:id-0":
	case "data:stream-id-0":
		fd.Flags, fd.Data = uint8(g.Intn(2)), g.Bytes(g.Intn(100))
	case "data:reserved-bit":
		fd.StreamId, fd.Flags, fd.Data = 0x80000000|c39Sid(g), uint8(g.Intn(2)), g.Bytes(g.Intn(100))
	case "data:reserved-bit-only":
		fd.StreamId, fd.Data = 0x80000000, g.Bytes(g.Intn(100))
	case "data:oversized":
		fd.StreamId, fd.Flags = c39Sid(g), uint8(g.Intn(2))
		it.BigData = bfe_spdy.MaxDataLength + 1
	}
	it.Frame = fd
	return it
}

func c39WProbe(g *vkit.Rand, reason string) c39WItem {
	it := c39WItem{Role: "probe", Reason: reason}
	typ := reason[:strings.IndexByte(reason, ':')]
	fd := fdesc{Type: typ}
	small := func() []hdesc { return c39FUHeaderFrame(g, "headers").Headers }
	switch reason {
	case "syn_stream:reserved-bit":
		fd.StreamId, fd.Headers = 0x80000000|c39Sid(g), small()
	case "syn_stream:assoc-reserved-bit":
		fd.StreamId, fd.Assoc, fd.Headers = c39Sid(g), 0x80000000|c39Sid(g), small()
	case "syn_stream:priority-above-7":
		fd.StreamId, fd.Priority, fd.Headers = c39Sid(g), uint8(8+g.Intn(248)), small()
	case "syn_reply:reserved-bit", "headers:reserved-bit":
		fd.StreamId, fd.Headers = 0x80000000|c39Sid(g), small()
	case "rst_stream:reserved-bit":
		fd.StreamId, fd.Status = 0x80000000|c39Sid(g), 1+uint32(g.Intn(11))
	case "goaway:reserved-bit":
		fd.StreamId = 0x80000000 | c39Sid(g)
	case "window_update:reserved-bit":
		fd.StreamId, fd.Delta = 0x80000000|c39Sid(g), 1+uint32(g.Intn(1000))
	case "window_update:delta-0":
		fd.StreamId = c39Sid(g)
	case "window_update:delta-2^31":
		fd.StreamId, fd.Delta = c39Sid(g), 0x80000000+uint32(g.Intn(1000))
	case "settings:id-25-bits":
		fd.Settings = [][3]uint32{{0, 1<<24 + uint32(g.Intn(1<<7)), 1}}
	case "headers:empty-name":
		fd.StreamId = c39Sid(g)
		fd.Headers = append(small(), hdesc{Name: []byte{}, Values: [][]byte{[]byte("v")}})
	case "syn_reply:hop-by-hop-name":
		fd.StreamId = c39Sid(g)
		fd.Headers = append(small(), hdesc{Name: []byte(g.PickS(c39Forbidden)), Values: [][]byte{[]byte("v")}})
	case "syn_stream:1025-names":
		fd.StreamId = c39Sid(g)
		for i := 0; i < 1025; i++ {
			fd.Headers = append(fd.Headers, hdesc{Name: []byte(fmt.Sprintf("n%d", i)), Values: [][]byte{[]byte("v")}})
		}
	}
	it.Frame = fd
	return it
}

func c39GenW(r *vkit.Run, i int) *c39W {
	g := r.Rng("refused-write", i)
	w := &c39W{Mode: "compressed", Delivery: g.Intn(3), ChunkSeed: g.U64()}
	if i%3 == 2 {
		w.Mode = "uncompressed"
	}
	valid := func() c39WItem { return c39WItem{Role: "valid", Frame: c39FUValid(g).Frame} }
	hdr := func(typ string) c39WItem { return c39WItem{Role: "valid", Frame: c39FUHeaderFrame(g, typ)} }
	for n := g.Intn(3); n > 0; n-- {
		w.Items = append(w.Items, valid())
	}
	rounds := 1 + g.Intn(3)
	for k := 0; k < rounds; k++ {
		// The first refusal of sequence i walks through reasons x following header types, so that
		// every cell is reached in both modes whatever the seed.
		reason := c39WReasons[g.Intn(len(c39WReasons))]
		next := c39Types[g.Intn(3)]
		if k == 0 {
			cell := i / 3
			reason = c39WReasons[cell%len(c39WReasons)]
			next = c39Types[(cell/len(c39WReasons))%3]
		}
		switch {
		case k > 0 && g.Chance(1, 6):
			w.Items = append(w.Items, c39WProbe(g, g.PickS(c39WProbes)))
		default:
			w.Items = append(w.Items, c39WRefusal(g, reason))
			if g.Chance(1, 4) { // the same or another refusal directly behind it
				r2 := reason
				if g.Bool() {
					r2 = c39WReasons[g.Intn(len(c39WReasons))]
				}
				w.Items = append(w.Items, c39WRefusal(g, r2))
			}
		}
		if k == 0 || g.Chance(3, 4) {
			w.Items = append(w.Items, hdr(next))
		}
		for n := g.Intn(3); n > 0; n-- {
			w.Items = append(w.Items, valid())
		}
	}
	// the context must still be intact at the very end
	if g.Chance(1, 2) {
		w.Items = append(w.Items, hdr(c39Types[g.Intn(3)]))
	}
	return w
}

type c39WStats struct {
	mu sync.Mutex
	n  map[string]int64
	// mode|reason|type of a header-bearing frame verified directly or later behind the refusal
	cell map[string]int64
}

func (s *c39WStats) add(m map[string]int64, k string, d int64) {
	s.mu.Lock()
	m[k] += d
	s.mu.Unlock()
}

// c39RunW asks one Framer for every item of w and reads the wire back through another.
func c39RunW(r *vkit.Run, ws *c39WStats, w *c39W) (wire []byte, nontrivial bool) {
	desc := func() interface{} { return w }
	compressed := w.Mode == "compressed"
	var buf bytes.Buffer
	wf, err := bfe_spdy.NewFramer(&buf, nil)
	if err != nil {
		r.Inconclusive("NewFramer: " + err.Error())
		return nil, false
	}
	defer wf.ReleaseWriter()
	if !compressed && !c39SetUncompressed(wf) {
		r.Inconclusive("cannot switch the writing Framer to uncompressed headers (field headerCompressionDisabled not found)")
		return nil, false
	}
	type acc struct {
		item    int
		end     int
		wantCF  string
		refused []string // refusals since the previous accepted header-bearing frame (shared prefix, never modified)
		lastRef string   // latest refusal before this frame ("" = none yet)
	}
	var accepted []acc
	var pending []string
	lastRef := ""
	refusedSeen := false
	for i := range w.Items {
		it := &w.Items[i]
		f := it.build()
		before := buf.Len()
		var werr error
		if r.Try(desc, func() { werr = wf.WriteFrame(f) }) {
			return nil, false
		}
		if it.Role == "valid" {
			if werr != nil {
				r.Violation("write:"+it.Frame.Type+":valid-frame-refused:"+c39ErrSig(werr), fmt.Sprintf("WriteFrame(#%d %s) = %v", i, it.Frame.Type, werr), w)
				return nil, false
			}
			a := acc{item: i, end: buf.Len(), wantCF: c39CFOf(f), lastRef: lastRef, refused: pending}
			if c39IsHeaderType(it.Frame.Type) {
				pending = nil
			}
			accepted = append(accepted, a)
			continue
		}
		if werr == nil {
			// not judged: whether the writer must refuse it is not in the statement; nothing is demanded of
			// (or behind) a frame outside the format, the sequence ends before it
			ws.add(ws.n, it.Role+"_accepted_by_writer:"+it.Reason, 1)
			buf.Truncate(before)
			break
		}
		ws.add(ws.n, "writes_refused:"+w.Mode, 1)
		ws.add(ws.n, "refused:"+it.Reason, 1)
		if it.Role == "probe" {
			ws.add(ws.n, "probe_refused_by_writer:"+it.Reason, 1)
		}
		if buf.Len() != before {
			r.Violation("refused-write:"+it.Reason+":bytes-on-the-wire",
				fmt.Sprintf("%s: WriteFrame(#%d, %s) = %v, yet the wire grew by %d bytes (% x): a refused frame was not written, what follows it on the connection starts in the middle of this one",
					w.Mode, i, it.Reason, werr, buf.Len()-before, buf.Bytes()[before:]), w)
			return nil, false
		}
		refusedSeen = true
		lastRef = it.Reason
		pending = append(pending[:len(pending):len(pending)], it.Reason)
	}
	wire = append([]byte{}, buf.Bytes()...)
	src := &c39Src{data: wire, mode: w.Delivery, g: vkit.NewRand(w.ChunkSeed)}
	rf, err := bfe_spdy.NewFramer(io.Discard, src)
	if err != nil {
		r.Inconclusive("NewFramer: " + err.Error())
		return wire, false
	}
	defer rf.ReleaseWriter()
	if !compressed && !c39SetUncompressed(rf) {
		r.Inconclusive("cannot switch the reading Framer to uncompressed headers (field headerCompressionDisabled not found)")
		return wire, false
	}
	ws.add(ws.n, "sequences:"+w.Mode, 1)
	fail := func(a *acc, kind, what string) {
		it := &w.Items[a.item]
		// blame: the first refused header-bearing write since the last accepted header-bearing frame (the ones
		// that can leave something in the shared compressor / header buffer), else the latest refusal
		blame := a.lastRef
		for _, reason := range a.refused {
			if c39IsHeaderType(reason[:strings.IndexByte(reason, ':')]) {
				blame = reason
				break
			}
		}
		sig := "refused-write:" + w.Mode + ":none-before:next-" + it.Frame.Type + ":" + kind
		if blame != "" {
			sig = "refused-write:" + w.Mode + ":" + blame + ":next-" + it.Frame.Type + ":" + kind
		}
		r.Violation(sig, fmt.Sprintf("%s, delivery %s: accepted frame #%d (%s) behind refused write(s) [latest: %s]: %s", w.Mode, c39Modes[w.Delivery], a.item, it.Frame.Type,
			map[bool]string{true: "none", false: a.lastRef}[a.lastRef == ""], what), w)
	}
	for k := range accepted {
		a := &accepted[k]
		it := &w.Items[a.item]
		var got bfe_spdy.Frame
		var rerr error
		if r.Try(desc, func() { got, rerr = rf.ReadFrame() }) {
			return wire, false
		}
		if rerr != nil {
			fail(a, "read-error", "ReadFrame error: "+rerr.Error())
			return wire, false
		}
		if d := c39CompareFU(&it.Frame, a.wantCF, got); d != "" {
			kind := "fields"
			if strings.HasPrefix(d, "headers") {
				kind = "headers"
			}
			fail(a, kind, d)
			return wire, false
		}
		if src.pos != a.end {
			fail(a, "boundary", fmt.Sprintf("reader stands at byte %d, frame ends at %d", src.pos, a.end))
			return wire, false
		}
		if a.lastRef == "" {
			ws.add(ws.n, "valid_frames_before_first_refusal", 1)
			continue
		}
		nontrivial = true
		if c39IsHeaderType(it.Frame.Type) {
			ws.add(ws.n, "header_frames_verified_behind_refusal:"+w.Mode, 1)
			seen := map[string]bool{}
			for _, reason := range a.refused {
				if !seen[reason] {
					seen[reason] = true
					ws.add(ws.cell, w.Mode+"|"+reason+"|"+it.Frame.Type, 1)
				}
			}
		} else {
			ws.add(ws.n, "other_frames_verified_behind_refusal:"+w.Mode, 1)
		}
	}
	var got bfe_spdy.Frame
	var rerr error
	if r.Try(desc, func() { got, rerr = rf.ReadFrame() }) {
		return wire, false
	}
	if rerr != io.EOF || got != nil {
		if len(accepted) > 0 {
			fail(&accepted[len(accepted)-1], "trailing", fmt.Sprintf("after the last accepted frame ReadFrame = (%T, %v), want (nil, EOF)", got, rerr))
		} else if refusedSeen {
			r.Violation("refused-write:"+w.Mode+":"+lastRef+":trailing", fmt.Sprintf("only refused writes, yet ReadFrame = (%T, %v), want (nil, EOF)", got, rerr), w)
		}
		return wire, false
	}
	return wire, nontrivial
}

const c39WRule = " (4) REFUSED WRITES (c39w.go): ONE Framer is asked [0..2 valid frames] then 1..3 rounds of [1..2 refused writes | 1 probe] [a valid header-bearing frame (always in round 1, else 3 in 4)] [0..2 valid frames of all 9 types], " +
	"and ONE reading Framer that shares the compression context from the first byte reads the wire back (whole / random chunks / byte by byte); compressed (production) and uncompressed (headerCompressionDisabled) modes, 2:1. " +
	"Refusal reasons enumerated from frame_write.go (every `return &Error` of the write path): SYN_STREAM / SYN_REPLY / HEADERS with stream id 0 (carrying no headers, one marker header, typical :status/:version/content-type, a 0.5..6.5 KB incompressible value, or 1..6 ordinary headers), " +
	"RST_STREAM with stream id 0 / status 0 / both, PING id 0, DATA with stream id 0 / reserved bit + id / reserved bit only / MaxDataLength+1 bytes. The first refusal of sequence i walks reason x following header type (SYN_STREAM/SYN_REPLY/HEADERS), so every cell occurs in both modes at every seed. " +
	"Probes (1 in 6 of the later rounds): frames outside what SPDY/3 can carry which the writer is not documented to refuse (reserved bit in SYN_STREAM/SYN_REPLY/HEADERS/RST_STREAM/GOAWAY/WINDOW_UPDATE ids and in the associated id, priority > 7, 25-bit settings id, window delta 0 / >= 2^31, empty name, hop-by-hop name, 1025 names): " +
	"if the writer accepts one, the sequence ends before it and nothing is demanded (counted); if it refuses, it is a refusal like the others. Header names, values and flags are never refused by the writer, so there is no such reason. " +
	"Oracle: a write that returned an error left the wire length unchanged; every accepted frame before, between and behind refused writes is returned by ReadFrame without error with equal control header (incl. length), flags, ids, fields and headers, the reader stands exactly at the frame's end, (nil, EOF) after the last. " +
	"Whether a frame ought to be refused is NOT judged (an enumerated refusal that is accepted ends the sequence and leaves its cell unverified -> inconclusive). Excluded: errors of the underlying io.Writer (fatal for the connection in the only caller). " +
	"Inconclusive if for any mode x reason x following header type no header-bearing frame was verified behind that refusal. Non-trivial refused-write sequence = >= 1 accepted frame verified behind a refused write; distinct = mode + wire bytes + delivery + list of reasons."

func c39RefusedWrites(r *vkit.Run) {
	ws := &c39WStats{n: map[string]int64{}, cell: map[string]int64{}}
	n := r.N(6000, 120000)
	vkit.Parallel(n, 0, func(i int) {
		w := c39GenW(r, i)
		wire, nt := c39RunW(r, ws, w)
		var reasons []string
		for _, it := range w.Items {
			if it.Role != "valid" {
				reasons = append(reasons, it.Reason)
			}
		}
		r.Case(vkit.Hash64("refused-write", w.Mode, string(wire), fmt.Sprint(w.Delivery), strings.Join(reasons, ",")), nt)
		if nt && i%1501 == 4 && r.WantSample() {
			var items []string
			for _, it := range w.Items {
				if it.Role == "valid" {
					items = append(items, it.Frame.Type)
				} else {
					items = append(items, strings.ToUpper(it.Role)+":"+it.Reason)
				}
			}
			r.Sample(map[string]interface{}{"refused_write_sequence": items, "mode": w.Mode, "delivery": c39Modes[w.Delivery], "wire_bytes": len(wire)})
		}
	})
	c39WFinish(r, ws)
}

func c39WFinish(r *vkit.Run, ws *c39WStats) {
	ws.mu.Lock()
	defer ws.mu.Unlock()
	tot := map[string]int64{}
	byReason := map[string]int64{}
	for k, v := range ws.n {
		switch {
		case strings.HasPrefix(k, "refused:"):
			byReason[strings.TrimPrefix(k, "refused:")] += v
		case strings.Contains(k, "_by_writer:"):
			tot["refused_write_"+k[:strings.IndexByte(k, ':')]] += v
			byReason[k] += v
		default:
			tot["refused_write_"+k] += v
		}
	}
	cells := map[string]int64{}
	for k, v := range ws.cell {
		cells[k] = v
		tot["refused_write_cells_verified"]++
		_ = v
	}
	r.Extra("c39_refused_writes_by_reason", byReason)
	r.Extra("c39_refused_writes_header_frames_verified_by_mode_reason_next", cells)
	keys := make([]string, 0, len(tot))
	for k := range tot {
		keys = append(keys, k)
	}
	sort.Strings(keys)
	for _, k := range keys {
		r.Count(k, tot[k])
	}
	if r.Replay != "" {
		return
	}
	var missing []string
	for _, mode := range []string{"compressed", "uncompressed"} {
		for _, reason := range c39WReasons {
			for _, typ := range c39Types[:3] {
				if ws.cell[mode+"|"+reason+"|"+typ] == 0 {
					missing = append(missing, mode+" "+reason+" -> "+typ)
				}
			}
		}
		if ws.n["other_frames_verified_behind_refusal:"+mode] == 0 {
			missing = append(missing, mode+": no PING/DATA/SETTINGS/... frame verified behind a refused write")
		}
	}
	if len(missing) > 0 {
		sort.Strings(missing)
		if len(missing) > 12 {
			missing = append(missing[:12], fmt.Sprintf("... and %d more", len(missing)-12))
		}
		r.Inconclusive("refused-write workload never verified: " + strings.Join(missing, "; "))
	}
}
