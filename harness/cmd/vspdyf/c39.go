package main

import (
	"bytes"
	"encoding/binary"
	"encoding/json"
	"fmt"
	"io"
	"os"
	"os/exec"
	"path/filepath"
	"runtime"
	"strings"
	"sync/atomic"
	"time"

	http "github.com/bfenetworks/bfe/bfe_http"
	"github.com/bfenetworks/bfe/bfe_spdy"

	"verifharness/vkit"
)

// C39: (1) every SPDY frame the framer writes, with any header names and
// values, is read back with the same fields and headers through the shared
// compression context; (2) reading any byte stream returns frames or errors
// without panicking, without losing frame boundaries and without allocating
// more than the frame can justify.
//
// Only the exported API is used: NewFramer, WriteFrame, ReadFrame.

// ---------------------------------------------------------------- frame model

type hdesc struct {
	Name   []byte   `json:"name"` // bytes, may be invalid UTF-8
	Values [][]byte `json:"values"`
}

type fdesc struct {
	Type     string      `json:"type"`
	StreamId uint32      `json:"stream_id,omitempty"`
	Assoc    uint32      `json:"assoc,omitempty"`
	Priority uint8       `json:"priority,omitempty"`
	Slot     uint8       `json:"slot,omitempty"`
	Flags    uint8       `json:"flags,omitempty"`
	Status   uint32      `json:"status,omitempty"`
	Id       uint32      `json:"id,omitempty"`
	Delta    uint32      `json:"delta,omitempty"`
	Settings [][3]uint32 `json:"settings,omitempty"` // flag, id, value
	Data     []byte      `json:"data,omitempty"`
	Headers  []hdesc     `json:"headers,omitempty"`
}

func c39Header(hs []hdesc) http.Header {
	h := http.Header{}
	for _, x := range hs {
		vals := make([]string, len(x.Values))
		for i, v := range x.Values {
			vals[i] = string(v)
		}
		h[string(x.Name)] = vals
	}
	return h
}

func (fd *fdesc) build() bfe_spdy.Frame {
	cf := bfe_spdy.ControlFrameHeader{Flags: bfe_spdy.ControlFlags(fd.Flags)}
	switch fd.Type {
	case "syn_stream":
		return &bfe_spdy.SynStreamFrame{CFHeader: cf, StreamId: bfe_spdy.StreamId(fd.StreamId),
			AssociatedToStreamId: bfe_spdy.StreamId(fd.Assoc), Priority: fd.Priority, Slot: fd.Slot, Headers: c39Header(fd.Headers)}
	case "syn_reply":
		return &bfe_spdy.SynReplyFrame{CFHeader: cf, StreamId: bfe_spdy.StreamId(fd.StreamId), Headers: c39Header(fd.Headers)}
	case "headers":
		return &bfe_spdy.HeadersFrame{CFHeader: cf, StreamId: bfe_spdy.StreamId(fd.StreamId), Headers: c39Header(fd.Headers)}
	case "rst_stream":
		return &bfe_spdy.RstStreamFrame{StreamId: bfe_spdy.StreamId(fd.StreamId), Status: bfe_spdy.RstStreamStatus(fd.Status)}
	case "settings":
		f := &bfe_spdy.SettingsFrame{CFHeader: cf}
		for _, s := range fd.Settings {
			f.FlagIdValues = append(f.FlagIdValues, bfe_spdy.SettingsFlagIdValue{
				Flag: bfe_spdy.SettingsFlag(s[0]), Id: bfe_spdy.SettingsId(s[1]), Value: s[2]})
		}
		return f
	case "ping":
		return &bfe_spdy.PingFrame{Id: fd.Id}
	case "goaway":
		return &bfe_spdy.GoAwayFrame{LastGoodStreamId: bfe_spdy.StreamId(fd.StreamId), Status: bfe_spdy.GoAwayStatus(fd.Status)}
	case "window_update":
		return &bfe_spdy.WindowUpdateFrame{StreamId: bfe_spdy.StreamId(fd.StreamId), DeltaWindowSize: fd.Delta}
	case "data":
		return &bfe_spdy.DataFrame{StreamId: bfe_spdy.StreamId(fd.StreamId), Flags: bfe_spdy.DataFlags(fd.Flags), Data: fd.Data}
	}
	return nil
}

// expected control flags after the round trip: the writer passes the caller's
// flags through for frames that have flags in SPDY/3 and forces 0 otherwise.
func (fd *fdesc) wantFlags() uint8 {
	switch fd.Type {
	case "syn_stream", "syn_reply", "headers", "settings", "data":
		return fd.Flags
	}
	return 0
}

// c39HeadersEqual compares written headers with the headers read back at the
// SPDY level: one (name, NUL-joined value) pair per name; names compare under
// Unicode case folding because SPDY names are lower-cased on the wire and
// bfe's Header.Add canonicalises the key.
func c39HeadersEqual(want []hdesc, got http.Header) string {
	if len(want) != len(got) {
		return fmt.Sprintf("%d names written, %d read back", len(want), len(got))
	}
	byLower := make(map[string]string, len(got))
	for name := range got {
		byLower[strings.ToLower(name)] = name
	}
	used := make(map[string]bool, len(got))
	for _, w := range want {
		name, found := byLower[strings.ToLower(string(w.Name))]
		if !found || used[name] {
			found = false
			for n := range got { // slow path: any name equal under case folding
				if !used[n] && strings.EqualFold(n, string(w.Name)) {
					name, found = n, true
					break
				}
			}
		}
		if !found {
			return fmt.Sprintf("name %q not read back", w.Name)
		}
		used[name] = true
		wj := string(bytes.Join(w.Values, []byte{0}))
		gj := strings.Join(got[name], "\x00")
		if wj != gj {
			return fmt.Sprintf("value of %q differs (%d vs %d bytes)", w.Name, len(wj), len(gj))
		}
	}
	return ""
}

// c39Compare returns "" when the frame read back carries the fields of fd.
func c39Compare(fd *fdesc, written, got bfe_spdy.Frame) string {
	cfs := func(h bfe_spdy.ControlFrameHeader) string { return fmt.Sprintf("%+v", h) }
	neq := func(name string, a, b interface{}) string {
		return fmt.Sprintf("field %s: wrote %v read %v", name, a, b)
	}
	switch g := got.(type) {
	case *bfe_spdy.SynStreamFrame:
		w, ok := written.(*bfe_spdy.SynStreamFrame)
		if !ok {
			return "frame type differs"
		}
		switch {
		case cfs(w.CFHeader) != cfs(g.CFHeader):
			return neq("CFHeader", cfs(w.CFHeader), cfs(g.CFHeader))
		case uint8(g.CFHeader.Flags) != fd.wantFlags():
			return neq("Flags", fd.wantFlags(), g.CFHeader.Flags)
		case uint32(g.StreamId) != fd.StreamId:
			return neq("StreamId", fd.StreamId, g.StreamId)
		case uint32(g.AssociatedToStreamId) != fd.Assoc:
			return neq("AssociatedToStreamId", fd.Assoc, g.AssociatedToStreamId)
		case g.Priority != fd.Priority:
			return neq("Priority", fd.Priority, g.Priority)
		case g.Slot != fd.Slot:
			return neq("Slot", fd.Slot, g.Slot)
		}
		if d := c39HeadersEqual(fd.Headers, g.Headers); d != "" {
			return "headers: " + d
		}
	case *bfe_spdy.SynReplyFrame:
		w, ok := written.(*bfe_spdy.SynReplyFrame)
		if !ok {
			return "frame type differs"
		}
		switch {
		case cfs(w.CFHeader) != cfs(g.CFHeader):
			return neq("CFHeader", cfs(w.CFHeader), cfs(g.CFHeader))
		case uint32(g.StreamId) != fd.StreamId:
			return neq("StreamId", fd.StreamId, g.StreamId)
		}
		if d := c39HeadersEqual(fd.Headers, g.Headers); d != "" {
			return "headers: " + d
		}
	case *bfe_spdy.HeadersFrame:
		w, ok := written.(*bfe_spdy.HeadersFrame)
		if !ok {
			return "frame type differs"
		}
		switch {
		case cfs(w.CFHeader) != cfs(g.CFHeader):
			return neq("CFHeader", cfs(w.CFHeader), cfs(g.CFHeader))
		case uint32(g.StreamId) != fd.StreamId:
			return neq("StreamId", fd.StreamId, g.StreamId)
		}
		if d := c39HeadersEqual(fd.Headers, g.Headers); d != "" {
			return "headers: " + d
		}
	case *bfe_spdy.RstStreamFrame:
		w, ok := written.(*bfe_spdy.RstStreamFrame)
		if !ok {
			return "frame type differs"
		}
		switch {
		case cfs(w.CFHeader) != cfs(g.CFHeader):
			return neq("CFHeader", cfs(w.CFHeader), cfs(g.CFHeader))
		case uint32(g.StreamId) != fd.StreamId:
			return neq("StreamId", fd.StreamId, g.StreamId)
		case uint32(g.Status) != fd.Status:
			return neq("Status", fd.Status, g.Status)
		}
	case *bfe_spdy.SettingsFrame:
		w, ok := written.(*bfe_spdy.SettingsFrame)
		if !ok {
			return "frame type differs"
		}
		if cfs(w.CFHeader) != cfs(g.CFHeader) {
			return neq("CFHeader", cfs(w.CFHeader), cfs(g.CFHeader))
		}
		if len(g.FlagIdValues) != len(fd.Settings) {
			return neq("len(FlagIdValues)", len(fd.Settings), len(g.FlagIdValues))
		}
		for i, s := range fd.Settings {
			x := g.FlagIdValues[i]
			if uint32(x.Flag) != s[0] || uint32(x.Id) != s[1] || x.Value != s[2] {
				return neq(fmt.Sprintf("FlagIdValues[%d]", i), s, x)
			}
		}
	case *bfe_spdy.PingFrame:
		w, ok := written.(*bfe_spdy.PingFrame)
		if !ok {
			return "frame type differs"
		}
		switch {
		case cfs(w.CFHeader) != cfs(g.CFHeader):
			return neq("CFHeader", cfs(w.CFHeader), cfs(g.CFHeader))
		case g.Id != fd.Id:
			return neq("Id", fd.Id, g.Id)
		}
	case *bfe_spdy.GoAwayFrame:
		w, ok := written.(*bfe_spdy.GoAwayFrame)
		if !ok {
			return "frame type differs"
		}
		switch {
		case cfs(w.CFHeader) != cfs(g.CFHeader):
			return neq("CFHeader", cfs(w.CFHeader), cfs(g.CFHeader))
		case uint32(g.LastGoodStreamId) != fd.StreamId:
			return neq("LastGoodStreamId", fd.StreamId, g.LastGoodStreamId)
		case uint32(g.Status) != fd.Status:
			return neq("Status", fd.Status, g.Status)
		}
	case *bfe_spdy.WindowUpdateFrame:
		w, ok := written.(*bfe_spdy.WindowUpdateFrame)
		if !ok {
			return "frame type differs"
		}
		switch {
		case cfs(w.CFHeader) != cfs(g.CFHeader):
			return neq("CFHeader", cfs(w.CFHeader), cfs(g.CFHeader))
		case uint32(g.StreamId) != fd.StreamId:
			return neq("StreamId", fd.StreamId, g.StreamId)
		case g.DeltaWindowSize != fd.Delta:
			return neq("DeltaWindowSize", fd.Delta, g.DeltaWindowSize)
		}
	case *bfe_spdy.DataFrame:
		if _, ok := written.(*bfe_spdy.DataFrame); !ok {
			return "frame type differs"
		}
		switch {
		case uint32(g.StreamId) != fd.StreamId:
			return neq("StreamId", fd.StreamId, g.StreamId)
		case uint8(g.Flags) != fd.Flags:
			return neq("Flags", fd.Flags, g.Flags)
		case !bytes.Equal(g.Data, fd.Data):
			return neq("len(Data)", len(fd.Data), len(g.Data))
		}
	default:
		return fmt.Sprintf("unexpected frame %T", got)
	}
	return ""
}

// ---------------------------------------------------------------- byte source

// c39Src hands a byte string to the framer whole, in random chunks or byte by
// byte, and counts what the framer consumed.
type c39Src struct {
	data []byte
	pos  int
	mode int // 0 whole, 1 random chunks, 2 one byte
	g    *vkit.Rand
}

func (s *c39Src) Read(p []byte) (int, error) {
	if len(p) == 0 {
		return 0, nil
	}
	if s.pos >= len(s.data) {
		return 0, io.EOF
	}
	n := len(p)
	if rem := len(s.data) - s.pos; n > rem {
		n = rem
	}
	switch s.mode {
	case 1:
		if k := 1 + s.g.Intn(97); n > k {
			n = k
		}
	case 2:
		n = 1
	}
	copy(p, s.data[s.pos:s.pos+n])
	s.pos += n
	return n, nil
}

var c39Modes = []string{"whole", "chunks", "one-byte"}

// ---------------------------------------------------------------- generators

var c39Forbidden = []string{"connection", "host", "keep-alive", "proxy-connection", "transfer-encoding"}

// Names whose Unicode lower-casing has a different byte length. A reader that
// is handed such a frame by today's writer sees a length prefix that disagrees
// with the bytes and goes on to interpret content bytes as lengths. With the
// shrinking names (and one short value, nothing after it) the bogus length is
// at most 2^24 and exceeds what is left, so the read ends with an error; these
// run in-process. With the growing names the bogus length is 2^31-scale:
// those sequences are read in a child under ulimit -v (phase 5).
var c39Shrinking = []string{"x-\u212a", "\u2126m", "\u1e9e-x", "\u212a"} // KELVIN SIGN 3->1, OHM SIGN 3->2, CAPITAL SHARP S 3->2

// I WITH DOT ABOVE 2->3, A WITH STROKE 2->3, invalid UTF-8 1->3
var c39Growing = []string{"\u0130", "x-\u023a", "caf\xe9", "\xff", "x\xc3", "\u0130stanbul"}

func c39LowerChangesLen(name []byte) bool {
	return len(strings.ToLower(string(name))) != len(name)
}

func c39Name(g *vkit.Rand, lenChanging bool) []byte {
	if lenChanging {
		return []byte(g.PickS(c39Shrinking))
	}
	tok := func(alpha string, n int) string {
		b := make([]byte, n)
		for i := range b {
			b[i] = alpha[g.Intn(len(alpha))]
		}
		return string(b)
	}
	for {
		var s string
		switch g.Intn(12) {
		case 0, 1, 2:
			s = tok("abcdefghijklmnopqrstuvwxyz0123456789-", 1+g.Intn(12))
		case 3, 4:
			s = tok("ABCDEFGHIJKLMNOPQRSTUVWXYZabcdefghijklmnopqrstuvwxyz-", 1+g.Intn(12))
		case 5:
			s = g.PickS([]string{":path", ":method", ":host", ":version", ":scheme", ":status", "content-type", "Content-Length", "accept-encoding", "USER-AGENT", "cookie", "set-cookie", "x-forwarded-for"})
		case 6:
			s = g.PickS([]string{"é", "x-été", "ключ", "名前", "naïve-ü"}) // lower case, non-ASCII
		case 7:
			s = g.PickS([]string{"É", "X-ÉTÉ", "КЛЮЧ", "ÜBER", "Δelta"}) // upper case, same length lower
		case 8:
			s = tok("abc XYZ\t!#$%&'*+.^_`|~()<>@,;:\\\"/[]?={}", 1+g.Intn(8))
		case 9:
			s = tok("abcdefghijklmnopqrstuvwxyz", 200+g.Intn(400))
		case 10:
			s = tok("ab\x01\x7f", 1+g.Intn(5)) + "\x00" + tok("yz", 1)
		default:
			s = tok("abcdefghijklmnopqrstuvwxyz-", 1+g.Intn(30))
		}
		if c39LowerChangesLen([]byte(s)) {
			continue
		}
		bad := false
		for _, f := range c39Forbidden {
			if strings.EqualFold(f, s) {
				bad = true
			}
		}
		if !bad {
			return []byte(s)
		}
	}
}

func c39Value(g *vkit.Rand) []byte {
	switch g.Intn(10) {
	case 0:
		return []byte{}
	case 1:
		return g.Bytes(1 + g.Intn(40)) // arbitrary bytes, NULs included
	case 2:
		return []byte("a\x00b")
	case 3:
		return []byte(strings.Repeat("v", 100+g.Intn(3000)))
	case 4:
		return g.Bytes(200 + g.Intn(2000))
	default:
		const alpha = "abcdefghijklmnopqrstuvwxyzABCDEFGHIJKLMNOPQRSTUVWXYZ0123456789 /;=,.-_"
		b := make([]byte, 1+g.Intn(40))
		for i := range b {
			b[i] = alpha[g.Intn(len(alpha))]
		}
		return b
	}
}

func c39Headers(g *vkit.Rand) []hdesc {
	n := g.Intn(9)
	switch g.Intn(300) {
	case 0:
		n = 1024
	case 1, 2, 3:
		n = 60 + g.Intn(200)
	}
	var hs []hdesc
	seen := map[string]bool{}
	add := func(name []byte) {
		// distinct under case folding: ToLower(ToUpper(x)) is a fold key for the generated alphabets
		key := strings.ToLower(strings.ToUpper(string(name)))
		if seen[key] {
			return
		}
		seen[key] = true
		hd := hdesc{Name: name}
		k := 1
		if g.Chance(1, 4) {
			k = g.Intn(4) // 0 values = empty value on the wire
		}
		for i := 0; i < k; i++ {
			v := c39Value(g)
			if n > 50 && len(v) > 40 {
				v = v[:40]
			}
			if string(name) == ":path" && len(v) > 4000 {
				v = v[:4000]
			}
			hd.Values = append(hd.Values, v)
		}
		hs = append(hs, hd)
	}
	for i := 0; i < n; i++ {
		if n > 50 {
			add([]byte(fmt.Sprintf("h%d-%s", i, c39Name(g, false))))
		} else {
			add(c39Name(g, false))
		}
	}
	return hs
}

func c39Sid(g *vkit.Rand) uint32 {
	switch g.Intn(6) {
	case 0:
		return 1
	case 1:
		return 0x7fffffff
	case 2:
		return uint32(2 + g.Intn(200))
	}
	return 1 + uint32(g.Intn(0x7fffffff))
}

var c39Types = []string{"syn_stream", "syn_reply", "headers", "rst_stream", "settings", "ping", "goaway", "window_update", "data"}

// c39LenChangingFrame is a header frame whose only header has the given name
// and one short non-empty value.
func c39LenChangingFrame(g *vkit.Rand, name string) fdesc {
	fd := fdesc{Type: c39Types[g.Intn(3)], StreamId: c39Sid(g), Priority: uint8(g.Intn(8))}
	v := []byte(strings.Repeat("w", 1+g.Intn(4))) // short: bounds the bogus length a desynchronised reader sees
	fd.Headers = []hdesc{{Name: []byte(name), Values: [][]byte{v}}}
	return fd
}

func c39Frame(g *vkit.Rand, lenChanging bool) fdesc {
	if lenChanging {
		return c39LenChangingFrame(g, g.PickS(c39Shrinking))
	}
	t := c39Types[g.Intn(len(c39Types))]
	if g.Chance(1, 3) {
		t = c39Types[g.Intn(3)]
	}
	fd := fdesc{Type: t}
	switch t {
	case "syn_stream":
		fd.StreamId, fd.Assoc = c39Sid(g), uint32(g.Intn(3))*uint32(g.Intn(0x7fffffff))
		if fd.Assoc > 0x7fffffff {
			fd.Assoc = 0x7fffffff
		}
		fd.Priority, fd.Slot, fd.Flags = uint8(g.Intn(8)), uint8(g.Intn(256)), uint8(g.Intn(4))
		if g.Chance(1, 8) {
			fd.Flags = uint8(g.Intn(256))
		}
		fd.Headers = c39Headers(g)
	case "syn_reply", "headers":
		fd.StreamId, fd.Flags = c39Sid(g), uint8(g.Intn(2))
		if g.Chance(1, 8) {
			fd.Flags = uint8(g.Intn(256))
		}
		fd.Headers = c39Headers(g)
	case "rst_stream":
		fd.StreamId, fd.Status = c39Sid(g), 1+uint32(g.Intn(11))
		if g.Chance(1, 5) {
			fd.Status = 1 + uint32(g.U64()%0xffffffff)
		}
	case "settings":
		fd.Flags = uint8(g.Intn(2))
		n := g.Intn(9)
		if g.Chance(1, 30) {
			n = 1024
		}
		for i := 0; i < n; i++ {
			fd.Settings = append(fd.Settings, [3]uint32{uint32(g.Intn(256)), uint32(g.Intn(1 << 24)), uint32(g.U64())})
		}
	case "ping":
		fd.Id = 1 + uint32(g.U64()%0xffffffff)
	case "goaway":
		fd.StreamId, fd.Status = uint32(g.Intn(2))*c39Sid(g), uint32(g.Intn(3))
		if g.Chance(1, 5) {
			fd.Status = uint32(g.U64())
		}
	case "window_update":
		fd.StreamId, fd.Delta = uint32(g.Intn(2))*c39Sid(g), uint32(g.Intn(0x80000000))
	case "data":
		fd.StreamId, fd.Flags = c39Sid(g), uint8(g.Intn(2))
		n := g.Intn(200)
		if g.Chance(1, 20) {
			n = 5000 + g.Intn(70000)
		}
		fd.Data = g.Bytes(n)
	}
	return fd
}

// ---------------------------------------------------------------- round trip

type c39RT struct {
	Frames    []fdesc `json:"frames"`
	Delivery  int     `json:"delivery"`
	ChunkSeed uint64  `json:"chunk_seed"`
	Class     string  `json:"class"`
}

type c39Stats struct {
	rtSeq, rtFrames, rtHeaderFrames, rtLenChangingSeq int64
	hostileStreams, hostileFramesOK, hostileErrors    int64
	allocMeasured, allocMaxPermille, allocMaxValid    int64
	synShort, synShortErr                             int64
	childCases, childOOM                              int64
}

func c39HasLenChanging(fs []fdesc) bool {
	for _, f := range fs {
		for _, h := range f.Headers {
			if c39LowerChangesLen(h.Name) {
				return true
			}
		}
	}
	return false
}

func c39ErrSig(err error) string {
	s := err.Error()
	if len(s) > 48 {
		s = s[:48]
	}
	return strings.ReplaceAll(s, " ", "-")
}

// c39RoundTrip writes the sequence through one Framer and reads it back
// through another (one zlib context each way, shared by all frames).
func c39RoundTrip(r *vkit.Run, st *c39Stats, w *c39RT) (wire []byte, ends []int) {
	desc := func() interface{} { return w }
	var buf bytes.Buffer
	wf, err := bfe_spdy.NewFramer(&buf, nil)
	if err != nil {
		r.Inconclusive("NewFramer: " + err.Error())
		return nil, nil
	}
	defer wf.ReleaseWriter()
	written := make([]bfe_spdy.Frame, len(w.Frames))
	ends = make([]int, len(w.Frames))
	for i := range w.Frames {
		f := w.Frames[i].build()
		var werr error
		if r.Try(desc, func() { werr = wf.WriteFrame(f) }) {
			return nil, nil
		}
		if werr != nil {
			r.Violation("write:"+w.Frames[i].Type+":valid-frame-refused:"+c39ErrSig(werr),
				fmt.Sprintf("WriteFrame(#%d %s) = %v", i, w.Frames[i].Type, werr), w)
			return nil, nil
		}
		written[i] = f
		ends[i] = buf.Len()
	}
	wire = append([]byte{}, buf.Bytes()...)
	src := &c39Src{data: wire, mode: w.Delivery, g: vkit.NewRand(w.ChunkSeed)}
	rf, err := bfe_spdy.NewFramer(io.Discard, src)
	if err != nil {
		r.Inconclusive("NewFramer: " + err.Error())
		return wire, ends
	}
	defer rf.ReleaseWriter()
	fail := func(i int, shape, what string) {
		sig := "roundtrip:" + w.Frames[i].Type + ":" + shape
		if c39HasLenChanging(w.Frames[:i+1]) {
			// the only frames whose name length on the wire can disagree with the bytes written
			sig = "roundtrip:name-lowercasing-changes-byte-length"
		}
		r.Violation(sig, fmt.Sprintf("frame #%d (%s), delivery %s: %s", i, w.Frames[i].Type, c39Modes[w.Delivery], what), w)
	}
	for i := range w.Frames {
		var got bfe_spdy.Frame
		var rerr error
		if r.Try(desc, func() { got, rerr = rf.ReadFrame() }) {
			return wire, ends
		}
		if rerr != nil {
			fail(i, "read-error:"+c39ErrSig(rerr), "ReadFrame error: "+rerr.Error())
			return wire, ends
		}
		if d := c39Compare(&w.Frames[i], written[i], got); d != "" {
			shape := "fields"
			if strings.HasPrefix(d, "headers") {
				shape = "headers"
			}
			fail(i, shape, d)
			return wire, ends
		}
		if src.pos != ends[i] {
			fail(i, "boundary", fmt.Sprintf("reader stands at byte %d, frame ends at %d", src.pos, ends[i]))
			return wire, ends
		}
		atomic.AddInt64(&st.rtFrames, 1)
		if len(w.Frames[i].Headers) > 0 {
			atomic.AddInt64(&st.rtHeaderFrames, 1)
		}
	}
	var got bfe_spdy.Frame
	var rerr error
	if r.Try(desc, func() { got, rerr = rf.ReadFrame() }) {
		return wire, ends
	}
	if rerr != io.EOF || got != nil {
		fail(len(w.Frames)-1, "trailing", fmt.Sprintf("after the last frame ReadFrame = (%T, %v), want (nil, EOF)", got, rerr))
	}
	return wire, ends
}

func c39GenRT(g *vkit.Rand, i int) *c39RT {
	w := &c39RT{Delivery: g.Intn(3), ChunkSeed: g.U64(), Class: "mixed"}
	switch {
	case i%20 == 7:
		// the only class with names whose lower-casing changes the byte length
		w.Class = "len-changing-name"
		n := 1 + g.Intn(3)
		for j := 0; j < n; j++ {
			w.Frames = append(w.Frames, c39Frame(g, j == n-1)) // nothing may follow it, see c39Shrinking
		}
	case i%20 == 13:
		// one incompressible value whose size sweeps so that the compressed
		// block ends at every offset relative to the inflater's 4096-byte reads
		w.Class = "size-sweep"
		size := 3500 + (i/20)%9000
		fd := fdesc{Type: c39Types[g.Intn(3)], StreamId: c39Sid(g)}
		fd.Headers = []hdesc{{Name: []byte("x-blob"), Values: [][]byte{g.Bytes(size)}}}
		w.Frames = append(w.Frames, fd, c39Frame(g, false), c39Frame(g, false))
	default:
		n := 1 + g.Intn(8)
		for j := 0; j < n; j++ {
			w.Frames = append(w.Frames, c39Frame(g, false))
		}
	}
	return w
}

// ---------------------------------------------------------------- hostile streams

// c39Stored wraps content into non-final stored deflate blocks followed by an
// empty stored block (what a sync flush emits). No dictionary reference is
// possible in stored blocks; zhdr is the 6-byte zlib header (CMF, FLG with
// FDICT, DICTID) which starts the stream on the first header block only.
func c39Stored(content []byte, zhdr []byte) []byte {
	out := append([]byte{}, zhdr...)
	for len(content) > 0 {
		n := len(content)
		if n > 65535 {
			n = 65535
		}
		out = append(out, 0x00, byte(n), byte(n>>8), ^byte(n), ^byte(n>>8))
		out = append(out, content[:n]...)
		content = content[n:]
	}
	return append(out, 0x00, 0x00, 0x00, 0xff, 0xff)
}

// c39ZlibHeader learns the 6-byte zlib stream header (with the SPDY/3
// dictionary id) from the first header block bfe's own writer emits.
func c39ZlibHeader() ([]byte, error) {
	var buf bytes.Buffer
	f, err := bfe_spdy.NewFramer(&buf, nil)
	if err != nil {
		return nil, err
	}
	defer f.ReleaseWriter()
	if err := f.WriteFrame(&bfe_spdy.SynReplyFrame{StreamId: 1, Headers: http.Header{"a": {"b"}}}); err != nil {
		return nil, err
	}
	b := buf.Bytes()
	if len(b) < 18 || b[13]&0x20 == 0 {
		return nil, fmt.Errorf("writer's header block does not start with a zlib FDICT header: % x", b)
	}
	return append([]byte{}, b[12:18]...), nil
}

func be32(v uint32) []byte { return []byte{byte(v >> 24), byte(v >> 16), byte(v >> 8), byte(v)} }

// c39Block builds the decompressed content of a header block. giant bounds
// the largest length a field may announce beyond what is present. shape tells
// which field (if any) announces more than is present.
func c39Block(g *vkit.Rand, giant uint32, valid bool) (content []byte, shape string, announce uint32) {
	k := g.Intn(5)
	num := uint32(k)
	if !valid {
		switch g.Intn(12) {
		case 0:
			num = uint32(k + 1)
		case 1:
			num = 1024
		case 2:
			num = 1025
		case 3:
			num = 0xffffffff
		case 4:
			num = 0x80000000
		}
	}
	content = be32(num)
	names := map[string]bool{}
	for i := 0; i < k; i++ {
		var name []byte
		for {
			name = bytes.ToLower(c39Name(g, false))
			if len(name) > 60 {
				name = name[:60]
			}
			if valid && (names[string(name)] || string(name) != strings.ToLower(string(name))) {
				continue
			}
			break
		}
		if !valid {
			switch g.Intn(10) {
			case 0:
				name = bytes.ToUpper(name)
			case 1:
				name = []byte{}
			case 2:
				name = []byte(g.PickS(c39Forbidden))
			case 3:
				for n := range names {
					name = []byte(n)
					break
				}
			}
		}
		names[string(name)] = true
		val := c39Value(g)
		if len(val) > 300 {
			val = val[:300]
		}
		nl, vl := uint32(len(name)), uint32(len(val))
		if !valid && shape == "" && g.Chance(1, 4) {
			over := uint32(1)
			switch g.Intn(4) {
			case 0:
				over = 1 + uint32(g.Intn(8))
			case 1:
				over = giant
			case 2:
				over = giant/2 + uint32(g.Intn(int(giant/2)+1))
			case 3:
				over = uint32(g.Intn(70000))
			}
			announce = over
			if g.Bool() {
				nl += over
				shape = "name-length"
			} else {
				vl += over
				shape = "value-length"
			}
		}
		content = append(content, be32(nl)...)
		content = append(content, name...)
		if shape == "name-length" {
			return content, shape, announce
		}
		content = append(content, be32(vl)...)
		content = append(content, val...)
		if shape == "value-length" {
			return content, shape, announce
		}
	}
	if !valid && g.Chance(1, 6) && len(content) > 4 {
		content = content[:4+g.Intn(len(content)-4)]
	}
	if !valid && num > uint32(k) && shape == "" {
		shape = "num-headers"
	}
	return content, shape, announce
}

type c39HFrame struct {
	Bytes    []byte `json:"bytes"`
	Kind     string `json:"kind"`
	Shape    string `json:"shape,omitempty"`    // oversized field of a crafted header block
	Announce uint32 `json:"announce,omitempty"` // largest length announced beyond the data present
}

type c39Hostile struct {
	Stream   []byte      `json:"stream"`
	Frames   []c39HFrame `json:"frames,omitempty"` // how the stream was put together (informative)
	Delivery int         `json:"delivery"`
	Seed     uint64      `json:"chunk_seed"`
	Origin   string      `json:"origin"`
}

func c39Ctl(typ uint16, flags uint8, length uint32, payload []byte) []byte {
	b := []byte{0x80, 0x03, byte(typ >> 8), byte(typ), flags, byte(length >> 16), byte(length >> 8), byte(length)}
	return append(b, payload...)
}

// c39CraftFrame produces one hostile or valid frame. zfirst tells whether the
// zlib header still has to be sent on this stream.
func c39CraftFrame(g *vkit.Rand, zhdr []byte, zfirst *bool, giant uint32) c39HFrame {
	switch g.Intn(10) {
	case 0, 1, 2, 3: // header-bearing control frame with a crafted block
		valid := g.Chance(1, 3)
		content, shape, ann := c39Block(g, giant, valid)
		var z []byte
		if *zfirst {
			z = zhdr
			*zfirst = false
		}
		comp := c39Stored(content, z)
		typ := uint16([]int{1, 2, 8}[g.Intn(3)])
		sid := c39Sid(g)
		if !valid && g.Chance(1, 10) {
			sid = 0
		}
		fixed := be32(sid)
		if typ == 1 {
			fixed = append(fixed, be32(uint32(g.Intn(2))*c39Sid(g))...)
			fixed = append(fixed, byte(g.Intn(8)<<5), byte(g.Intn(256)))
		}
		payload := append(fixed, comp...)
		length := uint32(len(payload))
		kind := "hdr-valid"
		if !valid {
			kind = "hdr-hostile"
			switch g.Intn(12) {
			case 0:
				length--
				kind = "hdr-length-1"
			case 1:
				length++
				kind = "hdr-length+1"
			case 2:
				length = uint32(g.Intn(10)) // below the fixed part: h.length-10 / h.length-4 wrap
				kind = "hdr-length-below-fixed-part"
			case 3:
				length = uint32(g.Intn(1 << 24))
				kind = "hdr-length-random"
			}
		}
		return c39HFrame{Bytes: c39Ctl(typ, uint8(g.Intn(4)), length, payload), Kind: kind, Shape: shape, Announce: ann}
	case 4, 5: // fixed-size control frames with every small declared length
		typ := uint16([]int{3, 6, 7, 9, 4}[g.Intn(5)])
		var payload []byte
		natural := 8
		switch typ {
		case 3:
			payload = append(be32(c39Sid(g)), be32(uint32(g.Intn(12)))...)
		case 6:
			payload = be32(uint32(g.Intn(5)))
			natural = 4
		case 7:
			payload = append(be32(c39Sid(g)), be32(uint32(g.Intn(3)))...)
		case 9:
			payload = append(be32(c39Sid(g)), be32(uint32(g.U64()))...)
		case 4:
			n := g.Intn(4)
			announced := uint32(n)
			if g.Chance(1, 4) {
				announced = []uint32{0, 1, 1024, 1025, 0xffffffff, uint32(n + 1)}[g.Intn(6)]
			}
			payload = be32(announced)
			for i := 0; i < n; i++ {
				payload = append(payload, g.Bytes(8)...)
			}
			natural = len(payload)
		}
		length := uint32(natural)
		kind := fmt.Sprintf("ctl%d-valid-length", typ)
		if g.Chance(1, 2) {
			length = uint32(g.Intn(21))
			extra := int(length) - natural
			if extra > 0 {
				payload = append(payload, g.Bytes(extra)...) // the bytes the declared length covers
			}
			if int(length) != natural {
				kind = fmt.Sprintf("ctl%d-declared-length-%+d", typ, int(length)-natural)
			}
		}
		return c39HFrame{Bytes: c39Ctl(typ, uint8(g.Intn(2)*g.Intn(256)), length, payload), Kind: kind}
	case 6: // data frame
		n := g.Intn(64)
		declared := uint32(n)
		kind := "data"
		if g.Chance(1, 4) {
			declared = uint32(g.Intn(1 << 16))
			kind = "data-length-mismatch"
		}
		sid := uint32(g.Intn(4)) * c39Sid(g) & 0x7fffffff
		b := append(be32(sid), byte(g.Intn(2)), byte(declared>>16), byte(declared>>8), byte(declared))
		return c39HFrame{Bytes: append(b, g.Bytes(n)...), Kind: kind}
	case 7: // unknown type / other version
		typ := uint16(g.Intn(16))
		if g.Bool() {
			typ = uint16(g.Intn(65536))
		}
		n := g.Intn(24)
		b := c39Ctl(typ, uint8(g.Intn(256)), uint32(n), g.Bytes(n))
		if g.Bool() {
			b[1] = byte(g.Intn(256))
		}
		return c39HFrame{Bytes: b, Kind: "ctl-unknown"}
	case 8:
		b := g.Bytes(g.Intn(40))
		if len(b) > 5 && !g.Chance(1, 8) {
			b[5] = 0 // as a data frame it would otherwise announce (and get) ~8 MiB: allowed by the bound, but slow
		}
		return c39HFrame{Bytes: b, Kind: "random"}
	default: // valid ping: a sentinel whose boundary must survive
		return c39HFrame{Bytes: c39Ctl(6, 0, 4, be32(1+uint32(g.Intn(1000)))), Kind: "ping"}
	}
}

func c39GenHostile(g *vkit.Rand, zhdr []byte, giant uint32) *c39Hostile {
	h := &c39Hostile{Delivery: g.Intn(3), Seed: g.U64(), Origin: "crafted"}
	zfirst := true
	n := 1 + g.Intn(4)
	for i := 0; i < n; i++ {
		f := c39CraftFrame(g, zhdr, &zfirst, giant)
		h.Frames = append(h.Frames, f)
		h.Stream = append(h.Stream, f.Bytes...)
		switch f.Kind {
		case "hdr-length+1", "hdr-length-random", "hdr-length-below-fixed-part":
			// The declared length lets the inflater run past this frame. Whatever
			// followed would be inflated as if it were compressed data and its
			// output taken for length prefixes of unpredictable size (up to 4 GiB
			// each, on every worker): such a frame ends the stream.
			return h
		}
	}
	ping := c39Ctl(6, 0, 4, be32(77))
	h.Frames = append(h.Frames, c39HFrame{Bytes: ping, Kind: "ping"})
	h.Stream = append(h.Stream, ping...)
	return h
}

// c39Mutate damages the wire bytes of a written sequence. Bytes inside a
// compressed header block are never altered and the top byte of a frame
// length stays 0: what those decode to cannot be bounded beforehand, and this
// runs on 16 goroutines (crafted blocks cover hostile header content with
// controlled announcements; a truncated block is safe because it inflates to a
// prefix of the genuine content).
func c39Mutate(g *vkit.Rand, wire []byte, frames []fdesc, ends []int) []byte {
	b := append([]byte{}, wire...)
	if len(b) == 0 {
		return b
	}
	// insert: may bytes be inserted before p / may the byte at p change?
	allowed := func(p int, insert bool) bool {
		start := 0
		for i, e := range ends {
			if p < e {
				off := p - start
				hdr := 0
				switch frames[i].Type {
				case "syn_stream":
					hdr = 18
				case "syn_reply", "headers":
					hdr = 12
				}
				if hdr > 0 {
					if insert {
						return off == 0 // never shift a compressed block
					}
					// not the type (would move the start of the compressed block), not the top length byte
					return off < hdr && off != 2 && off != 3 && off != 5
				}
				return off != 5
			}
			start = e
		}
		return false
	}
	switch g.Intn(30) {
	case 0, 1, 2, 3, 4, 5:
		return b[:g.Intn(len(b))]
	case 6:
		i := g.Intn(len(b))
		if !allowed(i, true) {
			return b[:i]
		}
		return append(b[:i:i], append(g.Bytes(1+g.Intn(4)), wire[i:]...)...)
	}
	for k := 1 + g.Intn(3); k > 0; k-- {
		i := g.Intn(len(b))
		for tries := 0; tries < 20 && !allowed(i, false); tries++ {
			i = g.Intn(len(b))
		}
		if !allowed(i, false) {
			return b[:i]
		}
		switch g.Intn(4) {
		case 0:
			b[i] ^= 1 << uint(g.Intn(8))
		case 1:
			b[i]++
		case 2:
			b[i]--
		case 3:
			b[i] = byte(g.Intn(256))
		}
	}
	return b
}

func c39TypeName(b []byte) string {
	if len(b) < 4 {
		return "short"
	}
	if b[0]&0x80 == 0 {
		return "data"
	}
	switch binary.BigEndian.Uint16(b[2:4]) {
	case 1:
		return "syn_stream"
	case 2:
		return "syn_reply"
	case 3:
		return "rst_stream"
	case 4:
		return "settings"
	case 6:
		return "ping"
	case 7:
		return "goaway"
	case 8:
		return "headers"
	case 9:
		return "window_update"
	}
	return "unknown"
}

const (
	c39AllocC     = 4
	c39AllocSlack = 64 << 10
)

func c39AllocLimit(declared uint32) uint64 {
	return c39AllocC * (uint64(declared)*1032 + c39AllocSlack)
}

// c39FrameAt finds the crafted frame that covers offset off.
func c39FrameAt(h *c39Hostile, off int) *c39HFrame {
	p := 0
	for i := range h.Frames {
		if off >= p && off < p+len(h.Frames[i].Bytes) {
			return &h.Frames[i]
		}
		p += len(h.Frames[i].Bytes)
	}
	return nil
}

// c39ReadHostile feeds one byte stream to a fresh Framer until it reports an
// error. For every frame returned successfully the reader must stand exactly
// at 8 + declared length past the start of that frame. With measure set (only
// from the single-goroutine phase) the bytes allocated by each ReadFrame call
// are bounded by c39AllocLimit(declared length).
func c39ReadHostile(r *vkit.Run, st *c39Stats, h *c39Hostile, measure bool) {
	desc := func() interface{} { return h }
	src := &c39Src{data: h.Stream, mode: h.Delivery, g: vkit.NewRand(h.Seed)}
	rf, err := bfe_spdy.NewFramer(io.Discard, src)
	if err != nil {
		r.Inconclusive("NewFramer: " + err.Error())
		return
	}
	defer rf.ReleaseWriter()
	atomic.AddInt64(&st.hostileStreams, 1)
	var ms0, ms1 runtime.MemStats
	for n := 0; n < 64; n++ {
		start := src.pos
		declared := uint32(0)
		if start+8 <= len(h.Stream) {
			declared = binary.BigEndian.Uint32(h.Stream[start+4:start+8]) & 0xffffff
		}
		tname := c39TypeName(h.Stream[start:])
		var f bfe_spdy.Frame
		var rerr error
		if measure {
			runtime.ReadMemStats(&ms0)
		}
		if r.Try(desc, func() { f, rerr = rf.ReadFrame() }) {
			return
		}
		if measure {
			runtime.ReadMemStats(&ms1)
			delta := ms1.TotalAlloc - ms0.TotalAlloc
			limit := c39AllocLimit(declared)
			st.allocMeasured++
			if pm := int64(delta * 1000 / limit); delta <= limit {
				if pm > st.allocMaxPermille {
					st.allocMaxPermille = pm
				}
				if pm > st.allocMaxValid && h.Origin == "valid-written" {
					st.allocMaxValid = pm
				}
			}
			if delta > limit {
				shape := "unjustified:" + tname
				if cf := c39FrameAt(h, start); cf != nil && cf.Shape != "" {
					shape = "header-" + cf.Shape + "-unbounded"
				}
				r.Violation("alloc:"+shape,
					fmt.Sprintf("one ReadFrame on a %s frame declaring %d bytes allocated %d bytes (limit %d = %d*(len*1032+64KiB)); result err=%v",
						tname, declared, delta, limit, c39AllocC, rerr), h)
			}
		}
		if (tname == "syn_stream" && declared < 10) || ((tname == "syn_reply" || tname == "headers") && declared < 4) {
			atomic.AddInt64(&st.synShort, 1)
			if rerr != nil {
				atomic.AddInt64(&st.synShortErr, 1)
			}
		}
		if rerr != nil {
			atomic.AddInt64(&st.hostileErrors, 1)
			if f != nil {
				r.Violation("read:frame-and-error-together", fmt.Sprintf("ReadFrame returned (%T, %v)", f, rerr), h)
			}
			return
		}
		if f == nil {
			r.Violation("read:nil-frame-nil-error", "ReadFrame returned (nil, nil)", h)
			return
		}
		atomic.AddInt64(&st.hostileFramesOK, 1)
		want := start + 8 + int(declared)
		if src.pos != want {
			dir := "under-read"
			if src.pos > want {
				dir = "over-read"
			}
			r.Violation("boundary:"+tname+":declared-length-ignored",
				fmt.Sprintf("%s frame at offset %d declares %d payload bytes; ReadFrame succeeded having consumed %d (%s: frame boundary at %d, reader at %d)",
					tname, start, declared, src.pos-start, dir, want, src.pos), h)
			return
		}
	}
}

// ---------------------------------------------------------------- child for 2^31-scale announcements

type c39ChildResult struct {
	Frames []struct {
		Declared uint32 `json:"declared"`
		Delta    uint64 `json:"delta"`
		Err      string `json:"err"`
	} `json:"frames"`
	Panic string `json:"panic,omitempty"`
}

// c39Child runs in a re-executed copy of this binary under `ulimit -v`: it
// reads the stream in the file named by -replay, measures every ReadFrame and
// prints one JSON object. A fatal out-of-memory kills only this child.
func c39Child() {
	var path string
	for i, a := range os.Args {
		if a == "-replay" && i+1 < len(os.Args) {
			path = os.Args[i+1]
		}
	}
	b, err := os.ReadFile(path)
	if err != nil {
		fmt.Println(`{"panic":"cannot read case"}`)
		os.Exit(0)
	}
	var h c39Hostile
	if err := json.Unmarshal(b, &h); err != nil {
		fmt.Println(`{"panic":"cannot parse case"}`)
		os.Exit(0)
	}
	var res c39ChildResult
	func() {
		defer func() {
			if e := recover(); e != nil {
				res.Panic = fmt.Sprint(e)
			}
		}()
		src := &c39Src{data: h.Stream, mode: h.Delivery, g: vkit.NewRand(h.Seed)}
		rf, err := bfe_spdy.NewFramer(io.Discard, src)
		if err != nil {
			res.Panic = "NewFramer: " + err.Error()
			return
		}
		var ms0, ms1 runtime.MemStats
		for n := 0; n < 16; n++ {
			start := src.pos
			declared := uint32(0)
			if start+8 <= len(h.Stream) {
				declared = binary.BigEndian.Uint32(h.Stream[start+4:start+8]) & 0xffffff
			}
			runtime.ReadMemStats(&ms0)
			_, rerr := rf.ReadFrame()
			runtime.ReadMemStats(&ms1)
			e := ""
			if rerr != nil {
				e = rerr.Error()
			}
			res.Frames = append(res.Frames, struct {
				Declared uint32 `json:"declared"`
				Delta    uint64 `json:"delta"`
				Err      string `json:"err"`
			}{declared, ms1.TotalAlloc - ms0.TotalAlloc, e})
			if rerr != nil {
				break
			}
		}
	}()
	out, _ := json.Marshal(res)
	fmt.Println(string(out))
	os.Exit(0)
}

// c39ExecChild reads one stream in a child limited to 2 GiB of address
// space. oom reports that the child died with a fatal out-of-memory error.
func c39ExecChild(r *vkit.Run, st *c39Stats, h *c39Hostile, idx int) (res *c39ChildResult, oom bool, stderrTail string, ok bool) {
	dir := os.Getenv("VERIF_SCRATCH")
	if dir == "" {
		r.Inconclusive("VERIF_SCRATCH unset: giant-allocation cases need a scratch directory for the child process")
		return nil, false, "", false
	}
	path := filepath.Join(dir, fmt.Sprintf("c39-child-%d.json", idx))
	b, _ := json.Marshal(h)
	if err := os.WriteFile(path, b, 0o644); err != nil {
		r.Inconclusive("cannot write child case: " + err.Error())
		return nil, false, "", false
	}
	defer os.Remove(path)
	r.WriteAhead(h)
	cmd := exec.Command("bash", "-c", `ulimit -c 0; ulimit -v 2097152 && exec "$0" "$@"`, os.Args[0], "-prop", "C39", "-replay", path)
	cmd.Env = append(os.Environ(), "VERIF_C39_CHILD=1", "GOGC=100", "GOTRACEBACK=none")
	var stdout, stderr bytes.Buffer
	cmd.Stdout, cmd.Stderr = &stdout, &stderr
	err := cmd.Run()
	st.childCases++
	if err != nil {
		tail := stderr.String()
		if len(tail) > 1500 {
			tail = tail[:1500]
		}
		if strings.Contains(tail, "out of memory") || strings.Contains(tail, "cannot allocate memory") {
			st.childOOM++
			return nil, true, tail, true
		}
		r.Inconclusive(fmt.Sprintf("child failed without an out-of-memory report: %v: %s", err, tail))
		return nil, false, tail, false
	}
	res = &c39ChildResult{}
	if err := json.Unmarshal(bytes.TrimSpace(stdout.Bytes()), res); err != nil {
		r.Inconclusive("child output unparsable: " + stdout.String())
		return nil, false, "", false
	}
	if res.Panic != "" {
		r.Violation("panic:child:"+res.Panic, "ReadFrame panicked in the child: "+res.Panic, h)
		return nil, false, "", false
	}
	return res, false, "", true
}

// c39RunChild executes one giant-announcement case in a child and applies the
// allocation bound to what the child measured.
func c39RunChild(r *vkit.Run, st *c39Stats, h *c39Hostile, shape string, idx int) {
	res, oom, tail, ok := c39ExecChild(r, st, h, idx)
	if !ok {
		return
	}
	if oom {
		r.Violation("alloc:header-"+shape+"-unbounded",
			fmt.Sprintf("child limited to 2 GiB of address space died with a fatal out-of-memory error while reading a %d-byte stream", len(h.Stream)),
			map[string]interface{}{"case": h, "child_stderr": tail})
		return
	}
	for _, f := range res.Frames {
		if limit := c39AllocLimit(f.Declared); f.Delta > limit {
			r.Violation("alloc:header-"+shape+"-unbounded",
				fmt.Sprintf("in a child: one ReadFrame on a frame declaring %d bytes allocated %d bytes (limit %d); err=%q", f.Declared, f.Delta, limit, f.Err), h)
			return
		}
	}
}

// c39RunGrowing writes [frames..., frame with a name that grows when
// lower-cased, PING] with the real writer and has a child read it back: every
// frame must be returned without error.
func c39RunGrowing(r *vkit.Run, st *c39Stats, w *c39RT, idx int) {
	var buf bytes.Buffer
	wf, err := bfe_spdy.NewFramer(&buf, nil)
	if err != nil {
		r.Inconclusive(err.Error())
		return
	}
	for i := range w.Frames {
		if werr := wf.WriteFrame(w.Frames[i].build()); werr != nil {
			r.Violation("write:"+w.Frames[i].Type+":valid-frame-refused:"+c39ErrSig(werr), werr.Error(), w)
			wf.ReleaseWriter()
			return
		}
	}
	wf.ReleaseWriter()
	h := &c39Hostile{Stream: append([]byte{}, buf.Bytes()...), Delivery: w.Delivery, Seed: w.ChunkSeed, Origin: "written-growing-name"}
	res, oom, tail, ok := c39ExecChild(r, st, h, idx)
	if !ok {
		return
	}
	wit := map[string]interface{}{"frames": w.Frames, "delivery": w.Delivery, "chunk_seed": w.ChunkSeed, "class": w.Class, "child_stderr": tail}
	if oom {
		r.Violation("roundtrip:name-lowercasing-changes-byte-length",
			"reading back what the writer produced killed the child (2 GiB address space) with a fatal out-of-memory error", wit)
		return
	}
	if len(res.Frames) < len(w.Frames) {
		r.Violation("roundtrip:name-lowercasing-changes-byte-length", fmt.Sprintf("only %d of %d frames read back", len(res.Frames), len(w.Frames)), wit)
		return
	}
	for i := range w.Frames {
		if res.Frames[i].Err != "" {
			r.Violation("roundtrip:name-lowercasing-changes-byte-length",
				fmt.Sprintf("frame #%d (%s) written by the framer is read back as error %q (allocated %d bytes)", i, w.Frames[i].Type, res.Frames[i].Err, res.Frames[i].Delta), wit)
			return
		}
	}
	atomic.AddInt64(&st.rtFrames, int64(len(w.Frames)))
}

// c39GiantCase is a single SYN_REPLY whose first header announces a name or
// value of `announce` bytes and then ends.
func c39GiantCase(zhdr []byte, typ uint16, shape string, announce uint32) *c39Hostile {
	content := be32(1)
	if shape == "name-length" {
		content = append(content, be32(announce)...)
		content = append(content, 'x')
	} else {
		content = append(content, be32(1)...)
		content = append(content, 'x')
		content = append(content, be32(announce)...)
		content = append(content, 'y')
	}
	fixed := be32(1)
	if typ == 1 {
		fixed = append(fixed, 0, 0, 0, 0, 0, 0)
	}
	payload := append(fixed, c39Stored(content, zhdr)...)
	fr := c39HFrame{Bytes: c39Ctl(typ, 0, uint32(len(payload)), payload), Kind: "hdr-giant", Shape: shape, Announce: announce}
	return &c39Hostile{Stream: fr.Bytes, Frames: []c39HFrame{fr}, Origin: "giant"}
}

// ---------------------------------------------------------------- driver

func c39(r *vkit.Run) {
	r.SetRule("(1) round trip: sequences of 1..8 frames (all 9 writable types; 31-bit ids, 3-bit priority, 24-bit settings ids, non-zero ids/status where the writer demands it) written through ONE Framer and read back through ONE Framer " +
		"(zlib context carried across the sequence), delivered whole / in random chunks / byte by byte; header names: lower/upper/mixed ASCII, pseudo names, non-ASCII lower and upper case, separators, control bytes, NUL, 200..600 byte names, " +
		"up to 1024 names; values: empty, zero values, arbitrary bytes incl. NUL, up to 3 KB; class len-changing-name (1 in 20) ends with a header frame whose single name SHRINKS when lower-cased (U+212A, U+2126, U+1E9E; value 1..4 bytes, so that the length a " +
		"desynchronised reader sees stays below 2^24); names that GROW when lower-cased (U+0130, U+023A, invalid UTF-8) are written in-process and read back in a child under ulimit -v (phase 5); " +
		"class size-sweep (1 in 20) carries one incompressible value whose size sweeps 3500..12500 so the compressed block ends at every offset relative to the inflater's 4096-byte reads. Expected: every frame read back with equal fields " +
		"(control header incl. length, flags, ids), headers equal as (name under case folding, NUL-joined value) pairs, reader exactly at the frame end after every frame, (nil, EOF) after the last. " +
		"Excluded: names equal under case folding within one frame, the hop-by-hop names the reader rejects by design (connection, host, keep-alive, proxy-connection, transfer-encoding), :path > 8 KB, > 1024 headers/settings (reader limits); " +
		"values are compared NUL-joined (SPDY's own multi-value encoding). " +
		"(2) hostile streams: (a) mutations of the wire bytes of (1): truncation anywhere; bit flip / +-1 / random byte on frame headers (not the top length byte), fixed fields and data-frame bodies; inserted bytes at frame starts - " +
		"never inside a compressed block and never the type of a header frame, because what a damaged block inflates to cannot be bounded beforehand and 16 workers run at once; " +
		"(b) crafted streams of 1..4 frames + a PING: header frames whose block is built from stored deflate blocks, so the decompressed content is chosen directly " +
		"(wrong numHeaders incl. 1024/1025/2^31/2^32-1, name/value lengths beyond the data by 1..8, <=70000, <=128 KiB (16 MiB in the single-goroutine phase), upper-case, empty, duplicate, forbidden names, truncated blocks, " +
		"declared frame length -1, +1, below the fixed part, random - the last three end the stream, because they let the inflater run into whatever follows), " +
		"RST/PING/GOAWAY/WINDOW_UPDATE/SETTINGS with every declared length 0..20 and wrong setting counts, data frames, unknown types/versions, random bytes. Oracle: no panic; never (frame, error) together or (nil, nil); " +
		"after every SUCCESSFUL ReadFrame the reader stands at 8 + declared length (nothing is demanded after an error: the only caller drops the connection); in the single-goroutine phase TotalAlloc delta of one ReadFrame <= 4*(declared length*1032 + 64 KiB) " +
		"(valid traffic from the real writer is measured too and its peak share of the limit is recorded). Announcements of 2^30..2^32-1 bytes run in a re-executed child under ulimit -v 2 GiB (phase 4). " +
		"Non-trivial = sequence with >= 1 header-bearing frame, or hostile stream that is not purely random bytes; distinct = hash of the wire bytes + delivery mode." + c39FURule + c39WRule)
	r.Assume("zlib stream header (SPDY/3 dictionary id) learned from the first block bfe's own writer emits; crafted blocks use stored deflate blocks only, so no dictionary content is needed")
	st := &c39Stats{}
	zhdr, err := c39ZlibHeader()
	if err != nil {
		r.Inconclusive(err.Error())
		return
	}
	r.Extra("zlib_header", fmt.Sprintf("% x", zhdr))

	if r.Replay != "" {
		var probe struct {
			Frames   json.RawMessage `json:"frames"`
			Stream   []byte          `json:"stream"`
			Case     json.RawMessage `json:"case"`
			Followup json.RawMessage `json:"followup_items"`
			Refused  json.RawMessage `json:"refused_write_items"`
		}
		if err := r.LoadReplay(&probe); err != nil {
			r.Inconclusive(err.Error())
			return
		}
		r.SetMinDistinct(0)
		r.Evals(1)
		if probe.Refused != nil {
			var w c39W
			r.LoadReplay(&w)
			ws := &c39WStats{n: map[string]int64{}, cell: map[string]int64{}}
			c39RunW(r, ws, &w)
			c39WFinish(r, ws)
			return
		}
		if probe.Followup != nil {
			var w c39FU
			r.LoadReplay(&w)
			fs := newC39FUStats()
			c39RunFU(r, fs, zhdr, &w)
			c39FUFinish(r, fs)
			return
		}
		if probe.Stream == nil && probe.Case != nil { // child witness wraps the case
			var w struct {
				Case c39Hostile `json:"case"`
			}
			r.LoadReplay(&w)
			c39RunChild(r, st, &w.Case, "length", 0)
			return
		}
		if probe.Stream != nil {
			var h c39Hostile
			r.LoadReplay(&h)
			if h.Origin == "giant" && len(h.Frames) == 1 && h.Frames[0].Announce >= 1<<30 {
				c39RunChild(r, st, &h, h.Frames[0].Shape, 0)
				return
			}
			c39ReadHostile(r, st, &h, true)
			return
		}
		var w c39RT
		r.LoadReplay(&w)
		if w.Class == "growing-name" {
			c39RunGrowing(r, st, &w, 0)
			return
		}
		c39RoundTrip(r, st, &w)
		return
	}

	t0 := time.Now()
	phase := func(name string) {
		fmt.Fprintf(os.Stderr, "c39: %s done at %.1fs\n", name, time.Since(t0).Seconds())
	}
	// ---- phase 1+2a (parallel): round trips, each followed by mutations of its wire bytes
	nRT := r.N(8000, 250000)
	nMutPer := 2
	vkit.Parallel(nRT, 0, func(i int) {
		g := r.Rng("rt", i)
		w := c39GenRT(g, i)
		wire, ends := c39RoundTrip(r, st, w)
		atomic.AddInt64(&st.rtSeq, 1)
		nt := false
		for _, f := range w.Frames {
			if len(f.Headers) > 0 {
				nt = true
			}
		}
		if w.Class == "len-changing-name" {
			atomic.AddInt64(&st.rtLenChangingSeq, 1)
		}
		r.Case(vkit.Hash64("rt", string(wire), fmt.Sprint(w.Delivery)), nt)
		if r.WantSample() && i%4001 == 5 {
			r.Sample(map[string]interface{}{"class": w.Class, "frames": len(w.Frames), "wire_bytes": len(wire), "delivery": c39Modes[w.Delivery]})
		}
		if wire == nil || len(wire) > 20000 {
			return
		}
		for k := 0; k < nMutPer; k++ {
			h := &c39Hostile{Stream: c39Mutate(g, wire, w.Frames, ends), Delivery: g.Intn(3), Seed: g.U64(), Origin: "mutated"}
			c39ReadHostile(r, st, h, false)
			r.Case(vkit.Hash64("mut", string(h.Stream), fmt.Sprint(h.Delivery)), true)
		}
	})

	phase("roundtrip+mutations")
	// ---- phase 2b (parallel): crafted hostile streams, announcements <= 128 KiB
	nCraft := r.N(30000, 600000)
	vkit.Parallel(nCraft, 0, func(i int) {
		g := r.Rng("craft", i)
		h := c39GenHostile(g, zhdr, 128<<10)
		c39ReadHostile(r, st, h, false)
		nt := false
		for _, f := range h.Frames {
			if f.Kind != "random" && f.Kind != "ping" {
				nt = true
			}
		}
		r.Case(vkit.Hash64("craft", string(h.Stream), fmt.Sprint(h.Delivery)), nt)
	})

	phase("crafted")
	// ---- phase 3 (single goroutine): allocation bound on crafted streams and on valid sequences
	nAlloc := r.N(6000, 80000)
	for i := 0; i < nAlloc; i++ {
		g := r.Rng("alloc", i)
		var h *c39Hostile
		if i%4 == 3 {
			// valid traffic from the real writer: the bound must leave it alone
			var buf bytes.Buffer
			wf, err := bfe_spdy.NewFramer(&buf, nil)
			if err != nil {
				r.Inconclusive(err.Error())
				return
			}
			w := c39GenRT(g, 0)
			for k := range w.Frames {
				wf.WriteFrame(w.Frames[k].build())
			}
			wf.ReleaseWriter()
			if c39HasLenChanging(w.Frames) {
				continue
			}
			h = &c39Hostile{Stream: append([]byte{}, buf.Bytes()...), Delivery: g.Intn(3), Seed: g.U64(), Origin: "valid-written"}
		} else {
			giant := uint32(1 << 20)
			if i%16 == 1 {
				giant = 16 << 20
			}
			h = c39GenHostile(g, zhdr, giant)
			if giant > 1<<20 {
				r.WriteAhead(h)
			}
		}
		c39ReadHostile(r, st, h, true)
		r.Case(vkit.Hash64("alloc", string(h.Stream), fmt.Sprint(h.Delivery)), true)
	}

	phase("alloc")
	// ---- phase 4 (children): announcements of 2^30 .. 2^32-1 bytes
	idx := 0
	for _, typ := range []uint16{1, 2, 8} {
		for _, shape := range []string{"name-length", "value-length"} {
			for _, ann := range []uint32{1 << 30, 1<<31 - 1, 1 << 31, 1<<32 - 1} {
				if r.Quick() && typ != 2 && ann != 1<<31 {
					continue
				}
				h := c39GiantCase(zhdr, typ, shape, ann)
				c39RunChild(r, st, h, shape, idx)
				idx++
				r.Case(vkit.Hash64("giant", fmt.Sprint(typ, shape, ann)), true)
			}
		}
	}

	// ---- phase 5 (children): names that GROW when lower-cased, written by the real writer
	for k, name := range c39Growing {
		reps := r.N(1, 4)
		for j := 0; j < reps; j++ {
			g := r.Rng("growing", k, j)
			w := &c39RT{Delivery: g.Intn(3), ChunkSeed: g.U64(), Class: "growing-name"}
			if j%2 == 1 {
				w.Frames = append(w.Frames, c39Frame(g, false))
			}
			w.Frames = append(w.Frames, c39LenChangingFrame(g, name), fdesc{Type: "ping", Id: 7})
			c39RunGrowing(r, st, w, idx)
			idx++
			atomic.AddInt64(&st.rtLenChangingSeq, 1)
			r.Case(vkit.Hash64("growing", name, fmt.Sprint(j)), true)
		}
	}
	phase("children")
	// ---- phase 6 (parallel): valid frames behind erroneous-but-well-framed ones (c39f.go)
	c39FollowUp(r, zhdr)
	phase("followup")
	// ---- phase 7 (parallel): valid frames before, between and behind REFUSED writes (c39w.go)
	c39RefusedWrites(r)
	phase("refused-writes")
	r.Count("roundtrip_sequences", st.rtSeq)
	r.Count("roundtrip_frames_equal", st.rtFrames)
	r.Count("roundtrip_header_frames_equal", st.rtHeaderFrames)
	r.Count("roundtrip_len_changing_sequences", st.rtLenChangingSeq)
	r.Count("hostile_streams", st.hostileStreams)
	r.Count("hostile_frames_returned", st.hostileFramesOK)
	r.Count("hostile_errors_returned", st.hostileErrors)
	r.Count("alloc_calls_measured", st.allocMeasured)
	r.Count("alloc_max_permille_of_limit_within_bound", st.allocMaxPermille)
	r.Count("alloc_max_permille_of_limit_valid_traffic", st.allocMaxValid)
	r.Count("header_frames_declaring_less_than_fixed_part", st.synShort)
	r.Count("header_frames_declaring_less_than_fixed_part_rejected", st.synShortErr)
	r.Count("child_cases", st.childCases)
	r.Count("child_fatal_oom", st.childOOM)
	if st.rtHeaderFrames == 0 || st.hostileFramesOK == 0 || st.hostileErrors == 0 || st.allocMeasured == 0 || st.childCases == 0 {
		r.Inconclusive("a workload class was never reached (header round trips / hostile accepted / hostile rejected / alloc measured / child cases)")
	}
}
