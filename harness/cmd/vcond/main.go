// vcond decides the condition-DSL properties C16 (precedence), C17 (Build is
// total and type-checked) and C18 (primitive semantics).
package main

import (
	"fmt"
	"os"

	"verifharness/vkit"
)

func main() {
	r := vkit.Start("exploration")
	switch r.Prop {
	case "C16":
		c16(r)
	case "C17":
		c17(r)
	case "C18":
		c18(r)
	default:
		fmt.Fprintln(os.Stderr, "vcond: unknown property", r.Prop)
		os.Exit(vkit.ExitInconclusive)
	}
	r.Finish()
}
