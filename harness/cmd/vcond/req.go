package main

import (
	"net"
	"net/url"
	"strings"

	"github.com/bfenetworks/bfe/bfe_basic"
	"github.com/bfenetworks/bfe/bfe_http"
	"github.com/bfenetworks/bfe/bfe_tls"

	refc "verifharness/ref/cond"
)

// parseIPBytes converts a textual address (already Valid for the reference
// parser) into net.IP without using bfe code.
func parseIPBytes(s string, short4 bool) net.IP {
	b, is4, v := refc.ParseIP(s)
	if v != refc.Valid {
		return nil
	}
	if (is4 || isMapped(b)) && short4 {
		return net.IP{b[12], b[13], b[14], b[15]}
	}
	out := make(net.IP, 16)
	copy(out, b[:])
	return out
}

func isMapped(b [16]byte) bool {
	for i := 0; i < 10; i++ {
		if b[i] != 0 {
			return false
		}
	}
	return b[10] == 0xff && b[11] == 0xff
}

// toBfe builds the bfe request described by the model. debugTime, when not
// empty, is sent as X-Bfe-Debug-Time (system/time.md Appendix A) so that the
// time primitives never look at the wall clock.
func toBfe(q *refc.Req, debugTime string) *bfe_basic.Request {
	hr := &bfe_http.Request{
		Method:     q.Method,
		Proto:      "HTTP/1.1",
		ProtoMajor: 1,
		ProtoMinor: 1,
		Header:     bfe_http.Header{},
		Host:       q.HostName,
	}
	if q.Port != "" {
		hr.Host = q.HostName + ":" + q.Port
	}
	hr.URL = &url.URL{Path: q.Path, RawQuery: q.RawQuery()}
	hr.RequestURI = q.URI()
	for _, h := range q.Headers {
		hr.Header.Set(h.K, h.V)
	}
	if len(q.Cookies) > 0 {
		var parts []string
		for _, c := range q.Cookies {
			parts = append(parts, c.K+"="+c.V)
		}
		hr.Header.Set("Cookie", strings.Join(parts, "; "))
	}
	if debugTime != "" {
		hr.Header.Set("X-Bfe-Debug-Time", debugTime)
	}
	ses := bfe_basic.NewSession(nil)
	ses.IsSecure = q.Secure
	if q.Secure {
		ses.Proto = q.Proto
	} else {
		hr.Proto = q.Proto
		ses.Proto = ""
	}
	if q.HasTLS {
		ses.TlsState = &bfe_tls.ConnectionState{ServerName: q.SNI, ClientAuth: q.ClientAuth, ClientCAName: q.ClientCA}
	}
	if q.SIP != "" {
		ses.RemoteAddr = &net.TCPAddr{IP: parseIPBytes(q.SIP, q.Short4), Port: 40000}
	}
	if q.VIP != "" {
		ses.Vip = parseIPBytes(q.VIP, q.Short4)
	}
	ses.SetTrustSource(q.Trusted)
	req := bfe_basic.NewRequest(hr, nil, nil, ses, nil)
	if q.CIP != "" {
		req.ClientAddr = &net.TCPAddr{IP: parseIPBytes(q.CIP, q.Short4), Port: 40001}
	}
	for k, v := range q.Tags {
		req.Tags.TagTable[k] = append([]string(nil), v...)
	}
	req.Route.HostTag = q.HostTag
	for k, v := range q.Context {
		req.SetContext(k, v)
	}
	if q.HasResp {
		res := &bfe_http.Response{StatusCode: q.Status, Header: bfe_http.Header{}}
		for _, h := range q.RespHeaders {
			res.Header.Set(h.K, h.V)
		}
		req.HttpResponse = res
	}
	return req
}

// quote renders a string literal of the condition language. The scanner does
// not decode escapes, so only escape-free content is rendered with "..." and
// everything else with `...`; ok=false if neither form can carry the content.
func quote(s string, g interface{ Bool() bool }) (string, bool) {
	dq := !strings.ContainsAny(s, "\"\\\n")
	bq := !strings.ContainsAny(s, "`\r")
	switch {
	case dq && bq:
		if g != nil && g.Bool() {
			return "`" + s + "`", true
		}
		return `"` + s + `"`, true
	case dq:
		return `"` + s + `"`, true
	case bq:
		return "`" + s + "`", true
	}
	return "", false
}

// renderCall renders name(args...) as source text.
func renderCall(name string, args []refc.Arg, g interface{ Bool() bool }) (string, bool) {
	var b strings.Builder
	b.WriteString(name)
	b.WriteByte('(')
	for i, a := range args {
		if i > 0 {
			b.WriteString(", ")
		}
		if a.IsBool {
			if a.B {
				b.WriteString("true")
			} else {
				b.WriteString("false")
			}
			continue
		}
		s, ok := quote(a.S, g)
		if !ok {
			return "", false
		}
		b.WriteString(s)
	}
	b.WriteByte(')')
	return b.String(), true
}
