package main

import (
	"fmt"
	"regexp"
	"runtime/debug"
	"sort"
	"strings"
	"sync"

	"verifharness/vkit"
)

// vkit.PanicSig cuts a method frame at the '(' of its receiver
// ("parser.(*Scanner).scanString" becomes "parser."), which would give two
// different panic sites of the scanner the same signature. panicSig keeps the
// whole function name of the innermost bfe frame.
var bfeFrameLine = regexp.MustCompile(`(?m)^github\.com/bfenetworks/bfe/(\S+)\([^()]*\)$`)

var (
	stackNoise  = regexp.MustCompile(`\((?:0x[0-9a-f]+|\{[^)]*|[^()]*\?)[^()]*\)| \+0x[0-9a-f]+|0x[0-9a-f]+\??`)
	goroutineID = regexp.MustCompile(`goroutine \d+`)
)

func panicSig(stack string) string {
	m := bfeFrameLine.FindStringSubmatch(stack)
	if m == nil {
		return vkit.PanicSig([]byte(stack))
	}
	return "panic:" + strings.TrimSuffix(m[1], ".func1")
}

// findings collects violations per signature and keeps the SHORTEST witness of
// each, so that the replay file is a minimal case; flush reports them.
type findings struct {
	r  *vkit.Run
	mu sync.Mutex
	m  map[string]*finding
}

type finding struct {
	what    string
	size    int
	witness interface{}
	n       int64
}

func newFindings(r *vkit.Run) *findings { return &findings{r: r, m: map[string]*finding{}} }

func (f *findings) add(sig, what string, size int, witness interface{}) {
	f.mu.Lock()
	defer f.mu.Unlock()
	cur := f.m[sig]
	if cur == nil {
		f.m[sig] = &finding{what: what, size: size, witness: witness, n: 1}
		return
	}
	cur.n++
	if size < cur.size || size == cur.size && what < cur.what { // deterministic choice whatever the goroutine order
		cur.what, cur.size, cur.witness = what, size, witness
	}
}

func (f *findings) flush() {
	f.mu.Lock()
	defer f.mu.Unlock()
	var sigs []string
	for s := range f.m {
		sigs = append(sigs, s)
	}
	sort.Strings(sigs)
	for _, s := range sigs {
		x := f.m[s]
		f.r.Violation(s, fmt.Sprintf("%s (%d cases with this signature in this run; shortest shown)", x.what, x.n), x.witness)
	}
}

// try runs fn; a panic becomes a finding named after the innermost bfe frame.
func (f *findings) try(size int, desc func() interface{}, fn func()) (panicked bool) {
	defer func() {
		if e := recover(); e != nil {
			panicked = true
			st := string(debug.Stack())
			sig := panicSig(st)
			// keep the frames, drop what differs from run to run (addresses, goroutine id)
			st = stackNoise.ReplaceAllString(st, "")
			st = goroutineID.ReplaceAllString(st, "goroutine N")
			if i := strings.Index(st, "\npanic("); i >= 0 {
				st = st[i+1:]
			}
			if len(st) > 2500 {
				st = st[:2500]
			}
			f.add(sig, fmt.Sprintf("panic: %v", e), size,
				map[string]interface{}{"case": desc(), "panic": fmt.Sprint(e), "stack": st})
		}
	}()
	fn()
	return false
}
