package main

import "testing"

func TestCount(t *testing.T) {
	for _, mn := range []int{1, 2} {
		for d := 1; d <= 3; d++ {
			en := &c16Enum{maxNot: mn, memoS: map[[2]int][]string{}, memoO: map[[2]int][]string{}}
			for n := 1; n <= 4; n++ {
				t.Logf("maxNot=%d d=%d n=%d: %d", mn, d, n, len(en.seq(n, d)))
			}
		}
	}
}
