package main

import (
	"encoding/hex"
	"fmt"
	"sort"
	"strings"
	"sync"
	"time"

	"github.com/bfenetworks/bfe/bfe_basic"
	"github.com/bfenetworks/bfe/bfe_basic/condition"
	"github.com/bfenetworks/bfe/bfe_basic/condition/parser"

	refc "verifharness/ref/cond"
	"verifharness/vkit"
)

// C17: condition.Build is total (no panic, no hang) on every string and
// rejects unknown primitives, wrong arity/type, unresolved variables and
// invalid IP / regexp / hash-range / time arguments.

type c17Lit struct {
	Tok string `json:"tok"` // STRING BOOL INT FLOAT IDENT
	Val string `json:"val"` // content (STRING) or source text
	src string
}

func c17Str(val string, g *vkit.Rand) (c17Lit, bool) {
	var b interface{ Bool() bool }
	if g != nil {
		b = g
	}
	s, ok := quote(val, b)
	return c17Lit{Tok: "STRING", Val: val, src: s}, ok
}

func c17Raw(tok, src string) c17Lit { return c17Lit{Tok: tok, Val: src, src: src} }

// ---- literal pools ----------------------------------------------------------

var c17Generic = []string{
	"", "|", "||", "a", "a|b", "a|", "|a", "A|a", " ", "a b", "\t", "%", "(", ")", "((", "[", "]", "*", "+", "?", "a{2,1}", "a{1001}", "(?P<x", "(?i)a", "\\", "\\d", "\\", "[[:foo:]]", "a**",
	"1 Z", "12 Z", "1 z", " Z", "Z", "999999", "0-0", "5-3", "0", "9999", "10000", "-1", "1-2-3", "1-", "-", "+5", "1 - 2", "0x10", "1e3", "٣", "99999999999999999999",
	"::1", "::", "1.2.3.4", "1.2.3.256", "1.2.3", "::ffff:1.2.3.4", "fe80::1%eth0", "1.2.3.4|", "1.2.3.4|::1", "010.1.1.1", "[::1]", "1.2.3.4:80", "1:2:3:4:5:6:7:8:9", "g::1", "1.2.3.4/24",
	"20190204203000H", "20190230203000H", "2019020420300H", "201902042030000H", "20190204203000J", "20190204203000", "20190204203000 H", "20190204203000h", "20191304203000Z", "20190204253000Z", "20190204206000Z", "20190204203060Z", "2019020420300xZ", "00000101000000Z", "99991231235959Y", "20190204203000HH",
	"203000H", "250000H", "2030H", "123456", "1234567", "abcdefZ", "2030 0H", "000000Z", "235959M", "236000Z", "203000J", "203000 H", " 203000H", "203000\tH", "20300ＺH",
	"世界", "a\x00b", "a\nb", "a\rb", "\xff\xfe", "\xc0\x80", "\"", "`", "a\"b", "a`b", "'", "//", "/*", "true", "false", "default_t()", "x&&y", strings.Repeat("a", 5000), strings.Repeat("(", 200), strings.Repeat("a|", 3000),
}

// valid literals per documented kind
var c17ValidByKind = map[refc.Kind][]string{
	refc.KStr:       {"a", "a|b", "/x", "X-Test", "GET|POST", "80|8080"},
	refc.KHostList:  {"a.example", "www.a.example|a.example"},
	refc.KIPList:    {"10.0.0.1", "10.0.0.1|10.0.0.2", "::1|10.0.0.1", "2001:db8::1"},
	refc.KIPStart:   {"10.0.0.1", "0.0.0.0", "2001:db8::1", "::"},
	refc.KIPEnd:     {"10.0.0.10", "255.255.255.255", "2001:db8::ffff", "ffff:ffff:ffff:ffff:ffff:ffff:ffff:ffff"},
	refc.KRegexp:    {`/s\?word=123`, "^a.*b$", "[0-9]+", "(x|y)z"},
	refc.KHashList:  {"100", "100-200", "100-200|1000-1000", "0-9999", "0", "9999"},
	refc.KTime:      {"20190204203000H", "19700101000000Z", "20200229235959A"},
	refc.KTimeEnd:   {"20190204204500H", "20380119031407Z", "20991231235959Y"},
	refc.KTimeOfDay: {"203000H", "204500H", "000000Z", "235959Z"},
	refc.KPeriod:    {""},
}

// boundary literals per kind (valid, invalid and unspecified ones mixed)
var c17BoundaryByKind = map[refc.Kind][]string{
	refc.KIPList:    {"", "|", "10.0.0.1|", "|10.0.0.1", "10.0.0.256", "10.0.0", "10.0.0.1.1", "a.b.c.d", "::1::", ":::", "1:2:3:4:5:6:7", "1:2:3:4:5:6:7:8", "1:2:3:4:5:6:7::", "::ffff:1.2.3.4", "1.2.3.4::", "fe80::1%lo", "12345::", "0.0.0.0", "255.255.255.255", " 10.0.0.1", "10.0.0.1 ", "10.0.0.01", "０.0.0.0"},
	refc.KIPStart:   {"", "10.0.0.256", "10.0.0", "x", "::g", "10.0.0.9", "10.0.0.1", "::", "::1", "::ffff:10.0.0.1", "255.255.255.255", "ffff::", " 10.0.0.1", "1:2:3:4:5:6:7:8:9"},
	refc.KHashList:  {"", "|", "0", "9999", "10000", "99999", "-1", "5-3", "3-5", "0-0", "0-9999", "0-10000", "1-2-3", "1-", "-1-2", "a", "1a", "1|", "|1", "1||2", "1|2|3", "1 - 2", " 1", "+1", "1-+2", "0x1", "1.0", "１", "00001", "000010000", "99999999999999999999", "1-99999999999999999999"},
	refc.KTime:      {"", "Z", "20190204203000", "20190204203000Z", "20190204203000z", "20190204203000J", "20190204203000j", "20190204203000ZZ", "2019020420300Z", "201902042030000Z", "20190230000000Z", "20190229000000Z", "20200229000000Z", "20190431000000Z", "20190001000000Z", "20191301000000Z", "20190100000000Z", "20190132000000Z", "20190101240000Z", "20190101236000Z", "20190101235960Z", "20190101235961Z", "2019010123595aZ", "-0190101235959Z", "20190101 35959Z", "20190204203000 Z", " 20190204203000Z", "20190204203000Z ", "1 Z", "00000101000000Z", "99991231235959M", "20190204203000１", "20190204203000\x00"},
	refc.KTimeOfDay: {"", "Z", "203000", "203000Z", "203000z", "203000J", "203000ZZ", "20300Z", "2030000Z", "240000Z", "236000Z", "235960Z", "235961Z", "23595aZ", "-03000Z", "2 3000Z", "203000 Z", " 203000Z", "203000Z ", "1 Z", "12 Z", "123 Z", "1234 Z", "12345 Z", "1 2 Z", "1\tZ", "a Z", "000000A", "235959Y", "203000１", "20300０Z", "1 ", "1", " ", "Z Z"},
	refc.KRegexp:    {"", "(", ")", "[", "a{2,1}", "a{1001}", "a**", "(?P<n>a)", "(?P<n", `\`, `\8`, `\pN`, `\p{Nope}`, "(?i)a", "(?z)", "[a-\\d]", "[z-a]", "\xff", "x{1000}{1000}", strings.Repeat("(", 1001) + strings.Repeat(")", 1001), strings.Repeat("a?", 600)},
	refc.KHostList:  {"", "a.example:80", "a b", "|", "A.EXAMPLE", "::1", "[::1]:80"},
	refc.KPeriod:    {"", "Day", "day", "Week", " "},
	refc.KStr:       {"", "|", "a|", "a||b", "\xff", "世界"},
}

var c17NonString = []c17Lit{
	c17Raw("BOOL", "true"), c17Raw("BOOL", "false"),
	c17Raw("INT", "0"), c17Raw("INT", "1"), c17Raw("INT", "80"), c17Raw("INT", "007"), c17Raw("INT", "0x1F"), c17Raw("INT", "99999999999999999999"),
	c17Raw("INT?", "08"), c17Raw("INT?", "0x"),
	c17Raw("FLOAT", "1.5"), c17Raw("FLOAT", "1e3"), c17Raw("FLOAT", ".5"), c17Raw("FLOAT", "2i"),
	c17Raw("IDENT", "foo"), c17Raw("IDENT", "True"), c17Raw("IDENT", "TRUE"), c17Raw("IDENT", "nil"), c17Raw("IDENT", "range"), c17Raw("IDENT", "-"),
}

// ---- expectation -------------------------------------------------------------

type c17Env struct {
	r      *vkit.Run
	protos map[string][]string
	names  []string // sorted names of protos
	reqs   []*bfe_basic.Request

	mu     sync.Mutex
	accRej map[string]*[2]int64
	f      *findings

	slots []c17Slot
}

type c17Slot struct {
	mu    sync.Mutex
	busy  bool
	since time.Time
	src   string
}

// kindsFor gives the argument kinds the oracle uses for a primitive: the doc
// page for documented primitives; for primitives without a doc page the
// arity/types of funcProtos itself (trusted), refined by the naming convention.
func (e *c17Env) kindsFor(name string) (kinds []refc.Kind, known bool) {
	spec, inRef := refc.Specs[name]
	proto, inCode := e.protos[name]
	if inRef && spec.Documented {
		return spec.Kinds, true
	}
	if !inCode {
		return nil, false
	}
	gen := make([]refc.Kind, len(proto))
	for i, t := range proto {
		if t == "BOOL" {
			gen[i] = refc.KBool
		} else {
			gen[i] = refc.KStr
		}
	}
	if inRef && len(spec.Kinds) == len(gen) {
		same := true
		for i := range gen {
			if spec.Kinds[i].IsString() != gen[i].IsString() {
				same = false
			}
		}
		if same {
			return spec.Kinds, true
		}
	}
	return gen, true
}

// c17Reason names, coarsely, why the reference calls an argument Invalid, so
// that one defect gives one signature.
func c17Reason(k refc.Kind, strs []string, i int) string {
	v := strs[i]
	if v == "" {
		return "empty"
	}
	listHasEmpty := func() bool {
		for _, e := range strings.Split(v, "|") {
			if e == "" {
				return true
			}
		}
		return false
	}
	switch k {
	case refc.KIPList:
		if listHasEmpty() {
			return "empty-element"
		}
		return "malformed-address"
	case refc.KIPStart:
		_, _, va := refc.ParseIP(strs[i])
		_, _, vb := refc.ParseIP(strs[i+1])
		if va == refc.Valid && vb == refc.Valid {
			return "reversed-range"
		}
		return "malformed-address"
	case refc.KHashList:
		if listHasEmpty() {
			return "empty-element"
		}
		for _, sec := range strings.Split(v, "|") {
			if _, _, hv := refc.HashSection(sec); hv == refc.Invalid {
				parts := strings.Split(sec, "-")
				ok := len(parts) <= 2
				for _, p := range parts {
					if !isDigits(p) {
						ok = false
					}
				}
				if !ok {
					return "malformed-number"
				}
				if len(parts) == 2 {
					if _, _, rv := refc.HashSection(parts[1] + "-" + parts[0]); rv == refc.Valid {
						return "reversed-range"
					}
				}
				return "out-of-range"
			}
		}
		return "malformed-number"
	case refc.KTime:
		_, va := refc.ParseTime(strs[i])
		_, vb := refc.ParseTime(strs[i+1])
		if va == refc.Valid && vb == refc.Valid {
			return "reversed-range"
		}
		bad := strs[i]
		if va != refc.Invalid {
			bad = strs[i+1]
		}
		return c17TimeReason(bad, 14)
	case refc.KTimeOfDay:
		bad := strs[i]
		if _, _, va := refc.ParseTimeOfDay(bad); va != refc.Invalid && i+1 < len(strs) {
			bad = strs[i+1]
		}
		return c17TimeReason(bad, 6)
	case refc.KRegexp:
		return "bad-regexp"
	}
	return "other"
}

func c17TimeReason(s string, digits int) string {
	switch {
	case s == "":
		return "empty"
	case len(s) != digits+1:
		return "wrong-length"
	case !isDigits(s[:digits]):
		return "non-digit"
	}
	if _, ok := refc.ZoneOffset(s[digits]); !ok && !(s[digits] >= 'a' && s[digits] <= 'z') {
		return "bad-zone"
	}
	if c := s[digits]; c == 'J' || c == 'j' {
		return "bad-zone"
	}
	return "field-out-of-range"
}

// expect returns the signature of the violation that an err==nil result would
// constitute ("" = no obligation) and whether the call is fully Valid.
func (e *c17Env) expect(name string, lits []c17Lit) (sig string, allValid bool) {
	kinds, known := e.kindsFor(name)
	if !known {
		return "accepts-unknown-primitive", false
	}
	for _, l := range lits {
		if l.Tok != "STRING" && l.Tok != "BOOL" && l.Tok != "INT" {
			return "", false // not a list of basic literals: only totality is demanded
		}
	}
	if len(lits) < len(kinds) {
		return "accepts-wrong-arity:too-few", false
	}
	if len(lits) > len(kinds) {
		return "accepts-wrong-arity:too-many", false
	}
	strs := make([]string, len(lits))
	for i, k := range kinds {
		want := "STRING"
		if !k.IsString() {
			want = "BOOL"
		}
		if lits[i].Tok != want {
			return "accepts-wrong-type:want-" + want + "-got-" + lits[i].Tok, false
		}
		strs[i] = lits[i].Val
	}
	v, bad := refc.ValidateArgs(kinds, strs)
	switch v {
	case refc.Invalid:
		return "accepts-invalid:" + kinds[bad].String() + ":" + c17Reason(kinds[bad], strs, bad), false
	case refc.Valid:
		return "", true
	}
	return "", false
}

type c17Witness struct {
	Src    string   `json:"src"`
	SrcHex string   `json:"src_hex"`
	Expect string   `json:"expect_error_else"`
	Name   string   `json:"primitive,omitempty"`
	Args   []c17Lit `json:"args,omitempty"`
	Class  string   `json:"class"`
}

// run builds one source string under the hang watchdog and applies the oracle.
func (e *c17Env) run(worker int, w c17Witness, nontrivial bool) (built bool) {
	r := e.r
	src := w.Src
	w.SrcHex = hex.EncodeToString([]byte(src))
	sl := &e.slots[worker%len(e.slots)]
	sl.mu.Lock()
	sl.busy, sl.since, sl.src = true, time.Now(), w.SrcHex
	sl.mu.Unlock()
	var cond condition.Condition
	var err error
	panicked := e.f.try(len(src), func() interface{} { return w }, func() { cond, err = condition.Build(src) })
	if !panicked && err == nil && cond != nil {
		for _, q := range e.reqs {
			if e.f.try(len(src), func() interface{} { ww := w; ww.Class += "+Match"; return ww }, func() { cond.Match(q) }) {
				panicked = true
				break
			}
		}
	}
	sl.mu.Lock()
	sl.busy = false
	sl.mu.Unlock()
	if panicked {
		r.CaseS(src, true)
		r.Count("panics", 1)
		return false
	}
	if err == nil && cond == nil {
		e.f.add("unusable:nil-condition-nil-error", "Build returned (nil, nil)", len(src), w)
	}
	if err == nil {
		r.Count("built_ok", 1)
		if w.Expect != "" {
			e.f.add(w.Expect, fmt.Sprintf("Build(%s) returned no error", c17Show(src)), len(src), w)
		}
	} else {
		r.Count("rejected", 1)
	}
	if w.Name != "" {
		e.mu.Lock()
		ar := e.accRej[w.Name]
		if ar == nil {
			ar = &[2]int64{}
			e.accRej[w.Name] = ar
		}
		if err == nil {
			ar[0]++
		} else {
			ar[1]++
		}
		e.mu.Unlock()
	}
	if w.Expect != "" {
		r.Count("cases_must_error", 1)
	}
	r.CaseS(src, nontrivial || w.Expect != "" || err == nil)
	if r.WantSample() && w.Expect != "" && len(src) < 120 && strings.HasPrefix(w.Expect, "accepts-invalid") {
		r.Sample(map[string]interface{}{"src": src, "must_error_because": w.Expect, "error": fmt.Sprint(err)})
	}
	return err == nil
}

func c17Show(s string) string {
	if len(s) > 160 {
		return fmt.Sprintf("%q...(%d bytes)", s[:160], len(s))
	}
	return fmt.Sprintf("%q", s)
}

// call renders and checks one typed call.
func (e *c17Env) call(worker int, name string, lits []c17Lit, class string) {
	var b strings.Builder
	b.WriteString(name)
	b.WriteByte('(')
	for i, l := range lits {
		if i > 0 {
			b.WriteString(", ")
		}
		b.WriteString(l.src)
	}
	b.WriteByte(')')
	sig, _ := e.expect(name, lits)
	// literals the scanner does not classify as announced carry no obligation
	for _, l := range lits {
		if strings.HasSuffix(l.Tok, "?") {
			sig = ""
		}
	}
	e.run(worker, c17Witness{Src: b.String(), Expect: sig, Name: name, Args: lits, Class: class}, true)
}

func (e *c17Env) watchdog(limit time.Duration) {
	for {
		time.Sleep(500 * time.Millisecond)
		for i := range e.slots {
			sl := &e.slots[i]
			sl.mu.Lock()
			hung := sl.busy && time.Since(sl.since) > limit
			src := sl.src
			sl.mu.Unlock()
			if hung {
				e.r.WriteAhead(map[string]string{"src_hex": src})
				e.r.Inconclusive(fmt.Sprintf("Build/Match did not return within %v (suspected hang; may also be machine load) on src_hex=%s", limit, vkitTrunc(src, 400)))
				e.f.flush()
				e.r.Finish()
			}
		}
	}
}

func vkitTrunc(s string, n int) string {
	if len(s) > n {
		return s[:n]
	}
	return s
}

// ---- generators ---------------------------------------------------------------

func (e *c17Env) validLit(k refc.Kind, g *vkit.Rand) c17Lit {
	if k == refc.KBool {
		if g != nil && g.Bool() {
			return c17Raw("BOOL", "false")
		}
		return c17Raw("BOOL", "true")
	}
	pool := c17ValidByKind[k]
	s := pool[0]
	if g != nil {
		s = g.PickS(pool)
	}
	l, _ := c17Str(s, g)
	return l
}

// validArgs returns a fully valid argument list (range pairs consistent).
func (e *c17Env) validArgs(kinds []refc.Kind, g *vkit.Rand) []c17Lit {
	out := make([]c17Lit, len(kinds))
	for i, k := range kinds {
		out[i] = e.validLit(k, g)
	}
	for i, k := range kinds {
		// keep (start,end) pairs in the same family / order: use the same index in both pools
		if k == refc.KIPStart || k == refc.KTime {
			j := 0
			if g != nil {
				j = g.Intn(len(c17ValidByKind[k]))
			}
			out[i], _ = c17Str(c17ValidByKind[k][j], g)
			out[i+1], _ = c17Str(c17ValidByKind[kinds[i+1]][j%len(c17ValidByKind[kinds[i+1]])], g)
		}
		if k == refc.KTimeOfDay && i+1 < len(kinds) && kinds[i+1] == refc.KTimeOfDay {
			pairs := [][2]string{{"203000H", "204500H"}, {"000000Z", "235959Z"}, {"120000A", "120000A"}}
			p := pairs[0]
			if g != nil {
				p = pairs[g.Intn(len(pairs))]
			}
			out[i], _ = c17Str(p[0], g)
			out[i+1], _ = c17Str(p[1], g)
		}
	}
	return out
}

func c17Mutate(s string, g *vkit.Rand) string {
	b := []byte(s)
	n := g.Range(1, 3)
	alphabet := "0123456789-|.:Zz HJaf/\\()[]*+?{},\"`'\x00\xff\n\t"
	for k := 0; k < n; k++ {
		switch g.Intn(4) {
		case 0: // delete
			if len(b) > 0 {
				i := g.Intn(len(b))
				b = append(b[:i], b[i+1:]...)
			}
		case 1: // insert
			i := g.Intn(len(b) + 1)
			c := alphabet[g.Intn(len(alphabet))]
			b = append(b[:i], append([]byte{c}, b[i:]...)...)
		case 2: // replace
			if len(b) > 0 {
				b[g.Intn(len(b))] = alphabet[g.Intn(len(alphabet))]
			}
		case 3: // duplicate a slice
			if len(b) > 0 {
				i := g.Intn(len(b))
				j := i + g.Intn(len(b)-i)
				b = append(b[:j], append(append([]byte{}, b[i:j]...), b[j:]...)...)
			}
		}
	}
	return string(b)
}

func (e *c17Env) randLit(k refc.Kind, g *vkit.Rand) (c17Lit, bool) {
	switch g.Intn(10) {
	case 0:
		return c17NonString[g.Intn(len(c17NonString))], true
	case 1, 2:
		return c17Str(g.PickS(c17Generic), g)
	case 3, 4:
		if p := c17BoundaryByKind[k]; len(p) > 0 {
			return c17Str(g.PickS(p), g)
		}
		return c17Str(g.PickS(c17Generic), g)
	case 5, 6:
		if k == refc.KBool {
			return e.validLit(k, g), true
		}
		base := g.PickS(c17ValidByKind[k])
		return c17Str(c17Mutate(base, g), g)
	}
	return e.validLit(k, g), true
}

var c17UnknownNames = []string{"req_host", "req_host_inn", "REQ_HOST_IN", "Req_Host_In", "req_host_in2", "req-host-in", "reqhostin", "req_query_key_exist", "req_header_prefix_value_in", "ses_vip_in", "bfe_time", "x", "_", "default_tt", "true_t", "cond", "func1", "req_host_in_", "_req_host_in", "世界", "req_cip_trusted1"}

func c17(r *vkit.Run) {
	r.SetRule("(a) typed calls: every primitive of funcProtos (via the verif hook) x [all literal-type combinations {STRING,BOOL,INT} for arities 0..4] x [each argument position swept over ~130 generic boundary literals + the boundary pool of its documented kind, others valid] x [all pairs of the boundary pools for (start,end) IP / time / time-of-day arguments]; unknown primitive names; random calls with arguments drawn from the pools, non-literal tokens and 1-3 byte mutations of valid literals. Oracle: ref/cond validators (Valid/Invalid/Unspecified per argument kind, written from the doc pages); err==nil is a violation for unknown name, wrong arity, wrong literal type, or an Invalid argument; Unspecified corners (whitespace padding, lower-case zone letter, '+' sign, leading zeros in IPv4, leap second, year 0000, mixed IPv4/IPv6 range, periodic window wrapping midnight or mixing zones, period != \"\", ports/blank in host lists) carry no obligation. (b) strings: random token soup over valid calls/operators/parentheses (ungrammatical per ref parser => must error), the same with one primitive replaced by an identifier (unresolved variable => must error), every prefix of valid expressions, random bytes, byte mutations of valid expressions, deep nesting. Every successful Build must return a non-nil condition whose Match does not panic on a full and on a sparse request. Every case runs under recover (panic => violation named after the innermost bfe frame, shortest witness kept) and a 60 s per-case hang watchdog (=> inconclusive). Non-trivial = the oracle had an obligation or Build succeeded; distinct = source string.")
	r.Assume("regular-expression validity = Go regexp/syntax (Perl flags); for the 12 primitives without a doc page the arity and literal types are those of funcProtos itself, so for them only argument validity, unknown-name and totality are decided")

	e := &c17Env{r: r, protos: parser.VerifFuncProtos(), accRej: map[string]*[2]int64{}, slots: make([]c17Slot, 64), f: newFindings(r)}
	defer e.f.flush()
	for n := range e.protos {
		e.names = append(e.names, n)
	}
	sort.Strings(e.names)
	full := &refc.Req{Method: "GET", HostName: "a.example", Port: "8080", Path: "/x/y", Query: []refc.KV{{K: "a", V: "1"}}, Cookies: []refc.KV{{K: "c", V: "v"}},
		Headers: []refc.KV{{K: "X-Test", V: "v"}, {K: "User-Agent", V: "ua"}}, Proto: "h2", Secure: true, HasTLS: true, SNI: "a.example", ClientAuth: true, ClientCA: "ca1",
		CIP: "10.0.0.5", SIP: "10.0.0.6", VIP: "10.0.0.7", Trusted: true, Tags: map[string][]string{"t": {"v"}}, HostTag: "tag", Context: map[string]string{"k": "v"},
		HasResp: true, Status: 200, RespHeaders: []refc.KV{{K: "X-R", V: "1"}}}
	sparse := &refc.Req{Method: "GET", HostName: "a.example", Path: "/", Proto: "HTTP/1.1"}
	for _, q := range []*refc.Req{full, sparse} {
		b := toBfe(q, "20190204203000Z")
		b.CachedQuery()
		b.CachedCookie()
		e.reqs = append(e.reqs, b)
	}

	if r.Replay != "" {
		var w c17Witness
		var pw struct {
			Case *c17Witness `json:"case"`
		}
		if err := r.LoadReplay(&pw); err == nil && pw.Case != nil {
			w = *pw.Case
			w.Class = strings.TrimSuffix(w.Class, "+Match")
		} else if err := r.LoadReplay(&w); err != nil {
			r.Inconclusive(err.Error())
			return
		}
		if b, err := hex.DecodeString(w.SrcHex); err == nil && w.SrcHex != "" {
			w.Src = string(b)
		}
		e.run(0, w, true)
		r.SetMinDistinct(0)
		return
	}
	go e.watchdog(60 * time.Second)

	// harness knows every primitive?
	for _, n := range e.names {
		if _, ok := refc.Specs[n]; !ok {
			r.Count("primitives_without_reference", 1)
			r.Inconclusive("primitive " + n + " exists in funcProtos but the reference has no entry for it (add it to ref/cond)")
		}
	}
	r.Count("primitives", int64(len(e.names)))

	// ---- (a1) type/arity sweep
	type job struct {
		name  string
		lits  []c17Lit
		class string
	}
	var jobs []job
	typeLits := func(k refc.Kind, hasKind bool) []c17Lit {
		s := c17Lit{}
		if hasKind && k.IsString() {
			s = e.validLit(k, nil)
		} else {
			s, _ = c17Str("x", nil)
		}
		return []c17Lit{s, c17Raw("BOOL", "true"), c17Raw("INT", "1")}
	}
	allNames := append(append([]string{}, e.names...), c17UnknownNames...)
	for _, name := range allNames {
		kinds, _ := e.kindsFor(name)
		for n := 0; n <= 4; n++ {
			idx := make([]int, n)
			for {
				lits := make([]c17Lit, n)
				for i := 0; i < n; i++ {
					var k refc.Kind
					has := i < len(kinds)
					if has {
						k = kinds[i]
					}
					lits[i] = typeLits(k, has)[idx[i]]
				}
				// keep range pairs valid when both are strings of the right kind
				if n == len(kinds) {
					va := e.validArgs(kinds, nil)
					for i := range lits {
						if lits[i].Tok == "STRING" && kinds[i].IsString() {
							lits[i] = va[i]
						}
					}
				}
				jobs = append(jobs, job{name, lits, "type-arity"})
				i := 0
				for ; i < n; i++ {
					idx[i]++
					if idx[i] < 3 {
						break
					}
					idx[i] = 0
				}
				if i == n {
					break
				}
			}
		}
	}
	// ---- (a2) per-position boundary sweep
	for _, name := range e.names {
		kinds, _ := e.kindsFor(name)
		for pos, k := range kinds {
			var pool []c17Lit
			if k.IsString() {
				for _, s := range append(append([]string{}, c17Generic...), c17BoundaryByKind[k]...) {
					if l, ok := c17Str(s, nil); ok {
						pool = append(pool, l)
					}
				}
			}
			pool = append(pool, c17NonString...)
			for _, l := range pool {
				lits := e.validArgs(kinds, nil)
				lits[pos] = l
				jobs = append(jobs, job{name, lits, "position-sweep"})
			}
		}
		// ---- (a3) all pairs for range-like arguments
		for pos, k := range kinds {
			var pa, pb []string
			switch {
			case k == refc.KIPStart:
				pa = c17BoundaryByKind[refc.KIPStart]
				pb = pa
			case k == refc.KTime:
				pa = c17BoundaryByKind[refc.KTime]
				pb = pa
			case k == refc.KTimeOfDay && pos == 0:
				pa = c17BoundaryByKind[refc.KTimeOfDay]
				pb = pa
			default:
				continue
			}
			for _, a := range pa {
				for _, b := range pb {
					la, ok1 := c17Str(a, nil)
					lb, ok2 := c17Str(b, nil)
					if !ok1 || !ok2 {
						continue
					}
					lits := e.validArgs(kinds, nil)
					lits[pos], lits[pos+1] = la, lb
					jobs = append(jobs, job{name, lits, "pair-sweep"})
				}
			}
		}
	}
	r.Count("systematic_calls", int64(len(jobs)))
	vkit.Parallel(len(jobs), 0, func(i int) { e.call(i, jobs[i].name, jobs[i].lits, jobs[i].class) })

	// ---- (a4) random typed calls
	nRand := r.N(15000, 900000)
	vkit.Parallel(nRand, 0, func(i int) {
		g := r.Rng("typed", i)
		name := e.names[g.Intn(len(e.names))]
		if g.Chance(1, 25) {
			name = g.PickS(c17UnknownNames)
		}
		kinds, _ := e.kindsFor(name)
		n := len(kinds)
		if g.Chance(1, 6) {
			n = g.Intn(5)
		}
		base := e.validArgs(kinds, g)
		lits := make([]c17Lit, n)
		for j := 0; j < n; j++ {
			k := refc.KStr
			if j < len(kinds) {
				k = kinds[j]
			}
			if j < len(base) && g.Chance(1, 2) {
				lits[j] = base[j]
				continue
			}
			l, ok := e.randLit(k, g)
			if !ok {
				l, _ = c17Str("x", nil)
			}
			lits[j] = l
		}
		e.call(i, name, lits, "random-typed")
	})

	// ---- (b) strings
	atoms := []string{}
	for _, a := range c16Atoms {
		atoms = append(atoms, a.text)
	}
	atoms = append(atoms, "default_t()", `bfe_time_range("20190204203000H", "20190204204500H")`, `bfe_periodic_time_range("203000H", "204500H", "")`,
		`req_cookie_value_hash_in("uid", "100-200|400", true)`, "req_url_regmatch(`/s\\?word=123`)", `req_vip_in("10.0.0.1|::1")`, `req_tag_match("clientIP", "blocklist")`)
	pure := append(append([]string{}, atoms...), "&&", "||", "!", "(", ")", "&&", "||", "!", "(", ")")
	noise := []string{",", ";", "&", "|", "$x", "$", "foo", "bfe_host", "true", "false", "123", "1.5", `"str"`, "`raw`", "//c\n", "// c", "/", "/*", "*/", "'", "@", "#", "\x00", "\xff", "\xef\xbb\xbf", "`raw", `"unterminated`, `"bad\q"`, `"\x"`, `"\u12"`, `"\`,
		"default", "func", "range", "go", "req_host_in", "req_host_in(", "req_host_in()", `req_host_in("a",)`, `req_host_in(,"a")`, `req_host_in("a" "b")`, `req_host_in(("a"))`, `req_host_in(!"a")`, `req_host_in(req_host_in("a"))`, "=", "==", "!=", "&&&", "|||", "!!", "()", "(())", "\n", "\r", " ", "\t", "0x", "08", "1e", "1i", "-", "_", "a.b"}
	nSoup := r.N(8000, 400000)
	vkit.Parallel(nSoup, 0, func(i int) {
		g := r.Rng("soup", i)
		n := g.Range(0, 14)
		onlyPure := g.Chance(1, 2)
		var parts []string
		for k := 0; k < n; k++ {
			if onlyPure || g.Chance(3, 4) {
				parts = append(parts, g.PickS(pure))
			} else {
				parts = append(parts, g.PickS(noise))
			}
		}
		sep := " "
		if g.Chance(1, 4) {
			sep = ""
		}
		src := strings.Join(parts, sep)
		w := c17Witness{Src: src, Class: "token-soup"}
		if onlyPure {
			toks, err := refc.Tokenize(src)
			if err == nil {
				if _, perr := refc.ParseDocumented(toks); perr != nil {
					w.Expect = "accepts-ungrammatical:" + c16Trunc(refc.Skeleton(toks))
					if len(toks) == 0 {
						w.Expect = "accepts-ungrammatical:empty"
					}
				} else {
					r.Count("soup_grammatical", 1)
				}
			}
		}
		e.run(i, w, false)
	})
	// unresolved variables: a grammatical expression with one primitive replaced by an identifier
	nVar := r.N(1500, 60000)
	idents := []string{"foo", "bfe_host", "x", "news_host", "req_host_in", "default_t", "a-b", "_", "T", "世界"}
	vkit.Parallel(nVar, 0, func(i int) {
		g := r.Rng("var", i)
		leaves := g.Range(1, 5)
		skel := c16RandSkel(g, leaves, 3)
		victim := g.Intn(leaves)
		var b strings.Builder
		k := 0
		for j := 0; j < len(skel); j++ {
			switch skel[j] {
			case 'p':
				if k == victim {
					b.WriteString(g.PickS(idents))
				} else {
					b.WriteString(g.PickS(atoms))
				}
				k++
			case '&':
				b.WriteString(" && ")
			case '|':
				b.WriteString(" || ")
			default:
				b.WriteByte(skel[j])
			}
		}
		e.run(i, c17Witness{Src: b.String(), Class: "unresolved-variable", Expect: "accepts-unresolved-variable"}, true)
	})
	// every prefix of valid expressions
	var prefixes []c17Witness
	for i := 0; i < r.N(40, 400); i++ {
		g := r.Rng("prefix", i)
		leaves := g.Range(1, 4)
		skel := c16RandSkel(g, leaves, 3)
		var b strings.Builder
		for j := 0; j < len(skel); j++ {
			switch skel[j] {
			case 'p':
				b.WriteString(g.PickS(atoms))
			case '&':
				b.WriteString(g.PickS([]string{"&&", " && "}))
			case '|':
				b.WriteString(g.PickS([]string{"||", " || "}))
			default:
				b.WriteByte(skel[j])
			}
		}
		full := b.String()
		for cut := 0; cut < len(full); cut++ {
			src := full[:cut]
			w := c17Witness{Src: src, Class: "prefix"}
			toks, err := refc.Tokenize(src)
			if err != nil {
				w.Expect = "accepts-ungrammatical:truncated-lexical"
			} else if _, perr := refc.ParseDocumented(toks); perr != nil {
				w.Expect = "accepts-ungrammatical:truncated:" + c16Trunc(refc.Skeleton(toks))
			}
			prefixes = append(prefixes, w)
		}
	}
	r.Count("prefix_cases", int64(len(prefixes)))
	vkit.Parallel(len(prefixes), 0, func(i int) { e.run(i, prefixes[i], false) })
	// random bytes and byte mutations
	nBytes := r.N(6000, 300000)
	vkit.Parallel(nBytes, 0, func(i int) {
		g := r.Rng("bytes", i)
		var src string
		if g.Bool() {
			src = string(g.Bytes(g.Range(0, 48)))
		} else {
			// bytes biased to the language's alphabet
			al := "()!&|,;\"`'/\\ \n\t_-.$0189azAZ\x00\xff\xc3\xa9"
			n := g.Range(0, 40)
			b := make([]byte, n)
			for k := range b {
				b[k] = al[g.Intn(len(al))]
			}
			src = string(b)
		}
		e.run(i, c17Witness{Src: src, Class: "random-bytes"}, false)
	})
	nMut := r.N(6000, 300000)
	vkit.Parallel(nMut, 0, func(i int) {
		g := r.Rng("mut", i)
		base := g.PickS(atoms)
		if g.Bool() {
			base = g.PickS(atoms) + " && !(" + g.PickS(atoms) + " || " + g.PickS(atoms) + ")"
		}
		e.run(i, c17Witness{Src: c17Mutate(base, g), Class: "byte-mutation"}, false)
	})
	// deep nesting
	depths := []int{1, 10, 1000, r.N(20000, 200000)}
	var deep []c17Witness
	for _, d := range depths {
		a := "default_t()"
		deep = append(deep,
			c17Witness{Src: strings.Repeat("(", d) + a + strings.Repeat(")", d), Class: "deep-parens"},
			c17Witness{Src: strings.Repeat("!", d) + a, Class: "deep-nots"},
			c17Witness{Src: strings.Repeat("!(", d) + a + strings.Repeat(")", d), Class: "deep-not-parens"},
			c17Witness{Src: strings.Repeat(a+" && ", d) + a, Class: "long-and-chain"},
			c17Witness{Src: strings.Repeat(a+" || (", d) + a + strings.Repeat(")", d), Class: "deep-right-nesting"},
			c17Witness{Src: strings.Repeat("(", d) + a, Class: "deep-unbalanced", Expect: "accepts-ungrammatical:unbalanced-parens"},
			c17Witness{Src: strings.Repeat("(", d), Class: "deep-open-only", Expect: "accepts-ungrammatical:unbalanced-parens"},
			c17Witness{Src: "req_host_in(" + strings.Repeat(`"a",`, d) + `"a")`, Class: "many-args", Expect: "accepts-wrong-arity:too-many"},
			c17Witness{Src: `req_host_in("` + strings.Repeat("a|", d) + `")`, Class: "long-list"},
		)
	}
	for i := range deep {
		r.WriteAhead(map[string]interface{}{"class": deep[i].Class, "len": len(deep[i].Src)})
		e.run(i, deep[i], true)
		r.Count("deep_cases", 1)
	}

	// both outcomes per primitive
	for _, n := range e.names {
		ar := e.accRej[n]
		if ar == nil || ar[0] == 0 || ar[1] == 0 {
			r.Inconclusive(fmt.Sprintf("primitive %s: Build never produced both outcomes (accepted/rejected = %v)", n, ar))
		}
	}
	if r.Counter("cases_must_error") == 0 {
		r.Inconclusive("no case with an obligation to fail was generated")
	}
}
