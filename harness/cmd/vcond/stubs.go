package main

import "verifharness/vkit"

func c17(r *vkit.Run) {}
func c18(r *vkit.Run) {}
