package main

import (
	"fmt"
	"regexp"
	"sort"
	"strconv"
	"strings"
	"sync"

	"github.com/bfenetworks/bfe/bfe_basic/condition"
	"github.com/bfenetworks/bfe/bfe_basic/condition/parser"

	refc "verifharness/ref/cond"
	"verifharness/vkit"
)

// C18: every primitive is true exactly when the inspected attribute satisfies
// the documented test; a missing attribute makes it false.
// Oracle: ref/cond.Specs (one reference function per primitive, written from
// the doc pages) on the harness' own request model.

type c18Case struct {
	Prim     string     `json:"primitive"`
	Args     []refc.Arg `json:"args"`
	Src      string     `json:"src"`
	Req      refc.Req   `json:"request"`
	Debug    string     `json:"x_bfe_debug_time,omitempty"`
	Now      int64      `json:"now_unix,omitempty"`
	Mutation string     `json:"mutation"`
	Want     bool       `json:"want"`
	Got      bool       `json:"got"`
}

type c18Env struct {
	r  *vkit.Run
	f  *findings
	mu sync.Mutex
	tf map[string]*[2]int64 // per primitive: reference said true / false
}

// ---- pools --------------------------------------------------------------------
// No two entries of a pool are equal under ASCII case folding.

var (
	c18Hosts   = []string{"www.Example.com", "a.example", "API.a.example", "b.example.org", "x", "bfe-networks.com"}
	c18Paths   = []string{"/api/Search", "/api/list", "/", "/a/b/c", "/index.PHP", "/api/report", "/api/reportx", "/static/img.png", "/A", "/api/report/daily"}
	c18Tokens  = []string{"abc", "Test-Id_9", "x", "100", "firefox/2.0.4", "Mozilla", "z9", "hello world", "a=b&c", "ünï-1", "q", "Chrome"}
	c18CookieV = []string{"abc", "Test-Id_9", "x", "100", "devid.2", "Mozilla", "z9", "q"}
	c18QKeys   = []string{"uid", "word", "wd", "rid", "cid", "ridx"}
	c18CKeys   = []string{"uid", "deviceid", "cid", "uss"}
	c18HKeys   = []string{"X-Test", "Referer", "X-Device-Id", "Header-Test", "Accept"}
	c18XKeys   = []string{"k1", "ctx", "user.level"}
	c18Methods = []string{"GET", "POST", "PUT", "DELETE", "HEAD", "PATCH"}
	c18Protos  = []string{"HTTP/1.1", "HTTP/1.0", "h2", "spdy/3.1", "h2c", "stream"}
	c18Ports   = []string{"80", "8080", "443", "8", "65535"}
	c18Codes   = []string{"200", "404", "500", "301", "20"}
	c18CAs     = []string{"ca1", "ca2", "Root-CA", "c"}
	c18Tags    = []string{"blocklist", "allow", "bot", "vip-user"}
	c18TagKeys = []string{"clientIP", "ua", "geo"}
	c18Zones   = "ABCDEFGHIKLMNOPQRSTUVWXYZ"
)

func c18Pick(g *vkit.Rand, pool []string, n int) []string {
	p := g.Perm(len(pool))
	if n > len(pool) {
		n = len(pool)
	}
	out := make([]string, n)
	for i := 0; i < n; i++ {
		out[i] = pool[p[i]]
	}
	return out
}

func flipCase(s string) string {
	b := []byte(s)
	for i, c := range b {
		switch {
		case c >= 'a' && c <= 'z':
			b[i] = c - 32
		case c >= 'A' && c <= 'Z':
			b[i] = c + 32
		}
	}
	return string(b)
}

func setKV(kvs []refc.KV, k, v string) []refc.KV {
	out := delKV(kvs, k)
	return append(out, refc.KV{K: k, V: v})
}

func delKV(kvs []refc.KV, k string) []refc.KV {
	var out []refc.KV
	for _, e := range kvs {
		if e.K != k {
			out = append(out, e)
		}
	}
	return out
}

func c18RandIP(g *vkit.Rand) string {
	var ip [16]byte
	if g.Chance(2, 3) {
		ip[10], ip[11] = 0xff, 0xff
		copy(ip[12:], g.Bytes(4))
		return refc.FormatIP(ip, true)
	}
	copy(ip[:], g.Bytes(16))
	if g.Bool() {
		for i := 2; i < 14; i++ {
			ip[i] = 0
		}
	}
	return refc.FormatIP(ip, false)
}

// c18RandReq draws a plausible request with every attribute class populated at random.
func c18RandReq(g *vkit.Rand) *refc.Req {
	q := &refc.Req{
		Method:   g.PickS(c18Methods),
		HostName: g.PickS(c18Hosts),
		Path:     g.PickS(c18Paths),
		Proto:    g.PickS(c18Protos),
		Short4:   g.Bool(),
	}
	if g.Bool() {
		q.Port = g.PickS(c18Ports)
	}
	for _, k := range c18Pick(g, c18QKeys, g.Intn(3)) {
		q.Query = append(q.Query, refc.KV{K: k, V: g.PickS(c18Tokens)})
	}
	for _, k := range c18Pick(g, c18CKeys, g.Intn(3)) {
		q.Cookies = append(q.Cookies, refc.KV{K: k, V: g.PickS(c18CookieV)})
	}
	for _, k := range c18Pick(g, c18HKeys, g.Intn(3)) {
		q.Headers = append(q.Headers, refc.KV{K: k, V: g.PickS(c18Tokens)})
	}
	if g.Bool() {
		q.Headers = append(q.Headers, refc.KV{K: "User-Agent", V: g.PickS(c18Tokens)})
	}
	q.Secure = g.Bool()
	q.HasTLS = q.Secure && g.Chance(4, 5) || !q.Secure && g.Chance(1, 8)
	if q.HasTLS {
		if g.Chance(3, 4) {
			q.SNI = g.PickS(c18Hosts)
		}
		q.ClientAuth = g.Bool()
		if g.Chance(3, 4) {
			q.ClientCA = g.PickS(c18CAs)
		}
	}
	if g.Chance(5, 6) {
		q.CIP = c18RandIP(g)
	}
	if g.Chance(5, 6) {
		q.SIP = c18RandIP(g)
	}
	if g.Chance(5, 6) {
		q.VIP = c18RandIP(g)
	}
	q.Trusted = g.Bool()
	if g.Bool() {
		q.Tags = map[string][]string{}
		for _, k := range c18Pick(g, c18TagKeys, g.Range(1, 2)) {
			q.Tags[k] = c18Pick(g, c18Tags, g.Range(1, 2))
		}
	}
	if g.Bool() {
		q.HostTag = g.PickS(c18Tags)
	}
	if g.Bool() {
		q.Context = map[string]string{}
		for _, k := range c18Pick(g, c18XKeys, g.Range(1, 2)) {
			q.Context[k] = g.PickS(c18Tokens)
		}
	}
	if g.Chance(2, 3) {
		q.HasResp = true
		q.Status, _ = strconv.Atoi(g.PickS(c18Codes))
		for _, k := range c18Pick(g, c18HKeys, g.Intn(3)) {
			q.RespHeaders = append(q.RespHeaders, refc.KV{K: k, V: g.PickS(c18Tokens)})
		}
	}
	return q
}

// ---- value-style primitives -----------------------------------------------------

func c18ValuePool(a refc.Attr) []string {
	switch a {
	case refc.AHost, refc.ASNI:
		return c18Hosts
	case refc.APath:
		return c18Paths
	case refc.APort:
		return c18Ports
	case refc.AMethod:
		return c18Methods
	case refc.AProto:
		return c18Protos
	case refc.ACookieValue:
		return c18CookieV
	case refc.AResCode:
		return c18Codes
	case refc.AClientCA:
		return c18CAs
	case refc.AHostTag:
		return c18Tags
	}
	return c18Tokens
}

func c18KeyPool(a refc.Attr) []string {
	switch a {
	case refc.AQueryValue, refc.AQueryKey:
		return c18QKeys
	case refc.ACookieValue, refc.ACookieKey:
		return c18CKeys
	case refc.AContext:
		return c18XKeys
	case refc.ATag:
		return c18TagKeys
	}
	return c18HKeys
}

// c18SetValue makes the inspected attribute carry value v (present=true) or be
// absent. It returns false when this attribute cannot express that.
func c18SetValue(q *refc.Req, spec refc.Spec, key, v string, present bool, g *vkit.Rand) bool {
	switch spec.Attr {
	case refc.AHost:
		if !present || v == "" || strings.ContainsAny(v, ":[] ") {
			return false
		}
		q.HostName = v
	case refc.APort:
		if !present || v == "" || !isDigits(v) {
			return false // Host header without a port: default port is undocumented
		}
		q.Port = v
	case refc.APath:
		if !present {
			return false
		}
		q.Path = v
	case refc.AMethod:
		if !present || v == "" {
			return false
		}
		q.Method = v
	case refc.AProto:
		if !present || v == "" {
			return false
		}
		q.Proto = v
	case refc.AUA:
		if present {
			q.Headers = setKV(q.Headers, "User-Agent", v)
		} else {
			q.Headers = delKV(q.Headers, "User-Agent")
		}
	case refc.AQueryValue:
		if present {
			q.Query = setKV(q.Query, key, v)
		} else {
			q.Query = delKV(q.Query, key)
		}
	case refc.ACookieValue:
		if present {
			if strings.ContainsAny(v, " \",;\\") || !isASCII(v) {
				return false
			}
			q.Cookies = setKV(q.Cookies, key, v)
		} else {
			q.Cookies = delKV(q.Cookies, key)
		}
	case refc.AHeaderValue:
		if present {
			q.Headers = setKV(q.Headers, key, v)
		} else {
			q.Headers = delKV(q.Headers, key)
		}
	case refc.AResHeaderValue:
		if present {
			q.HasResp = true
			if q.Status == 0 {
				q.Status = 200
			}
			q.RespHeaders = setKV(q.RespHeaders, key, v)
		} else if g.Bool() {
			q.HasResp, q.RespHeaders, q.Status = false, nil, 0
		} else {
			q.RespHeaders = delKV(q.RespHeaders, key)
		}
	case refc.AContext:
		if present {
			if q.Context == nil {
				q.Context = map[string]string{}
			}
			q.Context[key] = v
		} else if g.Bool() {
			q.Context = nil
		} else {
			delete(q.Context, key)
		}
	case refc.AHostTag:
		if present && v == "" {
			return false
		}
		if present {
			q.HostTag = v
		} else {
			q.HostTag = ""
		}
	case refc.ASNI:
		if present {
			if v == "" {
				return false
			}
			q.Secure, q.HasTLS, q.SNI = true, true, v
		} else {
			switch g.Intn(3) {
			case 0:
				q.Secure, q.HasTLS = false, false
			case 1:
				q.Secure, q.HasTLS = true, false
			default:
				q.Secure, q.HasTLS, q.SNI = true, true, ""
			}
		}
	case refc.AClientCA:
		if present {
			if v == "" {
				return false
			}
			q.Secure, q.HasTLS, q.ClientAuth, q.ClientCA = true, true, true, v
		} else {
			switch g.Intn(4) {
			case 0:
				q.Secure, q.HasTLS = false, false
			case 1:
				q.Secure, q.HasTLS = true, false
			case 2:
				q.Secure, q.HasTLS, q.ClientAuth = true, true, false // CA name recorded but mutual auth off
				if q.ClientCA == "" {
					q.ClientCA = v
				}
			default:
				q.Secure, q.HasTLS, q.ClientAuth, q.ClientCA = true, true, true, ""
			}
		}
	case refc.AResCode:
		if present {
			n, err := strconv.Atoi(v)
			if err != nil || n <= 0 || strconv.Itoa(n) != v {
				return false
			}
			q.HasResp, q.Status = true, n
		} else {
			q.HasResp, q.RespHeaders, q.Status = false, nil, 0
		}
	default:
		return false
	}
	return true
}

func isDigits(s string) bool {
	for i := 0; i < len(s); i++ {
		if s[i] < '0' || s[i] > '9' {
			return false
		}
	}
	return s != ""
}

func isASCII(s string) bool {
	for i := 0; i < len(s); i++ {
		if s[i] >= 0x80 {
			return false
		}
	}
	return true
}

// genValue: value-style primitive (in/prefix/suffix/contain/element-prefix/regmatch).
func (e *c18Env) genValue(spec refc.Spec, g *vkit.Rand) *c18Case {
	q := c18RandReq(g)
	pool := c18ValuePool(spec.Attr)
	pats := c18Pick(g, pool, g.Range(1, 3))
	if spec.Class == refc.MExact {
		pats = pats[:1]
	}
	if spec.Class == refc.MElemPrefix {
		for i := range pats {
			if g.Bool() && !strings.HasSuffix(pats[i], "/") {
				pats[i] += "/"
			}
		}
	}
	matchEmpty := false
	if g.Chance(1, 10) && spec.Attr != refc.AHost && spec.Attr != refc.APath && spec.Attr != refc.APort && spec.Class != refc.MExact {
		pats = append(pats, "") // an empty pattern: matches an empty (not a missing) value
		matchEmpty = true
	}
	base := pats[g.Intn(len(pats))]
	key := ""
	if spec.HasKey() {
		key = g.PickS(c18KeyPool(spec.Attr))
	}
	ci := false
	if spec.CaseIndex() >= 0 {
		ci = g.Bool()
	}
	// the argument list
	var args []refc.Arg
	patArg := strings.Join(pats, "|")
	if spec.Class == refc.MRegexp {
		lit := regexp.QuoteMeta(base)
		forms := []string{"^" + lit + "$", lit, "^" + lit, lit + "$", "^" + lit + ".+", "(" + lit + "|zzz)$", "^$", ".*", "^[0-9]+$"}
		patArg = forms[g.Intn(len(forms))]
		matchEmpty = patArg == "^$" || patArg == ".*"
	}
	if key != "" {
		args = append(args, refc.Arg{S: key})
	}
	args = append(args, refc.Arg{S: patArg})
	if spec.CaseIndex() >= 0 {
		args = append(args, refc.Arg{B: ci, IsBool: true})
	}
	// the mutation
	muts := []string{"exact", "exact", "case", "ext-suffix", "ext-prefix", "infix", "trunc", "other", "missing", "empty"}
	if spec.Class == refc.MElemPrefix {
		muts = append(muts, "elem-child", "elem-sibling", "elem-noslash", "elem-child")
	}
	if matchEmpty {
		muts = append(muts, "missing", "missing", "empty")
	}
	mut := muts[g.Intn(len(muts))]
	v, present := base, true
	switch mut {
	case "case":
		if spec.Case == refc.CaseSilent || !isASCII(base) {
			mut = "exact"
		} else {
			v = flipCase(base)
			if g.Bool() { // flip only one letter
				for i := 0; i < len(base); i++ {
					if c := base[i]; c >= 'a' && c <= 'z' || c >= 'A' && c <= 'Z' {
						v = base[:i] + flipCase(base[i:i+1]) + base[i+1:]
						break
					}
				}
			}
		}
	case "ext-suffix":
		v = base + g.PickS([]string{"x", "/", "0", "X"})
	case "ext-prefix":
		v = g.PickS([]string{"x", "/", "0", "X"}) + base
	case "infix":
		v = g.PickS([]string{"x", "/q", "0"}) + base + g.PickS([]string{"y", "/", "1"})
	case "trunc":
		if len(base) == 0 {
			return nil
		}
		v = base[:len(base)-1]
	case "other":
		v = g.PickS(pool)
	case "missing":
		present = false
	case "empty":
		v = ""
	case "elem-child":
		v = strings.TrimSuffix(base, "/") + "/" + g.PickS([]string{"sub", "x/y", ""})
	case "elem-sibling":
		v = strings.TrimSuffix(base, "/") + g.PickS([]string{"x", "-old", ".bak"})
	case "elem-noslash":
		v = strings.TrimSuffix(base, "/")
	}
	if spec.Class == refc.MElemPrefix && strings.Contains(strings.TrimPrefix(v, "/"), "//") {
		return nil // empty path elements: not covered by the docs
	}
	if ci && !isASCII(v+patArg) {
		return nil // case folding of non-ASCII text is not documented
	}
	if !c18SetValue(q, spec, key, v, present, g) {
		return nil
	}
	if spec.Attr == refc.APort && q.Port == "" {
		return nil
	}
	return &c18Case{Prim: spec.Name, Args: args, Req: *q, Mutation: mut}
}

// genURL: req_url_regmatch inspects path?query.
func (e *c18Env) genURL(spec refc.Spec, g *vkit.Rand) *c18Case {
	q := c18RandReq(g)
	uri := q.URI()
	var pat, mut string
	switch g.Intn(7) {
	case 0:
		pat, mut = "^"+regexp.QuoteMeta(uri)+"$", "exact"
	case 1:
		pat, mut = regexp.QuoteMeta(q.Path)+`\?`, "path-then-query"
	case 2:
		pat, mut = "^"+regexp.QuoteMeta(g.PickS(c18Paths))+`(\?|$)`, "some-path"
	case 3:
		pat, mut = `\?.*`+regexp.QuoteMeta(g.PickS(c18QKeys))+"=", "query-key"
	case 4:
		pat, mut = `^/api/[a-zA-Z]+$`, "class"
	case 5:
		pat, mut = `/s\?word=123`, "doc-example"
		if g.Bool() {
			q.Path, q.Query = "/s", []refc.KV{{K: "word", V: "123"}}
		}
	default:
		pat, mut = regexp.QuoteMeta(g.PickS(c18Tokens)), "token"
	}
	return &c18Case{Prim: spec.Name, Args: []refc.Arg{{S: pat}}, Req: *q, Mutation: mut}
}

// genKey: *_key_in / *_key_prefix_in.
func (e *c18Env) genKey(spec refc.Spec, g *vkit.Rand) *c18Case {
	q := c18RandReq(g)
	pool := c18KeyPool(spec.Attr)
	pats := c18Pick(g, pool, g.Range(1, 3))
	base := pats[g.Intn(len(pats))]
	mut := g.PickS([]string{"present", "present", "absent", "absent-all", "present-empty-value", "longer-key", "shorter-key"})
	if spec.Class == refc.MKeyPrefixIn && g.Bool() {
		// patterns are proper prefixes
		for i := range pats {
			if len(pats[i]) > 1 {
				pats[i] = pats[i][:len(pats[i])-1]
			}
		}
		base = pats[g.Intn(len(pats))]
	}
	kvs := func() *[]refc.KV {
		switch spec.Attr {
		case refc.AQueryKey:
			return &q.Query
		case refc.ACookieKey:
			return &q.Cookies
		case refc.AHeaderKey:
			return &q.Headers
		}
		q.HasResp = true
		if q.Status == 0 {
			q.Status = 200
		}
		return &q.RespHeaders
	}()
	val := g.PickS(c18CookieV)
	switch mut {
	case "present":
		*kvs = setKV(*kvs, base, val)
	case "absent":
		for _, p := range pats {
			*kvs = delKV(*kvs, p)
		}
	case "absent-all":
		*kvs = nil
		if spec.Attr == refc.AResHeaderKey && g.Bool() {
			q.HasResp, q.Status = false, 0
		}
	case "present-empty-value":
		for _, p := range pats {
			*kvs = delKV(*kvs, p)
		}
		*kvs = setKV(*kvs, base, "")
	case "longer-key":
		for _, p := range pats {
			*kvs = delKV(*kvs, p)
		}
		k := base + "x"
		if spec.Attr == refc.AHeaderKey || spec.Attr == refc.AResHeaderKey {
			k = base + "-Ext" // stays canonical
		}
		*kvs = setKV(*kvs, k, val)
	case "shorter-key":
		for _, p := range pats {
			*kvs = delKV(*kvs, p)
		}
		if len(base) < 2 {
			return nil
		}
		k := base[:len(base)-1]
		if spec.Attr == refc.AHeaderKey || spec.Attr == refc.AResHeaderKey {
			if strings.HasSuffix(k, "-") {
				return nil
			}
		}
		*kvs = setKV(*kvs, k, val)
	}
	// keys must stay unique per container and must not collide case-insensitively with a pattern
	return &c18Case{Prim: spec.Name, Args: []refc.Arg{{S: strings.Join(pats, "|")}}, Req: *q, Mutation: mut}
}

// genIP: *_range and req_vip_in.
func (e *c18Env) genIP(spec refc.Spec, g *vkit.Rand) *c18Case {
	q := c18RandReq(g)
	v4 := g.Chance(2, 3)
	var base [16]byte
	if v4 {
		base[10], base[11] = 0xff, 0xff
		switch g.Intn(4) {
		case 0: // around a byte carry
			copy(base[12:], []byte{10, 0, 0, byte(250 + g.Intn(6))})
		case 1:
			copy(base[12:], []byte{0, 0, 0, 0})
		case 2:
			copy(base[12:], []byte{255, 255, 255, byte(240 + g.Intn(10))})
		default:
			copy(base[12:], g.Bytes(4))
		}
	} else {
		switch g.Intn(3) {
		case 0:
			copy(base[:], []byte{0x20, 0x01, 0x0d, 0xb8})
			base[15] = byte(g.Intn(256))
			base[14] = 0xff
		case 1: // low v6 space
			base[15] = byte(g.Intn(4))
		default:
			copy(base[:], g.Bytes(16))
		}
	}
	width := g.PickS([]string{"0", "1", "9", "300", "70000"})
	w, _ := strconv.Atoi(width)
	end, ok := refc.AddIP(base, w, v4)
	if !ok {
		end = base
		w = 0
	}
	mut := g.PickS([]string{"start", "end", "start-1", "end+1", "inside", "far", "other-family", "missing", "inside", "start", "end"})
	var addr [16]byte
	addrV4 := v4
	present := true
	switch mut {
	case "start":
		addr = base
	case "end":
		addr = end
	case "start-1":
		addr, ok = refc.AddIP(base, -1, v4)
		if !ok {
			return nil
		}
	case "end+1":
		addr, ok = refc.AddIP(end, 1, v4)
		if !ok {
			return nil
		}
	case "inside":
		addr, _ = refc.AddIP(base, g.Intn(w+1), v4)
	case "far":
		copy(addr[:], g.Bytes(16))
		if v4 {
			for i := 0; i < 10; i++ {
				addr[i] = 0
			}
			addr[10], addr[11] = 0xff, 0xff
		}
	case "other-family":
		addrV4 = !v4
		copy(addr[:], g.Bytes(16))
		if addrV4 {
			for i := 0; i < 10; i++ {
				addr[i] = 0
			}
			addr[10], addr[11] = 0xff, 0xff
		} else if addr[0] == 0 {
			addr[0] = 0x20
		}
	case "missing":
		present = false
	}
	text := ""
	if present {
		text = refc.FormatIP(addr, addrV4)
		if !addrV4 && isMapped(addr) {
			return nil
		}
	}
	switch spec.Attr {
	case refc.ACIP:
		q.CIP = text
	case refc.ASIP:
		q.SIP = text
	case refc.AVIP:
		q.VIP = text
	}
	var args []refc.Arg
	if spec.Class == refc.MIPIn {
		// a list: start, end and maybe unrelated addresses
		l := []string{refc.FormatIP(base, v4)}
		if w > 0 {
			l = append(l, refc.FormatIP(end, v4))
		}
		if g.Bool() {
			l = append(l, c18RandIP(g))
		}
		if g.Bool() {
			l[0], l[len(l)-1] = l[len(l)-1], l[0]
		}
		args = []refc.Arg{{S: strings.Join(l, "|")}}
	} else {
		args = []refc.Arg{{S: refc.FormatIP(base, v4)}, {S: refc.FormatIP(end, v4)}}
	}
	return &c18Case{Prim: spec.Name, Args: args, Req: *q, Mutation: mut}
}

func (e *c18Env) genTag(spec refc.Spec, g *vkit.Rand) *c18Case {
	q := c18RandReq(g)
	name, val := g.PickS(c18TagKeys), g.PickS(c18Tags)
	mut := g.PickS([]string{"has", "has-among-others", "other-values", "other-name", "no-tags", "longer-value", "has"})
	if q.Tags == nil {
		q.Tags = map[string][]string{}
	}
	others := func() []string {
		var o []string
		for _, t := range c18Pick(g, c18Tags, 2) {
			if t != val {
				o = append(o, t)
			}
		}
		return o
	}
	switch mut {
	case "has":
		q.Tags[name] = []string{val}
	case "has-among-others":
		q.Tags[name] = append(others(), val)
	case "other-values":
		q.Tags[name] = others()
	case "other-name":
		delete(q.Tags, name)
		q.Tags[name+"2"] = []string{val}
	case "no-tags":
		q.Tags = nil
	case "longer-value":
		q.Tags[name] = []string{val + "x", "x" + val}
	}
	return &c18Case{Prim: spec.Name, Args: []refc.Arg{{S: name}, {S: val}}, Req: *q, Mutation: mut}
}

func (e *c18Env) genConst(spec refc.Spec, g *vkit.Rand) *c18Case {
	q := c18RandReq(g)
	return &c18Case{Prim: spec.Name, Req: *q, Mutation: "random-request"}
}

func (e *c18Env) genTime(spec refc.Spec, g *vkit.Rand) *c18Case {
	q := c18RandReq(g)
	zone := func() byte { return c18Zones[g.Intn(len(c18Zones))] }
	c := &c18Case{Prim: spec.Name, Req: *q}
	if spec.Class == refc.MTime {
		start := int64(946684800) + int64(g.Intn(1200000000)) // 2000..2038
		if g.Chance(1, 6) {
			start = start / 86400 * 86400 // midnight UTC: date changes across zones
		}
		width := []int64{0, 1, 59, 900, 86400, 40000000}[g.Intn(6)]
		end := start + width
		mut := g.PickS([]string{"start", "end", "start-1", "end+1", "inside", "far-before", "far-after", "start", "end"})
		var now int64
		switch mut {
		case "start":
			now = start
		case "end":
			now = end
		case "start-1":
			now = start - 1
		case "end+1":
			now = end + 1
		case "inside":
			now = start + int64(g.Intn(int(width)+1))
		case "far-before":
			now = start - 86400*int64(g.Range(1, 4000))
		case "far-after":
			now = end + 86400*int64(g.Range(1, 4000))
		}
		c.Args = []refc.Arg{{S: refc.FormatTime(start, zone())}, {S: refc.FormatTime(end, zone())}}
		c.Now, c.Debug, c.Mutation = now, refc.FormatTime(now, zone()), mut
		return c
	}
	// periodic
	z := zone()
	s := g.Intn(86400)
	e2 := s + []int{0, 1, 900, 3600, 86399}[g.Intn(5)]
	if e2 > 86399 {
		e2 = 86399
	}
	if g.Chance(1, 8) {
		s, e2 = 0, 86399
	}
	mut := g.PickS([]string{"start", "end", "start-1", "end+1", "inside", "far", "start", "end"})
	var tod int
	switch mut {
	case "start":
		tod = s
	case "end":
		tod = e2
	case "start-1":
		tod = s - 1
	case "end+1":
		tod = e2 + 1
	case "inside":
		tod = s + g.Intn(e2-s+1)
	case "far":
		tod = g.Intn(86400)
	}
	if tod < 0 || tod > 86399 {
		return nil
	}
	off, _ := refc.ZoneOffset(z)
	day := int64(10957 + g.Intn(14000))
	now := day*86400 + int64(tod) - int64(off)*3600
	c.Args = []refc.Arg{{S: refc.FormatTimeOfDay(s, z)}, {S: refc.FormatTimeOfDay(e2, z)}, {S: ""}}
	c.Now, c.Debug, c.Mutation = now, refc.FormatTime(now, zone()), mut
	return c
}

// ---- checking -------------------------------------------------------------------

func (e *c18Env) build(c *c18Case, g *vkit.Rand) (condition.Condition, bool) {
	var b interface{ Bool() bool }
	if g != nil {
		b = g
	}
	src, ok := renderCall(c.Prim, c.Args, b)
	if !ok {
		return nil, false
	}
	c.Src = src
	var cond condition.Condition
	var err error
	if e.f.try(len(src), func() interface{} { return c }, func() { cond, err = condition.Build(src) }) {
		return nil, false
	}
	if err != nil || cond == nil {
		e.f.add("build-rejected-valid:"+c.Prim, fmt.Sprintf("Build(%s) failed for documented-valid arguments: %v", src, err), len(src), c)
		return nil, false
	}
	return cond, true
}

func (e *c18Env) match(cond condition.Condition, c *c18Case) (got bool, ok bool) {
	req := toBfe(&c.Req, c.Debug)
	if e.f.try(len(c.Src)+1000, func() interface{} { return c }, func() { got = cond.Match(req) }) {
		return false, false
	}
	return got, true
}

func (e *c18Env) tally(prim string, want bool) {
	e.mu.Lock()
	t := e.tf[prim]
	if t == nil {
		t = &[2]int64{}
		e.tf[prim] = t
	}
	if want {
		t[0]++
	} else {
		t[1]++
	}
	e.mu.Unlock()
}

func c18ArgStrings(c *c18Case) []string {
	out := make([]string, len(c.Args))
	for i, a := range c.Args {
		out[i] = a.S
	}
	return out
}

// checkCase runs one non-hash case.
func (e *c18Env) checkCase(spec refc.Spec, c *c18Case, g *vkit.Rand) {
	r := e.r
	if v, _ := refc.ValidateArgs(spec.Kinds, c18ArgStrings(c)); v != refc.Valid {
		r.Count("skipped_args_not_documented_valid", 1)
		return
	}
	want := spec.Eval(c.Args, &c.Req, c.Now)
	if spec.EvalFold != nil && spec.EvalFold(c.Args, &c.Req, c.Now) != want {
		r.Count("skipped_case_only_difference_undocumented", 1)
		return
	}
	cond, ok := e.build(c, g)
	if !ok {
		r.CaseS(c.Src, false)
		return
	}
	got, ok := e.match(cond, c)
	if !ok {
		r.CaseS(c.Src, true)
		return
	}
	c.Want, c.Got = want, got
	e.tally(spec.Name, want)
	r.CaseS(fmt.Sprintf("%s|%v|%s", c.Src, c.Req, c.Debug), true)
	if got != want {
		sig := fmt.Sprintf("%s:%s:want-%v", spec.Name, c.Mutation, want)
		switch {
		case c.Mutation == "missing" && !want:
			sig = "missing-attr-true:" + spec.Attr.String()
		case c.Mutation == "present-empty-value" && want:
			sig = "key-with-empty-value-treated-absent:" + spec.Attr.String()
		}
		e.f.add(sig, fmt.Sprintf("%s on %s=%s: got %v, documented semantics give %v", c.Src, spec.Attr, c.Mutation, got, want), len(c.Src)+len(fmt.Sprint(c.Req)), c)
	}
	if r.WantSample() && g != nil && g.Chance(1, 50) {
		r.Sample(map[string]interface{}{"src": c.Src, "mutation": c.Mutation, "want": want, "got": got})
	}
}

// ---- hash primitives --------------------------------------------------------------
// The hash function is not documented ("value after hash is 0~9999"), so the
// bucket of a value is LOCATED by bisection over range arguments; then every
// list/range argument must match iff it contains that bucket.

type c18HashCase struct {
	Prim    string   `json:"primitive"`
	Key     string   `json:"key,omitempty"`
	Value   string   `json:"value"`
	Req     refc.Req `json:"request"`
	Insens  bool     `json:"case_insensitive"`
	Bucket  int      `json:"located_bucket"`
	Pattern string   `json:"pattern,omitempty"`
	Src     string   `json:"src,omitempty"`
	Want    bool     `json:"want"`
	Got     bool     `json:"got"`
	Step    string   `json:"step"`
}

func (e *c18Env) hashArgs(spec refc.Spec, key, pattern string, ci bool) []refc.Arg {
	var a []refc.Arg
	if spec.HasKey() {
		a = append(a, refc.Arg{S: key})
	}
	a = append(a, refc.Arg{S: pattern})
	if spec.CaseIndex() >= 0 {
		a = append(a, refc.Arg{B: ci, IsBool: true})
	}
	return a
}

func (e *c18Env) hashEval(spec refc.Spec, hc *c18HashCase, q *refc.Req, pattern string) (got, ok bool) {
	c := &c18Case{Prim: spec.Name, Args: e.hashArgs(spec, hc.Key, pattern, hc.Insens), Req: *q, Mutation: "hash:" + hc.Step}
	cond, ok := e.build(c, nil)
	if !ok {
		return false, false
	}
	hc.Src = c.Src
	e.r.Evals(1)
	return e.match(cond, c)
}

func (e *c18Env) checkHash(spec refc.Spec, g *vkit.Rand) {
	r := e.r
	q := c18RandReq(g)
	hc := &c18HashCase{Prim: spec.Name}
	hc.Insens = spec.CaseIndex() >= 0 && g.Bool()
	present := !g.Chance(1, 8)
	var set func(q *refc.Req, v string)
	switch spec.Attr {
	case refc.ACIP:
		hc.Value = c18RandIP(g)
		set = func(q *refc.Req, v string) { q.CIP = v }
		if !present {
			hc.Value = ""
		}
		q.CIP = hc.Value
	default:
		hc.Key = g.PickS(c18KeyPool(spec.Attr))
		pool := c18Tokens
		if spec.Attr == refc.ACookieValue {
			pool = c18CookieV
		}
		hc.Value = g.PickS(pool) + g.PickS([]string{"", "1", "-A", "Zz"})
		if spec.Attr == refc.ACookieValue && (!isASCII(hc.Value) || strings.ContainsAny(hc.Value, " \",;\\")) {
			return
		}
		vs := refc.Spec{Attr: spec.Attr}
		set = func(q *refc.Req, v string) { c18SetValue(q, vs, hc.Key, v, true, g) }
		if present {
			set(q, hc.Value)
		} else {
			c18SetValue(q, vs, hc.Key, "", false, g)
		}
	}
	hc.Req = *q
	fail := func(sig, what string) {
		e.f.add(sig, what, len(hc.Src)+len(fmt.Sprint(hc.Req)), *hc)
	}
	// whole range
	hc.Step = "whole-range"
	got, ok := e.hashEval(spec, hc, q, "0-9999")
	if !ok {
		return
	}
	if !present {
		// a missing attribute makes the primitive false, whatever the buckets
		e.tally(spec.Name, false)
		r.CaseS(fmt.Sprintf("%s|missing|%v", spec.Name, *q), true)
		if got {
			hc.Want, hc.Got, hc.Pattern = false, true, "0-9999"
			fail("missing-attr-true:"+spec.Attr.String(), fmt.Sprintf("%s is true although the %s is missing", hc.Src, spec.Attr))
		}
		return
	}
	if !got {
		hc.Want, hc.Got, hc.Pattern = true, false, "0-9999"
		fail(spec.Name+":hash:whole-range-false", fmt.Sprintf("%s is false although every bucket 0-9999 is listed", hc.Src))
		return
	}
	// bisection
	lo, hi := 0, 9999
	hc.Step = "bisection"
	for lo < hi {
		mid := (lo + hi) / 2
		got, ok := e.hashEval(spec, hc, q, fmt.Sprintf("%d-%d", lo, mid))
		if !ok {
			return
		}
		if got {
			hi = mid
		} else {
			lo = mid + 1
		}
	}
	k := lo
	hc.Bucket = k
	demand := func(step, pattern string, q2 *refc.Req, want bool) bool {
		hc.Step, hc.Pattern = step, pattern
		got, ok := e.hashEval(spec, hc, q2, pattern)
		if !ok {
			return false
		}
		e.tally(spec.Name, want)
		if got != want {
			hc.Want, hc.Got = want, got
			fail(fmt.Sprintf("%s:hash:%s:want-%v", spec.Name, step, want),
				fmt.Sprintf("%s: value %q was located in bucket %d by bisection, so pattern %q must give %v, got %v", hc.Src, hc.Value, k, pattern, want, got))
			return false
		}
		return true
	}
	if !demand("singleton", strconv.Itoa(k), q, true) {
		return
	}
	if k > 0 && !demand("singleton-below", strconv.Itoa(k-1), q, false) {
		return
	}
	if k < 9999 && !demand("singleton-above", strconv.Itoa(k+1), q, false) {
		return
	}
	if k > 0 && !demand("range-ending-below", fmt.Sprintf("0-%d", k-1), q, false) {
		return
	}
	if k < 9999 && !demand("range-starting-above", fmt.Sprintf("%d-9999", k+1), q, false) {
		return
	}
	if !demand("range-ending-at", fmt.Sprintf("0-%d", k), q, true) || !demand("range-starting-at", fmt.Sprintf("%d-9999", k), q, true) {
		return
	}
	// random lists
	for j := 0; j < 6; j++ {
		var secs []string
		for n := g.Range(1, 4); n > 0; n-- {
			a := g.Intn(10000)
			switch g.Intn(5) {
			case 0:
				a = k
			case 1:
				a = k - g.Intn(3)
			case 2:
				a = k + g.Intn(3)
			}
			if a < 0 {
				a = 0
			}
			if a > 9999 {
				a = 9999
			}
			if g.Bool() {
				secs = append(secs, strconv.Itoa(a))
			} else {
				b := a + []int{0, 1, 2, 50, 5000}[g.Intn(5)]
				if b > 9999 {
					b = 9999
				}
				secs = append(secs, fmt.Sprintf("%d-%d", a, b))
			}
		}
		p := strings.Join(secs, "|")
		if refc.ValidateHashList(p) != refc.Valid {
			continue
		}
		if !demand("list", p, q, refc.HashListContains(p, k)) {
			return
		}
	}
	// case_insensitive=true: ASCII case variants share the bucket
	if hc.Insens && spec.Attr != refc.ACIP && isASCII(hc.Value) && flipCase(hc.Value) != hc.Value {
		q2 := *q
		q2.Query = append([]refc.KV(nil), q.Query...)
		q2.Cookies = append([]refc.KV(nil), q.Cookies...)
		q2.Headers = append([]refc.KV(nil), q.Headers...)
		set(&q2, flipCase(hc.Value))
		hc.Req = q2
		if !demand("case-variant-same-bucket", strconv.Itoa(k), &q2, true) {
			return
		}
		hc.Req = *q
	}
	// the two textual forms of an IPv4 client address are the same address
	if spec.Attr == refc.ACIP {
		q2 := *q
		q2.Short4 = !q.Short4
		hc.Req = q2
		if !demand("ipv4-4byte-vs-16byte-same-bucket", strconv.Itoa(k), &q2, true) {
			return
		}
	}
	r.CaseS(fmt.Sprintf("%s|%s|%s|%v", spec.Name, hc.Key, hc.Value, hc.Insens), true)
	r.Count("hash_values_located", 1)
}

// ---- driver ------------------------------------------------------------------------

func (e *c18Env) gen(spec refc.Spec, g *vkit.Rand) *c18Case {
	switch spec.Class {
	case refc.MConst:
		return e.genConst(spec, g)
	case refc.MKeyIn, refc.MKeyPrefixIn:
		return e.genKey(spec, g)
	case refc.MIPIn, refc.MIPRange:
		return e.genIP(spec, g)
	case refc.MTag:
		return e.genTag(spec, g)
	case refc.MTime, refc.MPeriodic:
		return e.genTime(spec, g)
	}
	if spec.Attr == refc.AURL {
		return e.genURL(spec, g)
	}
	return e.genValue(spec, g)
}

func c18(r *vkit.Run) {
	r.SetRule("per primitive N cases (quick 300, thorough 10000; hash primitives N/10 values with ~30 builds each): arguments are drawn from pools (1-3 patterns; now and then an empty pattern / a regexp matching the empty string), the request is a random full request whose inspected attribute is derived from a pattern by a named mutation: exact, case (one/all ASCII letters flipped), ext-suffix/ext-prefix/infix (pattern embedded), trunc, other, missing (attribute absent), empty (present but empty), path-element child/sibling, key present/absent/present-with-empty-value/longer/shorter, IP start-1/start/inside/end/end+1/far/other-family/missing in both the 4-byte and 16-byte form incl. ranges crossing byte carries and the extremes of both families, tag lists, time windows probed at start-1s/start/end/end+1s through X-Bfe-Debug-Time with start, end and 'now' written in independent zone letters. Oracle: ref/cond.Specs. *_hash_in: bucket located by bisection (the hash is undocumented), then singleton/neighbour/range/list arguments must match iff they contain the bucket; case_insensitive=true must put ASCII case variants in the same bucket. EXCLUDED (docs silent): Host without port for req_port_in (default port), IPv6-literal hosts, repeated query keys/cookies/header lines, tag values containing ':', non-canonical header names in patterns, letter case for primitives without a case_insensitive parameter other than req_host_in (cases where folding would change the reference value are skipped and counted), case folding of non-ASCII text, empty path elements for req_path_element_prefix_in, escapes inside \"...\" literals, non-string context values. The 12 primitives without a doc page (default_t, req_proto_match, req_host_regmatch, req_host_tag_in, req_host_suffix_in, req_path_regmatch, req_query_exist, req_query_value_regmatch, req_query_value_contain, req_ua_regmatch, req_header_value_regmatch, req_context_value_in) are judged by the naming convention page (in/suffix_in/contain/regmatch/match) and the property statement only. Non-trivial = primitive built and evaluated; distinct = (call, request, debug time).")
	r.Assume("regular expressions: Go regexp (stdlib) is the trusted engine; X-Bfe-Debug-Time carries the mock time in the documented yyyymmddhhmmssZ format (system/time.md Appendix A)")
	e := &c18Env{r: r, f: newFindings(r), tf: map[string]*[2]int64{}}
	defer e.f.flush()

	if r.Replay != "" {
		r.SetMinDistinct(0)
		var pw struct {
			Case *c18Case `json:"case"`
		}
		var c c18Case
		if err := r.LoadReplay(&pw); err == nil && pw.Case != nil {
			c = *pw.Case
		} else if err := r.LoadReplay(&c); err != nil {
			r.Inconclusive(err.Error())
			return
		}
		spec, ok := refc.Specs[c.Prim]
		if !ok {
			r.Inconclusive("unknown primitive in replay: " + c.Prim)
			return
		}
		if spec.Class == refc.MHash {
			var hc c18HashCase
			if len(c.Args) == 0 { // a recorded hash step (not a panic witness)
				if err := r.LoadReplay(&hc); err != nil {
					r.Inconclusive(err.Error())
					return
				}
				c.Args = e.hashArgs(spec, hc.Key, hc.Pattern, hc.Insens)
				c.Req = hc.Req
			}
			cond, ok := e.build(&c, nil)
			if !ok {
				return
			}
			got, ok := e.match(cond, &c)
			r.Evals(1)
			if !ok || hc.Step == "" {
				return
			}
			fmt.Printf("replay (hash step %s): %s -> %v (value located in bucket %d; want %v)\n", hc.Step, c.Src, got, hc.Bucket, hc.Want)
			if got != hc.Want {
				sig := fmt.Sprintf("%s:hash:%s:want-%v", spec.Name, hc.Step, hc.Want)
				if hc.Step == "whole-range" && !hc.Want {
					sig = "missing-attr-true:" + spec.Attr.String()
				} else if hc.Step == "whole-range" {
					sig = spec.Name + ":hash:whole-range-false"
				}
				hc.Got = got
				e.f.add(sig, "hash step replayed with the same result", len(c.Src), hc)
			}
			return
		}
		e.checkCase(spec, &c, nil)
		return
	}

	protos := parser.VerifFuncProtos()
	var names []string
	for n := range protos {
		if _, ok := refc.Specs[n]; !ok {
			r.Inconclusive("primitive " + n + " exists in funcProtos but the reference has no entry for it (add it to ref/cond)")
			continue
		}
		names = append(names, n)
	}
	for n, s := range refc.Specs {
		if _, ok := protos[n]; !ok && s.Documented {
			e.f.add("documented-primitive-missing:"+n, "primitive "+n+" is documented but unknown to the parser", 0, n)
		}
	}
	sort.Strings(names)
	r.Count("primitives", int64(len(names)))
	per := r.N(300, 10000)
	type job struct {
		spec refc.Spec
		i    int
	}
	var jobs []job
	for _, n := range names {
		spec := refc.Specs[n]
		cnt := per
		if spec.Class == refc.MHash {
			cnt = per / 10
		}
		for i := 0; i < cnt; i++ {
			jobs = append(jobs, job{spec, i})
		}
	}
	vkit.Parallel(len(jobs), 0, func(j int) {
		spec := jobs[j].spec
		g := r.Rng("c18:"+spec.Name, jobs[j].i)
		if spec.Class == refc.MHash {
			e.checkHash(spec, g)
			return
		}
		c := e.gen(spec, g)
		if c == nil {
			r.Count("skipped_not_expressible", 1)
			return
		}
		e.checkCase(spec, c, g)
	})

	for _, n := range names {
		t := e.tf[n]
		if t == nil {
			t = &[2]int64{}
		}
		r.Count("true:"+n, t[0])
		r.Count("false:"+n, t[1])
		if n == "default_t" {
			if t[0] == 0 {
				r.Inconclusive("default_t never evaluated")
			}
			continue
		}
		if t[0] == 0 || t[1] == 0 {
			r.Inconclusive(fmt.Sprintf("primitive %s: the workload never produced both outcomes (true/false = %d/%d)", n, t[0], t[1]))
		}
	}
}
