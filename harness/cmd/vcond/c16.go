package main

import (
	"fmt"
	"sort"
	"strings"
	"sync"

	"github.com/bfenetworks/bfe/bfe_basic"
	"github.com/bfenetworks/bfe/bfe_basic/condition"

	refc "verifharness/ref/cond"
	"verifharness/vkit"
)

// C16: a condition expression evaluates to the value given by the documented
// grammar: () > ! (right-assoc) > && > || (both left-assoc).
// Oracle: ref/cond.ParseDocumented (plain recursive descent) evaluated on the
// truth values of controllable primitives, for all 2^k assignments.

type c16Atom struct {
	text string // canonical source text (no insignificant whitespace)
	set  func(q *refc.Req, v bool)
}

var c16Atoms = []c16Atom{
	{`req_method_in("GET")`, func(q *refc.Req, v bool) {
		if v {
			q.Method = "GET"
		} else {
			q.Method = "POST"
		}
	}},
	{`req_host_in("a.example")`, func(q *refc.Req, v bool) {
		if v {
			q.HostName = "a.example"
		} else {
			q.HostName = "b.example"
		}
	}},
	{`req_path_in("/x",false)`, func(q *refc.Req, v bool) {
		if v {
			q.Path = "/x"
		} else {
			q.Path = "/y"
		}
	}},
	{`req_header_key_in("X-A")`, func(q *refc.Req, v bool) {
		if v {
			q.Headers = append(q.Headers, refc.KV{K: "X-A", V: "1"})
		}
	}},
	{`req_query_key_in("qk")`, func(q *refc.Req, v bool) {
		if v {
			q.Query = append(q.Query, refc.KV{K: "qk", V: "1"})
		}
	}},
	{`req_cookie_key_in("ck")`, func(q *refc.Req, v bool) {
		if v {
			q.Cookies = append(q.Cookies, refc.KV{K: "ck", V: "1"})
		}
	}},
	{`req_proto_secure()`, func(q *refc.Req, v bool) { q.Secure = v }},
	{`req_cip_range("10.0.0.1","10.0.0.9")`, func(q *refc.Req, v bool) {
		if v {
			q.CIP = "10.0.0.5"
		} else {
			q.CIP = "10.0.1.5"
		}
	}},
}

func c16Model(mask int) *refc.Req {
	q := &refc.Req{Proto: "HTTP/1.1", Query: []refc.KV{{K: "other", V: "1"}}, VIP: "10.9.9.9", SIP: "10.8.8.8"}
	for i, a := range c16Atoms {
		a.set(q, mask>>uint(i)&1 == 1)
	}
	return q
}

// c16Requests builds the 2^k requests once; lazily cached parts (query,
// cookies) are forced so that the requests are read-only afterwards.
func c16Requests() []*bfe_basic.Request {
	n := 1 << uint(len(c16Atoms))
	out := make([]*bfe_basic.Request, n)
	for m := 0; m < n; m++ {
		r := toBfe(c16Model(m), "")
		r.CachedQuery()
		r.CachedCookie()
		out[m] = r
	}
	return out
}

// ---- enumeration of expression skeletons -----------------------------------
// A skeleton is a string over  p ! & | ( )  where p is a primitive occurrence.
//   seq(n,a,b)     := operand | operand op seq          (op in {&,|})
//   operand(n,a,b) := !^j p  |  !^j ( seq )
// with exactly n occurrences of p, a occurrences of '!' and b parenthesis
// pairs. The grammar is unambiguous, so every string of the documented grammar
// with these counts is produced exactly once (redundant parentheses and "!!"
// included).

type c16Key struct{ n, a, b int }

type c16Enum struct {
	memoS map[c16Key][]string
	memoO map[c16Key][]string
}

func (e *c16Enum) operand(n, a, b int) []string {
	key := c16Key{n, a, b}
	if v, ok := e.memoO[key]; ok {
		return v
	}
	out := []string{}
	for j := 0; j <= a; j++ {
		nots := strings.Repeat("!", j)
		if n == 1 && b == 0 && a == j {
			out = append(out, nots+"p")
		}
		if b >= 1 {
			for _, s := range e.seq(n, a-j, b-1) {
				out = append(out, nots+"("+s+")")
			}
		}
	}
	e.memoO[key] = out
	return out
}

func (e *c16Enum) seq(n, a, b int) []string {
	key := c16Key{n, a, b}
	if v, ok := e.memoS[key]; ok {
		return v
	}
	out := append([]string{}, e.operand(n, a, b)...)
	for k := 1; k < n; k++ {
		for a1 := 0; a1 <= a; a1++ {
			for b1 := 0; b1 <= b; b1++ {
				first := e.operand(k, a1, b1)
				if len(first) == 0 {
					continue
				}
				rest := e.seq(n-k, a-a1, b-b1)
				for _, f := range first {
					for _, r := range rest {
						out = append(out, f+"&"+r, f+"|"+r)
					}
				}
			}
		}
	}
	e.memoS[key] = out
	return out
}

// all returns every skeleton with exactly n occurrences, <= maxNot '!' and
// <= maxParen parenthesis pairs.
func (e *c16Enum) all(n, maxNot, maxParen int) []string {
	var out []string
	for a := 0; a <= maxNot; a++ {
		for b := 0; b <= maxParen; b++ {
			out = append(out, e.seq(n, a, b)...)
		}
	}
	return out
}

// c16Render turns a skeleton into source text. atomIdx gives the atom for the
// i-th occurrence; ws picks the whitespace between tokens (nil = compact).
func c16Render(skel string, atomIdx []int, ws func() string) string {
	var b strings.Builder
	k := 0
	sep := func() {
		if ws != nil {
			b.WriteString(ws())
		}
	}
	for i := 0; i < len(skel); i++ {
		if i > 0 {
			sep()
		}
		switch skel[i] {
		case 'p':
			t := c16Atoms[atomIdx[k]].text
			k++
			if ws != nil {
				// whitespace inside the call as well: after '(' and ','
				t = strings.Replace(t, ",", ws()+","+ws(), -1)
				t = strings.Replace(t, "(", ws()+"("+ws(), 1)
			}
			b.WriteString(t)
		case '&':
			b.WriteString("&&")
		case '|':
			b.WriteString("||")
		default:
			b.WriteByte(skel[i])
		}
	}
	return b.String()
}

type c16Mismatch struct {
	Expr     string   `json:"expr"`
	Skeleton string   `json:"skeleton"`
	Mask     int      `json:"assignment_mask"`
	Assign   []string `json:"assignment"`
	Want     bool     `json:"want"`
	Got      bool     `json:"got"`
	RefTree  string   `json:"reference_parse"`
	Explain  []string `json:"explained_by"`
}

type c16State struct {
	r    *vkit.Run
	reqs []*bfe_basic.Request
	atom map[string]int

	mu         sync.Mutex
	mism       []c16Mismatch
	altOK      []bool // alternative grammar i still explains every expression seen
	altNamesOK bool
}

func c16Assignment(mask int, used []int) []string {
	var out []string
	for _, i := range used {
		out = append(out, fmt.Sprintf("%s=%v", c16Atoms[i].text, mask>>uint(i)&1 == 1))
	}
	return out
}

// check evaluates one expression string on every assignment of the atoms it uses.
func (st *c16State) check(expr string) (ok bool) {
	r := st.r
	toks, err := refc.Tokenize(expr)
	if err != nil {
		r.Inconclusive("harness: reference tokenizer rejected generated expression " + expr + ": " + err.Error())
		return false
	}
	tree, err := refc.ParseDocumented(toks)
	if err != nil {
		r.Inconclusive("harness: reference parser rejected generated expression " + expr + ": " + err.Error())
		return false
	}
	skel := refc.Skeleton(toks)
	// atoms used
	usedSet := map[int]bool{}
	leaves := 0
	for _, t := range toks {
		if t.Kind == refc.TAtom {
			i, ok := st.atom[t.Text]
			if !ok {
				r.Inconclusive("harness: unknown atom " + t.Text)
				return false
			}
			usedSet[i] = true
			leaves++
		}
	}
	var used []int
	for i := range c16Atoms {
		if usedSet[i] {
			used = append(used, i)
		}
	}
	var cond condition.Condition
	if r.Try(func() interface{} { return map[string]string{"expr": expr} }, func() { cond, err = condition.Build(expr) }) {
		return false
	}
	if err != nil || cond == nil {
		r.Violation("build-rejected-grammatical:"+c16Trunc(skel), fmt.Sprintf("Build(%q) failed: %v", expr, err),
			map[string]interface{}{"expr": expr, "skeleton": skel})
		r.CaseS(expr, false)
		return false
	}
	// alternative parses (only to name a mismatch)
	alts := make([]*refc.Node, len(refc.Alternatives))
	for i, g := range refc.Alternatives {
		alts[i], _ = refc.ParseAlt(g, toks)
	}
	altExplains := make([]bool, len(alts))
	for i := range altExplains {
		altExplains[i] = alts[i] != nil
	}
	sensitive := false
	var first *c16Mismatch
	nAssign := 1 << uint(len(used))
	for a := 0; a < nAssign; a++ {
		mask := 0
		for bi, ai := range used {
			if a>>uint(bi)&1 == 1 {
				mask |= 1 << uint(ai)
			}
		}
		truth := func(atom string) bool { return mask>>uint(st.atom[atom])&1 == 1 }
		want := tree.Eval(truth)
		var got bool
		if r.Try(func() interface{} { return map[string]interface{}{"expr": expr, "mask": mask} }, func() { got = cond.Match(st.reqs[mask]) }) {
			return false
		}
		for i, an := range alts {
			if an == nil {
				continue
			}
			av := an.Eval(truth)
			if av != want {
				sensitive = true
			}
			if av != got {
				altExplains[i] = false
			}
		}
		if got != want && first == nil {
			first = &c16Mismatch{Expr: expr, Skeleton: skel, Mask: mask, Assign: c16Assignment(mask, used), Want: want, Got: got, RefTree: tree.String()}
		}
	}
	r.Evals(int64(nAssign) - 1)
	r.CaseS(skel+"#"+expr, leaves >= 2)
	if sensitive {
		r.Count("precedence_sensitive_exprs", 1)
	}
	st.mu.Lock()
	for i := range st.altOK {
		if !altExplains[i] {
			st.altOK[i] = false
		}
	}
	if first != nil {
		for i, g := range refc.Alternatives {
			if altExplains[i] {
				first.Explain = append(first.Explain, g.Name)
			}
		}
		if len(st.mism) < 20000 {
			st.mism = append(st.mism, *first)
		}
	}
	st.mu.Unlock()
	if first != nil {
		r.Count("mismatching_exprs", 1)
	}
	if r.WantSample() && leaves >= 3 && sensitive {
		r.Sample(map[string]interface{}{"expr": expr, "reference_parse": tree.String(), "assignments": nAssign})
	}
	return first == nil
}

// c16Trunc makes a skeleton usable inside a signature: N = !, A = &&, O = ||,
// L/R = parentheses, p = primitive; at most 40 characters.
func c16Trunc(s string) string {
	s = strings.NewReplacer("&&", "A", "||", "O", "!", "N", "(", "L", ")", "R").Replace(s)
	if len(s) > 40 {
		return s[:40]
	}
	return s
}

// report names the mismatches: if one alternative grammar explains the code's
// value on EVERY expression of the run, all mismatches are one finding with
// that grammar's name; otherwise each mismatch is named by its own shape.
func (st *c16State) report() {
	if len(st.mism) == 0 {
		return
	}
	sort.SliceStable(st.mism, func(i, j int) bool {
		a, b := st.mism[i], st.mism[j]
		if len(a.Skeleton) != len(b.Skeleton) {
			return len(a.Skeleton) < len(b.Skeleton)
		}
		if len(a.Expr) != len(b.Expr) {
			return len(a.Expr) < len(b.Expr)
		}
		return a.Expr < b.Expr
	})
	global := ""
	for i, g := range refc.Alternatives {
		if st.altOK[i] {
			global = g.Name
			break
		}
	}
	for i, m := range st.mism {
		if global == "" && i >= 5 {
			break // the 5 shortest shapes are enough to name an unexplained mismatch
		}
		sig := ""
		switch {
		case global != "":
			sig = "precedence:" + global
		case len(m.Explain) > 0:
			sig = "mismatch:" + c16Trunc(m.Skeleton) + ":like-" + m.Explain[0]
		default:
			sig = "mismatch:" + c16Trunc(m.Skeleton)
		}
		what := fmt.Sprintf("%s evaluates to %v, documented grammar (%s) gives %v for %v", m.Expr, m.Got, m.RefTree, m.Want, m.Assign)
		if global == "" {
			what += fmt.Sprintf("; %d of %d expressions differ and no single alternative grammar explains all of them", len(st.mism), st.r.Counter("exprs"))
		} else {
			what += fmt.Sprintf("; on all %d expressions of this run the code behaves exactly like the grammar %q (%d expressions differ from the documented one)",
				st.r.Counter("exprs"), global, len(st.mism))
		}
		st.r.Violation(sig, what, m)
	}
}

func c16(r *vkit.Run) {
	r.SetRule("EXHAUSTIVE part: every string of the documented grammar with <=4 primitive occurrences (i-th occurrence = i-th controllable primitive), <=2 '!' and <=3 parenthesis pairs (<=2 pairs for 4 occurrences, which covers all 5 groupings) = 21386 strings: every operator mix, every parenthesisation incl. redundant parentheses and '!!', each rendered compactly and once with seeded random blanks/tabs/newlines between tokens and inside calls; RANDOM part: deep strings with 5-12 occurrences of 8 primitives (repeats allowed), nesting <=5. Each string is evaluated on all 2^k assignments of the k primitives it uses (req_method_in, req_host_in, req_path_in, req_header_key_in, req_query_key_in, req_cookie_key_in, req_proto_secure, req_cip_range; truth set per request). Oracle: ref/cond recursive-descent parser of the documented table. Non-trivial = >=2 primitive occurrences; distinct = source string. precedence_sensitive_exprs = strings whose value differs under at least one of 7 wrong grammars (so a precedence/associativity error would be visible). Associativity of a single operator kind cannot change a truth value and is therefore only observable through precedence.")
	r.Assume("the 8 controlling primitives evaluate as set by the harness (checked first with single-primitive expressions; otherwise inconclusive)")
	st := &c16State{r: r, reqs: c16Requests(), atom: map[string]int{}, altOK: make([]bool, len(refc.Alternatives))}
	for i := range st.altOK {
		st.altOK[i] = true
	}
	for i, a := range c16Atoms {
		st.atom[a.text] = i
	}

	if r.Replay != "" {
		var w c16Mismatch
		if err := r.LoadReplay(&w); err != nil {
			r.Inconclusive(err.Error())
			return
		}
		st.check(w.Expr)
		r.Count("exprs", 1)
		st.report()
		r.SetMinDistinct(0)
		return
	}

	// 0. the controlling primitives really are controllable
	for i, a := range c16Atoms {
		for _, neg := range []bool{false} { // '!p' is part of the property, not of the sanity check
			expr := a.text
			if neg {
				expr = "!" + expr
			}
			var c condition.Condition
			var err error
			if r.Try(func() interface{} { return expr }, func() { c, err = condition.Build(expr) }) {
				return
			}
			if err != nil {
				r.Inconclusive(fmt.Sprintf("controlling primitive %s does not build: %v", expr, err))
				return
			}
			for m := range st.reqs {
				want := (m>>uint(i)&1 == 1) != neg
				if c.Match(st.reqs[m]) != want {
					r.Inconclusive(fmt.Sprintf("controlling primitive %s is not controllable (mask %d): C16 cannot be decided; see C18", expr, m))
					return
				}
			}
		}
	}

	// 1. exhaustive
	en := &c16Enum{memoS: map[c16Key][]string{}, memoO: map[c16Key][]string{}}
	var skels []string
	for n := 1; n <= 4; n++ {
		maxParen := 3
		if n == 4 {
			maxParen = 2 // enough for every grouping of 4 operands
		}
		skels = append(skels, en.all(n, 2, maxParen)...)
	}
	if len(skels) != 34+672+7680+13000 {
		r.Inconclusive(fmt.Sprintf("harness: skeleton enumeration produced %d strings, expected 21386", len(skels)))
	}
	r.Count("exhaustive_skeletons", int64(len(skels)))
	ident := []int{0, 1, 2, 3}
	wsChoices := []string{"", " ", "  ", "\t", "\n", " \n ", "\r\n"}
	vkit.Parallel(len(skels), 0, func(i int) {
		st.check(c16Render(skels[i], ident, nil))
		g := r.Rng("ws", i)
		st.check(c16Render(skels[i], ident, func() string { return g.PickS(wsChoices) }))
		r.Count("exprs", 2)
	})

	// 2. random deep strings
	n := r.N(5000, 200000)
	vkit.Parallel(n, 0, func(i int) {
		g := r.Rng("deep", i)
		leaves := g.Range(5, 12)
		skel := c16RandSkel(g, leaves, 5)
		idx := make([]int, leaves)
		for k := range idx {
			idx[k] = g.Intn(len(c16Atoms))
		}
		var ws func() string
		if g.Chance(1, 3) {
			ws = func() string { return g.PickS(wsChoices) }
		}
		st.check(c16Render(skel, idx, ws))
		r.Count("exprs", 1)
		r.Count("random_deep_exprs", 1)
	})

	st.report()
	if r.Counter("precedence_sensitive_exprs") == 0 {
		r.Inconclusive("no precedence-sensitive expression was evaluated")
	}
	r.SetExhaustive(false)
}

// c16RandSkel draws a random skeleton with exactly n leaves.
func c16RandSkel(g *vkit.Rand, n, depth int) string {
	var operand func(n, d int) string
	var seq func(n, d int) string
	operand = func(n, d int) string {
		nots := strings.Repeat("!", []int{0, 0, 0, 1, 1, 2, 3}[g.Intn(7)])
		if n == 1 && (d == 0 || g.Chance(5, 6)) {
			return nots + "p"
		}
		if d == 0 {
			// cannot nest any more: flatten
			return seq(n, 0)
		}
		return nots + "(" + seq(n, d-1) + ")"
	}
	seq = func(n, d int) string {
		if n == 1 {
			return operand(1, d)
		}
		// number of operands at this level
		m := g.Range(2, n)
		if d == 0 {
			m = n
		}
		if g.Chance(1, 8) && d > 0 {
			m = 1
		}
		if m == 1 {
			return operand(n, d)
		}
		// composition of n into m positive parts
		parts := make([]int, m)
		for i := range parts {
			parts[i] = 1
		}
		for k := 0; k < n-m; k++ {
			parts[g.Intn(m)]++
		}
		var b strings.Builder
		for i, p := range parts {
			if i > 0 {
				if g.Bool() {
					b.WriteByte('&')
				} else {
					b.WriteByte('|')
				}
			}
			if p == 1 {
				b.WriteString(operand(1, d))
			} else if d > 0 {
				b.WriteString(operand(p, d))
			} else {
				b.WriteString(seq(p, 0))
			}
		}
		return b.String()
	}
	return seq(n, depth)
}
