package main

import (
	"encoding/json"
	"fmt"
	"net"
	"net/url"
	"sort"
	"strconv"
	"strings"
	"sync"
	"time"

	"github.com/bfenetworks/bfe/bfe_basic"
	"github.com/bfenetworks/bfe/bfe_modules/mod_prison"

	"verifharness/vkit"
)

// C53, key-space dimension ("space" cases).
//
// The timed cases of c53.go use keys k0, k1, ... that differ in a trailing
// digit. This file widens the KEY SPACE of every ingredient a prison rule can
// sign (docs/en_us/modules/mod_prison/mod_prison.md, AccessSignConf:
// UseClientIP, UseUrl, UseHost, UsePath, UseHeaders, UrlRegexp, Query[],
// Header[], Cookie[]) and asserts the clause "other keys are unaffected;
// requests below the threshold are never denied" for keys that are distinct
// but close to each other in every way a key derivation could confuse them.
//
// A space case is one real prisonRule (hook VerifNewPrisonRule) with
// CheckPeriod = StayPeriod = 1 h and K pairwise distinct keys of ONE family
// (ingredient x class). Its requests are fired sequentially in a fixed order;
// the whole case takes milliseconds, so every request lies in the first
// period of its key and the oracle needs no timing at all:
//
//     request number n of a key (n counted per key) is admitted iff n <= T.
//
// "n <= T denied" is the statement's "requests below the threshold are never
// denied"; as the key's own history cannot explain it, the harness then looks
// for the other key that does, on fresh rules: the key alone (control; denied
// there too -> space:deny-at-or-below-threshold), then A x T then B once and
// A x (T+1) then B once for every other key A, and reports
// other-key-affected:<ingredient>:<class> with the two-key witness (client ip:
// <class> = the two address kinds, e.g. ipv6-vs-ipv6). "n > T admitted" is
// "once more than Threshold requests arrive within one CheckPeriod the key is
// denied" (space:admit-over-threshold:<ingredient>:<class>).
//
// What is a distinct key (written from HTTP and the doc, not from the signer):
//   client ip   distinct IP addresses. The doc is silent on whether the
//               IPv4-mapped form ::ffff:a.b.c.d is the key of a.b.c.d, so the
//               two forms of ONE address never meet in a case; a mapped address
//               is only ever confronted with OTHER addresses. IPv4 addresses
//               are handed over as 4-byte and as 16-byte net.IP (both occur in
//               production: accepted sockets vs parsed X-Forwarded-For).
//   header      distinct field values as HTTP defines them (no leading or
//               trailing whitespace, inner whitespace significant, case
//               significant, obs-text bytes allowed).
//   cookie      distinct RFC 6265 cookie-octet strings, no quoting.
//   query/path  distinct byte strings; all keys of a case use ONE injective
//               percent-encoding style (min: only what RFC 3986 requires;
//               max: everything but unreserved), so they are distinct both as
//               raw and as decoded strings (doc silent on which is signed).
//   host        distinct lower-case reg-names without port (case, port and
//               trailing dot excluded: doc silent on host normalisation).
//   tuples      rules signing several fields: tuples that differ in at least
//               one field. Includes tuples whose field-wise concatenation with
//               a join string s is the same text: (x+s+y, z) vs (x, y+s+z) for
//               every s built from separator bytes and the next field's name.
//   absent/empty header, cookie or query: the doc is silent on whether such a
//               request has a key at all; these requests are only ever sent
//               below the threshold (all of them together), so "never denied"
//               holds under every reading.
// Every key is vetted before use: bfe's HTTP reader must deliver exactly the
// intended host, path, query, header and cookie values (compared with the
// values the case names, query/cookies re-parsed with net/url and by hand);
// keys the reader rejects or alters are counted and left out.

const c53SpacePeriod = time.Hour

// ---- exact (byte-safe) strings in witnesses --------------------------------------

// c53Bin is a byte string; in JSON every byte outside 0x21..0x7e and '%' is %XX.
type c53Bin string

func c53PctEnc(s string) string {
	var b strings.Builder
	for i := 0; i < len(s); i++ {
		c := s[i]
		if c > 0x20 && c < 0x7f && c != '%' {
			b.WriteByte(c)
		} else {
			fmt.Fprintf(&b, "%%%02X", c)
		}
	}
	return b.String()
}

func c53PctDec(s string) (string, error) {
	var b strings.Builder
	for i := 0; i < len(s); i++ {
		if s[i] != '%' {
			b.WriteByte(s[i])
			continue
		}
		if i+2 > len(s)-1 {
			return "", fmt.Errorf("bad escape in %q", s)
		}
		v, err := strconv.ParseUint(s[i+1:i+3], 16, 8)
		if err != nil {
			return "", err
		}
		b.WriteByte(byte(v))
		i += 2
	}
	return b.String(), nil
}

func (b c53Bin) MarshalJSON() ([]byte, error) { return json.Marshal(c53PctEnc(string(b))) }

func (b *c53Bin) UnmarshalJSON(d []byte) error {
	var s string
	if err := json.Unmarshal(d, &s); err != nil {
		return err
	}
	v, err := c53PctDec(s)
	*b = c53Bin(v)
	return err
}

// ---- cases ------------------------------------------------------------------------

type c53KV struct {
	N string `json:"n"`
	V c53Bin `json:"v"`
}

// c53SKey is one key: the complete request (but for the noise) that carries it.
type c53SKey struct {
	Tag    string  `json:"tag"`
	IP     string  `json:"ip"`               // client address literal
	IPLen  int     `json:"ip_len,omitempty"` // 4: IPv4 handed over as 4-byte net.IP; else 16-byte
	Host   c53Bin  `json:"host"`
	Path   c53Bin  `json:"path"` // decoded
	Query  []c53KV `json:"query,omitempty"`
	Hdr    []c53KV `json:"hdr,omitempty"`
	Cookie []c53KV `json:"cookie,omitempty"`
	NoKey  bool    `json:"no_key,omitempty"` // signed ingredient absent or empty: only sent below the threshold
}

type c53SCase struct {
	Kind       string    `json:"kind"` // space
	Idx        int       `json:"idx"`
	Mode       string    `json:"mode"`
	Conf       string    `json:"sign_conf"`
	Ingredient string    `json:"ingredient"`
	Class      string    `json:"class"`
	Style      string    `json:"url_style"` // min | max
	T          int       `json:"threshold"`
	NoiseHdr   bool      `json:"noise_hdr,omitempty"`
	NoiseQry   bool      `json:"noise_qry,omitempty"`
	Keys       []c53SKey `json:"keys"`
	Order      []int     `json:"order"`                   // key index of every request, in firing order
	Reuse      bool      `json:"reuse_request,omitempty"` // every key's request object is parsed once and used for all of its calls
	Note       string    `json:"note,omitempty"`
}

type c53Slot struct {
	Kind string // ip | host | path | seg | query | hdr | cookie
	Name string // header / cookie / query name; seg: index
}

func (s c53Slot) ingredient() string {
	switch s.Kind {
	case "ip":
		return "client-ip"
	case "hdr":
		return "header"
	case "seg":
		return "url-regexp"
	}
	return s.Kind
}

// fieldName is the name a signer is likely to put next to the value.
func (s c53Slot) fieldNames() []string {
	switch s.Kind {
	case "host":
		return []string{"host", "Host"}
	case "path":
		return []string{"path", "url"}
	case "seg":
		return []string{"urlpattern", "url"}
	case "hdr", "cookie", "query":
		return []string{s.Name, s.ingredient()}
	}
	return nil
}

type c53SMode struct {
	Name     string
	Conf     string
	Slots    []c53Slot
	NoiseHdr bool
	NoiseQry bool
	Segs     int // > 0: path is /seg0/.../t (UrlRegexp groups)
}

var c53SModes = []c53SMode{
	{"clientip", `{"UseClientIP":true}`, []c53Slot{{"ip", ""}}, true, true, 0},
	{"clientip+header", `{"UseClientIP":true,"Header":["X-Key"]}`, []c53Slot{{"ip", ""}, {"hdr", "X-Key"}}, true, true, 0},
	{"header", `{"Header":["X-Key"]}`, []c53Slot{{"hdr", "X-Key"}}, true, true, 0},
	{"cookie", `{"Cookie":["UID"]}`, []c53Slot{{"cookie", "UID"}}, true, true, 0},
	{"query", `{"Query":["uid"]}`, []c53Slot{{"query", "uid"}}, true, true, 0},
	{"host", `{"UseHost":true}`, []c53Slot{{"host", ""}}, true, true, 0},
	{"path", `{"UsePath":true}`, []c53Slot{{"path", ""}}, true, true, 0},
	{"url", `{"UseUrl":true}`, []c53Slot{{"path", ""}, {"query", "uid"}}, true, false, 0},
	{"urlregexp1", `{"UrlRegexp":"^/([^/?#]+)/"}`, []c53Slot{{"seg", "0"}}, true, true, 1},
	{"urlregexp2", `{"UrlRegexp":"^/([^/?#]+)/([^/?#]+)/"}`, []c53Slot{{"seg", "0"}, {"seg", "1"}}, true, true, 2},
	{"headers", `{"UseHeaders":true}`, []c53Slot{{"hdr", "X-A"}, {"hdr", "X-B"}, {"host", ""}, {"cookie", "UID"}}, false, true, 0},
	{"url+host", `{"UseUrl":true,"UseHost":true}`, []c53Slot{{"path", ""}, {"query", "uid"}, {"host", ""}}, true, false, 0},
	{"all", `{"UseClientIP":true,"UseHost":true,"UsePath":true,"Header":["X-A","X-B"],"Cookie":["CA","CB"],"Query":["qa","qb"]}`,
		[]c53Slot{{"ip", ""}, {"host", ""}, {"path", ""}, {"hdr", "X-A"}, {"hdr", "X-B"}, {"cookie", "CA"}, {"cookie", "CB"}, {"query", "qa"}, {"query", "qb"}}, true, true, 0},
}

func c53SModeByName(n string) *c53SMode {
	for i := range c53SModes {
		if c53SModes[i].Name == n {
			return &c53SModes[i]
		}
	}
	return nil
}

// base key of a mode: every slot carries a plain default value.
func (m *c53SMode) base() c53SKey {
	k := c53SKey{Tag: "base", IP: "198.51.100.7", IPLen: 4, Host: "base.example", Path: "/p0"}
	if m.Segs > 0 {
		p := ""
		for i := 0; i < m.Segs; i++ {
			p += fmt.Sprintf("/s%d", i)
		}
		k.Path = c53Bin(p + "/t")
	}
	for _, s := range m.Slots {
		switch s.Kind {
		case "hdr":
			k.Hdr = append(k.Hdr, c53KV{s.Name, "hv"})
		case "cookie":
			k.Cookie = append(k.Cookie, c53KV{s.Name, "cv"})
		case "query":
			k.Query = append(k.Query, c53KV{s.Name, "qv"})
		}
	}
	return k
}

func c53KVSet(l []c53KV, name, v string, absent bool) []c53KV {
	out := make([]c53KV, 0, len(l))
	for _, e := range l {
		if e.N == name {
			if !absent {
				out = append(out, c53KV{name, c53Bin(v)})
			}
			continue
		}
		out = append(out, e)
	}
	return out
}

// with returns a copy of k whose slot s carries v (absent: the field is left out).
func (k c53SKey) with(s c53Slot, v string, absent bool) c53SKey {
	switch s.Kind {
	case "host":
		k.Host = c53Bin(v)
	case "path":
		k.Path = c53Bin("/" + v)
	case "seg":
		idx, _ := strconv.Atoi(s.Name)
		segs := strings.Split(string(k.Path)[1:], "/")
		segs[idx] = v
		k.Path = c53Bin("/" + strings.Join(segs, "/"))
	case "hdr":
		k.Hdr = c53KVSet(k.Hdr, s.Name, v, absent)
	case "cookie":
		k.Cookie = c53KVSet(k.Cookie, s.Name, v, absent)
	case "query":
		k.Query = c53KVSet(k.Query, s.Name, v, absent)
	}
	return k
}

// ---- what may be put on the wire for a slot (HTTP grammar, see file comment) -------

func c53Unreserved(c byte) bool {
	return c >= 'a' && c <= 'z' || c >= 'A' && c <= 'Z' || c >= '0' && c <= '9' || c == '-' || c == '.' || c == '_' || c == '~'
}

func c53CookieOctet(c byte) bool {
	return c == 0x21 || c >= 0x23 && c <= 0x2b || c >= 0x2d && c <= 0x3a || c >= 0x3c && c <= 0x5b || c >= 0x5d && c <= 0x7e
}

func c53Legal(kind, v string) bool {
	switch kind {
	case "hdr":
		if v == "" || v[0] == ' ' || v[0] == '\t' || v[len(v)-1] == ' ' || v[len(v)-1] == '\t' {
			return false
		}
		for i := 0; i < len(v); i++ {
			if c := v[i]; c < 0x20 && c != '\t' || c == 0x7f {
				return false
			}
		}
	case "cookie":
		for i := 0; i < len(v); i++ {
			if !c53CookieOctet(v[i]) {
				return false
			}
		}
	case "host":
		if v == "" || len(v) > 253 {
			return false
		}
		for i := 0; i < len(v); i++ {
			c := v[i]
			if c >= 'A' && c <= 'Z' {
				return false
			}
			if !c53Unreserved(c) && !strings.ContainsRune("!$&'()*+,;=", rune(c)) {
				return false
			}
		}
	case "seg":
		if v == "" || v == "." || v == ".." || strings.Contains(v, "/") {
			return false
		}
	case "path":
		for _, seg := range strings.Split(v, "/") {
			if seg == "." || seg == ".." {
				return false
			}
		}
	}
	return true
}

func c53Esc(v string, keep func(byte) bool) string {
	var b strings.Builder
	for i := 0; i < len(v); i++ {
		if keep(v[i]) {
			b.WriteByte(v[i])
		} else {
			fmt.Fprintf(&b, "%%%02X", v[i])
		}
	}
	return b.String()
}

func c53EscPath(v, style string) string {
	if style == "max" {
		return c53Esc(v, func(c byte) bool { return c53Unreserved(c) || c == '/' })
	}
	return c53Esc(v, func(c byte) bool { return c53Unreserved(c) || strings.IndexByte("!$&'()*+,;=:@/", c) >= 0 })
}

func c53EscQuery(v, style string) string {
	if style == "max" {
		return c53Esc(v, c53Unreserved)
	}
	return c53Esc(v, func(c byte) bool { return c53Unreserved(c) || strings.IndexByte("!$'()*,:@/?", c) >= 0 })
}

func (c *c53SCase) raw(k *c53SKey, seq int) []byte {
	var b strings.Builder
	b.WriteString("GET ")
	b.WriteString(c53EscPath(string(k.Path), c.Style))
	sep := "?"
	for _, q := range k.Query {
		b.WriteString(sep + q.N + "=" + c53EscQuery(string(q.V), c.Style))
		sep = "&"
	}
	if c.NoiseQry {
		b.WriteString(sep + "n=" + strconv.Itoa(seq))
	}
	b.WriteString(" HTTP/1.1\r\nHost: " + string(k.Host) + "\r\n")
	for _, h := range k.Hdr {
		b.WriteString(h.N + ": " + string(h.V) + "\r\n")
	}
	if len(k.Cookie) > 0 {
		b.WriteString("Cookie: ")
		for i, ck := range k.Cookie {
			if i > 0 {
				b.WriteString("; ")
			}
			b.WriteString(ck.N + "=" + string(ck.V))
		}
		b.WriteString("\r\n")
	}
	if c.NoiseHdr {
		b.WriteString("X-Noise: " + strconv.Itoa(seq) + "\r\n")
	}
	b.WriteString("\r\n")
	return []byte(b.String())
}

func c53SIP(k *c53SKey) net.IP {
	ip := net.ParseIP(k.IP)
	if ip == nil {
		return nil
	}
	if k.IPLen == 4 {
		if v4 := ip.To4(); v4 != nil {
			return v4
		}
	}
	return ip
}

func (c *c53SCase) req(k *c53SKey, seq int) (*bfe_basic.Request, error) {
	req, err := parseReq(c.raw(k, seq))
	if err != nil {
		return nil, err
	}
	ip := c53SIP(k)
	if ip == nil {
		return nil, fmt.Errorf("harness: bad address literal %q", k.IP)
	}
	req.ClientAddr = &net.TCPAddr{IP: ip, Port: 30000 + seq%20000}
	return req, nil
}

// vet checks that bfe's HTTP reader delivered the values the key names.
func (c *c53SCase) vet(k *c53SKey) (*bfe_basic.Request, string) {
	req, err := c.req(k, 0)
	if err != nil {
		return nil, "rejected"
	}
	hr := req.HttpRequest
	if hr.Host != string(k.Host) || hr.URL == nil || hr.URL.Path != string(k.Path) {
		return nil, "altered"
	}
	qv, err := url.ParseQuery(hr.URL.RawQuery)
	if err != nil {
		return nil, "altered"
	}
	for _, q := range k.Query {
		if qv.Get(q.N) != string(q.V) {
			return nil, "altered"
		}
	}
	for _, h := range k.Hdr {
		if hr.Header.Get(h.N) != string(h.V) {
			return nil, "altered"
		}
	}
	want := ""
	for i, ck := range k.Cookie {
		if i > 0 {
			want += "; "
		}
		want += ck.N + "=" + string(ck.V)
	}
	if hr.Header.Get("Cookie") != want {
		return nil, "altered"
	}
	return req, ""
}

// ---- families -----------------------------------------------------------------------

type c53Val struct {
	V      string
	Tag    string
	Absent bool
	NoKey  bool
}

type c53Fam struct {
	Class string
	Vals  []c53Val
}

const c53Lower = "abcdefghijklmnopqrstuvwxyz"

func c53Word(g *vkit.Rand, n int) string {
	b := make([]byte, n)
	for i := range b {
		b[i] = c53Lower[g.Intn(26)]
	}
	return string(b)
}

func c53AlnumN(g *vkit.Rand, n int) string {
	const al = "abcdefghijklmnopqrstuvwxyz0123456789"
	raw := g.Bytes(n)
	for i := range raw {
		raw[i] = al[int(raw[i])%len(al)]
	}
	return string(raw)
}

// c53StrFams lists the families of one string slot.
func c53StrFams(g *vkit.Rand, kind string, thorough, huge bool) []c53Fam {
	var out []c53Fam
	add := func(class string, vals ...c53Val) {
		seen := map[string]bool{}
		var l []c53Val
		for _, v := range vals {
			id := v.V
			if v.Absent {
				id = "\x00absent"
			}
			if seen[id] || (!v.Absent && !v.NoKey && !c53Legal(kind, v.V)) {
				continue
			}
			seen[id] = true
			l = append(l, v)
		}
		if len(l) >= 2 {
			out = append(out, c53Fam{class, l})
		}
	}
	val := func(tag, v string) c53Val { return c53Val{V: v, Tag: tag} }
	w := c53Word(g, g.Range(6, 10))
	w2 := c53Word(g, g.Range(3, 6))
	mid := len(w) / 2

	if kind != "host" { // host names are case-insensitive: no case family
		tog := func(i int) string { return w[:i] + strings.ToUpper(w[i:i+1]) + w[i+1:] }
		add("case", val("lower", w), val("upper", strings.ToUpper(w)), val("first-upper", tog(0)), val("mid-upper", tog(mid)), val("last-upper", tog(len(w)-1)))
	}
	// whitespace
	add("space", val("plain", w+w2), val("inner-space", w+" "+w2), val("inner-2-spaces", w+"  "+w2), val("inner-tab", w+"\t"+w2),
		val("trailing-space", w+w2+" "), val("leading-space", " "+w+w2), val("trailing-2-spaces", w+w2+"  "), val("trailing-tab", w+w2+"\t"),
		val("leading-tab", "\t"+w+w2), val("inner-space-elsewhere", w[:mid]+" "+w[mid:]+w2))
	// one byte / one bit / length by one
	rep := func(i int, c byte) string { return w[:i] + string(c) + w[i+1:] }
	nxt := func(c byte) byte { return 'a' + (c-'a'+1)%26 }
	add("one-byte", val("base", w), val("first-byte", rep(0, nxt(w[0]))), val("mid-byte", rep(mid, nxt(w[mid]))), val("last-byte", rep(len(w)-1, nxt(w[len(w)-1]))),
		val("last-bit", rep(len(w)-1, w[len(w)-1]^1)), val("first-bit", rep(0, w[0]^2)), val("one-longer", w+"a"), val("one-shorter", w[:len(w)-1]),
		val("doubled", w+w), val("last-two-swapped", w[:len(w)-2]+w[len(w)-1:]+w[len(w)-2:len(w)-1]+"q"), val("digit-0", w+"0"), val("digit-1", w+"1"), val("digit-10", w+"10"), val("digit-01", w+"01"))
	// empty vs absent vs short values
	if kind == "hdr" || kind == "cookie" || kind == "query" {
		add("empty-absent", c53Val{Tag: "absent", Absent: true, NoKey: true}, c53Val{Tag: "empty", NoKey: true}, val("zero", "0"), val("word", w), val("dash", "-"), val("one-char", "a"))
	}
	// long values: equal but for the last / first / middle byte, and by length.
	// (bfe's reader needs ~30 ms for a 66 000-byte line in a race build, so the
	// family beyond 64 KiB is small and, at the quick tier, only built for the
	// modes that sign one field.)
	lens := []int{256, 4096}
	if thorough {
		lens = []int{255, 256, 4096, 16384}
	}
	if huge {
		lens = append(lens, 66000)
	}
	if kind == "host" {
		lens = []int{200}
	}
	for _, n := range lens {
		base := c53AlnumN(g, n)
		if kind == "host" { // labels of <= 63 bytes
			bb := []byte(base)
			for i := 50; i < n; i += 50 {
				bb[i] = '.'
			}
			base = string(bb)
		}
		ch := func(i int) string {
			c := byte('x')
			if base[i] == 'x' {
				c = 'y'
			}
			return base[:i] + string(c) + base[i+1:]
		}
		tag := fmt.Sprintf("len-%d", n)
		if n > 65536 {
			add("long", val(tag, base), val(tag+"-last-byte", ch(n-1)), val(tag+"-byte-65535", ch(65535)), val(tag+"-byte-65536", ch(65536)), val(tag+"-first-64k", base[:65536]))
			continue
		}
		add("long", val(tag, base), val(tag+"-last-byte", ch(n-1)), val(tag+"-first-byte", ch(0)), val(tag+"-mid-byte", ch(n/2-1)), val(tag+"-minus-1", base[:n-1]),
			val(tag+"-plus-1", base+"x"), val(tag+"-byte-255", ch(c53imin(255, n-2))), val(tag+"-byte-256", ch(c53imin(256, n-3))))
	}
	// separator bytes inside ONE value
	var seps []c53Val
	seps = append(seps, val("none", w+w2))
	for _, s := range []string{"&", "=", "|", ",", ";", ":", "/", "+", "%", "#", "?", "\x00", "\n", "\r\n", "\x1f", "\"", "\\", "'", "&=", "=&", "&&", "==", "%26", "%3D", "%00", "%20"} {
		tag := "sep-" + c53PctEnc(s)
		seps = append(seps, val(tag, w+s+w2), val(tag+"-trailing", w+w2+s), val(tag+"-leading", s+w+w2), val(tag+"-elsewhere", w[:mid]+s+w[mid:]+w2))
	}
	add("separator-bytes", seps...)
	// bytes >= 0x80
	if kind != "host" && kind != "cookie" {
		add("non-ascii", val("cyr-1", "ключ1"), val("cyr-2", "ключ2"), val("cjk-1", "日本"), val("cjk-2", "日木"), val("latin1-e9", "k\xe9y"), val("latin1-e8", "k\xe8y"),
			val("utf8-e9", "k\xc3\xa9y"), val("byte-ff", "k\xffy"), val("byte-fe", "k\xfey"), val("byte-80", "k\x80y"), val("ascii", "key"), val("byte-7f-less", "k~y"),
			val("emoji-1", "k\xf0\x9f\x98\x80"), val("emoji-2", "k\xf0\x9f\x98\x81"))
	}
	// numbers written differently are different strings
	add("numeric-format", val("1", "1"), val("01", "01"), val("1.0", "1.0"), val("10", "10"), val("1e0", "1e0"), val("0x1", "0x1"), val("+1", "+1"), val("-1", "-1"), val("1_", "1_"),
		val("4294967297", "4294967297"), val("18446744073709551617", "18446744073709551617"))
	return out
}

func c53imin(a, b int) int {
	if a < b {
		return a
	}
	return b
}

type c53IPVal struct {
	Lit string
	Len int
}

func c53IPKind(lit string) string {
	switch {
	case strings.HasPrefix(lit, "::ffff:") && strings.Contains(lit, "."):
		return "ipv4-mapped"
	case strings.Contains(lit, ":"):
		return "ipv6"
	}
	return "ipv4"
}

// c53IPFams lists the client-address families. Within a family all addresses
// are distinct, and no IPv4 address occurs in both its plain and its mapped form.
func c53IPFams(g *vkit.Rand, thorough bool) map[string][]c53IPVal {
	out := map[string][]c53IPVal{}
	add := func(class string, lits ...string) {
		seen := map[string]bool{}
		for _, v := range out[class] {
			seen[string(net.ParseIP(v.Lit).To16())] = true
		}
		for _, l := range lits {
			ip := net.ParseIP(l)
			if ip == nil {
				panic("harness: bad literal " + l)
			}
			id := string(ip.To16()) // the plain and the mapped form of one address share this id
			if seen[id] {
				continue
			}
			seen[id] = true
			v := c53IPVal{l, 16}
			if c53IPKind(l) == "ipv4" && g.Bool() {
				v.Len = 4
			}
			out[class] = append(out[class], v)
		}
	}
	hex := func(n int) string { return fmt.Sprintf("%x", 1+g.Intn(n-1)) }
	pfx := "2001:db8:" + hex(0xffff) + ":" + hex(0xffff)
	add("ipv6-last-group", pfx+"::1", pfx+"::2", pfx+"::3", pfx+"::ffff", pfx+"::1:0", pfx+"::"+hex(0xffff), pfx+"::100", pfx+"::10")
	tail := hex(0xffff) + ":" + hex(0xffff) + ":" + hex(0xffff)
	for _, f := range []string{"2001", "2002", "2400", "2a00", "2a01", "fe80", "fc00", "fd00", "ff02", "3001", "1"} {
		add("ipv6-first-group", f+":db8::"+tail)
	}
	add("ipv6-zero-runs", "::", "::1", "1::", "1::1", "::1:0", "::1:0:0", "0:0:1::", "2001:db8::1", "2001:db8:0:1::", "2001:db8::1:0", "2001:db8:0:0:1::", "2001:db8::1:0:0:1",
		"2001:db8:0:0:1::1", "2001:0:0:1::1", "2001::1:0:0:1", "2001:db8::", "2001:db8:1::", "2001:0:db8::1", "2001::db8:0:0:1", "0:2001:db8::1", "2001:db8::1:0:0:0")
	iid := hex(0xffff) + ":" + hex(0xffff) + ":" + hex(0xffff) + ":" + hex(0xffff)
	add("ipv6-link-local", "fe80::1", "fe80::2", "fe80::1:1", "fe80::"+iid, "2001:db8::"+iid, "fe80:0:0:1:"+iid, "fec0::"+iid, "fe80::"+iid[:len(iid)-1]+"f", "::1", "2001:db8::1", "2001:db8::2")
	// one bit apart
	b6 := g.Bytes(16)
	b6[0], b6[1] = 0x20, 0x01
	add("ipv6-one-bit", net.IP(b6).String())
	bits := g.Perm(128)
	if !thorough {
		bits = append([]int{0, 7, 8, 63, 64, 96, 120, 127}, bits[:24]...)
	}
	for _, bit := range bits {
		c := append([]byte{}, b6...)
		c[bit/8] ^= 0x80 >> uint(bit%8)
		add("ipv6-one-bit", net.IP(c).String())
	}
	b4 := g.Bytes(4)
	b4[0] = 10 + b4[0]%200
	add("ipv4-one-bit", net.IP(b4).String())
	for bit := 0; bit < 32; bit++ {
		c := append([]byte{}, b4...)
		c[bit/8] ^= 0x80 >> uint(bit%8)
		add("ipv4-one-bit", net.IP(c).String())
	}
	// all forms side by side: plain IPv4, mapped IPv4 (of OTHER addresses), IPv6 carrying the same low 32 bits
	a, b, c, d := 11+g.Intn(200), g.Intn(256), g.Intn(256), 1+g.Intn(200)
	v4 := func(d int) string { return fmt.Sprintf("%d.%d.%d.%d", a, b, c, d) }
	low := fmt.Sprintf("%x:%x", a<<8|b, c<<8|d)
	add("mixed-forms", v4(d), v4(d+1), "::ffff:"+v4(d+2), "::ffff:"+v4(d+3), "2001:db8::"+low, "64:ff9b::"+low, "2002:"+low+"::1", "::ffff:0:"+low, "::1:"+low,
		pfx+"::1", pfx+"::2", "fe80::1", "fe80::2", "::1", "127.0.0.1", "::ffff:127.0.0.2", "0.0.0.0", "::", "255.255.255.255", "::ffff:255.255.255.254",
		"ffff:ffff:ffff:ffff:ffff:ffff:ffff:ffff", fmt.Sprintf("%d.%d.%d.%d", d, c, b, a), fmt.Sprintf("::ffff:%d.%d.%d.%d", d+1, c, b, a))
	return out
}

// c53JoinStrings lists the join strings s of the field-boundary family for a
// tuple (f1, f2): separator bytes, alone and around the names a signer might
// put in front of the second field.
func c53JoinStrings(f2 c53Slot, thorough bool) []string {
	seen := map[string]bool{}
	var out []string
	add := func(s string) {
		if !seen[s] {
			seen[s] = true
			out = append(out, s)
		}
	}
	names := append([]string{""}, f2.fieldNames()...)
	seps := []string{"", "&", ";", ",", "|", ":", "/", " ", "\x00", "\n", "\r\n"}
	kvs := []string{"", "=", ":"}
	if thorough {
		seps = append(seps, "\t", "\x1f", "; ", ", ", "&&", "\x01")
		kvs = append(kvs, ": ", "==", "\x00")
	}
	if f2.Kind == "path" || f2.Kind == "seg" {
		// the value of these fields is always preceded by "/" in the request
		for _, kv := range append([]string{}, kvs...) {
			kvs = append(kvs, kv+"/")
		}
	}
	for _, sep := range seps {
		for _, n := range names {
			for _, kv := range kvs {
				if n == "" && kv != "" && sep != "" {
					continue
				}
				add(sep + n + kv)
			}
		}
	}
	return out
}

// ---- case list ----------------------------------------------------------------------

func c53SpaceOrder(g *vkit.Rand, keys []c53SKey, T int) []int {
	quota := make([]int, len(keys))
	noKeyLeft := T // all no-key requests of a case together stay at the threshold
	var real []int
	for i, k := range keys {
		if k.NoKey {
			if noKeyLeft > 0 {
				quota[i] = 1
				noKeyLeft--
			}
			continue
		}
		quota[i] = T + 1 + g.Intn(2)
		real = append(real, i)
	}
	var order []int
	if len(real) > 0 && g.Chance(2, 3) {
		// one key goes over the threshold first, then every other key is seen once
		a := real[g.Intn(len(real))]
		for n := 0; n <= T; n++ {
			order = append(order, a)
		}
		quota[a] -= T + 1
		for _, i := range g.Perm(len(keys)) {
			if i != a && quota[i] > 0 {
				order = append(order, i)
				quota[i]--
			}
		}
	}
	var rest []int
	for i, q := range quota {
		for ; q > 0; q-- {
			rest = append(rest, i)
		}
	}
	for _, j := range g.Perm(len(rest)) {
		order = append(order, rest[j])
	}
	return order
}

func c53SpaceCases(r *vkit.Run) []*c53SCase {
	thorough := !r.Quick()
	var out []*c53SCase
	mk := func(m *c53SMode, g *vkit.Rand, rep int, ingredient, class string, keys []c53SKey) {
		c := &c53SCase{Kind: "space", Idx: len(out), Mode: m.Name, Conf: m.Conf, Ingredient: ingredient, Class: class, NoiseHdr: m.NoiseHdr, NoiseQry: m.NoiseQry, Keys: keys}
		c.Style = g.PickS([]string{"min", "max"})
		c.T = g.Range(1, 3)
		if len(keys) > 0 && len(keys[0].Tag) > 9 && keys[0].Tag[:9] == "len-66000" {
			c.T = 1
		}
		if class == "empty-absent" {
			c.T = g.Range(2, 3)
		}
		if class == "field-boundary" {
			c.T, c.Reuse = g.Range(1, 2), true
			// style min leaves most bytes as they are, so raw and decoded readings of
			// url, path and query see (nearly) the same text: the shape most likely to
			// collide, and the same set of tuples at every seed
			if rep%2 == 0 {
				c.Style = "min"
			} else {
				c.Style = "max"
			}
		}
		c.Order = c53SpaceOrder(g, keys, c.T)
		out = append(out, c)
	}
	reps := 1
	if thorough {
		reps = 4
	}
	for rep := 0; rep < reps; rep++ {
		for mi := range c53SModes {
			m := &c53SModes[mi]
			for si, s := range m.Slots {
				g := r.Rng("space", rep, mi, si)
				if s.Kind == "ip" {
					fams := c53IPFams(g, thorough)
					var classes []string
					for cl := range fams {
						classes = append(classes, cl)
					}
					sort.Strings(classes)
					for _, cl := range classes {
						var keys []c53SKey
						for _, v := range fams[cl] {
							k := m.base()
							k.IP, k.IPLen, k.Tag = v.Lit, v.Len, c53IPKind(v.Lit)
							keys = append(keys, k)
						}
						mk(m, g, rep, "client-ip", cl, keys)
					}
					continue
				}
				for _, f := range c53StrFams(g, s.Kind, thorough, thorough && rep == 0 || len(m.Slots) == 1) {
					var keys []c53SKey
					for _, v := range f.Vals {
						k := m.base().with(s, v.V, v.Absent)
						k.Tag, k.NoKey = v.Tag, v.NoKey
						keys = append(keys, k)
					}
					mk(m, g, rep, s.ingredient(), f.Class, keys)
				}
			}
			// tuples: field boundaries and swapped values, every ordered pair of string slots
			for i, f1 := range m.Slots {
				for j, f2 := range m.Slots {
					if i == j || f1.Kind == "ip" || f2.Kind == "ip" {
						continue
					}
					g := r.Rng("space-tuple", rep, mi, i, j)
					x, y, z := "x"+c53Word(g, 3), "y"+c53Word(g, 3), "z"+c53Word(g, 3)
					tuple := func(tag, v1, v2 string) (c53SKey, bool) {
						if !c53Legal(f1.Kind, v1) || !c53Legal(f2.Kind, v2) {
							return c53SKey{}, false
						}
						k := m.base().with(f1, v1, false).with(f2, v2, false)
						k.Tag = tag
						return k, true
					}
					var keys []c53SKey
					seen := map[string]bool{}
					addT := func(tag, v1, v2 string) bool {
						if seen[v1+"\x00\x01"+v2] {
							return true
						}
						k, ok := tuple(tag, v1, v2)
						if ok {
							seen[v1+"\x00\x01"+v2] = true
							keys = append(keys, k)
						}
						return ok
					}
					addT("plain", x, z)
					addT("swapped", z, x)
					addT("plain-2", x+y, z)
					addT("plain-3", x, y+z)
					for _, s := range c53JoinStrings(f2, thorough) {
						if !c53Legal(f1.Kind, x+s+y) || !c53Legal(f2.Kind, y+s+z) {
							continue
						}
						addT("left:"+c53PctEnc(s), x+s+y, z)
						addT("right:"+c53PctEnc(s), x, y+s+z)
					}
					mk(m, g, rep, f1.ingredient()+"+"+f2.ingredient(), "field-boundary", keys)
				}
			}
		}
	}
	return out
}

// ---- execution and judgement ------------------------------------------------------------

func c53SpaceRule(c *c53SCase) (*mod_prison.VerifPrisonRule, error) {
	var conf mod_prison.PrisonRuleConf
	js := fmt.Sprintf(`{"Name":"s%d","Cond":"default_t()","AccessSignConf":%s,"Action":{"cmd":"CLOSE","params":[]},"CheckPeriod":3600,"StayPeriod":3600,"Threshold":%d,"AccessDictSize":100000,"PrisonDictSize":100000}`,
		c.Idx, c.Conf, c.T)
	if err := json.Unmarshal([]byte(js), &conf); err != nil {
		return nil, err
	}
	return mod_prison.VerifNewPrisonRule(conf, c53SpacePeriod, c53SpacePeriod)
}

// c53SpaceExec fires the requests of the case in order on a fresh rule. pre
// (optional) holds an already parsed request per key: it serves the key's first
// call, and all of its calls if the case reuses request objects.
func c53SpaceExec(r *vkit.Run, c *c53SCase, pre []*bfe_basic.Request) (deny []bool, elapsed time.Duration, ok bool) {
	rule, err := c53SpaceRule(c)
	if err != nil {
		r.Violation("rule-rejected", "valid rule configuration rejected: "+err.Error(), map[string]interface{}{"case": c})
		return nil, 0, false
	}
	tgt := c53HookTarget{rule}
	start := time.Now()
	cache := make([]*bfe_basic.Request, len(c.Keys))
	copy(cache, pre)
	for seq, ki := range c.Order {
		req := cache[ki]
		if !c.Reuse {
			cache[ki] = nil
		}
		if req == nil {
			var err error
			if req, err = c.req(&c.Keys[ki], seq+1); err != nil {
				r.Inconclusive("harness: vetted request not parsable: " + err.Error())
				return nil, 0, false
			}
			if c.Reuse {
				cache[ki] = req
			}
		}
		var d bool
		if r.Try(func() interface{} { return c }, func() { d = tgt.check(req) }) {
			return nil, 0, false
		}
		deny = append(deny, d)
	}
	return deny, time.Since(start), true
}

func c53SpacePairClass(c *c53SCase, a, b *c53SKey) string {
	if c.Ingredient == "client-ip" {
		ka, kb := a.Tag, b.Tag
		if ka > kb {
			ka, kb = kb, ka
		}
		return ka + "-vs-" + kb
	}
	return c.Class
}

// c53SpaceCulprit looks for ONE other key that explains the denial of key bi.
func c53SpaceCulprit(r *vkit.Run, c *c53SCase, bi, n int) (*c53SCase, int) {
	// control: the key's own n requests on a fresh rule. If the last one is denied
	// there as well, no other key is needed to explain the denial.
	own := *c
	own.Keys = []c53SKey{c.Keys[bi]}
	own.Order = make([]int, n)
	if deny, _, ok := c53SpaceExec(r, &own, nil); !ok {
		return nil, -1
	} else if deny[n-1] {
		own.Note = fmt.Sprintf("one-key witness from case %d (%d keys)", c.Idx, len(c.Keys))
		return &own, -2
	}
	for extra := 0; extra <= 1; extra++ {
		for ai := range c.Keys {
			if ai == bi || c.Keys[ai].NoKey {
				continue
			}
			m := *c
			m.Keys = []c53SKey{c.Keys[ai], c.Keys[bi]}
			m.Order = nil
			for n := 0; n < c.T+extra; n++ {
				m.Order = append(m.Order, 0)
			}
			m.Order = append(m.Order, 1)
			m.Note = fmt.Sprintf("two-key witness from case %d (%d keys)", c.Idx, len(c.Keys))
			if deny, _, ok := c53SpaceExec(r, &m, nil); ok && deny[len(deny)-1] {
				return &m, ai
			}
		}
	}
	return nil, -1
}

func c53SpaceShort(k *c53SKey) string {
	b, _ := json.Marshal(k)
	s := string(b)
	if len(s) > 300 {
		s = s[:300] + "..."
	}
	return s
}

var c53SpaceSampleOnce sync.Map

// c53SpaceJudge runs one case; after a violation the victim key is taken out
// and the rest of the case is run again (a collision must not hide another).
func c53SpaceJudge(r *vkit.Run, c0 *c53SCase) {
	c := *c0
	// vet keys
	var keys []c53SKey
	var pre []*bfe_basic.Request
	newIdx := make([]int, len(c.Keys))
	for i := range c.Keys {
		newIdx[i] = -1
		req, res := c.vet(&c.Keys[i])
		switch res {
		case "":
			newIdx[i] = len(keys)
			keys = append(keys, c.Keys[i])
			pre = append(pre, req)
		case "rejected":
			r.Count("space_keys_rejected_by_http_reader", 1)
		default:
			r.Count("space_keys_altered_by_http_reader", 1)
		}
	}
	if len(keys) != len(c.Keys) {
		// the order refers to key indices: drop the requests of the keys that were left out
		var order []int
		for _, ki := range c.Order {
			if n := newIdx[ki]; n >= 0 {
				order = append(order, n)
			}
		}
		c.Keys, c.Order = keys, order
	}
	if len(c.Keys) < 2 && r.Replay == "" {
		r.Count("space_cases_without_two_keys", 1)
		return
	}
	r.Count("space_cases", 1)
	r.Count("space_keys", int64(len(c.Keys)))
	r.Count("space_class:"+c.Class, 1)
	r.Count("space_ingredient:"+c.Ingredient, 1)
	for round := 0; round < 12; round++ {
		deny, elapsed, ok := c53SpaceExec(r, &c, pre)
		pre = nil
		if !ok {
			return
		}
		if elapsed > c53SpacePeriod/4 {
			r.Count("space_cases_discarded_too_slow", 1)
			return
		}
		cnt := make([]int, len(c.Keys))
		jailed := map[string]bool{} // tags (ip: kinds) of keys over their threshold so far
		nJailed := 0
		victim := -1
		var indep, denied int64
		for seq, ki := range c.Order {
			cnt[ki]++
			k := &c.Keys[ki]
			mustDeny := cnt[ki] > c.T && !k.NoKey
			r.Count("space_requests", 1)
			switch {
			case mustDeny && deny[seq]:
				denied++
				if cnt[ki] == c.T+1 {
					jailed[k.Tag] = true
					nJailed++
				}
			case !mustDeny && !deny[seq]:
				if nJailed > 0 {
					indep++
					if c.Ingredient == "client-ip" {
						for t := range jailed {
							a, b := t, k.Tag
							if a > b {
								a, b = b, a
							}
							r.Count("space_ip_indep:"+a+"-vs-"+b, 1)
						}
					}
					if k.NoKey {
						r.Count("space_nokey_admitted_while_other_jailed", 1)
					}
				}
			case mustDeny && !deny[seq]:
				r.Violation("space:admit-over-threshold:"+c.Ingredient+":"+c.Class,
					fmt.Sprintf("space case %d (sign %s, %s/%s): request %d of key %q (%s) admitted, threshold %d, all requests within %s of a 1 h period",
						c.Idx, c.Conf, c.Ingredient, c.Class, cnt[ki], k.Tag, c53SpaceShort(k), c.T, elapsed),
					map[string]interface{}{"case": &c, "request_index": seq, "key_index": ki, "verdicts_deny": deny, "strings": "%XX = byte"})
				victim = ki
			default: // denied below / at the threshold
				m, ai := c53SpaceCulprit(r, &c, ki, cnt[ki])
				switch {
				case ai >= 0:
					a := &c.Keys[ai]
					r.Violation("other-key-affected:"+c.Ingredient+":"+c53SpacePairClass(&c, a, k),
						fmt.Sprintf("sign %s threshold %d: after %d request(s) of key A %q the FIRST request of the distinct key B %q is denied (space case %d, %s/%s, url style %s). A=%s B=%s",
							c.Conf, c.T, len(m.Order)-1, a.Tag, k.Tag, c.Idx, c.Ingredient, c.Class, c.Style, c53SpaceShort(a), c53SpaceShort(k)),
						map[string]interface{}{"case": m, "strings": "%XX = byte", "found_at": map[string]interface{}{"case_idx": c.Idx, "request_index": seq, "request_no_of_key": cnt[ki], "keys_in_case": len(c.Keys)}})
				case ai == -2:
					// the key's own requests alone are denied at or below the threshold
					r.Violation("space:deny-at-or-below-threshold",
						fmt.Sprintf("sign %s threshold %d: request %d of a key is denied on a fresh rule that saw no other key (space case %d, %s/%s). key=%s",
							c.Conf, c.T, cnt[ki], c.Idx, c.Ingredient, c.Class, c53SpaceShort(k)),
						map[string]interface{}{"case": m, "strings": "%XX = byte"})
				default:
					r.Violation("space:deny-below-threshold-unexplained:"+c.Ingredient+":"+c.Class,
						fmt.Sprintf("space case %d (sign %s, %s/%s): request %d of key %q (%s) denied, threshold %d; the key alone is admitted and no single other key of the case explains the denial",
							c.Idx, c.Conf, c.Ingredient, c.Class, cnt[ki], k.Tag, c53SpaceShort(k), c.T),
						map[string]interface{}{"case": &c, "request_index": seq, "key_index": ki, "verdicts_deny": deny, "strings": "%XX = byte"})
				}
				victim = ki
			}
			if victim >= 0 {
				break
			}
		}
		if victim < 0 {
			r.Count("space_checked_deny", denied)
			r.Count("space_admitted_while_other_key_jailed", indep)
			r.Count("space_indep:"+c.Ingredient, indep)
			r.CaseS(fmt.Sprintf("space|%s|%s|%s|%s|T%d|%d|%v", c.Mode, c.Ingredient, c.Class, c.Style, c.T, len(c.Keys), c.Order), denied > 0 && indep > 0)
			if _, dup := c53SpaceSampleOnce.LoadOrStore(c.Ingredient == "client-ip", true); !dup && len(c.Keys) <= 40 && r.WantSample() {
				r.Sample(map[string]interface{}{"kind": "space", "case": &c, "verdicts_deny": deny, "strings": "%XX = byte"})
			}
			return
		}
		// take the victim out and run the remaining keys again
		r.Count("space_reruns_without_victim", 1)
		var nk []c53SKey
		var no []int
		for i := range c.Keys {
			if i != victim {
				nk = append(nk, c.Keys[i])
			}
		}
		for _, ki := range c.Order {
			switch {
			case ki < victim:
				no = append(no, ki)
			case ki > victim:
				no = append(no, ki-1)
			}
		}
		c.Keys, c.Order = nk, no
		if len(c.Keys) < 2 {
			return
		}
		if r.Replay != "" {
			return
		}
	}
	r.Count("space_cases_given_up_after_12_victims", 1)
}

var c53SpaceRequired = []string{
	"space_cases", "space_checked_deny", "space_admitted_while_other_key_jailed", "space_nokey_admitted_while_other_jailed",
	"space_ip_indep:ipv6-vs-ipv6", "space_ip_indep:ipv4-vs-ipv4", "space_ip_indep:ipv4-vs-ipv6", "space_ip_indep:ipv4-mapped-vs-ipv6",
	"space_ip_indep:ipv4-vs-ipv4-mapped", "space_ip_indep:ipv4-mapped-vs-ipv4-mapped",
	"space_indep:client-ip", "space_indep:header", "space_indep:cookie", "space_indep:query", "space_indep:host", "space_indep:path", "space_indep:url-regexp",
	"space_indep:header+header", "space_indep:cookie+cookie", "space_indep:query+query", "space_indep:host+path", "space_indep:path+host", "space_indep:url-regexp+url-regexp",
	"space_class:case", "space_class:space", "space_class:one-byte", "space_class:empty-absent", "space_class:long", "space_class:separator-bytes", "space_class:non-ascii",
	"space_class:numeric-format", "space_class:field-boundary", "space_class:ipv6-last-group", "space_class:ipv6-first-group", "space_class:ipv6-zero-runs",
	"space_class:ipv6-link-local", "space_class:ipv6-one-bit", "space_class:ipv4-one-bit", "space_class:mixed-forms",
}

func c53Space(r *vkit.Run) {
	start := time.Now()
	cases := c53SpaceCases(r)
	vkit.Parallel(len(cases), 0, func(i int) { c53SpaceJudge(r, cases[i]) })
	for _, k := range c53SpaceRequired {
		if r.Counter(k) == 0 {
			r.Inconclusive("key-space shape never reached: " + k)
		}
	}
	if n := r.Counter("space_keys_rejected_by_http_reader") + r.Counter("space_keys_altered_by_http_reader"); n*4 > r.Counter("space_keys") {
		r.Inconclusive(fmt.Sprintf("%d keys of the key-space cases were rejected or altered by the HTTP reader (kept: %d)", n, r.Counter("space_keys")))
	}
	r.Extra("space_wall", time.Since(start).String())
	fmt.Printf("  key-space cases: %d cases in %s\n", len(cases), time.Since(start).Round(time.Millisecond))
}

func c53SpaceReplay(r *vkit.Run) {
	var w struct {
		Case c53SCase `json:"case"`
	}
	if err := r.LoadReplay(&w); err != nil {
		r.Inconclusive(err.Error())
		return
	}
	r.SetMinDistinct(0)
	c53SpaceJudge(r, &w.Case)
}
