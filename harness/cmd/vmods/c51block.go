package main

import (
	"bytes"
	"encoding/json"
	"fmt"
	"net"
	"path/filepath"
	"strings"

	"github.com/bfenetworks/bfe/bfe_basic"
	"github.com/bfenetworks/bfe/bfe_module"
	"github.com/bfenetworks/bfe/bfe_modules/mod_block"

	"verifharness/vkit"
)

// mod_block: connections from an address in the global ip blocklist are refused
// at Accept; requests matching a CLOSE rule are closed, ALLOW rules accept.
// Reference: linear scan of the ip list (16-byte comparison) and first-match
// scan of the global then the product rule list.

type c51BlRule struct {
	Name   string
	Cmd    string // CLOSE | ALLOW
	Kind   string // host | path | cip
	Arg    string // host, path, or "start end"
	CondTx string
}

type c51BlSc struct {
	Ranges  [][2]string // inclusive, start==end for singles
	IPFile  string
	Global  []c51BlRule
	Product []c51BlRule
	Probes  []string
}

func c51IPAdd(base net.IP, off int) net.IP {
	ip := make(net.IP, len(base))
	copy(ip, base)
	for i := len(ip) - 1; i >= 0 && off != 0; i-- {
		v := int(ip[i]) + off
		ip[i] = byte(v & 0xff)
		off = v >> 8
	}
	return ip
}

var c51BlBases = []string{"10.1.1.250", "192.168.1.100", "203.0.113.0", "2001:db8::fff8", "fd00:1::ffff:fff0"}

var c51BlHosts = []string{"n.example.org", "white.example.org", "bad.example.org", "ok.example.org", "plain.example.org"}
var c51BlPaths = []string{"/limit", "/gblock", "/index/x", "/admin", "/"}

func c51BlScenario(cfgSeed uint64) *c51BlSc {
	g := vkit.NewRand(cfgSeed)
	sc := &c51BlSc{}
	var sb strings.Builder
	probe := map[string]bool{}
	addProbe := func(ip net.IP) { probe[ip.String()] = true }
	n := g.Range(3, 9)
	for i := 0; i < n; i++ {
		base := net.ParseIP(c51BlBases[g.Intn(len(c51BlBases))])
		if b4 := base.To4(); b4 != nil {
			base = b4
		}
		a := g.Intn(12)
		b := a
		if g.Chance(2, 3) {
			b = a + g.Intn(12-a)
		}
		s, e := c51IPAdd(base, a), c51IPAdd(base, b)
		sc.Ranges = append(sc.Ranges, [2]string{s.String(), e.String()})
		if a == b && g.Bool() {
			sb.WriteString(s.String() + "\n")
		} else {
			sb.WriteString(s.String() + " " + e.String() + "\n") // the documented line format
		}
		for _, p := range []net.IP{c51IPAdd(s, -1), s, c51IPAdd(s, 1), c51IPAdd(e, -1), e, c51IPAdd(e, 1)} {
			addProbe(p)
		}
		addProbe(c51IPAdd(base, g.Intn(14)-1))
	}
	for _, p := range []string{"127.0.0.1", "::1", "8.8.8.8", "2001:db8::1", "255.255.255.255", "10.1.1.249", "::ffff:10.1.1.251"} {
		addProbe(net.ParseIP(p))
	}
	for p := range probe {
		sc.Probes = append(sc.Probes, p)
	}
	// deterministic order
	for i := 1; i < len(sc.Probes); i++ {
		for j := i; j > 0 && sc.Probes[j] < sc.Probes[j-1]; j-- {
			sc.Probes[j], sc.Probes[j-1] = sc.Probes[j-1], sc.Probes[j]
		}
	}
	sc.IPFile = sb.String()

	mk := func(list string, i int) c51BlRule {
		ru := c51BlRule{Name: fmt.Sprintf("%s-rule-%d", list, i), Cmd: g.PickS([]string{"CLOSE", "CLOSE", "ALLOW"})}
		switch g.Intn(3) {
		case 0:
			ru.Kind, ru.Arg = "host", c51BlHosts[g.Intn(len(c51BlHosts)-1)]
			ru.CondTx = fmt.Sprintf("req_host_in(%q)", ru.Arg)
		case 1:
			ru.Kind, ru.Arg = "path", c51BlPaths[g.Intn(len(c51BlPaths)-1)]
			ru.CondTx = fmt.Sprintf("req_path_in(%q, false)", ru.Arg)
		default:
			base := net.ParseIP("172.16.5.250").To4()
			a := g.Intn(10)
			b := a + g.Intn(10-a)
			ru.Kind, ru.Arg = "cip", c51IPAdd(base, a).String()+" "+c51IPAdd(base, b).String()
			f := strings.Fields(ru.Arg)
			ru.CondTx = fmt.Sprintf("req_cip_range(%q, %q)", f[0], f[1])
		}
		return ru
	}
	for i, n := 0, g.Intn(3); i < n; i++ {
		sc.Global = append(sc.Global, mk("global", i))
	}
	for i, n := 0, g.Range(2, 5); i < n; i++ {
		sc.Product = append(sc.Product, mk("pn", i))
	}
	return sc
}

func c51BlRuleJSON(rs []c51BlRule) []map[string]interface{} {
	out := []map[string]interface{}{}
	for _, ru := range rs {
		out = append(out, map[string]interface{}{"name": ru.Name, "cond": ru.CondTx, "action": map[string]interface{}{"cmd": ru.Cmd, "params": []string{}}})
	}
	return out
}

func c51BlockMod() *c51Mod {
	return &c51Mod{
		name: "block",
		boot: func(r *vkit.Run) (*modEnv, error) {
			root := filepath.Join(scratch(), "c51block")
			writeFile(filepath.Join(root, "mod_block", "mod_block.conf"), []byte("[Basic]\nProductRulePath = mod_block/block_rules.data\nIPBlocklistPath = mod_block/ip_blocklist.data\n\n[Log]\nOpenDebug = false\n"))
			writeFile(filepath.Join(root, "mod_block", "block_rules.data"), []byte(`{"Version":"boot","Config":{}}`))
			writeFile(filepath.Join(root, "mod_block", "ip_blocklist.data"), []byte("192.0.2.255\n"))
			env := newModEnv()
			m := mod_block.NewModuleBlock()
			if err := m.Init(env.cbs, env.whs, root); err != nil {
				return nil, err
			}
			return env, nil
		},
		load: func(r *vkit.Run, env *modEnv, cfgSeed uint64) (interface{}, error) {
			sc := c51BlScenario(cfgSeed)
			dir := filepath.Join(scratch(), "c51block", fmt.Sprintf("sc-%016x", cfgSeed))
			cfg := map[string]interface{}{"pn": c51BlRuleJSON(sc.Product)}
			if len(sc.Global) > 0 {
				cfg["global"] = c51BlRuleJSON(sc.Global)
			}
			b, _ := json.MarshalIndent(map[string]interface{}{"Version": fmt.Sprintf("%016x", cfgSeed), "Config": cfg}, "", " ")
			writeFile(filepath.Join(dir, "block_rules.data"), b)
			writeFile(filepath.Join(dir, "ip_blocklist.data"), []byte(sc.IPFile))
			if err := env.reload("mod_block.product_rule_table", filepath.Join(dir, "block_rules.data")); err != nil {
				return nil, err
			}
			return sc, env.reload("mod_block.global_ip_table", filepath.Join(dir, "ip_blocklist.data"))
		},
		run:   c51BlRun,
		scen:  [2]int{6, 40},
		cases: [2]int{500, 1200},
		must:  []string{"block_conn_refused", "block_conn_accepted", "block_req_closed", "block_req_allowed_by_rule", "block_req_no_rule"},
	}
}

func c51BlIn(rg [2]string, ip net.IP) bool {
	p := ip.To16()
	a, b := net.ParseIP(rg[0]).To16(), net.ParseIP(rg[1]).To16()
	return bytes.Compare(a, p) <= 0 && bytes.Compare(p, b) <= 0
}

type c51BlReq struct {
	Host, Path, Cip, Product string
}

func c51BlMatch(ru *c51BlRule, q *c51BlReq) bool {
	switch ru.Kind {
	case "host":
		return q.Host == ru.Arg
	case "path":
		return q.Path == ru.Arg
	default:
		f := strings.Fields(ru.Arg)
		return c51BlIn([2]string{f[0], f[1]}, net.ParseIP(q.Cip))
	}
}

// c51BlRef: first matching rule of the global list, then of the product list.
func c51BlRef(sc *c51BlSc, q *c51BlReq) (verdict, why, class string) {
	lists := [][]c51BlRule{sc.Global}
	if q.Product == "pn" {
		lists = append(lists, sc.Product)
	}
	for _, l := range lists {
		for i := range l {
			if c51BlMatch(&l[i], q) {
				if l[i].Cmd == "CLOSE" {
					return c51Reject, fmt.Sprintf("rule %s (%s) matches: CLOSE", l[i].Name, l[i].CondTx), "closed"
				}
				return c51Admit, fmt.Sprintf("rule %s (%s) matches first: ALLOW", l[i].Name, l[i].CondTx), "allowed_by_rule"
			}
		}
	}
	return c51Admit, "no rule matches", "no_rule"
}

func c51BlRun(r *vkit.Run, env *modEnv, sci interface{}, cfgSeed, caseSeed uint64, now int64) {
	sc := sci.(*c51BlSc)
	g := vkit.NewRand(caseSeed)
	if g.Chance(2, 5) {
		// connection level
		ipS := sc.Probes[g.Intn(len(sc.Probes))]
		ip := net.ParseIP(ipS)
		four := false
		if ip4 := ip.To4(); ip4 != nil && g.Bool() {
			ip, four = ip4, true // AF_INET accept yields the 4-byte form
		}
		blocked, pos := false, ""
		for _, rg := range sc.Ranges {
			if c51BlIn(rg, ip) {
				blocked = true
				switch {
				case rg[0] == rg[1]:
					pos = "single"
				case net.ParseIP(rg[0]).Equal(ip):
					pos = "range-start"
				case net.ParseIP(rg[1]).Equal(ip):
					pos = "range-end"
				case pos == "":
					pos = "inside-range"
				}
			}
		}
		fam := "v6"
		if ip.To4() != nil {
			fam = "v4"
		}
		w := &c51Witness{Mod: "block", CfgSeed: cfgSeed, CaseSeed: caseSeed, Shape: "accept:" + fam + ":" + pos,
			Info: map[string]interface{}{"client_ip": ipS, "four_byte_form": four, "ip_blocklist": sc.IPFile}}
		sess := bfe_basic.NewSession(nil)
		sess.RemoteAddr = &net.TCPAddr{IP: ip, Port: 40000 + g.Intn(20000)}
		var code int
		if r.Try(func() interface{} { return w }, func() { code = env.cbs.GetHandlerList(bfe_module.HandleAccept).FilterAccept(sess) }) {
			return
		}
		r.CaseS(fmt.Sprintf("block|%x|conn|%s|%v", cfgSeed, ipS, four), true)
		obs := c51Obs{code: code}
		want := c51Admit
		w.Why = "the address is in no entry of the ip blocklist"
		if blocked {
			want, w.Why = c51Reject, "the address is in the ip blocklist ("+pos+")"
			w.Shape = "blocked-address-" + fam + "-" + pos
		}
		admitted, refused := code == bfe_module.BfeHandlerGoOn, code == bfe_module.BfeHandlerClose
		if admitted {
			r.Count("block_conn_accepted", 1)
		} else if refused {
			r.Count("block_conn_refused", 1)
		}
		c51Verdict(r, w, want, obs, admitted, refused, "", "connection-from-unlisted-address-"+fam)
		return
	}
	// request level
	q := &c51BlReq{Product: "pn"}
	if g.Chance(1, 6) {
		q.Product = "px" // only the global list applies
	}
	q.Host = c51BlHosts[g.Intn(len(c51BlHosts))]
	q.Path = c51BlPaths[g.Intn(len(c51BlPaths))]
	if g.Chance(1, 4) {
		q.Path = g.PickS([]string{"/limit/x", "/limi", "/limitx", "/gblock/", "/other", "/adm"})
	}
	q.Cip = c51IPAdd(net.ParseIP("172.16.5.250").To4(), g.Intn(13)-1).String()
	if g.Chance(1, 8) {
		q.Cip = g.PickS([]string{"127.0.0.1", "2001:db8::5", "172.16.6.1"})
	}
	w := &c51Witness{Mod: "block", CfgSeed: cfgSeed, CaseSeed: caseSeed,
		Info: map[string]interface{}{"host": q.Host, "path": q.Path, "client_ip": q.Cip, "product": q.Product,
			"global_rules": c51BlRuleJSON(sc.Global), "product_rules": c51BlRuleJSON(sc.Product)}}
	raw := c51RawReq(q.Path, q.Host, nil)
	req, err := parseReq(raw)
	if err != nil {
		r.Count("block_http_reader_refused", 1)
		return
	}
	req.Route.Product = q.Product
	cip := net.ParseIP(q.Cip)
	if ip4 := cip.To4(); ip4 != nil && g.Bool() {
		cip = ip4
	}
	req.ClientAddr = &net.TCPAddr{IP: cip, Port: 40001}
	req.RemoteAddr = req.ClientAddr
	var obs c51Obs
	if r.Try(func() interface{} { return w }, func() { obs.code, obs.resp = env.request(bfe_module.HandleFoundProduct, req) }) {
		return
	}
	want, why, class := c51BlRef(sc, q)
	w.Why = why
	w.Shape = "request-matching-close-rule"
	r.CaseS(fmt.Sprintf("block|%x|req|%s|%s|%s|%s", cfgSeed, q.Host, q.Path, q.Cip, q.Product), class != "no_rule")
	admitted := obs.code == bfe_module.BfeHandlerGoOn && obs.resp == nil
	closed := obs.code == bfe_module.BfeHandlerClose
	if (admitted && want == c51Admit) || (closed && want == c51Reject) {
		r.Count("block_req_"+class, 1)
	}
	c51Verdict(r, w, want, obs, admitted, closed, "", "request-"+class)
}
