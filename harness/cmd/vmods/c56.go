package main

import (
	"bytes"
	"encoding/base64"
	"encoding/binary"
	"encoding/hex"
	"fmt"
	"net"
	"net/url"
	"path/filepath"
	"strings"
	"sync"
	"sync/atomic"

	"github.com/miekg/dns"

	"github.com/bfenetworks/bfe/bfe_basic"
	"github.com/bfenetworks/bfe/bfe_module"
	"github.com/bfenetworks/bfe/bfe_modules/mod_doh"

	"verifharness/vkit"
)

// C56: a DoH request (GET or POST) is forwarded as the client's DNS message
// plus an EDNS client-subnet option whose family / prefix match the client
// address; malformed or oversized messages are rejected, never truncated.
//
// Oracle (written from RFC 8484 section 4.1, RFC 7871 section 6, RFC 6891 section 6.1.1):
//   * the DNS message carried by the request is   GET: base64url(no padding)
//     of the single "dns" query parameter;  POST: the complete request body.
//   * method not GET/POST, no/duplicate dns parameter, undecodable base64url,
//     a message the codec (miekg/dns, used only as codec) cannot unpack, or a
//     POST body longer than the module's limit (8192)  =>  error.
//   * otherwise the result, *as packed for the wire*, must have the client's
//     header, question, answer, authority and non-OPT additional records
//     unchanged, at most one OPT RR (RFC 6891: "MUST be the only OPT RR"),
//     and exactly one client-subnet option: FAMILY 1, prefix <= 32, address
//     bytes = ceil(prefix/8) <= 4, equal to the masked client address for an
//     IPv4 client (net.IP.To4() != nil), FAMILY 2, prefix <= 128 for IPv6.
// The wire form is decoded by a small walker written here (not by bfe).

const c56PostLimit = 8192

type c56Case struct {
	Method   string `json:"method"`
	Shape    string `json:"shape"`    // generator class
	Target   string `json:"target"`   // request target for GET (may be empty for POST)
	BodyHex  string `json:"body_hex"` // POST body (hex) - may be long
	Chunked  bool   `json:"chunked,omitempty"`
	Remote   string `json:"remote"`            // RemoteAddr IP
	Remote4  bool   `json:"remote4,omitempty"` // 4-byte representation of an IPv4 RemoteAddr
	Client   string `json:"client,omitempty"`  // ClientAddr IP ("" = nil)
	Client4  bool   `json:"client4,omitempty"`
	ViaMod   bool   `json:"via_module,omitempty"` // through mod_doh handler + UDP capture
	// CLIENT-OPT-SPACE family (c56opt.go); descriptive only, the request is defined by the fields above
	Family     string   `json:"family,omitempty"`
	Pattern    string   `json:"pattern,omitempty"`     // arrangement of the client's OPT options: E = client-subnet, o = other; "none" = no OPT RR
	Options    []string `json:"options,omitempty"`     // kind of every option, in order
	OptPos     string   `json:"opt_pos,omitempty"`     // place of the OPT RR in the additional section
	OptHdr     string   `json:"opt_hdr,omitempty"`     // unusual OPT header fields
	ClientKind string   `json:"client_kind,omitempty"` // address kinds of RemoteAddr / ClientAddr
	MsgHex   string `json:"-"`
	wantErr  bool
	wantWire []byte // the client's DNS message when !wantErr
	why      string
}

// ---- wire walker -----------------------------------------------------------

type c56Opt struct {
	family uint16
	prefix uint8
	scope  uint8
	addr   []byte
}

type c56Wire struct {
	optRRs  int
	ecs     []c56Opt
	otherOp []string // code:hex of non-ECS options, in order
}

func c56SkipName(b []byte, off int) (int, error) {
	for {
		if off >= len(b) {
			return 0, fmt.Errorf("name runs past end")
		}
		l := int(b[off])
		switch {
		case l == 0:
			return off + 1, nil
		case l&0xC0 == 0xC0:
			if off+2 > len(b) {
				return 0, fmt.Errorf("pointer past end")
			}
			return off + 2, nil
		case l&0xC0 != 0:
			return 0, fmt.Errorf("bad label type")
		default:
			off += 1 + l
		}
	}
}

// c56WalkWire extracts OPT RRs and their options from a packed DNS message.
func c56WalkWire(b []byte) (*c56Wire, error) {
	if len(b) < 12 {
		return nil, fmt.Errorf("short header")
	}
	qd := int(binary.BigEndian.Uint16(b[4:]))
	nrr := int(binary.BigEndian.Uint16(b[6:])) + int(binary.BigEndian.Uint16(b[8:])) + int(binary.BigEndian.Uint16(b[10:]))
	off := 12
	var err error
	for i := 0; i < qd; i++ {
		if off, err = c56SkipName(b, off); err != nil {
			return nil, err
		}
		off += 4
	}
	w := &c56Wire{}
	for i := 0; i < nrr; i++ {
		nameStart := off
		if off, err = c56SkipName(b, off); err != nil {
			return nil, err
		}
		if off+10 > len(b) {
			return nil, fmt.Errorf("rr header past end")
		}
		typ := binary.BigEndian.Uint16(b[off:])
		rdlen := int(binary.BigEndian.Uint16(b[off+8:]))
		off += 10
		if off+rdlen > len(b) {
			return nil, fmt.Errorf("rdata past end")
		}
		rd := b[off : off+rdlen]
		off += rdlen
		if typ != 41 {
			continue
		}
		if off-rdlen-10-nameStart != 1 {
			return nil, fmt.Errorf("OPT owner name is not root")
		}
		w.optRRs++
		for len(rd) > 0 {
			if len(rd) < 4 {
				return nil, fmt.Errorf("short option header")
			}
			code := binary.BigEndian.Uint16(rd)
			ol := int(binary.BigEndian.Uint16(rd[2:]))
			if 4+ol > len(rd) {
				return nil, fmt.Errorf("option past end")
			}
			od := rd[4 : 4+ol]
			rd = rd[4+ol:]
			if code == 8 {
				if len(od) < 4 {
					return nil, fmt.Errorf("short ECS option")
				}
				w.ecs = append(w.ecs, c56Opt{family: binary.BigEndian.Uint16(od), prefix: od[2], scope: od[3], addr: append([]byte{}, od[4:]...)})
			} else {
				w.otherOp = append(w.otherOp, fmt.Sprintf("%d:%x", code, od))
			}
		}
	}
	if off != len(b) {
		return nil, fmt.Errorf("%d trailing bytes", len(b)-off)
	}
	return w, nil
}

// ---- message comparison (miekg/dns as codec) -------------------------------

func c56Sections(m *dns.Msg) string {
	var sb strings.Builder
	h := m.MsgHdr
	h.Rcode &= 0xf // extended rcode bits live in the OPT RR
	fmt.Fprintf(&sb, "hdr=%+v\n", h)
	for _, q := range m.Question {
		fmt.Fprintf(&sb, "q=%s|%d|%d\n", q.Name, q.Qtype, q.Qclass)
	}
	dump := func(tag string, rrs []dns.RR) {
		for _, rr := range rrs {
			if rr.Header().Rrtype == dns.TypeOPT {
				continue
			}
			fmt.Fprintf(&sb, "%s=%s\n", tag, rr.String())
		}
	}
	dump("an", m.Answer)
	dump("ns", m.Ns)
	dump("ar", m.Extra)
	return sb.String()
}

// ---- generators -------------------------------------------------------------

var c56Labels = []string{"a", "www", "example", "org", "xn--bcher-kva", "_dns", "x-y", "0", "verylonglabel-0123456789-0123456789-0123456789-0123456789-abc", "COM", "MiXed"}

func c56Name(g *vkit.Rand) string {
	n := g.Range(0, 5)
	if n == 0 {
		return "."
	}
	var s string
	for i := 0; i < n; i++ {
		s += c56Labels[g.Intn(len(c56Labels))] + "."
	}
	return s
}

func c56RR(g *vkit.Rand) dns.RR {
	name := c56Name(g)
	ttl := uint32(g.Intn(100000))
	switch g.Intn(5) {
	case 0:
		return &dns.A{Hdr: dns.RR_Header{Name: name, Rrtype: dns.TypeA, Class: dns.ClassINET, Ttl: ttl}, A: net.IP(g.Bytes(4))}
	case 1:
		return &dns.AAAA{Hdr: dns.RR_Header{Name: name, Rrtype: dns.TypeAAAA, Class: dns.ClassINET, Ttl: ttl}, AAAA: net.IP(g.Bytes(16))}
	case 2:
		return &dns.CNAME{Hdr: dns.RR_Header{Name: name, Rrtype: dns.TypeCNAME, Class: dns.ClassINET, Ttl: ttl}, Target: c56Name(g)}
	case 3:
		return &dns.TXT{Hdr: dns.RR_Header{Name: name, Rrtype: dns.TypeTXT, Class: dns.ClassINET, Ttl: ttl}, Txt: []string{hex.EncodeToString(g.Bytes(g.Range(0, 100)))}}
	default:
		return &dns.MX{Hdr: dns.RR_Header{Name: name, Rrtype: dns.TypeMX, Class: dns.ClassINET, Ttl: ttl}, Preference: uint16(g.Intn(100)), Mx: c56Name(g)}
	}
}

var c56Qtypes = []uint16{dns.TypeA, dns.TypeAAAA, dns.TypeTXT, dns.TypeMX, dns.TypeANY, dns.TypeSOA, dns.TypeNS, dns.TypeSRV, 65280}

// c56Msg builds a client DNS message. optKind: 0 none, 1 OPT without ECS, 2 OPT with ECS.
func c56Msg(g *vkit.Rand, optKind int, rich bool) *dns.Msg {
	m := new(dns.Msg)
	m.Id = uint16(g.Intn(65536))
	m.RecursionDesired = g.Bool()
	m.CheckingDisabled = g.Chance(1, 4)
	m.AuthenticatedData = g.Chance(1, 4)
	m.Compress = g.Bool()
	nq := 1
	if g.Chance(1, 12) {
		nq = g.Intn(3)
	}
	for i := 0; i < nq; i++ {
		m.Question = append(m.Question, dns.Question{Name: c56Name(g), Qtype: c56Qtypes[g.Intn(len(c56Qtypes))], Qclass: uint16(g.PickS([]string{"1", "1", "1", "3", "255"})[0] - '0')})
	}
	if rich {
		for i := g.Intn(3); i > 0; i-- {
			m.Answer = append(m.Answer, c56RR(g))
		}
		for i := g.Intn(2); i > 0; i-- {
			m.Ns = append(m.Ns, c56RR(g))
		}
		for i := g.Intn(3); i > 0; i-- {
			m.Extra = append(m.Extra, c56RR(g))
		}
	}
	if optKind > 0 {
		o := new(dns.OPT)
		o.Hdr.Name = "."
		o.Hdr.Rrtype = dns.TypeOPT
		o.SetUDPSize(uint16(g.PickS([]string{"\x02", "\x04", "\x05", "\x10"})[0]) * 256)
		if g.Bool() {
			o.SetDo()
		}
		if g.Bool() {
			o.Option = append(o.Option, &dns.EDNS0_COOKIE{Code: dns.EDNS0COOKIE, Cookie: hex.EncodeToString(g.Bytes(8))})
		}
		if g.Bool() {
			o.Option = append(o.Option, &dns.EDNS0_PADDING{Padding: make([]byte, g.Range(0, 64))})
		}
		if optKind == 2 {
			if g.Bool() {
				o.Option = append(o.Option, &dns.EDNS0_SUBNET{Code: dns.EDNS0SUBNET, Family: 1, SourceNetmask: uint8(g.Range(0, 32)), Address: net.IP(g.Bytes(4))})
			} else {
				o.Option = append(o.Option, &dns.EDNS0_SUBNET{Code: dns.EDNS0SUBNET, Family: 2, SourceNetmask: uint8(g.Range(0, 128)), Address: net.IP(g.Bytes(16))})
			}
		}
		m.Extra = append(m.Extra, o)
	}
	return m
}

func c56IP(g *vkit.Rand) (ip net.IP, s string, four bool) {
	switch g.Intn(9) {
	case 0, 1, 2: // IPv4, 16-byte representation (net.ParseIP / dual-stack accept)
		b := g.Bytes(4)
		ip = net.IPv4(b[0], b[1], b[2], b[3])
	case 3, 4: // IPv4, 4-byte representation (AF_INET accept)
		ip = net.IP(g.Bytes(4))
		four = true
	case 5:
		ip = net.ParseIP(g.PickS([]string{"127.0.0.1", "0.0.0.0", "255.255.255.255", "10.0.0.1", "::ffff:192.0.2.7"}))
	case 6, 7:
		b := g.Bytes(16)
		b[0] = 0x20 | b[0]&0x0f // never a v4-mapped prefix
		ip = net.IP(b)
	default:
		ip = net.ParseIP(g.PickS([]string{"::1", "2001:db8::1", "fe80::1", "ffff:ffff:ffff:ffff:ffff:ffff:ffff:ffff", "64:ff9b::102:304"}))
	}
	return ip, ip.String(), four
}

func c56ParseIP(s string, four bool) net.IP {
	ip := net.ParseIP(s)
	if four && ip.To4() != nil {
		return ip.To4()
	}
	return ip
}

// c56BigMsg builds a message whose wire form exceeds the POST limit and has a
// record boundary exactly at the limit (cutAtBoundary) or not.
func c56BigMsg(g *vkit.Rand, cutAtBoundary bool) []byte {
	m := new(dns.Msg)
	m.Id = uint16(g.Intn(65536))
	m.RecursionDesired = true
	m.Question = []dns.Question{{Name: "big.example.", Qtype: dns.TypeTXT, Qclass: dns.ClassINET}}
	m.Compress = false
	base, _ := m.Pack()
	// each TXT RR: owner "p." (3) + 10 header + rdata(1+len)
	off := len(base)
	target := c56PostLimit
	var rrs []dns.RR
	add := func(n int) { // n = total RR wire size, >= 15
		txt := strings.Repeat("x", n-14)
		rrs = append(rrs, &dns.TXT{Hdr: dns.RR_Header{Name: "p.", Rrtype: dns.TypeTXT, Class: dns.ClassINET, Ttl: 1}, Txt: []string{txt}})
		off += n
	}
	for target-off > 400 {
		add(g.Range(100, 260))
	}
	rest := target - off // 140..400
	if !cutAtBoundary {
		rest += g.Range(1, 9)
	}
	if rest > 260 {
		add(rest / 2)
		rest = target - off
		if !cutAtBoundary {
			rest += 3
		}
	}
	add(rest)
	for i := g.Range(1, 4); i > 0; i-- {
		add(g.Range(20, 200))
	}
	if g.Bool() {
		m.Answer = rrs
	} else {
		m.Extra = rrs
	}
	b, err := m.Pack()
	if err != nil {
		panic(err)
	}
	return b
}

func c56Gen(r *vkit.Run, i int) *c56Case {
	g := r.Rng("case", i)
	c := &c56Case{}
	rip, rs, r4 := c56IP(g)
	_ = rip
	c.Remote, c.Remote4 = rs, r4
	if g.Chance(1, 3) {
		_, cs, c4 := c56IP(g)
		c.Client, c.Client4 = cs, c4
	}
	shape := g.Intn(20)
	post := g.Bool()
	mkGood := func(optKind int) []byte {
		m := c56Msg(g, optKind, g.Chance(1, 3))
		b, err := m.Pack()
		if err != nil {
			panic(fmt.Sprintf("generator pack: %v", err))
		}
		return b
	}
	var wire []byte
	switch {
	case shape < 7:
		c.Shape = "valid-no-opt"
		wire = mkGood(0)
	case shape < 10:
		c.Shape = "valid-client-opt"
		wire = mkGood(1)
	case shape < 11:
		c.Shape = "valid-client-opt-ecs"
		wire = mkGood(2)
	case shape < 13:
		c.Shape = "truncated-wire"
		wire = mkGood(g.Intn(2))
		wire = wire[:g.Intn(len(wire))]
	case shape < 14:
		c.Shape = "garbage"
		wire = g.Bytes(g.Range(0, 40))
	case shape < 15:
		c.Shape = "bad-method"
		wire = mkGood(0)
		c.Method = g.PickS([]string{"PUT", "HEAD", "DELETE", "OPTIONS", "PATCH"})
		c.wantErr, c.why = true, "method is neither GET nor POST"
	case shape < 17:
		post = true
		c.Shape = "post-oversized"
		switch g.Intn(3) {
		case 0:
			c.Shape += ":record-boundary-at-limit"
			wire = c56BigMsg(g, true)
		case 1:
			c.Shape += ":mid-record-at-limit"
			wire = c56BigMsg(g, false)
		default:
			c.Shape += ":valid-message-plus-trailing-bytes"
			wire = mkGood(0)
			wire = append(wire, g.Bytes(c56PostLimit+1-len(wire)+g.Intn(200))...)
		}
		c.wantErr, c.why = true, fmt.Sprintf("POST body of %d bytes exceeds the %d-byte limit", len(wire), c56PostLimit)
	case shape < 18:
		post = true
		c.Shape = "post-at-limit"
		// valid message padded (EDNS-free: TXT additional) to limit-k .. limit bytes
		m := c56Msg(g, 0, false)
		b0, _ := m.Pack()
		want := c56PostLimit - g.Intn(3)
		rem := want - len(b0)
		for rem > 0 {
			n := 269 // 14 bytes of RR overhead + one <=255-byte character-string
			if rem < n {
				n = rem
			} else if rem < n+15 {
				n = rem - 15 // leave room for one more minimal RR
			}
			if n < 15 {
				break
			}
			m.Extra = append(m.Extra, &dns.TXT{Hdr: dns.RR_Header{Name: "p.", Rrtype: dns.TypeTXT, Class: dns.ClassINET, Ttl: 1}, Txt: []string{strings.Repeat("y", n-14)}})
			rem -= n
		}
		m.Compress = false
		var perr error
		if wire, perr = m.Pack(); perr != nil {
			panic("generator pack (post-at-limit): " + perr.Error())
		}
	default:
		post = false
		c.Shape = "get-query-shape"
		wire = mkGood(g.Intn(2))
	}
	if c.Method == "" {
		if post {
			c.Method = "POST"
		} else {
			c.Method = "GET"
		}
	}
	// reference decision for the DNS payload itself
	refDecode := func(b []byte) {
		if c.wantErr {
			return
		}
		m := new(dns.Msg)
		if err := m.Unpack(b); err != nil {
			c.wantErr, c.why = true, "codec cannot unpack the message: "+err.Error()
			return
		}
		c.wantWire = b
	}
	if c.Method == "POST" {
		c.BodyHex = hex.EncodeToString(wire)
		c.Chunked = g.Chance(1, 5)
		c.Target = "/dns-query"
		if len(wire) > c56PostLimit && !c.wantErr {
			// whatever the generator intended: a body over the limit is oversized
			c.wantErr, c.why = true, fmt.Sprintf("POST body of %d bytes exceeds the %d-byte limit", len(wire), c56PostLimit)
		}
		refDecode(wire)
	} else {
		enc := base64.RawURLEncoding.EncodeToString(wire)
		target := "/dns-query?dns=" + enc
		if c.Shape == "get-query-shape" {
			switch g.Intn(8) {
			case 0:
				c.Shape += ":no-dns-param"
				target = "/dns-query?d=" + enc
				c.wantErr, c.why = true, "no dns parameter"
			case 1:
				c.Shape += ":two-dns-params"
				target = "/dns-query?dns=" + enc + "&dns=" + enc
				c.wantErr, c.why = true, "two dns parameters"
			case 2:
				c.Shape += ":std-alphabet"
				// force a byte triple that encodes to '/' or '+' in the std alphabet
				w2 := append([]byte{}, wire...)
				w2[0], w2[1] = 0xfb, 0xff
				target = "/dns-query?dns=" + url.QueryEscape(base64.RawStdEncoding.EncodeToString(w2))
				c.wantErr, c.why = true, "standard (not url-safe) base64 alphabet"
			case 3:
				c.Shape += ":illegal-char"
				p := g.Intn(len(enc))
				target = "/dns-query?dns=" + enc[:p] + g.PickS([]string{"!", "*", "%20", ".", "~", "%00"}) + enc[p+1:]
				c.wantErr, c.why = true, "illegal base64url character"
			case 4:
				c.Shape += ":bad-length"
				// 4k+1 characters can never be valid unpadded base64
				e2 := enc
				for len(e2)%4 != 1 {
					e2 += "A"
				}
				target = "/dns-query?dns=" + e2
				c.wantErr, c.why = true, "impossible base64 length"
			case 5:
				c.Shape += ":percent-encoded-value"
				var sb strings.Builder
				for k := 0; k < len(enc); k++ {
					if g.Chance(1, 4) {
						fmt.Fprintf(&sb, "%%%02X", enc[k])
					} else {
						sb.WriteByte(enc[k])
					}
				}
				target = "/dns-query?ct=application/dns-message&dns=" + sb.String()
			case 6:
				c.Shape += ":other-params"
				target = "/dns-query?a=b&dns=" + enc + "&z"
			default:
				c.Shape += ":empty-value"
				target = "/dns-query?dns="
				wire = nil
			}
		}
		c.Target = target
		refDecode(wire)
	}
	c.MsgHex = hex.EncodeToString(wire)
	return c
}

// ---- execution --------------------------------------------------------------

func c56Raw(c *c56Case) []byte {
	var b bytes.Buffer
	fmt.Fprintf(&b, "%s %s HTTP/1.1\r\nHost: doh.example\r\nAccept: application/dns-message\r\n", c.Method, c.Target)
	if c.BodyHex != "" || c.Method == "POST" {
		body, _ := hex.DecodeString(c.BodyHex)
		b.WriteString("Content-Type: application/dns-message\r\n")
		if c.Chunked {
			b.WriteString("Transfer-Encoding: chunked\r\n\r\n")
			for len(body) > 0 {
				n := 1000
				if n > len(body) {
					n = len(body)
				}
				fmt.Fprintf(&b, "%x\r\n", n)
				b.Write(body[:n])
				b.WriteString("\r\n")
				body = body[n:]
			}
			b.WriteString("0\r\n\r\n")
		} else {
			fmt.Fprintf(&b, "Content-Length: %d\r\n\r\n", len(body))
			b.Write(body)
		}
	} else {
		b.WriteString("\r\n")
	}
	return b.Bytes()
}

func c56Req(c *c56Case) (*bfe_basic.Request, error) {
	req, err := parseReq(c56Raw(c))
	if err != nil {
		return nil, err
	}
	req.Session.IsSecure = true
	req.RemoteAddr = &net.TCPAddr{IP: c56ParseIP(c.Remote, c.Remote4), Port: 4711}
	req.Session.RemoteAddr = req.RemoteAddr
	if c.Client != "" {
		req.ClientAddr = &net.TCPAddr{IP: c56ParseIP(c.Client, c.Client4), Port: 4712}
	}
	return req, nil
}

// c56EffectiveIP is the client address in the representation the request carries.
func c56EffectiveIP(req *bfe_basic.Request) net.IP {
	if req.ClientAddr != nil {
		return req.ClientAddr.IP
	}
	return req.RemoteAddr.IP
}

func c56ClientIP(c *c56Case) net.IP {
	if c.Client != "" {
		return net.ParseIP(c.Client)
	}
	return net.ParseIP(c.Remote)
}

func c56Witness(c *c56Case, extra map[string]interface{}) map[string]interface{} {
	w := map[string]interface{}{"case": c, "expect_error": c.wantErr, "why": c.why}
	for k, v := range extra {
		w[k] = v
	}
	return w
}

// c56Judge checks the packed message bfe would send against the reference.
// It returns true if the case passed.
func c56Judge(r *vkit.Run, c *c56Case, packed []byte) bool {
	ww, err := c56WalkWire(packed)
	if err != nil {
		r.Violation("forward:unparseable-wire", "forwarded message is not well-formed: "+err.Error(), c56Witness(c, map[string]interface{}{"forwarded_hex": hex.EncodeToString(packed)}))
		return false
	}
	ok := true
	// rest of the message unchanged
	var got, want dns.Msg
	if err := got.Unpack(packed); err != nil {
		r.Violation("forward:codec-rejects", "codec cannot unpack the forwarded message: "+err.Error(), c56Witness(c, map[string]interface{}{"forwarded_hex": hex.EncodeToString(packed)}))
		return false
	}
	want.Unpack(c.wantWire)
	if gs, ws := c56Sections(&got), c56Sections(&want); gs != ws {
		r.Violation("forward:sections-differ:"+c.Shape, "header/question/answer/authority/additional differ from the client's message", c56Witness(c, map[string]interface{}{"got": gs, "want": ws}))
		ok = false
	}
	cw, _ := c56WalkWire(c.wantWire)
	clientHadOpt := cw != nil && cw.optRRs > 0
	clientHadECS := cw != nil && len(cw.ecs) > 0
	if ww.optRRs > 1 {
		r.Violation("opt:second-opt-rr-appended", fmt.Sprintf("forwarded message has %d OPT RRs (client message had %d); RFC 6891 6.1.1 allows one", ww.optRRs, map[bool]int{false: 0, true: 1}[clientHadOpt]),
			c56Witness(c, map[string]interface{}{"forwarded_hex": hex.EncodeToString(packed)}))
		ok = false
	}
	if ww.optRRs == 0 {
		r.Violation("ecs:missing", "no OPT RR in the forwarded message", c56Witness(c, nil))
		return false
	}
	if cw != nil && strings.Join(cw.otherOp, ",") != strings.Join(ww.otherOp, ",") {
		r.Violation("opt:client-options-changed", "the client's EDNS options were not forwarded unchanged", c56Witness(c, map[string]interface{}{"got": ww.otherOp, "want": cw.otherOp}))
		ok = false
	}
	if len(ww.ecs) == 0 || (!clientHadECS && len(ww.ecs) != 1) {
		r.Violation(fmt.Sprintf("ecs:count-%d", len(ww.ecs)), "expected exactly one client-subnet option", c56Witness(c, map[string]interface{}{"forwarded_hex": hex.EncodeToString(packed)}))
		return false
	}
	if clientHadECS {
		r.Count("client_supplied_ecs_judged", 1)
	}
	// every client-subnet option of the forwarded message must be the genuine one
	// (the statement: "a client-subnet option whose family and prefix match the
	// client address"); whether bfe replaces the client's options or refuses the
	// query is not prescribed, an option describing anything else is a violation.
	cip := c56ClientIP(c)
	for idx, e := range ww.ecs {
		sig, what := c56ECSVerdict(e, cip)
		if sig == "" {
			continue
		}
		desc := map[string]interface{}{"ecs_index": idx, "ecs_count": len(ww.ecs), "ecs_family": e.family, "ecs_prefix": e.prefix, "ecs_scope": e.scope, "ecs_addr_hex": hex.EncodeToString(e.addr), "client_ip": cip.String(), "forwarded_hex": hex.EncodeToString(packed)}
		if clientHadECS {
			for _, ce := range cw.ecs {
				if ce.family == e.family && ce.prefix == e.prefix && ce.scope == e.scope && bytes.Equal(ce.addr, e.addr) {
					sig = "ecs:client-supplied-option-survives:" + c.Shape
					what = fmt.Sprintf("client-subnet option %d of %d in the forwarded message is the one the client sent, not the genuine one: %s", idx+1, len(ww.ecs), what)
					break
				}
			}
		}
		r.Violation(sig, what, c56Witness(c, desc))
		return false
	}
	return ok
}

// c56ECSVerdict judges one client-subnet option against the real client
// address; sig == "" means the option is the genuine one.
func c56ECSVerdict(e c56Opt, cip net.IP) (sig, what string) {
	v4 := cip.To4() != nil
	var wantFam uint16 = 2
	maxPrefix, addr := 128, []byte(cip.To16())
	if v4 {
		wantFam, maxPrefix, addr = 1, 32, []byte(cip.To4())
	}
	if e.family != wantFam {
		sig = "ecs:ipv6-client-gets-family-1"
		if v4 {
			sig = fmt.Sprintf("ecs:ipv4-client-gets-family-%d", e.family)
		} else if e.family != 1 {
			sig = fmt.Sprintf("ecs:ipv6-client-gets-family-%d", e.family)
		}
		return sig, fmt.Sprintf("client %s: ECS family %d prefix %d address %x, want family %d prefix<=%d", cip, e.family, e.prefix, e.addr, wantFam, maxPrefix)
	}
	if int(e.prefix) > maxPrefix {
		return "ecs:prefix-too-long", fmt.Sprintf("prefix %d > %d", e.prefix, maxPrefix)
	}
	if len(e.addr) != (int(e.prefix)+7)/8 {
		return "ecs:address-length", fmt.Sprintf("address has %d bytes for prefix %d", len(e.addr), e.prefix)
	}
	// address = client address masked to the prefix
	mask := net.CIDRMask(int(e.prefix), maxPrefix)
	wantAddr := net.IP(addr).Mask(mask)[:len(e.addr)]
	if !bytes.Equal(wantAddr, e.addr) {
		return "ecs:address-mismatch", fmt.Sprintf("ECS address %x is not the client address %s masked to /%d", e.addr, cip, e.prefix)
	}
	if e.scope != 0 {
		return "ecs:scope-nonzero", "SCOPE PREFIX-LENGTH must be 0 in queries (RFC 7871 6)"
	}
	return "", ""
}

func c56Direct(r *vkit.Run, c *c56Case) {
	req, err := c56Req(c)
	if err != nil {
		// bfe's own HTTP reader refused the request: nothing reaches the module
		r.Count("http_reader_refused", 1)
		r.CaseS("refused|"+c.Target, false)
		return
	}
	var msg *dns.Msg
	var cerr error
	if r.Try(func() interface{} { return c }, func() { msg, cerr = mod_doh.RequestToDnsMsg(req) }) {
		return
	}
	key := c.Method + "|" + c.Target + "|" + c.BodyHex + "|" + c.Remote + "|" + c.Client + fmt.Sprint(c.Remote4, c.Client4, c.Chunked)
	nontrivial := true
	defer func() { r.CaseS(key, nontrivial) }()
	if c.wantErr {
		r.Count("expect_reject", 1)
		if cerr != nil {
			r.Count("rejected", 1)
			return
		}
		sig := "accepted-invalid:" + c.Shape
		if strings.HasPrefix(c.Shape, "post-oversized") {
			sig = "post:oversized-truncated-not-rejected"
		}
		fwd, _ := msg.Pack()
		what := "request accepted although " + c.why
		if strings.HasPrefix(c.Shape, "post-oversized") {
			// was a message built from a truncated prefix?
			body, _ := hex.DecodeString(c.BodyHex)
			var full dns.Msg
			if err := full.Unpack(body); err == nil {
				fa, fb := len(full.Answer)+len(full.Extra), len(msg.Answer)+len(msg.Extra)-1
				if fa != fb {
					r.Count("oversized_truncated_and_sent", 1)
					what += fmt.Sprintf("; the client's message has %d answer+additional RRs, the message built from the first %d bytes has %d (truncated and sent)", fa, c56PostLimit, fb)
				} else {
					r.Count("oversized_tail_dropped", 1)
					sig = "post:oversized-tail-dropped-not-rejected"
					what += "; bytes beyond the limit were silently dropped"
				}
			}
		}
		r.Violation(sig, what, c56Witness(c, map[string]interface{}{"forwarded_hex": hex.EncodeToString(fwd), "body_len": len(c.BodyHex) / 2}))
		return
	}
	r.Count("expect_accept", 1)
	if cerr != nil {
		r.Violation("rejected-valid:"+c.Shape, "valid DoH request rejected: "+cerr.Error(), c56Witness(c, nil))
		return
	}
	var packed []byte
	var perr error
	if r.Try(func() interface{} { return c }, func() { packed, perr = msg.Pack() }) {
		return
	}
	cip := c56ClientIP(c)
	if cip.To4() != nil {
		r.Count("ipv4_clients", 1)
	} else {
		r.Count("ipv6_clients", 1)
	}
	if perr != nil {
		// the message cannot be sent at all; find out why from the structure
		sig := "forward:pack-error"
		for _, rr := range msg.Extra {
			if o, ok := rr.(*dns.OPT); ok {
				for _, op := range o.Option {
					if s, ok := op.(*dns.EDNS0_SUBNET); ok && cip.To4() != nil && s.Family == 2 {
						sig = "ecs:ipv4-client-gets-family-2"
					}
				}
			}
		}
		r.Violation(sig, fmt.Sprintf("message built for client %s cannot be packed for the wire (%v): the query is never forwarded", cip, perr), c56Witness(c, nil))
		return
	}
	if c56Judge(r, c, packed) {
		r.Count("forwarded_ok", 1)
	}
	if c.Family != "" {
		// the family runs first: keep a few of its cases, leave room for the base workload
		if strings.Count(c.Pattern, "E") >= 2 && atomic.AddInt32(&c56FamSamples, 1) <= 3 {
			r.Sample(c)
		}
	} else if r.WantSample() && i64(len(c.BodyHex)) < 400 {
		r.Sample(c)
	}
}

var c56FamSamples int32

func i64(n int) int64 { return int64(n) }

// ---- through the module handler, capturing the UDP datagram -----------------

type c56Upstream struct {
	pc   net.PacketConn
	mu   sync.Mutex
	pkts [][]byte
}

func c56StartUpstream() (*c56Upstream, error) {
	pc, err := net.ListenPacket("udp", "127.0.0.1:0")
	if err != nil {
		return nil, err
	}
	u := &c56Upstream{pc: pc}
	go func() {
		buf := make([]byte, 70000)
		for {
			n, addr, err := pc.ReadFrom(buf)
			if err != nil {
				return
			}
			p := append([]byte{}, buf[:n]...)
			u.mu.Lock()
			u.pkts = append(u.pkts, p)
			u.mu.Unlock()
			// minimal reply: same id, QR=1, no records
			if n >= 12 {
				rep := append([]byte{}, p[:12]...)
				rep[2] |= 0x80
				rep[4], rep[5], rep[6], rep[7], rep[8], rep[9], rep[10], rep[11] = 0, 0, 0, 0, 0, 0, 0, 0
				pc.WriteTo(rep, addr)
			}
		}
	}()
	return u, nil
}

func (u *c56Upstream) take() [][]byte {
	u.mu.Lock()
	defer u.mu.Unlock()
	p := u.pkts
	u.pkts = nil
	return p
}

func c56ViaModule(r *vkit.Run, env *modEnv, up *c56Upstream, c *c56Case) {
	req, err := c56Req(c)
	if err != nil {
		return
	}
	up.take()
	var code int
	var status int
	if r.Try(func() interface{} { return c }, func() {
		rc, res := env.request(bfe_module.HandleFoundProduct, req)
		code = rc
		if res != nil {
			status = res.StatusCode
		}
	}) {
		return
	}
	pk := up.take()
	key := "mod|" + c.Method + "|" + c.Target + "|" + c.BodyHex + "|" + c.Remote + "|" + c.Client + fmt.Sprint(c.Remote4, c.Client4)
	r.CaseS(key, true)
	r.Count("via_module", 1)
	if code != bfe_module.BfeHandlerResponse {
		r.Violation("module:no-response", fmt.Sprintf("dohHandler returned %d", code), c56Witness(c, nil))
		return
	}
	if c.wantErr {
		if len(pk) > 0 {
			sig := "accepted-invalid:" + c.Shape
			if strings.HasPrefix(c.Shape, "post-oversized") {
				sig = "post:oversized-truncated-not-rejected"
			}
			r.Violation(sig, fmt.Sprintf("a DNS datagram (%d bytes) was sent upstream although %s", len(pk[0]), c.why), c56Witness(c, map[string]interface{}{"forwarded_hex": hex.EncodeToString(pk[0]), "http_status": status}))
		} else {
			r.Count("via_module_rejected", 1)
		}
		return
	}
	if len(pk) == 0 {
		sig := "module:valid-not-forwarded"
		if eff := c56EffectiveIP(req); len(eff) == net.IPv4len {
			// cause (confirmed by the direct call): family 2 is chosen for an IPv4
			// client and a 4-byte net.IP cannot be packed as family 2
			sig = "ecs:ipv4-client-gets-family-2"
		}
		r.Violation(sig, fmt.Sprintf("valid DoH request from %s: nothing sent upstream, HTTP status %d", c56ClientIP(c), status), c56Witness(c, map[string]interface{}{"http_status": status}))
		return
	}
	if c56Judge(r, c, pk[0]) {
		r.Count("via_module_forwarded_ok", 1)
		if status != 200 {
			r.Violation("module:status", fmt.Sprintf("forwarded and answered, but HTTP status %d", status), c56Witness(c, nil))
		}
	}
}

func c56(r *vkit.Run) {
	r.SetRule("seeded DoH requests parsed by bfe_http.ReadRequest: GET (?dns=base64url) and POST (Content-Length or chunked) carrying miekg-packed queries (0-2 questions, optional answer/authority/additional RRs, compression on/off, with no OPT / OPT without ECS / OPT with one ECS), truncated and random wire, wrong methods, missing/duplicate/percent-encoded/std-alphabet/illegal/impossible-length dns parameter, POST bodies at limit-2..limit and over the 8192-byte limit (record boundary exactly at the limit, mid-record, valid message + trailing bytes); RemoteAddr/ClientAddr drawn from IPv4 (4- and 16-byte net.IP), v4-mapped and IPv6. Oracle: reject <=> reference says malformed/oversized; else packed output walked by an independent wire walker (one OPT, one ECS, family/prefix/address per RFC 7871) and other sections equal to the client's message (miekg as codec). A 1/20 subset also runs through mod_doh's handler with a capturing UDP upstream. Client-supplied ECS: EVERY client-subnet option of the forwarded message (at least one) must be the genuine one for the real client (family by To4, prefix <= 32/128, address = masked client address of ceil(prefix/8) bytes, scope 0); a non-genuine option byte-identical to one the client sent is reported as ecs:client-supplied-option-survives:<shape>; how bfe gets there (replace / strip+append) is not prescribed. CLIENT-OPT-SPACE family (c56opt.go, own generator stream, runs first; 840 x 2 quick / x 40 thorough cases): enumerated (arrangement x GET/POST x client kind), arrangement = no OPT RR, OPT without options, or every ordering of 0-3 client-subnet options among 0-3 other options (cookie 8/16-40 bytes, padding, NSID, DAU, unknown codes 4/13/17/26946/65001/65534/65535) = 70 arrangements; client kind = RemoteAddr IPv4 (16-byte), IPv4 (4-byte), IPv6, IPv6 + trusted ClientAddr IPv4, IPv4 + ClientAddr IPv6, IPv4 + ClientAddr IPv4; client-supplied subnet options written as raw bytes: IPv4 /24 /32 /0, IPv6 /56 /128 /0, family 0, equal to the genuine value, the real address with a shorter prefix, the genuine value with a non-zero scope, the other family, the untrusted TCP peer address, and (<= one per message) family 3 / shorter than 4 bytes / prefix > 32, for which the codec decides acceptance (rejected => bfe must reject); OPT RR alone / first / middle / last in the additional section, UDP size 0-65535, DO, version != 0, Z bits, extended rcode; every 12th case also through the module handler. One case in eight carries a second OPT RR (with or without a subnet option of its own, before or behind the first): RFC 6891 6.1.1 makes such a query a format error, so it must be rejected (accepted-invalid:client-opt-space:two-opt-rrs). Every arrangement, class, client kind, option kind, OPT position and header variant must occur, else inconclusive. Non-trivial = request reached RequestToDnsMsg; distinct = (method,target,body,addresses)")
	r.Assume("miekg/dns v1.1.29 Unpack/Pack is a correct codec for the generated messages (it is also the library bfe uses; the ECS option is decoded independently)")
	r.Assume("POST limit 8192 bytes (mod_doh maxPostMsgLength) is the module's definition of oversized; GET size is not limited by the docs and not judged")

	if r.Replay != "" {
		var w struct {
			Case c56Case `json:"case"`
			Exp  bool    `json:"expect_error"`
			Why  string  `json:"why"`
		}
		if err := r.LoadReplay(&w); err != nil {
			r.Inconclusive(err.Error())
			return
		}
		c := &w.Case
		c.wantErr, c.why = w.Exp, w.Why
		if !c.wantErr {
			if c.Method == "POST" {
				c.wantWire, _ = hex.DecodeString(c.BodyHex)
			} else if u, err := url.ParseRequestURI(c.Target); err == nil {
				c.wantWire, _ = base64.RawURLEncoding.DecodeString(u.Query().Get("dns"))
			}
		}
		c56Direct(r, c)
		r.SetMinDistinct(0)
		return
	}

	// module instance for the handler-level subset
	up, err := c56StartUpstream()
	if err != nil {
		r.Inconclusive("cannot open UDP socket: " + err.Error())
		return
	}
	defer up.pc.Close()
	root := filepath.Join(scratch(), "c56conf")
	writeFile(filepath.Join(root, "mod_doh", "mod_doh.conf"), []byte(fmt.Sprintf("[Basic]\nCond = \"default_t()\"\n\n[Dns]\nAddress = \"%s\"\nTimeout = 30000\nRetryMax = 0\n\n[Log]\nOpenDebug = false\n", up.pc.LocalAddr().String())))
	env := newModEnv()
	m := mod_doh.NewModuleDoh()
	if err := m.Init(env.cbs, env.whs, root); err != nil {
		r.Inconclusive("mod_doh Init failed: " + err.Error())
		return
	}

	// CLIENT-OPT-SPACE family (c56opt.go), before the base workload
	c56OptSpace(r, env, up)

	n := r.N(20000, 400000)
	cases := make([]*c56Case, n)
	vkit.Parallel(n, 0, func(i int) {
		c := c56Gen(r, i)
		cases[i] = c
		c56Direct(r, c)
	})
	// handler-level subset, sequential (one datagram per request)
	for i := 0; i < n; i += 20 {
		c := *cases[i]
		c.ViaMod = true
		c56ViaModule(r, env, up, &c)
	}
	for _, k := range []string{"expect_accept", "expect_reject", "ipv4_clients", "ipv6_clients", "via_module"} {
		if r.Counter(k) == 0 {
			r.Inconclusive("outcome never reached: " + k)
		}
	}
}
