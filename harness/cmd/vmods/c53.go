package main

import (
	"encoding/json"
	"fmt"
	"net"
	"path/filepath"
	"sort"
	"sync"
	"sync/atomic"
	"time"

	"github.com/bfenetworks/bfe/bfe_basic"
	"github.com/bfenetworks/bfe/bfe_module"
	"github.com/bfenetworks/bfe/bfe_modules/mod_prison"

	"verifharness/vkit"
)

// C53: for a prison rule and a given request key, once more than Threshold
// requests arrive within one CheckPeriod the key is denied until StayPeriod
// (plus the rest of that period) has passed, while other keys are unaffected;
// requests below the threshold are never denied.
//
// Monitor: timed request histories against REAL prisonRule objects (hook
// VerifNewPrisonRule: real PrisonRuleCheck + newPrisonRule + initDict, periods
// overwritten with millisecond values; every request through the real
// recordAndCheck), judged by the state-set interval reference in c53ref.go.
// Three kinds of cases:
//   keys   one rule, 3-6 keys, one goroutine per key, each following its own
//          deterministic script of target offsets ("sleep until offset, call,
//          record monotonic stamps before/after"); every key history is judged
//          on its own, so any influence of another key shows up as a verdict
//          that the key's own history cannot explain.
//   storm  one rule, ONE key, 2-4 goroutines firing their requests together.
//          Judged only if all calls lie within less than one CheckPeriod:
//          then every linearisation puts all N requests into one period, so
//          exactly min(N,T) are admitted, and nothing called after a denial
//          returned is admitted; afterwards sequential probes are judged with
//          the state-set reference (release bounds from the burst's extent).
//   anchor one seconds-scale history through the production path (module
//          Init, product rule file, checkPeriod 1 s / stayPeriod 1 s, handler
//          chain HandleFoundProduct).
//   space  (c53space.go) timing-free key-space cases: many distinct but similar
//          keys of one ingredient on one rule with 1 h periods; request n of a
//          key is admitted iff n <= T, whatever the other keys do.

const (
	c53EpsNs   = 500_000 // widening of every call interval (wall vs monotonic slew, see Assume)
	c53GuardUs = 10_000  // nominal distance of scripted requests from period / release edges
)

type c53KeyScript struct {
	Key  int   `json:"key"`            // index of the key value
	Offs []int `json:"offs_us"`        // target offsets from the start of the case, microseconds
	Open []int `json:"open,omitempty"` // indices of the requests that nominally open a period (timing anchors)
}

type c53Case struct {
	Kind      string         `json:"kind"` // keys | storm | anchor
	Idx       int            `json:"idx"`
	T         int            `json:"threshold"`
	PMs       int            `json:"check_period_ms"`
	SMs       int            `json:"stay_period_ms"`
	Sign      string         `json:"sign"`
	Keys      []c53KeyScript `json:"keys"`
	Workers   int            `json:"workers,omitempty"`    // storm: goroutines on the same key
	PerWorker int            `json:"per_worker,omitempty"` // storm: requests per goroutine
	Action    string         `json:"action,omitempty"`     // anchor: CLOSE | FINISH
}

func (c *c53Case) params() c53Params {
	return c53Params{T: c.T, P: int64(c.PMs) * 1e6, S: int64(c.SMs) * 1e6, Eps: c53EpsNs}
}

// ---- key / signature modes ---------------------------------------------------

type c53Mode struct {
	name     string
	conf     string   // accessSignConf JSON (field names of the doc)
	parts    []string // request components that take part in the key
	noiseHdr bool     // an extra header varying per request must not matter
	noiseQry bool     // an extra query parameter varying per request must not matter
}

var c53Modes = []c53Mode{
	{"header", `{"Header":["X-Key"]}`, []string{"hdr"}, true, true},
	{"cookie", `{"Cookie":["UID"]}`, []string{"cookie"}, true, true},
	{"query", `{"Query":["uid"]}`, []string{"query"}, true, true},
	{"clientip", `{"UseClientIP":true}`, []string{"ip"}, true, true},
	{"host", `{"UseHost":true}`, []string{"host"}, true, true},
	{"path", `{"UsePath":true}`, []string{"path"}, true, true},
	{"url", `{"UseUrl":true}`, []string{"path", "query"}, true, false},
	{"urlregexp", `{"UrlRegexp":"^/item/(\\d+)/"}`, []string{"path"}, true, true},
	{"clientip+header", `{"UseClientIP":true,"Header":["X-Key"]}`, []string{"ip", "hdr"}, true, true},
	{"host+path+cookie", `{"UseHost":true,"UsePath":true,"Cookie":["UID"]}`, []string{"host", "path", "cookie"}, true, true},
	{"headers", `{"UseHeaders":true}`, []string{"hdr", "host", "cookie"}, false, true},
	{"query+cookie+header", `{"Query":["uid"],"Cookie":["UID"],"Header":["X-Key"]}`, []string{"query", "cookie", "hdr"}, true, true},
}

func c53ModeByName(n string) *c53Mode {
	for i := range c53Modes {
		if c53Modes[i].name == n {
			return &c53Modes[i]
		}
	}
	return nil
}

// c53Req builds request number seq of key k: key 0 is the base request, key
// k > 0 differs from it in exactly ONE component that takes part in the key.
func c53Req(m *c53Mode, k, seq int) (*bfe_basic.Request, error) {
	v := map[string]int{}
	if k > 0 {
		v[m.parts[k%len(m.parts)]] = k
	}
	uri := fmt.Sprintf("/item/%d/x?uid=u%d", 100+v["path"], v["query"])
	if m.noiseQry {
		uri += fmt.Sprintf("&n=%d", seq)
	}
	raw := fmt.Sprintf("GET %s HTTP/1.1\r\nHost: h%d.example\r\nX-Key: k%d\r\nCookie: UID=c%d\r\n", uri, v["host"], v["hdr"], v["cookie"])
	if m.noiseHdr {
		raw += fmt.Sprintf("X-Noise: %d\r\n", seq)
	}
	raw += "\r\n"
	req, err := parseReq([]byte(raw))
	if err != nil {
		return nil, err
	}
	ip := v["ip"]
	req.ClientAddr = &net.TCPAddr{IP: net.IPv4(10, 1, byte(ip>>8), byte(1+ip&0xff)), Port: 30000 + seq%1000}
	return req, nil
}

func c53RuleJSON(name string, m *c53Mode, action string, checkS, stayS, threshold int) string {
	return fmt.Sprintf(`{"Name":%q,"Cond":"default_t()","AccessSignConf":%s,"Action":{"cmd":%q,"params":[]},"CheckPeriod":%d,"StayPeriod":%d,"Threshold":%d,"AccessDictSize":1000,"PrisonDictSize":1000}`,
		name, m.conf, action, checkS, stayS, threshold)
}

// ---- script generation ---------------------------------------------------------

// c53GenScript draws the target offsets (us) of one key history. The
// generator follows the NOMINAL automaton (offsets taken as exact) only to
// steer towards periods that are exceeded, jails that are probed and served,
// periods that run out, and a few probes 2 ms around the edges; the oracle
// never uses these nominal expectations.
func c53GenScript(g *vkit.Rand, T, pMs, sMs, maxReq, maxDurUs int) (offs, open []int) {
	p, s := pMs*1000, sMs*1000
	const G = c53GuardUs
	const (
		idle = iota
		counting
		jailed
	)
	mode, ws, c, rel := idle, 0, 0, 0
	cur := g.Range(0, 30_000)
	full := func() bool { return len(offs) >= maxReq || cur > maxDurUs }
	send := func(t int) {
		if t < cur {
			t = cur
		}
		cur = t
		if full() {
			return
		}
		offs = append(offs, t)
		if mode == jailed {
			if t < rel {
				return
			}
			mode = idle
		}
		if mode == counting && t > ws+p {
			mode = idle
		}
		if mode == idle {
			mode, ws, c = counting, t, 0
			open = append(open, len(offs)-1)
		}
		c++
		if c > T {
			mode, rel = jailed, ws+p+s
		}
	}
	exceedFirst := g.Chance(3, 4)
	for !full() {
		switch mode {
		case idle:
			send(cur)
		case counting:
			x := g.Intn(10)
			if exceedFirst {
				x, exceedFirst = 0, false
			}
			room := ws + p - G - cur // nominal room left in the period
			switch {
			case x < 4 && room > 0: // exceed the threshold inside the period
				need := T + 1 - c
				gap := 0
				if g.Bool() {
					gap = g.Range(0, room/need)
				} else {
					gap = g.Range(0, 400)
					if gap*need > room {
						gap = room / need
					}
				}
				for k := 0; k < need; k++ {
					send(cur + gap)
				}
				for k := g.Intn(3); k > 0; k-- { // immediately after the jailing request
					send(cur + g.Range(0, 300))
				}
			case x < 6 && c < T && room > 0: // one more request inside the period
				send(cur + g.Range(0, room))
			case x < 9: // let the period run out
				send(ws + p + G + g.Range(0, 20_000))
			default: // edge probe
				send(ws + p + g.Range(-2000, 2000))
			}
		case jailed:
			x := g.Intn(10)
			lo, hi := cur+500, rel-G
			switch {
			case x < 5 && lo < hi: // probe inside the jail, half of them late
				if g.Bool() && hi-15_000 > lo {
					lo = hi - 15_000
				}
				send(g.Range(lo, hi))
			case x < 9: // serve the jail
				send(rel + G + g.Range(0, 20_000))
			default:
				send(rel + g.Range(-2000, 2000))
			}
		}
	}
	return offs, open
}

func c53GenKeys(r *vkit.Run, i int) *c53Case {
	g := r.Rng("keys", i)
	c := &c53Case{Kind: "keys", Idx: i}
	c.T = g.Range(1, 8)
	if g.Chance(1, 2) {
		c.T = g.Range(1, 3)
	}
	if g.Chance(1, 24) {
		c.T = 0
	}
	c.PMs = g.Range(40, 200)
	c.SMs = g.Range(40, 400)
	if g.Chance(1, 2) {
		c.SMs = g.Range(40, 160)
	}
	c.Sign = c53Modes[g.Intn(len(c53Modes))].name
	nk := g.Range(3, 6)
	for k := 0; k < nk; k++ {
		offs, open := c53GenScript(g.Fork(), c.T, c.PMs, c.SMs, 40, 1_400_000)
		c.Keys = append(c.Keys, c53KeyScript{Key: k, Offs: offs, Open: open})
	}
	return c
}

func c53GenStorm(r *vkit.Run, i int) *c53Case {
	g := r.Rng("storm", i)
	c := &c53Case{Kind: "storm", Idx: i}
	c.T = g.Range(1, 8)
	c.PMs = g.Range(80, 200) // the whole burst must fit into one period
	c.SMs = g.Range(40, 200)
	c.Sign = c53Modes[g.Intn(len(c53Modes))].name
	c.Workers = g.Range(2, 4)
	c.PerWorker = g.Range(1, 6)
	if g.Chance(2, 3) { // make sure the threshold is exceeded
		for c.Workers*c.PerWorker <= c.T {
			c.PerWorker++
		}
	}
	// sequential probes after the burst (offsets from the start of the burst)
	rel := (c.PMs + c.SMs) * 1000
	var offs []int
	for k := g.Intn(3); k > 0; k-- {
		offs = append(offs, g.Range(30_000, rel-c53GuardUs))
	}
	if g.Chance(1, 2) {
		offs = append(offs, rel-c53GuardUs-g.Range(0, 10_000))
	}
	sort.Ints(offs)
	offs = append(offs, rel+c53GuardUs+g.Range(0, 20_000)) // after release unless the burst took unusually long
	c.Keys = []c53KeyScript{{Key: g.Intn(5), Offs: offs}}
	return c
}

// c53GenMicro is a storm without probes and with 10 s periods: nothing sleeps,
// the burst certainly lies within one period, and thousands of them are cheap.
// They exist to make the interleaving-dependent same-key defects show reliably.
func c53GenMicro(r *vkit.Run, i int) *c53Case {
	g := r.Rng("micro", i)
	c := &c53Case{Kind: "storm", Idx: 1_000_000 + i, PMs: 10_000, SMs: 10_000}
	c.T = g.Range(1, 3)
	c.Sign = c53Modes[g.Intn(len(c53Modes))].name
	c.Workers = g.Range(2, 4)
	c.PerWorker = g.Range(1, 2)
	for c.Workers*c.PerWorker <= c.T {
		c.PerWorker++
	}
	c.Keys = []c53KeyScript{{Key: g.Intn(5)}}
	return c
}

func c53GenAnchor(r *vkit.Run) *c53Case {
	g := r.Rng("anchor")
	c := &c53Case{Kind: "anchor", PMs: 1000, SMs: 1000, Sign: g.PickS([]string{"header", "cookie", "clientip+header"})}
	c.T = g.Range(1, 3)
	c.Action = g.PickS([]string{"CLOSE", "FINISH"})
	// key 0 exceeds the threshold, is probed in the rest of the period, in the
	// stay period, and after release; key 1 stays at the threshold, lets its
	// period run out and comes back.
	var a, b []int
	for k := 0; k <= c.T; k++ {
		a = append(a, 20_000+k*60_000)
	}
	a = append(a, 500_000+g.Range(0, 100_000), 1_400_000+g.Range(0, 200_000), 1_900_000, 2_150_000+g.Range(0, 50_000))
	for k := 0; k < c.T; k++ {
		b = append(b, 50_000+k*70_000)
	}
	b = append(b, 1_250_000+g.Range(0, 100_000), 1_700_000)
	c.Keys = []c53KeyScript{{Key: 0, Offs: a, Open: []int{0}}, {Key: 1, Offs: b, Open: []int{0, c.T}}}
	return c
}

// ---- execution -------------------------------------------------------------------

type c53KeyObs struct {
	Key   int     `json:"key"`
	Evs   []c53Ev `json:"events"`
	Shift []int   `json:"shift_us,omitempty"` // by how much the script had been slid when the call was made
}

type c53Obs struct {
	keys    []c53KeyObs
	storm   []c53Ev // storm: the concurrent burst (all workers)
	driftNs int64   // max |wall - monotonic| deviation seen over the case
	failed  bool    // a bfe call panicked / the case could not be set up
}

// c53Stamp runs one call and records monotonic offsets around it.
type c53Clock struct {
	start  time.Time
	wall0  int64
	mu     sync.Mutex
	maxDev int64
}

func c53NewClock() *c53Clock {
	t := time.Now()
	return &c53Clock{start: t, wall0: t.UnixNano()}
}

func (k *c53Clock) sleepUntil(offUs int) {
	for {
		d := time.Duration(offUs)*time.Microsecond - time.Since(k.start)
		if d <= 0 {
			return
		}
		time.Sleep(d)
	}
}

// call measures fn; the wall-vs-monotonic deviation is only recorded to be able
// to DISCARD a case during which the wall clock (which bfe reads) was stepped.
func (k *c53Clock) call(fn func() bool) c53Ev {
	t0 := time.Now()
	deny := fn()
	t1 := time.Now()
	ev := c53Ev{A: int64(t0.Sub(k.start)), B: int64(t1.Sub(k.start)), Deny: deny}
	dev := (t1.UnixNano() - k.wall0) - ev.B
	if dev < 0 {
		dev = -dev
	}
	k.mu.Lock()
	if dev > k.maxDev {
		k.maxDev = dev
	}
	k.mu.Unlock()
	return ev
}

type c53Target interface {
	check(req *bfe_basic.Request) bool // true = denied
}

type c53HookTarget struct{ rule *mod_prison.VerifPrisonRule }

func (t c53HookTarget) check(req *bfe_basic.Request) bool {
	if !t.rule.Match(req) {
		return false
	}
	return t.rule.RecordAndCheck(req)
}

type c53ModTarget struct{ env *modEnv }

func (t c53ModTarget) check(req *bfe_basic.Request) bool {
	rc, _ := t.env.request(bfe_module.HandleFoundProduct, req)
	return rc != bfe_module.BfeHandlerGoOn
}

func c53NewHookTarget(c *c53Case) (c53Target, error) {
	m := c53ModeByName(c.Sign)
	if m == nil {
		return nil, fmt.Errorf("unknown sign mode %q", c.Sign)
	}
	var conf mod_prison.PrisonRuleConf
	if err := json.Unmarshal([]byte(c53RuleJSON(fmt.Sprintf("r%d", c.Idx), m, "CLOSE", 1, 1, c.T)), &conf); err != nil {
		return nil, err
	}
	rule, err := mod_prison.VerifNewPrisonRule(conf, time.Duration(c.PMs)*time.Millisecond, time.Duration(c.SMs)*time.Millisecond)
	if err != nil {
		return nil, err
	}
	return c53HookTarget{rule}, nil
}

// c53Run executes one case against tgt and returns the observations.
func c53Run(r *vkit.Run, c *c53Case, tgt c53Target) *c53Obs {
	m := c53ModeByName(c.Sign)
	obs := &c53Obs{keys: make([]c53KeyObs, len(c.Keys))}
	// requests are built before the clock starts so that stamps are tight
	reqs := make([][]*bfe_basic.Request, len(c.Keys))
	seq := 0
	for ki, ks := range c.Keys {
		for range ks.Offs {
			q, err := c53Req(m, ks.Key, seq)
			if err != nil {
				r.Inconclusive("harness: request not parsable: " + err.Error())
				obs.failed = true
				return obs
			}
			seq++
			reqs[ki] = append(reqs[ki], q)
		}
	}
	var burst [][]*bfe_basic.Request
	if c.Kind == "storm" {
		for w := 0; w < c.Workers; w++ {
			var l []*bfe_basic.Request
			for k := 0; k < c.PerWorker; k++ {
				q, err := c53Req(m, c.Keys[0].Key, seq)
				if err != nil {
					obs.failed = true
					return obs
				}
				seq++
				l = append(l, q)
			}
			burst = append(burst, l)
		}
	}
	var failMu sync.Mutex
	desc := func() interface{} { return c }
	clk := c53NewClock()
	if c.Kind == "storm" {
		per := make([][]c53Ev, c.Workers)
		gate := make(chan struct{})
		var wg sync.WaitGroup
		for w := 0; w < c.Workers; w++ {
			wg.Add(1)
			go func(w int) {
				defer wg.Done()
				<-gate
				for _, q := range burst[w] {
					var ev c53Ev
					if r.Try(desc, func() { ev = clk.call(func() bool { return tgt.check(q) }) }) {
						failMu.Lock()
						obs.failed = true
						failMu.Unlock()
						return
					}
					per[w] = append(per[w], ev)
				}
			}(w)
		}
		clk = c53NewClock()
		close(gate)
		wg.Wait()
		for _, l := range per {
			obs.storm = append(obs.storm, l...)
		}
		sort.Slice(obs.storm, func(i, j int) bool { return obs.storm[i].A < obs.storm[j].A })
	}
	var wg sync.WaitGroup
	for ki := range c.Keys {
		wg.Add(1)
		go func(ki int) {
			defer wg.Done()
			ko := c53KeyObs{Key: c.Keys[ki].Key}
			// The request that nominally opens a period is the anchor of everything the
			// script places relative to that period (its end, the release of a jail):
			// by however much such a request is late (loaded machine), the REST of the
			// key's script is slid. The script itself is unchanged.
			shift, nextOpen := 0, 0
			for n, off := range c.Keys[ki].Offs {
				clk.sleepUntil(off + shift)
				if nextOpen < len(c.Keys[ki].Open) && c.Keys[ki].Open[nextOpen] == n {
					nextOpen++
					if late := int(time.Since(clk.start)/time.Microsecond) - (off + shift); late > 0 {
						shift += late
					}
				}
				ko.Shift = append(ko.Shift, shift)
				q := reqs[ki][n]
				var ev c53Ev
				if r.Try(desc, func() { ev = clk.call(func() bool { return tgt.check(q) }) }) {
					failMu.Lock()
					obs.failed = true
					failMu.Unlock()
					break
				}
				ko.Evs = append(ko.Evs, ev)
			}
			obs.keys[ki] = ko
		}(ki)
	}
	wg.Wait()
	obs.driftNs = clk.maxDev
	return obs
}

// ---- judging -----------------------------------------------------------------------

type c53Span struct{ a, b int64 } // observed-denied span of a key: [call of first deny, ret of last deny] of a run of denials

func c53DenySpans(evs []c53Ev) []c53Span {
	var out []c53Span
	open := false
	for _, e := range evs {
		if e.Deny {
			if !open {
				out = append(out, c53Span{e.A, e.B})
				open = true
			} else {
				out[len(out)-1].b = e.B
			}
		} else {
			open = false
		}
	}
	return out
}

func c53ScriptKey(c *c53Case, ki int) string {
	return fmt.Sprintf("%s|T%d|P%d|S%d|%s|k%d|%v|%v|w%dx%d", c.Kind, c.T, c.PMs, c.SMs, c.Sign, c.Keys[ki].Key, c.Keys[ki].Offs, c.Keys[ki].Open, c.Workers, c.PerWorker)
}

func c53Witness(c *c53Case, obs *c53Obs, ki int, extra map[string]interface{}) map[string]interface{} {
	w := map[string]interface{}{"case": c, "key_index": ki, "observed": obs.keys, "stamps": "ns since case start, monotonic"}
	if c.Kind == "storm" {
		w["burst"] = obs.storm
	}
	for k, v := range extra {
		w[k] = v
	}
	return w
}

// lateness of every scripted call (actual call stamp - target offset), evidence only
var (
	c53LateMu sync.Mutex
	c53Late   []int64
)

func c53LateReport(r *vkit.Run) {
	c53LateMu.Lock()
	defer c53LateMu.Unlock()
	if len(c53Late) == 0 {
		return
	}
	sort.Slice(c53Late, func(i, j int) bool { return c53Late[i] < c53Late[j] })
	q := func(f float64) string { return c53ms(c53Late[int(f*float64(len(c53Late)-1))]) }
	r.Extra("call_lateness_vs_script", map[string]string{"p50": q(0.5), "p90": q(0.9), "p99": q(0.99), "max": q(1)})
	fmt.Printf("  call lateness vs script: p50=%s p90=%s p99=%s max=%s\n", q(0.5), q(0.9), q(0.99), q(1))
}

// c53Judge evaluates all key histories of one executed case.
func c53Judge(r *vkit.Run, c *c53Case, obs *c53Obs) {
	if obs.failed {
		return
	}
	if obs.driftNs > c53EpsNs/2 {
		// the wall clock bfe reads did not advance with the monotonic clock: not judged
		r.Count("discarded_clock_step_cases", 1)
		r.Evals(int64(len(c.Keys)))
		return
	}
	p := c.params()
	init := []c53St{{Mode: c53Idle}}
	if c.Kind == "storm" {
		var ok bool
		init, ok = c53JudgeStorm(r, c, obs, p)
		if !ok {
			return
		}
	}
	spans := make([][]c53Span, len(obs.keys))
	for ki := range obs.keys {
		spans[ki] = c53DenySpans(obs.keys[ki].Evs)
	}
	for ki := range obs.keys {
		evs := obs.keys[ki].Evs
		res := c53Eval(p, init, evs)
		var nAllow, nDeny, nAmb, nExcl, nRel, nReset, nOther int64
		for i, cl := range res.Class {
			switch cl {
			case "checked_allow":
				nAllow++
				if res.Released[i] {
					nRel++
				}
				if res.Reset[i] {
					nReset++
				}
				// admitted while ANOTHER key of the same rule was observed denied around this call
			other:
				for kj := range obs.keys {
					if kj == ki {
						continue
					}
					for _, sp := range spans[kj] {
						if sp.a <= evs[i].A && evs[i].B <= sp.b {
							nOther++
							break other
						}
					}
				}
			case "checked_deny":
				nDeny++
			case "ambiguous":
				nAmb++
			case "excluded_sliding":
				nExcl++
			}
		}
		r.Count("requests", int64(len(evs)))
		for i, e := range evs { // how far the run was from the scripted timing (evidence only)
			if e.B-e.A > 5e6 {
				r.Count("calls_longer_than_5ms", 1)
			}
			if i < len(c.Keys[ki].Offs) {
				late := e.A - int64(c.Keys[ki].Offs[i])*1000
				if i < len(obs.keys[ki].Shift) {
					late -= int64(obs.keys[ki].Shift[i]) * 1000 // relative to the slid script
				}
				if late > 5e6 {
					r.Count("calls_later_than_5ms", 1)
				}
				c53LateMu.Lock()
				c53Late = append(c53Late, late)
				c53LateMu.Unlock()
			}
		}
		r.Count("checked_allow", nAllow)
		r.Count("checked_deny", nDeny)
		r.Count("ambiguous", nAmb)
		r.Count("excluded_sliding_corner", nExcl)
		r.Count("released_then_admitted", nRel)
		r.Count("window_expired_then_admitted", nReset)
		r.Count("other_key_unaffected", nOther)
		if res.Overflow {
			r.Count("state_set_overflow_histories", 1)
		}
		if res.SlidDeny {
			r.Count("denied_in_excluded_sliding_corner", 1)
		}
		r.Count("histories_"+c.Kind, 1)
		r.CaseS(c53ScriptKey(c, ki), nDeny > 0 && nRel > 0)
		if v := res.Viol; v != nil {
			sig := v.Sig
			// a denial that the key's own history cannot explain while another key of
			// the rule is (or has just been) denied: name it after the statement's clause
			if sig == "deny-below-threshold" || sig == "still-jailed-after-stay+period" {
				for kj := range obs.keys {
					if kj == ki {
						continue
					}
					for _, sp := range spans[kj] {
						if sp.a <= evs[v.Idx].B && evs[v.Idx].A <= sp.b+p.P+p.S {
							sig = "other-key-affected:" + v.Sig
						}
					}
				}
			}
			switch {
			case c.Kind == "storm" && sig == "admit-over-threshold":
				// counts lost during the concurrent burst only show when a later
				// request of the same period is admitted: same shape as in the burst
				sig = "same-key-concurrent:admitted-over-threshold"
			case c.Kind != "keys":
				sig = c.Kind + ":" + sig
			}
			r.Violation(sig, fmt.Sprintf("%s case %d (sign %s) key %d: %s", c.Kind, c.Idx, c.Sign, c.Keys[ki].Key, v.What),
				c53Witness(c, obs, ki, map[string]interface{}{"event_index": v.Idx, "classes": res.Class}))
		}
		if r.WantSample() && nDeny > 0 && nRel > 0 && len(evs) < 16 {
			r.Sample(map[string]interface{}{"kind": c.Kind, "threshold": c.T, "check_period_ms": c.PMs, "stay_period_ms": c.SMs, "sign": c.Sign,
				"offs_us": c.Keys[ki].Offs, "events": evs, "classes": res.Class})
		}
	}
}

var c53StormBad int64 // bursts whose counts deviated (incl. deviations listed as known findings)

// c53JudgeStorm judges the concurrent same-key burst and returns the abstract
// states the sequential probes start from.
func c53JudgeStorm(r *vkit.Run, c *c53Case, obs *c53Obs, p c53Params) ([]c53St, bool) {
	evs := obs.storm
	n := len(evs)
	r.Count("storm_requests", int64(n))
	amin, bmax := evs[0].A, evs[0].B
	admitted := 0
	for _, e := range evs {
		amin, bmax = c53min(amin, e.A), c53max(bmax, e.B)
		if !e.Deny {
			admitted++
		}
	}
	amin -= p.Eps
	bmax += p.Eps
	if bmax-amin >= p.P {
		// the burst did not certainly fit into one period: nothing can be said
		r.Count("storm_not_within_one_period", 1)
		r.Evals(1)
		return nil, false
	}
	r.Count("storm_judged", 1)
	want := n
	if want > p.T {
		want = p.T
	}
	wit := func() map[string]interface{} {
		return c53Witness(c, obs, 0, map[string]interface{}{"requests": n, "admitted": admitted, "want_admitted": want})
	}
	bad := false
	switch {
	case admitted > want:
		bad = true
		// (no magnitude suffix: a counter that is replaced in the dict takes all of its
		// counts with it, so the excess is not bounded by the number of workers)
		r.Violation("same-key-concurrent:admitted-over-threshold",
			fmt.Sprintf("storm case %d (sign %s): %d goroutines x %d requests on ONE key, all within %s (< checkPeriod %s): %d admitted, threshold %d",
				c.Idx, c.Sign, c.Workers, c.PerWorker, c53ms(bmax-amin), c53ms(p.P), admitted, p.T), wit())
	case admitted < want:
		bad = true
		// each worker has at most one request in flight between counting and the final
		// prison lookup, so a larger deficit is a different failure
		sfx := ":deficit-below-workers"
		if want-admitted >= c.Workers {
			sfx = ":deficit-ge-workers"
		}
		r.Violation("same-key-concurrent:denied-below-threshold"+sfx,
			fmt.Sprintf("storm case %d (sign %s): %d requests on one key within one period, only %d admitted, threshold %d", c.Idx, c.Sign, n, admitted, p.T), wit())
	default:
		r.Count("storm_admitted_equals_threshold", 1)
	}
	// nothing that was called after a denial had returned may be admitted
	firstDenyRet := int64(-1)
	for _, e := range evs {
		if e.Deny && (firstDenyRet < 0 || e.B < firstDenyRet) {
			firstDenyRet = e.B
		}
	}
	if firstDenyRet >= 0 {
		for _, e := range evs {
			if !e.Deny && e.A-p.Eps > firstDenyRet+p.Eps {
				bad = true
				r.Violation("same-key-concurrent:admit-while-jailed",
					fmt.Sprintf("storm case %d: a request called at %s was admitted after a denial of the same key had returned at %s", c.Idx, c53ms(e.A), c53ms(firstDenyRet)), wit())
				break
			}
		}
	}
	if bad {
		atomic.AddInt64(&c53StormBad, 1)
		r.Evals(1)
		return nil, false
	}
	d := bmax - amin
	if n > p.T {
		return []c53St{{Mode: c53Jailed, Slo: amin, Shi: bmax, Jlo: amin, Jhi: bmax, Rlo: amin + p.P + p.S - d, Rhi: bmax + p.P + p.S + d}}, true
	}
	return []c53St{{Mode: c53Counting, C: n, Slo: amin, Shi: bmax}}, true
}

// ---- anchor through the production path ---------------------------------------------

func c53AnchorInit(r *vkit.Run, c *c53Case) (c53Target, bool) {
	m := c53ModeByName(c.Sign)
	root := filepath.Join(scratch(), "c53conf")
	writeFile(filepath.Join(root, "mod_prison", "mod_prison.conf"), []byte("[Basic]\nProductRulePath = mod_prison/prison.data\n\n[Log]\nOpenDebug = false\n"))
	// a second rule on another product must not matter; "pn" is the product of the harness requests
	data := fmt.Sprintf(`{"Version":"c53","Config":{"pn":[%s],"other":[%s]}}`,
		c53RuleJSON("anchor", m, c.Action, c.PMs/1000, c.SMs/1000, c.T),
		c53RuleJSON("other", m, "CLOSE", 1, 1, 0))
	writeFile(filepath.Join(root, "mod_prison", "prison.data"), []byte(data))
	env := newModEnv()
	mod := mod_prison.NewModulePrison()
	var err error
	if r.Try(func() interface{} { return c }, func() { err = mod.Init(env.cbs, env.whs, root) }) {
		return nil, false
	}
	if err != nil {
		r.Inconclusive("mod_prison Init failed: " + err.Error())
		return nil, false
	}
	return c53ModTarget{env}, true
}

// ---- driver -----------------------------------------------------------------------------

func c53(r *vkit.Run) {
	r.SetRule("history = one key's deterministic script of target offsets (us) against one real prisonRule (threshold 0-8, checkPeriod 40-200 ms, stayPeriod 40-400 ms via the verif hook; 12 accessSignConf modes: header, cookie, query, clientip, host, path, url, urlregexp and combinations, keys of a rule differing in exactly one participating component, a per-request noise header/query that must not matter). Scripts come from a generator that follows the nominal automaton to exceed periods, probe jails (half of the probes in the last 15 ms before release), serve them, let periods run out, and place 1/10 of the steps +-2 ms around edges; otherwise >= 10 ms from edges; at run time the rest of a key's script is slid by the lateness of each request that nominally opens a period (script unchanged). 'keys' cases run 3-6 keys of one rule in parallel goroutines (each key sequential); 'storm' cases (plus 6000/120000 probe-less micro-bursts with 10 s periods) fire 2-4 goroutines on ONE key and are judged by counts (exactly min(N,T) admitted when the burst certainly lies within one period; nothing admitted after a denial returned) followed by sequential probes; one 'anchor' case runs checkPeriod=stayPeriod=1 s through module Init + the HandleFoundProduct handler chain. Oracle: state-set interval reference (c53ref.go): period opened by the first counted request, request T+1 of a period and everything before start+checkPeriod+stayPeriod denied, then admitted again; verdicts judged only if all admissible timings agree (call stamps widened by 0.5 ms), else ambiguous. Excluded: allow-obligations where a sliding-period reading would deny (doc silent on fixed vs sliding); LRU eviction (dict sizes 1000 >> keys); UseSocketIP/UseConnectID (documented, not part of this property). Non-trivial = history with >= 1 checked deny and >= 1 checked admit that only a served jail explains; distinct = (kind, T, periods, sign mode, key, offsets). KEY-SPACE cases (c53space.go, 'space'): one real rule with checkPeriod = stayPeriod = 1 h, threshold 1-3, and 2-280 pairwise distinct keys of one family = (sign mode of 13: clientip, clientip+header, header, cookie, query, host, path, url, urlregexp with 1 and 2 groups, UseHeaders, url+host, and one rule signing client ip + host + path + 2 headers + 2 cookies + 2 query keys) x (signed field) x (class); requests fired sequentially in a seeded order (2/3 of the cases: one key over the threshold first, then every other key once, then the rest shuffled), each key T+1..T+2 requests; timing-free oracle: request n of a key is admitted iff n <= T; a denial with n <= T is attributed by re-running on fresh rules (the key alone; A x T then B; A x (T+1) then B) and reported as other-key-affected:<ingredient>:<class> with the two-key witness (client ip: class = address kinds, e.g. ipv6-vs-ipv6). Classes: client ip = ipv6-last-group, ipv6-first-group, ipv6-zero-runs, ipv6-link-local, ipv6-one-bit (32 of the 128 single-bit neighbours of a seeded address; thorough all), ipv4-one-bit (all 32), mixed-forms (plain IPv4 as 4- and 16-byte net.IP, IPv4-mapped, IPv6 with the same low 32 bits, ::, ::1, 0.0.0.0, all-ones); strings = case, space (inner/leading/trailing blanks and tabs where HTTP keeps them), one-byte (one byte / one bit / one byte longer or shorter / doubled), empty-absent, long (256, 4096 and, for rules signing one field, 66000 bytes: equal but for the last, first, middle, 255th/256th, 65535th/65536th byte or by length), separator-bytes (26 separator strings inside, in front of and behind the value), non-ascii, numeric-format; tuples = field-boundary: for every ordered pair of signed string fields (f1,f2) the tuples (x+s+y, z) and (x, y+s+z) for every join string s = separator x {none, name of f2, ingredient word} x {none, '=', ':'} that both fields may carry, plus swapped values. Distinctness is defined from HTTP and the doc, not from the signer: header values without outer whitespace, RFC 6265 cookie octets, lower-case reg-name hosts without port, query/path values under ONE injective percent-encoding style per case (distinct raw and decoded); the plain and the IPv4-mapped form of ONE address never meet in a case (doc silent on their equality); absent/empty header, cookie, query values are only sent below the threshold (doc silent on whether they form a key); every key is vetted (bfe's HTTP reader must deliver exactly the named values, else the key is counted and left out). Tuple cases parse each key's request once and reuse the object; all other cases build every request anew with a per-request noise header/query/port. Required shapes (else inconclusive): every class, every ingredient, all six address-kind pairs, an admitted request of a below-threshold key while another key of the rule is jailed")
	r.Assume("the wall clock (read by mod_prison via time.Now().UnixNano()) advances with the monotonic clock within 0.25 ms over one case; cases where the harness measures a larger deviation are discarded and counted")
	r.Assume("hook VerifNewPrisonRule builds the rule with the real PrisonRuleCheck/newPrisonRule/initDict and only overwrites checkPeriodNs/stayPeriodNs; requests enter through the real recordAndCheck")

	if r.Replay != "" {
		var w struct {
			Case c53Case `json:"case"`
		}
		if err := r.LoadReplay(&w); err != nil {
			r.Inconclusive(err.Error())
			return
		}
		c := &w.Case
		if c.Kind == "space" {
			c53SpaceReplay(r)
			return
		}
		r.SetMinDistinct(0)
		var tgt c53Target
		if c.Kind == "anchor" {
			var ok bool
			if tgt, ok = c53AnchorInit(r, c); !ok {
				return
			}
		} else {
			var err error
			if tgt, err = c53NewHookTarget(c); err != nil {
				r.Inconclusive("replay: " + err.Error())
				return
			}
		}
		if c.Kind == "storm" {
			// the outcome of a concurrent burst depends on the interleaving: the same
			// burst (without the probes) is repeated on fresh rules until it shows
			b := *c
			b.Keys = []c53KeyScript{{Key: c.Keys[0].Key}}
			for n := 0; n < 4000 && atomic.LoadInt64(&c53StormBad) == 0; n++ {
				if t, err := c53NewHookTarget(&b); err == nil {
					c53Judge(r, &b, c53Run(r, &b, t))
				}
				r.Count("replay_burst_repetitions", 1)
			}
		}
		c53Judge(r, c, c53Run(r, c, tgt))
		return
	}

	// The module is initialised BEFORE any rule is exercised: Init writes the
	// package variable openDebug that recordAndCheck reads.
	anchor := c53GenAnchor(r)
	atgt, aok := c53AnchorInit(r, anchor)
	// key-space cases (c53space.go): sequential, timing-free, before the timed workload
	c53Space(r)
	var awg sync.WaitGroup
	if aok {
		awg.Add(1)
		go func() {
			defer awg.Done()
			c53Judge(r, anchor, c53Run(r, anchor, atgt))
		}()
	}

	nKeys := r.N(64, 1920)   // x 3-6 keys  ~ 290 / 8 600 histories
	nStorm := r.N(110, 3400) // 1 history each
	runCase := func(c *c53Case) {
		tgt, err := c53NewHookTarget(c)
		if err != nil {
			r.Violation("rule-rejected", "valid rule configuration rejected: "+err.Error(), map[string]interface{}{"case": c})
			return
		}
		c53Judge(r, c, c53Run(r, c, tgt))
	}
	// storms need real parallelism between their workers: fewer at a time
	awg.Add(1)
	go func() {
		defer awg.Done()
		vkit.Parallel(nStorm, 6, func(i int) { runCase(c53GenStorm(r, i)) })
	}()
	vkit.Parallel(nKeys, 40, func(i int) { runCase(c53GenKeys(r, i)) })
	awg.Wait()
	// micro-bursts after the timed workload (they keep all cores busy)
	nMicro := r.N(6000, 120000)
	vkit.Parallel(nMicro, 4, func(i int) { runCase(c53GenMicro(r, i)); r.Count("micro_bursts", 1) })

	c53LateReport(r)
	req := r.Counter("requests")
	if req > 0 && r.Counter("ambiguous")*100 > req*30 {
		r.Inconclusive(fmt.Sprintf("ambiguous fraction too high: %d of %d requests", r.Counter("ambiguous"), req))
	}
	for _, k := range []string{"checked_allow", "checked_deny", "released_then_admitted", "window_expired_then_admitted", "other_key_unaffected",
		"storm_judged", "histories_anchor", "histories_keys", "histories_storm"} {
		if r.Counter(k) == 0 {
			r.Inconclusive("outcome never reached: " + k)
		}
	}
	if d := r.Counter("discarded_clock_step_cases"); d*10 > int64(nKeys+nStorm) {
		r.Inconclusive(fmt.Sprintf("%d cases discarded because the wall clock deviated from the monotonic clock", d))
	}
}
