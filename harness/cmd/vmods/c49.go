package main

import (
	"bytes"
	"encoding/json"
	"fmt"
	"net"
	"net/url"
	"path/filepath"
	"sort"
	"strings"

	"github.com/bfenetworks/bfe/bfe_basic"
	"github.com/bfenetworks/bfe/bfe_basic/action"
	"github.com/bfenetworks/bfe/bfe_http"
	"github.com/bfenetworks/bfe/bfe_module"
	"github.com/bfenetworks/bfe/bfe_modules/mod_header"
	"github.com/bfenetworks/bfe/bfe_modules/mod_redirect"
	"github.com/bfenetworks/bfe/bfe_modules/mod_rewrite"

	"verifharness/vkit"
)

// C49: every documented rewrite / header / redirect action is accepted by the
// rule loader and transforms the request, response or redirect location as
// documented; after query-deleting actions no deleted key remains in the
// outgoing query (in any encoding) and the other parameters are unchanged.
//
// References are written from docs/en_us/modules/{mod_rewrite,mod_header,
// mod_redirect}/*.md. Each action configuration is its own product in one rule
// file per module, loaded by the module's real loader; each documented command
// is first loaded alone so that a rejected command is reported by name. The
// request is parsed by bfe_http.ReadRequest, run through the module's
// registered handler and then serialised with bfe_http.Request.Write; host,
// path and query are read back from those wire bytes.

// ---- cases ------------------------------------------------------------------

type c49Action struct {
	Cmd    string   `json:"cmd"`
	Params []string `json:"params"`
}

type c49Conf struct {
	Mod     string      `json:"mod"` // rewrite | header | redirect
	Actions []c49Action `json:"actions"`
	Status  int         `json:"status,omitempty"` // redirect
	Product string      `json:"product"`
	Direct  bool        `json:"direct,omitempty"` // loader rejected the command: action.Action.Do is called directly
	Adv     bool        `json:"adv,omitempty"`    // adversarial family (c49adv.go): request generated from the configured parameters
}

type c49Req struct {
	Method     string      `json:"method"`
	Abs        bool        `json:"absolute_form"`
	Host       string      `json:"host"`
	Path       string      `json:"path"`            // raw (encoded) path
	Query      string      `json:"query"`           // raw query
	HasQ       bool        `json:"has_q"`           // "?" present
	Shape      string      `json:"shape,omitempty"` // adversarial family: how host/path/query were derived from the parameters
	Headers    [][2]string `json:"headers,omitempty"`
	RspHeaders [][2]string `json:"rsp_headers,omitempty"`
	ClientIP   string      `json:"client_ip,omitempty"`
	ClientPort int         `json:"client_port,omitempty"`
	LogId      string      `json:"log_id,omitempty"`
	Cluster    string      `json:"cluster,omitempty"`
	SessionId  string      `json:"session_id,omitempty"`
}

type c49Case struct {
	Conf c49Conf `json:"conf"`
	Req  c49Req  `json:"req"`
}

func c49Target(q *c49Req) string {
	t := q.Path
	if q.HasQ {
		t += "?" + q.Query
	}
	return t
}

func c49Raw(q *c49Req) []byte {
	var b bytes.Buffer
	t := c49Target(q)
	if q.Abs {
		t = "http://" + q.Host + t
	}
	fmt.Fprintf(&b, "%s %s HTTP/1.1\r\nHost: %s\r\n", q.Method, t, q.Host)
	for _, h := range q.Headers {
		fmt.Fprintf(&b, "%s: %s\r\n", h[0], h[1])
	}
	b.WriteString("\r\n")
	return b.Bytes()
}

// ---- ordered query model (net/url semantics) ----------------------------------

type c49Pair struct {
	K, V string
	Raw  string
}

// c49ParseQuery splits a raw query the way net/url.ParseQuery does (split on
// '&'; a part containing ';' or an invalid escape is dropped; '+' is a space)
// but keeps the order of the pairs and their raw text.
func c49ParseQuery(raw string) []c49Pair {
	var out []c49Pair
	for _, part := range strings.Split(raw, "&") {
		if part == "" || strings.Contains(part, ";") {
			continue
		}
		k, v := part, ""
		if i := strings.Index(part, "="); i >= 0 {
			k, v = part[:i], part[i+1:]
		}
		dk, err1 := url.QueryUnescape(k)
		dv, err2 := url.QueryUnescape(v)
		if err1 != nil || err2 != nil {
			continue
		}
		out = append(out, c49Pair{K: dk, V: dv, Raw: part})
	}
	return out
}

func c49PairsEqual(a, b []c49Pair) bool {
	if len(a) != len(b) {
		return false
	}
	for i := range a {
		if a[i].K != b[i].K || a[i].V != b[i].V {
			return false
		}
	}
	return true
}

func c49PairsString(p []c49Pair) string {
	var s []string
	for _, x := range p {
		s = append(s, fmt.Sprintf("%q=%q", x.K, x.V))
	}
	return "[" + strings.Join(s, " ") + "]"
}

// c49PairShape names the raw form of a pair for signatures.
func c49PairShape(p c49Pair) string {
	rawKey := p.Raw
	hasEq := false
	if i := strings.Index(p.Raw, "="); i >= 0 {
		rawKey, hasEq = p.Raw[:i], true
	}
	switch {
	case strings.Contains(rawKey, "%"):
		return "percent-encoded-key"
	case strings.Contains(rawKey, "+"):
		return "plus-encoded-key"
	case rawKey != p.K:
		return "encoded-key"
	case !hasEq:
		return "key-without-equals"
	}
	return "plain-key"
}

// ---- reference: rewrite ----------------------------------------------------------

type c49State struct {
	Host string
	Path string // decoded
	Q    []c49Pair
}

func c49In(keys []string, k string) bool {
	for _, x := range keys {
		if x == k {
			return true
		}
	}
	return false
}

// c49Rewrite applies one documented rewrite action. judged=false marks a corner
// the documentation does not decide.
func c49Rewrite(a c49Action, s c49State) (out c49State, judged bool) {
	out, silent := c49RewriteWhy(a, s)
	return out, silent == ""
}

// c49RewriteWhy is c49Rewrite naming the undecided corner ("" = judged).
func c49RewriteWhy(a c49Action, s c49State) (out c49State, silent string) {
	out = c49State{Host: s.Host, Path: s.Path, Q: append([]c49Pair{}, s.Q...)}
	judged := true
	defer func() {
		if !judged && silent == "" {
			silent = "doc-silent"
		}
	}()
	switch a.Cmd {
	case "HOST_SET":
		out.Host = a.Params[0]
	case "HOST_SET_FROM_PATH_PREFIX":
		// "/x.baidu.com/xxx" -> host x.baidu.com, path /xxx; other patterns: nothing
		segs := strings.SplitN(s.Path, "/", 3)
		if len(segs) < 3 {
			return
		}
		if segs[1] == "" {
			silent = "host-from-path:empty-first-segment"
			return
		}
		for i := 0; i < len(segs[1]); i++ {
			// a decoded segment with a control character, SP or DEL cannot be a host name; the
			// docs do not say what the action does with it (oracle correction: the model used
			// to demand that such a segment becomes the Host; C25 forbids exactly that)
			if b := segs[1][i]; b <= ' ' || b == 0x7f {
				silent = "host-from-path:segment-not-a-host"
				return
			}
		}
		out.Host, out.Path = segs[1], "/"+segs[2]
	case "HOST_SUFFIX_REPLACE":
		if _, _, err := net.SplitHostPort(s.Host); err == nil {
			silent = "host-suffix:host-with-port" // "suffix of host" with a port present: not decided by the docs
			return
		}
		// "Replace suffix of host": the host is the suffix's length shorter at its
		// end and the new suffix is appended there; nothing else of it changes.
		h, suf := s.Host, a.Params[0]
		if strings.HasSuffix(h, suf) {
			out.Host = h[:len(h)-len(suf)] + a.Params[1]
			return
		}
		// not a suffix byte for byte. Host names compare case-insensitively and
		// "example.com." names the same host as "example.com"; whether the action
		// sees through either is not decided by the docs.
		lh, ls := strings.ToLower(h), strings.ToLower(suf)
		switch {
		case strings.HasSuffix(lh, ls):
			silent = "host-suffix:matches-only-case-insensitively"
		case strings.HasSuffix(strings.TrimSuffix(lh, "."), ls), strings.HasSuffix(lh, strings.TrimSuffix(ls, ".")) && strings.HasSuffix(ls, "."):
			silent = "host-suffix:matches-only-modulo-trailing-dot"
		}
	case "PATH_SET":
		out.Path = a.Params[0]
	case "PATH_PREFIX_ADD":
		// documented shape: prefix "/bfe/" + "/rewrite" -> "/bfe/rewrite"
		out.Path = a.Params[0] + strings.TrimPrefix(s.Path, "/")
	case "PATH_PREFIX_TRIM":
		p := strings.TrimPrefix(s.Path, a.Params[0])
		if !strings.HasPrefix(p, "/") {
			p = "/" + p
		}
		out.Path = p
	case "QUERY_ADD":
		out.Q = append(out.Q, c49Pair{K: a.Params[0], V: a.Params[1]})
	case "QUERY_DEL":
		out.Q = nil
		for _, p := range s.Q {
			if !c49In(a.Params, p.K) {
				out.Q = append(out.Q, p)
			}
		}
	case "QUERY_DEL_ALL_EXCEPT":
		out.Q = nil
		for _, p := range s.Q {
			if c49In(a.Params, p.K) {
				out.Q = append(out.Q, p)
			}
		}
	case "QUERY_RENAME":
		for i := range out.Q {
			if out.Q[i].K == a.Params[0] {
				out.Q[i].K = a.Params[1]
			}
		}
	default:
		judged = false
	}
	return
}

// ---- configurations --------------------------------------------------------------

func c49RewriteConfs() []c49Conf {
	one := func(cmd string, params ...string) c49Conf {
		return c49Conf{Mod: "rewrite", Actions: []c49Action{{Cmd: cmd, Params: params}}}
	}
	cs := []c49Conf{
		one("HOST_SET", "new.example.com"), one("HOST_SET", "backend.internal:8080"),
		one("HOST_SET_FROM_PATH_PREFIX"),
		one("HOST_SUFFIX_REPLACE", ".example.com", ".internal"), one("HOST_SUFFIX_REPLACE", "example.com", "example.org"), one("HOST_SUFFIX_REPLACE", "www.example.com", "origin.example.com"),
		one("PATH_SET", "/fixed"), one("PATH_SET", "/a/b/index.html"),
		one("PATH_PREFIX_ADD", "/bfe/"), one("PATH_PREFIX_ADD", "/x/y/"),
		one("PATH_PREFIX_TRIM", "/service"), one("PATH_PREFIX_TRIM", "/service/"), one("PATH_PREFIX_TRIM", "/service/shortcut/"), one("PATH_PREFIX_TRIM", "/a"),
		one("QUERY_ADD", "k", "v"), one("QUERY_ADD", "a", "1"), one("QUERY_ADD", "new", "x-y_z.0~"),
		one("QUERY_DEL", "a"), one("QUERY_DEL", "a", "b"), one("QUERY_DEL", "a b"), one("QUERY_DEL", "k", "uid", "A"), one("QUERY_DEL", "ab"),
		one("QUERY_DEL_ALL_EXCEPT", "a"), one("QUERY_DEL_ALL_EXCEPT", "a", "b"), one("QUERY_DEL_ALL_EXCEPT", "a b"), one("QUERY_DEL_ALL_EXCEPT", "uid"),
		one("QUERY_RENAME", "a", "z"), one("QUERY_RENAME", "a b", "c"), one("QUERY_RENAME", "k", "kk"),
		{Mod: "rewrite", Actions: []c49Action{{Cmd: "PATH_PREFIX_TRIM", Params: []string{"/service"}}, {Cmd: "QUERY_DEL", Params: []string{"a"}}}},
		{Mod: "rewrite", Actions: []c49Action{{Cmd: "HOST_SET", Params: []string{"h2.example.com"}}, {Cmd: "PATH_PREFIX_ADD", Params: []string{"/bfe/"}}, {Cmd: "QUERY_ADD", Params: []string{"src", "bfe"}}}},
	}
	for i := range cs {
		cs[i].Product = fmt.Sprintf("rw%d", i)
	}
	return cs
}

var c49Vars = map[string]func(q *c49Req) string{
	"%bfe_client_ip":    func(q *c49Req) string { return q.ClientIP },
	"%bfe_cip":          func(q *c49Req) string { return q.ClientIP },
	"%bfe_client_port":  func(q *c49Req) string { return fmt.Sprint(q.ClientPort) },
	"%bfe_request_host": func(q *c49Req) string { return q.Host },
	"%bfe_log_id":       func(q *c49Req) string { return q.LogId },
	"%bfe_session_id":   func(q *c49Req) string { return q.SessionId },
	"%bfe_cluster":      func(q *c49Req) string { return q.Cluster },
}

func c49HeaderConfs() []c49Conf {
	one := func(cmd string, params ...string) c49Conf {
		return c49Conf{Mod: "header", Actions: []c49Action{{Cmd: cmd, Params: params}}}
	}
	cs := []c49Conf{
		one("REQ_HEADER_SET", "X-Bfe-Log-Id", "%bfe_log_id"), one("REQ_HEADER_SET", "X-Bfe-Client-Ip", "%bfe_client_ip"), one("REQ_HEADER_SET", "X-Cip", "%bfe_cip"),
		one("REQ_HEADER_SET", "X-Client-Port", "%bfe_client_port"), one("REQ_HEADER_SET", "X-Orig-Host", "%bfe_request_host"), one("REQ_HEADER_SET", "X-Sid", "%bfe_session_id"),
		one("REQ_HEADER_SET", "X-Cluster", "%bfe_cluster"),
		one("REQ_HEADER_SET", "X-Proxied-By", "bfe"), one("REQ_HEADER_SET", "x-lower-case", "v"), one("REQ_HEADER_SET", "User-Agent", "bfe-agent/1.0"), one("REQ_HEADER_SET", "X-Multi", "only"),
		one("REQ_HEADER_ADD", "X-Multi", "added"), one("REQ_HEADER_ADD", "X-New", "n1"), one("REQ_HEADER_ADD", "Accept-Language", "%bfe_log_id"),
		one("REQ_HEADER_DEL", "X-Multi"), one("REQ_HEADER_DEL", "user-agent"), one("REQ_HEADER_DEL", "X-Absent"), one("REQ_HEADER_DEL", "Cookie"),
		one("RSP_HEADER_SET", "X-Proxied-By", "bfe"), one("RSP_HEADER_SET", "Server", "hidden"), one("RSP_HEADER_SET", "X-Req-Id", "%bfe_log_id"), one("RSP_HEADER_SET", "cache-control", "no-store"),
		one("RSP_HEADER_ADD", "Set-Cookie", "bfe=1; Path=/"), one("RSP_HEADER_ADD", "Vary", "Origin"), one("RSP_HEADER_ADD", "X-Rsp-New", "%bfe_client_ip"),
		one("RSP_HEADER_DEL", "Server"), one("RSP_HEADER_DEL", "x-powered-by"), one("RSP_HEADER_DEL", "X-Absent"), one("RSP_HEADER_DEL", "Set-Cookie"),
		// the documentation's example: several actions of both kinds in one rule
		{Mod: "header", Actions: []c49Action{{Cmd: "REQ_HEADER_SET", Params: []string{"X-Bfe-Log-Id", "%bfe_log_id"}}, {Cmd: "REQ_HEADER_SET", Params: []string{"X-Bfe-Cip", "%bfe_cip"}}, {Cmd: "RSP_HEADER_SET", Params: []string{"X-Proxied-By", "bfe"}}}},
	}
	for i := range cs {
		cs[i].Product = fmt.Sprintf("hd%d", i)
	}
	return cs
}

func c49RedirectConfs() []c49Conf {
	one := func(status int, cmd string, params ...string) c49Conf {
		return c49Conf{Mod: "redirect", Status: status, Actions: []c49Action{{Cmd: cmd, Params: params}}}
	}
	cs := []c49Conf{
		one(301, "URL_SET", "https://example.org"), one(302, "URL_SET", "/landing?x=1"), one(307, "URL_SET", "https://example.org/a%20b?c=d#frag"),
		one(302, "URL_FROM_QUERY", "url"), one(301, "URL_FROM_QUERY", "next"),
		one(301, "URL_PREFIX_ADD", "https://new.example.org"), one(302, "URL_PREFIX_ADD", "/prefix"), one(308, "URL_PREFIX_ADD", "http://m.example.org:8080/mobile"),
		one(301, "SCHEME_SET", "https"), one(302, "SCHEME_SET", "http"),
	}
	for i := range cs {
		cs[i].Product = fmt.Sprintf("rd%d", i)
	}
	return cs
}

// rule file builders (field names as in each module's documentation example)

func c49RewriteFile(cs []c49Conf) []byte {
	cfg := map[string]interface{}{}
	for _, c := range cs {
		var acts []map[string]interface{}
		for _, a := range c.Actions {
			p := a.Params
			if p == nil {
				p = []string{}
			}
			acts = append(acts, map[string]interface{}{"Cmd": a.Cmd, "Params": p})
		}
		cfg[c.Product] = []map[string]interface{}{{"Cond": "default_t()", "Actions": acts, "Last": true}}
	}
	b, _ := json.MarshalIndent(map[string]interface{}{"Version": "c49", "Config": cfg}, "", " ")
	return b
}

func c49HeaderFile(cs []c49Conf) []byte {
	cfg := map[string]interface{}{}
	for _, c := range cs {
		var acts []map[string]interface{}
		for _, a := range c.Actions {
			acts = append(acts, map[string]interface{}{"cmd": a.Cmd, "params": a.Params})
		}
		cfg[c.Product] = []map[string]interface{}{{"cond": "default_t()", "actions": acts, "last": true}}
	}
	b, _ := json.MarshalIndent(map[string]interface{}{"Version": "c49", "Config": cfg}, "", " ")
	return b
}

func c49RedirectFile(cs []c49Conf) []byte {
	cfg := map[string]interface{}{}
	for _, c := range cs {
		var acts []map[string]interface{}
		for _, a := range c.Actions {
			acts = append(acts, map[string]interface{}{"Cmd": a.Cmd, "Params": a.Params})
		}
		cfg[c.Product] = []map[string]interface{}{{"Cond": "default_t()", "Actions": acts, "Status": c.Status}}
	}
	b, _ := json.MarshalIndent(map[string]interface{}{"Version": "c49", "Config": cfg}, "", " ")
	return b
}

// ---- request generator --------------------------------------------------------------

var c49Hosts = []string{"www.example.com", "a.b.example.org", "example.com", "img.example.com:8080", "x.test", "cdn.example.com"}
var c49Segs = []string{"a", "b", "bfe", "rewrite", "x.baidu.com", "service", "shortcut", "c%20d", "e%2Ff", "%41", "index.html", "", "api", "v1"}
var c49Keys = []string{"a", "b", "ab", "k", "a b", "uid", "A", "url", "next"}
var c49Vals = []string{"1", "", "x y", "v=1", "2", "%", "日本", "a&b", "http://t.example/p?q=1&r=2", "/rel/path", "z"}

func c49EncKey(g *vkit.Rand, k string) string {
	switch g.Intn(6) {
	case 0: // percent-encode the first byte
		return fmt.Sprintf("%%%02X", k[0]) + url.QueryEscape(k[1:])
	case 1: // lower-case hex, every byte
		var sb strings.Builder
		for i := 0; i < len(k); i++ {
			fmt.Fprintf(&sb, "%%%02x", k[i])
		}
		return sb.String()
	case 2: // space as %20
		return strings.Replace(url.QueryEscape(k), "+", "%20", -1)
	default:
		return url.QueryEscape(k) // space as '+'
	}
}

func c49GenQuery(g *vkit.Rand) (string, bool) {
	n := g.Intn(7)
	if n == 0 {
		return "", g.Chance(1, 4)
	}
	var parts []string
	for i := 0; i < n; i++ {
		k := c49EncKey(g, c49Keys[g.Intn(len(c49Keys))])
		v := c49Vals[g.Intn(len(c49Vals))]
		ev := url.QueryEscape(v)
		if g.Chance(1, 5) {
			ev = strings.Replace(ev, "+", "%20", -1)
		}
		switch g.Intn(20) {
		case 0, 1:
			parts = append(parts, k) // key without '='
		case 2:
			parts = append(parts, k+"=")
		case 3:
			parts = append(parts, "") // "&&"
		case 4:
			parts = append(parts, "="+ev) // empty key
		case 5:
			parts = append(parts, k+"="+ev+";x=y") // semicolon: dropped by net/url
		case 6:
			parts = append(parts, k+"=p=q") // raw '=' inside the value
		default:
			parts = append(parts, k+"="+ev)
		}
	}
	return strings.Join(parts, "&"), true
}

func c49GenReq(g *vkit.Rand, conf *c49Conf) c49Req {
	q := c49Req{Method: g.PickS([]string{"GET", "GET", "POST", "HEAD"}), Abs: g.Chance(1, 5), Host: c49Hosts[g.Intn(len(c49Hosts))]}
	// path, biased towards the configured prefixes
	var segs []string
	switch g.Intn(6) {
	case 0:
		segs = []string{"service"}
	case 1:
		segs = []string{"service", "shortcut"}
	case 2:
		segs = []string{g.PickS([]string{"x.baidu.com", "h.example.org", "backend:81"})}
	case 3:
		segs = []string{"a"}
	}
	for k := g.Intn(4); k > 0; k-- {
		segs = append(segs, c49Segs[g.Intn(len(c49Segs))])
	}
	q.Path = "/" + strings.Join(segs, "/")
	if len(segs) > 0 && g.Chance(1, 4) {
		q.Path += "/"
	}
	q.Query, q.HasQ = c49GenQuery(g)
	if q.Method == "POST" {
		q.Headers = append(q.Headers, [2]string{"Content-Length", "0"})
	}
	// headers
	if g.Chance(3, 4) {
		q.Headers = append(q.Headers, [2]string{"User-Agent", "curl/8.0"})
	}
	for k := g.Intn(3); k > 0; k-- {
		q.Headers = append(q.Headers, [2]string{g.PickS([]string{"X-Multi", "x-multi", "X-MULTI"}), fmt.Sprintf("m%d", g.Intn(9))})
	}
	if g.Bool() {
		q.Headers = append(q.Headers, [2]string{"Cookie", "sid=1; theme=dark"})
	}
	if g.Chance(1, 3) {
		q.Headers = append(q.Headers, [2]string{"X-Bfe-Log-Id", "spoofed"})
	}
	if g.Chance(1, 3) {
		q.Headers = append(q.Headers, [2]string{"Accept-Language", "en"})
	}
	q.RspHeaders = [][2]string{{"Content-Type", "text/html"}}
	if g.Chance(2, 3) {
		q.RspHeaders = append(q.RspHeaders, [2]string{"Server", "nginx/1.2"})
	}
	if g.Bool() {
		q.RspHeaders = append(q.RspHeaders, [2]string{"X-Powered-By", "PHP/5.6"})
	}
	for k := g.Intn(3); k > 0; k-- {
		q.RspHeaders = append(q.RspHeaders, [2]string{"Set-Cookie", fmt.Sprintf("c%d=v; Path=/", g.Intn(5))})
	}
	if g.Chance(1, 3) {
		q.RspHeaders = append(q.RspHeaders, [2]string{"Vary", "Accept-Encoding"})
	}
	if g.Chance(1, 3) {
		q.RspHeaders = append(q.RspHeaders, [2]string{"Cache-Control", "max-age=60"})
	}
	q.ClientIP = g.PickS([]string{"198.51.100.7", "2001:db8::9", "10.1.2.3"})
	q.ClientPort = g.Range(1024, 65535)
	q.LogId = fmt.Sprintf("log-%d", g.Intn(1000000))
	q.SessionId = fmt.Sprintf("sess-%d", g.Intn(1000000))
	q.Cluster = g.PickS([]string{"cluster_a", "cluster_b"})
	_ = conf
	return q
}

// ---- execution ------------------------------------------------------------------------

type c49Envs struct {
	rewrite, header, redirect *modEnv
}

func c49BuildReq(c *c49Case) (*bfe_basic.Request, error) {
	req, err := parseReq(c49Raw(&c.Req))
	if err != nil {
		return nil, err
	}
	req.Route.Product = c.Conf.Product
	req.Route.ClusterName = c.Req.Cluster
	req.LogId = c.Req.LogId
	req.Session.SessionId = c.Req.SessionId
	req.ClientAddr = &net.TCPAddr{IP: net.ParseIP(c.Req.ClientIP), Port: c.Req.ClientPort}
	return req, nil
}

type c49Wire struct {
	Host    string
	RawPath string
	Path    string
	Query   string
	HasQ    bool
	Line    string
}

func c49Serialise(hr *bfe_http.Request) (*c49Wire, error) {
	var b bytes.Buffer
	cp := *hr
	if err := cp.Write(&b); err != nil {
		return nil, err
	}
	lines := strings.Split(b.String(), "\r\n")
	w := &c49Wire{Line: lines[0]}
	f := strings.SplitN(lines[0], " ", 3)
	if len(f) != 3 {
		return nil, fmt.Errorf("bad request line %q", lines[0])
	}
	w.RawPath = f[1]
	if i := strings.Index(f[1], "?"); i >= 0 {
		w.RawPath, w.Query, w.HasQ = f[1][:i], f[1][i+1:], true
	}
	p, err := url.PathUnescape(w.RawPath)
	if err != nil {
		return nil, fmt.Errorf("undecodable path on the wire %q", w.RawPath)
	}
	w.Path = p
	for _, l := range lines[1:] {
		if l == "" {
			break
		}
		if strings.HasPrefix(strings.ToLower(l), "host:") {
			w.Host = strings.TrimSpace(l[5:])
		}
	}
	return w, nil
}

func c49Witness(c *c49Case, extra map[string]interface{}) map[string]interface{} {
	w := map[string]interface{}{"case": c, "raw_request": string(c49Raw(&c.Req))}
	for k, v := range extra {
		w[k] = v
	}
	return w
}

func c49Cmds(c *c49Conf) string {
	var s []string
	for _, a := range c.Actions {
		s = append(s, a.Cmd)
	}
	return strings.Join(s, "+")
}

func c49CheckRewrite(r *vkit.Run, envs *c49Envs, c *c49Case) {
	req, err := c49BuildReq(c)
	if err != nil {
		r.Count("http_reader_refused", 1)
		return
	}
	path0, err := url.PathUnescape(c.Req.Path)
	if err != nil {
		return
	}
	st := c49State{Host: c.Req.Host, Path: path0, Q: c49ParseQuery(c.Req.Query)}
	want, judged, silent := st, true, ""
	for _, a := range c.Conf.Actions {
		var why string
		want, why = c49RewriteWhy(a, want)
		if why != "" && silent == "" {
			silent = why
		}
	}
	if c.Conf.Adv && silent == "" {
		silent = c49AdvRawSilent(c)
	}
	judged = silent == ""
	var wire *c49Wire
	var werr error
	if r.Try(func() interface{} { return c }, func() {
		if c.Conf.Direct {
			for _, a := range c.Conf.Actions {
				ac := action.Action{Cmd: a.Cmd, Params: a.Params}
				if err := ac.Do(req); err != nil {
					werr = err
					return
				}
			}
		} else if code, _ := envs.rewrite.request(bfe_module.HandleAfterLocation, req); code != bfe_module.BfeHandlerGoOn {
			werr = fmt.Errorf("handler returned %d", code)
			return
		}
		wire, werr = c49Serialise(req.HttpRequest)
	}) {
		return
	}
	cmds := c49Cmds(&c.Conf)
	key, _ := json.Marshal(c)
	changes := want.Host != st.Host || want.Path != st.Path || !c49PairsEqual(want.Q, st.Q)
	r.CaseS(string(key), judged && changes)
	r.Count("rewrite_cases", 1)
	if werr != nil {
		r.Violation(cmds+":error", werr.Error(), c49Witness(c, nil))
		return
	}
	shape := ""
	if c.Conf.Adv {
		shape = ":" + c.Req.Shape
		r.Count("adv_cases", 1)
		r.Count("adv_shape["+c.Req.Shape+"]", 1)
	}
	if !judged {
		r.Count("not_judged_doc_silent", 1)
		if c.Conf.Adv {
			r.Count("adv_not_judged["+silent+"]", 1)
		}
		return
	}
	if changes {
		r.Count("rewrite_effective", 1)
	} else {
		r.Count("rewrite_noop_expected", 1)
	}
	if c.Conf.Adv {
		if changes {
			r.Count("adv_judged_effective["+c.Req.Shape+"]", 1)
		} else {
			r.Count("adv_judged_noop", 1)
		}
		c49AdvSample(c, st, want, wire)
	}
	obs := map[string]interface{}{"wire_request_line": wire.Line, "wire_host": wire.Host, "want_host": want.Host, "want_path": want.Path, "want_query_pairs": c49PairsString(want.Q)}
	if wire.Host != want.Host {
		sig := cmds + ":host-mismatch" + shape
		if cmds == "HOST_SUFFIX_REPLACE" && wire.Host == st.Host {
			sig = "HOST_SUFFIX_REPLACE:origin-form-noop"
			if c.Req.Abs {
				sig = "HOST_SUFFIX_REPLACE:noop"
			}
		}
		r.Violation(sig, fmt.Sprintf("Host on the wire %q, documented effect gives %q (request Host %q)", wire.Host, want.Host, st.Host), c49Witness(c, obs))
		return
	}
	if wire.Path != want.Path {
		r.Violation(cmds+":path-mismatch"+shape, fmt.Sprintf("path on the wire %q (raw %q), documented effect gives %q (request path %q)", wire.Path, wire.RawPath, want.Path, st.Path), c49Witness(c, obs))
		return
	}
	got := c49ParseQuery(wire.Query)
	obs["wire_query_pairs"] = c49PairsString(got)
	if !c49PairsEqual(got, want.Q) {
		r.Violation(c49QuerySig(c, st.Q, want.Q, got), fmt.Sprintf("outgoing query %q parses to %s, documented effect gives %s (request query %q)", wire.Query, c49PairsString(got), c49PairsString(want.Q), c.Req.Query), c49Witness(c, obs))
		return
	}
	r.Count("rewrite_ok", 1)
}

// c49QuerySig derives a signature from the first offending pair.
func c49QuerySig(c *c49Case, before, want, got []c49Pair) string {
	last := c.Conf.Actions[len(c.Conf.Actions)-1]
	for _, a := range c.Conf.Actions {
		if strings.HasPrefix(a.Cmd, "QUERY_") {
			last = a
		}
	}
	cmd := last.Cmd
	switch cmd {
	case "QUERY_DEL":
		for _, p := range got {
			if c49In(last.Params, p.K) {
				return cmd + ":" + c49PairShape(p) + "-survives"
			}
		}
	case "QUERY_DEL_ALL_EXCEPT":
		for _, p := range got {
			if !c49In(last.Params, p.K) {
				return cmd + ":" + c49PairShape(p) + "-survives"
			}
		}
	case "QUERY_RENAME":
		for _, p := range got {
			if p.K == last.Params[0] {
				return cmd + ":" + c49PairShape(p) + "-not-renamed"
			}
		}
	}
	if len(got) < len(want) {
		return cmd + ":other-pair-lost"
	}
	return cmd + ":query-mismatch"
}

func c49CanonHeader(h [][2]string) map[string][]string {
	m := map[string][]string{}
	for _, kv := range h {
		k := bfe_http.CanonicalHeaderKey(kv[0])
		m[k] = append(m[k], kv[1])
	}
	return m
}

func c49HeaderString(m map[string][]string) string {
	var ks []string
	for k := range m {
		ks = append(ks, k)
	}
	sort.Strings(ks)
	var sb strings.Builder
	for _, k := range ks {
		fmt.Fprintf(&sb, "%s=%q; ", k, m[k])
	}
	return sb.String()
}

func c49ApplyHeader(a c49Action, q *c49Req, m map[string][]string) {
	k := bfe_http.CanonicalHeaderKey(a.Params[0])
	v := ""
	if len(a.Params) > 1 {
		v = a.Params[1]
		if f, ok := c49Vars[v]; ok {
			v = f(q)
		}
	}
	switch a.Cmd[4:] {
	case "HEADER_SET":
		m[k] = []string{v}
	case "HEADER_ADD":
		m[k] = append(m[k], v)
	case "HEADER_DEL":
		delete(m, k)
	}
}

func c49CheckHeader(r *vkit.Run, envs *c49Envs, c *c49Case) {
	req, err := c49BuildReq(c)
	if err != nil {
		r.Count("http_reader_refused", 1)
		return
	}
	wantReq := c49CanonHeader(c.Req.Headers)
	wantRsp := c49CanonHeader(c.Req.RspHeaders)
	before := c49HeaderString(wantReq) + "|" + c49HeaderString(wantRsp)
	for _, a := range c.Conf.Actions {
		if strings.HasPrefix(a.Cmd, "REQ_") {
			c49ApplyHeader(a, &c.Req, wantReq)
		} else {
			c49ApplyHeader(a, &c.Req, wantRsp)
		}
	}
	changes := before != c49HeaderString(wantReq)+"|"+c49HeaderString(wantRsp)
	res := &bfe_http.Response{StatusCode: 200, Header: bfe_http.Header{}, Body: bfe_http.EofReader}
	for _, kv := range c.Req.RspHeaders {
		res.Header.Add(kv[0], kv[1])
	}
	var werr error
	if r.Try(func() interface{} { return c }, func() {
		if code, _ := envs.header.request(bfe_module.HandleAfterLocation, req); code != bfe_module.BfeHandlerGoOn {
			werr = fmt.Errorf("request handler returned %d", code)
			return
		}
		req.HttpResponse = res
		if code := envs.header.response(bfe_module.HandleReadResponse, req, res); code != bfe_module.BfeHandlerGoOn {
			werr = fmt.Errorf("response handler returned %d", code)
		}
	}) {
		return
	}
	key, _ := json.Marshal(c)
	r.CaseS(string(key), changes)
	r.Count("header_cases", 1)
	cmds := c49Cmds(&c.Conf)
	if werr != nil {
		r.Violation(cmds+":error", werr.Error(), c49Witness(c, nil))
		return
	}
	if changes {
		r.Count("header_effective", 1)
	} else {
		r.Count("header_noop_expected", 1)
	}
	gotReq, gotRsp := map[string][]string{}, map[string][]string{}
	for k, v := range req.HttpRequest.Header {
		gotReq[bfe_http.CanonicalHeaderKey(k)] = append(gotReq[bfe_http.CanonicalHeaderKey(k)], v...)
	}
	for k, v := range res.Header {
		gotRsp[bfe_http.CanonicalHeaderKey(k)] = append(gotRsp[bfe_http.CanonicalHeaderKey(k)], v...)
	}
	isVar := false
	for _, a := range c.Conf.Actions {
		if len(a.Params) > 1 {
			if _, ok := c49Vars[a.Params[1]]; ok {
				isVar = true
			}
		}
	}
	suffix := ":header-mismatch"
	if isVar {
		suffix = ":variable-value-mismatch"
	}
	if g, w := c49HeaderString(gotReq), c49HeaderString(wantReq); g != w {
		r.Violation(cmds+suffix+":request", fmt.Sprintf("request headers after the handler: %s want: %s", g, w), c49Witness(c, nil))
		return
	}
	if g, w := c49HeaderString(gotRsp), c49HeaderString(wantRsp); g != w {
		r.Violation(cmds+suffix+":response", fmt.Sprintf("response headers after the handler: %s want: %s", g, w), c49Witness(c, nil))
		return
	}
	// the forwarded bytes carry the same request headers
	var b bytes.Buffer
	cp := *req.HttpRequest
	if err := cp.Write(&b); err == nil {
		wireHdr := map[string][]string{}
		for _, l := range strings.Split(b.String(), "\r\n")[1:] {
			if l == "" {
				break
			}
			if i := strings.Index(l, ":"); i > 0 {
				k := bfe_http.CanonicalHeaderKey(l[:i])
				wireHdr[k] = append(wireHdr[k], strings.TrimSpace(l[i+1:]))
			}
		}
		for k, v := range wantReq {
			if k == "Content-Length" || k == "User-Agent" {
				continue // written by the request writer itself
			}
			if fmt.Sprint(wireHdr[k]) != fmt.Sprint(v) {
				r.Violation(cmds+":wire-header-mismatch", fmt.Sprintf("header %s on the wire %q, want %q", k, wireHdr[k], v), c49Witness(c, map[string]interface{}{"wire": b.String()}))
				return
			}
		}
	}
	r.Count("header_ok", 1)
}

func c49CheckRedirect(r *vkit.Run, envs *c49Envs, c *c49Case) {
	req, err := c49BuildReq(c)
	if err != nil {
		r.Count("http_reader_refused", 1)
		return
	}
	a := c.Conf.Actions[0]
	var code int
	if r.Try(func() interface{} { return c }, func() {
		code, _ = envs.redirect.request(bfe_module.HandleFoundProduct, req)
	}) {
		return
	}
	key, _ := json.Marshal(c)
	r.Count("redirect_cases", 1)
	judged := true
	defer func() { r.CaseS(string(key), judged) }()
	if code != bfe_module.BfeHandlerRedirect {
		r.Violation(a.Cmd+":no-redirect", fmt.Sprintf("handler returned %d, want BfeHandlerRedirect", code), c49Witness(c, nil))
		return
	}
	if req.Redirect.Code != c.Conf.Status {
		r.Violation(a.Cmd+":status", fmt.Sprintf("redirect code %d, configured %d", req.Redirect.Code, c.Conf.Status), c49Witness(c, nil))
		return
	}
	got := req.Redirect.Url
	obs := map[string]interface{}{"location": got}
	origURI := c49Target(&c.Req)
	// sameURI: a and b denote the same path (after decoding) and the same raw query
	sameURI := func(a, b string) bool {
		ap, aq, bp, bq := a, "", b, ""
		aHas, bHas := false, false
		if i := strings.Index(a, "?"); i >= 0 {
			ap, aq, aHas = a[:i], a[i+1:], true
		}
		if i := strings.Index(b, "?"); i >= 0 {
			bp, bq, bHas = b[:i], b[i+1:], true
		}
		da, e1 := url.PathUnescape(ap)
		db, e2 := url.PathUnescape(bp)
		return e1 == nil && e2 == nil && da == db && aq == bq && (aHas == bHas || aq == "")
	}
	switch a.Cmd {
	case "URL_SET":
		if got != a.Params[0] {
			r.Violation("URL_SET:location", fmt.Sprintf("location %q, configured %q", got, a.Params[0]), c49Witness(c, obs))
			return
		}
	case "URL_FROM_QUERY":
		var vals []string
		for _, p := range c49ParseQuery(c.Req.Query) {
			if p.K == a.Params[0] {
				vals = append(vals, p.V)
			}
		}
		if len(vals) != 1 || vals[0] == "" {
			judged = false // key absent, empty or repeated: not decided by the docs
			r.Count("not_judged_doc_silent", 1)
			return
		}
		if got != vals[0] {
			r.Violation("URL_FROM_QUERY:location", fmt.Sprintf("location %q, query parameter %q is %q", got, a.Params[0], vals[0]), c49Witness(c, obs))
			return
		}
	case "URL_PREFIX_ADD":
		if !strings.HasPrefix(got, a.Params[0]) || !sameURI(got[len(a.Params[0]):], origURI) {
			r.Violation("URL_PREFIX_ADD:location", fmt.Sprintf("location %q, want prefix %q + original URL %q", got, a.Params[0], origURI), c49Witness(c, obs))
			return
		}
	case "SCHEME_SET":
		pre := a.Params[0] + "://" + c.Req.Host
		if !strings.HasPrefix(got, pre) || !sameURI(got[len(pre):], origURI) {
			r.Violation("SCHEME_SET:location", fmt.Sprintf("location %q, want %q + original URL %q", got, pre, origURI), c49Witness(c, obs))
			return
		}
	}
	r.Count("redirect_ok", 1)
}

func c49Check(r *vkit.Run, envs *c49Envs, c *c49Case) {
	switch c.Conf.Mod {
	case "rewrite":
		c49CheckRewrite(r, envs, c)
	case "header":
		c49CheckHeader(r, envs, c)
	case "redirect":
		c49CheckRedirect(r, envs, c)
	}
}

// ---- set-up ----------------------------------------------------------------------------

// c49Setup loads the three modules. Every documented command is first loaded
// alone through the module's reload handler; a rejection is a violation and
// the command is then exercised directly through action.Action.Do (rewrite).
func c49Setup(r *vkit.Run) (*c49Envs, []c49Conf) {
	root := filepath.Join(scratch(), "c49conf")
	rw, hd, rd := c49RewriteConfs(), c49HeaderConfs(), c49RedirectConfs()
	envs := &c49Envs{rewrite: newModEnv(), header: newModEnv(), redirect: newModEnv()}

	empty := []byte(`{"Version": "c49-empty", "Config": {}}`)
	writeFile(filepath.Join(root, "mod_rewrite", "mod_rewrite.conf"), []byte("[Basic]\nDataPath = mod_rewrite/rewrite.data\n"))
	writeFile(filepath.Join(root, "mod_rewrite", "rewrite.data"), empty)
	writeFile(filepath.Join(root, "mod_header", "mod_header.conf"), []byte("[Basic]\nDataPath = mod_header/header_rule.data\nDisableDefaultHeader = true\n"))
	writeFile(filepath.Join(root, "mod_header", "header_rule.data"), empty)
	writeFile(filepath.Join(root, "mod_redirect", "mod_redirect.conf"), []byte("[Basic]\nDataPath = mod_redirect/redirect.data\n"))
	writeFile(filepath.Join(root, "mod_redirect", "redirect.data"), empty)
	if err := mod_rewrite.NewModuleReWrite().Init(envs.rewrite.cbs, envs.rewrite.whs, root); err != nil {
		r.Inconclusive("mod_rewrite Init: " + err.Error())
		return nil, nil
	}
	if err := mod_header.NewModuleHeader().Init(envs.header.cbs, envs.header.whs, root); err != nil {
		r.Inconclusive("mod_header Init: " + err.Error())
		return nil, nil
	}
	if err := mod_redirect.NewModuleRedirect().Init(envs.redirect.cbs, envs.redirect.whs, root); err != nil {
		r.Inconclusive("mod_redirect Init: " + err.Error())
		return nil, nil
	}
	// 1. each command alone
	rejected := map[string]bool{}
	probe := func(mod string, env *modEnv, name string, cs []c49Conf, build func([]c49Conf) []byte) []c49Conf {
		seen := map[string]bool{}
		for i, c := range cs {
			for _, a := range c.Actions {
				if seen[a.Cmd] {
					continue
				}
				seen[a.Cmd] = true
				one := c49Conf{Mod: c.Mod, Product: "probe", Status: 301, Actions: []c49Action{a}}
				p := filepath.Join(root, name, fmt.Sprintf("probe-%s.data", a.Cmd))
				data := build([]c49Conf{one})
				writeFile(p, data)
				r.Count("commands_probed", 1)
				if err := env.reload(name, p); err != nil {
					rejected[mod+"/"+a.Cmd] = true
					r.Violation(a.Cmd+":rejected-by-loader", fmt.Sprintf("documented %s action %s with valid parameters %q is rejected by the rule loader: %v", name, a.Cmd, a.Params, err),
						map[string]interface{}{"module": name, "rule_file": string(data), "error": err.Error(), "conf_index": i})
				} else {
					r.Count("commands_accepted", 1)
				}
			}
		}
		var ok []c49Conf
		for _, c := range cs {
			rej := false
			for _, a := range c.Actions {
				rej = rej || rejected[mod+"/"+a.Cmd]
			}
			if rej {
				if mod == "rewrite" {
					c.Direct = true
				} else {
					continue
				}
			}
			ok = append(ok, c)
		}
		return ok
	}
	rw = probe("rewrite", envs.rewrite, "mod_rewrite", rw, c49RewriteFile)
	// adversarial family (c49adv.go): every configuration is first loaded alone,
	// so that a rejected parameter set is reported by itself
	for i, c := range c49AdvConfs(r) {
		rej := false
		for _, a := range c.Actions {
			rej = rej || rejected["rewrite/"+a.Cmd]
		}
		if rej {
			continue
		}
		one := c
		one.Product = "probe"
		p := filepath.Join(root, "mod_rewrite", fmt.Sprintf("probe-adv-%d.data", i))
		data := c49RewriteFile([]c49Conf{one})
		writeFile(p, data)
		if err := envs.rewrite.reload("mod_rewrite", p); err != nil {
			r.Violation(c49Cmds(&c)+":rejected-by-loader:adversarial-parameters", fmt.Sprintf("documented mod_rewrite action(s) %s with parameters %v rejected by the rule loader: %v", c49Cmds(&c), c.Actions, err),
				map[string]interface{}{"module": "mod_rewrite", "rule_file": string(data), "error": err.Error()})
			continue
		}
		r.Count("adv_confs_loaded", 1)
		rw = append(rw, c)
	}
	hd = probe("header", envs.header, "mod_header", hd, c49HeaderFile)
	rd = probe("redirect", envs.redirect, "mod_redirect", rd, c49RedirectFile)
	// 2. all accepted configurations together
	load := func(env *modEnv, name, file string, cs []c49Conf, build func([]c49Conf) []byte) bool {
		var in []c49Conf
		for _, c := range cs {
			if !c.Direct {
				in = append(in, c)
			}
		}
		p := filepath.Join(root, name, file)
		writeFile(p, build(in))
		if err := env.reload(name, p); err != nil {
			r.Violation("load-rejected-valid:"+name, "rule file made of individually accepted documented actions is rejected: "+err.Error(), string(build(in)))
			return false
		}
		return true
	}
	if !load(envs.rewrite, "mod_rewrite", "all.data", rw, c49RewriteFile) || !load(envs.header, "mod_header", "all.data", hd, c49HeaderFile) || !load(envs.redirect, "mod_redirect", "all.data", rd, c49RedirectFile) {
		return nil, nil
	}
	all := append(append(rw, hd...), rd...)
	return envs, all
}

func c49(r *vkit.Run) {
	r.SetRule("action configurations: 31 rewrite (every command of mod_rewrite.md with 1-6 parameter sets, 2 multi-action rules), 30 header (REQ/RSP_HEADER_SET/ADD/DEL with literal values and the documented variables client_ip, cip, client_port, request_host, log_id, session_id, cluster; the doc's own example), 10 redirect (URL_SET, URL_FROM_QUERY, URL_PREFIX_ADD, SCHEME_SET x status); each its own product, loaded through the real rule loaders (each command first alone). Requests: seeded, parsed by bfe_http.ReadRequest: origin-/absolute-form, 6 hosts (one with port), paths of 0-5 segments biased to the configured prefixes incl. %20 %2F %41, empty segments, trailing slash; queries of 0-6 parts over 9 keys (incl. 'a b', prefix pairs a/ab, case pair a/A) with keys literal / first byte percent-encoded / all bytes lower-hex / '+' or %20 for space, parts k=v, k, k=, empty, =v, k=v;x=y, k=p=q; request/response header sets with repeated and mixed-case names. Observed: Host/target of bfe_http.Request.Write output, header maps, req.Redirect. Non-trivial = judged case whose documented effect changes something; distinct = whole (configuration, request). Not judged (docs silent): HOST_SUFFIX_REPLACE on host:port, HOST_SET_FROM_PATH_PREFIX with empty first segment or a decoded first segment containing a control character / SP / DEL (not a host name), URL_FROM_QUERY with absent/empty/repeated key, PATH_PREFIX_ADD with prefixes not of the documented '/x/' shape (not generated), redirect response building in bfe_server. ADVERSARIAL REWRITE FAMILY (c49adv.go; own case stream): 52 further single-action configurations over all ten mod_rewrite.md actions (12 HOST_SUFFIX_REPLACE pairs incl. patterns with a border 'aa'/'a.a', replacement containing the pattern, identity, upper-case pattern; HOST_SET incl. IPv6 literal with port, trailing dot, upper case; PATH_SET incl. '//', dot segments, sub-delims, non-ASCII; PATH_PREFIX_ADD '/a/' '/a/a/' '/'; PATH_PREFIX_TRIM '/a' '/a/' '/a/a' '/aa' '/A' '/'...; QUERY_* over the key family a/aa/aaa/A) + 12 fixed chains (one action's output is the next one's input) + 16 seeded random sequences of 2-3 actions; each first loaded alone. The request is derived from the configured parameters, shapes round-robin so that each occurs for each configuration: Host ending with the pattern once / twice / twice adjacent / three times / equal to it / only in the middle / only at the start / overlapping ('aaa' for 'aa') / absent / other case / with port / trailing dot / IPv6 literal / already ending with the new suffix; path with the prefix once / twice / three times / equal / equal+'/' / not on a segment boundary / later only / behind '//' / other case / percent-encoded inside the prefix / encoded tail (%20 %2F) / dot segments / absent / root; HOST_SET_FROM_PATH_PREFIX paths with repeated, single, empty, port, IPv6, upper-case, encoded segments; queries with the configured key at start+middle+end, once, or only as part of longer keys (aa, xa, ax, A), literal or first byte percent-encoded, value containing 'k=1&k=2' encoded. Oracle as above (Host, decoded path, parsed query of the written request == model), signatures carry the shape. Model reads 'Replace suffix of host' as: host ends byte-for-byte with parameter 1 -> exactly that final occurrence becomes parameter 2, else unchanged (string suffix, no label-boundary requirement); 'Trim prefix from original path' as: removed once at the start, leading '/' kept, no other normalisation. Not judged in this family (docs silent), counted per reason: host with port; host ending with the pattern only case-insensitively or only modulo a trailing dot; percent-encoded octet inside/right behind the trimmed prefix region or in the first segment used as host; an encoded path read by a later action of a sequence; empty first segment. Not configured (raw-or-decoded meaning undecided): values needing escaping ('%', '?', '#', space), PATH_PREFIX_ADD prefixes not of the '/x/' shape. Inconclusive if a shape never occurred or a must-change shape was never judged with an effect." + c49RdRule)
	r.Assume("net/url QueryUnescape/PathUnescape (standard library) define the decoding of the outgoing query and path")
	r.Assume("condition default_t() is correct")

	envs, confs := c49Setup(r)
	if envs == nil {
		r.Evals(1)
		return
	}
	if r.Replay != "" {
		if c49RdReplay(r) { // redirect family (c49rd.go)
			return
		}
		var w struct {
			Case *c49Case `json:"case"`
		}
		if err := r.LoadReplay(&w); err != nil || w.Case == nil {
			// loader rejections have no request: the set-up above has re-run them
			r.SetMinDistinct(0)
			r.Evals(1)
			return
		}
		// the product must exist in the loaded file: map by configuration
		found := false
		for _, cf := range confs {
			a, _ := json.Marshal(cf.Actions)
			b, _ := json.Marshal(w.Case.Conf.Actions)
			if cf.Mod == w.Case.Conf.Mod && string(a) == string(b) && cf.Status == w.Case.Conf.Status {
				w.Case.Conf.Product, w.Case.Conf.Direct = cf.Product, cf.Direct
				found = true
			}
		}
		if !found && w.Case.Conf.Mod == "rewrite" {
			// a seeded action sequence of another seed: run the actions directly
			w.Case.Conf.Direct = true
		}
		c49Check(r, envs, w.Case)
		r.SetMinDistinct(0)
		return
	}
	// the adversarial configurations have their own generator (c49AdvRun); the
	// original family keeps its case stream
	all := confs
	confs = nil
	for _, cf := range all {
		if !cf.Adv {
			confs = append(confs, cf)
		}
	}
	per := r.N(280, 7000)
	total := len(confs) * per
	vkit.Parallel(total, 0, func(i int) {
		cf := confs[i%len(confs)]
		g := r.Rng("req", i)
		c := &c49Case{Conf: cf, Req: c49GenReq(g, &cf)}
		c49Check(r, envs, c)
		if i%3001 == 0 && r.WantSample() {
			r.Sample(c)
		}
	})
	c49AdvRun(r, envs, all)
	c49RdRun(r)
	for _, k := range []string{"rewrite_effective", "rewrite_noop_expected", "rewrite_ok", "header_effective", "header_ok", "redirect_ok", "commands_accepted"} {
		if r.Counter(k) == 0 {
			r.Inconclusive("outcome never reached: " + k)
		}
	}
}
