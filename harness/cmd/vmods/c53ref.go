package main

import (
	"fmt"
	"sort"
	"strings"
)

// Reference model for C53, written from the property statement and
// docs/en_us/modules/mod_prison/mod_prison.md (not from the module's code):
//
//   * Threshold: "Take action if exceeding threshold during specified
//     CheckPeriod"; StayPeriod: "Period of prison time if visits exceed the
//     limit"; the statement adds "(plus the rest of that period)".
//   * Per (rule, key) automaton:
//       Idle                       no period open
//       Counting(s, c)             period [s, s+P] opened by the first counted
//                                  request at s, c <= T requests counted
//       Jailed(rel)                denied until rel
//     request at instant t:
//       Jailed(rel):  t <  rel -> deny;  t >= rel -> Idle, then as below
//       Counting(s,c): t > s+P -> Idle, then as below (period over)
//                      else c+1 <= T -> allow, Counting(s,c+1)
//                           c+1 >  T -> deny,  Jailed(s+P+S)
//                                       (S after the rest of the period s+P-t)
//       Idle: T >= 1 -> allow, Counting(t,1);  T = 0 -> deny, Jailed(t+P+S)
//   * Interval semantics: request i takes effect at some instant in
//     [A_i-eps, B_i+eps] (monotonic stamps taken around the call; eps covers
//     wall-vs-monotonic clock slew). All parameters of a state are intervals,
//     the model tracks the SET of abstract states compatible with the verdicts
//     observed so far. A verdict is CHECKED only if every state of the set
//     yields the same verdict for every admissible instant; otherwise the
//     request is ambiguous (counted, not judged) and the set is pruned by the
//     observed verdict. Empty set <=> the observed verdict is impossible for
//     every admissible timing <=> violation.
//   * The instant of jailing is itself an interval (the jailing call is not
//     atomic), so the release bound is widened by the duration of that call;
//     a call that may outlast the jail it causes may also be admitted.
//   * Corner excluded because the doc is silent on fixed vs sliding periods:
//     an allow-obligation is not judged when the requests admitted since the
//     last denial that may lie within one CheckPeriod before the request,
//     plus the request itself, exceed T (a sliding reading would deny).

type c53Params struct {
	T   int   // threshold
	P   int64 // check period, ns
	S   int64 // stay period, ns
	Eps int64 // widening of every call interval, ns
}

// c53Ev is one observed call on one key.
type c53Ev struct {
	A    int64 `json:"call_ns"` // monotonic offset before the call
	B    int64 `json:"ret_ns"`  // monotonic offset after the call
	Deny bool  `json:"deny"`
}

const (
	c53Idle = iota
	c53Counting
	c53Jailed
)

// c53St is an abstract state (all time parameters are closed intervals, ns).
type c53St struct {
	Mode     int
	C        int   // requests counted in the open period
	Slo, Shi int64 // start of the period (Counting; Jailed: period that led to the jail)
	Jlo, Jhi int64 // instant of jailing
	Rlo, Rhi int64 // release instant
}

type c53Branch struct {
	Pre  c53St
	Kind string // idle | released | jailed | expired | inwindow | served-within-call
	Deny bool
	Succ c53St
}

func c53max(a, b int64) int64 {
	if a > b {
		return a
	}
	return b
}

func c53min(a, b int64) int64 {
	if a < b {
		return a
	}
	return b
}

// fresh: a request at an instant in [a,b] with no open period.
func (p c53Params) fresh(pre c53St, kind string, a, b, d int64) c53Branch {
	if p.T >= 1 {
		return c53Branch{Pre: pre, Kind: kind, Deny: false, Succ: c53St{Mode: c53Counting, C: 1, Slo: a, Shi: b}}
	}
	return c53Branch{Pre: pre, Kind: kind, Deny: true, Succ: c53St{Mode: c53Jailed, Slo: a, Shi: b, Jlo: a, Jhi: b,
		Rlo: a + p.P + p.S - d, Rhi: b + p.P + p.S + d}}
}

// branches lists every (verdict, successor) possible from st for a request in [a,b].
func (p c53Params) branches(st c53St, a, b int64) []c53Branch {
	d := b - a
	var out []c53Branch
	switch st.Mode {
	case c53Idle:
		out = append(out, p.fresh(st, "idle", a, b, d))
	case c53Jailed:
		if a < st.Rhi { // some instant t and release rel with t < rel
			n := st
			n.Rlo = c53max(st.Rlo, a)
			out = append(out, c53Branch{Pre: st, Kind: "jailed", Deny: true, Succ: n})
		}
		if b >= st.Rlo { // some instant t >= rel
			out = append(out, p.fresh(st, "released", c53max(a, st.Rlo), b, d))
		}
	case c53Counting:
		if b > st.Slo+p.P { // period may be over
			out = append(out, p.fresh(st, "expired", c53max(a, st.Slo+p.P), b, d))
		}
		if a <= st.Shi+p.P { // request may lie in the period
			slo := c53max(st.Slo, a-p.P)
			if st.C+1 <= p.T {
				out = append(out, c53Branch{Pre: st, Kind: "inwindow", Deny: false,
					Succ: c53St{Mode: c53Counting, C: st.C + 1, Slo: slo, Shi: st.Shi}})
			} else {
				out = append(out, c53Branch{Pre: st, Kind: "inwindow", Deny: true,
					Succ: c53St{Mode: c53Jailed, Slo: slo, Shi: st.Shi,
						Jlo: c53max(a, slo), Jhi: c53min(b, st.Shi+p.P),
						Rlo: slo + p.P + p.S - d, Rhi: st.Shi + p.P + p.S + d}})
			}
		}
	}
	// A call is not atomic: the request is counted at one instant of [a,b] and
	// its verdict is formed at a later one. If the call lasted so long that a
	// jail it has just caused may already be served when it returns, "admitted,
	// nothing pending" is admissible as well (only happens when the process
	// was stalled for more than a stay period inside the call).
	for _, br := range out {
		if br.Deny && br.Kind != "jailed" && br.Succ.Mode == c53Jailed && b >= br.Succ.Rlo {
			out = append(out, c53Branch{Pre: st, Kind: "served-within-call", Deny: false, Succ: c53St{Mode: c53Idle}})
			break
		}
	}
	return out
}

type c53Viol struct {
	Idx  int    `json:"event_index"`
	Sig  string `json:"sig"`
	What string `json:"what"`
}

// c53Res is the evaluation of one key history.
type c53Res struct {
	Class []string // per event: checked_allow | checked_deny | ambiguous | excluded_sliding | violation | unevaluated
	// per event flags (only meaningful for checked events)
	Released []bool // checked allow that every state explains only by a served jail
	Reset    []bool // checked allow that every state explains only by a new period although the stale count would exceed T
	Viol     *c53Viol
	Overflow bool
	SlidDeny bool // denied in the excluded sliding corner: evaluation stopped
}

const c53MaxStates = 256

func c53ms(ns int64) string { return fmt.Sprintf("%.3fms", float64(ns)/1e6) }

// classify names the shape of an impossible verdict.
func (p c53Params) classify(brs []c53Branch, ev c53Ev, a int64) (string, string) {
	set := map[string]bool{}
	var notes []string
	for _, br := range brs {
		var s string
		if ev.Deny { // reference: must be admitted
			switch br.Kind {
			case "released":
				s = "still-jailed-after-stay+period"
				notes = append(notes, fmt.Sprintf("jail had to end by %s", c53ms(br.Pre.Rhi)))
			case "expired":
				switch {
				case br.Pre.C+1 > p.T:
					s = "window-not-reset"
				case p.T == 1:
					s = "deny-at-threshold"
				default:
					s = "deny-below-threshold"
				}
				notes = append(notes, fmt.Sprintf("period opened in [%s,%s] with %d counted requests was over; this request opens a new one", c53ms(br.Pre.Slo), c53ms(br.Pre.Shi), br.Pre.C))
			case "inwindow":
				if br.Pre.C+1 == p.T {
					s = "deny-at-threshold"
				} else {
					s = "deny-below-threshold"
				}
				notes = append(notes, fmt.Sprintf("request no. %d of the period opened in [%s,%s], threshold %d", br.Pre.C+1, c53ms(br.Pre.Slo), c53ms(br.Pre.Shi), p.T))
			default:
				if p.T == 1 {
					s = "deny-at-threshold"
				} else {
					s = "deny-below-threshold"
				}
				notes = append(notes, "first request of a period")
			}
		} else { // reference: must be denied
			switch br.Kind {
			case "jailed":
				restSkipped := a >= br.Pre.Jhi+p.S
				staySkipped := a >= br.Pre.Shi+p.P
				switch {
				case restSkipped && staySkipped:
					s = "jail-released-early:stay-or-rest-not-served"
				case restSkipped:
					s = "jail-released-early:rest-of-period-not-served"
				case staySkipped:
					s = "jail-released-early:stay-period-not-served"
				default:
					s = "jail-released-early:before-period-end"
				}
				notes = append(notes, fmt.Sprintf("jailed at [%s,%s] in the period opened at [%s,%s]; release not before %s", c53ms(br.Pre.Jlo), c53ms(br.Pre.Jhi), c53ms(br.Pre.Slo), c53ms(br.Pre.Shi), c53ms(br.Pre.Rlo)))
			default:
				s = "admit-over-threshold"
				notes = append(notes, fmt.Sprintf("request no. %d of the period opened in [%s,%s], threshold %d", br.Pre.C+1, c53ms(br.Pre.Slo), c53ms(br.Pre.Shi), p.T))
			}
		}
		set[s] = true
	}
	var sigs []string
	for s := range set {
		sigs = append(sigs, s)
	}
	sort.Strings(sigs)
	if len(notes) > 3 {
		notes = notes[:3]
	}
	return strings.Join(sigs, "+"), strings.Join(notes, "; ")
}

// c53Eval runs the state-set reference over one key history starting from init.
func c53Eval(p c53Params, init []c53St, evs []c53Ev) *c53Res {
	res := &c53Res{Class: make([]string, len(evs)), Released: make([]bool, len(evs)), Reset: make([]bool, len(evs))}
	states := append([]c53St{}, init...)
	var admitted []int64 // widened ret stamps of requests admitted since the last denial
	stop := func(from int) {
		for k := from; k < len(evs); k++ {
			res.Class[k] = "unevaluated"
		}
	}
	for i, ev := range evs {
		a, b := ev.A-p.Eps, ev.B+p.Eps
		var brs []c53Branch
		for _, st := range states {
			brs = append(brs, p.branches(st, a, b)...)
		}
		var canAllow, canDeny bool
		for _, br := range brs {
			if br.Deny {
				canDeny = true
			} else {
				canAllow = true
			}
		}
		// sliding-period corner (doc silent): only relevant for allow-obligations
		if canAllow && !canDeny {
			n := 1
			for _, rb := range admitted {
				if a-rb <= p.P {
					n++
				}
			}
			if n > p.T {
				res.Class[i] = "excluded_sliding"
				if ev.Deny {
					res.SlidDeny = true
					stop(i + 1)
					return res
				}
			}
		}
		switch {
		case res.Class[i] == "excluded_sliding":
		case canAllow && canDeny:
			res.Class[i] = "ambiguous"
		case canAllow != !ev.Deny || canDeny != ev.Deny:
			sig, note := p.classify(brs, ev, a)
			want := "allow"
			if canDeny {
				want = "deny"
			}
			got := "allowed"
			if ev.Deny {
				got = "denied"
			}
			res.Class[i] = "violation"
			res.Viol = &c53Viol{Idx: i, Sig: sig, What: fmt.Sprintf("request %d at [%s,%s] was %s; every admissible timing requires %s: %s (threshold %d, checkPeriod %s, stayPeriod %s)",
				i, c53ms(ev.A), c53ms(ev.B), got, want, note, p.T, c53ms(p.P), c53ms(p.S))}
			stop(i + 1)
			return res
		case ev.Deny:
			res.Class[i] = "checked_deny"
		default:
			res.Class[i] = "checked_allow"
			rel, reset := true, true
			for _, br := range brs {
				if br.Kind != "released" {
					rel = false
				}
				if !(br.Kind == "expired" && br.Pre.C+1 > p.T) {
					reset = false
				}
			}
			res.Released[i], res.Reset[i] = rel, reset
		}
		// prune by the observed verdict
		seen := map[c53St]bool{}
		states = states[:0]
		for _, br := range brs {
			if br.Deny == ev.Deny && !seen[br.Succ] {
				seen[br.Succ] = true
				states = append(states, br.Succ)
			}
		}
		if ev.Deny {
			admitted = admitted[:0]
		} else {
			admitted = append(admitted, b)
		}
		if len(states) > c53MaxStates {
			res.Overflow = true
			stop(i + 1)
			return res
		}
	}
	return res
}
