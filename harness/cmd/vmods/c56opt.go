package main

import (
	"encoding/base64"
	"encoding/hex"
	"fmt"
	"net"
	"strings"

	"github.com/miekg/dns"

	"verifharness/vkit"
)

// C56 CLIENT-OPT-SPACE family.
//
// The base workload sends at most ONE client-subnet option in the client's
// OPT RR.  This family walks the space of client OPT RRs: no OPT at all, an
// OPT without options, and every arrangement of 0-3 client-subnet options
// ("E") among 0-3 other options ("o": cookie, padding, NSID, DAU, unknown
// codes) - 69 arrangements - for GET and POST and six client-address kinds
// (incl. the trusted ClientAddr path), with the OPT RR first / in the middle
// / last / alone in the additional section and with unusual OPT header fields
// (UDP size, DO, version, extended rcode, Z bits) the codec accepts.
//
// All options are written as raw (code, data) pairs (dns.EDNS0_LOCAL is used
// as a raw carrier by the generator), so the client-subnet options can carry
// any family / prefix / scope / address bytes, including ones the codec
// refuses (then the reference, which asks the codec, expects a rejection).
//
// One case in eight carries a SECOND OPT RR (shape class two-opt-rrs): RFC 6891
// 6.1.1 makes that a format error, so the reference expects a rejection.
//
// Oracle = c56Judge (c56.go): every client-subnet option of the forwarded
// message must be the genuine one for the real client; a non-genuine option
// that is byte-identical to one the client sent is reported as
// ecs:client-supplied-option-survives:<shape class>.

const c56FamOpt = "client-opt-space"

type c56RawOpt struct {
	code uint16
	data []byte
}

var c56OptPatterns = func() []string {
	out := []string{"none"} // no OPT RR at all; "" = OPT RR without options
	var rec func(s string, e, o int)
	rec = func(s string, e, o int) {
		out = append(out, s)
		if e < 3 {
			rec(s+"E", e+1, o)
		}
		if o < 3 {
			rec(s+"o", e, o+1)
		}
	}
	rec("", 0, 0)
	return out
}()

// c56PatternClass is the shape class used in signatures.
func c56PatternClass(p string) string {
	if p == "none" {
		return "no-opt"
	}
	k := strings.Count(p, "E")
	if k < 2 {
		return fmt.Sprintf("%decs", k)
	}
	first, last := strings.Index(p, "E"), strings.LastIndex(p, "E")
	switch {
	case last-first+1 == k:
		return fmt.Sprintf("%decs-adjacent", k)
	case !strings.Contains(p, "EE"):
		return fmt.Sprintf("%decs-separated", k)
	}
	return fmt.Sprintf("%decs-mixed", k)
}

var c56OptClasses = []string{"no-opt", "0ecs", "1ecs", "2ecs-adjacent", "2ecs-separated", "3ecs-adjacent", "3ecs-separated", "3ecs-mixed"}

var c56ClientKinds = []string{"remote-v4", "remote-v4-4byte", "remote-v6", "remote-v6+client-v4", "remote-v4+client-v6", "remote-v4+client-v4"}

var c56SpoofKinds = []string{"v4-24", "v4-32", "v4-0", "v6-56", "v6-128", "v6-0", "family-0", "genuine-equal", "genuine-shorter-prefix", "genuine-scope-nonzero", "other-family", "untrusted-remote", "bad-family-3", "bad-short", "bad-prefix-too-long"}

func c56IPFam(g *vkit.Rand, v6 bool) (string, bool) {
	if v6 {
		if g.Chance(1, 4) {
			return g.PickS([]string{"::1", "2001:db8::1", "fe80::1", "ffff:ffff:ffff:ffff:ffff:ffff:ffff:ffff", "64:ff9b::102:304"}), false
		}
		b := g.Bytes(16)
		b[0] = 0x20 | b[0]&0x0f
		return net.IP(b).String(), false
	}
	if g.Chance(1, 5) {
		return g.PickS([]string{"127.0.0.1", "0.0.0.0", "255.255.255.255", "10.0.0.1", "::ffff:192.0.2.7"}), false
	}
	return net.IP(g.Bytes(4)).String(), g.Bool()
}

func c56ECSData(family uint16, prefix, scope uint8, addr []byte) []byte {
	return append([]byte{byte(family >> 8), byte(family), prefix, scope}, addr...)
}

func c56MaskedAddr(ip net.IP, prefix int) (uint16, []byte) {
	if v4 := ip.To4(); v4 != nil {
		return 1, []byte(v4.Mask(net.CIDRMask(prefix, 32)))[:(prefix+7)/8]
	}
	return 2, []byte(ip.To16().Mask(net.CIDRMask(prefix, 128)))[:(prefix+7)/8]
}

// c56SpoofECS returns the raw data of a client-supplied client-subnet option.
func c56SpoofECS(g *vkit.Rand, kind string, c *c56Case) []byte {
	cip := c56ClientIP(c)
	full := 128
	if cip.To4() != nil {
		full = 32
	}
	switch kind {
	case "v4-24":
		return c56ECSData(1, 24, 0, g.Bytes(3))
	case "v4-32":
		return c56ECSData(1, 32, 0, g.Bytes(4))
	case "v4-0":
		return c56ECSData(1, 0, 0, nil)
	case "v6-56":
		return c56ECSData(2, 56, 0, append([]byte{0x20}, g.Bytes(6)...))
	case "v6-128":
		return c56ECSData(2, 128, 0, append([]byte{0x20}, g.Bytes(15)...))
	case "v6-0":
		return c56ECSData(2, 0, 0, nil)
	case "family-0":
		return c56ECSData(0, 0, 0, nil)
	case "genuine-equal":
		f, a := c56MaskedAddr(cip, full)
		return c56ECSData(f, uint8(full), 0, a)
	case "genuine-shorter-prefix":
		p := g.Range(1, full-1)
		f, a := c56MaskedAddr(cip, p)
		return c56ECSData(f, uint8(p), 0, a)
	case "genuine-scope-nonzero":
		f, a := c56MaskedAddr(cip, full)
		return c56ECSData(f, uint8(full), uint8(g.Range(1, full)), a)
	case "other-family":
		if full == 32 {
			return c56ECSData(2, 128, 0, append([]byte{0x20}, g.Bytes(15)...))
		}
		return c56ECSData(1, 32, 0, g.Bytes(4))
	case "untrusted-remote":
		// the address of the TCP peer; differs from the genuine value when a trusted ClientAddr is set
		rip := net.ParseIP(c.Remote)
		rfull := 128
		if rip.To4() != nil {
			rfull = 32
		}
		f, a := c56MaskedAddr(rip, rfull)
		return c56ECSData(f, uint8(rfull), 0, a)
	case "bad-family-3":
		return c56ECSData(3, 8, 0, g.Bytes(1))
	case "bad-short":
		return g.Bytes(g.Intn(4))
	case "bad-prefix-too-long":
		return c56ECSData(1, uint8(g.Range(33, 255)), 0, g.Bytes(4))
	}
	panic("c56SpoofECS: " + kind)
}

func c56OtherOpt(g *vkit.Rand) (string, c56RawOpt) {
	switch g.Intn(6) {
	case 0:
		n := 8
		if g.Bool() {
			n = g.Range(16, 40)
		}
		return "cookie", c56RawOpt{dns.EDNS0COOKIE, g.Bytes(n)}
	case 1:
		return "padding", c56RawOpt{dns.EDNS0PADDING, make([]byte, g.Range(0, 40))}
	case 2:
		return "nsid", c56RawOpt{dns.EDNS0NSID, g.Bytes(g.Range(0, 6))}
	case 3:
		return "dau", c56RawOpt{dns.EDNS0DAU, g.Bytes(g.Range(1, 4))}
	default:
		code := []uint16{65001, 65534, 4, 13, 17, 26946, 65535}[g.Intn(7)]
		return "unknown", c56RawOpt{code, g.Bytes(g.Range(0, 12))}
	}
}

// c56OptGen builds case i of the family: (pattern, method, client kind) are
// enumerated, everything else is seeded.
func c56OptGen(r *vkit.Run, i int) *c56Case {
	g := r.Rng("optspace", i)
	np := len(c56OptPatterns)
	pat := c56OptPatterns[i%np]
	post := (i/np)%2 == 1
	ck := (i / np / 2) % len(c56ClientKinds)
	c := &c56Case{Family: c56FamOpt, Pattern: pat, ClientKind: c56ClientKinds[ck]}
	switch ck {
	case 0:
		c.Remote, _ = c56IPFam(g, false)
	case 1:
		c.Remote, _ = c56IPFam(g, false)
		c.Remote4 = true
	case 2:
		c.Remote, _ = c56IPFam(g, true)
	case 3:
		c.Remote, _ = c56IPFam(g, true)
		c.Client, c.Client4 = c56IPFam(g, false)
	case 4:
		c.Remote, c.Remote4 = c56IPFam(g, false)
		c.Client, _ = c56IPFam(g, true)
	default:
		c.Remote, c.Remote4 = c56IPFam(g, false)
		c.Client, c.Client4 = c56IPFam(g, false)
	}
	c.Shape = c56FamOpt + ":" + c56PatternClass(pat)

	twoOpt := false
	m := c56Msg(g, 0, false)
	if g.Chance(1, 4) {
		m.Answer = append(m.Answer, c56RR(g))
	}
	nx := g.Intn(4)
	for k := 0; k < nx; k++ {
		m.Extra = append(m.Extra, c56RR(g))
	}
	if pat != "none" {
		o := new(dns.OPT)
		o.Hdr.Name = "."
		o.Hdr.Rrtype = dns.TypeOPT
		o.SetUDPSize([]uint16{0, 512, 1232, 4096, 65535}[g.Intn(5)])
		var hdr []string
		if g.Bool() {
			o.SetDo()
			hdr = append(hdr, "do")
		}
		if g.Chance(1, 8) {
			o.SetVersion(uint8(g.Range(1, 255)))
			hdr = append(hdr, "version")
		}
		if g.Chance(1, 8) {
			o.Hdr.Ttl |= uint32(g.Range(1, 0x7fff)) // Z bits
			hdr = append(hdr, "z-bits")
		}
		if g.Chance(1, 8) {
			m.Rcode = g.Range(1, 0xff)<<4 | g.Intn(16) // extended rcode lives in the OPT TTL
			hdr = append(hdr, "ext-rcode")
		}
		var kinds []string
		bad := false
		for _, ch := range pat {
			if ch == 'E' {
				kind := c56SpoofKinds[g.Intn(len(c56SpoofKinds))]
				if strings.HasPrefix(kind, "bad-") && (bad || !g.Chance(1, 2)) {
					kind = c56SpoofKinds[g.Intn(6)]
				}
				bad = bad || strings.HasPrefix(kind, "bad-")
				kinds = append(kinds, kind)
				o.Option = append(o.Option, &dns.EDNS0_LOCAL{Code: dns.EDNS0SUBNET, Data: c56SpoofECS(g, kind, c)})
			} else {
				name, ro := c56OtherOpt(g)
				kinds = append(kinds, name)
				o.Option = append(o.Option, &dns.EDNS0_LOCAL{Code: ro.code, Data: ro.data})
			}
		}
		c.Options = kinds
		pos := g.Intn(nx + 1)
		switch {
		case nx == 0:
			c.OptPos = "only"
		case pos == 0:
			c.OptPos = "first"
		case pos == nx:
			c.OptPos = "last"
		default:
			c.OptPos = "middle"
		}
		c.OptHdr = strings.Join(hdr, "+")
		ex := append([]dns.RR{}, m.Extra[:pos]...)
		ex = append(ex, o)
		m.Extra = append(ex, m.Extra[pos:]...)
		// a second OPT RR (before or behind the first, with or without a
		// client-subnet option of its own): RFC 6891 6.1.1 makes such a query a
		// format error, and an OPT RR that bfe does not rewrite would carry its
		// client-supplied subnet option to the resolver untouched
		if g2 := r.Rng("optspace-two-opt", i); g2.Chance(1, 8) {
			o2 := new(dns.OPT)
			o2.Hdr.Name = "."
			o2.Hdr.Rrtype = dns.TypeOPT
			o2.SetUDPSize(uint16(g2.Range(512, 4096)))
			if g2.Chance(3, 4) {
				kind := c56SpoofKinds[g2.Intn(6)]
				o2.Option = append(o2.Option, &dns.EDNS0_LOCAL{Code: dns.EDNS0SUBNET, Data: c56SpoofECS(g2, kind, c)})
			}
			p2 := g2.Intn(len(m.Extra) + 1)
			ex2 := append([]dns.RR{}, m.Extra[:p2]...)
			ex2 = append(ex2, o2)
			m.Extra = append(ex2, m.Extra[p2:]...)
			twoOpt = true
			c.Shape = c56FamOpt + ":two-opt-rrs"
		}
	}
	wire, err := m.Pack()
	if err != nil {
		panic("c56OptGen pack: " + err.Error())
	}
	// reference decision: the codec decides whether the message is well-formed
	var ref dns.Msg
	if uerr := ref.Unpack(wire); uerr != nil {
		c.wantErr, c.why = true, "codec cannot unpack the message: "+uerr.Error()
	} else if twoOpt {
		c.wantErr, c.why = true, "the message carries two OPT RRs (RFC 6891 6.1.1: format error)"
	} else {
		c.wantWire = wire
	}
	if post {
		c.Method, c.Target = "POST", "/dns-query"
		c.BodyHex = hex.EncodeToString(wire)
		c.Chunked = g.Chance(1, 5)
	} else {
		c.Method = "GET"
		c.Target = "/dns-query?dns=" + base64.RawURLEncoding.EncodeToString(wire)
	}
	c.MsgHex = hex.EncodeToString(wire)
	return c
}

// c56OptSpace runs the family: every case through RequestToDnsMsg, every
// 12th case also through the module handler with the capturing upstream.
func c56OptSpace(r *vkit.Run, env *modEnv, up *c56Upstream) {
	per := len(c56OptPatterns) * 2 * len(c56ClientKinds) // one full enumeration
	n := per * r.N(2, 40)
	cases := make([]*c56Case, n)
	vkit.Parallel(n, 0, func(i int) {
		c := c56OptGen(r, i)
		cases[i] = c
		c56Direct(r, c)
	})
	patSeen := map[string]int{}
	for i, c := range cases {
		r.Count("optspace_cases", 1)
		patSeen[c.Pattern]++
		r.Count("optspace_class:"+strings.TrimPrefix(c.Shape, c56FamOpt+":"), 1)
		r.Count("optspace_client:"+c.ClientKind, 1)
		r.Count("optspace_method:"+c.Method, 1)
		if c.OptPos != "" {
			r.Count("optspace_optpos:"+c.OptPos, 1)
		}
		for _, h := range strings.Split(c.OptHdr, "+") {
			if h != "" {
				r.Count("optspace_opthdr:"+h, 1)
			}
		}
		for _, k := range c.Options {
			r.Count("optspace_option:"+k, 1)
		}
		if c.wantErr {
			r.Count("optspace_expect_reject", 1)
		} else {
			r.Count("optspace_expect_accept", 1)
			if strings.Count(c.Pattern, "E") >= 2 {
				r.Count("optspace_multi_ecs_accepted", 1)
			}
		}
		if i%12 == 5 {
			cc := *c
			cc.ViaMod = true
			c56ViaModule(r, env, up, &cc)
			r.Count("optspace_via_module", 1)
		}
	}
	// required shapes
	var need []string
	r.Count("optspace_patterns_distinct", int64(len(patSeen)))
	for _, p := range c56OptPatterns {
		if patSeen[p] == 0 {
			r.Inconclusive("client-opt-space arrangement never occurred: " + p)
		}
	}
	for _, k := range c56OptClasses {
		need = append(need, "optspace_class:"+k)
	}
	for _, k := range c56ClientKinds {
		need = append(need, "optspace_client:"+k)
	}
	for _, k := range c56SpoofKinds {
		need = append(need, "optspace_option:"+k)
	}
	need = append(need, "optspace_option:cookie", "optspace_option:padding", "optspace_option:nsid", "optspace_option:dau", "optspace_option:unknown",
		"optspace_method:GET", "optspace_method:POST", "optspace_optpos:only", "optspace_optpos:first", "optspace_optpos:middle", "optspace_optpos:last",
		"optspace_opthdr:do", "optspace_opthdr:version", "optspace_opthdr:z-bits", "optspace_opthdr:ext-rcode",
		"optspace_class:two-opt-rrs", "optspace_expect_reject", "optspace_multi_ecs_accepted", "optspace_via_module", "client_supplied_ecs_judged")
	for _, k := range need {
		if r.Counter(k) == 0 {
			r.Inconclusive("client-opt-space shape never occurred: " + k)
		}
	}
}
