package main

import (
	"fmt"
	"net/url"
	"sort"
	"strconv"
	"strings"
	"sync"

	"github.com/bfenetworks/bfe/bfe_module"

	"verifharness/vkit"
)

// C51, credential-ambiguity family: requests that present a credential (or a
// part of one) MORE THAN ONCE, or in competing places, with different values.
//
// A check that validates "the" value of an argument is only sound if every use
// of that argument reads the same occurrence. The family therefore repeats
// every argument a module reads and judges the outcome against a reference
// that uses ONE value per argument for everything.
//
//   securelink: links (valid, valid-but-expired, invalid) with a repeated
//               expires / checksum / signed query argument, appended or
//               prepended, forged value future|past|empty|same|other, the
//               repeated name plain, mixed-case, percent-encoded or without
//               '=', joined with '&' or ';'.
//   basic, jwt: several Authorization lines (valid/invalid in either order,
//               other name case), several credentials in one line, a
//               credential in a place the module does not document (cookie,
//               query, Proxy-Authorization, X- header), duplicated cookies.
//
// mod_block has no credentials and is not part of the family.

// ---- accounting ------------------------------------------------------------------

var (
	c51AmbMu      sync.Mutex
	c51AmbSamples = map[string][]interface{}{}
	c51AmbRan     = map[string]bool{}
)

// c51AmbSample keeps up to 4 literal cases per module (distinct shapes first) for the
// evidence file (coverage.ambiguity_samples; the general sample list is full by then).
func c51AmbSample(mod string, shape string, v map[string]interface{}, reserved bool) {
	c51AmbMu.Lock()
	defer c51AmbMu.Unlock()
	if max := map[bool]int{false: 4, true: 6}[reserved]; len(c51AmbSamples[mod]) >= max {
		return
	}
	for _, s := range c51AmbSamples[mod] {
		if s.(map[string]interface{})["class"] == v["class"] {
			return
		}
	}
	v["shape"] = shape
	c51AmbSamples[mod] = append(c51AmbSamples[mod], v)
}

// c51AmbMust lists the counters of the family that every run must reach.
func c51AmbMust() []string {
	var m []string
	for _, b := range []string{"valid", "expired", "invalid"} {
		for _, o := range []string{"dup-expires", "dup-checksum", "dup-node", "dup-expires+resigned-checksum"} {
			m = append(m, "amb_securelink_"+b+"+"+o)
		}
	}
	for _, x := range []string{"pos_appended", "pos_prepended", "pos_crossed", "name_plain", "name_mixed-case", "name_pct-encoded", "name_no-equals",
		"sep_amp", "sep_semicolon", "value_future", "value_past", "value_empty", "value_same", "value_other",
		"attack_expired+dup-expires-appended-future", "attack_expired+dup-expires-prepended-future",
		"expect_admit", "expect_reject", "admitted", "rejected", "some_consistent_reading", "no_consistent_reading"} {
		m = append(m, "amb_securelink_"+x)
	}
	for _, mod := range []string{"basic", "jwt"} {
		for _, c := range c51AuthAmbClasses {
			m = append(m, "amb_"+mod+"_"+c)
		}
		for _, x := range []string{"name_case", "expect_admit", "expect_reject", "not_judged", "admitted", "rejected", "all_presented_invalid", "some_presented_valid"} {
			m = append(m, "amb_"+mod+"_"+x)
		}
	}
	return m
}

// c51AmbFinish writes the samples and makes the run inconclusive when a shape
// class of the family never occurred.
func c51AmbFinish(r *vkit.Run) {
	c51AmbMu.Lock()
	r.Extra("ambiguity_samples", c51AmbSamples)
	ran := len(c51AmbRan)
	c51AmbMu.Unlock()
	if ran == 0 {
		r.Inconclusive("credential-ambiguity family did not run")
		return
	}
	var missing []string
	for _, c := range c51AmbMust() {
		if r.Counter(c) == 0 {
			missing = append(missing, c)
		}
	}
	sort.Strings(missing)
	if len(missing) > 0 {
		r.Inconclusive("credential-ambiguity shape classes never reached: " + strings.Join(missing, ","))
	}
}

func c51AmbMark(mod string) {
	c51AmbMu.Lock()
	c51AmbRan[mod] = true
	c51AmbMu.Unlock()
}

// =====================================================================================
// mod_secure_link
// =====================================================================================

// c51SlAmbRules are the rules the family runs against: the documented setup
// (the expires argument is itself a signed query node), with one or two more
// signed query arguments, and one rule whose expression does not cover the
// expiry at all (a legal configuration: there the expiry is unsigned by choice).
// No uri node: it would sign the whole query string including the repetition.
func c51SlAmbRules(cfgSeed uint64) []c51SlRule {
	g := vkit.NewRand(cfgSeed ^ 0xA3B1C2D3E4F50617)
	var out []c51SlRule
	for i := 0; i < 3; i++ {
		ru := c51SlRule{Host: fmt.Sprintf("a%d.example.org", i)}
		ru.ChecksumKey = g.PickS([]string{"sign", "md5", "s", "token"})
		ru.ExpiresKey = g.PickS([]string{"time", "e", "expires"})
		nodes := []c51SlNode{{Type: "query", Param: "file"}, {Type: "label", Param: g.PickS([]string{" secret", "k-" + c51Str(g, c51Alnum, 4, 12)})}}
		if i != 2 {
			nodes = append(nodes, c51SlNode{Type: "query", Param: ru.ExpiresKey})
		}
		if i == 1 || g.Bool() {
			nodes = append(nodes, c51SlNode{Type: "query", Param: "u"})
		}
		if g.Bool() {
			nodes = append(nodes, c51SlNode{Type: "host"})
		}
		if g.Bool() {
			nodes = append(nodes, c51SlNode{Type: "header", Param: "X-Link-User"})
		}
		if i == 2 {
			nodes = append(nodes, c51SlNode{Type: "remote_addr"})
		}
		p := g.Perm(len(nodes))
		sh := make([]c51SlNode, len(nodes))
		for a, b := range p {
			sh[a] = nodes[b]
		}
		ru.Nodes = sh
		out = append(out, ru)
	}
	return out
}

// ---- reference: the query string as req.URL.Query() delivers it ------------------------
//
// The documentation defines a query node as req.URL.Query($Param) and the
// checksum / expires keys as "the key which stored ... in Query": Go's
// url.Values, read with Get = the FIRST value of an exactly (case-sensitively)
// named, percent-decoded key. Reader written here from the net/url
// documentation (Go >= 1.17): pairs are separated by '&' only, a pair
// containing ';' or a malformed escape is dropped, a pair without '=' has the
// empty value, '+' is a space.

func c51RefUnescape(s string) (string, bool) {
	var sb strings.Builder
	for i := 0; i < len(s); i++ {
		switch ch := s[i]; ch {
		case '+':
			sb.WriteByte(' ')
		case '%':
			if i+2 >= len(s) {
				return "", false
			}
			v, err := strconv.ParseUint(s[i+1:i+3], 16, 8)
			if err != nil || strings.ContainsAny(s[i+1:i+3], "+-") {
				return "", false
			}
			sb.WriteByte(byte(v))
			i += 2
		default:
			sb.WriteByte(ch)
		}
	}
	return sb.String(), true
}

func c51RefQuery(raw string) []c51KV {
	var out []c51KV
	for _, piece := range strings.Split(raw, "&") {
		if piece == "" || strings.Contains(piece, ";") {
			continue
		}
		k, v := piece, ""
		if i := strings.IndexByte(piece, '='); i >= 0 {
			k, v = piece[:i], piece[i+1:]
		}
		dk, ok1 := c51RefUnescape(k)
		dv, ok2 := c51RefUnescape(v)
		if !ok1 || !ok2 {
			continue
		}
		out = append(out, c51KV{dk, dv})
	}
	return out
}

// c51RefQuerySelfCheck compares the reader above with net/url of the toolchain
// the harness (and bfe) is built with, on the constructs the family uses.
func c51RefQuerySelfCheck() error {
	for _, raw := range []string{"a=1&a=2", "a=1;a=2&b=3", "a=1&b=2;c=3&a=4", "e%78=1&E=2&e&ex=3", "x=%zz&y=1&%4=2", "a=b+c&a+=d", "&&a==&=b", "a&a=&a=1"} {
		want, _ := url.ParseQuery(raw)
		got := map[string][]string{}
		for _, kv := range c51RefQuery(raw) {
			got[kv.k] = append(got[kv.k], kv.v)
		}
		if fmt.Sprint(got) != fmt.Sprint(map[string][]string(want)) {
			return fmt.Errorf("query %q: reference reader %v, net/url %v", raw, got, want)
		}
	}
	return nil
}

// ---- case ------------------------------------------------------------------------------------

type c51SlaCase struct {
	Rule     int
	Host     string
	Path     string
	User     *string
	Remote   string
	RawQuery string
	Target   string
	Base     string // valid | expired | invalid
	Op       string // dup-expires | dup-checksum | dup-node | dup-expires+resigned-checksum
	Pos      string // appended | prepended | crossed
	Value    string // future | past | empty | same | other
	Name     string // plain | mixed-case | pct-encoded | no-equals
	Sep      string // amp | semicolon
	Class    string
	Shape    string
	Signed   string // the expiry value the presented (base) checksum was computed over
}

// c51MixCase changes the case of the first letter of an argument name (expires -> Expires).
func c51MixCase(s string) string {
	b := []byte(s)
	for i := range b {
		if b[i] >= 'a' && b[i] <= 'z' {
			b[i] -= 32
			break
		}
	}
	return string(b)
}

// c51PctName percent-encodes one letter of an argument name (expires -> e%78pires).
func c51PctName(g *vkit.Rand, s string) string {
	i := g.Intn(len(s))
	return fmt.Sprintf("%s%%%02X", s[:i], s[i]) + s[i+1:]
}

// c51SlSumVals is the documented checksum with the query nodes read from vals.
func c51SlSumVals(nodes []c51SlNode, c *c51SlCase, vals map[string]string) string {
	q := c.Query
	c.Query = nil
	for k, v := range vals {
		c.Query = append(c.Query, c51KV{k, v})
	}
	s := c51SlSum(nodes, c)
	c.Query = q
	return s
}

func c51SlAmbGen(sc *c51SlSc, g *vkit.Rand, now int64) *c51SlaCase {
	c := &c51SlaCase{}
	c.Rule = g.Intn(len(sc.Amb))
	ru := &sc.Amb[c.Rule]
	c.Host = ru.Host
	c.Path = g.PickS([]string{"/s/link", "/dl/" + c51Str(g, c51Alnum, 1, 8) + ".bin", "/"})
	c.Remote = c51SlRemote(g)
	if g.Chance(3, 4) {
		u := g.PickS([]string{"alice", "bob", "u-" + c51Str(g, c51Alnum, 1, 6)})
		c.User = &u
	}
	// the holder of the secret signs one value per argument
	var signedParams []string // signed query arguments other than the expiry
	for _, n := range ru.Nodes {
		if n.Type == "query" && n.Param != ru.ExpiresKey {
			signedParams = append(signedParams, n.Param)
		}
	}
	vals := map[string]string{}
	for _, p := range signedParams {
		vals[p] = g.PickS([]string{"a.bin", "b c.txt", "x/y&z=1", c51Str(g, c51Alnum, 1, 10)})
	}
	c.Base = []string{"expired", "valid", "invalid"}[c51Pick(g, []int{40, 35, 25})]
	e0 := now + c51Far(g)
	if c.Base == "expired" {
		e0 = now - c51Far(g)
	}
	vals[ru.ExpiresKey] = strconv.FormatInt(e0, 10)
	c.Signed = vals[ru.ExpiresKey]
	ref := &c51SlCase{Host: c.Host, User: c.User, Remote: c.Remote} // carries the non-query node values
	sum := c51SlSumVals(ru.Nodes, ref, vals)
	if c.Base == "invalid" {
		switch g.Intn(3) {
		case 0:
			sum = c51Str(g, c51Alnum+"-_", 22, 22)
		case 1:
			b := []byte(sum)
			if b[3] == 'A' {
				b[3] = 'B'
			} else {
				b[3] = 'A'
			}
			sum = string(b)
		default:
			nodes := append([]c51SlNode{}, ru.Nodes...)
			for i := range nodes {
				if nodes[i].Type == "label" {
					nodes[i].Param += "x"
				}
			}
			sum = c51SlSumVals(nodes, ref, vals)
		}
	}
	var base []string
	keys := append(append([]string{}, signedParams...), ru.ExpiresKey)
	for _, i := range g.Perm(len(keys)) {
		base = append(base, c51QEsc(keys[i])+"="+c51QEsc(vals[keys[i]]))
	}
	at := g.Intn(len(base) + 1)
	base = append(base[:at], append([]string{c51QEsc(ru.ChecksumKey) + "=" + sum}, base[at:]...)...)

	// the repetition
	c.Op = []string{"dup-expires", "dup-checksum", "dup-node", "dup-expires+resigned-checksum"}[c51Pick(g, []int{45, 20, 20, 15})]
	c.Value = []string{"future", "past", "empty", "same", "other"}[c51Pick(g, []int{40, 20, 12, 12, 16})]
	otherTime := func() string {
		switch c.Value {
		case "future":
			for {
				if v := strconv.FormatInt(now+c51Far(g), 10); v != vals[ru.ExpiresKey] {
					return v
				}
			}
		case "past":
			for {
				if v := strconv.FormatInt(now-c51Far(g), 10); v != vals[ru.ExpiresKey] {
					return v
				}
			}
		case "empty":
			return ""
		case "same":
			return vals[ru.ExpiresKey]
		}
		return g.PickS([]string{"0", "2147483647000", "99999999999"}) // "other": epoch (expired) or far beyond 2038 (not expired)
	}
	type extra struct{ k, v string }
	var extras []extra
	switch c.Op {
	case "dup-expires":
		extras = []extra{{ru.ExpiresKey, otherTime()}}
	case "dup-checksum":
		if c.Value == "future" || c.Value == "past" {
			c.Value = "other"
		}
		v := map[string]string{"empty": "", "same": sum, "other": c51Str(g, c51Alnum+"-_", 22, 22)}[c.Value]
		extras = []extra{{ru.ChecksumKey, v}}
	case "dup-node":
		if c.Value == "future" || c.Value == "past" {
			c.Value = "other"
		}
		p := signedParams[g.Intn(len(signedParams))]
		v := map[string]string{"empty": "", "same": vals[p], "other": g.PickS([]string{"other.bin", vals[p] + "x", "secret/" + vals[p]})}[c.Value]
		extras = []extra{{p, v}}
	default:
		// a second expiry together with the checksum the secret holder would issue for it:
		// valid only under a reading that takes the SAME occurrence of both
		if c.Value == "empty" || c.Value == "same" {
			c.Value = "future"
		}
		e1 := otherTime()
		v2 := map[string]string{}
		for k, v := range vals {
			v2[k] = v
		}
		v2[ru.ExpiresKey] = e1
		extras = []extra{{ru.ExpiresKey, e1}, {ru.ChecksumKey, c51SlSumVals(ru.Nodes, ref, v2)}}
	}
	c.Name = []string{"plain", "mixed-case", "pct-encoded", "no-equals"}[c51Pick(g, []int{58, 14, 16, 12})]
	var pieces []string
	for _, e := range extras {
		k := c51QEsc(e.k)
		switch c.Name {
		case "mixed-case":
			k = c51MixCase(k)
		case "pct-encoded":
			k = c51PctName(g, e.k)
		}
		if c.Name == "no-equals" {
			pieces = append(pieces, k)
		} else {
			pieces = append(pieces, k+"="+c51QEsc(e.v))
		}
	}
	if c.Name == "no-equals" {
		c.Value = "empty"
	}
	c.Sep = "amp"
	sep := "&"
	if g.Chance(3, 20) {
		c.Sep, sep = "semicolon", ";"
	}
	c.Pos = "appended"
	if g.Bool() {
		c.Pos = "prepended"
	}
	if len(pieces) == 2 && g.Chance(1, 3) {
		c.Pos = "crossed"
	}
	switch c.Pos {
	case "appended":
		c.RawQuery = strings.Join(base, "&") + sep + strings.Join(pieces, "&")
	case "prepended":
		c.RawQuery = strings.Join(pieces, "&") + sep + strings.Join(base, "&")
	default:
		a, b := 0, 1
		if g.Bool() {
			a, b = 1, 0
		}
		c.RawQuery = pieces[a] + "&" + strings.Join(base, "&") + sep + pieces[b]
	}
	c.Target = c.Path + "?" + c.RawQuery
	c.Class = c.Base + "+" + c.Op
	c.Shape = fmt.Sprintf("ambig:%s:%s:%s:%s:%s", c.Class, c.Pos, c.Value, c.Name, c.Sep)
	return c
}

// c51SlExpiry classifies an expiry value: "" = usable and not expired.
func c51SlExpiry(v string, now int64) string {
	if v == "" {
		return "missing or empty"
	}
	for i := 0; i < len(v); i++ {
		if v[i] < '0' || v[i] > '9' {
			return "not a number"
		}
	}
	if len(v) > 15 {
		return "beyond the judged range"
	}
	t, _ := strconv.ParseInt(v, 10, 64)
	if t < now-c51TimeGuard {
		return fmt.Sprintf("expired %d s ago", now-t)
	}
	if t <= now+c51TimeGuard {
		return "within the guard band"
	}
	return ""
}

// c51SlReadings enumerates every single-valued reading of the request (one
// occurrence chosen per repeated argument, the same for every use) and reports
// whether one of them is a valid link, and whether one of them at least has a
// matching checksum (then: which expiry values that checksum was issued for).
func c51SlReadings(ru *c51SlRule, ref *c51SlCase, kvs []c51KV, now int64) (valid bool, signedExpiries []string) {
	keys := []string{ru.ExpiresKey, ru.ChecksumKey}
	for _, n := range ru.Nodes {
		if n.Type == "query" && n.Param != ru.ExpiresKey && n.Param != ru.ChecksumKey {
			keys = append(keys, n.Param)
		}
	}
	cands := make([][]string, len(keys))
	for i, k := range keys {
		seen := map[string]bool{}
		for _, kv := range kvs {
			if kv.k == k && !seen[kv.v] {
				seen[kv.v] = true
				cands[i] = append(cands[i], kv.v)
			}
		}
		if len(cands[i]) == 0 {
			cands[i] = []string{""}
		}
	}
	idx := make([]int, len(keys))
	for {
		vals := map[string]string{}
		for i, k := range keys {
			vals[k] = cands[i][idx[i]]
		}
		if sum := vals[ru.ChecksumKey]; sum != "" && c51SlSumVals(ru.Nodes, ref, vals) == sum {
			signedExpiries = append(signedExpiries, vals[ru.ExpiresKey])
			if c51SlExpiry(vals[ru.ExpiresKey], now) == "" {
				valid = true
			}
		}
		i := 0
		for ; i < len(idx); i++ {
			idx[i]++
			if idx[i] < len(cands[i]) {
				break
			}
			idx[i] = 0
		}
		if i == len(idx) {
			return
		}
	}
}

var c51SlAmbOnce sync.Once

func c51SlAmbRun(r *vkit.Run, env *modEnv, sci interface{}, cfgSeed, caseSeed uint64, now int64) {
	c51SlAmbOnce.Do(func() {
		if err := c51RefQuerySelfCheck(); err != nil {
			r.Inconclusive("securelink ambiguity family: " + err.Error())
		}
	})
	c51AmbMark("securelink")
	sc := sci.(*c51SlSc)
	c := c51SlAmbGen(sc, vkit.NewRand(caseSeed), now)
	ru := &sc.Amb[c.Rule]
	var hdrs []string
	if c.User != nil {
		hdrs = append(hdrs, "X-Link-User: "+*c.User)
	}
	w := &c51Witness{Mod: "securelink", Family: "ambig", CfgSeed: cfgSeed, CaseSeed: caseSeed, Shape: c.Shape,
		Info: map[string]interface{}{"host": c.Host, "product": "pn", "target": c.Target, "headers": hdrs, "remote_addr": c.Remote, "rule_conf": ru, "now": now,
			"base_link": c.Base + " (its checksum argument was issued for " + ru.ExpiresKey + "=" + c.Signed + ")"}}
	raw := c51RawReq(c.Target, c.Host, hdrs)
	req, err := parseReq(raw)
	if err != nil {
		r.Count("securelink_http_reader_refused", 1)
		r.CaseS("securelink-ambig|refused|"+string(raw), false)
		return
	}
	req.Route.Product = "pn"
	req.HttpRequest.RemoteAddr = c.Remote
	var obs c51Obs
	if r.Try(func() interface{} { return w }, func() { obs.code, obs.resp = env.request(bfe_module.HandleAfterLocation, req) }) {
		return
	}
	admitted := obs.code == bfe_module.BfeHandlerGoOn && obs.resp == nil
	rejected := obs.code == bfe_module.BfeHandlerResponse && obs.resp != nil
	r.CaseS(fmt.Sprintf("securelink-ambig|%x|%d|%s|%s|%v|%s", cfgSeed, now-now%86400, c.Host, c.Target, hdrs, c.Remote), true)

	// reference 1 (documented reading): the first value of every argument, for every use
	kvs := c51RefQuery(c.RawQuery)
	ref := &c51SlCase{Host: c.Host, User: c.User, Remote: c.Remote, Query: kvs}
	first := map[string]string{}
	var parsed []string
	for _, kv := range kvs {
		if _, ok := first[kv.k]; !ok {
			first[kv.k] = kv.v
		}
		parsed = append(parsed, kv.k+"="+kv.v)
	}
	w.Info["query_as_url_Query_reads_it"] = parsed
	wantAdmit := false
	expState := c51SlExpiry(first[ru.ExpiresKey], now)
	wantSum := c51SlSum(ru.Nodes, ref) // c.q() = first value
	switch {
	case expState != "":
		w.Why = fmt.Sprintf("the first %s value %q is %s", ru.ExpiresKey, first[ru.ExpiresKey], expState)
	case first[ru.ChecksumKey] == "":
		w.Why = "the first " + ru.ChecksumKey + " value is missing or empty"
	case first[ru.ChecksumKey] != wantSum:
		w.Why = fmt.Sprintf("the first %s value %q differs from %q = md5 over the configured nodes (first value of every query node)", ru.ChecksumKey, first[ru.ChecksumKey], wantSum)
	default:
		wantAdmit = true
		w.Why = "first-value reading: checksum correct and not expired"
	}
	// reference 2 (independent of any first/last convention): is there ANY reading that
	// takes one occurrence per argument, the same one for signing input and for the
	// expiry / checksum checks, under which the link is valid?
	anyValid, signedExp := c51SlReadings(ru, ref, kvs, now)
	w.Info["some_single_valued_reading_is_a_valid_link"] = anyValid
	w.Info["expiry_values_a_presented_checksum_was_issued_for"] = signedExp

	if !admitted && !rejected {
		w.Want, w.Got = map[bool]string{true: c51Admit, false: c51Reject}[wantAdmit], obs.String()
		r.Violation("securelink:unexpected-handler-result", fmt.Sprintf("handler chain answered %s: neither forwarded nor the documented rejection", obs), w)
		return
	}
	r.Count("amb_securelink_"+c.Class, 1)
	r.Count("amb_securelink_pos_"+c.Pos, 1)
	r.Count("amb_securelink_name_"+c.Name, 1)
	r.Count("amb_securelink_sep_"+c.Sep, 1)
	r.Count("amb_securelink_value_"+c.Value, 1)
	if c.Base == "expired" && c.Op == "dup-expires" && c.Value == "future" && c.Name == "plain" && c.Sep == "amp" {
		r.Count("amb_securelink_attack_expired+dup-expires-"+c.Pos+"-future", 1)
	}
	if anyValid {
		r.Count("amb_securelink_some_consistent_reading", 1)
	} else {
		r.Count("amb_securelink_no_consistent_reading", 1)
	}
	want := c51Reject
	if wantAdmit {
		want = c51Admit
		r.Count("amb_securelink_expect_admit", 1)
	} else {
		r.Count("amb_securelink_expect_reject", 1)
	}
	if admitted {
		r.Count("amb_securelink_admitted", 1)
	} else {
		r.Count("amb_securelink_rejected", 1)
	}
	w.Want, w.Got = want, obs.String()
	c51ShapeCount("securelink", fmt.Sprintf("ambig:%s:%s:%s", c.Class, c.Pos, c.Value), want, admitted)
	if wantAdmit && anyValid == false {
		// the first-value reading is one of the readings
		r.Violation("securelink:harness-reference-inconsistent", "first-value reading valid but no consistent reading found", w)
		return
	}

	switch {
	case admitted && !wantAdmit && !anyValid && len(signedExp) > 0:
		// A presented checksum is genuine, but only for an expiry that is not acceptable:
		// the expiry check must have looked at a value that is not in the signed string.
		what := fmt.Sprintf("request forwarded although %s; the only expiry value(s) a presented checksum was issued for: %q; no reading of the request that uses one value per argument is a valid link (%s)",
			w.Why, signedExp, c.Shape)
		r.Violation("securelink:admitted-with-unsigned-expiry", what, w)
		if c.Base == "expired" && c.Op == "dup-expires" && (c.Name == "plain" || c.Name == "pct-encoded") {
			r.Violation("securelink:expired-link-admitted:duplicate-expires-"+c.Pos, what, w)
		}
	case admitted && !wantAdmit && !anyValid:
		r.Violation("securelink:invalid-link-admitted:"+c.Class, fmt.Sprintf("request forwarded although %s and no presented checksum matches any reading of the request (%s)", w.Why, c.Shape), w)
	case admitted && !wantAdmit:
		r.Violation("securelink:repeated-argument-not-first-value:"+c.Class+"-"+c.Pos, fmt.Sprintf("request forwarded although %s (a consistent reading other than the documented first-value one is valid; %s)", w.Why, c.Shape), w)
	case rejected && wantAdmit:
		r.Violation("securelink:valid-rejected:ambig:"+c.Class+"-"+c.Pos+"-"+c.Value, fmt.Sprintf("valid link (%s; %s) answered %s", w.Why, c.Shape, obs), w)
	case rejected && (obs.resp.StatusCode < 400 || obs.resp.StatusCode > 499):
		r.Violation(fmt.Sprintf("securelink:rejection-not-as-documented:status-%d", obs.resp.StatusCode), fmt.Sprintf("rejected with %s", obs), w)
	}
	c51AmbSample("securelink", c.Shape, map[string]interface{}{"class": c.Class + ":" + c.Pos, "host": c.Host, "target": c.Target, "rule": ru, "query_as_read": parsed,
		"want": want, "why": w.Why, "got": obs.String(), "some_single_valued_reading_valid": anyValid}, c.Base == "expired" && c.Op == "dup-expires" && c.Value == "future" && c.Name == "plain" && c.Sep == "amp")
}

// =====================================================================================
// mod_auth_basic, mod_auth_jwt
// =====================================================================================

// Both modules document one credential place only (HTTP Basic authentication /
// the "Bearer" challenge they answer with): the Authorization header field, and
// say nothing about repeated fields. Judged:
//   - no presented credential (any Authorization line or list element, any
//     cookie / query / other-header decoy) is valid          -> must be rejected
//   - exactly one Authorization line, canonical and valid, decoys
//     elsewhere                                               -> must be admitted
//     (jwt: unless a decoy is the RFC 6750 access_token query parameter)
//   - basic: valid credential only in a cookie, the query or an X- header
//     (no HTTP Basic transport)                              -> must be rejected
//   - a valid credential next to an invalid one in Authorization lines, or a
//     valid one only in Proxy-Authorization (jwt: anywhere outside
//     Authorization)                                          -> not judged
//   - every rejection is the documented 401 + challenge.

var c51AuthAmbClasses = []string{
	"two-headers:valid-first", "two-headers:invalid-first", "two-headers:both-invalid", "two-headers:both-valid",
	"three-headers:valid-not-first", "one-line-list:valid-first", "one-line-list:invalid-first", "one-line-list:both-invalid",
	"elsewhere-valid:header-invalid", "elsewhere-valid:header-missing", "elsewhere-invalid:header-valid",
	"elsewhere-invalid:header-invalid", "elsewhere-invalid:header-missing",
	"duplicate-cookie:one-valid", "duplicate-cookie:both-invalid",
}

type c51Else struct {
	Where string // cookie | query | proxy-authorization | x-header
	Cred  string // "<Scheme> <payload>"
}

type c51AuthAmb struct {
	Class    string
	Shape    string
	Hdrs     []string // literal header lines
	Target   string
	AuthVals []string // Authorization field values in order of appearance
	Else     []c51Else
	NameCase bool
}

// c51AuthAmbGen builds one case of the family for a scheme; good() yields the
// payload of a valid credential, bad() of an invalid one (with its kind).
func c51AuthAmbGen(g *vkit.Rand, scheme string, good func() string, bad func() (string, string)) *c51AuthAmb {
	c := &c51AuthAmb{Target: "/"}
	ci := g.Intn(len(c51AuthAmbClasses))
	c.Class = c51AuthAmbClasses[ci]
	kinds := []string{}
	mkBad := func() string {
		p, k := bad()
		kinds = append(kinds, k)
		return scheme + " " + p
	}
	mkGood := func() string { return scheme + " " + good() }
	auth := func(vals ...string) {
		for i, v := range vals {
			name := "Authorization"
			if i > 0 && g.Chance(1, 3) {
				name = g.PickS([]string{"authorization", "AUTHORIZATION", "AuThOrIzAtIoN"})
				c.NameCase = true
			}
			c.Hdrs = append(c.Hdrs, name+": "+v)
			c.AuthVals = append(c.AuthVals, v)
		}
	}
	var cookies []string
	query := ""
	elsewhere := func(cred string, where string) {
		c.Else = append(c.Else, c51Else{where, cred})
		payload := cred[len(scheme)+1:]
		switch where {
		case "cookie":
			if scheme == "Basic" {
				cookies = append(cookies, g.PickS([]string{"auth", "Authorization", "basic"})+"="+payload)
			} else {
				cookies = append(cookies, g.PickS([]string{"access_token", "jwt", "token", "Authorization"})+"="+payload)
			}
		case "query":
			if scheme == "Basic" {
				query = g.PickS([]string{"authorization", "Authorization", "auth"}) + "=" + c51QEsc(cred)
			} else {
				query = "access_token=" + c51QEsc(payload)
			}
		case "proxy-authorization":
			c.Hdrs = append(c.Hdrs, "Proxy-Authorization: "+cred)
		default:
			if scheme == "Basic" {
				c.Hdrs = append(c.Hdrs, "X-Authorization: "+cred)
			} else {
				c.Hdrs = append(c.Hdrs, g.PickS([]string{"X-Auth-Token: " + payload, "X-Authorization: " + cred}))
			}
		}
	}
	where := func() string { return []string{"cookie", "query", "proxy-authorization", "x-header"}[g.Intn(4)] }
	switch c.Class {
	case "two-headers:valid-first":
		auth(mkGood(), mkBad())
	case "two-headers:invalid-first":
		auth(mkBad(), mkGood())
	case "two-headers:both-invalid":
		auth(mkBad(), mkBad())
	case "two-headers:both-valid":
		auth(mkGood(), mkGood())
	case "three-headers:valid-not-first":
		if g.Bool() {
			auth(mkBad(), mkGood(), mkBad())
		} else {
			auth(mkBad(), mkBad(), mkGood())
		}
	case "one-line-list:valid-first":
		auth(mkGood() + g.PickS([]string{", ", ","}) + mkBad())
	case "one-line-list:invalid-first":
		auth(mkBad() + g.PickS([]string{", ", ","}) + mkGood())
	case "one-line-list:both-invalid":
		auth(mkBad() + ", " + mkBad())
	case "elsewhere-valid:header-invalid":
		auth(mkBad())
		elsewhere(mkGood(), where())
	case "elsewhere-valid:header-missing":
		elsewhere(mkGood(), where())
	case "elsewhere-invalid:header-valid":
		auth(mkGood())
		elsewhere(mkBad(), where())
	case "elsewhere-invalid:header-invalid":
		auth(mkBad())
		elsewhere(mkBad(), where())
	case "elsewhere-invalid:header-missing":
		elsewhere(mkBad(), where())
	case "duplicate-cookie:one-valid":
		if g.Bool() {
			elsewhere(mkGood(), "cookie")
			elsewhere(mkBad(), "cookie")
		} else {
			elsewhere(mkBad(), "cookie")
			elsewhere(mkGood(), "cookie")
		}
		if g.Bool() {
			auth(mkBad())
		}
	default: // duplicate-cookie:both-invalid
		elsewhere(mkBad(), "cookie")
		elsewhere(mkBad(), "cookie")
		if g.Bool() {
			auth(mkBad())
		}
	}
	if len(cookies) > 0 {
		// duplicated cookies share the name of the first
		if len(cookies) == 2 {
			n := cookies[0][:strings.IndexByte(cookies[0], '=')]
			cookies[1] = n + cookies[1][strings.IndexByte(cookies[1], '='):]
		}
		if len(cookies) == 2 && g.Bool() {
			c.Hdrs = append(c.Hdrs, "Cookie: "+cookies[0], "Cookie: "+cookies[1])
		} else {
			c.Hdrs = append(c.Hdrs, "Cookie: "+strings.Join(cookies, "; "))
		}
	}
	if query != "" {
		c.Target = "/?" + query
	}
	if g.Bool() { // decoy fields before the Authorization lines (whose relative order is kept)
		var decoys, auths []string
		for _, h := range c.Hdrs {
			if strings.EqualFold(h[:strings.IndexByte(h, ':')], "Authorization") {
				auths = append(auths, h)
			} else {
				decoys = append(decoys, h)
			}
		}
		c.Hdrs = append(decoys, auths...)
	}
	wh := ""
	for _, e := range c.Else {
		wh += ":" + e.Where
	}
	c.Shape = "ambig:" + c.Class + wh
	if len(kinds) > 0 {
		sort.Strings(kinds)
		c.Shape += ":" + strings.Join(kinds, "+")
	}
	return c
}

// c51AuthAmbJudge runs the request and applies the rules above. headerRef is the
// module's reference over the Authorization values (admit = one canonical valid
// credential, either = a valid one among several / in a lenient form, reject =
// none valid); credValid says whether one credential string is valid.
func c51AuthAmbJudge(r *vkit.Run, env *modEnv, mod, scheme, realm, host string, c *c51AuthAmb, w *c51Witness,
	headerRef func(vals []string) (string, string), credValid func(cred string) bool) {
	c51AmbMark(mod)
	raw := c51RawReq(c.Target, host, c.Hdrs)
	req, err := parseReq(raw)
	if err != nil {
		r.Count(mod+"_http_reader_refused", 1)
		r.CaseS(mod+"-ambig|refused|"+string(raw), false)
		return
	}
	req.Route.Product = "pn"
	var obs c51Obs
	if r.Try(func() interface{} { return w }, func() { obs.code, obs.resp = env.request(bfe_module.HandleFoundProduct, req) }) {
		return
	}
	admitted := obs.code == bfe_module.BfeHandlerGoOn && obs.resp == nil
	rejected := obs.code == bfe_module.BfeHandlerResponse && obs.resp != nil

	// presented credentials: every Authorization line, every element of a comma list
	var vals []string
	for _, v := range c.AuthVals {
		if strings.Contains(v, ",") {
			for _, p := range strings.Split(v, ",") {
				vals = append(vals, strings.Trim(p, " \t"))
			}
		} else {
			vals = append(vals, v)
		}
	}
	hv, hwhy := headerRef(vals)
	elseValid, elseJudgedInvalidPlace, accessTokenQuery := false, false, false
	for _, e := range c.Else {
		if mod == "jwt" && e.Where == "query" {
			accessTokenQuery = true
		}
		if credValid(e.Cred) {
			elseValid = true
			if mod == "basic" && e.Where != "proxy-authorization" {
				elseJudgedInvalidPlace = true
			}
		}
	}
	want, admitSig := "", ""
	switch {
	case hv == c51Admit && !accessTokenQuery:
		want, w.Why = c51Admit, hwhy+" in the only Authorization field; the other places are not credential places of the scheme"
	case hv == c51Admit:
		want, w.Why = c51Either, hwhy+", but an access_token query parameter is presented as well (RFC 6750 2: more than one method)"
	case hv == c51Either:
		want, w.Why = c51Either, "several credentials in the Authorization field(s), at least one of them valid: no documented precedence"
	case elseValid && elseJudgedInvalidPlace:
		want, admitSig = c51Reject, mod+":admitted-on-credential-outside-authorization:"+c.Class
		w.Why = "no valid credential in the Authorization field (" + hwhy + "); a valid one is presented only where HTTP Basic authentication does not carry credentials"
	case elseValid:
		want, w.Why = c51Either, "no valid credential in the Authorization field; a valid one is presented in a place the documentation does not mention"
	default:
		want, admitSig = c51Reject, mod+":admitted-with-only-invalid-credentials:"+c.Class
		w.Why = "every presented credential is invalid (" + hwhy + ")"
		r.Count("amb_"+mod+"_all_presented_invalid", 1)
	}
	if hv != c51Reject || elseValid {
		r.Count("amb_"+mod+"_some_presented_valid", 1)
	}
	w.Want, w.Got = want, obs.String()
	key := fmt.Sprintf("%s-ambig|%x|%s|%s|%s", mod, w.CfgSeed, host, c.Target, strings.Join(c.Hdrs, "\n"))
	if mod == "jwt" {
		key = fmt.Sprintf("jwt-ambig|%x|%x", w.CfgSeed, w.CaseSeed)
	}
	r.CaseS(key, true)
	if !admitted && !rejected {
		r.Violation(mod+":unexpected-handler-result", fmt.Sprintf("handler chain answered %s: neither forwarded nor the documented rejection (reference: %s, %s)", obs, want, w.Why), w)
		return
	}
	r.Count("amb_"+mod+"_"+c.Class, 1)
	if c.NameCase {
		r.Count("amb_"+mod+"_name_case", 1)
	}
	for _, e := range c.Else {
		r.Count("amb_"+mod+"_where_"+e.Where, 1)
	}
	if admitted {
		r.Count("amb_"+mod+"_admitted", 1)
	} else {
		r.Count("amb_"+mod+"_rejected", 1)
	}
	c51ShapeCount(mod, "ambig:"+c.Class, want, admitted)
	bad := ""
	if rejected {
		bad = c51AuthReject(obs, scheme, realm)
	}
	switch want {
	case c51Admit:
		r.Count("amb_"+mod+"_expect_admit", 1)
		if !admitted {
			r.Violation(mod+":valid-rejected:ambig:"+c.Class, fmt.Sprintf("valid request (%s) answered %s", w.Why, obs), w)
		}
	case c51Reject:
		r.Count("amb_"+mod+"_expect_reject", 1)
		if admitted {
			r.Violation(admitSig, fmt.Sprintf("request forwarded although %s (%s)", w.Why, c.Shape), w)
		} else if bad != "" {
			r.Violation(mod+":rejection-not-as-documented:"+bad, fmt.Sprintf("rejected with %s", obs), w)
		}
	default:
		r.Count("amb_"+mod+"_not_judged", 1)
		if rejected && bad != "" {
			r.Violation(mod+":rejection-not-as-documented:"+bad, fmt.Sprintf("rejected with %s", obs), w)
		}
	}
	c51AmbSample(mod, c.Shape, map[string]interface{}{"class": c.Class, "host": host, "target": c.Target, "headers": c.Hdrs, "want": want, "why": w.Why, "got": obs.String()}, false)
}

func c51BasicAmbRun(r *vkit.Run, env *modEnv, sci interface{}, cfgSeed, caseSeed uint64, now int64) {
	sc := sci.(*c51BasicSc)
	g := vkit.NewRand(caseSeed)
	ri := g.Intn(len(sc.Rules))
	ru := &sc.Rules[ri]
	u := ru.Users[g.Intn(len(ru.Users))]
	good := func() string {
		x := u
		if g.Chance(1, 4) {
			x = ru.Users[g.Intn(len(ru.Users))]
		}
		return c51B64(x.Name, x.Pass)
	}
	bad := func() (string, string) {
		switch g.Intn(5) {
		case 0:
			return c51B64(u.Name+"x", u.Pass), "unknown-user"
		case 1:
			or := &sc.Rules[(ri+1)%len(sc.Rules)]
			o := or.Users[g.Intn(len(or.Users))]
			return c51B64(o.Name, o.Pass), "cross-rule-user"
		case 2:
			return c51B64(u.Name, u.Hash), "hash-as-password"
		}
		pw, k := c51BasicMutatePw(g, u.Pass)
		return c51B64(u.Name, pw), k
	}
	c := c51AuthAmbGen(g, "Basic", good, bad)
	w := &c51Witness{Mod: "basic", Family: "ambig", CfgSeed: cfgSeed, CaseSeed: caseSeed, Shape: c.Shape,
		Info: map[string]interface{}{"host": ru.Host, "product": "pn", "target": c.Target, "headers": c.Hdrs, "rule": ri, "realm": ru.Realm, "userfile": ru.FileText}}
	valid := func(cred string) bool {
		if u, p, ok := c51BasicCanon(cred); ok {
			if h, known := ru.hashes[u]; known && c51HashOK(h, p) {
				return true
			}
		}
		for _, x := range c51BasicLenient(cred) {
			if h, known := ru.hashes[x[0]]; known && c51HashOK(h, x[1]) {
				return true
			}
		}
		return false
	}
	c51AuthAmbJudge(r, env, "basic", "Basic", ru.Realm, ru.Host, c, w,
		func(vals []string) (string, string) { return c51BasicRef(ru, vals) }, valid)
}

// c51JwtTok builds a token signed with k in the way a legitimate issuer would;
// mode: valid | expired | nbf-future.
func c51JwtTok(g *vkit.Rand, k *c51JwtKey, now int64, mode string) string {
	alg := c51JwtAlgFor(g, k)
	h64 := c51B64u([]byte(c51JSONObj(c51JwtHeader(g, alg, k))))
	p64 := c51B64u([]byte(c51JSONObj(c51JwtClaims(g, now, mode))))
	return h64 + "." + p64 + "." + c51B64u(c51JwtSign(alg, k, nil, h64+"."+p64))
}

func c51JwtAmbRun(r *vkit.Run, env *modEnv, sci interface{}, cfgSeed, caseSeed uint64, now int64) {
	sc := sci.(*c51JwtSc)
	g := vkit.NewRand(caseSeed)
	ri := g.Intn(len(sc.Rules))
	ru := &sc.Rules[ri]
	k := c51JwtPickKey(g, ru)
	good := func() string { return c51JwtTok(g, c51JwtPickKey(g, ru), now, "valid") }
	bad := func() (string, string) {
		switch g.Intn(6) {
		case 0:
			return c51JwtTok(g, k, now, "expired"), "expired"
		case 1:
			return c51JwtTok(g, k, now, "nbf-future"), "not-yet-valid"
		case 2:
			t := c51JwtTok(g, k, now, "valid")
			tail := "AAAAAA"
			if strings.HasSuffix(t, tail) {
				tail = "BBBBBB"
			}
			return t[:len(t)-6] + tail, "bad-signature"
		case 3:
			p := strings.Split(c51JwtTok(g, k, now, "valid"), ".")
			return c51B64u([]byte(`{"alg":"none","typ":"JWT"}`)) + "." + p[1] + ".", "alg-none"
		case 4:
			return c51JwtTok(g, c51JwtForeign(g, k), now, "valid"), "foreign-key"
		}
		p := strings.Split(c51JwtTok(g, k, now, "valid"), ".")
		return p[0] + "." + c51B64u([]byte(`{"sub":"admin","admin":true}`)) + "." + p[2], "payload-replaced"
	}
	c := c51AuthAmbGen(g, "Bearer", good, bad)
	w := &c51Witness{Mod: "jwt", Family: "ambig", CfgSeed: cfgSeed, CaseSeed: caseSeed, Shape: c.Shape,
		Info: map[string]interface{}{"host": ru.Host, "product": "pn", "target": c.Target, "headers": c.Hdrs, "rule": ri, "realm": ru.Realm, "now": now}}
	valid := func(cred string) bool {
		vd, _ := c51JwtRefToken(strings.TrimPrefix(cred, "Bearer "), ru.Keys, now)
		return vd != c51Reject
	}
	c51AuthAmbJudge(r, env, "jwt", "Bearer", ru.Realm, ru.Host, c, w,
		func(vals []string) (string, string) { return c51JwtRef(ru, vals, now) }, valid)
}
