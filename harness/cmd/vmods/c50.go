package main

import (
	"bytes"
	"encoding/hex"
	"encoding/json"
	"fmt"
	"io"
	"os"
	"path"
	"path/filepath"
	"sort"
	"strconv"
	"strings"
	"unicode/utf8"

	"github.com/bfenetworks/bfe/bfe_basic"
	"github.com/bfenetworks/bfe/bfe_http"
	"github.com/bfenetworks/bfe/bfe_module"
	"github.com/bfenetworks/bfe/bfe_modules/mod_static"

	"verifharness/vkit"
)

// C50: for every request path mod_static only serves files located under the
// configured document root (or the configured default file), returns their
// exact bytes with a matching Content-Length, serves only GET and HEAD, and
// answers missing files with 404.
//
// Oracle (written from docs/en_us/modules/mod_static/mod_static.md, the
// property statement and DESIGN.md; the module source was read only to find
// out how to drive it):
//   * a fixed, symlink-free tree <base>/root/... of files with unique markers,
//     plus SENTINEL files outside the root (<base>/secret.txt, <base>/rootkit/...,
//     <base>/index.html, precompressed siblings <base>/a.txt.gz ...);
//   * the reference keeps the tree in memory; it never looks at the file system;
//   * decoded request path p  ->  c50Clean(p) (segment stack: "" and "." dropped,
//     ".." pops, never above the root)  ->  file | directory | missing;
//   * file: the response is 200 with exactly these bytes (or, when the request
//     offers gzip/br in Accept-Encoding and <file>.gz/.br exists below the
//     root, exactly the sibling's bytes labelled with that Content-Encoding),
//     or a 4xx;
//   * directory / missing: the BROWSE default file (same negotiation) or 404
//     when the rule has a default file; exactly 404 for a missing file when it
//     has none; any non-2xx for a directory without default file (docs silent);
//   * GET: the single Content-Length header equals the number of body bytes;
//     HEAD: no body bytes other than the designated file's, Content-Length as
//     for GET; other methods: non-2xx and no file bytes;
//   * no response (status line aside: headers and body) contains a sentinel marker.

const (
	c50KFile = iota
	c50KDir
	c50KMissing
)

var c50KindName = []string{"file", "directory", "missing"}

type c50Product struct {
	Name    string
	RootRel string // relative to base, "/root"
	RootCfg string // suffix appended to the absolute root in the rule file ("" or "/")
	Def     string // BROWSE default file ("" = none)
}

type c50Marker struct{ m, key string }

type c50Tree struct {
	base     string
	files    map[string][]byte // key: path relative to base ("/root/a.txt")
	dirs     map[string]bool
	sentinel map[string]bool
	markers  []c50Marker
	prods    map[string]*c50Product
	prodList []*c50Product
	relFiles map[string][]string // product -> file paths relative to its root ("/a.txt")
	relDirs  map[string][]string
	outside  map[string][]string // product -> tree files outside its root, relative to base
}

type c50Case struct {
	Product   string `json:"product"`
	Method    string `json:"method"`
	AE        string `json:"accept_encoding"`
	Route     string `json:"route"`      // "h1": request-target through bfe_http.ReadRequest; "direct": URL.Path set directly
	TargetHex string `json:"target_hex"` // h1: request-target bytes; direct: URL.Path bytes
	Target    string `json:"target_quoted"`
	Class     string `json:"class"`
}

func (c *c50Case) target() string {
	b, _ := hex.DecodeString(c.TargetHex)
	return string(b)
}

func c50NewCase(prod, method, ae, route, target, class string) *c50Case {
	return &c50Case{Product: prod, Method: method, AE: ae, Route: route, TargetHex: hex.EncodeToString([]byte(target)),
		Target: c50Quote(target, 300), Class: class}
}

func c50Quote(s string, n int) string {
	if len(s) > n {
		return strconv.Quote(s[:n]) + fmt.Sprintf("...(%d bytes)", len(s))
	}
	return strconv.Quote(s)
}

// ---- tree -------------------------------------------------------------------

const c50LongName = 255

func c50BuildTree(base string) (*c50Tree, error) {
	t := &c50Tree{base: base, files: map[string][]byte{}, dirs: map[string]bool{"": true}, sentinel: map[string]bool{},
		prods: map[string]*c50Product{}, relFiles: map[string][]string{}, relDirs: map[string][]string{}, outside: map[string][]string{}}
	g := vkit.NewRand(0xC50C50C50) // the tree is the same for every seed, so a replay rebuilds it identically
	addDir := func(key string) {
		for k := key; k != "" && k != "/"; k = path.Dir(k) {
			t.dirs[k] = true
		}
	}
	add := func(key string, size int, sentinel bool) {
		var b []byte
		if size > 0 {
			m := fmt.Sprintf("C50F-%016x", g.U64())
			if sentinel {
				m = fmt.Sprintf("C50SENTINEL-%016x%016x", g.U64(), g.U64())
			}
			t.markers = append(t.markers, c50Marker{m, key})
			b = append(b, m...)
			b = append(b, fmt.Sprintf(" %q\n", key)...)
			const alpha = "abcdefghijklmnopqrstuvwxyz0123456789 \n"
			for _, x := range g.Bytes(size) {
				if len(b) >= size {
					break
				}
				b = append(b, alpha[int(x)%len(alpha)])
			}
		}
		t.files[key] = b
		t.sentinel[key] = sentinel
		addDir(path.Dir(key))
	}
	// sentinels: outside every document root
	for _, k := range []string{"/secret.txt", "/secret.txt.gz", "/index.html", "/index.html.gz", "/a.txt.gz", "/a.txt.br",
		"/rootkit/secret", "/rootkit/index.html", "/rootkit/a.txt", "/root.txt", "/passwd"} {
		add(k, 120, true)
	}
	// document root
	for _, k := range []string{"/root/index.html", "/root/index.html.gz", "/root/index.html.br", "/root/a.txt",
		"/root/pre.txt", "/root/pre.txt.gz", "/root/pre.txt.br", "/root/onlybr.js", "/root/onlybr.js.br",
		"/root/onlygz.css", "/root/onlygz.css.gz",
		"/root/name with space.txt", "/root/dots..txt", "/root/...", "/root/..a", "/root/a..", "/root/.hidden",
		"/root/trail.", "/root/trail ", "/root/a+b.txt", "/root/a b.txt", "/root/q?.txt", "/root/h#.txt",
		"/root/pct%41.txt", "/root/back\\slash.txt", "/root/*", "/root/semi;colon.txt",
		"/root/ünï/çödé.txt", "/root/日本語.txt", "/root/%2e%2e/secret.txt", "/root/%2e%2e/a.txt",
		"/root/" + strings.Repeat("n", c50LongName),
		"/root/sub/index.html", "/root/sub/index.html.gz", "/root/sub/a.txt", "/root/sub/pre.txt",
		"/root/sub/deep/deeper/file.bin", "/root/sub/deep/index.html",
		"/root/subway/x.txt", "/root/subway/index.html", "/root/dir.txt/inner.txt"} {
		add(k, 150+g.Intn(400), false)
	}
	add("/root/empty", 0, false)
	add("/root/sub/empty.txt", 0, false)
	add("/root/big.bin", 200000, false)
	add("/root/edge64k.bin", 65536, false)
	add("/root/sub/deep/edge64k1.bin", 65537, false)
	addDir("/root/emptydir")

	for k := range t.dirs {
		if err := os.MkdirAll(filepath.Join(base, filepath.FromSlash(k)), 0o755); err != nil {
			return nil, err
		}
	}
	for k, b := range t.files {
		if err := os.WriteFile(base+k, b, 0o644); err != nil {
			return nil, fmt.Errorf("%s: %v", k, err)
		}
	}
	t.prodList = []*c50Product{
		{Name: "c50idx", RootRel: "/root", Def: "index.html"},
		{Name: "c50nodef", RootRel: "/root", Def: ""},
		{Name: "c50sub", RootRel: "/root/sub", Def: "index.html"},
		{Name: "c50slash", RootRel: "/root", RootCfg: "/", Def: "sub/deep/index.html"},
	}
	keys := make([]string, 0, len(t.files))
	for k := range t.files {
		keys = append(keys, k)
	}
	sort.Strings(keys)
	dkeys := make([]string, 0, len(t.dirs))
	for k := range t.dirs {
		dkeys = append(dkeys, k)
	}
	sort.Strings(dkeys)
	for _, p := range t.prodList {
		t.prods[p.Name] = p
		for _, k := range keys {
			if strings.HasPrefix(k, p.RootRel+"/") {
				t.relFiles[p.Name] = append(t.relFiles[p.Name], k[len(p.RootRel):])
			} else {
				t.outside[p.Name] = append(t.outside[p.Name], k)
			}
		}
		for _, k := range dkeys {
			if k == p.RootRel {
				t.relDirs[p.Name] = append(t.relDirs[p.Name], "/")
			} else if strings.HasPrefix(k, p.RootRel+"/") {
				t.relDirs[p.Name] = append(t.relDirs[p.Name], k[len(p.RootRel):])
			}
		}
	}
	return t, nil
}

// c50RuleFile renders static_rule.data for the given products.
func (t *c50Tree) ruleFile(prods []*c50Product) []byte {
	type action struct {
		Cmd    string
		Params []string
	}
	type rule struct {
		Cond   string
		Action action
	}
	cfg := map[string][]rule{}
	for _, p := range prods {
		cfg[p.Name] = []rule{{Cond: "default_t()", Action: action{Cmd: "BROWSE", Params: []string{t.base + p.RootRel + p.RootCfg, p.Def}}}}
	}
	b, _ := json.MarshalIndent(map[string]interface{}{"Version": "c50", "Config": cfg}, "", " ")
	return b
}

// ---- reference --------------------------------------------------------------

// c50Clean resolves dot segments with a segment stack; the result is rooted
// and can never name anything above "/".
func c50Clean(p string) string {
	var st []string
	for _, s := range strings.Split(p, "/") {
		switch s {
		case "", ".":
		case "..":
			if len(st) > 0 {
				st = st[:len(st)-1]
			}
		default:
			st = append(st, s)
		}
	}
	return "/" + strings.Join(st, "/")
}

func (t *c50Tree) lookup(pr *c50Product, p string) (int, string) {
	c := c50Clean(p)
	key := pr.RootRel
	if c != "/" {
		key += c
	}
	if _, ok := t.files[key]; ok {
		return c50KFile, key
	}
	if t.dirs[key] {
		return c50KDir, key
	}
	return c50KMissing, key
}

func c50Offers(ae, coding string) bool {
	for _, e := range strings.Split(ae, ",") {
		if i := strings.IndexByte(e, ';'); i >= 0 {
			e = e[:i]
		}
		if strings.EqualFold(strings.TrimSpace(e), coding) {
			return true
		}
	}
	return false
}

type c50Allowed struct{ key, enc string }

type c50Ref struct {
	kind       int
	key        string // what the path designates (file / dir / missing name), relative to base
	allowed    []c50Allowed
	viaDefault bool
}

func (t *c50Tree) reference(pr *c50Product, p, ae string) c50Ref {
	ref := c50Ref{}
	ref.kind, ref.key = t.lookup(pr, p)
	k := ref.key
	if ref.kind != c50KFile {
		if pr.Def == "" {
			return ref
		}
		dk, dkey := t.lookup(pr, "/"+pr.Def)
		if dk != c50KFile {
			return ref
		}
		ref.viaDefault = true
		k = dkey
	}
	ref.allowed = append(ref.allowed, c50Allowed{k, ""})
	for _, e := range [][2]string{{"gzip", ".gz"}, {"br", ".br"}} {
		if _, ok := t.files[k+e[1]]; ok && c50Offers(ae, e[0]) {
			ref.allowed = append(ref.allowed, c50Allowed{k + e[1], e[0]})
		}
	}
	return ref
}

// c50DecodeTarget maps an origin-form or absolute-form request-target
// (RFC 7230 5.3.1/5.3.2) to the percent-decoded path. ok=false: other form.
// bad=true: an invalid percent escape.
func c50DecodeTarget(t string) (p string, ok, bad bool) {
	rest := t
	abs := false
	switch {
	case len(t) >= 7 && strings.EqualFold(t[:7], "http://"):
		rest, abs = t[7:], true
	case len(t) >= 8 && strings.EqualFold(t[:8], "https://"):
		rest, abs = t[8:], true
	case strings.HasPrefix(t, "/"):
	default:
		return "", false, false
	}
	if i := strings.IndexByte(rest, '?'); i >= 0 {
		rest = rest[:i]
	}
	if abs {
		j := strings.IndexByte(rest, '/')
		if j < 0 {
			rest = ""
		} else {
			rest = rest[j:]
		}
	}
	var b []byte
	for i := 0; i < len(rest); i++ {
		if rest[i] != '%' {
			b = append(b, rest[i])
			continue
		}
		if i+2 >= len(rest) {
			return "", true, true
		}
		v, err := strconv.ParseUint(rest[i+1:i+3], 16, 8)
		if err != nil || rest[i+1] == '+' || rest[i+1] == '-' {
			return "", true, true
		}
		b = append(b, byte(v))
		i += 2
	}
	return string(b), true, false
}

// ---- shape of a hostile path (for signatures) -------------------------------

func c50HasSeg(p, seg string) bool {
	for _, s := range strings.Split(p, "/") {
		if s == seg {
			return true
		}
	}
	return false
}

func (t *c50Tree) shape(c *c50Case, decoded string) string {
	raw := c.target()
	if i := strings.IndexByte(raw, '?'); i >= 0 && c.Route == "h1" {
		raw = raw[:i]
	}
	switch {
	case strings.Contains(decoded, "\x00"):
		return "nul"
	case c50HasSeg(decoded, ".."):
		if c.Route == "h1" && !c50HasSeg(raw, "..") {
			l := strings.ToLower(raw)
			if strings.Contains(l, "%2f") && (strings.Contains(l, "..%2f") || strings.Contains(l, "%2f..")) {
				return "encoded-slash-dotdot"
			}
			return "encoded-dotdot"
		}
		if !strings.HasPrefix(decoded, "/") {
			return "dotdot-no-leading-slash"
		}
		return "dotdot"
	case strings.Contains(decoded, "\\"):
		return "backslash"
	case strings.HasPrefix(c50Clean(decoded), t.base):
		return "abs-fs-path"
	case !strings.HasPrefix(decoded, "/"):
		return "no-leading-slash"
	case strings.Contains(decoded, "//"):
		return "double-slash"
	}
	return "plain"
}

func c50Hostile(c *c50Case, decoded string) bool {
	if strings.Contains(decoded, "..") || strings.Contains(decoded, "//") || strings.Contains(decoded, "/./") ||
		strings.ContainsAny(decoded, "\\\x00") || !strings.HasPrefix(decoded, "/") ||
		strings.HasSuffix(decoded, "/") || strings.HasSuffix(decoded, ".") || strings.HasSuffix(decoded, " ") {
		return true
	}
	if c.Route == "h1" && strings.Contains(c.target(), "%") {
		return true
	}
	for _, s := range strings.Split(decoded, "/") {
		if len(s) > c50LongName {
			return true
		}
	}
	return len(decoded) > 1024
}

func c50MissingWhy(decoded string) string {
	c := c50Clean(decoded)
	if strings.Contains(c, "\x00") {
		return "nul"
	}
	for _, s := range strings.Split(c, "/") {
		if len(s) > c50LongName {
			return "name-too-long"
		}
	}
	if len(c) > 3500 {
		return "path-too-long"
	}
	if !utf8.ValidString(c) {
		return "invalid-utf8"
	}
	return "plain"
}

// siblingProbe names the tree file OUTSIDE the product root that exists at
// clean(root + "/" + raw path + ".gz"/".br") for an offered encoding ("" = none).
// It is used only to give one known failure shape its own signature.
func (t *c50Tree) siblingProbe(pr *c50Product, decoded, ae string) string {
	for _, e := range [][2]string{{"gzip", ".gz"}, {"br", ".br"}} {
		if !c50Offers(ae, e[0]) {
			continue
		}
		k := path.Clean(pr.RootRel + "/" + decoded + e[1])
		if _, ok := t.files[k]; ok && !strings.HasPrefix(k, pr.RootRel+"/") {
			return k
		}
	}
	return ""
}

// ---- evaluation -------------------------------------------------------------

func c50RawRequest(c *c50Case) []byte {
	var b bytes.Buffer
	fmt.Fprintf(&b, "%s %s HTTP/1.1\r\nHost: c50.example\r\n", c.Method, c.target())
	if c.AE != "" {
		fmt.Fprintf(&b, "Accept-Encoding: %s\r\n", c.AE)
	}
	if c.Method != "GET" && c.Method != "HEAD" {
		b.WriteString("Content-Length: 0\r\n")
	}
	b.WriteString("\r\n")
	return b.Bytes()
}

// findMarker returns the tree file whose marker occurs in b ("" = none);
// sentinels and files outside the product root are reported first.
func (t *c50Tree) findMarker(pr *c50Product, b []byte) (key string, outside bool) {
	in := ""
	for _, m := range t.markers {
		if bytes.Contains(b, []byte(m.m)) {
			if t.sentinel[m.key] || !strings.HasPrefix(m.key, pr.RootRel+"/") {
				return m.key, true
			}
			if in == "" {
				in = m.key
			}
		}
	}
	return in, false
}

func c50Eval(r *vkit.Run, env *modEnv, t *c50Tree, c *c50Case) {
	pr := t.prods[c.Product]
	if pr == nil {
		r.Inconclusive("unknown product in case: " + c.Product)
		return
	}
	key := strings.Join([]string{c.Product, c.Method, c.AE, c.Route, c.TargetHex}, "|")
	desc := func() interface{} { return map[string]interface{}{"case": c} }

	var req *bfe_basic.Request
	var decoded string
	if c.Route == "h1" {
		var err error
		if r.Try(desc, func() { req, err = parseReq(c50RawRequest(c)) }) {
			return
		}
		if err != nil {
			// bfe's HTTP/1 reader refused the request line: it never reaches the module
			r.Count("http_reader_refused", 1)
			r.CaseS(key, false)
			return
		}
		decoded = req.HttpRequest.URL.Path
		own, ok, bad := c50DecodeTarget(c.target())
		switch {
		case !ok || c.Method == "CONNECT" && !strings.HasPrefix(c.target(), "/"):
			// asterisk-form, authority-form (CONNECT) and scheme-less targets: RFC 7230 defines no path
			r.Count("nonstandard_target_form_path_taken_from_reader", 1)
		case bad:
			r.Count("invalid_escape_accepted_by_reader_path_taken_from_reader", 1)
		case own != decoded:
			r.Violation("decode:reader-path-differs", fmt.Sprintf("request-target %s: reader delivers path %q, single percent-decoding gives %q", c.Target, decoded, own),
				map[string]interface{}{"case": c, "reader_path": decoded, "decoded_path": own})
			r.CaseS(key, true)
			return
		}
	} else {
		hr, err := bfe_http.NewRequest(c.Method, "http://c50.example/", nil)
		if err != nil {
			r.Inconclusive("bfe_http.NewRequest: " + err.Error())
			return
		}
		decoded = c.target()
		hr.URL.Path = decoded
		hr.RequestURI = decoded
		if c.AE != "" {
			hr.Header.Set("Accept-Encoding", c.AE)
		}
		req = wrapReq(hr)
	}
	req.Route.Product = c.Product
	if c50Clean(decoded) != path.Clean("/"+decoded) {
		r.Inconclusive(fmt.Sprintf("reference resolvers disagree on %q", decoded))
		return
	}
	ref := t.reference(pr, decoded, c.AE)
	hostile := c50Hostile(c, decoded)

	var code, status int
	var res *bfe_http.Response
	var body []byte
	var rerr error
	if r.Try(desc, func() {
		code, res = env.request(bfe_module.HandleFoundProduct, req)
		if res != nil {
			status = res.StatusCode
			if res.Body != nil {
				body, rerr = io.ReadAll(res.Body)
				res.Body.Close()
			}
		}
	}) {
		r.CaseS(key, true)
		return
	}
	if code != bfe_module.BfeHandlerResponse || res == nil {
		r.Violation("handler:no-response", fmt.Sprintf("staticFileHandler returned %d although the product has a default_t() BROWSE rule", code), desc())
		r.CaseS(key, false)
		return
	}
	r.CaseS(key, ref.kind == c50KFile || hostile)
	r.Count("reached_module", 1)
	if hostile {
		r.Count("hostile_paths", 1)
	}
	if c.Route == "direct" {
		r.Count("direct_url_path_requests", 1)
	}

	cl := res.Header["Content-Length"]
	ce := res.Header.Get("Content-Encoding")
	shape := t.shape(c, decoded)
	wit := func(extra map[string]interface{}) map[string]interface{} {
		w := map[string]interface{}{"case": c, "decoded_path": c50Quote(decoded, 300), "clean_path": c50Quote(c50Clean(decoded), 300),
			"designates": c50KindName[ref.kind], "designated_key": c50Quote(ref.key, 300), "via_default_file": ref.viaDefault,
			"status": status, "content_length_header": cl, "content_encoding": ce, "body_len": len(body), "body_head": c50Quote(string(body), 100)}
		for k, v := range extra {
			w[k] = v
		}
		return w
	}
	if rerr != nil {
		r.Violation("body:read-error", "reading the response body failed: "+rerr.Error(), wit(nil))
		return
	}
	// no sentinel anywhere in the header block
	for hk, hv := range res.Header {
		for _, v := range hv {
			if k, out := t.findMarker(pr, []byte(hk+": "+v)); out {
				r.Violation("escape:sentinel-in-header", "header "+hk+" carries bytes of "+k, wit(nil))
				return
			}
		}
	}
	probe := t.siblingProbe(pr, decoded, c.AE)
	probeViolation := func() {
		r.Violation("wrong-file:outside-root-sibling-probe", fmt.Sprintf("%s %s (%s, product %s, Accept-Encoding %q) designates the existing file %q; because %q exists OUTSIDE the document root the answer is status %d, Content-Encoding %q, %d body bytes, Content-Length %v: not that file",
			c.Method, c.Target, c.Route, c.Product, c.AE, ref.key, probe, status, ce, len(body), cl), wit(map[string]interface{}{"outside_sibling": probe}))
	}
	// classify a body that is not the designated one
	foreign := func(sigPrefix string) bool {
		k, out := t.findMarker(pr, body)
		if k == "" {
			return false
		}
		if !out && probe != "" && sigPrefix == "wrong-file" && ref.kind == c50KFile {
			probeViolation()
			return true
		}
		if out {
			r.Violation("escape:"+shape, fmt.Sprintf("%s %s (%s, product %s): response carries bytes of %q, which is outside the document root %q",
				c.Method, c.Target, c.Route, c.Product, k, pr.RootRel), wit(map[string]interface{}{"served_file": k}))
			return true
		}
		sig := sigPrefix + ":" + shape
		if strings.HasPrefix(sigPrefix, "method:") {
			sig = sigPrefix
		}
		r.Violation(sig, fmt.Sprintf("%s %s (%s, product %s): response carries bytes of %q", c.Method, c.Target, c.Route, c.Product, k),
			wit(map[string]interface{}{"served_file": k}))
		return true
	}

	if c.Method != "GET" && c.Method != "HEAD" {
		if status >= 200 && status < 300 {
			if !foreign("method:" + strings.ToLower(c.Method) + "-served") {
				r.Violation("method:"+strings.ToLower(c.Method)+"-served", fmt.Sprintf("%s answered with status %d", c.Method, status), wit(nil))
			}
			return
		}
		if foreign("method:" + strings.ToLower(c.Method) + "-served") {
			return
		}
		r.Count("refused_method", 1)
		r.Count(fmt.Sprintf("refused_method_status_%d", status), 1)
		return
	}

	if status == 200 {
		if len(ref.allowed) == 0 {
			// missing file or directory, no default file: nothing may be served
			if foreign("wrong-file") {
				return
			}
			sig := "missing:status-200"
			if ref.kind == c50KDir {
				sig = "directory:status-200"
			}
			r.Violation(sig, fmt.Sprintf("%s %s designates a %s and the rule has no default file, answered 200", c.Method, c.Target, c50KindName[ref.kind]), wit(nil))
			return
		}
		if len(cl) != 1 {
			r.Violation(fmt.Sprintf("content-length:%d-headers", len(cl)), "a served file must carry exactly one Content-Length", wit(nil))
			return
		}
		n, err := strconv.ParseInt(cl[0], 10, 64)
		if err != nil || n < 0 || strconv.FormatInt(n, 10) != cl[0] {
			r.Violation("content-length:malformed", "Content-Length "+strconv.Quote(cl[0]), wit(nil))
			return
		}
		var hit *c50Allowed
		if c.Method == "GET" || len(body) > 0 {
			for i := range ref.allowed {
				if bytes.Equal(body, t.files[ref.allowed[i].key]) && (hit == nil || ref.allowed[i].enc == ce) {
					hit = &ref.allowed[i]
				}
			}
			if hit == nil {
				want := t.files[ref.allowed[0].key]
				if c.Method == "HEAD" {
					r.Violation("head:body-bytes", "HEAD answered with body bytes that are not the designated file", wit(nil))
					return
				}
				if foreign("wrong-file") {
					return
				}
				if len(body) < len(want) && bytes.HasPrefix(want, body) {
					r.Violation("body:truncated", fmt.Sprintf("body has %d of the %d bytes of %q", len(body), len(want), ref.allowed[0].key), wit(nil))
					return
				}
				r.Violation("body:not-the-file", fmt.Sprintf("body (%d bytes) is not the content of %q (%d bytes)", len(body), ref.allowed[0].key, len(want)), wit(nil))
				return
			}
			if int64(len(body)) != n {
				r.Violation("content-length:mismatch", fmt.Sprintf("Content-Length %d, body %d bytes", n, len(body)), wit(nil))
				return
			}
		} else {
			// HEAD without body: the length (and label) must be the designated file's
			for i := range ref.allowed {
				if int64(len(t.files[ref.allowed[i].key])) == n && ref.allowed[i].enc == ce {
					hit = &ref.allowed[i]
				}
			}
			if hit == nil && probe != "" && ref.kind == c50KFile {
				probeViolation()
				return
			}
			if hit == nil {
				for i := range ref.allowed {
					if ref.allowed[i].enc == ce {
						r.Violation("content-length:mismatch-head", fmt.Sprintf("HEAD Content-Length %d, %q has %d bytes", n, ref.allowed[i].key, len(t.files[ref.allowed[i].key])), wit(nil))
						return
					}
				}
				r.Violation("encoding:label-mismatch", fmt.Sprintf("HEAD: Content-Encoding %q matches no file the request may be answered with", ce), wit(nil))
				return
			}
			r.Count("head_ok", 1)
		}
		if hit.enc != ce {
			r.Violation("encoding:label-mismatch", fmt.Sprintf("bytes of %q served with Content-Encoding %q", hit.key, ce), wit(nil))
			return
		}
		r.Count("served_200_exact", 1)
		if ref.viaDefault {
			r.Count("served_default_file", 1)
		}
		if hit.enc != "" {
			r.Count("served_precompressed_sibling", 1)
		}
		if len(t.files[hit.key]) == 0 {
			r.Count("served_empty_file", 1)
		}
		if len(t.files[hit.key]) > 65536 {
			r.Count("served_over_64k", 1)
		}
		if hostile && ref.kind == c50KFile {
			r.Count("served_via_hostile_path", 1)
		}
		if r.WantSample() && hostile && len(c.TargetHex) < 200 {
			r.Sample(map[string]interface{}{"case": c, "served": hit.key, "status": status})
		}
		return
	}
	if status < 300 {
		r.Violation(fmt.Sprintf("status:unexpected-%d", status), "neither 200 nor a refusal", wit(nil))
		return
	}
	// refusal: must not carry any file bytes
	if len(body) > 0 && foreign("error-body") {
		return
	}
	if status < 400 {
		r.Count("redirect_not_judged", 1)
		return
	}
	switch ref.kind {
	case c50KFile:
		if status >= 500 {
			r.Violation(fmt.Sprintf("existing:status-%d:%s", status, shape), fmt.Sprintf("%s %s designates the existing file %q, answered %d", c.Method, c.Target, ref.key, status), wit(nil))
			return
		}
		if probe != "" {
			// same cause as wrong-file:outside-root-sibling-probe, in a product without default file;
			// a 4xx for an existing file is not a violation of the statement
			r.Count("existing_file_answered_4xx_after_outside_sibling_probe", 1)
		} else {
			r.Count("existing_file_answered_4xx_other", 1)
		}
	case c50KDir:
		// docs are silent on directories: any refusal is accepted
		r.Count(fmt.Sprintf("directory_status_%d", status), 1)
	default:
		if status != 404 {
			why := c50MissingWhy(decoded)
			r.Violation(fmt.Sprintf("missing:status-%d:%s", status, why), fmt.Sprintf("%s %s (%s) designates no file (clean path %s), answered %d instead of 404",
				c.Method, c.Target, c.Route, c50Quote(c50Clean(decoded), 80), status), wit(nil))
			return
		}
		r.Count("missing_404", 1)
		if hostile {
			r.Count("missing_404_hostile_path", 1)
		}
	}
}

// ---- workload ---------------------------------------------------------------

var c50AEs = []string{"", "", "", "", "gzip", "gzip", "br", "gzip, br", "br,gzip", "deflate", "GZIP", "identity", "deflate, gzip", "*"}
var c50OtherMethods = []string{"POST", "PUT", "DELETE", "OPTIONS", "PATCH", "TRACE", "get", "head", "GETS", "PROPFIND", "CONNECT", "Get"}

func c50Method(g *vkit.Rand) string {
	switch x := g.Intn(100); {
	case x < 70:
		return "GET"
	case x < 82:
		return "HEAD"
	}
	return g.PickS(c50OtherMethods)
}

func c50Depth(rel string) int { return strings.Count(strings.Trim(rel, "/"), "/") + 1 }

// c50Intent picks the path the attacker "means" (before obfuscation).
func (t *c50Tree) intent(g *vkit.Rand, pr *c50Product) (string, string) {
	files, dirs, outside := t.relFiles[pr.Name], t.relDirs[pr.Name], t.outside[pr.Name]
	up := func(n int) string { return strings.Repeat("/..", n) }
	switch x := g.Intn(100); {
	case x < 30:
		return g.PickS(files), "existing-file"
	case x < 36:
		return g.PickS(dirs), "directory"
	case x < 46:
		return g.PickS([]string{"/nope.txt", "/sub/nope", "/a.txt.bak", "/A.TXT", "/index.htm", "/a.txt/x", "/sub/deep/deeper/file.bin/..a",
			"/emptydir/x", "/secret.txt", "/rootkit/secret", "/root/a.txt", "/INDEX.HTML", "/pre.txt.zip", "/a", "/.git/config"}), "missing"
	case x < 72:
		// out of the root through dot-dot: start in an existing directory, climb exactly to base
		d := g.PickS(dirs)
		n := c50Depth(pr.RootRel)
		if d != "/" {
			n += c50Depth(d)
		} else {
			d = ""
		}
		if g.Chance(1, 6) {
			n += g.Range(1, 3) // over-climb (ends above base)
		}
		return d + up(n) + g.PickS(outside), "dotdot-to-outside"
	case x < 78:
		// climb to the file-system root, come back by the absolute path
		return up(g.Range(10, 16)) + t.base + g.PickS(outside), "dotdot-to-fs-root"
	case x < 84:
		// the absolute file-system path as URL path
		if g.Bool() {
			return t.base + g.PickS(outside), "abs-fs-path"
		}
		return t.base + pr.RootRel + g.PickS(files), "abs-fs-path-inside"
	case x < 90:
		// sibling whose name has the root's name as prefix: <root>kit/secret, <root>.txt
		return g.PickS([]string{"kit/secret", ".txt", "/../rootkit/secret", "/../root.txt", "/../subway/x.txt", "way/x.txt", "/..kit/secret"}), "prefix-sibling"
	case x < 95:
		// leave and re-enter the root
		return up(c50Depth(pr.RootRel)) + pr.RootRel + g.PickS(files), "leave-and-reenter"
	}
	return g.PickS([]string{"/", "", "*", "//", "/.", "/..", "/...", "/%", "/.../a.txt", "/..../a.txt", ".", "..", "/~", "/./", "/a.txt/", "/a.txt/.", "/a.txt/..", "/sub/..", "/sub/../"}), "special"
}

func c50InsertAtSlash(g *vkit.Rand, p, ins string) string {
	var idx []int
	for i := 0; i < len(p); i++ {
		if p[i] == '/' {
			idx = append(idx, i)
		}
	}
	if len(idx) == 0 {
		return ins + p
	}
	i := idx[g.Intn(len(idx))]
	return p[:i] + ins + p[i:]
}

// c50Mutate applies path-level obfuscations that a correct resolver must undo
// (or that must make the name miss).
func c50Mutate(g *vkit.Rand, p string) string {
	for n := g.Intn(4); n > 0; n-- {
		switch g.Intn(16) {
		case 0:
			p = c50InsertAtSlash(g, p, "/.")
		case 1:
			p = c50InsertAtSlash(g, p, "/"+g.PickS([]string{"x", "sub", "a.txt", "emptydir", "..."})+"/..")
		case 2:
			p = c50InsertAtSlash(g, p, "/")
		case 3:
			p += "/"
		case 4:
			p += g.PickS([]string{".", " ", "...", "/.", "%20", "::$DATA", "~"})
		case 5:
			if i := strings.LastIndexByte(p, '/'); i > 0 {
				p = p[:i] + "\\" + p[i+1:]
			} else {
				p = strings.Replace(p, "/..", "\\..", 1)
			}
		case 6:
			p = strings.Replace(p, "/../", "/..\\", 1)
		case 7:
			p += g.PickS([]string{"\x00", "\x00.html", "\x00/../a.txt", "\x00.txt"})
		case 8:
			p = c50InsertAtSlash(g, p, "/x\x00y/..")
		case 9:
			p = c50InsertAtSlash(g, p, "/"+strings.Repeat("L", 300)+"/..")
		case 10:
			if i := strings.LastIndexByte(p, '/'); i >= 0 {
				p = p[:i+1] + strings.Repeat(g.PickS([]string{"n", "A", ".", "%"}), []int{256, 300, 1000}[g.Intn(3)])
			}
		case 11:
			p = strings.Repeat("/sub/..", g.Range(600, 700)) + p
		case 12:
			p = "/" + p
		case 13:
			p = strings.ToUpper(p)
		case 14:
			p = c50InsertAtSlash(g, p, "/"+strings.Repeat("d/", 2100)+strings.Repeat("../", 2099)+"..")
		case 15:
			p = strings.Replace(p, "/..", "/..;", 1)
		}
	}
	return p
}

func c50Hex(g *vkit.Rand, c byte) string {
	if g.Bool() {
		return fmt.Sprintf("%%%02x", c)
	}
	return fmt.Sprintf("%%%02X", c)
}

// c50Encode renders a path as request-target bytes.
func c50Encode(g *vkit.Rand, p string) string {
	mode := g.Intn(10)
	sloppy := g.Chance(1, 40) // leaves bytes raw that the reader may refuse
	var b strings.Builder
	for i := 0; i < len(p); i++ {
		c := p[i]
		must := c <= 0x20 || c == 0x7f || c == '%' || c == '?' || c == '#'
		enc := false
		switch {
		case must:
			enc = !sloppy
		case c >= 0x80:
			enc = mode != 1 && !sloppy
		case c == '.':
			enc = (mode == 2 || mode == 5 || mode == 8) && g.Chance(2, 3) || mode == 6
		case c == '/':
			enc = i > 0 && ((mode == 3 || mode == 5) && g.Chance(1, 2) || mode == 6 && g.Chance(1, 3))
		case c == '\\':
			enc = mode >= 4 && g.Bool()
		default:
			enc = mode == 6 || mode == 7 && g.Chance(1, 4)
		}
		if !enc {
			b.WriteByte(c)
			continue
		}
		h := c50Hex(g, c)
		switch {
		case mode == 8 && c == '.':
			h = "%25" + h[1:] // double encoding: decodes once to the literal "%2e"
		case mode == 9 && c == '.' && g.Bool():
			h = "%c0%ae" // overlong UTF-8: must stay two opaque bytes
		case mode == 9 && c == '/' && i > 0 && g.Chance(1, 3):
			h = "%c0%af"
		}
		b.WriteString(h)
	}
	s := b.String()
	if mode == 9 {
		s = strings.Replace(s, "..", "%c0%ae%c0%ae", 1)
	}
	return s
}

func c50WrapTarget(g *vkit.Rand, tg string) string {
	if strings.HasPrefix(tg, "/") || tg == "" {
		switch g.Intn(14) {
		case 0:
			tg = "http://" + g.PickS([]string{"h", "c50.example:80", "[::1]", "H"}) + tg
		case 1:
			tg = "//" + g.PickS([]string{"host", "c50.example", ".."}) + tg
		case 2:
			tg = g.PickS([]string{"https://h", "HTTP://h"}) + tg
		}
	}
	switch g.Intn(12) {
	case 0:
		tg += "?" + g.PickS([]string{"", "x=1", "f=../../secret.txt", "/../secret.txt", "../secret.txt", "%2e%2e/secret.txt", "a=%zz"})
	case 1:
		tg += "#" + g.PickS([]string{"", "frag", "/../secret.txt"})
	}
	return tg
}

func (t *c50Tree) randomCase(r *vkit.Run, i int) *c50Case {
	g := r.Rng("case", i)
	pr := t.prodList[g.Intn(len(t.prodList))]
	p, class := t.intent(g, pr)
	if g.Chance(3, 5) {
		p = c50Mutate(g, p)
	}
	method := c50Method(g)
	ae := g.PickS(c50AEs)
	if g.Chance(1, 4) {
		// other front-ends (HTTP/2, SPDY) deliver :path without the HTTP/1 reader
		if g.Chance(1, 3) {
			p = strings.TrimPrefix(p, "/")
		}
		return c50NewCase(pr.Name, method, ae, "direct", p, class)
	}
	return c50NewCase(pr.Name, method, ae, "h1", c50WrapTarget(g, c50Encode(g, p)), class)
}

var c50DotDots = []string{"..", "%2e%2e", "%2E%2E", ".%2e", "%2e.", "%2E%2e", "%252e%252e", "%c0%ae%c0%ae", "...", "....", "..;", "..%00", "..%20", "%2e%2e%00", ".%00."}
var c50Seps = []string{"/", "%2f", "%2F", "\\", "%5c", "//", "/./", "%252f"}

// sweep is the seed-independent systematic part: every dot-dot spelling x
// separator spelling x start directory x outside target x product.
func (t *c50Tree) sweep(r *vkit.Run) []*c50Case {
	var cs []*c50Case
	for _, pr := range t.prodList {
		starts := []string{"", "/sub", "/a.txt"}
		if pr.Name == "c50sub" {
			starts = []string{"", "/deep", "/a.txt"}
		}
		targets := []string{"/secret.txt", "/rootkit/secret", "/a.txt"}
		if pr.Name == "c50sub" {
			targets = append(targets, "/root/a.txt", "/root/pre.txt", "/root/subway/x.txt")
		} else {
			targets = append(targets, "/index.html")
		}
		for _, st := range starts {
			n := c50Depth(pr.RootRel)
			if st != "" {
				n++
			}
			for _, tgt := range targets {
				for _, dd := range c50DotDots {
					for _, sep := range c50Seps {
						tg := st + strings.Repeat(sep+dd, n) + strings.Replace(tgt, "/", sep, -1)
						if !strings.HasPrefix(tg, "/") {
							tg = "/" + tg
						}
						methods, aes := []string{"GET"}, []string{""}
						if dd == ".." || dd == "%2e%2e" {
							aes = []string{"", "gzip", "br"}
						}
						if !r.Quick() {
							methods = []string{"GET", "HEAD", "POST"}
							aes = []string{"", "gzip", "br", "gzip, br"}
						}
						for _, m := range methods {
							for _, ae := range aes {
								cs = append(cs, c50NewCase(pr.Name, m, ae, "h1", tg, "sweep"))
								if dec, ok, bad := c50DecodeTarget(tg); ok && !bad && (sep == "/" || sep == "\\" || sep == "//") {
									cs = append(cs, c50NewCase(pr.Name, m, ae, "direct", dec, "sweep"))
									cs = append(cs, c50NewCase(pr.Name, m, ae, "direct", strings.TrimPrefix(dec, "/"), "sweep"))
								}
							}
						}
					}
				}
			}
		}
		// every file and directory, plainly, by every method class and encoding offer
		for _, m := range []string{"GET", "HEAD", "POST", "PUT", "get"} {
			for _, ae := range []string{"", "gzip", "br", "gzip, br"} {
				for _, f := range append(append([]string{}, t.relFiles[pr.Name]...), t.relDirs[pr.Name]...) {
					g := vkit.NewRand(vkit.Hash64(f))
					full := strings.Builder{}
					for k := 0; k < len(f); k++ {
						c := f[k]
						if c <= 0x20 || c >= 0x7f || strings.IndexByte("%?#", c) >= 0 {
							full.WriteString(c50Hex(g, c))
						} else {
							full.WriteByte(c)
						}
					}
					cs = append(cs, c50NewCase(pr.Name, m, ae, "h1", full.String(), "plain"))
					if m == "GET" && ae == "" {
						cs = append(cs, c50NewCase(pr.Name, m, ae, "direct", f, "plain"))
						cs = append(cs, c50NewCase(pr.Name, m, ae, "h1", full.String()+"/", "plain-trailing-slash"))
						cs = append(cs, c50NewCase(pr.Name, m, ae, "h1", full.String()+"%00", "plain-nul"))
						cs = append(cs, c50NewCase(pr.Name, m, ae, "h1", full.String()+".", "plain-trailing-dot"))
					}
				}
			}
		}
	}
	return cs
}

func c50(r *vkit.Run) {
	r.SetRule("fixed symlink-free tree (46 files below the root, 11 sentinels outside: 0 B, 64 KiB+-1, 200 kB, names with space/dots/unicode/backslash/%/?/#/*, 255-byte name, directory named like a file, a directory literally named %2e%2e, .gz/.br siblings) below <base>/root; SENTINEL files outside it (<base>/secret.txt, index.html, a.txt.gz, rootkit/..., root.txt). 4 products in one rule file (root with default index.html; root without default; nested root <base>/root/sub; root written with trailing slash and default sub/deep/index.html), EnableCompress=true, one module instance, rule file loaded through the reload handler. Cases = seed-independent sweep (15 dot-dot spellings x 8 separator spellings x start dir x outside target x product; every file/dir by 5 methods x 4 Accept-Encoding) + seeded cases: intent (existing file, directory, missing, dot-dot to a sentinel, climb to fs root and back by absolute path, absolute fs path, prefix-named sibling, leave-and-reenter, special targets * // /.. empty) -> 0-3 obfuscations (/./, x/.., //, trailing / . space, backslash, NUL, 300-byte and 4 kB segments cancelled by .., >4 kB dot-dot chains, case change, ..;) -> request-target encoding (raw, %2e, %2f, %5c, mixed case hex, all bytes, double encoding %252e, overlong %c0%ae), optional absolute-form / //host prefix / query / fragment. 3/4 go through bfe_http.ReadRequest (lines it refuses are counted, they never reach the module), 1/4 set URL.Path directly (with and without leading slash), because HTTP/2 and SPDY front-ends deliver :path without the HTTP/1 reader. Oracle: in-memory reference, segment-stack clean of the decoded path confined to the root; response = 200 with exactly the designated file's bytes (or its .gz/.br sibling labelled with a Content-Encoding the request offered; negotiation is undocumented so both are accepted) and one Content-Length equal to the body, or the default file under the same rules for directory/missing, or 4xx; missing + no default file: exactly 404; directory + no default file: any non-2xx (docs silent; module answers 500); methods other than GET/HEAD: any non-2xx without file bytes (docs silent on the code; module answers 405); HEAD: empty body, Content-Length of the designated file; no sentinel marker in any header or body. Content-Type, Last-Modified and Range are not judged. Non-trivial = reached the module handler and (designates an existing file or the path has a hostile element: .., //, /./, backslash, NUL, %-escape, no leading slash, trailing / . space, over-long segment); distinct = (product, method, Accept-Encoding, route, target bytes)")
	r.Assume("bfe_http.ReadRequest + net/url deliver the singly percent-decoded path (cross-checked per case against an own decoder for origin-form and absolute-form targets; other forms use the reader's path)")
	r.Assume("the scratch file system is a case-sensitive POSIX file system with NAME_MAX 255 and no symlinks in the tree; the reference models the tree in memory and never reads the disk")
	r.Assume("rule files are trusted configuration: a default file outside the root is not tested")

	base := filepath.Join(scratch(), "c50", "base")
	t, err := c50BuildTree(base)
	if err != nil {
		r.Inconclusive("cannot build the tree: " + err.Error())
		return
	}
	confRoot := filepath.Join(scratch(), "c50", "conf")
	writeFile(filepath.Join(confRoot, "mod_static", "mod_static.conf"), []byte("[basic]\nDataPath = mod_static/static_rule.data\nMimeTypePath = mod_static/mime_type.data\nEnableCompress = true\n\n[log]\nOpenDebug = false\n"))
	writeFile(filepath.Join(confRoot, "mod_static", "mime_type.data"), []byte(`{"Version": "c50", "Config": {".txt": "text/plain", ".BIN": "application/octet-stream"}}`))
	// start with one product, bring in the full rule set through the reload handler
	writeFile(filepath.Join(confRoot, "mod_static", "static_rule.data"), t.ruleFile(t.prodList[:1]))
	full := filepath.Join(confRoot, "mod_static", "static_rule.full.data")
	writeFile(full, t.ruleFile(t.prodList))
	env := newModEnv()
	m := mod_static.NewModuleStatic()
	if err := m.Init(env.cbs, env.whs, confRoot); err != nil {
		r.Inconclusive("mod_static Init failed: " + err.Error())
		return
	}
	if err := env.reload("mod_static", full); err != nil {
		r.Inconclusive("mod_static reload failed: " + err.Error())
		return
	}

	if r.Replay != "" {
		var w struct {
			Case c50Case `json:"case"`
		}
		if err := r.LoadReplay(&w); err != nil {
			r.Inconclusive(err.Error())
			return
		}
		w.Case.Target = c50Quote(w.Case.target(), 300)
		c50Eval(r, env, t, &w.Case)
		r.SetMinDistinct(0)
		return
	}

	sw := t.sweep(r)
	r.Count("sweep_cases", int64(len(sw)))
	vkit.Parallel(len(sw), 0, func(i int) { c50Eval(r, env, t, sw[i]) })
	n := r.N(30000, 600000) - len(sw)
	if n < r.N(15000, 300000) {
		n = r.N(15000, 300000)
	}
	r.Count("seeded_cases", int64(n))
	vkit.Parallel(n, 0, func(i int) { c50Eval(r, env, t, t.randomCase(r, i)) })

	for _, k := range []string{"served_200_exact", "missing_404", "refused_method", "served_default_file", "served_precompressed_sibling",
		"head_ok", "served_via_hostile_path", "missing_404_hostile_path", "direct_url_path_requests", "http_reader_refused", "served_over_64k", "served_empty_file"} {
		if r.Counter(k) == 0 {
			r.Inconclusive("outcome never reached: " + k)
		}
	}
}
