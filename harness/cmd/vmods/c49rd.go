package main

import (
	"encoding/json"
	"fmt"
	"net/url"
	"path/filepath"
	"sort"
	"strings"
	"sync"

	"github.com/bfenetworks/bfe/bfe_module"
	"github.com/bfenetworks/bfe/bfe_modules/mod_redirect"

	"verifharness/vkit"
)

// C49, redirect family: "every documented ... redirect action ... transforms
// the ... redirect location exactly as documented".
//
// docs/en_us/modules/mod_redirect/mod_redirect.md documents exactly four
// actions and the rule field Status ("Status code"):
//
//	URL_SET         Redirect to specified URL
//	URL_FROM_QUERY  Redirect to URL parsed from specified query in request
//	URL_PREFIX_ADD  Redirect to URL concatenated by specified prefix and the original URL
//	SCHEME_SET      Redirect to the original URL but with scheme changed (http|https)
//
// The reference model below is written from that table. "The original URL" is
// what the client sent: the request-target of the request line, BYTE FOR BYTE
// (an escaped octet is part of the URL: /a%2Fb and /a/b are different
// resources, %41 and A are different spellings the origin may distinguish,
// %e4 and %E4 likewise). The family of c49.go compares the location only after
// percent-decoding both sides, so a location built from the decoded path was
// invisible to it; here
//
//	URL_SET [u]         location == u
//	URL_FROM_QUERY [k]  location == decoded value of the only query parameter
//	                    whose decoded name is k (net/url query semantics)
//	URL_PREFIX_ADD [p]  location == p + request-target
//	SCHEME_SET [s]      location == s + "://" + Host + request-target
//	status              == the rule's Status, handler returns BfeHandlerRedirect
//
// The real module is driven: an own mod_redirect instance, rules through its
// registered reload handler (each configuration first alone), requests parsed
// from wire bytes by bfe_http.ReadRequest, the handler the module registered
// at HandleFoundProduct; observed: req.Redirect.Url / req.Redirect.Code (what
// bfe_server hands to its response writer).
//
// Request-targets: a path class x a query class, both round-robin so that
// every combination class occurs for every action at every seed.
//
// Not judged / not generated (docs silent), said so:
//   - request-targets with bytes outside RFC 3986 path characters (raw space,
//     '"', '<', '>', '\', '^', '`', '{', '|', '}', '#', bytes >= 0x80 in the
//     PATH): not a URL; whether such a target is repaired or passed on is not
//     documented - not generated. Fragments are never sent by a client.
//   - targets the HTTP reader refuses (invalid escape in the path): counted.
//   - absolute-form request lines: "the original URL" is read as the target's
//     path-and-query (the part behind the authority), the authority is the
//     Host; only targets whose authority equals the Host header are generated.
//   - URL_FROM_QUERY with the parameter absent, empty or repeated.
//   - SCHEME_SET parameters other than lower-case http / https.
//   - what bfe_server.Redirect later does to a location WITHOUT scheme
//     (path.Clean of "/prefix..." locations): response building of another
//     package, not an action of mod_redirect.md.

type c49RdCase struct {
	Conf   c49Conf `json:"conf"`
	Req    c49Req  `json:"req"`
	PClass string  `json:"path_class"`
	QClass string  `json:"query_class"`
}

func c49RdConfs() []c49Conf {
	var cs []c49Conf
	statuses := []int{301, 302, 303, 307, 308}
	add := func(cmd, param string) {
		cs = append(cs, c49Conf{Mod: "redirect", Status: statuses[len(cs)%len(statuses)], Actions: []c49Action{{Cmd: cmd, Params: []string{param}}}})
	}
	for _, u := range []string{"https://example.org", "/landing?x=1", "https://example.org/a%20b?c=d#frag", "https://example.org/%E4%B8%AD/%e6?q=%2F%3f&r=%25", "//cdn.example.org/x", "https://example.org/p?next=/a%2Fb"} {
		add("URL_SET", u)
	}
	for _, k := range []string{"url", "next", "u"} {
		add("URL_FROM_QUERY", k)
	}
	for _, p := range []string{"https://new.example.org", "/prefix", "http://m.example.org:8080/mobile", "https://example.org/a%20b", "/p%2Fq", "https://sso.example.org/login?return="} {
		add("URL_PREFIX_ADD", p)
	}
	add("SCHEME_SET", "https")
	add("SCHEME_SET", "http")
	add("SCHEME_SET", "https")
	for i := range cs {
		cs[i].Product = fmt.Sprintf("rq%d", i)
	}
	return cs
}

// ---- request-target classes ---------------------------------------------------------

type c49RdClass struct {
	name string
	gen  func(g *vkit.Rand) string
}

func c49RdPick(xs ...string) func(g *vkit.Rand) string {
	return func(g *vkit.Rand) string { return g.PickS(xs) }
}

var c49RdPathClasses = []c49RdClass{
	{"plain", c49RdPick("/docs/index.html", "/a", "/a/b/c/", "/index.html")},
	{"root", c49RdPick("/")},
	{"space-%20", c49RdPick("/docs/a%20b.html", "/%20/x", "/a/b%20", "/a%20%20b/")},
	{"slash-%2F", c49RdPick("/files/a%2Fb/c", "/%2F", "/a%2F", "/a%2F%2Fb")},
	{"question-%3F", c49RdPick("/search%3Fq=1/page", "/a%3F", "/%3Fx=1")},
	{"hash-%23", c49RdPick("/a%23frag/b", "/%23", "/doc.html%23top")},
	{"amp-eq-%26-%3D", c49RdPick("/a%26b%3Dc", "/k%3Dv/x%26y", "/%26%3D")},
	{"percent-%25", c49RdPick("/100%25/x", "/a%2520b", "/%25", "/%252F")},
	{"utf8-escapes", c49RdPick("/%E4%B8%AD%E6%96%87/", "/caf%C3%A9", "/%F0%9F%98%80/x", "/a/%D0%BA%D0%BB%D1%8E%D1%87")},
	{"lower-hex", c49RdPick("/a%2fb", "/%e4%b8%ad", "/a%3fb%23c", "/caf%c3%a9")},
	{"mixed-hex", c49RdPick("/a%2Fb%2fc", "/%E4%b8%Ad", "/%c3%A9/%C3%a9")},
	{"unreserved-encoded", c49RdPick("/%41%42c", "/%7Euser/x", "/a%2Db%2Ec%5Fd", "/%61/%30")},
	{"encoded-dots", c49RdPick("/a/%2E%2E/b", "/%2e/x", "/a/%2E/b/", "/..%2Fx")},
	{"dot-segments", c49RdPick("/a/../b", "/./a", "/a/b/..", "/a/./b/", "/../x", "/a/.../b")},
	{"double-slash", c49RdPick("//a/b", "/a//b", "/a/b//", "///", "//")},
	{"sub-delims", c49RdPick("/a;p=1,q/b=c&d+e$f", "/!g*h'i(j)k", "/l:m@n", "/+/=/&")},
	{"plus-and-%2B", c49RdPick("/a+b/c%2Bd", "/%2B", "/+")},
	{"control-escapes", c49RdPick("/a%00b", "/a%0Ab%0D", "/%09/x", "/%7F")},
	{"invalid-utf8-escapes", c49RdPick("/%FF%FE/x", "/a%C3", "/%80")},
	{"trailing-escape", c49RdPick("/a/b%2F", "/a/b%20", "/a%3F", "/x%25")},
	{"mixture", func(g *vkit.Rand) string {
		pool := []string{"a", "b%20c", "%2F", "%2f", "..", ".", "", "%E4%B8%AD", "%e4%b8%ad", "x;y=1", "%3Fq", "%23", "%25", "%41", "d+e", "%26%3D", "index.html"}
		n := 2 + g.Intn(5)
		var sb strings.Builder
		for i := 0; i < n; i++ {
			sb.WriteString("/" + pool[g.Intn(len(pool))])
		}
		if g.Chance(1, 3) {
			sb.WriteString("/")
		}
		return sb.String()
	}},
}

type c49RdQ struct {
	name string
	gen  func(g *vkit.Rand) (q string, has bool)
}

func c49RdQPick(xs ...string) func(g *vkit.Rand) (string, bool) {
	return func(g *vkit.Rand) (string, bool) { return g.PickS(xs), true }
}

var c49RdQueryClasses = []c49RdQ{
	{"none", func(g *vkit.Rand) (string, bool) { return "", false }},
	{"question-only", func(g *vkit.Rand) (string, bool) { return "", true }},
	{"plain", c49RdQPick("a=1&b=2", "x=1", "real=1", "k")},
	{"escapes", c49RdQPick("q=a%20b&r=%2F%3F%23%26%3D%25", "s=%E4%B8%AD&t=%2f%e4%b8%ad", "%61=%41", "a%20b=c%2Bd")},
	{"invalid-escapes", c49RdQPick("a=%zz&b=1", "a=%", "a=%4", "%=%&x=%G1")},
	{"plus", c49RdQPick("q=a+b", "+=+", "a+b=c+d&e=%2B")},
	{"second-question", c49RdQPick("a=1?b=2", "?", "??x", "u=/p?q=1")},
	{"raw-reserved", c49RdQPick("next=/x/y:z@w;v,u", "a=b=c", "p=/a/../b//c", "k=!$'()*")},
	{"empty-parts", c49RdQPick("&&a=&=b&", "&", "=", "a=&&b")},
	{"url-values", func(g *vkit.Rand) (string, bool) { return c49RdURLValues(g, "") }},
}

// c49RdURLValues: a query with one URL-valued parameter; name "" = any of url/next/u.
func c49RdURLValues(g *vkit.Rand, name string) (string, bool) {
	key := g.PickS([]string{"url", "next", "u"})
	if name != "" && g.Chance(3, 4) {
		key = name
	}
	if g.Chance(1, 4) {
		key = fmt.Sprintf("%%%02X", key[0]) + key[1:] // first byte of the name percent-encoded
	}
	val := g.PickS([]string{
		"https%3A%2F%2Ft.example%2Fp%3Fq%3D1%26r%3D2", "%2Frel%2Fpath", "http://t.example/p?q=1", "/rel/a%2Fb", "https://t.example/a+b", "https://t.example/a%2Bb",
		"https%3a%2f%2ft.example%2f%e4%b8%ad", "https://t.example/%25", "//t.example/x", "/x%3Fy%3D1%23z",
	})
	parts := []string{key + "=" + val}
	for k := g.Intn(3); k > 0; k-- {
		other := g.PickS([]string{"a=1", "b=%20", "url2=zzz", "xurl=1", "nextt=2", "c=%zz", "uu=3", ""})
		if g.Bool() {
			parts = append(parts, other)
		} else {
			parts = append([]string{other}, parts...)
		}
	}
	if g.Chance(1, 8) { // repeated: not judged for URL_FROM_QUERY
		parts = append(parts, key+"=https://other.example/")
	}
	return strings.Join(parts, "&"), true
}

var c49RdHosts = []string{"www.example.com", "img.example.com:8080", "example.com", "a.b.example.org", "[2001:db8::1]:8080", "127.0.0.1", "x.test:80"}

func c49RdGen(g *vkit.Rand, conf c49Conf, i int) *c49RdCase {
	pc := c49RdPathClasses[i%len(c49RdPathClasses)]
	qc := c49RdQueryClasses[(i/len(c49RdPathClasses))%len(c49RdQueryClasses)]
	if conf.Actions[0].Cmd == "URL_FROM_QUERY" && g.Chance(2, 3) {
		qc = c49RdQueryClasses[len(c49RdQueryClasses)-1]
	}
	c := &c49RdCase{Conf: conf, PClass: pc.name, QClass: qc.name}
	c.Req = c49Req{Method: g.PickS([]string{"GET", "GET", "HEAD", "POST"}), Abs: g.Chance(1, 6), Host: c49RdHosts[g.Intn(len(c49RdHosts))]}
	c.Req.Path = pc.gen(g)
	if qc.name == "url-values" && conf.Actions[0].Cmd == "URL_FROM_QUERY" {
		c.Req.Query, c.Req.HasQ = c49RdURLValues(g, conf.Actions[0].Params[0])
	} else {
		c.Req.Query, c.Req.HasQ = qc.gen(g)
	}
	if c.Req.Method == "POST" {
		c.Req.Headers = append(c.Req.Headers, [2]string{"Content-Length", "0"})
	}
	c.Req.Cluster, c.Req.ClientIP, c.Req.ClientPort = "cluster_a", "198.51.100.7", 40000
	return c
}

// c49RdValidPath: only RFC 3986 path characters (pchar and '/').
func c49RdValidPath(p string) bool {
	for i := 0; i < len(p); i++ {
		c := p[i]
		switch {
		case c >= 'a' && c <= 'z', c >= 'A' && c <= 'Z', c >= '0' && c <= '9':
		case strings.IndexByte("-._~!$&'()*+,;=:@/%", c) >= 0:
		default:
			return false
		}
	}
	return strings.HasPrefix(p, "/")
}

// c49RdModel is the documented location. why != "" names an undecided corner.
func c49RdModel(c *c49RdCase) (want string, why string) {
	a := c.Conf.Actions[0]
	target := c49Target(&c.Req)
	switch a.Cmd {
	case "URL_SET":
		return a.Params[0], ""
	case "URL_FROM_QUERY":
		var vals []string
		for _, p := range c49ParseQuery(c.Req.Query) {
			if p.K == a.Params[0] {
				vals = append(vals, p.V)
			}
		}
		if len(vals) != 1 || vals[0] == "" {
			return "", "url-from-query:absent-empty-or-repeated"
		}
		return vals[0], ""
	case "URL_PREFIX_ADD":
		if !c49RdValidPath(c.Req.Path) {
			return "", "target-not-a-url"
		}
		return a.Params[0] + target, ""
	case "SCHEME_SET":
		if !c49RdValidPath(c.Req.Path) {
			return "", "target-not-a-url"
		}
		return a.Params[0] + "://" + c.Req.Host + target, ""
	}
	return "", "undocumented-command"
}

// c49RdDiag names how a location deviates from the documented one.
func c49RdDiag(c *c49RdCase, got, want string) string {
	cmd := c.Conf.Actions[0].Cmd
	if cmd != "URL_PREFIX_ADD" && cmd != "SCHEME_SET" {
		return "differs"
	}
	target := c49Target(&c.Req)
	pre := want[:len(want)-len(target)]
	if !strings.HasPrefix(got, pre) {
		return "prefix-part-differs"
	}
	split := func(s string) (p, q string, has bool) {
		if i := strings.Index(s, "?"); i >= 0 {
			return s[:i], s[i+1:], true
		}
		return s, "", false
	}
	gp, gq, gh := split(got[len(pre):])
	if gp == c.Req.Path {
		if gq != c.Req.Query || gh != c.Req.HasQ {
			return "query-not-preserved"
		}
		return "differs"
	}
	// got's first '?' may come out of the path when an escaped '?' was decoded
	rest := got[len(pre):]
	dw, e1 := url.PathUnescape(c.Req.Path)
	if e1 == nil && (strings.HasPrefix(rest, dw) || strings.EqualFold(gp, c.Req.Path)) {
		return "path-escapes-not-preserved"
	}
	if dg, e2 := url.PathUnescape(gp); e1 == nil && e2 == nil && dg == dw {
		return "path-escapes-not-preserved"
	}
	return "path-not-preserved"
}

// ---- execution -------------------------------------------------------------------------

type c49RdStats struct {
	mu sync.Mutex
	n  map[string]int64
}

func (s *c49RdStats) add(k string, d int64) {
	s.mu.Lock()
	s.n[k] += d
	s.mu.Unlock()
}

func c49RdCheck(r *vkit.Run, env *modEnv, st *c49RdStats, c *c49RdCase) {
	cc := &c49Case{Conf: c.Conf, Req: c.Req}
	wit := func(extra map[string]interface{}) map[string]interface{} {
		w := map[string]interface{}{"redirect_case": c, "raw_request": string(c49Raw(&c.Req))}
		for k, v := range extra {
			w[k] = v
		}
		return w
	}
	a := c.Conf.Actions[0]
	key, _ := json.Marshal(c)
	req, err := c49BuildReq(cc)
	if err != nil {
		st.add("rd_http_reader_refused", 1)
		st.add("rd_http_reader_refused["+c.PClass+"]", 1)
		r.CaseS(string(key), false)
		return
	}
	var code int
	if r.Try(func() interface{} { return wit(nil) }, func() {
		code, _ = env.request(bfe_module.HandleFoundProduct, req)
	}) {
		return
	}
	st.add("rd_cases", 1)
	want, why := c49RdModel(c)
	r.CaseS(string(key), why == "")
	if code != bfe_module.BfeHandlerRedirect {
		r.Violation(a.Cmd+":no-redirect", fmt.Sprintf("handler returned %d, want BfeHandlerRedirect", code), wit(nil))
		return
	}
	if req.Redirect.Code != c.Conf.Status {
		r.Violation(a.Cmd+":status", fmt.Sprintf("redirect code %d, configured Status %d", req.Redirect.Code, c.Conf.Status), wit(nil))
		return
	}
	st.add(fmt.Sprintf("rd_status_ok[%d]", c.Conf.Status), 1)
	if why != "" {
		st.add("rd_not_judged["+why+"]", 1)
		return
	}
	got := req.Redirect.Url
	if got != want {
		diag := c49RdDiag(c, got, want)
		r.Violation(a.Cmd+":redirect-location:"+diag,
			fmt.Sprintf("request-target %q (path class %s, query class %s): location %q, documented %s gives %q", c49Target(&c.Req), c.PClass, c.QClass, got, a.Cmd, want),
			wit(map[string]interface{}{"location": got, "documented_location": want}))
		return
	}
	st.add("rd_ok", 1)
	st.add("rd_ok["+a.Cmd+"]", 1)
	if a.Cmd == "URL_PREFIX_ADD" || a.Cmd == "SCHEME_SET" {
		st.add("rd_cell["+a.Cmd+"|"+c.PClass+"]", 1)
		st.add("rd_qcell["+a.Cmd+"|"+c.QClass+"]", 1)
		if strings.Contains(c.Req.Path, "%") {
			st.add("rd_ok_original_url_with_path_escape", 1)
		}
	}
	if a.Cmd == "URL_FROM_QUERY" && want != "" {
		if raw := c.Req.Query; strings.Contains(raw, "%") || strings.Contains(raw, "+") {
			st.add("rd_ok_url_from_encoded_query", 1)
		}
	}
	if r.WantSample() && strings.Contains(c.Req.Path, "%") && (a.Cmd == "SCHEME_SET" || a.Cmd == "URL_PREFIX_ADD") {
		st.mu.Lock()
		first := st.n["rd_sampled["+a.Cmd+"]"] == 0
		st.n["rd_sampled["+a.Cmd+"]"]++
		st.mu.Unlock()
		if first {
			r.Sample(map[string]interface{}{"redirect_action": a, "status": c.Conf.Status, "request_target": c49Target(&c.Req), "host": c.Req.Host, "location": got})
		}
	}
}

const c49RdRule = " REDIRECT FAMILY (c49rd.go; own mod_redirect instance and case stream): all four actions of mod_redirect.md - 6 URL_SET (absolute, path-only, with escapes/fragment, scheme-relative), 3 URL_FROM_QUERY (url, next, u), 6 URL_PREFIX_ADD (scheme+host, path, host:port+path, prefix with %20 / %2F, prefix ending in '?return='), 3 SCHEME_SET (https, http) - " +
	"with Status 301/302/303/307/308 round-robin; each configuration first loaded alone through the module's reload handler, then all together; requests parsed from wire bytes by bfe_http.ReadRequest and run through the handler the module registered at HandleFoundProduct; observed req.Redirect.Url/Code. " +
	"Request-target = path class x query class, both ROUND-ROBIN over the case index (every class for every action at every seed). Path classes (21): plain, root, %20, %2F, %3F, %23, %26/%3D, %25 (incl. double encoding %2520, %252F), UTF-8 escape sequences (2-4 bytes), lower-case hex, mixed-case hex, escaped unreserved (%41 %7E %2D), escaped dots (%2E%2E), raw dot segments, '//' (start, middle, end), raw sub-delims and ':' '@', '+' and %2B, control escapes (%00 %0A %09 %7F), escapes that are not UTF-8 (%FF %C3), escape at the very end, seeded mixtures of 2-6 such segments. " +
	"Query classes (10): none, '?' only, plain, escapes of every kind incl. lower hex and escaped names, invalid escapes (%zz, lone %, %4 - the HTTP reader passes the raw query), '+', a second '?', raw reserved characters, empty parts ('&&', '='), URL-valued parameters (url/next/u, name literal or first byte escaped, value percent-encoded / raw / with '+' and %2B / lower hex, surrounded by look-alike names, 1 in 8 repeated). Origin-form, 1 in 6 absolute-form (authority = Host header); GET/HEAD/POST; 7 hosts incl. host:port and an IPv6 literal. " +
	"Model (from the action table): URL_SET -> the configured string; URL_FROM_QUERY -> decoded value (net/url query semantics) of the only parameter whose decoded name equals the configured one; URL_PREFIX_ADD -> prefix + request-target BYTE FOR BYTE; SCHEME_SET -> scheme + '://' + Host + request-target BYTE FOR BYTE " +
	"('the original URL' is what the client sent: escaped octets, their hex case, dot segments, '//', an empty query with its '?' are part of it); redirect code == Status and the handler answers BfeHandlerRedirect in every case. Oracle: string equality. " +
	"Not judged / not generated (docs silent): request-targets whose path has bytes outside RFC 3986 path characters (raw space, quote, '<>\\^`{|}', '#', >= 0x80: not a URL); targets the HTTP reader refuses (counted); absolute-form with an authority different from Host; URL_FROM_QUERY with the parameter absent, empty or repeated; SCHEME_SET parameters other than lower-case http/https; " +
	"what bfe_server.Redirect later does to a location without scheme (path.Clean) - response building, not a mod_redirect action. Inconclusive if for URL_PREFIX_ADD or SCHEME_SET any path class or query class was never judged equal, or any action / status never judged. Non-trivial = judged case; distinct = whole (configuration, request)."

func c49RdFile(cs []c49Conf) []byte { return c49RedirectFile(cs) }

// c49RdSetup initialises an own mod_redirect and loads the family's rules.
func c49RdSetup(r *vkit.Run) (*modEnv, []c49Conf) {
	root := filepath.Join(scratch(), "c49rdconf")
	env := newModEnv()
	writeFile(filepath.Join(root, "mod_redirect", "mod_redirect.conf"), []byte("[Basic]\nDataPath = mod_redirect/redirect.data\n"))
	writeFile(filepath.Join(root, "mod_redirect", "redirect.data"), []byte(`{"Version": "c49rd-empty", "Config": {}}`))
	if err := mod_redirect.NewModuleRedirect().Init(env.cbs, env.whs, root); err != nil {
		r.Inconclusive("mod_redirect Init (redirect family): " + err.Error())
		return nil, nil
	}
	var ok []c49Conf
	for i, c := range c49RdConfs() {
		one := c
		one.Product = "probe"
		p := filepath.Join(root, "mod_redirect", fmt.Sprintf("probe-%d.data", i))
		data := c49RdFile([]c49Conf{one})
		writeFile(p, data)
		if err := env.reload("mod_redirect", p); err != nil {
			r.Violation(c.Actions[0].Cmd+":rejected-by-loader:redirect-family", fmt.Sprintf("documented mod_redirect action %s %q with Status %d is rejected by the rule loader: %v", c.Actions[0].Cmd, c.Actions[0].Params, c.Status, err),
				map[string]interface{}{"module": "mod_redirect", "rule_file": string(data), "error": err.Error()})
			continue
		}
		r.Count("rd_confs_loaded", 1)
		ok = append(ok, c)
	}
	p := filepath.Join(root, "mod_redirect", "all.data")
	writeFile(p, c49RdFile(ok))
	if err := env.reload("mod_redirect", p); err != nil {
		r.Violation("load-rejected-valid:mod_redirect:redirect-family", "rule file made of individually accepted documented actions is rejected: "+err.Error(), string(c49RdFile(ok)))
		return nil, nil
	}
	return env, ok
}

// c49RdReplay handles a replay file of this family; false = not one of ours.
func c49RdReplay(r *vkit.Run) bool {
	var w struct {
		Case *c49RdCase `json:"redirect_case"`
	}
	if err := r.LoadReplay(&w); err != nil || w.Case == nil {
		return false
	}
	r.SetMinDistinct(0)
	env, confs := c49RdSetup(r)
	if env == nil {
		r.Evals(1)
		return true
	}
	found := false
	for _, cf := range confs {
		a, _ := json.Marshal(cf.Actions)
		b, _ := json.Marshal(w.Case.Conf.Actions)
		if string(a) == string(b) && cf.Status == w.Case.Conf.Status {
			w.Case.Conf.Product, found = cf.Product, true
		}
	}
	if !found {
		r.Inconclusive("replay: the configuration of the witness is not part of the redirect family any more")
		return true
	}
	st := &c49RdStats{n: map[string]int64{}}
	c49RdCheck(r, env, st, w.Case)
	c49RdFinish(r, st, nil)
	return true
}

func c49RdRun(r *vkit.Run) {
	env, confs := c49RdSetup(r)
	if env == nil || len(confs) == 0 {
		return
	}
	st := &c49RdStats{n: map[string]int64{}}
	per := r.N(len(c49RdPathClasses)*len(c49RdQueryClasses)*2, len(c49RdPathClasses)*len(c49RdQueryClasses)*40)
	vkit.Parallel(len(confs)*per, 0, func(i int) {
		cf := confs[i%len(confs)]
		k := i / len(confs)
		g := r.Rng("rd-req", i)
		c49RdCheck(r, env, st, c49RdGen(g, cf, k))
	})
	c49RdFinish(r, st, confs)
}

func c49RdFinish(r *vkit.Run, st *c49RdStats, confs []c49Conf) {
	st.mu.Lock()
	defer st.mu.Unlock()
	cells := map[string]int64{}
	keys := make([]string, 0, len(st.n))
	for k := range st.n {
		keys = append(keys, k)
	}
	sort.Strings(keys)
	for _, k := range keys {
		switch {
		case strings.HasPrefix(k, "rd_cell["), strings.HasPrefix(k, "rd_qcell["), strings.HasPrefix(k, "rd_sampled["), strings.HasPrefix(k, "rd_http_reader_refused["):
			cells[k] = st.n[k]
		default:
			r.Count(k, st.n[k])
		}
	}
	r.Extra("c49_redirect_family_judged_equal_by_action_and_class", cells)
	if confs == nil {
		return
	}
	var missing []string
	for _, cmd := range []string{"URL_PREFIX_ADD", "SCHEME_SET"} {
		for _, pc := range c49RdPathClasses {
			if st.n["rd_cell["+cmd+"|"+pc.name+"]"] == 0 {
				missing = append(missing, cmd+" x path "+pc.name)
			}
		}
		for _, qc := range c49RdQueryClasses {
			if st.n["rd_qcell["+cmd+"|"+qc.name+"]"] == 0 {
				missing = append(missing, cmd+" x query "+qc.name)
			}
		}
	}
	for _, cmd := range []string{"URL_SET", "URL_FROM_QUERY", "URL_PREFIX_ADD", "SCHEME_SET"} {
		if st.n["rd_ok["+cmd+"]"] == 0 {
			missing = append(missing, cmd+" never judged equal")
		}
	}
	for _, s := range []int{301, 302, 303, 307, 308} {
		if st.n[fmt.Sprintf("rd_status_ok[%d]", s)] == 0 {
			missing = append(missing, fmt.Sprintf("status %d never observed", s))
		}
	}
	if st.n["rd_ok_original_url_with_path_escape"] == 0 || st.n["rd_ok_url_from_encoded_query"] == 0 {
		missing = append(missing, "no escaped original URL / encoded query value judged")
	}
	if len(missing) > 0 {
		if len(missing) > 12 {
			missing = append(missing[:12], fmt.Sprintf("... and %d more", len(missing)-12))
		}
		r.Inconclusive("redirect family never judged: " + strings.Join(missing, "; "))
	}
}
