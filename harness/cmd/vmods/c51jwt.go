package main

import (
	"bytes"
	"crypto"
	"crypto/ecdsa"
	"crypto/elliptic"
	"crypto/hmac"
	"crypto/rand"
	"crypto/rsa"
	_ "crypto/sha256"
	_ "crypto/sha512"
	"crypto/x509"
	"encoding/asn1"
	"encoding/base64"
	"encoding/json"
	"encoding/pem"
	"fmt"
	"io"
	"math/big"
	"path/filepath"
	"strconv"
	"strings"
	"sync"

	"github.com/bfenetworks/bfe/bfe_module"
	"github.com/bfenetworks/bfe/bfe_modules/mod_auth_jwt"

	"verifharness/vkit"
)

// ---- keys ------------------------------------------------------------------------

type c51JwtKey struct {
	Name    string // rsaA, ec256A, oct-<hex>
	Kty     string // oct | RSA | EC
	Secret  []byte
	RSA     *rsa.PrivateKey
	EC      *ecdsa.PrivateKey
	DeclAlg string // "alg" member of the JWK, "" = not declared
	Kid     string
}

var (
	c51JwtFixedOnce sync.Once
	c51JwtFixed     map[string]*c51JwtKey
)

func c51JwtFixedKey(name string) *c51JwtKey {
	c51JwtFixedOnce.Do(func() {
		c51JwtFixed = map[string]*c51JwtKey{}
		for n, b64 := range c51JwtKeyB64 {
			der, err := base64.StdEncoding.DecodeString(b64)
			if err != nil {
				panic(err)
			}
			k, err := x509.ParsePKCS8PrivateKey(der)
			if err != nil {
				panic(err)
			}
			switch p := k.(type) {
			case *rsa.PrivateKey:
				c51JwtFixed[n] = &c51JwtKey{Name: n, Kty: "RSA", RSA: p}
			case *ecdsa.PrivateKey:
				c51JwtFixed[n] = &c51JwtKey{Name: n, Kty: "EC", EC: p}
			}
		}
	})
	c := *c51JwtFixed[name]
	return &c
}

var c51JwtHashes = map[string]crypto.Hash{
	"HS256": crypto.SHA256, "HS384": crypto.SHA384, "HS512": crypto.SHA512,
	"RS256": crypto.SHA256, "RS384": crypto.SHA384, "RS512": crypto.SHA512,
	"PS256": crypto.SHA256, "PS384": crypto.SHA384, "PS512": crypto.SHA512,
	"ES256": crypto.SHA256, "ES384": crypto.SHA384, "ES512": crypto.SHA512,
}

var c51JwtCurveBits = map[string]int{"ES256": 256, "ES384": 384, "ES512": 521}

// c51JwtAlgsOf lists the JWS algorithms (RFC 7518 3.1) the key material can be used with.
func c51JwtAlgsOf(k *c51JwtKey) []string {
	switch k.Kty {
	case "oct":
		return []string{"HS256", "HS384", "HS512"}
	case "RSA":
		return []string{"RS256", "RS384", "RS512", "PS256", "PS384", "PS512"}
	case "EC":
		for a, b := range c51JwtCurveBits {
			if k.EC.Curve.Params().BitSize == b {
				return []string{a}
			}
		}
	}
	return nil
}

func c51JwtDigest(alg, input string) []byte {
	h := c51JwtHashes[alg].New()
	h.Write([]byte(input))
	return h.Sum(nil)
}

// c51JwtSign signs input per RFC 7518; secret overrides the key for HS*.
func c51JwtSign(alg string, k *c51JwtKey, secret []byte, input string) []byte {
	switch alg[:2] {
	case "HS":
		if secret == nil {
			secret = k.Secret
		}
		m := hmac.New(c51JwtHashes[alg].New, secret)
		m.Write([]byte(input))
		return m.Sum(nil)
	case "RS":
		s, err := rsa.SignPKCS1v15(rand.Reader, k.RSA, c51JwtHashes[alg], c51JwtDigest(alg, input))
		if err != nil {
			panic(err)
		}
		return s
	case "PS":
		s, err := rsa.SignPSS(rand.Reader, k.RSA, c51JwtHashes[alg], c51JwtDigest(alg, input), &rsa.PSSOptions{SaltLength: rsa.PSSSaltLengthEqualsHash})
		if err != nil {
			panic(err)
		}
		return s
	case "ES":
		rr, ss, err := ecdsa.Sign(rand.Reader, k.EC, c51JwtDigest(alg, input))
		if err != nil {
			panic(err)
		}
		n := (k.EC.Curve.Params().BitSize + 7) / 8
		out := make([]byte, 2*n)
		rr.FillBytes(out[:n])
		ss.FillBytes(out[n:])
		return out
	}
	panic("alg " + alg)
}

// c51JwtVerify is the reference signature check: key material of the right
// family (and curve) for alg, and the signature verifies over input.
func c51JwtVerify(k *c51JwtKey, alg, input string, sig []byte) bool {
	if _, ok := c51JwtHashes[alg]; !ok {
		return false
	}
	switch alg[:2] {
	case "HS":
		if k.Kty != "oct" {
			return false
		}
		return hmac.Equal(sig, c51JwtSign(alg, k, nil, input))
	case "RS":
		if k.Kty != "RSA" {
			return false
		}
		return rsa.VerifyPKCS1v15(&k.RSA.PublicKey, c51JwtHashes[alg], c51JwtDigest(alg, input), sig) == nil
	case "PS":
		if k.Kty != "RSA" {
			return false
		}
		return rsa.VerifyPSS(&k.RSA.PublicKey, c51JwtHashes[alg], c51JwtDigest(alg, input), sig, &rsa.PSSOptions{SaltLength: rsa.PSSSaltLengthAuto}) == nil
	case "ES":
		if k.Kty != "EC" || k.EC.Curve.Params().BitSize != c51JwtCurveBits[alg] {
			return false
		}
		n := (k.EC.Curve.Params().BitSize + 7) / 8
		if len(sig) != 2*n {
			return false
		}
		return ecdsa.Verify(&k.EC.PublicKey, c51JwtDigest(alg, input), new(big.Int).SetBytes(sig[:n]), new(big.Int).SetBytes(sig[n:]))
	}
	return false
}

func c51B64u(b []byte) string { return base64.RawURLEncoding.EncodeToString(b) }

// c51JwtJWK renders the public JWK (RFC 7517/7518 6) of k.
func c51JwtJWK(k *c51JwtKey, use bool) map[string]string {
	m := map[string]string{"kty": k.Kty}
	if k.Kid != "" {
		m["kid"] = k.Kid
	}
	if k.DeclAlg != "" {
		m["alg"] = k.DeclAlg
	}
	if use {
		m["use"] = "sig"
	}
	switch k.Kty {
	case "oct":
		m["k"] = c51B64u(k.Secret)
	case "RSA":
		m["n"] = c51B64u(k.RSA.N.Bytes())
		m["e"] = c51B64u(big.NewInt(int64(k.RSA.E)).Bytes())
	case "EC":
		p := k.EC.Curve.Params()
		n := (p.BitSize + 7) / 8
		m["crv"] = p.Name
		m["x"] = c51B64u(k.EC.X.FillBytes(make([]byte, n)))
		m["y"] = c51B64u(k.EC.Y.FillBytes(make([]byte, n)))
	}
	return m
}

// ---- scenario ------------------------------------------------------------------------

type c51JwtRule struct {
	Host     string
	Realm    string
	RealmSet bool
	Keys     []*c51JwtKey
	FileText string
}

type c51JwtSc struct {
	Rules []c51JwtRule
}

func c51JwtOct(g *vkit.Rand) *c51JwtKey {
	s := g.Bytes(g.Range(16, 64))
	return &c51JwtKey{Name: fmt.Sprintf("oct-%x", s[:4]), Kty: "oct", Secret: s}
}

func c51JwtScenario(cfgSeed uint64) *c51JwtSc {
	g := vkit.NewRand(cfgSeed)
	declare := func(k *c51JwtKey) *c51JwtKey {
		if g.Bool() {
			algs := c51JwtAlgsOf(k)
			k.DeclAlg = algs[g.Intn(len(algs))]
		}
		switch g.Intn(3) {
		case 0:
			k.Kid = fmt.Sprintf("%04d", g.Intn(10000))
		case 1:
			k.Kid = "key-" + c51Str(g, c51Alnum, 3, 8)
		}
		return k
	}
	ecName := func() string { return g.PickS([]string{"ec256A", "ec256A", "ec384A", "ec521A"}) }
	sets := [][]*c51JwtKey{
		{declare(c51JwtOct(g))},
		{declare(c51JwtFixedKey("rsaA"))},
		{declare(c51JwtFixedKey(ecName()))},
	}
	// a rule with several keys of mixed types
	multi := []*c51JwtKey{declare(c51JwtOct(g)), declare(c51JwtOct(g))}
	if g.Bool() {
		multi = append(multi, declare(c51JwtFixedKey("rsaA")))
	}
	if g.Bool() {
		multi = append(multi, declare(c51JwtFixedKey(ecName())))
	}
	sets = append(sets, multi)
	sc := &c51JwtSc{}
	for i, p := range g.Perm(len(sets)) {
		ru := c51JwtRule{Host: fmt.Sprintf("j%d.example.org", i), Realm: "Restricted", Keys: sets[p]}
		if i == 0 || g.Bool() {
			ru.RealmSet = true
			ru.Realm = g.PickS([]string{"api " + c51Str(g, c51Alnum, 1, 6), "example_product", "J-" + c51Str(g, c51Alnum, 3, 8)})
		}
		var jwks []map[string]string
		for _, k := range ru.Keys {
			jwks = append(jwks, c51JwtJWK(k, g.Chance(1, 3)))
		}
		b, _ := json.MarshalIndent(jwks, "", "  ")
		ru.FileText = string(b)
		sc.Rules = append(sc.Rules, ru)
	}
	return sc
}

func c51JwtMod() *c51Mod {
	return &c51Mod{
		name: "jwt",
		boot: func(r *vkit.Run) (*modEnv, error) {
			root := filepath.Join(scratch(), "c51jwt")
			writeFile(filepath.Join(root, "mod_auth_jwt", "mod_auth_jwt.conf"), []byte("[Basic]\nDataPath = mod_auth_jwt/auth_jwt_rule.data\n\n[Log]\nOpenDebug = false\n"))
			writeFile(filepath.Join(root, "mod_auth_jwt", "auth_jwt_rule.data"), []byte(`{"Version":"boot","Config":{}}`))
			env := newModEnv()
			m := mod_auth_jwt.NewModuleAuthJWT()
			if err := m.Init(env.cbs, env.whs, root); err != nil {
				return nil, err
			}
			return env, nil
		},
		load: func(r *vkit.Run, env *modEnv, cfgSeed uint64) (interface{}, error) {
			sc := c51JwtScenario(cfgSeed)
			dir := filepath.Join(scratch(), "c51jwt", fmt.Sprintf("sc-%016x", cfgSeed))
			type rf struct {
				Cond    string
				KeyFile string
				Realm   string `json:",omitempty"`
			}
			var rules []rf
			for i, ru := range sc.Rules {
				kf := filepath.Join(dir, fmt.Sprintf("key_file%d", i))
				writeFile(kf, []byte(ru.FileText))
				x := rf{Cond: fmt.Sprintf("req_host_in(%q)", ru.Host), KeyFile: kf}
				if ru.RealmSet {
					x.Realm = ru.Realm
				}
				rules = append(rules, x)
			}
			b, _ := json.MarshalIndent(map[string]interface{}{"Version": fmt.Sprintf("%016x", cfgSeed), "Config": map[string]interface{}{"pn": rules}}, "", " ")
			p := filepath.Join(dir, "auth_jwt_rule.data")
			writeFile(p, b)
			return sc, env.reload("mod_auth_jwt", p)
		},
		run:   c51JwtRun,
		scen:  [2]int{4, 24},
		cases: [2]int{1000, 2500},
		must:  []string{"jwt_uncovered_passed", "jwt_not_judged", "jwt_valid_HS", "jwt_valid_RSA", "jwt_valid_ES"},

		ambig:      c51JwtAmbRun,
		ambigCases: [2]int{200, 400},
	}
}

// ---- reference: token validation (RFC 7515 5.2, RFC 7519 7.2) ------------------------

// c51B64Lenient decodes a segment accepting padding, the standard alphabet
// and non-zero trailing bits; canonical reports strict unpadded base64url.
func c51B64Lenient(s string) (b []byte, canonical, ok bool) {
	t := strings.NewReplacer("+", "-", "/", "_").Replace(strings.TrimRight(s, "="))
	b, err := base64.RawURLEncoding.DecodeString(t)
	if err != nil {
		return nil, false, false
	}
	return b, s == base64.RawURLEncoding.EncodeToString(b), true
}

type c51Member struct {
	K string
	V json.RawMessage
}

// c51JSONMembers returns the members of a JSON object in order, duplicates
// kept; ok is false when b is not exactly one JSON object.
func c51JSONMembers(b []byte) (ms []c51Member, ok bool) {
	dec := json.NewDecoder(bytes.NewReader(b))
	t, err := dec.Token()
	if d, isD := t.(json.Delim); err != nil || !isD || d != '{' {
		return nil, false
	}
	for dec.More() {
		kt, err := dec.Token()
		k, isS := kt.(string)
		if err != nil || !isS {
			return nil, false
		}
		var raw json.RawMessage
		if err := dec.Decode(&raw); err != nil {
			return nil, false
		}
		ms = append(ms, c51Member{k, raw})
	}
	if _, err := dec.Token(); err != nil {
		return nil, false
	}
	if _, err := dec.Token(); err != io.EOF {
		return nil, false
	}
	return ms, true
}

func c51Last(ms []c51Member, k string) (v json.RawMessage, n int) {
	for _, m := range ms {
		if m.K == k {
			v = m.V
			n++
		}
	}
	return
}

func c51HasDup(ms []c51Member) bool {
	seen := map[string]bool{}
	for _, m := range ms {
		if seen[m.K] {
			return true
		}
		seen[m.K] = true
	}
	return false
}

const c51TimeGuard = 3000 // seconds; generated time claims are >= 3600 s away from now

// c51NumericDate reads a NumericDate member; isNum is false for any non-number.
func c51NumericDate(v json.RawMessage) (f float64, isNum bool) {
	s := strings.TrimSpace(string(v))
	if s == "" || !(s[0] == '-' || (s[0] >= '0' && s[0] <= '9')) {
		return 0, false
	}
	f, err := strconv.ParseFloat(s, 64)
	return f, err == nil
}

// c51JwtRefToken validates one compact token against the keys of a rule.
func c51JwtRefToken(tok string, keys []*c51JwtKey, now int64) (verdict, why string) {
	parts := strings.Split(tok, ".")
	if len(parts) != 3 {
		return c51Reject, fmt.Sprintf("the token has %d dot-separated parts, a JWS compact serialization has 3", len(parts))
	}
	var seg [3][]byte
	open := "" // reason why an otherwise valid token is not judged
	for i, p := range parts {
		b, canon, ok := c51B64Lenient(p)
		if !ok {
			return c51Reject, fmt.Sprintf("part %d is not base64url", i+1)
		}
		if !canon {
			open = "a segment is not canonical unpadded base64url"
		}
		seg[i] = b
	}
	hdr, ok := c51JSONMembers(seg[0])
	if !ok {
		return c51Reject, "the JOSE header is not a JSON object"
	}
	algRaw, n := c51Last(hdr, "alg")
	var alg string
	if n == 0 || json.Unmarshal(algRaw, &alg) != nil || len(algRaw) == 0 || algRaw[0] != '"' {
		return c51Reject, "the header has no string alg member"
	}
	if c51HasDup(hdr) {
		open = "duplicate header members (RFC 7515 4: reject or use the last)"
	}
	claims, ok := c51JSONMembers(seg[1])
	if !ok {
		return c51Reject, "the claims set is not a JSON object"
	}
	if c51HasDup(claims) {
		open = "duplicate claim names (RFC 7519 4: reject or use the last)"
	}
	if alg == "none" {
		return c51Reject, "alg is none: the token is not signed"
	}
	if _, known := c51JwtHashes[alg]; !known {
		return c51Reject, fmt.Sprintf("alg %q is not a JWS algorithm", alg)
	}
	input := parts[0] + "." + parts[1]
	material, declared := false, false
	var under string
	for _, k := range keys {
		if c51JwtVerify(k, alg, input, seg[2]) {
			material = true
			under = k.Name + " declared alg " + k.DeclAlg
			if k.DeclAlg == "" || k.DeclAlg == alg {
				declared = true
			}
		}
	}
	if !material {
		return c51Reject, fmt.Sprintf("the %s signature does not verify under any configured key", alg)
	}
	if !declared {
		return c51Reject, fmt.Sprintf("the signature verifies only with alg %s under key %s: not that key's algorithm", alg, under)
	}
	if v, n := c51Last(claims, "exp"); n > 0 {
		f, isNum := c51NumericDate(v)
		switch {
		case !isNum:
			return c51Reject, fmt.Sprintf("exp is %s, not a NumericDate (RFC 7519 4.1.4: MUST be a number)", v)
		case f > 9e18 || f < -9e18:
			open = "exp beyond int64"
		case f < float64(now-c51TimeGuard):
			return c51Reject, fmt.Sprintf("the token expired (exp=%s, %d s before now)", v, now-int64(f))
		case f <= float64(now+c51TimeGuard):
			open = "exp within the guard band"
		}
	}
	if v, n := c51Last(claims, "nbf"); n > 0 {
		f, isNum := c51NumericDate(v)
		switch {
		case !isNum:
			return c51Reject, fmt.Sprintf("nbf is %s, not a NumericDate (RFC 7519 4.1.5: MUST be a number)", v)
		case f > 9e18 || f < -9e18:
			open = "nbf beyond int64"
		case f > float64(now+c51TimeGuard):
			return c51Reject, fmt.Sprintf("the token is not yet valid (nbf=%s, %d s after now)", v, int64(f)-now)
		case f >= float64(now-c51TimeGuard):
			open = "nbf within the guard band"
		}
	}
	if v, n := c51Last(claims, "iat"); n > 0 {
		if f, isNum := c51NumericDate(v); !isNum || f >= float64(now-c51TimeGuard) {
			open = "iat not in the past (RFC 7519 does not require rejection)"
		}
	}
	if open != "" {
		return c51Either, "valid signature and time claims, but " + open
	}
	return c51Admit, fmt.Sprintf("%s signature valid under key %s, time claims satisfied", alg, under)
}

// c51JwtRef decides a covered request from its Authorization field values.
func c51JwtRef(ru *c51JwtRule, vals []string, now int64) (verdict, why string) {
	if len(vals) == 1 && strings.HasPrefix(vals[0], "Bearer ") && len(vals[0]) > 7 && !strings.ContainsAny(vals[0][7:], " \t,") {
		return c51JwtRefToken(vals[0][7:], ru.Keys, now)
	}
	for _, v := range vals {
		for _, f := range strings.FieldsFunc(v, func(c rune) bool { return c == ' ' || c == '\t' || c == ',' }) {
			if vd, _ := c51JwtRefToken(f, ru.Keys, now); vd != c51Reject {
				return c51Either, "a valid token in a non-canonical Authorization field"
			}
		}
	}
	if len(vals) == 0 {
		return c51Reject, "no Authorization header"
	}
	return c51Reject, "no valid token in the Authorization field"
}

// ---- cases --------------------------------------------------------------------------------

type c51JwtCase struct {
	Rule    int
	Host    string
	Product string
	Hdrs    []string
	Vals    []string
	Shape   string
	Alg     string // alg used for signing
	Key     string // key used for signing
	HdrJSON string
	Payload string
}

type c51KV struct{ k, v string }

func c51JSONObj(ms []c51KV) string {
	var sb strings.Builder
	sb.WriteByte('{')
	for i, m := range ms {
		if i > 0 {
			sb.WriteByte(',')
		}
		kb, _ := json.Marshal(m.k)
		sb.Write(kb)
		sb.WriteByte(':')
		sb.WriteString(m.v)
	}
	sb.WriteByte('}')
	return sb.String()
}

func c51Q(s string) string { b, _ := json.Marshal(s); return string(b) }

// c51Far returns an offset of at least one hour (up to ~10 years).
func c51Far(g *vkit.Rand) int64 {
	switch g.Intn(4) {
	case 0:
		return 3600 + int64(g.Intn(3600))
	case 1:
		return 86400 * int64(g.Range(1, 400))
	}
	return 3600 + int64(g.Intn(315360000))
}

func c51NumFmt(g *vkit.Rand, v int64) string {
	switch g.Intn(6) {
	case 0:
		return fmt.Sprintf("%d.0", v)
	case 1:
		return fmt.Sprintf("%d.5", v)
	case 2:
		return strconv.FormatFloat(float64(v), 'e', -1, 64)
	}
	return strconv.FormatInt(v, 10)
}

// c51JwtClaims builds a claims set; mode: valid | expired | nbf-future.
func c51JwtClaims(g *vkit.Rand, now int64, mode string) []c51KV {
	var ms []c51KV
	if g.Bool() {
		ms = append(ms, c51KV{"sub", c51Q(g.PickS([]string{"user-1", "Unittest", "ädmin", "a.b@example.org"}))})
	}
	if g.Bool() {
		ms = append(ms, c51KV{"iss", c51Q("BFE Gateway")})
	}
	if g.Chance(1, 3) {
		ms = append(ms, c51KV{"aud", g.PickS([]string{`"svc"`, `["a","b"]`})})
	}
	if g.Chance(1, 3) {
		ms = append(ms, c51KV{"ctx", `{"admin":false,"n":[1,2,{"x":null}]}`})
	}
	if g.Chance(1, 3) {
		ms = append(ms, c51KV{"jti", c51Q(c51Str(g, c51Alnum, 6, 16))})
	}
	switch mode {
	case "expired":
		ms = append(ms, c51KV{"exp", c51NumFmt(g, now-c51Far(g))})
		if g.Bool() {
			ms = append(ms, c51KV{"nbf", c51NumFmt(g, now-400000000-c51Far(g))})
		}
	case "nbf-future":
		ms = append(ms, c51KV{"nbf", c51NumFmt(g, now+c51Far(g))})
		if g.Bool() {
			ms = append(ms, c51KV{"exp", c51NumFmt(g, now+400000000+c51Far(g))})
		}
	default:
		if g.Chance(2, 3) {
			ms = append(ms, c51KV{"exp", c51NumFmt(g, now+c51Far(g))})
		}
		if g.Chance(1, 2) {
			ms = append(ms, c51KV{"nbf", c51NumFmt(g, now-c51Far(g))})
		}
		if g.Chance(1, 2) {
			ms = append(ms, c51KV{"iat", c51NumFmt(g, now-c51Far(g))})
		}
	}
	p := g.Perm(len(ms))
	out := make([]c51KV, len(ms))
	for i, j := range p {
		out[i] = ms[j]
	}
	return out
}

func c51JwtHeader(g *vkit.Rand, alg string, k *c51JwtKey) []c51KV {
	ms := []c51KV{{"alg", c51Q(alg)}}
	if g.Chance(2, 3) {
		ms = append(ms, c51KV{"typ", `"JWT"`})
	}
	switch g.Intn(4) {
	case 0:
		if k != nil && k.Kid != "" {
			ms = append(ms, c51KV{"kid", c51Q(k.Kid)})
		}
	case 1:
		ms = append(ms, c51KV{"kid", c51Q("no-such-key")}) // kid matching is not part of the oracle
	}
	if g.Bool() {
		ms[0], ms[len(ms)-1] = ms[len(ms)-1], ms[0]
	}
	return ms
}

// c51JwtPubSecrets lists byte strings derived from the public key that an
// algorithm-confusion attacker would try as HMAC secret.
func c51JwtPubSecrets(k *c51JwtKey) [][]byte {
	var pub interface{}
	var extra [][]byte
	if k.Kty == "RSA" {
		pub = &k.RSA.PublicKey
		p1 := x509.MarshalPKCS1PublicKey(&k.RSA.PublicKey)
		extra = append(extra, p1, pem.EncodeToMemory(&pem.Block{Type: "RSA PUBLIC KEY", Bytes: p1}), k.RSA.N.Bytes())
	} else {
		pub = &k.EC.PublicKey
		extra = append(extra, elliptic.Marshal(k.EC.Curve, k.EC.X, k.EC.Y))
	}
	der, err := x509.MarshalPKIXPublicKey(pub)
	if err != nil {
		panic(err)
	}
	jwk, _ := json.Marshal(c51JwtJWK(k, false))
	return append([][]byte{pem.EncodeToMemory(&pem.Block{Type: "PUBLIC KEY", Bytes: der}), der, jwk}, extra...)
}

// c51JwtForeign returns a key of the same type as k that is not configured anywhere.
func c51JwtForeign(g *vkit.Rand, k *c51JwtKey) *c51JwtKey {
	switch k.Kty {
	case "oct":
		f := &c51JwtKey{Name: "foreign-oct", Kty: "oct"}
		switch g.Intn(4) {
		case 0:
			f.Secret = k.Secret[:len(k.Secret)-1]
		case 1:
			f.Secret = append(append([]byte{}, k.Secret...), 1) // (a zero byte would give an equivalent HMAC key)
		case 2:
			f.Secret = []byte(c51B64u(k.Secret)) // the JWK text of the secret instead of its bytes
		default:
			f.Secret = g.Bytes(len(k.Secret))
		}
		return f
	case "RSA":
		return c51JwtFixedKey("rsaB")
	}
	if k.EC.Curve == elliptic.P256() && g.Bool() {
		return c51JwtFixedKey("ec256B")
	}
	p, err := ecdsa.GenerateKey(k.EC.Curve, rand.Reader) // fresh key: differs between runs, the case does not
	if err != nil {
		panic(err)
	}
	return &c51JwtKey{Name: "foreign-ec", Kty: "EC", EC: p}
}

func c51JwtPickKey(g *vkit.Rand, ru *c51JwtRule) *c51JwtKey { return ru.Keys[g.Intn(len(ru.Keys))] }

// c51JwtAlgFor picks the algorithm a legitimate signer would use with k.
func c51JwtAlgFor(g *vkit.Rand, k *c51JwtKey) string {
	if k.DeclAlg != "" {
		return k.DeclAlg
	}
	a := c51JwtAlgsOf(k)
	return a[g.Intn(len(a))]
}

// c51JwtRuleWith returns a rule (index) having a key for which pred holds, and that key.
func c51JwtRuleWith(g *vkit.Rand, sc *c51JwtSc, pred func(*c51JwtKey) bool) (int, *c51JwtKey) {
	for _, i := range g.Perm(len(sc.Rules)) {
		for _, j := range g.Perm(len(sc.Rules[i].Keys)) {
			if pred(sc.Rules[i].Keys[j]) {
				return i, sc.Rules[i].Keys[j]
			}
		}
	}
	return -1, nil
}

func c51JwtGen(sc *c51JwtSc, g *vkit.Rand, now int64) *c51JwtCase {
	c := &c51JwtCase{Product: "pn"}
	c.Rule = g.Intn(len(sc.Rules))
	ru := &sc.Rules[c.Rule]
	k := c51JwtPickKey(g, ru)
	setRule := func(i int, key *c51JwtKey) {
		c.Rule, ru, k = i, &sc.Rules[i], key
	}
	// building blocks
	var hdr []c51KV
	var pay string
	var tok string
	build := func(alg string, key *c51JwtKey, secret []byte) (h64, p64 string, sig []byte) {
		c.Alg, c.Key = alg, key.Name
		c.HdrJSON, c.Payload = c51JSONObj(hdr), pay
		h64, p64 = c51B64u([]byte(c.HdrJSON)), c51B64u([]byte(pay))
		sig = c51JwtSign(alg, key, secret, h64+"."+p64)
		return
	}
	valid := func() string {
		alg := c51JwtAlgFor(g, k)
		hdr = c51JwtHeader(g, alg, k)
		pay = c51JSONObj(c51JwtClaims(g, now, "valid"))
		h, p, s := build(alg, k, nil)
		return h + "." + p + "." + c51B64u(s)
	}
	bearer := func(t string) { c.Hdrs = []string{"Authorization: Bearer " + t} }

	switch c51Pick(g, []int{30, 6, 6, 8, 8, 9, 5, 3, 6, 4, 5, 4, 4, 4, 4, 3, 8, 5, 3}) {
	case 0:
		c.Shape = "valid"
		tok = valid()
		bearer(tok)
	case 1:
		c.Shape = "alg-none"
		name := "none"
		if g.Chance(1, 3) {
			name = g.PickS([]string{"None", "NONE", "nOnE"})
			c.Shape = "alg-none-case-variant"
		}
		donor := strings.Split(valid(), ".")
		hdr = c51JwtHeader(g, name, nil)
		pay = c51JSONObj(c51JwtClaims(g, now, "valid"))
		c.Alg, c.Key, c.HdrJSON, c.Payload = name, "-", c51JSONObj(hdr), pay
		hp := c51B64u([]byte(c.HdrJSON)) + "." + c51B64u([]byte(pay))
		switch g.Intn(3) {
		case 0:
			tok = hp + "."
		case 1:
			tok = hp
			c.Shape += "-two-parts"
		default:
			tok = hp + "." + donor[2]
			c.Shape += "-with-signature"
		}
		bearer(tok)
	case 2:
		c.Shape = "hmac-with-public-key"
		i, key := c51JwtRuleWith(g, sc, func(x *c51JwtKey) bool { return x.Kty != "oct" })
		setRule(i, key)
		secrets := c51JwtPubSecrets(key)
		alg := g.PickS([]string{"HS256", "HS256", "HS384", "HS512"})
		hdr = c51JwtHeader(g, alg, key)
		pay = c51JSONObj(c51JwtClaims(g, now, "valid"))
		h, p, s := build(alg, key, secrets[g.Intn(len(secrets))])
		c.Shape = strings.ToLower(alg) + "-with-" + strings.ToLower(key.Kty) + "-public-key"
		tok = h + "." + p + "." + c51B64u(s)
		bearer(tok)
	case 3:
		i, key := c51JwtRuleWith(g, sc, func(x *c51JwtKey) bool { return x.Kty != "EC" && (g.Bool() || x.DeclAlg != "") })
		if i < 0 {
			i, key = c51JwtRuleWith(g, sc, func(x *c51JwtKey) bool { return x.Kty != "EC" })
		}
		setRule(i, key)
		var algs []string
		for _, a := range c51JwtAlgsOf(key) {
			if a != key.DeclAlg {
				algs = append(algs, a)
			}
		}
		alg := algs[g.Intn(len(algs))]
		c.Shape = "sibling-alg-undeclared-key"
		if key.DeclAlg != "" {
			c.Shape = "alg-differs-from-key-declared-alg"
		}
		hdr = c51JwtHeader(g, alg, key)
		pay = c51JSONObj(c51JwtClaims(g, now, "valid"))
		h, p, s := build(alg, key, nil)
		tok = h + "." + p + "." + c51B64u(s)
		bearer(tok)
	case 4:
		c.Shape = "wrong-key"
		var f *c51JwtKey
		if g.Chance(1, 3) {
			// a key configured for another rule
			for _, j := range g.Perm(len(sc.Rules)) {
				if j != c.Rule {
					for _, x := range sc.Rules[j].Keys {
						if x.Kty == k.Kty && x.Name != k.Name {
							f = x
						}
					}
				}
			}
			if f != nil {
				c.Shape = "cross-rule-key"
			}
		}
		if f == nil {
			f = c51JwtForeign(g, k)
		}
		alg := c51JwtAlgFor(g, k)
		if f.Kty == "EC" {
			alg = c51JwtAlgsOf(f)[0]
		}
		hdr = c51JwtHeader(g, alg, k)
		pay = c51JSONObj(c51JwtClaims(g, now, "valid"))
		h, p, s := build(alg, f, nil)
		tok = h + "." + p + "." + c51B64u(s)
		bearer(tok)
	case 5:
		alg := c51JwtAlgFor(g, k)
		hdr = c51JwtHeader(g, alg, k)
		pay = c51JSONObj(c51JwtClaims(g, now, "valid"))
		h, p, s := build(alg, k, nil)
		switch g.Intn(7) {
		case 0:
			c.Shape = "signature-truncated"
			s = s[:len(s)-g.Range(1, len(s)/2)]
		case 1:
			c.Shape = "signature-extended"
			s = append(s, byte(g.Intn(256)))
		case 2:
			c.Shape = "signature-bit-flipped"
			s[g.Intn(len(s))] ^= 1 << uint(g.Intn(8))
		case 3:
			c.Shape = "signature-all-zero"
			s = make([]byte, len(s))
		case 4:
			c.Shape = "signature-empty"
			s = nil
		case 5:
			c.Shape = "signature-first-half"
			s = s[:len(s)/2]
		default:
			if k.Kty == "EC" {
				n := len(s) / 2
				if g.Bool() {
					c.Shape = "es-signature-der-encoded"
					s, _ = asn1.Marshal(struct{ R, S *big.Int }{new(big.Int).SetBytes(s[:n]), new(big.Int).SetBytes(s[n:])})
				} else {
					// (r, n-s) also verifies: still a valid signature under the key
					c.Shape = "es-signature-s-negated"
					ns := new(big.Int).Sub(k.EC.Curve.Params().N, new(big.Int).SetBytes(s[n:]))
					ns.FillBytes(s[n:])
				}
			} else {
				c.Shape = "signature-bit-flipped"
				s[len(s)-1] ^= 0x80
			}
		}
		tok = h + "." + p + "." + c51B64u(s)
		bearer(tok)
	case 6:
		c.Shape = "payload-altered-after-signing"
		alg := c51JwtAlgFor(g, k)
		hdr = c51JwtHeader(g, alg, k)
		mode := g.PickS([]string{"valid", "expired"})
		pay = c51JSONObj(c51JwtClaims(g, now, mode))
		h, _, s := build(alg, k, nil)
		pay = c51JSONObj(append(c51JwtClaims(g, now, "valid"), c51KV{"admin", "true"}))
		c.Payload = pay
		tok = h + "." + c51B64u([]byte(pay)) + "." + c51B64u(s)
		bearer(tok)
	case 7:
		c.Shape = "header-altered-after-signing"
		alg := c51JwtAlgFor(g, k)
		hdr = c51JwtHeader(g, alg, k)
		pay = c51JSONObj(c51JwtClaims(g, now, "valid"))
		_, p, s := build(alg, k, nil)
		hdr = append(hdr, c51KV{"x", c51Q(c51Str(g, c51Alnum, 1, 5))})
		c.HdrJSON = c51JSONObj(hdr)
		tok = c51B64u([]byte(c.HdrJSON)) + "." + p + "." + c51B64u(s)
		bearer(tok)
	case 8, 9:
		mode := "expired"
		if g.Chance(2, 5) {
			mode = "nbf-future"
		}
		c.Shape = map[string]string{"expired": "expired", "nbf-future": "not-yet-valid"}[mode]
		alg := c51JwtAlgFor(g, k)
		hdr = c51JwtHeader(g, alg, k)
		pay = c51JSONObj(c51JwtClaims(g, now, mode))
		h, p, s := build(alg, k, nil)
		tok = h + "." + p + "." + c51B64u(s)
		bearer(tok)
	case 10:
		alg := c51JwtAlgFor(g, k)
		hdr = c51JwtHeader(g, alg, k)
		cl := []c51KV{{"sub", `"u"`}}
		switch g.Intn(4) {
		case 0:
			c.Shape = "exp-zero"
			cl = append(cl, c51KV{"exp", g.PickS([]string{"0", "0.0", "-0"})})
		case 1:
			c.Shape = "exp-is-a-string-of-a-past-date"
			cl = append(cl, c51KV{"exp", c51Q(strconv.FormatInt(now-c51Far(g), 10))})
		case 2:
			c.Shape = "nbf-is-a-string-of-a-future-date"
			cl = append(cl, c51KV{"nbf", c51Q(strconv.FormatInt(now+c51Far(g), 10))})
		default:
			c.Shape = "exp-negative"
			cl = append(cl, c51KV{"exp", strconv.FormatInt(-c51Far(g), 10)})
		}
		pay = c51JSONObj(cl)
		h, p, s := build(alg, k, nil)
		tok = h + "." + p + "." + c51B64u(s)
		bearer(tok)
	case 11:
		alg := c51JwtAlgFor(g, k)
		hdr = c51JwtHeader(g, alg, k)
		past, future := c51NumFmt(g, now-c51Far(g)), c51NumFmt(g, now+c51Far(g))
		cl := c51JwtClaims(g, now, "valid")
		var rest []c51KV
		for _, m := range cl {
			if m.k != "exp" {
				rest = append(rest, m)
			}
		}
		switch g.Intn(4) {
		case 0:
			c.Shape = "duplicate-exp-last-valid"
			rest = append([]c51KV{{"exp", past}}, append(rest, c51KV{"exp", future})...)
		case 1:
			c.Shape = "duplicate-exp-last-expired"
			rest = append([]c51KV{{"exp", future}}, append(rest, c51KV{"exp", past})...)
		case 2:
			c.Shape = "duplicate-alg-last-real"
			hdr = append([]c51KV{{"alg", `"none"`}}, hdr...)
		default:
			c.Shape = "duplicate-alg-last-none"
			hdr = append(hdr, c51KV{"alg", `"none"`})
		}
		pay = c51JSONObj(rest)
		h, p, s := build(alg, k, nil)
		tok = h + "." + p + "." + c51B64u(s)
		bearer(tok)
	case 12:
		alg := c51JwtAlgFor(g, k)
		hdr = c51JwtHeader(g, alg, k)
		pay = c51JSONObj(c51JwtClaims(g, now, "valid"))
		if g.Chance(3, 4) {
			c.Shape = "payload-not-json"
			pay = g.PickS([]string{"hello world", `{"sub":"u","exp":`, "\x00\x01\xfe\xff", `sub=u&admin=1`, ``, `{'sub':'u'}`})
			h, p, s := build(alg, k, nil)
			tok = h + "." + p + "." + c51B64u(s)
		} else {
			c.Shape = "header-not-json"
			c.Alg, c.Key, c.Payload = alg, k.Name, pay
			c.HdrJSON = g.PickS([]string{`alg=` + alg, `{"alg":"` + alg + `"`, `["` + alg + `"]`, `"` + alg + `"`})
			hp := c51B64u([]byte(c.HdrJSON)) + "." + c51B64u([]byte(pay))
			tok = hp + "." + c51B64u(c51JwtSign(alg, k, nil, hp))
		}
		bearer(tok)
	case 13:
		alg := c51JwtAlgFor(g, k)
		pay = c51JSONObj(c51JwtClaims(g, now, "valid"))
		c.Alg, c.Key, c.Payload = alg, k.Name, pay
		switch g.Intn(5) {
		case 0:
			c.Shape = "alg-unknown"
			c.HdrJSON = `{"alg":"` + g.PickS([]string{"HS257", "RS1", "HS256 ", " " + alg, alg + "\\u0000", "HMAC", "ES256K", "EdDSA"}) + `","typ":"JWT"}`
		case 1:
			c.Shape = "alg-lower-case"
			c.HdrJSON = `{"alg":"` + strings.ToLower(alg) + `"}`
		case 2:
			c.Shape = "alg-not-a-string"
			c.HdrJSON = `{"typ":"JWT","alg":` + g.PickS([]string{"256", "null", "true", `["` + alg + `"]`, `{"a":"` + alg + `"}`}) + `}`
		case 3:
			c.Shape = "alg-missing"
			c.HdrJSON = `{"typ":"JWT"}`
		default:
			c.Shape = "alg-empty"
			c.HdrJSON = `{"alg":""}`
		}
		hp := c51B64u([]byte(c.HdrJSON)) + "." + c51B64u([]byte(pay))
		tok = hp + "." + c51B64u(c51JwtSign(alg, k, nil, hp))
		bearer(tok)
	case 14:
		v := strings.Split(valid(), ".")
		switch g.Intn(7) {
		case 0:
			c.Shape = "one-part"
			tok = v[0]
		case 1:
			c.Shape = "two-parts"
			tok = v[0] + "." + v[1]
		case 2:
			c.Shape = "four-parts"
			tok = strings.Join(v, ".") + "." + g.PickS([]string{"", v[2], "AAAA"})
		case 3:
			c.Shape = "five-parts-jwe-like"
			tok = v[0] + "." + c51B64u(g.Bytes(32)) + "." + c51B64u(g.Bytes(12)) + "." + v[1] + "." + v[2]
		case 4:
			c.Shape = "empty-parts"
			tok = g.PickS([]string{"..", ".", "..."})
		case 5:
			c.Shape = "parts-reordered"
			tok = v[1] + "." + v[0] + "." + v[2]
		default:
			c.Shape = "leading-dot"
			tok = "." + strings.Join(v, ".")
		}
		bearer(tok)
	case 15:
		alg := c51JwtAlgFor(g, k)
		hdr = c51JwtHeader(g, alg, k)
		pay = c51JSONObj(c51JwtClaims(g, now, "valid"))
		h, p, s := build(alg, k, nil)
		pad := func(x string) string { return x + strings.Repeat("=", (4-len(x)%4)%4) }
		switch g.Intn(3) {
		case 0:
			c.Shape = "signature-segment-padded"
			tok = h + "." + p + "." + pad(c51B64u(s))
		case 1:
			c.Shape = "segments-padded-before-signing"
			hp := pad(h) + "." + pad(p)
			tok = hp + "." + c51B64u(c51JwtSign(alg, k, nil, hp))
		default:
			c.Shape = "header-segment-padded-after-signing"
			if len(h)%4 == 0 {
				hdr = append(hdr, c51KV{"p", `"x"`})
				h, p, s = build(alg, k, nil)
				if len(h)%4 == 0 {
					hdr = append(hdr, c51KV{"q", `"y"`})
					h, p, s = build(alg, k, nil)
				}
			}
			tok = pad(h) + "." + p + "." + c51B64u(s)
		}
		bearer(tok)
	case 16:
		tok = valid()
		c.Shape = "authorization-shape"
		if g.Chance(1, 3) {
			c.Shape = "authorization-shape-bad-token"
			tok = tok[:len(tok)-6] + "AAAAAA"
		}
		switch g.Intn(12) {
		case 0:
			c.Hdrs = nil
			c.Shape = "missing-header"
		case 1:
			c.Hdrs = []string{"Authorization: "}
			c.Shape = "empty-header"
		case 2:
			c.Hdrs = []string{"Authorization: bearer " + tok}
		case 3:
			c.Hdrs = []string{"Authorization: BEARER " + tok}
		case 4:
			c.Hdrs = []string{"Authorization: Bearer  " + tok}
		case 5:
			c.Hdrs = []string{"Authorization: Bearer\t" + tok}
		case 6:
			c.Hdrs = []string{"Authorization: Bearer " + tok + " x"}
		case 7:
			c.Hdrs = []string{"Authorization: " + g.PickS([]string{"JWT", "Basic", "Token", "Bearerx"}) + " " + tok}
		case 8:
			c.Hdrs = []string{"Authorization: " + tok}
		case 9:
			c.Hdrs = []string{"Authorization: Bearer " + tok[:len(tok)-6] + "AAAAAA", "Authorization: Bearer " + tok}
		case 10:
			c.Hdrs = []string{"Authorization: Bearer"}
			c.Shape = "bearer-without-token"
		default:
			c.Hdrs = []string{"Authorization: Bearer " + tok + ","}
		}
	case 17:
		c.Shape = "uncovered"
		c.Rule = -1
		if g.Bool() {
			c.Host = g.PickS([]string{"open.example.org", "example.org", "xj0.example.org", "j0.example.org.evil.test"})
		} else {
			c.Product = "px"
		}
		if g.Bool() {
			bearer(c51B64u([]byte(`{"alg":"none"}`)) + "." + c51B64u([]byte(`{}`)) + ".")
		}
	default:
		c.Shape = "key-of-another-family"
		// a properly signed token of a family the rule has no key for
		var f *c51JwtKey
		for _, cand := range []*c51JwtKey{c51JwtFixedKey("rsaB"), c51JwtFixedKey("ec256B"), {Name: "foreign-oct", Kty: "oct", Secret: g.Bytes(32)}} {
			has := false
			for _, x := range ru.Keys {
				if x.Kty == cand.Kty {
					has = true
				}
			}
			if !has {
				f = cand
			}
		}
		if f == nil {
			f = c51JwtForeign(g, k)
			c.Shape = "wrong-key"
		}
		alg := c51JwtAlgsOf(f)[g.Intn(len(c51JwtAlgsOf(f)))]
		hdr = c51JwtHeader(g, alg, k)
		pay = c51JSONObj(c51JwtClaims(g, now, "valid"))
		h, p, s := build(alg, f, nil)
		tok = h + "." + p + "." + c51B64u(s)
		bearer(tok)
	}
	if c.Rule >= 0 {
		c.Host = sc.Rules[c.Rule].Host
	} else if c.Host == "" {
		c.Host = ru.Host
	}
	for _, h := range c.Hdrs {
		c.Vals = append(c.Vals, strings.Trim(h[len("Authorization:"):], " \t"))
	}
	return c
}

func c51JwtRun(r *vkit.Run, env *modEnv, sci interface{}, cfgSeed, caseSeed uint64, now int64) {
	sc := sci.(*c51JwtSc)
	c := c51JwtGen(sc, vkit.NewRand(caseSeed), now)
	w := &c51Witness{Mod: "jwt", CfgSeed: cfgSeed, CaseSeed: caseSeed, Shape: c.Shape,
		Info: map[string]interface{}{"host": c.Host, "product": c.Product, "headers": c.Hdrs, "rule": c.Rule,
			"token_header": c.HdrJSON, "token_payload": c.Payload, "signed_with_alg": c.Alg, "signed_with_key": c.Key, "now": now}}
	raw := c51RawReq("/", c.Host, c.Hdrs)
	req, err := parseReq(raw)
	if err != nil {
		r.Count("jwt_http_reader_refused", 1)
		r.CaseS("jwt|refused|"+string(raw), false)
		return
	}
	req.Route.Product = c.Product
	var obs c51Obs
	if r.Try(func() interface{} { return w }, func() { obs.code, obs.resp = env.request(bfe_module.HandleFoundProduct, req) }) {
		return
	}
	admitted := obs.code == bfe_module.BfeHandlerGoOn && obs.resp == nil
	rejected := obs.code == bfe_module.BfeHandlerResponse && obs.resp != nil
	// signatures with random salt/nonce differ between runs: the key names the recipe
	key := fmt.Sprintf("jwt|%x|%x", cfgSeed, caseSeed)
	if c.Rule < 0 {
		r.CaseS(key, false)
		w.Want, w.Why, w.Got = c51Admit, "no rule covers the request", obs.String()
		if admitted {
			r.Count("jwt_uncovered_passed", 1)
		} else {
			r.Violation("jwt:uncovered-request-not-passed", fmt.Sprintf("request of host %s product %s is not covered by any rule but was answered %s", c.Host, c.Product, obs), w)
		}
		return
	}
	r.CaseS(key, true)
	ru := &sc.Rules[c.Rule]
	w.Info["realm"] = ru.Realm
	w.Info["key_file"] = json.RawMessage(ru.FileText)
	var want string
	want, w.Why = c51JwtRef(ru, c.Vals, now)
	if want == c51Reject && strings.Contains(w.Why, "not that key's algorithm") {
		// whatever the generator intended (e.g. an HMAC key that is equivalent after zero padding)
		w.Shape = "alg-differs-from-key-declared-alg"
	}
	bad := ""
	if rejected {
		bad = c51AuthReject(obs, "Bearer", ru.Realm)
	}
	if want == c51Admit && admitted && len(c.Alg) > 2 {
		r.Count("jwt_valid_"+c.Alg[:2], 1)
		if c.Alg[1] == 'S' && c.Alg[0] != 'H' && c.Alg[0] != 'E' {
			r.Count("jwt_valid_RSA", 1)
		}
	}
	c51Verdict(r, w, want, obs, admitted, rejected, bad, c.Alg+":"+c.Shape)
	if r.WantSample() && c.Shape != "valid" && c51SampleGate(caseSeed) {
		r.Sample(w)
	}
}
