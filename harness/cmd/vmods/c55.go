package main

import (
	"bytes"
	"encoding/json"
	"fmt"
	"io"
	"net"
	"path/filepath"
	"regexp"
	"runtime/debug"
	"sort"
	"strings"
	"sync"
	"sync/atomic"
	"time"

	"github.com/bfenetworks/bfe/bfe_fcgi"
	"github.com/bfenetworks/bfe/bfe_http"

	"verifharness/ref/fcgi"
	"verifharness/vkit"
)

// C55: the FastCGI records bfe sends decode (FastCGI spec 1.0) to exactly the
// request's parameters and body, every record payload <= 65535 bytes; the
// HTTP response is built from the application's STDOUT stream only; no
// parameter size crashes the client.
//
// Monitor: a recording fake Responder (TCP / unix socket). Everything bfe
// writes is captured and decoded by ref/fcgi (BEGIN_REQUEST first, one request
// id, PARAMS and STDIN streams each closed by one empty record, name-value
// pairs decode completely); PARAMS must equal the parameter map handed to
// FCGIClient (level "client") or contain the RFC 3875 variables that follow
// unambiguously from the HTTP request (level "transport", through
// bfe_fcgi.Transport.RoundTrip, as bfe_server uses it); STDIN must equal the
// body. The responder then plays a script of STDOUT / STDERR / END_REQUEST
// records; status, marker header and body of the *bfe_http.Response must be
// those of the STDOUT stream alone.

type c55Step struct {
	T   string `json:"t"` // out | err | out0 | err0 | end
	N   int    `json:"n,omitempty"`
	Pad int    `json:"pad,omitempty"`
}

type c55Case struct {
	Level      string    `json:"level"` // client | transport
	Shape      string    `json:"shape"`
	Script     string    `json:"script"`         // shape of the responder script
	Net        string    `json:"net"`            // tcp | unix (client level only)
	Params     [][2]int  `json:"params"`         // (name length, value length); transport: header (name suffix index, value length)
	Many       int       `json:"many,omitempty"` // + this many generated pairs: pair k has name length 6+(k*7+salt)%35, value length (k*13+salt)%100
	Salt       int       `json:"salt,omitempty"`
	BodyLen    int       `json:"body_len"`
	Method     string    `json:"method,omitempty"`
	Query      string    `json:"query,omitempty"`
	EnvVars    [][2]int  `json:"env_vars,omitempty"`
	Status     int       `json:"status"` // 0: no Status header
	OutBodyLen int       `json:"out_body_len"`
	Steps      []c55Step `json:"steps"`
	Idx        int       `json:"idx"`
}

// deterministic content -------------------------------------------------------

func c55Fill(tag byte, idx, n int) string {
	b := make([]byte, n)
	for j := range b {
		b[j] = 'a' + byte((j*7+idx*3+int(tag))%26)
	}
	return string(b)
}

// c55Name returns a unique name of exactly n bytes when n is large enough to
// hold the index prefix; short names are made unique by the caller.
func c55Name(idx, n int) string {
	p := fmt.Sprintf("K%d_", idx)
	if n <= len(p) {
		return p[:n]
	}
	return p + strings.ToUpper(c55Fill('n', idx, n-len(p)))
}

func c55AllParams(c *c55Case) [][2]int {
	ps := append([][2]int{}, c.Params...)
	for k := 0; k < c.Many; k++ {
		ps = append(ps, [2]int{6 + (k*7+c.Salt)%35, (k*13 + c.Salt) % 100})
	}
	return ps
}

func c55ParamMap(c *c55Case) map[string]string {
	m := map[string]string{}
	for i, p := range c55AllParams(c) {
		m[c55Name(i, p[0])] = c55Fill('v', i, p[1])
	}
	return m
}

func c55Body(n int) []byte {
	b := make([]byte, n)
	for j := range b {
		b[j] = byte((j*131 + j>>8) & 0xff)
	}
	return b
}

func c55OutBody(n int) []byte {
	b := make([]byte, n)
	for j := range b {
		b[j] = byte((j*89+7+j>>9)&0x7f) | 0x80*byte(j&1)
	}
	return b
}

const c55ErrMarker = "PHP-STDERR-LEAK-"

func c55ErrText(n int) []byte {
	s := strings.Repeat(c55ErrMarker, n/len(c55ErrMarker)+1)
	return []byte(s[:n])
}

func c55Payload(c *c55Case) []byte {
	var b bytes.Buffer
	if c.Status != 0 {
		fmt.Fprintf(&b, "Status: %d Scripted\r\n", c.Status)
	}
	fmt.Fprintf(&b, "Content-Type: application/octet-stream\r\nX-Marker: m%d\r\n\r\n", c.Idx)
	b.Write(c55OutBody(c.OutBodyLen))
	return b.Bytes()
}

// fake responder ----------------------------------------------------------------

type c55Recording struct {
	req      *fcgi.Request
	err      string // malformed record / protocol violation / stream not terminated
	timeout  bool   // err is an idle timeout (not a sound verdict by itself)
	rawBytes int
}

// c55Idle is a watchdog, not an oracle: a timeout is only turned into a
// verdict by the EOF-delimited probe (c55Probe).
const c55Idle = 8 * time.Second

var c55Timeouts int64 // idle timeouts seen in this run

type c55Job struct {
	c      *c55Case
	probe  bool // record until the client closes the connection; no reply
	res    chan c55Recording
	cancel chan struct{}
}

type c55Responder struct {
	ln      net.Listener
	network string
	addr    string
	jobs    chan *c55Job
}

func c55NewResponder(network string, i int) (*c55Responder, error) {
	addr := "127.0.0.1:0"
	if network == "unix" {
		addr = filepath.Join(scratch(), fmt.Sprintf("c55-%d.sock", i))
	}
	ln, err := net.Listen(network, addr)
	if err != nil {
		return nil, err
	}
	rs := &c55Responder{ln: ln, network: network, addr: ln.Addr().String(), jobs: make(chan *c55Job, 1)}
	go func() {
		for {
			conn, err := ln.Accept()
			if err != nil {
				return
			}
			select {
			case j := <-rs.jobs:
				go rs.serve(conn, j)
			default:
				conn.Close() // nobody is waiting for this connection
			}
		}
	}()
	return rs, nil
}

var c55BufPool = sync.Pool{New: func() interface{} { return make([]byte, 128<<10) }}

func (rs *c55Responder) serve(conn net.Conn, j *c55Job) {
	defer conn.Close()
	done := make(chan struct{})
	defer close(done)
	go func() {
		select {
		case <-j.cancel:
			conn.Close()
		case <-done:
		}
	}()
	var rec c55Recording
	dec := &fcgi.RequestDecoder{}
	var buf []byte
	tmp := c55BufPool.Get().([]byte)
	defer c55BufPool.Put(tmp)
	for rec.err == "" {
		// idle deadline: only the absence of any progress for c55Idle ends the wait
		conn.SetReadDeadline(time.Now().Add(c55Idle))
		n, err := conn.Read(tmp)
		rec.rawBytes += n
		buf = append(buf, tmp[:n]...)
		for rec.err == "" {
			r, used, perr := fcgi.ParseRecord(buf)
			if perr == fcgi.ErrIncomplete {
				break
			}
			if perr != nil {
				rec.err = "malformed record: " + perr.Error()
				break
			}
			if dec.Done() {
				rec.err = fmt.Sprintf("record of type %d after both streams were closed", r.Type)
				break
			}
			buf = buf[used:]
			if ferr := dec.Feed(r); ferr != nil {
				rec.err = "protocol: " + ferr.Error()
			}
		}
		if rec.err != "" || (dec.Done() && !j.probe && len(buf) == 0) {
			break
		}
		if err != nil {
			if dec.Done() && len(buf) == 0 {
				break // probe mode: clean end of the connection after a complete request
			}
			state := fmt.Sprintf("PARAMS closed=%v, STDIN closed=%v, %d bytes left undecoded", dec.ParamsDone(), dec.StdinDone(), len(buf))
			if dec.Done() {
				rec.err = fmt.Sprintf("%d stray bytes after the end of the request", len(buf))
				break
			}
			if ne, ok := err.(net.Error); ok && ne.Timeout() {
				rec.timeout = true
				rec.err = fmt.Sprintf("idle-timeout: nothing received for %v with the request incomplete (%s)", c55Idle, state)
			} else {
				rec.err = fmt.Sprintf("streams not terminated when the client closed the connection (%v): %s", err, state)
			}
		}
	}
	rq := dec.Req
	rec.req = &rq
	j.res <- rec
	if rec.err != "" || j.probe {
		return
	}
	// play the script
	payload := c55Payload(j.c)
	id := rq.ID
	var out bytes.Buffer
	for _, s := range j.c.Steps {
		switch s.T {
		case "out":
			out.Write(fcgi.EncodeRecord(fcgi.TypeStdout, id, payload[:s.N], s.Pad))
			payload = payload[s.N:]
		case "err":
			out.Write(fcgi.EncodeRecord(fcgi.TypeStderr, id, c55ErrText(s.N), s.Pad))
		case "out0":
			out.Write(fcgi.EncodeRecord(fcgi.TypeStdout, id, nil, s.Pad))
		case "err0":
			out.Write(fcgi.EncodeRecord(fcgi.TypeStderr, id, nil, s.Pad))
		case "end":
			out.Write(fcgi.EncodeRecord(fcgi.TypeEndRequest, id, fcgi.EndRequestBody(0, 0), s.Pad))
		}
	}
	// deliver in two writes so that record boundaries and TCP segments differ
	b := out.Bytes()
	cut := len(b) / 3
	conn.Write(b[:cut])
	conn.Write(b[cut:])
}

// generators ---------------------------------------------------------------------

var c55Sizes = []int{0, 1, 2, 5, 20, 126, 127, 128, 129, 255, 256, 300, 1000, 16383, 16384}

func c55Script(g *vkit.Rand, c *c55Case, stderr bool) {
	c.Status = []int{0, 200, 201, 404, 500}[g.Intn(5)]
	c.OutBodyLen = []int{0, 1, 10, 1000, 65535, 65536, 200000}[g.Intn(7)]
	if g.Chance(1, 2) {
		c.OutBodyLen = g.Intn(3000)
	}
	total := len(c55Payload(c))
	hdrLen := total - c.OutBodyLen
	// cut points
	var cuts []int
	for k := g.Intn(5); k > 0; k-- {
		cuts = append(cuts, g.Intn(total+1))
	}
	if g.Bool() {
		cuts = append(cuts, g.Intn(hdrLen)) // inside the CGI header block
	}
	cuts = append(cuts, 0, total)
	sort.Ints(cuts)
	var steps []c55Step
	pos := 0
	errAt := -1
	nseg := 0
	for _, x := range cuts {
		for x-pos > 0 {
			n := x - pos
			if n > 65535 {
				n = 65535
			}
			steps = append(steps, c55Step{T: "out", N: n, Pad: g.Intn(9)})
			pos += n
			nseg++
		}
	}
	steps = append(steps, c55Step{T: "out0"})
	if stderr {
		// insert STDERR records: position class
		class := g.Intn(4)
		e := c55Step{T: "err", N: []int{1, 16, 200, 5000}[g.Intn(4)], Pad: g.Intn(9)}
		switch class {
		case 0: // before any output
			errAt = 0
			c.Script = "stderr-first"
		case 1: // somewhere between stdout records
			errAt = g.Intn(len(steps))
			c.Script = "stderr-interleaved"
		case 2: // after the stdout terminator
			errAt = len(steps)
			c.Script = "stderr-after-stdout"
		default: // several
			errAt = g.Intn(len(steps))
			c.Script = "stderr-multiple"
		}
		ns := append([]c55Step{}, steps[:errAt]...)
		ns = append(ns, e)
		ns = append(ns, steps[errAt:]...)
		steps = ns
		if class == 3 {
			steps = append(steps, c55Step{T: "err", N: 30})
		}
		if g.Bool() {
			steps = append(steps, c55Step{T: "err0"})
		}
	}
	steps = append(steps, c55Step{T: "end"})
	c.Steps = steps
}

func c55GenClient(r *vkit.Run, i int) *c55Case {
	g := r.Rng("client", i)
	c := &c55Case{Level: "client", Idx: i, Net: "unix"}
	if g.Chance(1, 4) {
		c.Net = "tcp"
	}
	class := g.Intn(16)
	add := func(nl, vl int) { c.Params = append(c.Params, [2]int{nl, vl}) }
	pick := func() int { return c55Sizes[g.Intn(len(c55Sizes))] }
	switch {
	case class < 4:
		c.Shape = "small-pairs"
		for k := g.Range(0, 30); k > 0; k-- {
			add(g.Range(1, 40), g.Intn(120))
		}
	case class < 8:
		c.Shape = "boundary-lengths"
		for k := g.Range(1, 12); k > 0; k-- {
			add(pick(), pick())
		}
	case class < 10:
		c.Shape = "many-pairs-crossing-records"
		c.Many, c.Salt = g.Range(1500, 4000), g.Intn(1000)
		for k := g.Intn(3); k > 0; k-- {
			add(pick(), pick())
		}
	case class < 12:
		// name + value just below the single-record limit: 8+nl+vl in 65400..65500
		c.Shape = "pair-just-below-65500"
		nl := g.Range(1, 300)
		add(nl, 65500-8-nl-g.Intn(100))
		for k := g.Intn(4); k > 0; k-- {
			add(g.Range(1, 40), g.Intn(300))
		}
	case class < 14:
		c.Shape = "long-value"
		nl := g.Range(1, 300)
		vl := []int{65500 - 8 - nl + 1, 65527, 65528, 65535, 65536, 70000, 1 << 20}[g.Intn(7)]
		add(nl, vl)
		for k := g.Intn(4); k > 0; k-- {
			add(g.Range(1, 40), g.Intn(300))
		}
	default:
		c.Shape = "long-name"
		nl := []int{65492, 65493, 65500, 65527, 65528, 65536, 70000, 1 << 20}[g.Intn(8)]
		add(nl, g.Intn(3)*g.Intn(200))
		for k := g.Intn(3); k > 0; k-- {
			add(g.Range(1, 40), g.Intn(300))
		}
	}
	c.BodyLen = []int{0, 0, 1, 100, 65499, 65500, 65501, 65535, 65536, 131000, 1 << 20}[g.Intn(11)]
	if g.Bool() {
		c.BodyLen = g.Intn(5000)
	}
	c55Script(g, c, g.Chance(1, 4))
	return c
}

func c55GenTransport(r *vkit.Run, i int) *c55Case {
	g := r.Rng("transport", i)
	c := &c55Case{Level: "transport", Idx: i, Net: "tcp", Shape: "http"}
	c.Method = g.PickS([]string{"GET", "POST", "POST", "PUT", "HEAD"})
	c.Query = g.PickS([]string{"", "a=1&b=2", "q=%E4%BD%A0&x", "redirect=http%3A%2F%2Fx%2F%3Fa%3Db"})
	if c.Method == "POST" || c.Method == "PUT" {
		c.BodyLen = []int{0, 1, 100, 65500, 65501, 70000, 300000}[g.Intn(7)]
	}
	long := g.Chance(1, 4)
	for k := g.Range(0, 6); k > 0; k-- {
		c.Params = append(c.Params, [2]int{k, g.Intn(200)})
	}
	if long {
		c.Shape = "http:long-header-value"
		c.Params = append(c.Params, [2]int{9, []int{65470, 65490, 65528, 70000, 200000}[g.Intn(5)]})
	}
	for k := g.Intn(3); k > 0; k-- {
		c.EnvVars = append(c.EnvVars, [2]int{k, g.Intn(100)})
	}
	c55Script(g, c, g.Chance(1, 4))
	return c
}

// execution ------------------------------------------------------------------------

var c55Frame = regexp.MustCompile(`github\.com/bfenetworks/bfe/(bfe_[a-z0-9_]+)\.(?:\(\*?([A-Za-z0-9_]+)\)\.)?([A-Za-z0-9_]+)`)

// c55Try is vkit.Run.Try with a signature that keeps the method name
// (vkit.PanicSig stops at the '(' of a pointer receiver).
func c55Try(r *vkit.Run, c *c55Case, fn func()) (panicked bool) {
	defer func() {
		if e := recover(); e != nil {
			panicked = true
			st := debug.Stack()
			sig := "panic:unknown"
			if m := c55Frame.FindSubmatch(st); m != nil {
				sig = fmt.Sprintf("panic:%s.%s", m[1], m[3])
				if len(m[2]) > 0 {
					sig = fmt.Sprintf("panic:%s.%s.%s", m[1], m[2], m[3])
				}
			}
			stack := string(st)
			if len(stack) > 3000 {
				stack = stack[:3000]
			}
			r.Violation(sig+":"+c.Shape, fmt.Sprintf("panic: %v", e), c55Witness(c, map[string]interface{}{"panic": fmt.Sprint(e), "stack": stack}))
		}
	}()
	fn()
	return false
}

type c55Pool struct {
	unix chan *c55Responder
	tcp  chan *c55Responder
}

func c55NewPool(n int) (*c55Pool, error) {
	p := &c55Pool{unix: make(chan *c55Responder, n), tcp: make(chan *c55Responder, n)}
	for i := 0; i < n; i++ {
		u, err := c55NewResponder("unix", i)
		if err != nil {
			return nil, err
		}
		t, err := c55NewResponder("tcp", i)
		if err != nil {
			return nil, err
		}
		p.unix <- u
		p.tcp <- t
	}
	return p, nil
}

func c55Witness(c *c55Case, extra map[string]interface{}) map[string]interface{} {
	w := map[string]interface{}{"case": c}
	for k, v := range extra {
		w[k] = v
	}
	return w
}

func c55Key(c *c55Case) string {
	b, _ := json.Marshal(struct {
		L string
		P [][2]int
		B int
		M string
		Q string
		S []c55Step
	}{c.Level, append(append([][2]int{}, c.Params...), [2]int{c.Many, c.Salt}), c.BodyLen, c.Method, c.Query, c.Steps})
	return string(b)
}

func c55StderrLen(c *c55Case) (n int) {
	for _, s := range c.Steps {
		if s.T == "err" {
			n += s.N
		}
	}
	return n
}

func c55HasStderr(c *c55Case) bool {
	for _, s := range c.Steps {
		if s.T == "err" {
			return true
		}
	}
	return false
}

// c55Probe sends the client-level request with FCGIClient.Do (which returns
// once everything is written) and closes the connection; the responder
// records until EOF, so "stream not terminated" needs no timing argument.
func c55Probe(rs *c55Responder, c *c55Case, body []byte) (rec c55Recording, err error) {
	job := &c55Job{c: c, probe: true, res: make(chan c55Recording, 1), cancel: make(chan struct{})}
	rs.jobs <- job
	defer close(job.cancel)
	defer func() {
		if e := recover(); e != nil {
			err = fmt.Errorf("panic in probe: %v", e)
		}
	}()
	cl, derr := bfe_fcgi.Dial(rs.network, rs.addr)
	if derr != nil {
		return rec, derr
	}
	_, derr = cl.Do(c55ParamMap(c), bytes.NewReader(body))
	cl.Close()
	if derr != nil {
		return rec, derr
	}
	select {
	case rec = <-job.res:
		return rec, nil
	case <-time.After(60 * time.Second):
		return rec, fmt.Errorf("probe recording did not arrive")
	}
}

func c55Run(r *vkit.Run, pool *c55Pool, c *c55Case) {
	if atomic.LoadInt64(&c55Timeouts) >= 6 {
		// every further case would wait for the idle watchdog again
		r.Count("skipped_after_repeated_timeouts", 1)
		return
	}
	ch := pool.unix
	if c.Net == "tcp" {
		ch = pool.tcp
	}
	rs := <-ch
	defer func() { ch <- rs }()
	job := &c55Job{c: c, res: make(chan c55Recording, 1), cancel: make(chan struct{})}
	rs.jobs <- job
	defer close(job.cancel)

	body := c55Body(c.BodyLen)
	var resp *bfe_http.Response
	var callErr error
	var gotBody []byte
	var wantParams map[string]string // exact (client) or required subset (transport)
	connected := false
	panicked := c55Try(r, c, func() {
		if c.Level == "client" {
			wantParams = c55ParamMap(c)
			in := map[string]string{}
			for k, v := range wantParams {
				in[k] = v
			}
			cl, err := bfe_fcgi.Dial(rs.network, rs.addr)
			if err != nil {
				callErr = err
				return
			}
			connected = true
			defer cl.Close()
			resp, callErr = cl.Request(in, bytes.NewReader(body))
			if callErr == nil {
				gotBody, _ = io.ReadAll(resp.Body)
			}
			return
		}
		// transport level
		var raw bytes.Buffer
		target := "/app/index.php"
		if c.Query != "" {
			target += "?" + c.Query
		}
		fmt.Fprintf(&raw, "%s %s HTTP/1.1\r\nHost: app.example:8443\r\n", c.Method, target)
		wantParams = map[string]string{"REQUEST_METHOD": c.Method, "QUERY_STRING": c.Query, "SERVER_PROTOCOL": "HTTP/1.1", "HTTP_HOST": "app.example:8443"}
		for _, p := range c.Params {
			v := c55Fill('h', p[0], p[1])
			fmt.Fprintf(&raw, "X-Verif-H%d: %s\r\n", p[0], v)
			wantParams[fmt.Sprintf("HTTP_X_VERIF_H%d", p[0])] = v
		}
		if c.Method == "POST" || c.Method == "PUT" {
			fmt.Fprintf(&raw, "Content-Type: application/x-verif\r\nContent-Length: %d\r\n", len(body))
			wantParams["CONTENT_LENGTH"] = fmt.Sprint(len(body))
			wantParams["CONTENT_TYPE"] = "application/x-verif"
		}
		raw.WriteString("\r\n")
		raw.Write(body)
		breq, err := parseReq(raw.Bytes())
		if err != nil {
			callErr = fmt.Errorf("http reader: %v", err)
			return
		}
		hr := breq.HttpRequest
		hr.URL.Scheme = "http"
		hr.URL.Host = rs.addr
		hr.RemoteAddr = "192.0.2.9:51234"
		tr := &bfe_fcgi.Transport{Root: "/var/www", EnvVars: map[string]string{}}
		for _, e := range c.EnvVars {
			k, v := fmt.Sprintf("VERIF_ENV_%d", e[0]), c55Fill('e', e[0], e[1])
			tr.EnvVars[k] = v
			wantParams[k] = v
		}
		connected = true
		resp, callErr = tr.RoundTrip(hr)
		if callErr == nil {
			gotBody, _ = io.ReadAll(resp.Body)
		}
	})
	nontrivial := false
	defer func() { r.CaseS(c55Key(c), nontrivial) }()
	if panicked {
		r.Count("panics", 1)
		return
	}
	if !connected {
		if callErr != nil && strings.HasPrefix(callErr.Error(), "http reader:") {
			r.Count("http_reader_refused", 1)
			return
		}
		r.Inconclusive(fmt.Sprintf("cannot reach the fake responder: %v", callErr))
		return
	}
	var rec c55Recording
	select {
	case rec = <-job.res:
	case <-time.After(30 * time.Second):
		r.Inconclusive("fake responder did not report within 30 s")
		return
	}
	r.Count("requests_recorded", 1)
	// ---- request side
	if rec.timeout {
		atomic.AddInt64(&c55Timeouts, 1)
		r.Count("responder_idle_timeouts", 1)
		if c.Level != "client" {
			r.Inconclusive("transport-level request incomplete after idle timeout (no EOF-delimited probe possible): " + rec.err)
			return
		}
		// sound re-check: write the same request with Do() and close the connection
		prec, perr := c55Probe(rs, c, body)
		if perr != nil {
			r.Inconclusive("probe failed: " + perr.Error())
			return
		}
		if prec.err == "" {
			r.Inconclusive("responder idle timeout although the EOF-delimited probe decoded a complete request (machine too slow?)")
			return
		}
		rec = prec
	}
	if rec.err != "" {
		sig := "records:malformed"
		if strings.HasPrefix(rec.err, "streams not terminated") {
			sig = "records:stream-not-terminated"
		} else if strings.HasPrefix(rec.err, "protocol") {
			sig = "records:protocol"
		}
		r.Violation(sig+":"+c.Shape, rec.err, c55Witness(c, map[string]interface{}{"call_error": fmt.Sprint(callErr)}))
		return
	}
	nontrivial = len(c.Params)+c.Many > 0
	rq := rec.req
	if rq.Role != fcgi.RoleResponder {
		r.Violation("begin:role", fmt.Sprintf("BEGIN_REQUEST role %d", rq.Role), c55Witness(c, nil))
		return
	}
	got := map[string]string{}
	for _, p := range rq.Params {
		if _, dup := got[p.Name]; dup {
			r.Violation("params:duplicate-name", fmt.Sprintf("parameter %q sent twice", c55Short(p.Name)), c55Witness(c, nil))
			return
		}
		got[p.Name] = p.Value
	}
	reqOK := true
	for k, v := range wantParams {
		gv, ok := got[k]
		if ok && gv == v {
			continue
		}
		reqOK = false
		switch {
		case !ok:
			r.Violation("params:missing:"+c.Level, fmt.Sprintf("parameter %q (value %d bytes) not received", c55Short(k), len(v)), c55Witness(c, nil))
		case len(gv) < len(v) && strings.HasPrefix(v, gv):
			r.Violation("params:value-truncated:"+c.Level, fmt.Sprintf("parameter %q (%d-byte name): value of %d bytes arrived as its first %d bytes", c55Short(k), len(k), len(v), len(gv)), c55Witness(c, nil))
		default:
			r.Violation("params:value-differs:"+c.Level, fmt.Sprintf("parameter %q: got %q want %q", c55Short(k), c55Short(gv), c55Short(v)), c55Witness(c, nil))
		}
		break
	}
	if reqOK && c.Level == "client" && len(got) != len(wantParams) {
		reqOK = false
		r.Violation("params:extra", fmt.Sprintf("%d parameters received, %d sent", len(got), len(wantParams)), c55Witness(c, nil))
	}
	if reqOK && !bytes.Equal(rq.Stdin, body) {
		reqOK = false
		r.Violation("stdin:differs", fmt.Sprintf("STDIN stream has %d bytes, body %d bytes", len(rq.Stdin), len(body)), c55Witness(c, nil))
	}
	if reqOK {
		r.Count("request_decoded_ok", 1)
		if rq.NRecords > 5 {
			r.Count("request_multi_record_streams", 1)
		}
	}
	// ---- response side
	hasErr := c55HasStderr(c)
	if hasErr {
		r.Count("scripts_with_stderr", 1)
	} else {
		r.Count("scripts_stdout_only", 1)
	}
	wantStatus := c.Status
	if wantStatus == 0 {
		wantStatus = 200
	}
	wantBody := c55OutBody(c.OutBodyLen)
	stderrSig := func(where string) string {
		return "stdout:stderr-mixed-into-response:" + where
	}
	if callErr != nil {
		if hasErr {
			r.Violation(stderrSig("in-headers"), fmt.Sprintf("application wrote to STDERR; building the response failed: %v", callErr), c55Witness(c, nil))
		} else {
			r.Violation("response:error:"+c.Shape, fmt.Sprintf("well-formed STDOUT-only reply, client returned error: %v", callErr), c55Witness(c, nil))
		}
		return
	}
	leak := bytes.Contains(gotBody, []byte(c55ErrMarker[:4])) || c55HeaderHas(resp, c55ErrMarker[:4])
	wantHdr := map[string]string{"Content-Type": "application/octet-stream", "X-Marker": fmt.Sprintf("m%d", c.Idx)}
	if c.Status != 0 {
		wantHdr["Status"] = fmt.Sprintf("%d Scripted", c.Status)
	}
	hdrOK := len(resp.Header) == len(wantHdr)
	for k, v := range wantHdr {
		if vs := resp.Header[k]; len(vs) != 1 || vs[0] != v {
			hdrOK = false
		}
	}
	if resp.StatusCode != wantStatus || !hdrOK {
		sig := "response:status-or-header"
		if hasErr {
			sig = stderrSig("in-headers")
		}
		r.Violation(sig, fmt.Sprintf("status %d X-Marker %q, want %d m%d; header=%v", resp.StatusCode, resp.Header.Get("X-Marker"), wantStatus, c.Idx, c55Short(fmt.Sprint(resp.Header))), c55Witness(c, nil))
		return
	}
	if !bytes.Equal(gotBody, wantBody) {
		sig := "response:body-differs"
		if hasErr && (leak || len(gotBody) == len(wantBody)+c55StderrLen(c)) {
			sig = stderrSig("in-body")
		}
		r.Violation(sig, fmt.Sprintf("response body has %d bytes, STDOUT body %d bytes; STDERR text present in body: %v", len(gotBody), len(wantBody), leak), c55Witness(c, nil))
		return
	}
	if leak {
		r.Violation(stderrSig("in-headers"), "STDERR text in the response headers", c55Witness(c, nil))
		return
	}
	r.Count("response_ok", 1)
	if hasErr {
		r.Count("response_ok_with_stderr", 1)
	}
}

func c55HeaderHas(resp *bfe_http.Response, s string) bool {
	for k, vs := range resp.Header {
		if strings.Contains(k, s) || strings.Contains(strings.ToUpper(k), strings.ToUpper(s)) {
			return true
		}
		for _, v := range vs {
			if strings.Contains(v, s) {
				return true
			}
		}
	}
	return false
}

func c55Short(s string) string {
	if len(s) > 60 {
		return fmt.Sprintf("%s...(%d bytes)", s[:40], len(s))
	}
	return s
}

func c55(r *vkit.Run) {
	r.SetRule("level client: FCGIClient.Request(params, body) over unix/tcp sockets with seeded parameter maps (small pairs; boundary lengths 0,1,127,128,129,255,256,16383,16384; 1500-4000 pairs crossing record boundaries; one pair just below the 65500-byte single-record limit; long values 65493-len(name)..1 MiB; long names 65492..1 MiB) and bodies 0..1 MiB incl. 65499-65501/65535/65536; level transport: bfe_fcgi.Transport.RoundTrip on requests parsed by bfe_http.ReadRequest (methods, queries, 0-6 headers, optionally one header value of 65470..200000 bytes, EnvVars, bodies to 300000) checked for the RFC 3875 variables REQUEST_METHOD, QUERY_STRING, SERVER_PROTOCOL, HTTP_HOST, CONTENT_LENGTH/TYPE, HTTP_<header>, EnvVars. Responder scripts: CGI header block (+Status 0/200/201/404/500) and body 0..200000 bytes cut at seeded points (also inside the header block), random padding, STDERR records (1/4 of the scripts) first / interleaved / after the STDOUT terminator / several, optional empty STDERR, END_REQUEST. Non-trivial = request decoded with >=1 parameter; distinct = (level, pair lengths, body length, script)")
	r.Assume("ref/fcgi implements FastCGI 1.0 sections 3.3, 3.4, 6.2 correctly (independent of bfe_fcgi)")
	r.Assume("transport level judges only CGI variables that follow unambiguously from RFC 3875; PATH_INFO/SCRIPT_NAME/DOCUMENT_ROOT mapping is not judged")

	pool, err := c55NewPool(16)
	if err != nil {
		r.Inconclusive("cannot open responder sockets: " + err.Error())
		return
	}
	if r.Replay != "" {
		var w struct {
			Case c55Case `json:"case"`
		}
		if err := r.LoadReplay(&w); err != nil || w.Case.Level == "" {
			r.Inconclusive(fmt.Sprint("bad replay file: ", err))
			return
		}
		c55Run(r, pool, &w.Case)
		r.SetMinDistinct(0)
		return
	}
	nc, nt := r.N(2400, 48000), r.N(600, 12000)
	vkit.Parallel(nc+nt, 16, func(i int) {
		var c *c55Case
		if i < nc {
			c = c55GenClient(r, i)
		} else {
			c = c55GenTransport(r, i-nc)
		}
		c55Run(r, pool, c)
		if i%401 == 0 && r.WantSample() {
			r.Sample(c)
		}
	})
	for _, k := range []string{"requests_recorded", "request_decoded_ok", "request_multi_record_streams", "scripts_with_stderr", "scripts_stdout_only", "response_ok"} {
		if r.Counter(k) == 0 {
			r.Inconclusive("outcome never reached: " + k)
		}
	}
}
