package main

import (
	"encoding/json"
	"fmt"
	"path/filepath"
	"sort"
	"strings"

	"github.com/bfenetworks/bfe/bfe_basic"
	"github.com/bfenetworks/bfe/bfe_http"
	"github.com/bfenetworks/bfe/bfe_module"
	"github.com/bfenetworks/bfe/bfe_modules/mod_cors"

	"verifharness/vkit"
)

// C52: Access-Control-Allow-* headers are added only when the request's
// Origin is allowed by the matching rule (echoed origin or "*" as configured);
// whenever the response depends on the request Origin, Vary lists Origin in
// addition to any existing values.
//
// Reference (docs/en_us/modules/mod_cors/mod_cors.md + Fetch "CORS protocol
// and HTTP caches"):
//   matching rule = first rule of the product whose Cond matches;
//   allowed  <=>  Origin present and ("%origin" in list or "*" in list or Origin in list);
//   ACAO = "*" for a ["*"] rule, else the request Origin; ACAC "true" iff configured;
//   Expose-Headers on actual requests, Allow-Methods/Allow-Headers/Max-Age on
//   preflights, each iff configured; nothing Access-Control-* when not allowed;
//   the response depends on Origin whenever the matching rule is not ["*"]
//   (allowed or not): final Vary (all lines, comma-split, case-insensitive)
//   must contain Origin (or "*") and every pre-existing token.

type c52Rule struct {
	Cond                          string
	AccessControlAllowOrigins     []string
	AccessControlAllowCredentials bool
	AccessControlExposeHeaders    []string `json:",omitempty"`
	AccessControlAllowMethods     []string `json:",omitempty"`
	AccessControlAllowHeaders     []string `json:",omitempty"`
	AccessControlMaxAge           *int     `json:",omitempty"`
}

type c52Case struct {
	Product   string      `json:"product"`
	Rules     []c52Rule   `json:"rules"`
	Method    string      `json:"method"`
	Host      string      `json:"host"`
	Origin    *string     `json:"origin"` // nil = header absent
	ACRM      string      `json:"acrm,omitempty"`
	Vary      []string    `json:"vary"` // pre-existing Vary lines on the backend response
	Preset    [][2]string `json:"preset,omitempty"`
	Preflight bool        `json:"preflight"`
}

const c52HostA = "a.example.org"

func intp(v int) *int { return &v }

func c52RuleLists() [][]c52Rule {
	spec1 := []string{"https://a.example"}
	spec2 := []string{"https://a.example", "http://b.example:8080"}
	var lists [][]c52Rule
	add := func(rs ...c52Rule) { lists = append(lists, rs) }
	full := func(origins []string, cred bool) c52Rule {
		return c52Rule{Cond: "default_t()", AccessControlAllowOrigins: origins, AccessControlAllowCredentials: cred,
			AccessControlExposeHeaders: []string{"X-Custom-Header", "X-Other"}, AccessControlAllowMethods: []string{"GET", "PUT", "DELETE"},
			AccessControlAllowHeaders: []string{"X-Custom-Header"}, AccessControlMaxAge: intp(600)}
	}
	bare := func(cond string, origins []string, cred bool) c52Rule {
		return c52Rule{Cond: cond, AccessControlAllowOrigins: origins, AccessControlAllowCredentials: cred}
	}
	for _, o := range [][]string{{"%origin"}, {"*"}, {"null"}, spec1, spec2, {"%origin", "https://a.example"}} {
		add(bare("default_t()", o, false))
		add(full(o, false))
		if o[0] != "*" {
			add(bare("default_t()", o, true))
			add(full(o, true))
		}
	}
	// max-age corner values, wildcard lists
	add(c52Rule{Cond: "default_t()", AccessControlAllowOrigins: spec1, AccessControlMaxAge: intp(-1), AccessControlAllowMethods: []string{"*"}, AccessControlAllowHeaders: []string{"*"}, AccessControlExposeHeaders: []string{"*"}})
	add(c52Rule{Cond: "default_t()", AccessControlAllowOrigins: []string{"*"}, AccessControlMaxAge: intp(0)})
	add(c52Rule{Cond: "default_t()", AccessControlAllowOrigins: spec1, AccessControlMaxAge: intp(86400)})
	// two rules: host-specific first, default second; and a list where nothing matches other hosts
	hostCond := fmt.Sprintf("req_host_in(\"%s\")", c52HostA)
	add(bare(hostCond, spec1, true), bare("default_t()", []string{"*"}, false))
	add(bare(hostCond, []string{"*"}, false), full(spec2, true))
	add(bare(hostCond, []string{"%origin"}, true), bare("default_t()", []string{"null"}, false))
	add(bare(hostCond, spec2, false))
	add(full(spec1, false), bare("default_t()", []string{"%origin"}, true)) // second rule must never be used
	return lists
}

var c52Origins = []string{"https://a.example", "http://b.example:8080", "https://c.example", "https://a.example.evil.test", "https://a.example:443",
	"http://a.example", "null", "*", "%origin", "https://xn--bcher-kva.example"}

var c52Varys = [][]string{nil, {"*"}, {"Accept-Encoding"}, {"origin"}, {"Origin"}, {"ORIGIN"}, {"Accept-Encoding, Origin"}, {"Accept-Encoding", "User-Agent"},
	{"Accept-Encoding,"}, {"Accept-Encoding", "Origin"}, {"Accept-Encoding,Cookie , X-Foo"}, {"Original"}, {"X-Origin, Accept"}}

type c52Kind struct {
	method, acrm string
	preflight    bool
}

var c52Kinds = []c52Kind{{"GET", "", false}, {"POST", "", false}, {"OPTIONS", "", false}, {"HEAD", "", false},
	{"OPTIONS", "GET", true}, {"OPTIONS", "PUT", true}, {"OPTIONS", "DELETE", true}, {"OPTIONS", "PATCH", true}, {"GET", "PUT", false}}

// ---- reference --------------------------------------------------------------

type c52Want struct {
	matched   *c52Rule
	allowed   bool
	acao      string
	dependsOn bool // response depends on Origin
}

func c52Reference(c *c52Case) c52Want {
	var w c52Want
	if c.Origin == nil || *c.Origin == "" {
		return w
	}
	for i := range c.Rules {
		rl := &c.Rules[i]
		if rl.Cond == "default_t()" || c.Host == c52HostA { // the only other cond used is req_host_in(hostA)
			w.matched = rl
			break
		}
	}
	if w.matched == nil {
		return w
	}
	star := false
	for _, o := range w.matched.AccessControlAllowOrigins {
		switch {
		case o == "%origin":
			w.allowed = true
		case o == "*":
			w.allowed, star = true, true
		case o == *c.Origin:
			w.allowed = true
		}
	}
	if w.allowed {
		w.acao = *c.Origin
		if star {
			w.acao = "*"
		}
	}
	w.dependsOn = !star
	return w
}

func c52VaryTokens(lines []string) []string {
	var t []string
	for _, l := range lines {
		for _, x := range strings.Split(l, ",") {
			x = strings.ToLower(strings.TrimSpace(x))
			if x != "" {
				t = append(t, x)
			}
		}
	}
	sort.Strings(t)
	return t
}

func c52Tokens(v string) string {
	var t []string
	for _, x := range strings.Split(v, ",") {
		t = append(t, strings.TrimSpace(x))
	}
	return strings.Join(t, ",")
}

// ---- execution --------------------------------------------------------------

func c52Req(c *c52Case) (*bfe_basic.Request, error) {
	var sb strings.Builder
	fmt.Fprintf(&sb, "%s /res?x=1 HTTP/1.1\r\nHost: %s\r\n", c.Method, c.Host)
	if c.Origin != nil {
		fmt.Fprintf(&sb, "Origin: %s\r\n", *c.Origin)
	}
	if c.ACRM != "" {
		fmt.Fprintf(&sb, "Access-Control-Request-Method: %s\r\n", c.ACRM)
	}
	if c.Method == "POST" {
		sb.WriteString("Content-Length: 0\r\n")
	}
	sb.WriteString("\r\n")
	req, err := parseReq([]byte(sb.String()))
	if err != nil {
		return nil, err
	}
	req.Route.Product = c.Product
	return req, nil
}

func c52Shape(c *c52Case) string {
	switch {
	case len(c.Vary) == 0:
		return "no-vary"
	case strings.TrimSpace(c.Vary[0]) == "" && len(c.Vary) > 1:
		return "empty-first-line"
	case len(c.Vary) > 1:
		return "multi-line-vary"
	default:
		return "existing-vary"
	}
}

func c52Check(r *vkit.Run, env *modEnv, c *c52Case) {
	req, err := c52Req(c)
	if err != nil {
		r.Count("http_reader_refused", 1)
		return
	}
	want := c52Reference(c)
	var hdr bfe_http.Header
	var before bfe_http.Header
	panicked := r.Try(func() interface{} { return c }, func() {
		code, res := env.request(bfe_module.HandleFoundProduct, req)
		if c.Preflight && want.matched != nil {
			if code != bfe_module.BfeHandlerResponse || res == nil {
				r.Violation("preflight:not-answered", fmt.Sprintf("preflight with a matching rule: handler returned %d", code), c)
				return
			}
			if res.StatusCode < 200 || res.StatusCode > 299 {
				r.Violation("preflight:status", fmt.Sprintf("preflight answered with status %d", res.StatusCode), c)
			}
			hdr = res.Header
			before = bfe_http.Header{}
			return
		}
		if code != bfe_module.BfeHandlerGoOn {
			r.Violation("request:not-passed", fmt.Sprintf("request phase returned %d for a request that is not a preflight with a matching rule", code), c)
			return
		}
		// backend response
		res = &bfe_http.Response{StatusCode: 200, Header: bfe_http.Header{}, Body: bfe_http.EofReader}
		res.Header.Set("Content-Type", "text/plain")
		for _, v := range c.Vary {
			res.Header.Add("Vary", v)
		}
		for _, kv := range c.Preset {
			res.Header.Add(kv[0], kv[1])
		}
		before = bfe_http.Header{}
		for k, v := range res.Header {
			before[k] = append([]string{}, v...)
		}
		req.HttpResponse = res
		rc := env.response(bfe_module.HandleReadResponse, req, res)
		if rc != bfe_module.BfeHandlerGoOn {
			r.Violation("response:not-passed", fmt.Sprintf("response phase returned %d", rc), c)
			return
		}
		hdr = res.Header
	})
	if panicked || hdr == nil {
		return
	}
	key, _ := json.Marshal(c)
	nontrivial := want.matched != nil
	r.CaseS(string(key), nontrivial)

	kind := "actual"
	if c.Preflight {
		kind = "preflight"
	}
	wit := func() interface{} {
		return map[string]interface{}{"case": c, "response_header": hdr, "want_allowed": want.allowed, "want_acao": want.acao}
	}
	// 1. Access-Control-* presence and values
	get := func(k string) []string { return hdr[bfe_http.CanonicalHeaderKey(k)] }
	if !want.allowed {
		r.Count("not_allowed", 1)
		for k, v := range hdr {
			if strings.HasPrefix(k, "Access-Control-") && fmt.Sprint(before[k]) != fmt.Sprint(v) {
				r.Violation("acao:added-for-disallowed-origin:"+kind, fmt.Sprintf("%s: %v added although the Origin is not allowed by the matching rule", k, v), wit())
				return
			}
		}
	} else {
		r.Count("allowed", 1)
		if v := get("Access-Control-Allow-Origin"); len(v) != 1 || v[0] != want.acao {
			sig := "acao:wrong-value"
			if len(v) == 0 {
				sig = "acao:missing-for-allowed-origin"
			}
			r.Violation(sig+":"+kind, fmt.Sprintf("Access-Control-Allow-Origin = %q, want [%q]", v, want.acao), wit())
			return
		}
		if want.acao == "*" {
			r.Count("acao_star", 1)
		} else {
			r.Count("acao_echo", 1)
		}
		v := get("Access-Control-Allow-Credentials")
		if want.matched.AccessControlAllowCredentials != (len(v) == 1 && v[0] == "true") || len(v) > 1 {
			r.Violation("acac:mismatch:"+kind, fmt.Sprintf("Access-Control-Allow-Credentials = %q, configured %v", v, want.matched.AccessControlAllowCredentials), wit())
			return
		}
		listHdr := func(name string, conf []string) bool {
			v := get(name)
			if len(conf) == 0 {
				if len(v) != 0 {
					r.Violation("list-header:unconfigured-present:"+kind, fmt.Sprintf("%s = %q but nothing is configured", name, v), wit())
					return false
				}
				return true
			}
			if len(v) != 1 || c52Tokens(v[0]) != strings.Join(conf, ",") {
				r.Violation("list-header:mismatch:"+kind, fmt.Sprintf("%s = %q, configured %q", name, v, conf), wit())
				return false
			}
			return true
		}
		if c.Preflight {
			if !listHdr("Access-Control-Allow-Methods", want.matched.AccessControlAllowMethods) || !listHdr("Access-Control-Allow-Headers", want.matched.AccessControlAllowHeaders) {
				return
			}
			v := get("Access-Control-Max-Age")
			if ma := want.matched.AccessControlMaxAge; (ma == nil) != (len(v) == 0) || (ma != nil && (len(v) != 1 || v[0] != fmt.Sprint(*ma))) {
				r.Violation("max-age:mismatch", fmt.Sprintf("Access-Control-Max-Age = %q", v), wit())
				return
			}
		} else if !listHdr("Access-Control-Expose-Headers", want.matched.AccessControlExposeHeaders) {
			return
		}
	}
	// 2. untouched headers
	for k, v := range before {
		if k == "Vary" || strings.HasPrefix(k, "Access-Control-") {
			continue
		}
		if fmt.Sprint(hdr[k]) != fmt.Sprint(v) {
			r.Violation("other-header-changed", fmt.Sprintf("%s changed from %q to %q", k, v, hdr[k]), wit())
			return
		}
	}
	// 3. Vary
	beforeTok, afterTok := c52VaryTokens(before["Vary"]), c52VaryTokens(hdr["Vary"])
	have := map[string]int{}
	for _, t := range afterTok {
		have[t]++
	}
	for _, t := range beforeTok {
		if have[t] == 0 {
			r.Violation("vary:existing-token-lost:"+c52Shape(c), fmt.Sprintf("pre-existing Vary token %q lost: before %q after %q", t, before["Vary"], hdr["Vary"]), wit())
			return
		}
		have[t]--
	}
	if want.matched == nil {
		r.Count("no_rule_or_no_origin", 1)
		if fmt.Sprint(before["Vary"]) != fmt.Sprint(hdr["Vary"]) {
			r.Violation("vary:changed-without-rule", fmt.Sprintf("Vary changed from %q to %q although no rule applies", before["Vary"], hdr["Vary"]), wit())
		}
		return
	}
	if !want.dependsOn {
		r.Count("origin_independent", 1)
		return
	}
	r.Count("depends_on_origin", 1)
	hasOrigin := false
	for _, t := range afterTok {
		if t == "origin" || t == "*" {
			hasOrigin = true
		}
	}
	if hasOrigin {
		r.Count("vary_has_origin", 1)
		if len(beforeTok) > 0 {
			r.Count("vary_has_origin_with_existing", 1)
		}
		return
	}
	if !want.allowed {
		r.Violation("vary:missing-on-disallowed-origin:"+kind, fmt.Sprintf("rule allows only specific origins, request Origin %q is refused (no ACAO) but the response carries no Vary: Origin (Vary = %q): a cache may serve it to an allowed origin", *c.Origin, hdr["Vary"]), wit())
		return
	}
	r.Violation("vary:origin-not-added:"+c52Shape(c), fmt.Sprintf("ACAO echoes the request Origin but Vary = %q (before the handler: %q) does not list Origin", hdr["Vary"], before["Vary"]), wit())
}

func c52(r *vkit.Run) {
	r.SetRule("finite grid, enumerated completely in both tiers: 37 rule lists (each its own product in one rule file loaded through the real loader: %origin / * / null / one / two origins / %origin+origin, credentials on/off, with and without expose/methods/headers/max-age incl. wildcard lists and max-age -1/0/86400, two-rule lists with a host condition first) x hosts {a.example.org, other.test} x Origin {absent, 10 values incl. allowed, suffix/port/scheme variants, null, *, literal %origin} x request kind {GET, POST, HEAD, OPTIONS without ACRM, GET with ACRM, preflight OPTIONS+ACRM GET/PUT/DELETE/PATCH} x pre-existing Vary {absent, *, Accept-Encoding, origin/Origin/ORIGIN, list with Origin, two lines, trailing comma, Original, X-Origin}; plus a seeded part with random origins, Vary token lists and a pre-existing backend ACAO. Non-trivial = a rule matches and Origin is present; distinct = whole case. Not judged: Origin values differing only in case, several Origin lines, ACRM naming a non-standard method, Vary on [\"*\"] rules")
	r.Assume("condition primitives default_t() and req_host_in() are correct (C16-C18)")

	lists := c52RuleLists()
	conf := map[string]interface{}{"Version": "c52"}
	cfg := map[string][]c52Rule{}
	for i, l := range lists {
		cfg[fmt.Sprintf("p%d", i)] = l
	}
	conf["Config"] = cfg
	root := filepath.Join(scratch(), "c52conf")
	data, _ := json.MarshalIndent(conf, "", " ")
	writeFile(filepath.Join(root, "mod_cors", "cors_rule.data"), data)
	writeFile(filepath.Join(root, "mod_cors", "mod_cors.conf"), []byte("[Basic]\nDataPath = mod_cors/cors_rule.data\n\n[Log]\nOpenDebug = false\n"))
	env := newModEnv()
	m := mod_cors.NewModuleCors()
	if err := m.Init(env.cbs, env.whs, root); err != nil {
		// every rule list uses documented items with valid values
		r.Violation("load-rejected-valid", "rule file with documented items rejected: "+err.Error(), string(data))
		r.Evals(1)
		return
	}

	if r.Replay != "" {
		var w struct {
			Case c52Case `json:"case"`
		}
		if err := r.LoadReplay(&w); err != nil || w.Case.Product == "" {
			var c c52Case
			if err2 := r.LoadReplay(&c); err2 != nil {
				r.Inconclusive(fmt.Sprint(err, err2))
				return
			}
			w.Case = c
		}
		c52Check(r, env, &w.Case)
		r.SetMinDistinct(0)
		return
	}

	var cases []*c52Case
	origins := []*string{nil}
	for i := range c52Origins {
		origins = append(origins, &c52Origins[i])
	}
	for li, l := range lists {
		for _, host := range []string{c52HostA, "other.test"} {
			for _, o := range origins {
				for _, k := range c52Kinds {
					for _, v := range c52Varys {
						if k.preflight && len(v) > 0 {
							continue // the preflight response is built by bfe: no pre-existing Vary
						}
						cases = append(cases, &c52Case{Product: fmt.Sprintf("p%d", li), Rules: l, Method: k.method, Host: host, Origin: o, ACRM: k.acrm, Vary: v, Preflight: k.preflight && o != nil})
					}
				}
			}
		}
	}
	grid := len(cases)
	r.Count("grid_cases", int64(grid))
	// seeded part
	n := r.N(5000, 100000)
	toks := []string{"Accept-Encoding", "Accept", "Cookie", "User-Agent", "Origin", "origin", "X-Origin", "Accept-Language", "*", ""}
	for i := 0; i < n; i++ {
		g := r.Rng("rand", i)
		li := g.Intn(len(lists))
		k := c52Kinds[g.Intn(4)]
		var o string
		switch g.Intn(4) {
		case 0:
			o = c52Origins[g.Intn(len(c52Origins))]
		case 1:
			o = "https://" + g.PickS([]string{"a", "b", "www", "x1"}) + "." + g.PickS([]string{"example", "test", "a.example"}) + g.PickS([]string{"", ":8443", ":80"})
		case 2:
			o = "https://a.example" + g.PickS([]string{"", "/", "x", ".", "%00", "#", "?"})
		default:
			o = g.PickS([]string{"http://b.example:8080", "https://a.example"})
		}
		var vary []string
		for l := g.Intn(3); l > 0; l-- {
			var ts []string
			for t := g.Range(1, 4); t > 0; t-- {
				ts = append(ts, toks[g.Intn(len(toks))])
			}
			vary = append(vary, strings.Join(ts, g.PickS([]string{",", ", ", " ,"})))
		}
		c := &c52Case{Product: fmt.Sprintf("p%d", li), Rules: lists[li], Method: k.method, Host: g.PickS([]string{c52HostA, "other.test"}), Origin: &o, Vary: vary}
		if g.Chance(1, 10) {
			c.Preset = [][2]string{{"Access-Control-Allow-Origin", "https://backend.example"}}
		}
		cases = append(cases, c)
	}
	vkit.Parallel(len(cases), 0, func(i int) {
		c := cases[i]
		if len(c.Preset) > 0 {
			// backend-supplied ACAO: must be replaced when allowed, left alone otherwise
			r.Count("preset_acao_cases", 1)
		}
		c52Check(r, env, c)
		if i%977 == 0 && r.WantSample() {
			r.Sample(c)
		}
	})
	r.SetExhaustive(false)
	r.Extra("grid_enumerated_completely", true)
	for _, k := range []string{"allowed", "not_allowed", "acao_star", "acao_echo", "depends_on_origin", "origin_independent", "no_rule_or_no_origin"} {
		if r.Counter(k) == 0 {
			r.Inconclusive("outcome never reached: " + k)
		}
	}
}
