// vmods decides the module-level properties C49 (rewrite/header/redirect
// actions), C50 (static files), C51 (access-control modules), C52 (CORS),
// C53 (prison rate limiting), C55 (FastCGI encoding), C56 (DoH + EDNS client
// subnet).
package main

import (
	"fmt"
	"os"

	"verifharness/vkit"
)

func main() {
	r := vkit.Start("exploration")
	initLog()
	switch r.Prop {
	case "C49":
		c49(r)
	case "C50":
		c50(r)
	case "C51":
		c51(r)
	case "C52":
		c52(r)
	case "C53":
		c53(r)
	case "C55":
		c55(r)
	case "C56":
		c56(r)
	default:
		fmt.Fprintln(os.Stderr, "vmods: unknown property", r.Prop)
		os.Exit(vkit.ExitInconclusive)
	}
	r.Finish()
}
