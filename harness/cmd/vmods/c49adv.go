package main

import (
	"fmt"
	"regexp"
	"strings"
	"sync"

	"verifharness/vkit"
)

// C49, adversarial family for the rewrite actions of mod_rewrite.md (HOST_SET,
// HOST_SET_FROM_PATH_PREFIX, HOST_SUFFIX_REPLACE, PATH_SET, PATH_PREFIX_ADD,
// PATH_PREFIX_TRIM, QUERY_ADD, QUERY_DEL, QUERY_DEL_ALL_EXCEPT, QUERY_RENAME).
//
// The reference is c49Rewrite in c49.go (written from the action table of
// mod_rewrite.md and the documentation comments of bfe_basic/action); this
// file only adds configurations and a request generator that derives Host,
// path and query FROM THE CONFIGURED PARAMETERS, so that the configured
// pattern occurs several times in the input (start / middle / end, adjacent,
// overlapping), equals the whole input, occurs only in a different case, is
// followed by a port or a trailing dot, sits in an IPv6 literal, is
// percent-encoded, or is surrounded by "//" and dot segments. The oracle is
// the one of c49CheckRewrite: Host, decoded path and parsed query of the bytes
// written by bfe_http.Request.Write equal the model, for single actions and for
// action sequences of length 2-3.
//
// What the documents say and what the model therefore judges:
//   - "Replace suffix of host": if the Host ends (byte for byte) with the first
//     parameter, exactly that final occurrence is replaced by the second one and
//     nothing else; otherwise the Host is unchanged. Judged for every host
//     without a port. NOT judged: host with ":port"; a host that ends with the
//     pattern only case-insensitively or only modulo a trailing dot.
//   - "Trim prefix from original path" ("/service/shortcut/(.*)" => "/$1"): the
//     prefix is removed once from the start of the path and a leading "/" is
//     kept; a path that merely contains the prefix later is unchanged; no other
//     normalisation ("//", "." and ".." are ordinary characters). NOT judged: a
//     request whose raw path has a percent-encoded octet inside or right behind
//     the prefix region (matching on the raw or on the decoded path is not
//     decided).
//   - "Add prefix to original path" (example "/bfe/" on "/rewrite"): prefix of
//     the '/x/' shape + path without its leading "/".
//   - "if uri path pattern is /x.baidu.com/xxxx, set host x.baidu.com, set uri
//     path /xxx; if do not match this pattern, do nothing". NOT judged: empty
//     first segment; a percent-encoded octet in the first raw segment.
//   - HOST_SET / PATH_SET: the value as configured (values that would need
//     escaping on the wire - '%', '?', '#', space - are not configured: raw or
//     decoded meaning is not decided).
//   - QUERY_*: as in c49.go. Configured keys/values are unreserved characters
//     only.

// ---- configurations ------------------------------------------------------------------

type c49Act = c49Action

func c49A(cmd string, params ...string) c49Act { return c49Act{Cmd: cmd, Params: params} }

var c49AdvHostSuffixPairs = [][2]string{
	{".com", ".cn"}, {".com", ".net"}, {"a.b", "c.d"},
	{"aa", "b"}, {"a.a", "b.b"}, // patterns with a border: overlapping occurrences exist
	{"a", "aa"}, // the replacement contains the pattern
	{"com", "org"},
	{".example.com", ".example.com"}, // identity
	{"example.com", "example.com.cn"},
	{".Example.COM", ".internal"}, // pattern with upper-case letters
	{"www.company.com", "origin.company.com"},
	{".cn", ".com"},
}

func c49AdvSingles() []c49Conf {
	var cs []c49Conf
	one := func(a c49Act) { cs = append(cs, c49Conf{Mod: "rewrite", Adv: true, Actions: []c49Act{a}}) }
	for _, p := range c49AdvHostSuffixPairs {
		one(c49A("HOST_SUFFIX_REPLACE", p[0], p[1]))
	}
	for _, h := range []string{"www.company.com", "UPPER.Example.COM", "[2001:db8::1]:8080", "h.example.com.", "a", "backend.internal:8080"} {
		one(c49A("HOST_SET", h))
	}
	one(c49A("HOST_SET_FROM_PATH_PREFIX"))
	for _, p := range []string{"/", "/a/a/b", "/x//y", "/a/../b", "/~u/-._;p=1,q:@&=+$", "/日本/ü", "/a/"} {
		one(c49A("PATH_SET", p))
	}
	for _, p := range []string{"/a/", "/a/a/", "/", "/x.y/~z/", "/service/"} {
		one(c49A("PATH_PREFIX_ADD", p))
	}
	for _, p := range []string{"/a", "/a/", "/a/a", "/aa", "/service/service", "/A", "/a.b", "/a-b_c.d~e", "/", "/service/shortcut/"} {
		one(c49A("PATH_PREFIX_TRIM", p))
	}
	one(c49A("QUERY_DEL", "a"))
	one(c49A("QUERY_DEL", "aa", "a"))
	one(c49A("QUERY_DEL", "aa"))
	one(c49A("QUERY_DEL_ALL_EXCEPT", "a"))
	one(c49A("QUERY_DEL_ALL_EXCEPT", "aa"))
	one(c49A("QUERY_DEL_ALL_EXCEPT", "a", "aaa"))
	one(c49A("QUERY_RENAME", "a", "aa"))
	one(c49A("QUERY_RENAME", "aa", "a"))
	one(c49A("QUERY_RENAME", "a", "A"))
	one(c49A("QUERY_ADD", "a", "a"))
	one(c49A("QUERY_ADD", "aa", "1"))
	return cs
}

// c49AdvSequences: fixed chains in which one action's output is the next one's
// input, plus seeded random sequences of 2-3 actions.
func c49AdvSequences(r *vkit.Run) []c49Conf {
	var cs []c49Conf
	seq := func(as ...c49Act) { cs = append(cs, c49Conf{Mod: "rewrite", Adv: true, Actions: as}) }
	seq(c49A("HOST_SET_FROM_PATH_PREFIX"), c49A("HOST_SUFFIX_REPLACE", ".com", ".cn"))
	seq(c49A("HOST_SUFFIX_REPLACE", ".com", ".cn"), c49A("HOST_SUFFIX_REPLACE", ".cn", ".com"))
	seq(c49A("HOST_SUFFIX_REPLACE", "a", "aa"), c49A("HOST_SUFFIX_REPLACE", "a", "aa"))
	seq(c49A("HOST_SET", "www.company.com"), c49A("HOST_SUFFIX_REPLACE", ".com", ".net"))
	seq(c49A("PATH_PREFIX_TRIM", "/a"), c49A("PATH_PREFIX_TRIM", "/a"))
	seq(c49A("PATH_PREFIX_ADD", "/a/"), c49A("PATH_PREFIX_TRIM", "/a"))
	seq(c49A("PATH_PREFIX_TRIM", "/a/"), c49A("PATH_PREFIX_ADD", "/a/"))
	seq(c49A("PATH_SET", "/a/a/b"), c49A("PATH_PREFIX_TRIM", "/a"), c49A("HOST_SET_FROM_PATH_PREFIX"))
	seq(c49A("HOST_SET_FROM_PATH_PREFIX"), c49A("HOST_SET_FROM_PATH_PREFIX"))
	seq(c49A("QUERY_RENAME", "a", "aa"), c49A("QUERY_DEL", "aa"))
	seq(c49A("QUERY_ADD", "a", "1"), c49A("QUERY_RENAME", "a", "aa"), c49A("QUERY_DEL_ALL_EXCEPT", "aa"))
	seq(c49A("QUERY_DEL", "a"), c49A("QUERY_ADD", "a", "2"))
	pool := []c49Act{
		c49A("HOST_SET", "www.company.com"), c49A("HOST_SET", "a.b.a.b"), c49A("HOST_SET_FROM_PATH_PREFIX"),
		c49A("HOST_SUFFIX_REPLACE", ".com", ".cn"), c49A("HOST_SUFFIX_REPLACE", "a.b", "c.d"), c49A("HOST_SUFFIX_REPLACE", "aa", "b"), c49A("HOST_SUFFIX_REPLACE", "com", "org"),
		c49A("PATH_SET", "/a/a/b"), c49A("PATH_SET", "/"), c49A("PATH_PREFIX_ADD", "/a/"), c49A("PATH_PREFIX_ADD", "/bfe/"),
		c49A("PATH_PREFIX_TRIM", "/a"), c49A("PATH_PREFIX_TRIM", "/a/"), c49A("PATH_PREFIX_TRIM", "/service"),
		c49A("QUERY_ADD", "a", "1"), c49A("QUERY_DEL", "a"), c49A("QUERY_DEL", "a", "aa"), c49A("QUERY_RENAME", "a", "aa"), c49A("QUERY_RENAME", "aa", "a"),
		c49A("QUERY_DEL_ALL_EXCEPT", "a"), c49A("QUERY_DEL_ALL_EXCEPT", "aa", "k"),
	}
	for k := 0; k < 16; k++ {
		g := r.Rng("adv-seq", k)
		n := g.Range(2, 3)
		var as []c49Act
		for j := 0; j < n; j++ {
			as = append(as, pool[g.Intn(len(pool))])
		}
		seq(as...)
	}
	return cs
}

func c49AdvConfs(r *vkit.Run) []c49Conf {
	cs := append(c49AdvSingles(), c49AdvSequences(r)...)
	for i := range cs {
		cs[i].Product = fmt.Sprintf("av%d", i)
	}
	return cs
}

// ---- shapes --------------------------------------------------------------------------

// shapes per focus command; the generator goes through them round-robin, so
// every shape of a configuration occurs in every run.
var (
	c49HsrShapes = []string{"hsr-suffix-once", "hsr-suffix-twice", "hsr-suffix-twice-adjacent", "hsr-suffix-thrice", "hsr-equals-pattern", "hsr-middle-only", "hsr-start-only",
		"hsr-overlap", "hsr-absent", "hsr-case-variant", "hsr-with-port", "hsr-trailing-dot", "hsr-ipv6-literal", "hsr-ends-with-new-suffix"}
	c49PptShapes = []string{"ppt-once", "ppt-twice", "ppt-thrice", "ppt-equals-prefix", "ppt-equals-plus-slash", "ppt-no-segment-boundary", "ppt-later-only", "ppt-double-slash-start",
		"ppt-case-variant", "ppt-encoded-in-prefix", "ppt-encoded-tail", "ppt-dot-segments", "ppt-absent", "ppt-root"}
	c49PpaShapes = []string{"ppa-plain", "ppa-root", "ppa-starts-with-prefix", "ppa-starts-with-prefix-twice", "ppa-trailing-slash", "ppa-encoded", "ppa-dot-segments"}
	c49HfpShapes = []string{"hfp-plain", "hfp-repeated-segment", "hfp-one-segment", "hfp-segment-slash", "hfp-root", "hfp-empty-first-segment", "hfp-empty-second-segment",
		"hfp-host-with-port", "hfp-ipv6-literal", "hfp-upper-case", "hfp-encoded-first-segment", "hfp-encoded-rest", "hfp-suffix-twice-host"}
	c49GenShapes = []string{"set-general"}
	c49QryShapes = []string{"qry-key-once", "qry-key-repeated", "qry-superstring-keys-only"}
)

func c49Border(s string) int {
	for k := len(s) - 1; k > 0; k-- {
		if s[:k] == s[len(s)-k:] {
			return k
		}
	}
	return 0
}

func c49SwapCase(s string) string {
	b := []byte(s)
	for i, c := range b {
		switch {
		case c >= 'a' && c <= 'z':
			b[i] = c - 32
		case c >= 'A' && c <= 'Z':
			b[i] = c + 32
		}
	}
	return string(b)
}

var c49AdvHosts = []string{"www.company.com", "img.com.example.com", "a.b.a.b", "aaa", "aaaa", "WWW.Example.COM", "www.example.com.", "www.example.com:8080",
	"[2001:db8::1]", "[2001:db8::1]:8080", "com", "example.com.example.com", "xn--80ak6aa92e.com", "127.0.0.1", "localhost", "www.company.cn"}
var c49AdvPaths = []string{"/", "/a/a/b", "/a", "/a/", "/aa/a", "//a/b", "/a//b", "/a/../a/b", "/./a/b", "/a/./b", "/a/b/..", "/%61/b", "/a%2Fa/b", "/a%20b/c", "/A/b",
	"/service/service/x", "/servicex", "/www.company.com/www.company.com/x", "/x.baidu.com", "/x.baidu.com/", "/h:81/p", "/%E6%97%A5/x", "/a/a/a/a"}

// c49AdvHost builds the Host for HOST_SUFFIX_REPLACE(suf, neu) in the given shape.
func c49AdvHost(g *vkit.Rand, shape, suf, neu string) string {
	lbl := g.PickS([]string{"www", "img", "a", "x1", "a.b"})
	pre := lbl
	if !strings.HasPrefix(suf, ".") && g.Chance(2, 3) {
		pre += "."
	}
	fill := g.PickS([]string{"pany", ".x", "-cdn", "1", ".a"})
	noMatch := func(h string) string {
		for strings.HasSuffix(strings.ToLower(strings.TrimSuffix(h, ".")), strings.ToLower(strings.TrimSuffix(suf, "."))) {
			h += "x"
		}
		return h
	}
	switch shape {
	case "hsr-suffix-once":
		return pre + suf
	case "hsr-suffix-twice":
		return pre + suf + fill + suf
	case "hsr-suffix-twice-adjacent":
		return pre + suf + suf
	case "hsr-suffix-thrice":
		return pre + suf + fill + suf + suf
	case "hsr-equals-pattern":
		return suf
	case "hsr-middle-only":
		return noMatch(pre + suf + ".example.org")
	case "hsr-start-only":
		return noMatch(suf + ".example.org")
	case "hsr-overlap":
		b := c49Border(suf)
		if g.Bool() {
			pre = ""
		}
		return pre + suf + suf[b:]
	case "hsr-absent":
		return noMatch(g.PickS([]string{"static.example.org", "x1.test", "localhost"}))
	case "hsr-case-variant":
		return c49SwapCase(pre + suf)
	case "hsr-with-port":
		return pre + suf + g.PickS([]string{":8080", ":80", ":443"})
	case "hsr-trailing-dot":
		return pre + suf + "."
	case "hsr-ipv6-literal":
		return g.PickS([]string{"[2001:db8::1]", "[::1]", "[2001:db8::a]"})
	case "hsr-ends-with-new-suffix":
		return pre + neu
	}
	return pre + suf
}

func c49PctFirstAlnum(p string) string {
	for i := 0; i < len(p); i++ {
		c := p[i]
		if c >= 'a' && c <= 'z' || c >= 'A' && c <= 'Z' || c >= '0' && c <= '9' {
			return p[:i] + fmt.Sprintf("%%%02X", c) + p[i+1:]
		}
	}
	return p + "%2F"
}

// c49AdvTrimPath builds the raw path for PATH_PREFIX_TRIM(p).
func c49AdvTrimPath(g *vkit.Rand, shape, p string) string {
	tail := g.PickS([]string{"x", "b", "index.html", "b/c", "a"})
	slash := strings.HasSuffix(p, "/")
	join := func(a, b string) string { // a + "/" + b without doubling the slash
		if strings.HasSuffix(a, "/") {
			return a + b
		}
		return a + "/" + b
	}
	again := p // the prefix once more, directly behind itself, as whole segments
	if slash {
		again = p[1:]
	}
	switch shape {
	case "ppt-once":
		return join(p, tail)
	case "ppt-twice":
		return join(p+again, tail)
	case "ppt-thrice":
		return join(p+again+again, tail)
	case "ppt-equals-prefix":
		return p
	case "ppt-equals-plus-slash":
		return join(p, "")
	case "ppt-no-segment-boundary":
		return p + "x/" + tail
	case "ppt-later-only":
		return join("/x"+p, tail)
	case "ppt-double-slash-start":
		return join("/"+p, tail)
	case "ppt-case-variant":
		return join(c49SwapCase(p), tail)
	case "ppt-encoded-in-prefix":
		return join(c49PctFirstAlnum(p), tail)
	case "ppt-encoded-tail":
		return join(p, "c%20d/e%2Ff")
	case "ppt-dot-segments":
		switch g.Intn(3) {
		case 0:
			return join(join(p, "..")+again, tail)
		case 1:
			return join("/."+p, tail)
		}
		return join(join(p, "."), tail)
	case "ppt-absent":
		return "/other/" + tail
	case "ppt-root":
		return "/"
	}
	return join(p, tail)
}

// c49AdvAddPath builds the raw path for PATH_PREFIX_ADD(p) (p of the '/x/' shape).
func c49AdvAddPath(g *vkit.Rand, shape, p string) string {
	tail := g.PickS([]string{"b", "x/y", "rewrite"})
	switch shape {
	case "ppa-plain":
		return "/" + tail
	case "ppa-root":
		return "/"
	case "ppa-starts-with-prefix":
		return p + tail
	case "ppa-starts-with-prefix-twice":
		return p + p[1:] + tail
	case "ppa-trailing-slash":
		return "/" + tail + "/"
	case "ppa-encoded":
		return "/c%20d/e%2Ff"
	case "ppa-dot-segments":
		return g.PickS([]string{"/../x", "/./x", "/x/.."})
	}
	return "/" + tail
}

// c49AdvFromPath builds the raw path for HOST_SET_FROM_PATH_PREFIX.
func c49AdvFromPath(g *vkit.Rand, shape string) string {
	h := g.PickS([]string{"x.baidu.com", "h.example.org", "a", "www.company.com"})
	rest := g.PickS([]string{"xxx", "b/c", "", "index.html", "a/a"})
	switch shape {
	case "hfp-plain":
		return "/" + h + "/" + rest
	case "hfp-repeated-segment":
		return "/" + h + "/" + h + "/" + rest
	case "hfp-one-segment":
		return "/" + h
	case "hfp-segment-slash":
		return "/" + h + "/"
	case "hfp-root":
		return "/"
	case "hfp-empty-first-segment":
		return "//" + h + "/" + rest
	case "hfp-empty-second-segment":
		return "/" + h + "//" + rest
	case "hfp-host-with-port":
		return "/" + h + ":81/" + rest
	case "hfp-ipv6-literal":
		return "/[2001:db8::1]/" + rest
	case "hfp-upper-case":
		return "/" + c49SwapCase(h) + "/" + rest
	case "hfp-encoded-first-segment":
		return "/" + strings.Replace(h, ".", "%2E", 1) + "%2Fy/" + rest
	case "hfp-encoded-rest":
		return "/" + h + "/c%20d/e%2Ff"
	case "hfp-suffix-twice-host":
		return "/www.company.com/" + rest
	}
	return "/" + h + "/" + rest
}

// c49AdvQuery builds a raw query around the configured keys: the key itself
// (literal and percent-encoded, with and without '='), repeated at the start,
// in the middle and at the end, and keys that merely contain it.
func c49AdvQuery(g *vkit.Rand, keys []string) (string, bool) {
	k := keys[g.Intn(len(keys))]
	near := []string{k + k, "x" + k, k + "x", c49SwapCase(k), k + k + k, "k"}
	enc := func(s string) string {
		if g.Chance(1, 3) {
			return fmt.Sprintf("%%%02x", s[0]) + s[1:]
		}
		return s
	}
	part := func(key string) string {
		switch g.Intn(6) {
		case 0:
			return enc(key)
		case 1:
			return enc(key) + "="
		case 2:
			return enc(key) + "=" + k + "%3D1%26" + k + "%3D2" // value that contains "k=1&k=2" encoded
		}
		return enc(key) + "=" + g.PickS([]string{"1", "2", k, "x+y"})
	}
	var parts []string
	switch g.Intn(4) {
	case 0: // the key never
		for n := g.Range(1, 4); n > 0; n-- {
			parts = append(parts, part(near[g.Intn(len(near))]))
		}
	case 1: // once, at a random position
		for n := g.Range(0, 3); n > 0; n-- {
			parts = append(parts, part(near[g.Intn(len(near))]))
		}
		i := g.Intn(len(parts) + 1)
		parts = append(parts[:i], append([]string{part(k)}, parts[i:]...)...)
	default: // start, middle, end
		parts = append(parts, part(k))
		for n := g.Range(0, 2); n > 0; n-- {
			parts = append(parts, part(near[g.Intn(len(near))]))
		}
		parts = append(parts, part(k))
		for n := g.Range(0, 2); n > 0; n-- {
			parts = append(parts, part(near[g.Intn(len(near))]))
		}
		parts = append(parts, part(k))
	}
	return strings.Join(parts, "&"), true
}

func c49QueryShape(raw string, keys []string) string {
	n := 0
	for _, p := range c49ParseQuery(raw) {
		if c49In(keys, p.K) {
			n++
		}
	}
	switch {
	case n == 0:
		return "qry-superstring-keys-only"
	case n == 1:
		return "qry-key-once"
	}
	return "qry-key-repeated"
}

var c49PlainHost = regexp.MustCompile(`^[A-Za-z0-9][A-Za-z0-9.:-]*$`)

// c49AdvShapesOf lists the shapes a focus action is exercised with.
func c49AdvShapesOf(a c49Act) []string {
	switch a.Cmd {
	case "HOST_SUFFIX_REPLACE":
		if c49Border(a.Params[0]) > 0 {
			return c49HsrShapes
		}
		var s []string
		for _, x := range c49HsrShapes {
			if x != "hsr-overlap" {
				s = append(s, x)
			}
		}
		return s
	case "PATH_PREFIX_TRIM":
		return c49PptShapes
	case "PATH_PREFIX_ADD":
		return c49PpaShapes
	case "HOST_SET_FROM_PATH_PREFIX":
		return c49HfpShapes
	}
	if strings.HasPrefix(a.Cmd, "QUERY_") {
		return []string{"qry"}
	}
	return c49GenShapes
}

// c49AdvReq derives a request from the configuration. round selects the focus
// action (sequences) and the shape, round-robin.
func c49AdvReq(g *vkit.Rand, cf *c49Conf, round int) c49Req {
	q := c49GenReq(g, cf)
	q.Host = c49AdvHosts[g.Intn(len(c49AdvHosts))]
	q.Path = c49AdvPaths[g.Intn(len(c49AdvPaths))]
	focus := cf.Actions[round%len(cf.Actions)]
	shapes := c49AdvShapesOf(focus)
	shape := shapes[(round/len(cf.Actions))%len(shapes)]
	switch focus.Cmd {
	case "HOST_SUFFIX_REPLACE":
		q.Host = c49AdvHost(g, shape, focus.Params[0], focus.Params[1])
	case "PATH_PREFIX_TRIM":
		q.Path = c49AdvTrimPath(g, shape, focus.Params[0])
	case "PATH_PREFIX_ADD":
		q.Path = c49AdvAddPath(g, shape, focus.Params[0])
	case "HOST_SET_FROM_PATH_PREFIX":
		q.Path = c49AdvFromPath(g, shape)
	}
	// sequences read percent-free paths (see c49AdvRawSilent)
	if len(cf.Actions) > 1 && strings.Contains(q.Path, "%") {
		q.Path = strings.NewReplacer("%61", "a", "%2F", "/", "%20", "_", "%2E", ".", "%E6%97%A5", "j").Replace(q.Path)
	}
	var keys []string
	for _, a := range cf.Actions {
		switch a.Cmd {
		case "QUERY_DEL", "QUERY_DEL_ALL_EXCEPT":
			keys = append(keys, a.Params...)
		case "QUERY_RENAME", "QUERY_ADD":
			keys = append(keys, a.Params[0])
		}
	}
	if len(keys) > 0 && (strings.HasPrefix(focus.Cmd, "QUERY_") || g.Bool()) {
		q.Query, q.HasQ = c49AdvQuery(g, keys)
	}
	if strings.HasPrefix(focus.Cmd, "QUERY_") {
		shape = c49QueryShape(q.Query, keys)
	}
	q.Shape = shape
	if q.Abs && !c49PlainHost.MatchString(q.Host) {
		q.Abs = false // the absolute form needs a host the URL parser takes literally
	}
	return q
}

// c49AdvRawSilent names the corners that depend on the RAW (still encoded)
// request path and that the documents do not decide ("" = judged).
func c49AdvRawSilent(c *c49Case) string {
	raw := c.Req.Path
	if !strings.Contains(raw, "%") {
		return ""
	}
	touched := false
	for _, a := range c.Conf.Actions {
		switch a.Cmd {
		case "PATH_PREFIX_TRIM":
			if touched {
				return "encoded-path-in-sequence"
			}
			if i := strings.Index(raw, "%"); i <= len(a.Params[0]) {
				return "path-trim:encoded-octet-in-prefix-region"
			}
			touched = true
		case "HOST_SET_FROM_PATH_PREFIX":
			if touched {
				return "encoded-path-in-sequence"
			}
			first := strings.TrimPrefix(raw, "/")
			if i := strings.Index(first, "/"); i >= 0 {
				first = first[:i]
			}
			if strings.Contains(first, "%") {
				return "host-from-path:encoded-octet-in-first-segment"
			}
			touched = true
		case "PATH_SET", "PATH_PREFIX_ADD":
			touched = true
		}
	}
	return ""
}

// ---- samples ---------------------------------------------------------------------------

var (
	c49AdvSampleMu sync.Mutex
	c49AdvSamples  = map[string]map[string]string{}
)

// c49AdvSample keeps one judged, effective example per shape for the evidence.
func c49AdvSample(c *c49Case, before, want c49State, wire *c49Wire) {
	if before.Host == want.Host && before.Path == want.Path && c49PairsEqual(before.Q, want.Q) {
		return
	}
	c49AdvSampleMu.Lock()
	defer c49AdvSampleMu.Unlock()
	if _, ok := c49AdvSamples[c.Req.Shape]; ok || len(c49AdvSamples) >= 64 {
		return
	}
	var acts []string
	for _, a := range c.Conf.Actions {
		acts = append(acts, fmt.Sprintf("%s%q", a.Cmd, a.Params))
	}
	c49AdvSamples[c.Req.Shape] = map[string]string{
		"actions": strings.Join(acts, " "), "host": c.Req.Host, "target": c49Target(&c.Req),
		"model": fmt.Sprintf("host=%q path=%q query=%s", want.Host, want.Path, c49PairsString(want.Q)),
		"wire":  fmt.Sprintf("host=%q %s", wire.Host, wire.Line),
	}
}

// c49AdvRun generates and checks the adversarial cases and demands that every
// shape occurred and that the shapes that must change the request did so.
func c49AdvRun(r *vkit.Run, envs *c49Envs, confs []c49Conf) {
	var adv []c49Conf
	for _, c := range confs {
		if c.Adv {
			adv = append(adv, c)
		}
	}
	if len(adv) == 0 {
		r.Inconclusive("no adversarial rewrite configuration was loaded")
		return
	}
	per := r.N(280, 5600)
	vkit.Parallel(len(adv)*per, 0, func(i int) {
		cf := adv[i%len(adv)]
		g := r.Rng("adv-req", i)
		c := &c49Case{Conf: cf, Req: c49AdvReq(g, &cf, i/len(adv))}
		c49Check(r, envs, c)
	})
	r.Extra("adversarial_samples", c49AdvSamples)
	var all []string
	for _, l := range [][]string{c49HsrShapes, c49PptShapes, c49PpaShapes, c49HfpShapes, c49GenShapes, c49QryShapes} {
		all = append(all, l...)
	}
	for _, s := range all {
		if r.Counter("adv_shape["+s+"]") == 0 {
			r.Inconclusive("adversarial shape never occurred: " + s)
		}
	}
	// shapes in which the documented effect must change the request
	for _, s := range []string{"hsr-suffix-once", "hsr-suffix-twice", "hsr-suffix-twice-adjacent", "hsr-suffix-thrice", "hsr-equals-pattern", "hsr-overlap",
		"ppt-once", "ppt-twice", "ppt-thrice", "ppt-equals-prefix", "ppt-no-segment-boundary", "ppt-dot-segments", "ppt-encoded-tail",
		"ppa-plain", "ppa-starts-with-prefix", "ppa-starts-with-prefix-twice", "ppa-dot-segments",
		"hfp-plain", "hfp-repeated-segment", "hfp-segment-slash", "hfp-empty-second-segment", "hfp-host-with-port", "hfp-ipv6-literal", "hfp-upper-case", "hfp-suffix-twice-host",
		"set-general", "qry-key-once", "qry-key-repeated"} {
		if r.Counter("adv_judged_effective["+s+"]") == 0 {
			r.Inconclusive("adversarial shape never judged with an effect: " + s)
		}
	}
	if r.Counter("adv_judged_noop") == 0 {
		r.Inconclusive("adversarial family: no case in which the action must leave the request alone")
	}
}
