package main

import (
	"crypto/md5"
	"encoding/base64"
	"encoding/hex"
	"encoding/json"
	"fmt"
	"path/filepath"
	"strconv"
	"strings"

	"github.com/bfenetworks/bfe/bfe_module"
	"github.com/bfenetworks/bfe/bfe_modules/mod_secure_link"

	"verifharness/vkit"
)

// mod_secure_link, from docs/en_us/modules/mod_secure_link: the checksum query
// parameter must equal  base64url-without-padding(md5(concatenation of the node
// values))  and the expires parameter must be a time not yet passed.
// Node values: label=$Param, query=req.URL.Query($Param), header=req.Header.Get,
// host=req.Host, uri=req.RequestURI, remote_addr=req.RemoteAddr.

type c51SlNode struct {
	Type  string
	Param string `json:",omitempty"`
}

type c51SlRule struct {
	Host        string
	ChecksumKey string
	ExpiresKey  string
	Nodes       []c51SlNode
}

type c51SlSc struct {
	Rules []c51SlRule
	Amb   []c51SlRule // rules of the credential-ambiguity family (c51ambig.go), hosts a<i>.example.org
}

func c51SlScenario(cfgSeed uint64) *c51SlSc {
	g := vkit.NewRand(cfgSeed)
	sc := &c51SlSc{}
	nr := g.Range(3, 4)
	for i := 0; i < nr; i++ {
		ru := c51SlRule{Host: fmt.Sprintf("s%d.example.org", i)}
		ru.ChecksumKey = g.PickS([]string{"sign", "md5", "s", "token"})
		ru.ExpiresKey = g.PickS([]string{"time", "e", "expires"})
		secret := c51SlNode{Type: "label", Param: g.PickS([]string{" secret", "k-" + c51Str(g, c51Alnum, 4, 12), c51Str(g, c51Alnum+" /:&=", 1, 20)})}
		pool := []c51SlNode{
			{Type: "query", Param: ru.ExpiresKey}, {Type: "query", Param: "file"}, {Type: "header", Param: "X-Link-User"},
			{Type: "host"}, {Type: "remote_addr"}, {Type: "label", Param: c51Str(g, c51Alnum, 1, 3)}, {Type: "query", Param: "u"},
		}
		var nodes []c51SlNode
		for _, j := range g.Perm(len(pool))[:g.Range(1, 5)] {
			nodes = append(nodes, pool[j])
		}
		nodes = append(nodes, secret)
		// rule 0 always binds the expiry and has no uri node, so valid links exist;
		// the last rule has the self-referential uri node
		if i == 0 {
			has := false
			for _, n := range nodes {
				if n.Type == "query" && n.Param == ru.ExpiresKey {
					has = true
				}
			}
			if !has {
				nodes = append([]c51SlNode{{Type: "query", Param: ru.ExpiresKey}}, nodes...)
			}
		}
		if i == nr-1 {
			at := g.Intn(len(nodes))
			nodes = append(nodes[:at], append([]c51SlNode{{Type: "uri"}}, nodes[at:]...)...)
		}
		if g.Bool() {
			p := g.Perm(len(nodes))
			sh := make([]c51SlNode, len(nodes))
			for a, b := range p {
				sh[a] = nodes[b]
			}
			nodes = sh
		}
		ru.Nodes = nodes
		sc.Rules = append(sc.Rules, ru)
	}
	sc.Amb = c51SlAmbRules(cfgSeed) // own generator stream: the rules above do not depend on it
	return sc
}

func c51SlinkMod() *c51Mod {
	return &c51Mod{
		name: "securelink",
		boot: func(r *vkit.Run) (*modEnv, error) {
			root := filepath.Join(scratch(), "c51slink")
			writeFile(filepath.Join(root, "mod_secure_link", "mod_secure_link.conf"), []byte("[Basic]\nDataPath = mod_secure_link/secure_link_rule.data\n\n[Log]\nOpenDebug = false\n"))
			writeFile(filepath.Join(root, "mod_secure_link", "secure_link_rule.data"), []byte(`{"Version":"boot","Config":{}}`))
			env := newModEnv()
			m := mod_secure_link.NewModuleSecureLink()
			if err := m.Init(env.cbs, env.whs, root); err != nil {
				return nil, err
			}
			return env, nil
		},
		load: func(r *vkit.Run, env *modEnv, cfgSeed uint64) (interface{}, error) {
			sc := c51SlScenario(cfgSeed)
			type rf struct {
				Cond            string
				ChecksumKey     string
				ExpiresKey      string
				ExpressionNodes []c51SlNode
			}
			var rules []rf
			for _, ru := range append(append([]c51SlRule{}, sc.Rules...), sc.Amb...) {
				rules = append(rules, rf{fmt.Sprintf("req_host_in(%q)", ru.Host), ru.ChecksumKey, ru.ExpiresKey, ru.Nodes})
			}
			b, _ := json.MarshalIndent(map[string]interface{}{"Version": fmt.Sprintf("%016x", cfgSeed), "Config": map[string]interface{}{"pn": rules}}, "", " ")
			p := filepath.Join(scratch(), "c51slink", fmt.Sprintf("sc-%016x.data", cfgSeed))
			writeFile(p, b)
			return sc, env.reload("mod_secure_link", p)
		},
		run:   c51SlRun,
		scen:  [2]int{4, 24},
		cases: [2]int{700, 1750},
		must:  []string{"securelink_uncovered_passed", "securelink_not_judged", "securelink_uri_rule_cases"},

		ambig:      c51SlAmbRun,
		ambigCases: [2]int{500, 1000},
	}
}

// ---- request model -------------------------------------------------------------------

type c51SlCase struct {
	Rule    int
	Host    string
	Product string
	Path    string
	Query   []c51KV // decoded key/value pairs in order
	User    *string // X-Link-User header
	Remote  string  // HttpRequest.RemoteAddr
	Target  string  // request target as sent
	Shape   string
}

func c51QEsc(s string) string {
	var sb strings.Builder
	for i := 0; i < len(s); i++ {
		ch := s[i]
		if strings.IndexByte(c51Alnum+"-_.~", ch) >= 0 {
			sb.WriteByte(ch)
		} else {
			fmt.Fprintf(&sb, "%%%02X", ch)
		}
	}
	return sb.String()
}

func (c *c51SlCase) buildTarget() {
	var qs []string
	for _, kv := range c.Query {
		qs = append(qs, c51QEsc(kv.k)+"="+c51QEsc(kv.v))
	}
	c.Target = c.Path
	if len(qs) > 0 {
		c.Target += "?" + strings.Join(qs, "&")
	}
}

func (c *c51SlCase) q(k string) (string, int) {
	v, n := "", 0
	for _, kv := range c.Query {
		if kv.k == k {
			if n == 0 {
				v = kv.v
			}
			n++
		}
	}
	return v, n
}

func (c *c51SlCase) set(k, v string) {
	for i := range c.Query {
		if c.Query[i].k == k {
			c.Query[i].v = v
			return
		}
	}
	c.Query = append(c.Query, c51KV{k, v})
}

func (c *c51SlCase) del(k string) {
	var out []c51KV
	for _, kv := range c.Query {
		if kv.k != k {
			out = append(out, kv)
		}
	}
	c.Query = out
}

// nodeValue is the documented value of one expression node for this request.
func (c *c51SlCase) nodeValue(n c51SlNode) string {
	switch n.Type {
	case "label":
		return n.Param
	case "query":
		v, _ := c.q(n.Param)
		return v
	case "header":
		if c.User != nil {
			return strings.Trim(*c.User, " \t")
		}
		return ""
	case "host":
		return c.Host
	case "uri":
		return c.Target
	case "remote_addr":
		return c.Remote
	}
	return ""
}

func c51SlSum(nodes []c51SlNode, c *c51SlCase) string {
	var sb strings.Builder
	for _, n := range nodes {
		sb.WriteString(c.nodeValue(n))
	}
	d := md5.Sum([]byte(sb.String()))
	return base64.RawURLEncoding.EncodeToString(d[:])
}

// c51SlRef is the reference decision for a covered request.
func c51SlRef(ru *c51SlRule, c *c51SlCase, now int64) (verdict, why string) {
	open := ""
	ev, n := c.q(ru.ExpiresKey)
	if n == 0 || ev == "" {
		return c51Reject, "the expires parameter " + ru.ExpiresKey + " is missing or empty"
	}
	digits := true
	for i := 0; i < len(ev); i++ {
		if ev[i] < '0' || ev[i] > '9' {
			if i == 0 && ev[i] == '-' && len(ev) > 1 {
				continue
			}
			digits = false
		}
	}
	if !digits {
		return c51Reject, fmt.Sprintf("the expires value %q is not a number", ev)
	}
	if len(ev) > 15 {
		open = "expires beyond the judged range"
	} else {
		t, _ := strconv.ParseInt(ev, 10, 64)
		switch {
		case t < now-c51TimeGuard:
			return c51Reject, fmt.Sprintf("the link expired %d s ago", now-t)
		case t <= now+c51TimeGuard:
			open = "expires within the guard band"
		}
	}
	if n > 1 {
		open = "duplicate expires parameter"
	}
	sum, n := c.q(ru.ChecksumKey)
	if n == 0 || sum == "" {
		return c51Reject, "the checksum parameter " + ru.ChecksumKey + " is missing or empty"
	}
	want := c51SlSum(ru.Nodes, c)
	if n > 1 {
		for _, kv := range c.Query {
			if kv.k == ru.ChecksumKey && kv.v == want {
				return c51Either, "duplicate checksum parameter, one occurrence is correct"
			}
		}
		return c51Reject, "no occurrence of the checksum parameter is correct"
	}
	if sum != want {
		a, _, okA := c51B64Lenient(sum)
		b, _, _ := c51B64Lenient(want)
		if okA && string(a) == string(b) {
			return c51Either, "the checksum decodes to the right MD5 but is not the canonical unpadded base64url text"
		}
		return c51Reject, fmt.Sprintf("the checksum %q differs from %q = md5 over the configured nodes", sum, want)
	}
	if open != "" {
		return c51Either, "checksum correct, but " + open
	}
	return c51Admit, "checksum correct and the link has not expired"
}

var c51SlIPs = []string{"192.0.2.7", "198.51.100.23", "10.1.2.3", "2001:db8::17", "127.0.0.1"}

func c51SlRemote(g *vkit.Rand) string {
	ip := c51SlIPs[g.Intn(len(c51SlIPs))]
	port := g.Range(1024, 65535)
	if strings.Contains(ip, ":") {
		return fmt.Sprintf("[%s]:%d", ip, port)
	}
	return fmt.Sprintf("%s:%d", ip, port)
}

func c51SlGen(sc *c51SlSc, g *vkit.Rand, now int64) *c51SlCase {
	c := &c51SlCase{Product: "pn"}
	c.Rule = g.Intn(len(sc.Rules))
	ru := &sc.Rules[c.Rule]
	c.Host = ru.Host
	if g.Chance(1, 4) {
		c.Host += ":8080"
	}
	c.Path = g.PickS([]string{"/s/link", "/a/b", "/", "/dl/" + c51Str(g, c51Alnum, 1, 8) + ".bin", "/p%20q/x"})
	c.Remote = c51SlRemote(g)
	if g.Chance(3, 4) {
		u := g.PickS([]string{"alice", "bob", "u-" + c51Str(g, c51Alnum, 1, 6), ""})
		c.User = &u
	}
	if g.Chance(2, 3) {
		c.Query = append(c.Query, c51KV{"file", g.PickS([]string{"a.txt", "b c.txt", "x/y&z=1", "ü.bin", c51Str(g, c51Alnum, 1, 10)})})
	}
	if g.Chance(1, 2) {
		c.Query = append(c.Query, c51KV{"u", c51Str(g, c51Alnum, 0, 6)})
	}
	exp := now + c51Far(g)
	c.Query = append(c.Query, c51KV{ru.ExpiresKey, strconv.FormatInt(exp, 10)})
	// the documented procedure: compute over the request, then add the checksum
	sign := func() {
		c.del(ru.ChecksumKey)
		c.buildTarget()
		s := c51SlSum(ru.Nodes, c)
		c.Query = append(c.Query, c51KV{ru.ChecksumKey, s})
		if g.Chance(1, 3) { // parameter order does not matter to a query node
			n := len(c.Query)
			c.Query[0], c.Query[n-1] = c.Query[n-1], c.Query[0]
		}
	}
	sign()
	good, _ := c.q(ru.ChecksumKey)
	c.Shape = "valid"
	switch c51Pick(g, []int{30, 6, 5, 4, 4, 3, 3, 3, 4, 3, 8, 6, 6, 8, 4, 3, 6}) {
	case 0:
	case 1:
		c.Shape = "wrong-checksum"
		c.set(ru.ChecksumKey, c51Str(g, c51Alnum+"-_", 22, 22))
	case 2:
		c.Shape = "checksum-one-char-changed"
		b := []byte(good)
		p := g.Intn(len(b))
		for {
			ch := (c51Alnum + "-_")[g.Intn(64)]
			if ch != b[p] {
				b[p] = ch
				break
			}
		}
		c.set(ru.ChecksumKey, string(b))
	case 3:
		c.Shape = "checksum-truncated"
		c.set(ru.ChecksumKey, good[:g.Range(1, len(good)-1)])
	case 4:
		c.Shape = "checksum-padded"
		c.set(ru.ChecksumKey, good+"==")
	case 5:
		c.Shape = "checksum-std-alphabet"
		c.set(ru.ChecksumKey, strings.NewReplacer("-", "+", "_", "/").Replace(good))
	case 6:
		c.Shape = "checksum-hex-md5"
		d, _ := base64.RawURLEncoding.DecodeString(good)
		c.set(ru.ChecksumKey, hex.EncodeToString(d))
	case 7:
		c.Shape = "checksum-case-flipped"
		c.set(ru.ChecksumKey, strings.Map(func(r rune) rune {
			if r >= 'a' && r <= 'z' {
				return r - 32
			}
			return r
		}, good))
	case 8:
		if g.Bool() {
			c.Shape = "checksum-missing"
			c.del(ru.ChecksumKey)
		} else {
			c.Shape = "checksum-empty"
			c.set(ru.ChecksumKey, "")
		}
	case 9:
		// signed without an expiry at all
		c.del(ru.ExpiresKey)
		if g.Bool() {
			c.Shape = "expires-missing"
		} else {
			c.Shape = "expires-empty"
			c.Query = append(c.Query, c51KV{ru.ExpiresKey, ""})
		}
		sign()
	case 10:
		c.Shape = "expired"
		c.set(ru.ExpiresKey, strconv.FormatInt(now-c51Far(g), 10))
		if g.Chance(1, 5) {
			c.set(ru.ExpiresKey, g.PickS([]string{"0", "1", "-1", "999999999"}))
		}
		sign()
	case 11:
		c.Shape = "expires-not-a-number"
		f := strconv.FormatInt(exp, 10)
		c.set(ru.ExpiresKey, g.PickS([]string{"never", f + "s", "0x7fffffff", f + ".5", " " + f, "1e12", f[:4] + "_" + f[4:], "٣٠٠٠٠٠٠٠٠٠"}))
		sign()
	case 12:
		c.Shape = "expiry-extended-after-signing"
		c.set(ru.ExpiresKey, strconv.FormatInt(now-c51Far(g), 10))
		sign()
		c.set(ru.ExpiresKey, strconv.FormatInt(now+c51Far(g), 10))
	case 13:
		// a request value covered by the checksum is changed after signing
		switch g.Intn(5) {
		case 0:
			c.Shape = "remote-addr-differs"
			old := c.Remote
			for c.Remote == old {
				c.Remote = c51SlRemote(g)
			}
		case 1:
			c.Shape = "host-differs"
			c.Host = g.PickS([]string{ru.Host + ":81", ru.Host + ":8443"})
		case 2:
			c.Shape = "header-differs"
			u := "mallory"
			c.User = &u
		case 3:
			c.Shape = "query-value-differs"
			c.set("file", "other.bin")
		default:
			c.Shape = "path-differs"
			c.Path = "/other" + c.Path
		}
	case 14:
		c.Shape = "node-omitted-or-reordered"
		nodes := append([]c51SlNode{}, ru.Nodes...)
		if g.Bool() && len(nodes) > 1 {
			at := g.Intn(len(nodes))
			nodes = append(nodes[:at], nodes[at+1:]...)
		} else {
			nodes[0], nodes[len(nodes)-1] = nodes[len(nodes)-1], nodes[0]
		}
		c.del(ru.ChecksumKey)
		c.buildTarget()
		c.Query = append(c.Query, c51KV{ru.ChecksumKey, c51SlSum(nodes, c)})
	case 15:
		c.Shape = "other-secret"
		nodes := append([]c51SlNode{}, ru.Nodes...)
		for i := range nodes {
			if nodes[i].Type == "label" {
				nodes[i].Param = g.PickS([]string{"", nodes[i].Param + "x", strings.ToUpper(nodes[i].Param) + "!", "secret"})
			}
		}
		c.del(ru.ChecksumKey)
		c.buildTarget()
		c.Query = append(c.Query, c51KV{ru.ChecksumKey, c51SlSum(nodes, c)})
	default:
		if g.Bool() {
			c.Shape = "duplicate-checksum-parameter"
			bad := c51Str(g, c51Alnum+"-_", 22, 22)
			if g.Bool() {
				c.Query = append(c.Query, c51KV{ru.ChecksumKey, bad})
			} else {
				c.Query = append([]c51KV{{ru.ChecksumKey, bad}}, c.Query...)
			}
			if g.Chance(1, 3) {
				c.Shape = "duplicate-checksum-parameter-none-correct"
				for i := range c.Query {
					if c.Query[i].k == ru.ChecksumKey {
						c.Query[i].v = c51Str(g, c51Alnum+"-_", 22, 22)
					}
				}
			}
		} else {
			c.Shape = "uncovered"
			c.Rule = -1
			if g.Bool() {
				c.Host = g.PickS([]string{"open.example.org", "example.org", "xs0.example.org"})
			} else {
				c.Product = "px"
			}
			if g.Bool() {
				c.del(ru.ChecksumKey)
			}
		}
	}
	c.buildTarget()
	return c
}

func c51SlRun(r *vkit.Run, env *modEnv, sci interface{}, cfgSeed, caseSeed uint64, now int64) {
	sc := sci.(*c51SlSc)
	c := c51SlGen(sc, vkit.NewRand(caseSeed), now)
	var hdrs []string
	if c.User != nil {
		hdrs = append(hdrs, "X-Link-User: "+*c.User)
	}
	w := &c51Witness{Mod: "securelink", CfgSeed: cfgSeed, CaseSeed: caseSeed, Shape: c.Shape,
		Info: map[string]interface{}{"host": c.Host, "product": c.Product, "target": c.Target, "headers": hdrs, "remote_addr": c.Remote, "rule": c.Rule, "now": now}}
	raw := c51RawReq(c.Target, c.Host, hdrs)
	req, err := parseReq(raw)
	if err != nil {
		r.Count("securelink_http_reader_refused", 1)
		r.CaseS("securelink|refused|"+string(raw), false)
		return
	}
	req.Route.Product = c.Product
	req.HttpRequest.RemoteAddr = c.Remote
	var obs c51Obs
	if r.Try(func() interface{} { return w }, func() { obs.code, obs.resp = env.request(bfe_module.HandleAfterLocation, req) }) {
		return
	}
	admitted := obs.code == bfe_module.BfeHandlerGoOn && obs.resp == nil
	rejected := obs.code == bfe_module.BfeHandlerResponse && obs.resp != nil
	key := fmt.Sprintf("securelink|%x|%d|%s|%s|%s|%v|%s", cfgSeed, now-now%86400, c.Host, c.Product, c.Target, hdrs, c.Remote)
	if c.Rule < 0 {
		r.CaseS(key, false)
		w.Want, w.Why, w.Got = c51Admit, "no rule covers the request", obs.String()
		if admitted {
			r.Count("securelink_uncovered_passed", 1)
		} else {
			r.Violation("securelink:uncovered-request-not-passed", fmt.Sprintf("request of host %s product %s is not covered by any rule but was answered %s", c.Host, c.Product, obs), w)
		}
		return
	}
	r.CaseS(key, true)
	ru := &sc.Rules[c.Rule]
	w.Info["rule_conf"] = ru
	var want string
	want, w.Why = c51SlRef(ru, c, now)
	uri := false
	for _, n := range ru.Nodes {
		if n.Type == "uri" {
			uri = true
		}
	}
	if uri {
		// req.RequestURI contains the checksum parameter itself: a link built by the
		// documented procedure cannot verify (reported, not judged beyond the literal node table)
		r.Count("securelink_uri_rule_cases", 1)
		if c.Shape == "valid" {
			w.Shape = "link-by-documented-procedure-uri-node"
			r.Count("securelink_uri_rule_documented_links", 1)
			if !admitted {
				r.Count("securelink_uri_rule_documented_links_rejected", 1)
			}
		}
	}
	bad := ""
	if rejected && (obs.resp.StatusCode < 400 || obs.resp.StatusCode > 499) {
		bad = fmt.Sprintf("status-%d", obs.resp.StatusCode)
	}
	c51Verdict(r, w, want, obs, admitted, rejected, bad, c.Shape)
	if r.WantSample() && c.Shape != "valid" && c51SampleGate(caseSeed) {
		r.Sample(w)
	}
}
