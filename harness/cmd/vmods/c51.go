package main

import (
	"bytes"
	"fmt"
	"sort"
	"strings"
	"sync"
	"time"

	"github.com/bfenetworks/bfe/bfe_http"
	"github.com/bfenetworks/bfe/bfe_module"

	"verifharness/vkit"
)

// C51: access-control modules admit exactly the valid requests.
//
// Four module parts, each driven through its registered callback with requests
// parsed by bfe's own HTTP reader, each judged by a reference validator written
// here from the module documentation and the RFCs (7617, 7515/7518/7519, the
// mod_secure_link "link generate logic", a linear scan for mod_block):
//
//   c51basic.go   mod_auth_basic   (HandleFoundProduct)
//   c51jwt.go     mod_auth_jwt     (HandleFoundProduct)
//   c51slink.go   mod_secure_link  (HandleAfterLocation)
//   c51block.go   mod_block        (HandleAccept + HandleFoundProduct)
//
// A scenario (rule file + user/key/ip files) is a pure function of a 64-bit
// cfg seed, a request a pure function of (scenario, case seed): the witness of
// a violation is (module, cfg_seed, case_seed) plus a readable description, and
// -replay regenerates exactly that case (time claims are offsets from "now",
// never closer than one hour, so a replay months later has the same verdict).

// Reference verdicts.
const (
	c51Admit  = "admit"  // the request carries valid credentials in canonical form: must be forwarded
	c51Reject = "reject" // no reading of the request carries valid credentials: must get the documented rejection
	c51Either = "either" // valid credentials in a non-canonical form the docs/RFC leave open: not judged
)

// c51Witness is the replay witness of every C51 violation.
type c51Witness struct {
	Mod      string                 `json:"mod"`
	CfgSeed  uint64                 `json:"cfg_seed,string"`
	CaseSeed uint64                 `json:"case_seed,string"`
	Family   string                 `json:"family,omitempty"` // "" = the base workload, "ambig" = credential-ambiguity family (c51ambig.go)
	Shape    string                 `json:"shape"`
	Want     string                 `json:"want"`
	Why      string                 `json:"why"`
	Got      string                 `json:"got"`
	Info     map[string]interface{} `json:"info,omitempty"`
}

// c51Obs is what the handler chain answered.
type c51Obs struct {
	code int
	resp *bfe_http.Response
}

func (o c51Obs) String() string {
	names := map[int]string{
		bfe_module.BfeHandlerFinish: "Finish", bfe_module.BfeHandlerGoOn: "GoOn", bfe_module.BfeHandlerRedirect: "Redirect",
		bfe_module.BfeHandlerResponse: "Response", bfe_module.BfeHandlerClose: "Close",
	}
	s := names[o.code]
	if s == "" {
		s = fmt.Sprintf("code%d", o.code)
	}
	if o.resp != nil {
		s += fmt.Sprintf(" status=%d", o.resp.StatusCode)
		if v := o.resp.Header.Get("WWW-Authenticate"); v != "" {
			s += fmt.Sprintf(" WWW-Authenticate=%q", v)
		}
	}
	return s
}

// c51Mod is one module part of the property.
type c51Mod struct {
	name string
	// boot creates the single module instance of this process and initialises it.
	boot func(r *vkit.Run) (*modEnv, error)
	// load builds scenario cfgSeed, writes its files and reloads the module.
	load func(r *vkit.Run, env *modEnv, cfgSeed uint64) (interface{}, error)
	// run generates case caseSeed of the scenario, drives bfe, judges.
	run func(r *vkit.Run, env *modEnv, sc interface{}, cfgSeed, caseSeed uint64, now int64)
	// scenarios and cases per scenario, (quick, thorough)
	scen  [2]int
	cases [2]int
	// counters that the workload must reach
	must []string
	// ambig generates and judges case caseSeed of the credential-ambiguity family
	// (repeated / competing credentials, c51ambig.go); nil for modules without credentials.
	ambig      func(r *vkit.Run, env *modEnv, sc interface{}, cfgSeed, caseSeed uint64, now int64)
	ambigCases [2]int
}

// c51Shapes counts, per module:shape, the reference verdicts and what bfe did
// (written to the evidence file as coverage.shapes).
var (
	c51ShapesMu sync.Mutex
	c51Shapes   = map[string]map[string]int{}
)

func c51ShapeCount(mod, shape, want string, admitted bool) {
	c51ShapesMu.Lock()
	defer c51ShapesMu.Unlock()
	k := mod + ":" + shape
	if c51Shapes[k] == nil {
		c51Shapes[k] = map[string]int{}
	}
	c51Shapes[k]["want_"+want]++
	if admitted {
		c51Shapes[k]["admitted"]++
	} else {
		c51Shapes[k]["rejected"]++
	}
}

func c51Mods() []*c51Mod {
	return []*c51Mod{c51BasicMod(), c51JwtMod(), c51SlinkMod(), c51BlockMod()}
}

// c51Verdict compares the observation with the reference verdict and files
// the violation. admitted/rejected are the module-specific readings of obs;
// badReject != "" means "rejected, but not with the documented rejection".
func c51Verdict(r *vkit.Run, w *c51Witness, want string, obs c51Obs, admitted, rejected bool, badReject string, validDetail string) {
	mod := w.Mod
	w.Want, w.Got = want, obs.String()
	switch {
	case !admitted && !rejected:
		r.Violation(mod+":unexpected-handler-result", fmt.Sprintf("handler chain answered %s: neither forwarded nor the documented rejection (reference: %s, %s)", obs, want, w.Why), w)
		return
	case admitted:
		r.Count(mod+"_admitted", 1)
	default:
		r.Count(mod+"_rejected", 1)
	}
	c51ShapeCount(mod, w.Shape, want, admitted)
	switch want {
	case c51Either:
		r.Count(mod+"_not_judged", 1)
		if rejected && badReject != "" {
			r.Violation(mod+":rejection-not-as-documented:"+badReject, fmt.Sprintf("rejected with %s", obs), w)
		}
	case c51Admit:
		r.Count(mod+"_expect_admit", 1)
		if !admitted {
			r.Violation(mod+":valid-rejected:"+validDetail, fmt.Sprintf("valid request (%s) answered %s", w.Why, obs), w)
		}
	case c51Reject:
		r.Count(mod+"_expect_reject", 1)
		if admitted {
			r.Violation(mod+":"+w.Shape+"-admitted", fmt.Sprintf("request forwarded although %s", w.Why), w)
		} else if badReject != "" {
			r.Violation(mod+":rejection-not-as-documented:"+badReject, fmt.Sprintf("rejected with %s", obs), w)
		}
	}
}

// c51AuthReject checks the documented 401 challenge of the two auth modules.
func c51AuthReject(obs c51Obs, scheme, realm string) string {
	if obs.resp == nil {
		return "no-response"
	}
	if obs.resp.StatusCode != 401 {
		return fmt.Sprintf("status-%d", obs.resp.StatusCode)
	}
	v := obs.resp.Header.Get("WWW-Authenticate")
	if v == "" {
		return "no-www-authenticate"
	}
	if len(v) < len(scheme)+1 || !strings.EqualFold(v[:len(scheme)], scheme) || v[len(scheme)] != ' ' {
		return "challenge-scheme"
	}
	if !strings.Contains(v[len(scheme):], `realm="`+realm+`"`) {
		return "challenge-realm"
	}
	return ""
}

// c51RawReq builds an HTTP/1.1 request; hdrs are literal "Name: value" lines.
func c51RawReq(target, host string, hdrs []string) []byte {
	var b bytes.Buffer
	fmt.Fprintf(&b, "GET %s HTTP/1.1\r\nHost: %s\r\n", target, host)
	for _, h := range hdrs {
		b.WriteString(h)
		b.WriteString("\r\n")
	}
	b.WriteString("User-Agent: c51\r\n\r\n")
	return b.Bytes()
}

// c51Pick picks an index by integer weights.
func c51Pick(g *vkit.Rand, weights []int) int {
	t := 0
	for _, w := range weights {
		t += w
	}
	x := g.Intn(t)
	for i, w := range weights {
		if x < w {
			return i
		}
		x -= w
	}
	return len(weights) - 1
}

const c51Alnum = "abcdefghijklmnopqrstuvwxyzABCDEFGHIJKLMNOPQRSTUVWXYZ0123456789"

func c51Str(g *vkit.Rand, alphabet string, lo, hi int) string {
	n := g.Range(lo, hi)
	b := make([]byte, n)
	for i := range b {
		b[i] = alphabet[g.Intn(len(alphabet))]
	}
	return string(b)
}

func c51(r *vkit.Run) {
	r.SetRule("per module part (basic, jwt, securelink, block): a few seeded configurations (rule file with disjoint req_host_in conditions + htpasswd user files with apr1/{SHA}/bcrypt hashes | JWK key files oct/RSA/EC with and without declared alg | secure-link node lists label/query/header/host/uri/remote_addr | ip blocklist of singles+ranges v4/v6 not starting at zero and product/global CLOSE/ALLOW rules on req_host_in/req_path_in/req_cip_range), loaded through the module's reload handler, each exercised with many seeded requests parsed by bfe_http.ReadRequest. " +
		"basic: valid, wrong/mutated/empty password, password with ':', unknown/prefix/cross-rule user, other user's password, hash as password, missing/empty header, scheme case, malformed base64, no colon, other schemes, extra whitespace, unpadded/url-safe base64, two header lines, uncovered host/product. " +
		"jwt: valid HS/RS/PS/ES tokens, alg=none (with/without signature, 2 parts), HS* signed with the RSA/EC public key bytes (PEM/DER/JWK/modulus), alg differing from the key's declared alg, sibling alg on an undeclared key, wrong/foreign/cross-rule key, truncated/extended/bit-flipped/zero/empty/DER signature, payload or header altered after signing, expired, not-yet-valid, exp 0 / non-numeric exp+nbf, duplicated claims and header members, non-JSON payload/header, unknown/lower-case/non-string/missing alg, 1/2/4/5-part tokens, padded segments, Authorization shapes. Time claims are >= 1 h away from now. " +
		"securelink: valid, wrong/one-char/truncated/padded/std-alphabet/hex/case-flipped checksum, missing/empty checksum or expires, expired, non-numeric expires, node omitted/reordered, node value or expiry changed after signing, other secret, duplicate checksum parameter, link built by the documented procedure for a uri-node rule, uncovered host. " +
		"block: Accept with client addresses at every range boundary +-1 (4- and 16-byte IPv4, IPv6), requests against first-match global-then-product rule lists. " +
		"Credential-ambiguity family (c51ambig.go; own generator streams, own rules a<i>.example.org for securelink): securelink links valid / validly-signed-but-expired / invalid with ONE argument repeated: the expires argument, the checksum argument, a signed query-node argument, or a second expiry together with the checksum issued for it; the repetition appended, prepended or (pair) crossed; forged value future / past / empty / same / other; its name plain, first letter upper-cased (a different key), one letter percent-encoded (the same key), or without '='; joined with '&' or with ';' (net/url drops a pair containing ';'). Oracle: admitted <=> the reading req.URL.Query().Get = FIRST value of every argument, the same for signing input, checksum and expiry, is a valid unexpired link; separately, independent of first/last: admitted => SOME reading taking one occurrence per argument for every use is valid (else the expiry checked is not the expiry signed). basic / jwt: 2-3 Authorization lines valid+invalid in both orders (second line optionally authorization/AUTHORIZATION), both invalid, both valid, two credentials comma-joined in one line, a valid or invalid credential in a cookie / query argument (jwt: access_token) / Proxy-Authorization / X- header with the Authorization field invalid, valid or missing, duplicated cookies. Oracle: every presented credential invalid => rejected with the documented 401; one canonical valid Authorization line + decoys elsewhere => admitted; basic credential valid only in cookie/query/X- header => rejected; valid next to invalid in Authorization lines, valid only in Proxy-Authorization (jwt: anywhere outside Authorization), jwt access_token query next to a valid header => not judged (no documented precedence / RFC 6750 allows either). Every shape class must occur or the run is inconclusive. " +
		"Oracle per request: admit / reject(with the documented rejection) / not judged (valid credential in a non-canonical encoding, duplicate parameters or members where the RFC allows either, future iat). Excluded because the docs are silent: rule order among overlapping conditions of the auth modules (conditions are disjoint), kid matching, JWK private keys, null/array JWT payloads, trailing bytes after the claims object, time claims beyond int64, omitted ChecksumKey/ExpiresKey, expires with sign/overflow, ip ranges starting at 0.0.0.0 or :: (C19). Non-trivial = request reached the module handler with a covering rule (or an Accept decision); distinct = (module, cfg seed, request bytes / client address; for jwt the case recipe, because PSS/ECDSA signatures are randomized)")
	r.Assume("std crypto (md5, sha1, hmac, rsa, ecdsa) and golang.org/x/crypto/bcrypt are correct; bcrypt is also what the library under bfe uses, so bcrypt cases check the dispatch, not the primitive")
	r.Assume("apr1-MD5 reference written here from the Apache apr_md5 algorithm and checked against the documented vector user1:123456")
	r.Assume("condition primitives req_host_in / req_path_in / req_cip_range behave as documented for exact lower-case hosts, exact paths and in-range addresses (other properties)")
	r.Assume("mod_block: rule lists are first-match, global list before the product list (the only reading under which the documented ALLOW action has an effect)")
	r.Assume("secure-link arguments are read as Go's net/url delivers them (the documentation writes req.URL.Query($Param)): '&' separates, a pair containing ';' or a bad escape is dropped, names are case-sensitive and percent-decoded, Get returns the first value; the harness's own reader of this is compared with net/url on fixed vectors at start")
	r.Assume("requests are built without a server: HttpRequest.RemoteAddr is set to ip:port as bfe_server/http_conn.go does")

	now := time.Now().Unix()
	mods := c51Mods()

	if r.Replay != "" {
		var w c51Witness
		if err := r.LoadReplay(&w); err != nil {
			r.Inconclusive(err.Error())
			return
		}
		for _, m := range mods {
			if m.name != w.Mod {
				continue
			}
			env, err := m.boot(r)
			if err != nil {
				r.Inconclusive(m.name + " init: " + err.Error())
				return
			}
			sc, err := m.load(r, env, w.CfgSeed)
			if err != nil {
				r.Inconclusive(m.name + " load: " + err.Error())
				return
			}
			if w.Family == "ambig" && m.ambig != nil {
				m.ambig(r, env, sc, w.CfgSeed, w.CaseSeed, now)
			} else {
				m.run(r, env, sc, w.CfgSeed, w.CaseSeed, now)
			}
			r.SetMinDistinct(0)
			return
		}
		r.Inconclusive("replay: unknown module " + w.Mod)
		return
	}

	ti := 0
	if !r.Quick() {
		ti = 1
	}
	for _, m := range mods {
		env, err := m.boot(r)
		if err != nil {
			r.Inconclusive(m.name + " init: " + err.Error())
			continue
		}
		for k := 0; k < m.scen[ti]; k++ {
			cfgSeed := r.Rng("cfg-"+m.name, k).U64()
			var sc interface{}
			var lerr error
			if r.Try(func() interface{} { return c51Witness{Mod: m.name, CfgSeed: cfgSeed, Shape: "load"} }, func() { sc, lerr = m.load(r, env, cfgSeed) }) {
				continue
			}
			if lerr != nil {
				// every generated configuration follows the documented format
				r.Violation(m.name+":valid-configuration-rejected", lerr.Error(), c51Witness{Mod: m.name, CfgSeed: cfgSeed, Shape: "load", Why: lerr.Error()})
				continue
			}
			r.Count(m.name+"_configurations", 1)
			for i := 0; i < m.cases[ti]; i++ {
				caseSeed := r.Rng("case-"+m.name, k, i).U64()
				m.run(r, env, sc, cfgSeed, caseSeed, now)
			}
			if m.ambig != nil {
				for i := 0; i < m.ambigCases[ti]; i++ {
					m.ambig(r, env, sc, cfgSeed, r.Rng("ambig-"+m.name, k, i).U64(), now)
				}
			}
		}
	}
	c51AmbFinish(r)
	c51ShapesMu.Lock()
	r.Extra("shapes", c51Shapes)
	c51ShapesMu.Unlock()
	var missing []string
	for _, m := range mods {
		for _, c := range append([]string{m.name + "_admitted", m.name + "_rejected", m.name + "_expect_admit", m.name + "_expect_reject"}, m.must...) {
			if r.Counter(c) == 0 {
				missing = append(missing, c)
			}
		}
	}
	sort.Strings(missing)
	if len(missing) > 0 {
		r.Inconclusive("outcomes never reached: " + strings.Join(missing, ","))
	}
}
