package main

import (
	"crypto/md5"
	"crypto/sha1"
	"crypto/subtle"
	"encoding/base64"
	"encoding/json"
	"fmt"
	"path/filepath"
	"strings"

	"golang.org/x/crypto/bcrypt"

	"github.com/bfenetworks/bfe/bfe_module"
	"github.com/bfenetworks/bfe/bfe_modules/mod_auth_basic"

	"verifharness/vkit"
)

// ---- reference: htpasswd hashes ---------------------------------------------

const c51Itoa64 = "./0123456789ABCDEFGHIJKLMNOPQRSTUVWXYZabcdefghijklmnopqrstuvwxyz"

// c51Apr1 is Apache's apr1 MD5 password algorithm (apr_md5_encode), written
// from its description: initial digest over pw,magic,salt mixed with
// md5(pw,salt,pw), 1000 strengthening rounds, then the permuted base-64 dump.
func c51Apr1(pw, salt string) string {
	const magic = "$apr1$"
	if len(salt) > 8 {
		salt = salt[:8]
	}
	p := []byte(pw)
	alt := md5.New()
	alt.Write(p)
	alt.Write([]byte(salt))
	alt.Write(p)
	fin := alt.Sum(nil)

	ctx := md5.New()
	ctx.Write(p)
	ctx.Write([]byte(magic))
	ctx.Write([]byte(salt))
	for pl := len(p); pl > 0; pl -= 16 {
		n := pl
		if n > 16 {
			n = 16
		}
		ctx.Write(fin[:n])
	}
	for i := len(p); i != 0; i >>= 1 {
		if i&1 != 0 {
			ctx.Write([]byte{0})
		} else {
			ctx.Write(p[:1])
		}
	}
	fin = ctx.Sum(nil)
	for i := 0; i < 1000; i++ {
		c := md5.New()
		if i&1 != 0 {
			c.Write(p)
		} else {
			c.Write(fin)
		}
		if i%3 != 0 {
			c.Write([]byte(salt))
		}
		if i%7 != 0 {
			c.Write(p)
		}
		if i&1 != 0 {
			c.Write(fin)
		} else {
			c.Write(p)
		}
		fin = c.Sum(nil)
	}
	var out []byte
	to64 := func(v uint32, n int) {
		for ; n > 0; n-- {
			out = append(out, c51Itoa64[v&0x3f])
			v >>= 6
		}
	}
	tri := func(a, b, c int) { to64(uint32(fin[a])<<16|uint32(fin[b])<<8|uint32(fin[c]), 4) }
	tri(0, 6, 12)
	tri(1, 7, 13)
	tri(2, 8, 14)
	tri(3, 9, 15)
	tri(4, 10, 5)
	to64(uint32(fin[11]), 2)
	return magic + salt + "$" + string(out)
}

func c51ShaHash(pw string) string {
	s := sha1.Sum([]byte(pw))
	return "{SHA}" + base64.StdEncoding.EncodeToString(s[:])
}

// c51HashOK verifies pw against an htpasswd hash of one of the three schemes used here.
func c51HashOK(hash, pw string) bool {
	switch {
	case strings.HasPrefix(hash, "{SHA}"):
		return subtle.ConstantTimeCompare([]byte(hash), []byte(c51ShaHash(pw))) == 1
	case strings.HasPrefix(hash, "$apr1$"):
		parts := strings.Split(hash, "$") // "", apr1, salt, digest
		if len(parts) != 4 {
			return false
		}
		return subtle.ConstantTimeCompare([]byte(hash), []byte(c51Apr1(pw, parts[2]))) == 1
	case strings.HasPrefix(hash, "$2y$"), strings.HasPrefix(hash, "$2a$"), strings.HasPrefix(hash, "$2b$"):
		return bcrypt.CompareHashAndPassword([]byte(hash), []byte(pw)) == nil
	}
	return false
}

// ---- scenario ----------------------------------------------------------------

type c51BasicUser struct {
	Name, Pass, Scheme, Hash string
}

type c51BasicRule struct {
	Host     string
	Realm    string // effective realm
	RealmSet bool
	Users    []c51BasicUser
	FileText string
	hashes   map[string]string
}

type c51BasicSc struct {
	Rules []c51BasicRule
}

var c51BasicNames = []string{"alice", "alic", "alice2", "bob", "bobby", "carol", "dave.x", "eve-1", "u", "Mallory_9"}

const c51PwAlphabet = c51Alnum + " !\"$%&'()*+,-./;<=>?@[\\]^_`{|}~"

func c51BasicPassword(g *vkit.Rand) string {
	switch g.Intn(10) {
	case 0:
		return "" // RFC 7617: the password may be empty
	case 1:
		return c51Str(g, c51PwAlphabet, 1, 6) + ":" + c51Str(g, c51PwAlphabet, 0, 6)
	case 2:
		return ":" + c51Str(g, c51Alnum, 0, 4) + ":"
	case 3:
		return c51Str(g, c51Alnum, 1, 4) + "päss世" + c51Str(g, c51Alnum, 0, 3)
	case 4:
		return c51Str(g, c51PwAlphabet, 17, 40)
	case 5:
		return c51Str(g, c51Alnum, 1, 1)
	}
	return c51Str(g, c51PwAlphabet, 2, 16)
}

func c51BasicHash(g *vkit.Rand, scheme, pw string) string {
	switch scheme {
	case "sha":
		return c51ShaHash(pw)
	case "bcrypt":
		// the salt comes from crypto/rand: the hash text differs between runs, its meaning does not
		h, err := bcrypt.GenerateFromPassword([]byte(pw), bcrypt.MinCost)
		if err != nil {
			panic(err)
		}
		return "$2y$" + string(h[4:])
	}
	return c51Apr1(pw, c51Str(g, c51Itoa64, 8, 8))
}

func c51BasicScenario(cfgSeed uint64) *c51BasicSc {
	g := vkit.NewRand(cfgSeed)
	sc := &c51BasicSc{}
	nr := g.Range(2, 3)
	for i := 0; i < nr; i++ {
		ru := c51BasicRule{Host: fmt.Sprintf("b%d.example.org", i), Realm: "Restricted", hashes: map[string]string{}}
		if i == 0 || g.Bool() {
			ru.RealmSet = true
			ru.Realm = g.PickS([]string{"zone " + c51Str(g, c51Alnum, 1, 6), "example_product", "R-" + c51Str(g, c51Alnum, 3, 8), "a b,c=d"})
		}
		perm := g.Perm(len(c51BasicNames))
		nu := g.Range(3, 6)
		var sb strings.Builder
		sb.WriteString("# users of " + ru.Host + "\n")
		for j := 0; j < nu; j++ {
			u := c51BasicUser{Name: c51BasicNames[perm[j]], Pass: c51BasicPassword(g)}
			u.Scheme = []string{"apr1", "apr1", "sha", "sha", "bcrypt"}[g.Intn(5)]
			u.Hash = c51BasicHash(g, u.Scheme, u.Pass)
			ru.Users = append(ru.Users, u)
			ru.hashes[u.Name] = u.Hash
			sb.WriteString(u.Name + ":" + u.Hash)
			if g.Chance(1, 3) {
				sb.WriteString(":" + u.Name + " " + c51Str(g, c51Alnum+" ,", 0, 12))
			}
			sb.WriteString("\n")
			if g.Chance(1, 4) {
				sb.WriteString("\n")
			}
		}
		ru.FileText = sb.String()
		sc.Rules = append(sc.Rules, ru)
	}
	return sc
}

func c51BasicMod() *c51Mod {
	return &c51Mod{
		name: "basic",
		boot: func(r *vkit.Run) (*modEnv, error) {
			if c51Apr1("123456", "mI7SilJz") != "$apr1$mI7SilJz$CWwYJyYKbhVDNl26sdUSh/" || c51ShaHash("123456") != "{SHA}fEqNCco3Yq9h5ZUglD3CZJT4lBs=" {
				return nil, fmt.Errorf("reference htpasswd hashes do not reproduce the documented vectors")
			}
			root := filepath.Join(scratch(), "c51basic")
			writeFile(filepath.Join(root, "mod_auth_basic", "mod_auth_basic.conf"), []byte("[Basic]\nDataPath = mod_auth_basic/auth_basic_rule.data\n\n[Log]\nOpenDebug = false\n"))
			writeFile(filepath.Join(root, "mod_auth_basic", "auth_basic_rule.data"), []byte(`{"Version":"boot","Config":{}}`))
			env := newModEnv()
			m := mod_auth_basic.NewModuleAuthBasic()
			if err := m.Init(env.cbs, env.whs, root); err != nil {
				return nil, err
			}
			return env, nil
		},
		load: func(r *vkit.Run, env *modEnv, cfgSeed uint64) (interface{}, error) {
			sc := c51BasicScenario(cfgSeed)
			dir := filepath.Join(scratch(), "c51basic", fmt.Sprintf("sc-%016x", cfgSeed))
			type rf struct {
				Cond     string
				UserFile string
				Realm    string `json:",omitempty"`
			}
			var rules []rf
			for i, ru := range sc.Rules {
				uf := filepath.Join(dir, fmt.Sprintf("userfile%d", i))
				writeFile(uf, []byte(ru.FileText))
				x := rf{Cond: fmt.Sprintf("req_host_in(%q)", ru.Host), UserFile: uf}
				if ru.RealmSet {
					x.Realm = ru.Realm
				}
				rules = append(rules, x)
			}
			b, _ := json.MarshalIndent(map[string]interface{}{"Version": fmt.Sprintf("%016x", cfgSeed), "Config": map[string]interface{}{"pn": rules}}, "", " ")
			p := filepath.Join(dir, "auth_basic_rule.data")
			writeFile(p, b)
			return sc, env.reload("mod_auth_basic", p)
		},
		run:   c51BasicRun,
		scen:  [2]int{4, 24},
		cases: [2]int{600, 1500},
		must:  []string{"basic_uncovered_passed", "basic_not_judged", "basic_valid_apr1", "basic_valid_sha", "basic_valid_bcrypt"},

		ambig:      c51BasicAmbRun,
		ambigCases: [2]int{250, 500},
	}
}

// ---- reference: the Authorization header ------------------------------------------

// c51BasicCanon parses the canonical form `Basic SP base64(user:pass)`
// (scheme case-insensitive per RFC 7235 2.1, padded standard alphabet).
func c51BasicCanon(v string) (user, pass string, ok bool) {
	if len(v) < 6 || !strings.EqualFold(v[:5], "basic") || v[5] != ' ' {
		return
	}
	b, err := base64.StdEncoding.Strict().DecodeString(v[6:])
	if err != nil {
		return
	}
	i := strings.IndexByte(string(b), ':')
	if i < 0 {
		return
	}
	return string(b[:i]), string(b[i+1:]), true
}

// c51BasicLenient returns every (user, pass) a liberal parser could read out of v.
func c51BasicLenient(v string) [][2]string {
	var out [][2]string
	f := strings.Fields(v)
	if len(f) < 2 || !strings.EqualFold(f[0], "basic") {
		return nil
	}
	cands := []string{f[1], strings.Join(f[1:], "")}
	for _, c := range cands {
		c = strings.TrimRight(c, "=")
		for _, enc := range []*base64.Encoding{base64.RawStdEncoding, base64.RawURLEncoding} {
			if b, err := enc.DecodeString(c); err == nil {
				if i := strings.IndexByte(string(b), ':'); i >= 0 {
					out = append(out, [2]string{string(b[:i]), string(b[i+1:])})
				}
			}
		}
	}
	return out
}

// c51BasicRef decides a covered request from its Authorization field values
// (already stripped of optional whitespace, as every HTTP reader delivers them).
func c51BasicRef(ru *c51BasicRule, vals []string) (verdict, why string) {
	check := func(u, p string) bool {
		h, ok := ru.hashes[u]
		return ok && c51HashOK(h, p)
	}
	if len(vals) == 1 {
		if u, p, ok := c51BasicCanon(vals[0]); ok {
			if check(u, p) {
				return c51Admit, fmt.Sprintf("user %q with the correct password", u)
			}
			if _, known := ru.hashes[u]; !known {
				return c51Reject, fmt.Sprintf("user %q is not in the rule's user file", u)
			}
			return c51Reject, fmt.Sprintf("password %q does not match the stored hash of user %q", p, u)
		}
	}
	for _, v := range vals {
		for _, c := range c51BasicLenient(v) {
			if check(c[0], c[1]) {
				return c51Either, "valid credentials in a non-canonical Authorization field"
			}
		}
	}
	if len(vals) == 0 {
		return c51Reject, "no Authorization header"
	}
	return c51Reject, "no valid Basic credentials in the Authorization field"
}

// ---- cases ----------------------------------------------------------------------

type c51BasicCase struct {
	Rule    int // -1: uncovered
	Host    string
	Product string
	Hdrs    []string // literal header lines
	Vals    []string // Authorization field values (OWS stripped)
	Shape   string
	Scheme  string // hash scheme of the targeted user
}

func c51B64(u, p string) string { return base64.StdEncoding.EncodeToString([]byte(u + ":" + p)) }

func c51BasicMutatePw(g *vkit.Rand, pw string) (string, string) {
	switch g.Intn(9) {
	case 0:
		if len(pw) > 0 {
			return pw[:len(pw)-1], "password-truncated"
		}
	case 1:
		return pw + g.PickS([]string{"x", " ", "\x00", ":"}), "password-extended"
	case 2:
		if len(pw) > 1 {
			return pw[:len(pw)/2], "password-prefix"
		}
	case 3:
		b := []byte(pw)
		for i := range b {
			if (b[i]|0x20) >= 'a' && (b[i]|0x20) <= 'z' {
				b[i] ^= 0x20
				return string(b), "password-case-flipped"
			}
		}
	case 4:
		if pw != "" {
			return "", "empty-password"
		}
	case 5:
		if len(pw) > 1 {
			return pw[1:], "password-suffix"
		}
	case 6:
		return " " + pw, "password-leading-space"
	}
	return c51Str(g, c51PwAlphabet, 1, 12), "wrong-password"
}

func c51BasicGen(sc *c51BasicSc, g *vkit.Rand) *c51BasicCase {
	c := &c51BasicCase{Product: "pn"}
	c.Rule = g.Intn(len(sc.Rules))
	ru := &sc.Rules[c.Rule]
	c.Host = ru.Host
	u := ru.Users[g.Intn(len(ru.Users))]
	c.Scheme = u.Scheme
	one := func(v string) { c.Hdrs = []string{"Authorization: " + v} }
	switch c51Pick(g, []int{24, 20, 9, 5, 6, 3, 1, 6, 5, 2, 4, 5, 3, 3, 2, 7}) {
	case 0:
		c.Shape = "valid"
		one("Basic " + c51B64(u.Name, u.Pass))
	case 1:
		pw, sh := c51BasicMutatePw(g, u.Pass)
		c.Shape = sh
		one("Basic " + c51B64(u.Name, pw))
	case 2:
		c.Shape = "unknown-user"
		name := g.PickS([]string{u.Name + "x", u.Name[:len(u.Name)-1], strings.ToUpper(u.Name[:1]) + u.Name[1:] + "_", "", "nobody", u.Name + " ", " " + u.Name})
		if _, ok := ru.hashes[name]; ok {
			name = "nobody"
		}
		one("Basic " + c51B64(name, u.Pass))
	case 3:
		c.Shape = "other-users-password"
		o := ru.Users[g.Intn(len(ru.Users))]
		one("Basic " + c51B64(u.Name, o.Pass))
	case 4:
		c.Shape = "cross-rule-user"
		or := &sc.Rules[(c.Rule+1)%len(sc.Rules)]
		o := or.Users[g.Intn(len(or.Users))]
		one("Basic " + c51B64(o.Name, o.Pass))
	case 5:
		c.Shape = "missing-header"
	case 6:
		c.Shape = "empty-header"
		one("")
	case 7:
		c.Shape = "scheme-case"
		pw := u.Pass
		if g.Chance(1, 3) {
			pw, _ = c51BasicMutatePw(g, pw)
			c.Shape = "scheme-case-wrong-password"
		}
		one(g.PickS([]string{"basic", "BASIC", "bAsIc", "BasiC"}) + " " + c51B64(u.Name, pw))
	case 8:
		c.Shape = "malformed-base64"
		b := c51B64(u.Name, u.Pass)
		p := g.Intn(len(b))
		one("Basic " + b[:p] + g.PickS([]string{"!", "*", "%", "\x7f", "$", "="}) + b[p+1:])
	case 9:
		c.Shape = "no-colon"
		one("Basic " + base64.StdEncoding.EncodeToString([]byte(u.Name+u.Pass)))
	case 10:
		c.Shape = "other-scheme"
		b := c51B64(u.Name, u.Pass)
		one(g.PickS([]string{"Bearer " + b, "Digest " + b, "Basicx " + b, "Basic" + b, "Basi " + b, "Negotiate " + b, b, "Basic"}))
	case 11:
		c.Shape = "extra-whitespace"
		b := c51B64(u.Name, u.Pass)
		if g.Chance(1, 3) {
			pw, _ := c51BasicMutatePw(g, u.Pass)
			b = c51B64(u.Name, pw)
			c.Shape = "extra-whitespace-wrong-password"
		}
		c.Hdrs = []string{g.PickS([]string{"Authorization: Basic  " + b, "Authorization: Basic\t" + b, "Authorization:Basic " + b, "Authorization:   Basic " + b + "  ", "Authorization: Basic " + b + " x", "Authorization: Basic " + b[:4] + " " + b[4:]})}
	case 12:
		c.Shape = "unpadded-or-urlsafe-base64"
		raw := []byte(u.Name + ":" + u.Pass)
		if g.Chance(1, 3) {
			pw, _ := c51BasicMutatePw(g, u.Pass)
			raw = []byte(u.Name + ":" + pw)
			c.Shape = "unpadded-or-urlsafe-base64-wrong-password"
		}
		one("Basic " + []*base64.Encoding{base64.RawStdEncoding, base64.URLEncoding, base64.RawURLEncoding}[g.Intn(3)].EncodeToString(raw))
	case 13:
		c.Shape = "two-authorization-headers"
		good := "Authorization: Basic " + c51B64(u.Name, u.Pass)
		pw, _ := c51BasicMutatePw(g, u.Pass)
		bad := "Authorization: Basic " + c51B64(u.Name, pw)
		switch g.Intn(3) {
		case 0:
			c.Hdrs = []string{good, bad}
		case 1:
			c.Hdrs = []string{bad, good}
		default:
			c.Hdrs = []string{bad, "Authorization: Bearer abc"}
			c.Shape = "two-authorization-headers-none-valid"
		}
	case 14:
		c.Shape = "hash-as-password"
		one("Basic " + c51B64(u.Name, u.Hash))
	default:
		c.Shape = "uncovered"
		c.Rule = -1
		if g.Bool() {
			c.Host = g.PickS([]string{"open.example.org", "example.org", "xb0.example.org", "b0.example.org.evil.test"})
		} else {
			c.Product = "px"
		}
		if g.Bool() {
			pw, _ := c51BasicMutatePw(g, u.Pass)
			one("Basic " + c51B64(u.Name, pw))
		}
	}
	for _, h := range c.Hdrs {
		c.Vals = append(c.Vals, strings.Trim(h[len("Authorization:"):], " \t"))
	}
	return c
}

func c51BasicRun(r *vkit.Run, env *modEnv, sci interface{}, cfgSeed, caseSeed uint64, now int64) {
	sc := sci.(*c51BasicSc)
	c := c51BasicGen(sc, vkit.NewRand(caseSeed))
	w := &c51Witness{Mod: "basic", CfgSeed: cfgSeed, CaseSeed: caseSeed, Shape: c.Shape,
		Info: map[string]interface{}{"host": c.Host, "product": c.Product, "headers": c.Hdrs, "rule": c.Rule}}
	raw := c51RawReq("/", c.Host, c.Hdrs)
	req, err := parseReq(raw)
	if err != nil {
		r.Count("basic_http_reader_refused", 1)
		r.CaseS("basic|refused|"+string(raw), false)
		return
	}
	req.Route.Product = c.Product
	var obs c51Obs
	if r.Try(func() interface{} { return w }, func() { obs.code, obs.resp = env.request(bfe_module.HandleFoundProduct, req) }) {
		return
	}
	admitted := obs.code == bfe_module.BfeHandlerGoOn && obs.resp == nil
	rejected := obs.code == bfe_module.BfeHandlerResponse && obs.resp != nil
	key := fmt.Sprintf("basic|%x|%s|%s|%s", cfgSeed, c.Host, c.Product, strings.Join(c.Hdrs, "\n"))
	if c.Rule < 0 {
		r.CaseS(key, false)
		w.Want, w.Why, w.Got = c51Admit, "no rule covers the request", obs.String()
		if admitted {
			r.Count("basic_uncovered_passed", 1)
		} else {
			r.Violation("basic:uncovered-request-not-passed", fmt.Sprintf("request of host %s product %s is not covered by any rule but was answered %s", c.Host, c.Product, obs), w)
		}
		return
	}
	r.CaseS(key, true)
	ru := &sc.Rules[c.Rule]
	w.Info["realm"] = ru.Realm
	w.Info["userfile"] = ru.FileText
	var want string
	want, w.Why = c51BasicRef(ru, c.Vals)
	bad := ""
	if rejected {
		bad = c51AuthReject(obs, "Basic", ru.Realm)
	}
	if want == c51Admit && admitted {
		r.Count("basic_valid_"+c.Scheme, 1)
	}
	c51Verdict(r, w, want, obs, admitted, rejected, bad, c.Scheme+":"+c.Shape)
	if r.WantSample() && c.Shape != "valid" && c51SampleGate(caseSeed) {
		r.Sample(w)
	}
}

// c51SampleGate thins the samples so that they span modules and shapes.
func c51SampleGate(seed uint64) bool { return seed%97 == 0 }
