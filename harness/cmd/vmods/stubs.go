package main

import "verifharness/vkit"

func c50(r *vkit.Run) {}
func c51(r *vkit.Run) {}
func c53(r *vkit.Run) {}
