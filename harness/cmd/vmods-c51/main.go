// TEMPORARY development binary for C51 only; its c51*.go files are merged into cmd/vmods by the domain author.
package main

import (
	"fmt"
	"os"

	"verifharness/vkit"
)

func main() {
	r := vkit.Start("exploration")
	initLog()
	switch r.Prop {
	case "C51":
		c51(r)
	default:
		fmt.Fprintln(os.Stderr, "unknown property", r.Prop)
		os.Exit(vkit.ExitInconclusive)
	}
	r.Finish()
}
