package main

// gen.go: case generators. A case is a pure function of (seed, index).

import (
	"verifharness/vkit"
)

var readSizes = []int{1, 2, 100, 4095, 4096, 16384, 65535, 65536, 70000}
var readChunks = []int{1, 7, 100, 1000, 4096, 16384, 70000}
var writeSizes = []int{0, 1, 100, 4095, 4096, 4097, 16383, 16384, 16385, 65535, 65536, 65537, 100000}
var writeChunks = []int{1, 13, 512, 4096, 5000, 16384, 70000, 300000}
var initWindows = []int64{0, 1, 2, 100, 4096, 16384, 65535, 65536, 65537, 100000, 1 << 20}

func pickInt(g *vkit.Rand, xs []int) int     { return xs[g.Intn(len(xs))] }
func pickI64(g *vkit.Rand, xs []int64) int64 { return xs[g.Intn(len(xs))] }
func readChunkFor(g *vkit.Rand, n int) int {
	c := pickInt(g, readChunks)
	if c < 100 && n > 600 {
		c = 100 + g.Intn(900) // keep the number of Read calls (two WINDOW_UPDATEs each) bounded
	}
	return c
}

func writeStep(g *vkit.Rand, big bool) hStep {
	n := pickInt(g, writeSizes)
	if g.Chance(1, 3) {
		n = g.Intn(70000)
	}
	if big && g.Chance(1, 40) {
		n = 1 << 20
	}
	c := pickInt(g, writeChunks)
	if c < 100 && n > 3000 {
		c = 512 + g.Intn(4000)
	}
	if n >= 1<<20 && c < 4096 {
		c = 4096 + g.Intn(60000)
	}
	return hStep{Op: "write", N: n, Chunk: c, Flush: g.Chance(1, 3)}
}

// tail: what the handler does after its gated part.
func handlerTail(g *vkit.Rand, steps []hStep) []hStep {
	switch g.Intn(6) {
	case 0, 1, 2:
		steps = append(steps, hStep{Op: "readall", Chunk: readChunkFor(g, 70000)})
	case 3:
		steps = append(steps, hStep{Op: "closebody"})
	default: // stop early: return without reading the rest
	}
	if g.Chance(1, 4) {
		steps = append(steps, hStep{Op: "status", N: []int{200, 204, 404, 500}[g.Intn(4)]})
	}
	if g.Chance(2, 3) {
		steps = append(steps, hStep{Op: "write", N: g.Intn(300), Chunk: 64})
	}
	return steps
}

// uploadScript: a handler for the inbound flow-control scenario.
func uploadScript(g *vkit.Rand) *hScript {
	var st []hStep
	switch x := g.Intn(20); {
	case x < 10: // gated reads
		segs := 1 + g.Intn(3)
		for k := 0; k < segs; k++ {
			st = append(st, hStep{Op: "gate", N: k})
			n := pickInt(g, readSizes)
			if g.Bool() {
				n = 1 + g.Intn(66000)
			}
			st = append(st, hStep{Op: "read", N: n, Chunk: readChunkFor(g, n)})
		}
		st = append(st, hStep{Op: "gate", N: segs})
	case x < 14: // free running
	case x < 17: // never reads until released
		st = append(st, hStep{Op: "gate", N: 0})
	default: // returns at once
		return &hScript{Steps: []hStep{{Op: "write", N: g.Intn(300), Chunk: 64}}}
	}
	return &hScript{Steps: handlerTail(g, st)}
}

func nextGate(sc *hScript, opened map[int]int, tok int) (int, bool) {
	k := opened[tok]
	n := 0
	for _, st := range sc.Steps {
		if st.Op == "gate" {
			if n == k {
				return st.N, true
			}
			n++
		}
	}
	return 0, false
}

// genUpload: respecting uploads with frames exactly at / one over the window.
func genUpload(g *vkit.Rand, c *caseSpec) {
	c.Kind = "upload"
	nS := 1 + g.Intn(3)
	opened := map[int]int{}
	var ids []uint32
	for i := 0; i < nS; i++ {
		tok := i + 1
		id := uint32(2*i + 1)
		c.Scripts[tok] = uploadScript(g)
		ids = append(ids, id)
	}
	started := 0
	start := func() {
		tok := started + 1
		c.Ops = append(c.Ops, op{K: "syn", ID: ids[started], Tok: tok, N: int64(g.Intn(8))})
		started++
	}
	start()
	steps := 6 + g.Intn(20)
	dirtyDone := false
	for k := 0; k < steps; k++ {
		if started < nS && g.Chance(1, 3) {
			start()
			continue
		}
		i := g.Intn(started)
		id, tok := ids[i], i+1
		switch x := g.Intn(100); {
		case x < 38:
			n := int64(1 + g.Intn(70000))
			if g.Chance(1, 3) {
				n = int64(1 + g.Intn(3000))
			}
			c.Ops = append(c.Ops, op{K: "data", ID: id, N: n, Mode: "fit"})
		case x < 50:
			c.Ops = append(c.Ops, op{K: "settle", ID: id}, op{K: "data", ID: id, Mode: "fill"})
		case x < 56 && !dirtyDone:
			c.Ops = append(c.Ops, op{K: "settle", ID: id}, op{K: "data", ID: id, Mode: "over1"}, op{K: "sync"})
			dirtyDone = g.Chance(2, 3)
		case x < 61 && !dirtyDone:
			c.Ops = append(c.Ops, op{K: "data", ID: id, Mode: "ubover", N: int64(g.Intn(3) * g.Intn(5000))}, op{K: "sync"})
			dirtyDone = g.Chance(2, 3)
		case x < 78:
			if gate, ok := nextGate(c.Scripts[tok], opened, tok); ok {
				opened[tok]++
				c.Ops = append(c.Ops, op{K: "gate", Tok: tok, Gate: gate})
			}
		case x < 86:
			c.Ops = append(c.Ops, op{K: "sync"})
		case x < 90:
			c.Ops = append(c.Ops, op{K: "data", ID: id, Mode: "abs", N: 0})
		case x < 95:
			c.Ops = append(c.Ops, op{K: "data", ID: id, N: int64(g.Intn(5000)), Mode: "fit", Fin: true})
		case x < 97:
			c.Ops = append(c.Ops, op{K: "rst", ID: id, N: 5}, op{K: "sync"})
		default:
			c.Ops = append(c.Ops, op{K: "sync"})
		}
	}
}

// genStall: the shortest respecting upload that uses the session window up.
func genStall(g *vkit.Rand, c *caseSpec) {
	c.Kind = "upload-discard"
	nS := 1 + g.Intn(4)
	for i := 0; i < nS; i++ {
		tok, id := i+1, uint32(2*i+1)
		var st []hStep
		switch g.Intn(3) {
		case 0: // returns without reading
		case 1:
			st = append(st, hStep{Op: "read", N: g.Intn(3000), Chunk: 512})
		case 2:
			st = append(st, hStep{Op: "gate", N: 0}, hStep{Op: "closebody"})
		}
		st = append(st, hStep{Op: "write", N: g.Intn(100), Chunk: 64})
		c.Scripts[tok] = &hScript{Steps: st}
		c.Ops = append(c.Ops, op{K: "syn", ID: id, Tok: tok})
		n := int64(1 + g.Intn(70000))
		if g.Bool() {
			n = 65536
		}
		c.Ops = append(c.Ops, op{K: "data", ID: id, N: n, Mode: "fit", Fin: g.Bool()})
		if g.Bool() {
			c.Ops = append(c.Ops, op{K: "gate", Tok: tok, Gate: 0}, op{K: "waitdone", Tok: tok}, op{K: "sync"})
		}
	}
}

func downloadScript(g *vkit.Rand, post bool) *hScript {
	var st []hStep
	gate := 0
	if g.Chance(1, 3) {
		st = append(st, hStep{Op: "gate", N: gate})
		gate++
	}
	if post && g.Bool() {
		st = append(st, hStep{Op: "readall", Chunk: 1000})
	}
	if g.Chance(1, 5) {
		st = append(st, hStep{Op: "status", N: []int{200, 206, 404}[g.Intn(3)]})
	}
	nw := 1 + g.Intn(3)
	for k := 0; k < nw; k++ {
		st = append(st, writeStep(g, true))
		if g.Chance(1, 4) {
			st = append(st, hStep{Op: "gate", N: gate})
			gate++
		}
		if g.Chance(1, 6) {
			st = append(st, hStep{Op: "flush"})
		}
	}
	return &hScript{Steps: st}
}

// genDownload: handlers write, the client drip-feeds its windows.
func genDownload(g *vkit.Rand, c *caseSpec) {
	c.Kind = "download"
	if g.Chance(2, 3) {
		c.Ops = append(c.Ops, op{K: "settings", N: pickI64(g, initWindows)})
	}
	nS := 1 + g.Intn(4)
	opened := map[int]int{}
	for i := 0; i < nS; i++ {
		tok, id := i+1, uint32(2*i+1)
		post := g.Chance(1, 5)
		c.Scripts[tok] = downloadScript(g, post)
		c.Ops = append(c.Ops, op{K: "syn", ID: id, Tok: tok, Fin: !post, N: int64(g.Intn(8))})
		if post {
			c.Ops = append(c.Ops, op{K: "data", ID: id, N: int64(g.Intn(3000)), Mode: "fit", Fin: true})
		}
	}
	steps := 5 + g.Intn(28)
	overflowDone := false
	for k := 0; k < steps; k++ {
		i := g.Intn(nS)
		id, tok := uint32(2*i+1), i+1
		switch x := g.Intn(100); {
		case x < 30:
			d := []int64{1, 2, 100, 4096, 16384, 65536, 1 << 20}[g.Intn(7)]
			if g.Chance(1, 3) {
				d = int64(1 + g.Intn(70000))
			}
			c.Ops = append(c.Ops, op{K: "wu", ID: id, N: d})
		case x < 50:
			d := []int64{1, 100, 4096, 65536, 1 << 20}[g.Intn(5)]
			if g.Chance(1, 3) {
				d = int64(1 + g.Intn(70000))
			}
			c.Ops = append(c.Ops, op{K: "wu", ID: 0, N: d})
		case x < 62:
			c.Ops = append(c.Ops, op{K: "settings", N: pickI64(g, initWindows)})
		case x < 74:
			c.Ops = append(c.Ops, op{K: "sync"})
		case x < 86:
			if gate, ok := nextGate(c.Scripts[tok], opened, tok); ok {
				opened[tok]++
				c.Ops = append(c.Ops, op{K: "gate", Tok: tok, Gate: gate})
			}
		case x < 92:
			c.Ops = append(c.Ops, op{K: "rst", ID: id, N: 5}, op{K: "sync"})
			if g.Bool() {
				c.Ops = append(c.Ops, op{K: "wu", ID: 0, N: 1 << 20}, op{K: "sync"})
			}
		case x < 95 && !overflowDone:
			overflowDone = true
			c.Ops = append(c.Ops, op{K: "wu", ID: id, N: 1<<31 - 1}, op{K: "wu", ID: id, N: 1<<31 - 1}, op{K: "sync"})
		case x < 97 && !overflowDone:
			overflowDone = true
			c.Ops = append(c.Ops, op{K: "wu", ID: 0, N: 1<<31 - 1}, op{K: "wu", ID: 0, N: 1<<31 - 1}, op{K: "sync"})
		default:
			c.Ops = append(c.Ops, op{K: "sync"})
		}
	}
}

// genRules: a clean connection, then exactly one kind of rule breaking, so
// that the obligation is certain.
func genRules(g *vkit.Rand, c *caseSpec) {
	c.Kind = "rules"
	nS := 1 + g.Intn(3)
	var ids []uint32
	next := uint32(1)
	for i := 0; i < nS; i++ {
		tok := i + 1
		id := next
		next += 2 * uint32(1+g.Intn(2)) // sometimes skip an odd id
		ids = append(ids, id)
		post := g.Bool()
		var st []hStep
		st = append(st, hStep{Op: "gate", N: 0})
		if post {
			st = append(st, hStep{Op: "readall", Chunk: 777})
		}
		st = append(st, hStep{Op: "write", N: g.Intn(3000), Chunk: 1000})
		c.Scripts[tok] = &hScript{Steps: st}
		c.Ops = append(c.Ops, op{K: "syn", ID: id, Tok: tok, Fin: !post})
		if post && g.Bool() {
			c.Ops = append(c.Ops, op{K: "data", ID: id, N: int64(g.Intn(2000)), Mode: "fit", Fin: g.Bool()})
		}
	}
	c.Ops = append(c.Ops, op{K: "sync"})
	maxID := ids[len(ids)-1]
	pick := ids[g.Intn(len(ids))]
	badTok := 50
	c.Scripts[badTok] = &hScript{Steps: []hStep{{Op: "write", N: 10, Chunk: 10}}}
	small := int64(g.Intn(200))
	switch g.Intn(14) {
	case 0:
		c.Ops = append(c.Ops, op{K: "syn", ID: 0, Tok: badTok, Fin: true})
	case 1:
		c.Ops = append(c.Ops, op{K: "syn", ID: uint32(2 * (1 + g.Intn(5))), Tok: badTok, Fin: g.Bool()})
	case 2:
		if maxID > 1 {
			// decreasing: any odd id below the maximum, used before or not
			c.Ops = append(c.Ops, op{K: "syn", ID: uint32(1 + 2*g.Intn(int(maxID/2))), Tok: badTok, Fin: g.Bool()})
		} else {
			c.Ops = append(c.Ops, op{K: "syn", ID: maxID, Tok: badTok, Fin: g.Bool()})
		}
	case 3:
		c.Ops = append(c.Ops, op{K: "syn", ID: maxID, Tok: badTok, Fin: g.Bool()})
	case 4: // DATA on an id that was never opened
		id := maxID + 2*uint32(1+g.Intn(3))
		if g.Bool() {
			id = uint32(2 * (1 + g.Intn(5)))
		}
		c.Ops = append(c.Ops, op{K: "data", ID: id, N: small, Mode: "abs", Fin: g.Bool()})
	case 5: // DATA after our FIN
		c.Ops = append(c.Ops, op{K: "data", ID: pick, N: 0, Mode: "abs", Fin: true}, op{K: "data", ID: pick, N: small, Mode: "abs", Fin: g.Bool()})
	case 6: // DATA after our RST
		c.Ops = append(c.Ops, op{K: "rst", ID: pick, N: 5})
		if g.Bool() {
			c.Ops = append(c.Ops, op{K: "sync"})
		}
		c.Ops = append(c.Ops, op{K: "data", ID: pick, N: small, Mode: "abs", Fin: g.Bool()})
	case 7: // DATA after the server reset the stream (provoked by a malformed request)
		id := maxID + 2
		c.Ops = append(c.Ops, op{K: "syn", ID: id, Tok: badTok, Hdr: "nomethod"}, op{K: "sync"},
			op{K: "data", ID: id, N: small, Mode: "abs"})
	case 8: // DATA on stream 0
		c.Ops = append(c.Ops, op{K: "data", ID: 0, N: small, Mode: "abs"})
	case 9: // late HEADERS / SYN_REPLY on a closed stream
		c.Ops = append(c.Ops, op{K: "rst", ID: pick, N: 5}, op{K: "sync"})
		k := "headers"
		if g.Bool() {
			k = "synreply"
		}
		c.Ops = append(c.Ops, op{K: k, ID: pick, Fin: g.Bool()})
	case 10: // DATA after the stream completed normally
		id := maxID + 2
		c.Ops = append(c.Ops, op{K: "syn", ID: id, Tok: badTok, Fin: true}, op{K: "waitdone", Tok: badTok}, op{K: "sync"},
			op{K: "data", ID: id, N: small, Mode: "abs", Fin: g.Bool()})
		maxID = id
	case 11: // WINDOW_UPDATE overflow on a stream
		c.Ops = append(c.Ops, op{K: "wu", ID: pick, N: 1<<31 - 1})
	case 12: // WINDOW_UPDATE overflow on the session
		c.Ops = append(c.Ops, op{K: "wu", ID: 0, N: 1<<31 - 1})
	case 13: // a legal request after all that: must still be served
		c.Ops = append(c.Ops, op{K: "syn", ID: maxID + 2, Tok: badTok, Fin: true})
	}
	c.Ops = append(c.Ops, op{K: "sync"})
	// and some more traffic afterwards
	for k := g.Intn(4); k > 0; k-- {
		switch g.Intn(4) {
		case 0:
			c.Ops = append(c.Ops, op{K: "data", ID: pick, N: small, Mode: "abs"})
		case 1:
			c.Ops = append(c.Ops, op{K: "syn", ID: maxID + 4, Tok: badTok + 1 + k, Fin: true})
			c.Scripts[badTok+1+k] = &hScript{Steps: []hStep{{Op: "write", N: 5, Chunk: 5}}}
		case 2:
			c.Ops = append(c.Ops, op{K: "gate", Tok: 1, Gate: 0})
		case 3:
			c.Ops = append(c.Ops, op{K: "sync"})
		}
	}
}

// genChaos: random frames over stream ids 0..9.
func genChaos(g *vkit.Rand, c *caseSpec) {
	c.Kind = "chaos"
	if g.Chance(1, 5) {
		c.MaxStreams = 1 + g.Intn(3)
	}
	tok := 0
	steps := 8 + g.Intn(32)
	synced := map[uint32]int{}
	for k := 0; k < steps; k++ {
		id := uint32(g.Intn(10))
		switch x := g.Intn(100); {
		case x < 22:
			tok++
			var st []hStep
			if g.Chance(1, 3) {
				st = append(st, hStep{Op: "gate", N: 0})
			}
			if g.Bool() {
				n := pickInt(g, readSizes)
				st = append(st, hStep{Op: "read", N: n, Chunk: readChunkFor(g, n)})
			}
			if g.Chance(2, 3) {
				st = append(st, writeStep(g, false))
			}
			st = handlerTail(g, st)
			c.Scripts[tok] = &hScript{Steps: st}
			o := op{K: "syn", ID: id, Tok: tok, Fin: g.Chance(1, 3), N: int64(g.Intn(8))}
			if g.Chance(1, 10) {
				o.Hdr = []string{"nomethod", "head-body", "badpath", "badcl"}[g.Intn(4)]
			}
			if !o.Fin && g.Chance(1, 6) {
				o.CL = 1 + int64(g.Intn(5000))
			}
			synced[id] = tok
			c.Ops = append(c.Ops, o)
		case x < 50:
			mode := []string{"abs", "fit", "fit", "fill", "over1"}[g.Intn(5)]
			n := int64(g.Intn(70000))
			if g.Bool() {
				n = int64(g.Intn(2000))
			}
			c.Ops = append(c.Ops, op{K: "data", ID: id, N: n, Mode: mode, Fin: g.Chance(1, 4)})
		case x < 60:
			d := []int64{0, 1, 100, 65536, 1 << 20, 1<<31 - 1, 1 << 31, 1<<32 - 1}[g.Intn(8)]
			wid := id
			if g.Chance(1, 3) {
				wid = 0
			}
			c.Ops = append(c.Ops, op{K: "wu", ID: wid, N: d})
		case x < 68:
			c.Ops = append(c.Ops, op{K: "rst", ID: id, N: int64(g.Intn(12))})
		case x < 74:
			v := pickI64(g, initWindows)
			if g.Chance(1, 8) {
				v = []int64{1<<31 - 1, 1 << 31, 1<<32 - 1}[g.Intn(3)]
			}
			c.Ops = append(c.Ops, op{K: "settings", N: v})
		case x < 78:
			c.Ops = append(c.Ops, op{K: "ping", N: int64(g.Intn(8))})
		case x < 88:
			c.Ops = append(c.Ops, op{K: "sync"})
		case x < 92:
			if t, ok := synced[id]; ok {
				c.Ops = append(c.Ops, op{K: "gate", Tok: t, Gate: 0})
			}
		case x < 95:
			c.Ops = append(c.Ops, op{K: "headers", ID: id, Fin: g.Bool()})
		case x < 97:
			c.Ops = append(c.Ops, op{K: "synreply", ID: id, Fin: g.Bool()})
		case x < 98:
			c.Ops = append(c.Ops, op{K: "goaway", ID: id, N: int64(g.Intn(3))})
		case x < 99:
			c.Ops = append(c.Ops, op{K: "unknown", N: int64(10 + g.Intn(5))})
		default:
			c.Ops = append(c.Ops, op{K: "settle", ID: id})
		}
	}
}

// genResetReading: streams reset while their handlers are in the middle of
// reading the body. One stream after the other: the body is uploaded and
// acknowledged (gate = PING round trip, then the handler starts to read it in
// small pieces), and right behind the gate - no round trip in between - comes
// what ends the stream: the client's RST_STREAM, or one byte more than the
// declared Content-Length (the server resets the stream). The handler is
// somewhere in the body when the server tears the stream down; everything it
// had not read is discarded. Accounts checked: the usual ones (WINDOW_UPDATE
// sums against bytes sent/consumed, the server's final session windows).
func genResetReading(g *vkit.Rand, c *caseSpec) {
	c.Kind = "reset-reading"
	nS := 6 + g.Intn(15)
	for i := 0; i < nS; i++ {
		tok, id := i+1, uint32(2*i+1)
		chunk := []int{1, 2, 3, 5, 8, 13, 25, 50, 100}[g.Intn(9)]
		size := int64(chunk * (40 + g.Intn(200)))
		if size > 2600 {
			size = 2600 // 20 streams stay within the initial session window even if nothing were given back
		}
		c.Scripts[tok] = &hScript{Steps: []hStep{{Op: "gate", N: 0}, {Op: "readall", Chunk: chunk}}}
		srvReset := g.Chance(1, 4)
		syn := op{K: "syn", ID: id, Tok: tok, N: int64(g.Intn(8))}
		if srvReset {
			syn.CL = size + 1
		}
		c.Ops = append(c.Ops, syn, op{K: "data", ID: id, N: size, Mode: "abs"}, op{K: "gate", Tok: tok, Gate: 0})
		if srvReset {
			c.Ops = append(c.Ops, op{K: "data", ID: id, N: 1, Mode: "abs"})
		} else {
			c.Ops = append(c.Ops, op{K: "rst", ID: id, N: 5})
		}
		c.Ops = append(c.Ops, op{K: "sync"})
	}
}

// genStaged: the staged cases that follow the seeded mix (indices >= the tier's
// case count); idx counts from 0.
func genStaged(r *vkit.Run, idx, caseIdx int) *caseSpec {
	g := r.Rng("case-reset-reading", idx)
	c := &caseSpec{Idx: caseIdx, MaxStreams: 200, Scripts: map[int]*hScript{}, Transport: "pipe"}
	if g.Chance(1, 5) {
		c.Transport = "tcp"
	}
	genResetReading(g, c)
	return c
}

func genCase(r *vkit.Run, idx int) *caseSpec {
	g := r.Rng("case", idx)
	c := &caseSpec{Idx: idx, MaxStreams: 200, Scripts: map[int]*hScript{}, Transport: "pipe"}
	if g.Chance(1, 5) {
		c.Transport = "tcp"
	}
	switch x := g.Intn(100); {
	case x < 28:
		genUpload(g, c)
	case x < 36:
		genStall(g, c)
	case x < 62:
		genDownload(g, c)
	case x < 82:
		genRules(g, c)
	default:
		genChaos(g, c)
	}
	return c
}
