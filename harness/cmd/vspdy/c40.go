package main

import (
	"fmt"
	"os"
	"runtime"
	"runtime/debug"
	"sort"
	"strings"
	"sync"
	"sync/atomic"
	"time"

	"github.com/bfenetworks/bfe/bfe_spdy"

	"verifharness/spdycli"
	"verifharness/vkit"
)

// C40: the SPDY server never accepts more DATA than its advertised windows,
// replenishes them by consumed bytes, never sends more than the client's
// windows allow, rejects invalid stream ids and frames for closed streams, and
// never panics on any client frame sequence.

type c40Witness struct {
	Spec     *caseSpec      `json:"spec"`
	Log      []string       `json:"log_tail"`
	Handlers map[int]string `json:"handlers"`
	End      interface{}    `json:"server_end_state,omitempty"`
}

func logTail(l []spdycli.Event, n int) []string {
	if len(l) > n {
		l = l[len(l)-n:]
	}
	out := make([]string, len(l))
	for i, e := range l {
		out[i] = e.String()
	}
	return out
}

var (
	inflightMu   sync.Mutex
	inflight     = map[int]bool{}
	inconclCases []interface{}
)

func c40WriteAhead(r *vkit.Run, idx int, start bool) {
	inflightMu.Lock()
	if !start {
		delete(inflight, idx)
		inflightMu.Unlock()
		return
	}
	inflight[idx] = true
	var ids []int
	for i := range inflight {
		ids = append(ids, i)
	}
	sort.Ints(ids)
	r.WriteAhead(map[string]interface{}{"inflight_case_indices": ids, "note": "regenerate with genCase(seed, idx); idx >= the tier's case count: genStaged(seed, idx-count, idx); idx >= count+count/20+1: genBodyCloseCase(seed, idx-count-count/20-1, idx)"})
	inflightMu.Unlock()
}

func c40Report(r *vkit.Run, spec *caseSpec, res *caseResult) {
	for _, v := range res.Viol {
		r.Violation(v.Sig, v.What, c40Witness{Spec: spec, Log: logTail(res.Log, 60), Handlers: res.HandlerInfo, End: res.EndState})
	}
	for k, v := range res.Obs {
		r.Count(k, v)
	}
	r.Count("cases_"+spec.Kind, 1)
	r.Count("transport_"+spec.Transport, 1)
	if res.Inconcl != "" {
		r.Count("cases_inconclusive", 1)
		r.Count("inconclusive:"+res.Inconcl, 1)
	}
	r.CaseS(spec.key(), res.Nontrivial)
	if r.WantSample() && res.Nontrivial && len(spec.Ops) < 12 {
		r.Sample(map[string]interface{}{"spec": spec, "log": logTail(res.Log, 30)})
	}
}

func c40(r *vkit.Run) {
	r.SetRule("one case = one SPDY/3.1 connection (net.Pipe, 1 in 5 loopback TCP) served by bfe_spdy's handleConn+serve; a scripted client " +
		"(spdycli) plays a seeded script of six kinds: respecting uploads to gated handlers with DATA exactly at / one over / far over the " +
		"advertised windows; uploads whose handlers discard the body; downloads (handlers write 0..1MB in random chunks) with drip-fed " +
		"WINDOW_UPDATEs, SETTINGS initial-window shrink/growth, resets and window overflows; one targeted stream-rule break on a clean " +
		"connection (SYN_STREAM id 0/even/decreasing/reused, DATA on never-opened/half-closed/reset/finished streams and stream 0, late " +
		"HEADERS/SYN_REPLY, WINDOW_UPDATE overflow); random frame sequences over stream ids 0..9; and, after the seeded mix and one connection at a time, " +
		"case-count/20+1 staged connections of 6..20 uploads each reset (client RST_STREAM, or one byte beyond Content-Length) right behind the gate that lets " +
		"its handler start reading the buffered body in 1..100-byte pieces; then 30 (thorough 300) staged body-close connections of 5..10 upload streams, one after the other: " +
		"0..3000 body bytes, a PING round trip, the handler {closes the body and waits at a gate with the stream open | reads part of the buffered body, closes it and waits | closes the body, answers, returns | " +
		"answers without reading | panics}, the client waits for that handler state (handler-side flag, only shapes the workload), sends DATA of {1 byte | 2..5000 | all its view of the windows allows}, sometimes a second " +
		"frame right behind, and a PING as barrier; an episode is counted only if the flag was verified before the DATA went out, and the run is inconclusive if any of the five behaviours, three sizes or the " +
		"DATA-after-body-close-on-an-open-stream shape never occurred; at the end of such a connection (every stream finished or reset, every handler returned, final PING answered, client never beyond its view of a window) " +
		"the client's session window 65536 - DATA sent + sum of WINDOW_UPDATE(0) must be back at 65536: bytes the server took but did not deliver are returned to the session window " +
		"(session-window-not-replenished:data-after-body-close:<behaviour of the first episode behind whose barrier bytes were missing>; above 65536 is the over-replenished check). The client model (written from the " +
		"SPDY/3.1 draft) classifies each sent frame as must-reject / certainly-accepted / either-way using timing-independent bounds " +
		"(handlers only progress through gates the script opens); only must-reject frames create obligations (RST_STREAM/GOAWAY/close " +
		"before the next answered PING, never delivered to a handler), received DATA is checked against the client's own windows and the " +
		"handler's byte stream, WINDOW_UPDATE sums against consumed bytes at stream FIN and at quiescence and against bytes sent whenever one arrives, the server's final session " +
		"windows (verif accessor) against the client's account and its receive window against the initial 65536 (credits never exceed received DATA); serve-goroutine panics, stuck handlers and a goroutine census are checked " +
		"too. Non-trivial = at least one must-reject/certain/conservation/outbound-window check was evaluated; distinct = canonical JSON of (kind, transport, handler scripts, ops)")
	r.Assume("the client uses bfe_spdy's exported Framer as codec (frame parsing, zlib header blocks); the framer itself is property C39")
	r.Assume("server side entered through the verif accessor VerifServeConn (handleConn+serve on a plain net.Conn, no TLS)")
	r.Assume("liveness verdicts (stall) only after 20 s without progress plus two answered PINGs; all other verdicts are timing independent")

	bfe_spdy.VerifEnableState()
	debug.SetGCPercent(400) // connections are allocation heavy (zlib contexts); memory is not a concern here
	base, _ := spdyGoroutines()

	if r.Replay != "" {
		var w c40Witness
		if err := r.LoadReplay(&w); err != nil || w.Spec == nil {
			r.Inconclusive(fmt.Sprintf("cannot load replay: %v", err))
			return
		}
		attempts := 20 // schedules differ: try a few times
		if w.Spec.Kind == "reset-reading" {
			attempts = 300 // short connections whose point is a window of a few microseconds in the serve goroutine
		}
		for i := 0; i < attempts && r.Violations() == 0; i++ {
			res := runCase(w.Spec)
			c40Report(r, w.Spec, res)
		}
		c40Epilogue(r, base)
		r.SetMinDistinct(0)
		return
	}

	n := r.N(4000, 40000)
	if v := os.Getenv("VSPDY_N"); v != "" { // monitor self-tests (mutants) only: a prefix of the tier's case list
		fmt.Sscan(v, &n)
	}
	one := func(i int, spec *caseSpec) {
		c40WriteAhead(r, i, true)
		res := runCase(spec)
		c40WriteAhead(r, i, false)
		if res.Inconcl != "" {
			inflightMu.Lock()
			if len(inconclCases) < 4 {
				inconclCases = append(inconclCases, map[string]interface{}{"why": res.Inconcl, "spec": spec, "log": logTail(res.Log, 40), "handlers": res.HandlerInfo})
			}
			inflightMu.Unlock()
		}
		c40Report(r, spec, res)
	}
	vkit.Parallel(n, 2*runtime.NumCPU(), func(i int) { one(i, genCase(r, i)) })
	// Staged cases after the seeded mix: streams reset under a reading handler
	// (genResetReading). One connection at a time: with idle processors the
	// handler goroutine and the serve goroutine of the connection really run
	// side by side, which is what these cases are about (with every processor
	// busy a handler released by the serve loop only runs once that loop parks).
	staged := n/20 + 1
	vkit.Parallel(staged, 1, func(i int) { one(n+i, genStaged(r, i, n+i)) })
	// Staged body-close cases (c40close.go): DATA sent after the handler closed
	// the request body / returned / aborted; nothing here depends on a race, so
	// several connections at a time.
	nbc := bodyCloseCount(r)
	vkit.Parallel(nbc, runtime.NumCPU()/2, func(i int) { one(n+staged+i, genBodyCloseCase(r, i, n+staged+i)) })
	if len(inconclCases) > 0 {
		r.Extra("inconclusive_cases", inconclCases)
	}
	c40Epilogue(r, base)

	// outcomes the workload is supposed to reach
	for _, k := range []string{
		"data_certainly_accepted", "data_exactly_at_window", "data_over_window_stream", "data_over_window_session",
		"data_on_closed_never-opened", "data_on_closed_after-client-fin", "data_on_closed_after-client-rst", "data_on_closed_after-server-rst", "data_on_stream_0",
		"syn_invalid_zero", "syn_invalid_even", "syn_invalid_decreasing", "syn_invalid_reused", "syn_valid",
		"wu_overflow_stream", "wu_overflow_session",
		"stream_conservation_checked", "session_conservation_checked", "send_window_accounting_checked", "stall_check_evaluated",
		"cases_with_outbound_data", "client_rst_acked_streams", "responses_complete", "handlers_invoked", "reset_while_handler_reading",
	} {
		if r.Counter(k) == 0 {
			r.Inconclusive("the workload never reached outcome " + k)
		}
	}
	for _, k := range bodyCloseOutcomes {
		if r.Counter(k) == 0 {
			r.Inconclusive("the body-close cases never reached outcome " + k)
		}
	}
	if inc := r.Counter("cases_inconclusive"); inc*50 > int64(n+staged) {
		r.Inconclusive(fmt.Sprintf("%d of %d cases hit a harness time limit", inc, n+staged))
	}
}

// c40Epilogue: process-wide checks after all connections are over.
func c40Epilogue(r *vkit.Run, base int) {
	for _, p := range bfe_spdy.VerifPanics() {
		st := p.Stack
		if i := strings.Index(st, "\npanic("); i >= 0 { // drop the frames of the recording hook itself
			st = st[i:]
		}
		r.Violation(vkit.PanicSig([]byte(st)), "serve goroutine panicked: "+p.Value,
			map[string]interface{}{"conn": p.Remote, "panic": p.Value, "stack": p.Stack})
	}
	st := bfe_spdy.GetSpdyState()
	r.Count("state_SpdyPanicConn", st.SpdyPanicConn.Get())
	r.Count("state_SpdyPanicStream", st.SpdyPanicStream.Get())
	r.Count("state_SpdyErrFlowControl", st.SpdyErrFlowControl.Get())
	r.Count("state_SpdyErrInvalidSynStream", st.SpdyErrInvalidSynStream.Get())
	r.Count("state_SpdyErrInvalidDataStream", st.SpdyErrInvalidDataStream.Get())
	r.Count("state_SpdyErrStreamAlreadyClosed", st.SpdyErrStreamAlreadyClosed.Get())
	if n := st.SpdyPanicConn.Get(); n != 0 && len(bfe_spdy.VerifPanics()) == 0 {
		r.Violation("never-panics:SpdyPanicConn", fmt.Sprintf("SpdyPanicConn counter is %d", n), nil)
	}
	scripted := atomic.LoadInt64(&scriptedPanics)
	r.Count("scripted_handler_panics", scripted)
	if n := st.SpdyPanicStream.Get(); n != scripted {
		r.Violation("never-panics:SpdyPanicStream", fmt.Sprintf("a handler goroutine panicked inside bfe_spdy (SpdyPanicStream=%d); the harness handlers panicked %d times by themselves (scripted \"panic\" steps of the body-close cases)", n, scripted), nil)
	}
	// goroutine census: nothing of bfe_spdy may be left once every connection is over
	var left int
	var stacks string
	for i := 0; i < 2000; i++ {
		left, stacks = spdyGoroutines()
		if left <= base {
			break
		}
		time.Sleep(5 * time.Millisecond)
	}
	r.Count("census_goroutines_left", int64(left-base))
	if left > base {
		r.Violation("never-panics:goroutine-left-behind", fmt.Sprintf("%d goroutine(s) still inside bfe_spdy 10 s after the last connection ended", left-base),
			map[string]interface{}{"stacks": stacks})
	}
}
