// vspdy decides C40 (SPDY server stream and flow-control rules) with a
// scripted SPDY/3.1 client against bfe_spdy's server connection.
package main

import (
	"fmt"
	"os"

	"verifharness/vkit"
)

func main() {
	r := vkit.Start("exploration")
	switch r.Prop {
	case "C40":
		c40(r)
	default:
		fmt.Fprintln(os.Stderr, "vspdy: unknown property", r.Prop)
		os.Exit(vkit.ExitInconclusive)
	}
	r.Finish()
}
