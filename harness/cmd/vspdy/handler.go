package main

// Request handlers driven by per-stream scripts. A handler only blocks in
// bfe's Body.Read / ResponseWriter.Write or at a gate the client script opens,
// so the harness always knows an upper bound of what a handler can have
// consumed and whether it can have returned.

import (
	"bytes"
	"fmt"
	"io"
	"math"
	"strconv"
	"strings"
	"sync"
	"sync/atomic"

	http "github.com/bfenetworks/bfe/bfe_http"
)

// scriptedPanics counts the handler panics the scripts asked for ("panic" step).
var scriptedPanics int64

// hStep is one step of a handler script.
type hStep struct {
	Op    string `json:"op"`              // read | readall | gate | write | status | closebody | flush | panic
	N     int    `json:"n,omitempty"`     // read: bytes; write: bytes; status: code; gate: gate number
	Chunk int    `json:"chunk,omitempty"` // read buffer / write chunk size
	Flush bool   `json:"flush,omitempty"` // write: Flush after every chunk
}

type hScript struct {
	Steps []hStep `json:"steps"`
}

func (s *hScript) writeTotal() int64 {
	var n int64
	for _, st := range s.Steps {
		if st.Op == "write" {
			n += int64(st.N)
		}
	}
	return n
}

type hRec struct {
	invoked  int
	pos      int // index of the step being executed
	consumed int64
	written  int64
	readErr  string
	writeErr string
	corrupt  bool
	done     bool
	// Body.Close() has returned (body-close cases, see c40close.go)
	bodyClosed bool
}

// caseServer is the handler side of one connection.
type caseServer struct {
	mu      sync.Mutex
	scripts map[int]*hScript
	recs    map[int]*hRec
	gates   map[[2]int]chan struct{}
	opened  map[[2]int]bool
	abort   chan struct{}
	aborted bool
	running int
	unknown int // requests whose path carries no known token
	wake    func()
}

func newCaseServer(scripts map[int]*hScript) *caseServer {
	cs := &caseServer{scripts: scripts, recs: map[int]*hRec{}, gates: map[[2]int]chan struct{}{},
		opened: map[[2]int]bool{}, abort: make(chan struct{})}
	for tok, sc := range scripts {
		cs.recs[tok] = &hRec{}
		for _, st := range sc.Steps {
			if st.Op == "gate" {
				cs.gates[[2]int{tok, st.N}] = make(chan struct{})
			}
		}
	}
	return cs
}

// Body bytes are position dependent and differ per stream so that reordering,
// duplication, loss and cross-stream mix-ups are all visible. Both patterns
// have period patPeriod, so bodies are produced and checked by block copies.
const patPeriod = 1 << 16

func reqByte(tok int, off int64) byte  { return byte(off*131 + int64(tok)*29 + off>>8 + 7) }
func respByte(tok int, off int64) byte { return byte(off*73 + int64(tok)*41 + off>>7 + 3) }

var (
	patMu    sync.Mutex
	patCache = map[[2]int][]byte{} // (kind, tok) -> 2*patPeriod bytes, so any window of <= patPeriod bytes is contiguous
)

func patTable(kind, tok int) []byte {
	patMu.Lock()
	defer patMu.Unlock()
	k := [2]int{kind, tok}
	if t := patCache[k]; t != nil {
		return t
	}
	t := make([]byte, 2*patPeriod)
	for i := range t {
		if kind == 0 {
			t[i] = reqByte(tok, int64(i))
		} else {
			t[i] = respByte(tok, int64(i))
		}
	}
	patCache[k] = t
	return t
}

// fillPat writes pattern bytes off.. into p.
func fillPat(kind, tok int, off int64, p []byte) {
	t := patTable(kind, tok)
	for len(p) > 0 {
		o := int(off % patPeriod)
		n := copy(p, t[o:o+patPeriod])
		p = p[n:]
		off += int64(n)
	}
}

// equalPat reports whether p equals pattern bytes off.. .
func equalPat(kind, tok int, off int64, p []byte) bool {
	t := patTable(kind, tok)
	for len(p) > 0 {
		o := int(off % patPeriod)
		n := len(p)
		if n > patPeriod {
			n = patPeriod
		}
		if !bytes.Equal(p[:n], t[o:o+n]) {
			return false
		}
		p = p[n:]
		off += int64(n)
	}
	return true
}

func (cs *caseServer) openGate(tok, k int) {
	cs.mu.Lock()
	key := [2]int{tok, k}
	ch := cs.gates[key]
	if ch != nil && !cs.opened[key] {
		cs.opened[key] = true
		close(ch)
	}
	cs.mu.Unlock()
}

func (cs *caseServer) openAllGates() {
	cs.mu.Lock()
	for key, ch := range cs.gates {
		if !cs.opened[key] {
			cs.opened[key] = true
			close(ch)
		}
	}
	cs.mu.Unlock()
}

func (cs *caseServer) abortAll() {
	cs.mu.Lock()
	if !cs.aborted {
		cs.aborted = true
		close(cs.abort)
	}
	cs.mu.Unlock()
}

func (cs *caseServer) runningHandlers() int {
	cs.mu.Lock()
	defer cs.mu.Unlock()
	return cs.running
}

func (cs *caseServer) invokedCount(tok int) int {
	cs.mu.Lock()
	defer cs.mu.Unlock()
	if r := cs.recs[tok]; r != nil {
		return r.invoked
	}
	return 0
}

func (cs *caseServer) corrupt(tok int) bool {
	cs.mu.Lock()
	defer cs.mu.Unlock()
	r := cs.recs[tok]
	return r != nil && r.corrupt
}

// ---- spdycli.HandlerView ----------------------------------------------------

func (cs *caseServer) Consumed(tok int) int64 {
	cs.mu.Lock()
	defer cs.mu.Unlock()
	if r := cs.recs[tok]; r != nil {
		return r.consumed
	}
	return 0
}

func (cs *caseServer) ReadBudget(tok int) int64 {
	cs.mu.Lock()
	defer cs.mu.Unlock()
	sc := cs.scripts[tok]
	if sc == nil {
		return 0
	}
	var n int64
	for _, st := range sc.Steps {
		switch st.Op {
		case "gate":
			if !cs.opened[[2]int{tok, st.N}] {
				return n
			}
		case "read":
			n += int64(st.N)
		case "readall":
			return math.MaxInt64 / 4
		}
	}
	return n
}

func (cs *caseServer) CannotFinish(tok int) bool {
	cs.mu.Lock()
	defer cs.mu.Unlock()
	sc, r := cs.scripts[tok], cs.recs[tok]
	if sc == nil || r == nil || r.done || cs.aborted {
		return false
	}
	for i := r.pos; i < len(sc.Steps); i++ {
		if st := sc.Steps[i]; st.Op == "gate" && !cs.opened[[2]int{tok, st.N}] {
			return true
		}
	}
	return false
}

// MaxRead: the handler's Read calls ask for chunk..chunk+2 bytes (see ServeHTTP).
func (cs *caseServer) MaxRead(tok int) int64 {
	var m int64
	if sc := cs.scripts[tok]; sc != nil {
		for _, st := range sc.Steps {
			if st.Op != "read" && st.Op != "readall" {
				continue
			}
			c := int64(st.Chunk)
			if c <= 0 {
				c = 4096
			}
			if c+2 > m {
				m = c + 2
			}
		}
	}
	return m
}

func (cs *caseServer) WriteTotal(tok int) int64 {
	if sc := cs.scripts[tok]; sc != nil {
		return sc.writeTotal()
	}
	return 0
}

func (cs *caseServer) Done(tok int) (bool, int64, int64, bool) {
	cs.mu.Lock()
	defer cs.mu.Unlock()
	r := cs.recs[tok]
	if r == nil {
		return false, 0, 0, false
	}
	clean := r.writeErr == "" && (r.readErr == "" || r.readErr == "EOF")
	return r.done, r.consumed, r.written, clean
}

func (cs *caseServer) RespByte(tok int, off int64) byte { return respByte(tok, off) }

// RespEqual reports whether p equals the response body of tok at off.
func (cs *caseServer) RespEqual(tok int, off int64, p []byte) bool { return equalPat(1, tok, off, p) }

// ---- the handler --------------------------------------------------------------

func tokenOfPath(p string) (int, bool) {
	if !strings.HasPrefix(p, "/t/") {
		return 0, false
	}
	n, err := strconv.Atoi(p[3:])
	return n, err == nil
}

func (cs *caseServer) ServeHTTP(w http.ResponseWriter, r *http.Request) {
	tok, ok := tokenOfPath(r.URL.Path)
	cs.mu.Lock()
	sc, rec := cs.scripts[tok], cs.recs[tok]
	if !ok || sc == nil {
		cs.unknown++
		cs.mu.Unlock()
		return
	}
	rec.invoked++
	first := rec.invoked == 1
	cs.running++
	cs.mu.Unlock()
	defer func() {
		cs.mu.Lock()
		cs.running--
		if first {
			rec.done = true
		}
		wake := cs.wake
		cs.mu.Unlock()
		if wake != nil {
			wake()
		}
	}()
	if !first {
		return // a second invocation for one SYN_STREAM is reported by the monitor
	}
	var rbuf []byte
	var wbuf []byte
	for i, st := range sc.Steps {
		cs.mu.Lock()
		rec.pos = i
		cs.mu.Unlock()
		switch st.Op {
		case "gate":
			select {
			case <-cs.gates[[2]int{tok, st.N}]:
			case <-cs.abort:
				return
			}
		case "read", "readall":
			want := int64(st.N)
			if st.Op == "readall" {
				want = math.MaxInt64
			}
			chunk := st.Chunk
			if chunk <= 0 {
				chunk = 4096
			}
			var got int64
			for got < want {
				sz := int64(chunk + int(got%3)) // odd, varying sizes
				if sz > want-got {
					sz = want - got
				}
				if int64(cap(rbuf)) < sz {
					rbuf = make([]byte, sz)
				}
				n, err := r.Body.Read(rbuf[:sz])
				cs.mu.Lock()
				off := rec.consumed
				cs.mu.Unlock()
				ok := equalPat(0, tok, off, rbuf[:n])
				cs.mu.Lock()
				if !ok {
					rec.corrupt = true
				}
				rec.consumed += int64(n)
				if err != nil {
					if err == io.EOF {
						rec.readErr = "EOF"
					} else {
						rec.readErr = err.Error()
					}
				}
				cs.mu.Unlock()
				got += int64(n)
				if err != nil {
					if err != io.EOF {
						return // stream or connection is gone
					}
					break
				}
			}
		case "write":
			chunk := st.Chunk
			if chunk <= 0 {
				chunk = 4096
			}
			left := st.N
			for left > 0 {
				sz := chunk
				if sz > left {
					sz = left
				}
				if cap(wbuf) < sz {
					wbuf = make([]byte, sz)
				}
				cs.mu.Lock()
				off := rec.written
				cs.mu.Unlock()
				fillPat(1, tok, off, wbuf[:sz])
				n, err := w.Write(wbuf[:sz])
				cs.mu.Lock()
				rec.written += int64(n)
				if err != nil {
					rec.writeErr = err.Error()
				}
				cs.mu.Unlock()
				if err != nil {
					return
				}
				left -= sz
				if st.Flush {
					if f, ok := w.(http.Flusher); ok {
						f.Flush()
					}
				}
			}
		case "status":
			w.WriteHeader(st.N)
		case "flush":
			if f, ok := w.(http.Flusher); ok {
				f.Flush()
			}
		case "closebody":
			r.Body.Close()
			cs.mu.Lock()
			rec.bodyClosed = true
			wake := cs.wake
			cs.mu.Unlock()
			if wake != nil {
				wake()
			}
		case "panic":
			// a handler that aborts: bfe_spdy recovers it (SpdyPanicStream) and
			// drops the stream; counted so that the epilogue can tell scripted
			// panics from panics inside bfe_spdy
			atomic.AddInt64(&scriptedPanics, 1)
			panic("harness: scripted handler panic")
		default:
			panic(fmt.Sprintf("harness: unknown handler step %q", st.Op))
		}
	}
}
