package main

// c40close.go: staged "body-close" cases of C40. Class: DATA the server takes
// off the wire but does not deliver to a handler must still be returned to the
// SESSION window ("replenishes them by consumed bytes": the client debited its
// copy of the session window when it sent the frame).
//
// One connection = 5..10 upload streams, one after the other. Each stream is
// one episode: SYN_STREAM, 0..3000 body bytes, gate 0 (PING round trip, then
// the handler starts), the handler behaves in one of five ways
//
//	close-hold       Body.Close(), then waits at gate 1: stream stays open
//	read-close-hold  reads part of the buffered body, Body.Close(), waits at gate 1
//	close-answer     Body.Close(), writes a small answer, returns
//	answer-noread    writes a small answer, returns (body never touched)
//	panic            aborts (bfe_spdy recovers it and drops the stream)
//
// the client waits until the handler really is there (handler-side flag, not a
// verdict), sends DATA of 1 byte / 2..5000 bytes / all that its view of the
// windows allows (sometimes a second frame right behind), a PING as barrier,
// and goes on with the next stream. The client never exceeds its own view of
// either window (modes fit/fill), so it is a respecting client by construction.
//
// Oracle (end of the connection, every stream finished or reset, every handler
// returned, final PING answered, connection not tainted): the session window as
// the client sees it, 65536 - DATA sent + sum of WINDOW_UPDATE(0), is back at
// 65536. "Never above" is the existing over-replenished check.

import (
	"fmt"

	"verifharness/spdycli"
	"verifharness/vkit"
)

var bcShapes = []string{"close-hold", "read-close-hold", "close-answer", "answer-noread", "panic"}
var bcSizes = []string{"one", "mid", "fill"}

func bcHold(shape string) bool { return shape == "close-hold" || shape == "read-close-hold" }

// bcEpisode is what the script recorded about one stream of a body-close case.
type bcEpisode struct {
	Shape      string `json:"shape"`
	Size       string `json:"size"`
	ID         uint32 `json:"id"`
	Verified   bool   `json:"handler_state_verified"` // the handler was where the shape wants it before the DATA went out
	SentAtMark int64  `json:"sent_at_mark"`
	PostBytes  int64  `json:"post_bytes"`
	LeakAfter  int64  `json:"leak_after"` // DATA sent - WINDOW_UPDATE(0) sum at the barrier behind the episode
}

type bcState struct {
	Episodes []*bcEpisode
}

func (cs *caseServer) bodyState(tok int) (closed, done bool) {
	cs.mu.Lock()
	defer cs.mu.Unlock()
	if r := cs.recs[tok]; r != nil {
		return r.bodyClosed, r.done
	}
	return false, false
}

// bodyCloseOp executes the two script ops of this family.
//
//	bcmark: wait (shapes the workload only) until the handler has closed the
//	        body / has returned, and record whether it really had;
//	bcend:  behind the PING barrier of the episode: count the shape.
func bodyCloseOp(conn *spdycli.Conn, model *spdycli.Model, cs *caseServer, o op, bc *bcState) {
	hold := bcHold(o.Mode)
	switch o.K {
	case "bcmark":
		conn.WaitUntil(waitShort, func() bool {
			if model.Dead() {
				return true
			}
			closed, done := cs.bodyState(o.Tok)
			if hold {
				return closed
			}
			return done
		})
		conn.Locked(func() {
			closed, done := cs.bodyState(o.Tok)
			ep := &bcEpisode{Shape: o.Mode, Size: o.Hdr, ID: o.ID}
			bc.Episodes = append(bc.Episodes, ep)
			s := model.Stream(o.ID)
			if s == nil || model.Dead() || s.SrvRst || s.ClientRst || s.ClientFin {
				return
			}
			ep.SentAtMark = s.Sent
			switch {
			case hold:
				// body closed, handler parked at a gate only the script opens,
				// no final frame of the server seen: the stream is open
				ep.Verified = closed && !done && !s.SrvFin && cs.CannotFinish(o.Tok)
			case o.Mode == "close-answer":
				ep.Verified = closed && done
			default:
				ep.Verified = done
			}
			if !ep.Verified {
				model.Obs["bodyclose_handler_state_not_reached"]++
			}
		})
	case "bcend":
		conn.Locked(func() {
			var ep *bcEpisode
			for _, e := range bc.Episodes {
				if e.ID == o.ID {
					ep = e
				}
			}
			if ep == nil {
				return
			}
			ep.LeakAfter = model.DataSent() - model.WU0Recv()
			s := model.Stream(o.ID)
			if s == nil {
				return
			}
			ep.PostBytes = s.Sent - ep.SentAtMark
			if !ep.Verified || ep.PostBytes <= 0 {
				model.Obs["bodyclose_episode_without_post_data"]++
				return
			}
			model.Obs["bodyclose_shape_"+ep.Shape]++
			model.Obs["bodyclose_size_"+ep.Size]++
			model.Obs["bodyclose_post_data_bytes"] += ep.PostBytes
			if hold {
				model.Obs["bodyclose_data_after_close_on_open_stream"]++
				if s.SrvRst {
					model.Obs["bodyclose_open_stream_data_refused_by_rst"]++
				}
			} else {
				model.Obs["bodyclose_data_after_handler_ended"]++
			}
		})
	}
}

// bodyCloseFinish: the end-state check of the family (log lock held).
func bodyCloseFinish(spec *caseSpec, model *spdycli.Model, healthy, allDone bool, bc *bcState, res *caseResult) {
	if spec.Kind != "body-close" {
		return
	}
	if !healthy || !allDone || model.ConnTainted != "" || model.FCDirtyConn != "" {
		res.Obs["bodyclose_end_check_skipped"]++
		return
	}
	for _, s := range model.Streams() {
		if !(s.SrvFin || s.SrvRst || s.ClientRst) {
			res.Obs["bodyclose_end_check_skipped"]++
			return
		}
	}
	res.Obs["bodyclose_session_return_checked"]++
	leak := model.DataSent() - model.WU0Recv()
	if leak == 0 {
		res.Obs["bodyclose_session_window_back_at_initial"]++
	}
	if leak <= 0 {
		return // above the initial value: inbound:session-window-over-replenished (Model.Finish)
	}
	shape, detail := "unattributed", ""
	var prev int64
	for _, e := range bc.Episodes {
		if e.LeakAfter > prev {
			if shape == "unattributed" {
				shape = e.Shape
			}
			detail += fmt.Sprintf(" stream %d (%s, %d bytes of DATA after that point, size class %s): %d bytes missing behind its PING barrier;",
				e.ID, e.Shape, e.PostBytes, e.Size, e.LeakAfter-prev)
		}
		prev = e.LeakAfter
	}
	res.Viol = append(res.Viol, spdycli.Violation{
		Sig: "session-window-not-replenished:data-after-body-close:" + shape,
		What: fmt.Sprintf("every stream is finished or reset, every handler has returned and the final PING is answered, yet the session window as the client sees it is %d instead of %d: %d DATA bytes were sent, all within the advertised windows, WINDOW_UPDATE(0) sum to %d; %d bytes the server took but did not deliver were never given back.%s",
			model.ViewConn(), int64(spdycli.DefaultWindow), model.DataSent(), model.WU0Recv(), leak, detail)})
}

// genBodyClose: see the head of this file.
func genBodyClose(g *vkit.Rand, c *caseSpec) {
	c.Kind = "body-close"
	nS := 5 + g.Intn(6)
	s0, z0 := g.Intn(len(bcShapes)), g.Intn(len(bcSizes))
	for i := 0; i < nS; i++ {
		tok, id := i+1, uint32(2*i+1)
		shape := bcShapes[(s0+i)%len(bcShapes)]
		if g.Chance(1, 4) {
			shape = bcShapes[g.Intn(2)] // more of the open-stream shapes
		}
		size := bcSizes[(z0+i+i/len(bcSizes))%len(bcSizes)]
		pre := 0
		if g.Chance(2, 3) {
			pre = 1 + g.Intn(3000)
		}
		st := []hStep{{Op: "gate", N: 0}}
		switch shape {
		case "close-hold":
			st = append(st, hStep{Op: "closebody"}, hStep{Op: "gate", N: 1}, hStep{Op: "write", N: g.Intn(200), Chunk: 64})
		case "read-close-hold":
			if pre < 2 {
				pre = 2 + g.Intn(3000)
			}
			n := 1 + g.Intn(pre-1) // part of what is buffered, never all of it
			st = append(st, hStep{Op: "read", N: n, Chunk: readChunkFor(g, n)}, hStep{Op: "closebody"}, hStep{Op: "gate", N: 1},
				hStep{Op: "write", N: g.Intn(200), Chunk: 64})
		case "close-answer":
			st = append(st, hStep{Op: "closebody"}, hStep{Op: "write", N: g.Intn(200), Chunk: 64})
		case "answer-noread":
			st = append(st, hStep{Op: "write", N: g.Intn(200), Chunk: 64})
		case "panic":
			if g.Bool() {
				st = append(st, hStep{Op: "closebody"})
			}
			st = append(st, hStep{Op: "panic"})
		}
		c.Scripts[tok] = &hScript{Steps: st}
		c.Ops = append(c.Ops, op{K: "syn", ID: id, Tok: tok, N: int64(g.Intn(8))})
		if pre > 0 {
			c.Ops = append(c.Ops, op{K: "data", ID: id, N: int64(pre), Mode: "fit"})
		}
		c.Ops = append(c.Ops, op{K: "gate", Tok: tok, Gate: 0}, op{K: "bcmark", ID: id, Tok: tok, Mode: shape, Hdr: size})
		switch size {
		case "one":
			c.Ops = append(c.Ops, op{K: "data", ID: id, N: 1, Mode: "fit"})
		case "mid":
			c.Ops = append(c.Ops, op{K: "data", ID: id, N: int64(2 + g.Intn(5000)), Mode: "fit"})
		default:
			c.Ops = append(c.Ops, op{K: "data", ID: id, Mode: "fill"})
		}
		if g.Chance(1, 3) { // a second frame right behind, no barrier in between
			c.Ops = append(c.Ops, op{K: "data", ID: id, N: int64(1 + g.Intn(200)), Mode: "fit"})
		}
		c.Ops = append(c.Ops, op{K: "sync"}, op{K: "bcend", ID: id, Tok: tok, Mode: shape, Hdr: size})
		if bcHold(shape) && g.Chance(2, 3) { // otherwise the handler stays parked until the finale
			c.Ops = append(c.Ops, op{K: "gate", Tok: tok, Gate: 1})
		}
	}
}

// bodyCloseCount: number of body-close connections of a tier with n seeded cases.
func bodyCloseCount(r *vkit.Run) int { return r.N(30, 300) }

// genBodyCloseCase: body-close case number idx (from 0); caseIdx is its index
// in the whole case list.
func genBodyCloseCase(r *vkit.Run, idx, caseIdx int) *caseSpec {
	g := r.Rng("case-body-close", idx)
	c := &caseSpec{Idx: caseIdx, MaxStreams: 200, Scripts: map[int]*hScript{}, Transport: "pipe"}
	if g.Chance(1, 5) {
		c.Transport = "tcp"
	}
	genBodyClose(g, c)
	return c
}

// outcomes the body-close cases are supposed to reach
var bodyCloseOutcomes = []string{
	"bodyclose_data_after_close_on_open_stream", "bodyclose_data_after_handler_ended",
	"bodyclose_shape_close-hold", "bodyclose_shape_read-close-hold", "bodyclose_shape_close-answer",
	"bodyclose_shape_answer-noread", "bodyclose_shape_panic",
	"bodyclose_size_one", "bodyclose_size_mid", "bodyclose_size_fill",
	"bodyclose_open_stream_data_refused_by_rst", "bodyclose_session_return_checked",
}
