package main

import (
	"fmt"
	"net"
	"testing"
	"time"

	"github.com/bfenetworks/bfe/bfe_spdy"
	"verifharness/spdycli"
)

func TestBenchConn(t *testing.T) {
	for _, mode := range []string{"serve-only", "client-conn", "one-syn", "one-syn-sync", "runcase"} {
		t0 := time.Now()
		N := 20
		for i := 0; i < N; i++ {
			if mode == "runcase" {
				spec := &caseSpec{Idx: i, MaxStreams: 200, Transport: "pipe", Scripts: map[int]*hScript{1: {Steps: []hStep{{Op: "write", N: 10, Chunk: 10}}}},
					Ops: []op{{K: "syn", ID: 1, Tok: 1, Fin: true}, {K: "sync"}}}
				runCase(spec)
				continue
			}
			c, s := net.Pipe()
			cs := newCaseServer(map[int]*hScript{1: {Steps: []hStep{{Op: "write", N: 10, Chunk: 10}}}})
			done := make(chan bool)
			go func() {
				bfe_spdy.VerifServeConn(nil, serverHS, labeledConn{s, "x"}, cs)
				close(done)
			}()
			if mode == "serve-only" {
				buf := make([]byte, 100)
				c.Read(buf) // settings frame
				c.Close()
				<-done
				continue
			}
			m := spdycli.NewModel(cs, 200)
			conn, _ := spdycli.NewConn(c, m.OnEvent)
			if mode != "client-conn" {
				conn.SynStream(1, 1, true, hdr{":method": {"GET"}, ":path": {"/t/1"}, ":version": {"HTTP/1.1"}, ":host": {"h"}, ":scheme": {"http"}}, 0)
				if mode == "one-syn-sync" {
					conn.Sync(5 * time.Second)
				}
			}
			conn.Close()
			<-done
		}
		fmt.Printf("%s: %v per conn\n", mode, time.Since(t0)/time.Duration(N))
	}
}
