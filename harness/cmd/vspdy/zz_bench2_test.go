package main

import (
	"bytes"
	"compress/zlib"
	"fmt"
	"testing"
	"time"
)

func TestBenchZlib(t *testing.T) {
	dict := make([]byte, 1423)
	for _, lvl := range []int{zlib.BestCompression, zlib.BestSpeed, zlib.NoCompression} {
		t0 := time.Now()
		var buf bytes.Buffer
		w, _ := zlib.NewWriterLevelDict(&buf, lvl, dict)
		t1 := time.Now()
		w.Write([]byte("hello world hello world"))
		t2 := time.Now()
		w.Flush()
		t3 := time.Now()
		w.Reset(&buf)
		t4 := time.Now()
		w.Write([]byte("hello world hello world"))
		w.Flush()
		t5 := time.Now()
		fmt.Printf("level %d: new %v firstwrite %v flush %v reset %v write+flush %v\n", lvl, t1.Sub(t0), t2.Sub(t1), t3.Sub(t2), t4.Sub(t3), t5.Sub(t4))
	}
}
