package main

// run.go: executes one case (one connection): server side through the
// bfe_spdy verif accessor, client side through spdycli, then the final checks.

import (
	"encoding/json"
	"fmt"
	"net"
	"runtime"
	"strings"
	"sync"
	"time"

	http "github.com/bfenetworks/bfe/bfe_http"
	"github.com/bfenetworks/bfe/bfe_spdy"

	"verifharness/spdycli"
)

// op is one step of the client script.
type op struct {
	K    string `json:"k"` // syn data wu rst settings ping sync settle gate gatenow headers synreply goaway unknown waitdone bcmark bcend
	ID   uint32 `json:"id,omitempty"`
	Tok  int    `json:"tok,omitempty"`
	Fin  bool   `json:"fin,omitempty"`
	N    int64  `json:"n,omitempty"`
	Mode string `json:"mode,omitempty"`
	Gate int    `json:"gate,omitempty"`
	Hdr  string `json:"hdr,omitempty"` // syn: "" | nomethod | head-body | badpath | badcl | get-body
	CL   int64  `json:"cl,omitempty"`  // syn: content-length + 1 (0 = none)
}

type caseSpec struct {
	Idx        int              `json:"idx"`
	Kind       string           `json:"kind"`
	Transport  string           `json:"transport"` // pipe | tcp
	MaxStreams int              `json:"max_streams"`
	Scripts    map[int]*hScript `json:"scripts"`
	Ops        []op             `json:"ops"`
}

func (c *caseSpec) key() string {
	b, _ := json.Marshal(struct {
		K string
		T string
		M int
		S map[int]*hScript
		O []op
	}{c.Kind, c.Transport, c.MaxStreams, c.Scripts, c.Ops})
	return string(b)
}

type caseResult struct {
	Viol        []spdycli.Violation
	Obs         map[string]int64
	Log         []spdycli.Event
	Inconcl     string
	Nontrivial  bool
	EndState    *bfe_spdy.VerifConnEnd
	HandlerInfo map[int]string
	BC          bcState // body-close cases (c40close.go)
}

type labeledConn struct {
	net.Conn
	label string
}

type labelAddr string

func (a labelAddr) Network() string { return "verif" }
func (a labelAddr) String() string  { return string(a) }

func (c labeledConn) RemoteAddr() net.Addr { return labelAddr(c.label) }

const (
	waitBrief = 1 * time.Second // waits that only shape the workload (never an oracle)
	waitShort = 5 * time.Second
	waitLong  = 20 * time.Second
)

func transportPair(kind string) (cli, srv net.Conn, err error) {
	if kind != "tcp" {
		c, s := net.Pipe()
		return c, s, nil
	}
	l, err := net.Listen("tcp", "127.0.0.1:0")
	if err != nil {
		return nil, nil, err
	}
	defer l.Close()
	type acc struct {
		c   net.Conn
		err error
	}
	ch := make(chan acc, 1)
	go func() {
		c, err := l.Accept()
		ch <- acc{c, err}
	}()
	c, err := net.Dial("tcp", l.Addr().String())
	if err != nil {
		return nil, nil, err
	}
	a := <-ch
	if a.err != nil {
		c.Close()
		return nil, nil, a.err
	}
	return c, a.c, nil
}

// hdr is a header block (names lower case).
type hdr map[string][]string

func (h hdr) Set(k, v string) { h[k] = []string{v} }
func (h hdr) Del(k string)    { delete(h, k) }

var serverHS = &http.Server{ReadTimeout: 10 * time.Minute, GracefulShutdownTimeout: 10 * time.Second}

func synHeaders(o op) (hdr, spdycli.SynInfo) {
	h := hdr{}
	info := spdycli.SynInfo{WellFormed: true, DeclLen: -1}
	method := "POST"
	if o.Fin {
		method = "GET"
	}
	h.Set(":method", method)
	h.Set(":path", fmt.Sprintf("/t/%d", o.Tok))
	h.Set(":version", "HTTP/1.1")
	h.Set(":host", "spdy.example")
	h.Set(":scheme", "http")
	if o.CL > 0 {
		h.Set("content-length", fmt.Sprint(o.CL-1))
		info.DeclLen = o.CL - 1
	}
	switch o.Hdr {
	case "nomethod":
		h.Del(":method")
		info.WellFormed = false
	case "head-body":
		h.Set(":method", "HEAD")
		info.WellFormed = o.Fin
	case "badpath":
		h.Set(":path", "no-slash %zz")
		info.WellFormed = false
	case "badcl":
		h.Set("content-length", "-5")
		info.WellFormed = o.Fin
	}
	if o.Fin {
		info.DeclLen = -1
	}
	return h, info
}

func runCase(spec *caseSpec) *caseResult {
	res := &caseResult{Obs: map[string]int64{}}
	cs := newCaseServer(spec.Scripts)
	model := spdycli.NewModel(cs, spec.MaxStreams)

	cliNC, srvNC, err := transportPair(spec.Transport)
	if err != nil {
		res.Inconcl = "transport: " + err.Error()
		return res
	}
	label := fmt.Sprintf("case-%d", spec.Idx)
	endCh := make(chan *bfe_spdy.VerifConnEnd, 1)
	go func() {
		conf := &bfe_spdy.Server{MaxConcurrentStreams: uint32(spec.MaxStreams)}
		endCh <- bfe_spdy.VerifServeConn(conf, serverHS, labeledConn{srvNC, label}, cs)
	}()
	conn, err := spdycli.NewConn(cliNC, model.OnEvent)
	if err != nil {
		res.Inconcl = "client framer: " + err.Error()
		cliNC.Close()
		return res
	}
	cs.mu.Lock()
	cs.wake = conn.Wake
	cs.mu.Unlock()

	dead := func() bool {
		d := false
		conn.Locked(func() { d = model.Dead() })
		return d
	}
	obs := func(k string) { conn.Locked(func() { model.Obs[k]++ }) }

	// ---- the script ----
	for _, o := range spec.Ops {
		if dead() {
			break
		}
		var werr error
		switch o.K {
		case "syn":
			h, info := synHeaders(o)
			conn.Locked(func() { model.NextSyn(info) })
			werr = conn.SynStream(o.ID, o.Tok, o.Fin, h, uint8(o.N&7))
		case "data":
			var n, off int64
			tok := 0
			conn.Locked(func() {
				s := model.Stream(o.ID)
				n = o.N
				if s == nil {
					return
				}
				tok, off = s.Token, s.Sent
				vs, vc := model.ViewStream(s), model.ViewConn()
				v := vs
				if vc < v {
					v = vc
				}
				if v < 0 {
					v = 0
				}
				switch o.Mode {
				case "fit":
					if n > v {
						n = v
					}
				case "fill":
					n = v
				case "over1":
					n = v + 1
				case "ubover":
					_, _, ubS, ubC := model.InboundBounds(s)
					u := ubS
					if ubC < u {
						u = ubC
					}
					if u < 0 {
						u = 0
					}
					n = u + 1 + o.N
				}
			})
			if n > 1<<20 {
				n = 1 << 20
			}
			if n == 0 && !o.Fin && o.Mode != "abs" {
				continue // nothing to send
			}
			p := make([]byte, n)
			fillPat(0, tok, off, p)
			werr = conn.Data(o.ID, p, o.Fin)
		case "wu":
			werr = conn.WindowUpdate(o.ID, uint32(o.N))
		case "rst":
			werr = conn.RstStream(o.ID, uint32(o.N))
		case "settings":
			werr = conn.Settings([][2]uint32{{spdycli.SettingsInitialWindowSize, uint32(o.N)}})
		case "ping":
			conn.ReservePingIDs(uint32(o.N) + 2)
			werr = conn.Ping(uint32(o.N))
		case "sync":
			if r, _ := conn.Sync(waitLong); r == spdycli.SyncTimeout {
				res.Inconcl = "PING not answered within the time limit"
			}
		case "settle":
			// wait (not an oracle) until the handler of the stream has consumed
			// all it can and every WINDOW_UPDATE for it has arrived, so that
			// the next DATA frame sits exactly at a boundary
			ok := conn.WaitUntil(waitBrief, func() bool {
				if model.Dead() {
					return true
				}
				s := model.Stream(o.ID)
				if s == nil {
					return true
				}
				done, _, _, _ := cs.Done(s.Token)
				consumed := cs.Consumed(s.Token)
				target := cs.ReadBudget(s.Token)
				if s.Sent < target {
					target = s.Sent
				}
				if !done && consumed < target {
					return false
				}
				if !s.ClientFin && !s.ClientRst && !s.SrvRst && s.WURecv < consumed {
					return false
				}
				var all int64
				for _, x := range model.Streams() {
					all += cs.Consumed(x.Token)
				}
				return model.WU0Recv() >= all
			})
			if !ok {
				obs("settle_timeouts")
			}
		case "gate":
			// every frame sent so far must have been processed before the
			// handler may move on (see Model.GateOpened)
			if r, _ := conn.Sync(waitLong); r == spdycli.SyncTimeout {
				res.Inconcl = "PING not answered within the time limit"
			}
			conn.Locked(func() { model.GateOpened(o.Tok) })
			cs.openGate(o.Tok, o.Gate)
			conn.Note(spdycli.Event{Note: fmt.Sprintf("gate %d of handler %d opened", o.Gate, o.Tok)})
		case "gatenow":
			// hand-written staging only: the gate is opened N microseconds after
			// the previous frame was written, without the PING round trip of
			// "gate", so the handler moves on while the server is still
			// processing that frame. The model drops every obligation that
			// relies on handler bounds (GateOpened with frames in flight).
			if o.N > 0 {
				time.Sleep(time.Duration(o.N) * time.Microsecond) // shapes the workload, never an oracle
			}
			conn.Locked(func() { model.GateOpened(o.Tok) })
			cs.openGate(o.Tok, o.Gate)
			conn.Note(spdycli.Event{Note: fmt.Sprintf("gate %d of handler %d opened without a round trip", o.Gate, o.Tok)})
		case "headers":
			werr = conn.Headers(spdycli.KHeaders, o.ID, o.Fin, hdr{"x-late": {"1"}})
		case "synreply":
			werr = conn.Headers(spdycli.KSynReply, o.ID, o.Fin, hdr{":status": {"200"}, ":version": {"HTTP/1.1"}})
		case "goaway":
			werr = conn.GoAway(o.ID, uint32(o.N))
		case "unknown":
			werr = conn.UnknownControl(uint16(o.N), []byte{0, 0, 0, 1})
		case "bcmark", "bcend":
			bodyCloseOp(conn, model, cs, o, &res.BC)
		case "waitdone":
			if !conn.WaitUntil(waitBrief, func() bool {
				d, _, _, _ := cs.Done(o.Tok)
				return d || model.Dead()
			}) {
				obs("waitdone_timeouts")
			}
		}
		if werr != nil {
			break
		}
	}

	// ---- finale: let everything finish ----
	if !dead() {
		if r, _ := conn.Sync(waitLong); r == spdycli.SyncTimeout {
			res.Inconcl = "PING not answered within the time limit"
		}
	}
	conn.Locked(func() { model.GateOpened(-1) })
	cs.openAllGates()
	conn.Note(spdycli.Event{Note: "finale: all gates opened"})
	if !dead() {
		type grant struct {
			id    uint32
			delta int64
		}
		var fins, rsts []uint32
		var grants []grant
		conn.Locked(func() {
			var needAll int64
			for _, s := range model.Streams() {
				if s.SrvFin || s.SrvRst || s.ClientRst {
					continue
				}
				if !s.ClientFin {
					fins = append(fins, s.ID)
				}
				need := cs.WriteTotal(s.Token) - s.Recv
				if need < 0 {
					need = 0
				}
				needAll += need
				if floor := model.RecvFloorStream(s); floor < need+1<<20 {
					d := need + 1<<20 - floor
					if model.RecvAllowStream(s)+s.Recv+d <= spdycli.MaxWindow && d <= spdycli.MaxWindow {
						grants = append(grants, grant{s.ID, d})
					} else if need > 0 {
						// the window cannot be opened without risking an overflow
						// (the script played with huge values): give the stream up
						rsts = append(rsts, s.ID)
					}
				}
			}
			if have := model.RecvAllowConn(); have < needAll+1<<20 {
				d := needAll + 1<<20 - have
				if spdycli.DefaultWindow+model.WU0Sent()+d <= spdycli.MaxWindow {
					grants = append(grants, grant{0, d})
				}
			}
		})
		for _, id := range fins {
			if conn.Data(id, nil, true) != nil {
				break
			}
		}
		for _, g := range grants {
			if conn.WindowUpdate(g.id, uint32(g.delta)) != nil {
				break
			}
		}
		for _, id := range rsts {
			if conn.RstStream(id, spdycli.RstCancel) != nil {
				break
			}
		}
	}
	ended := func() bool {
		// with the log lock held
		if model.Dead() {
			return true
		}
		for _, s := range model.Streams() {
			if s.SrvFin || s.SrvRst || s.ClientRst {
				continue
			}
			if s.SrvRstMaybe {
				if d, _, _, _ := cs.Done(s.Token); d || cs.invokedCount(s.Token) == 0 {
					continue
				}
			}
			if s.BadSyn != "" {
				if d, _, _, _ := cs.Done(s.Token); d || cs.invokedCount(s.Token) == 0 {
					continue
				}
			}
			return false
		}
		return cs.runningHandlers() == 0
	}
	quiesced := conn.WaitUntil(waitLong, ended)
	allDone := false
	healthy := false
	if !quiesced {
		// neither finished nor dead: are the handlers stuck although every window is open?
		r1, _ := conn.Sync(waitShort)
		before := len(conn.Log())
		r2, _ := conn.Sync(waitShort)
		after := len(conn.Log())
		stuck := ""
		conn.Locked(func() {
			if ended() || r1 != spdycli.SyncPong || r2 != spdycli.SyncPong || after-before > 2 {
				return
			}
			for _, s := range model.Streams() {
				if s.SrvFin || s.SrvRst || s.ClientRst || s.Tainted != "" {
					continue
				}
				if model.RecvFloorStream(s) > 0 && model.RecvAllowConn() > 0 && s.ClientFin && s.ValidSyn {
					stuck += fmt.Sprintf("stream %d (received %d of %d body bytes, stream window >= %d, session window %d); ",
						s.ID, s.Recv, cs.WriteTotal(s.Token), model.RecvFloorStream(s), model.RecvAllowConn())
				}
			}
		})
		if stuck != "" {
			res.Viol = append(res.Viol, spdycli.Violation{Sig: "outbound:stall-with-open-windows",
				What: "no frame arrived for " + waitLong.String() + " and two further PING round trips although the windows are open and the request is complete: " + stuck})
		} else if !dead() {
			res.Inconcl = "case did not quiesce within the time limit"
		}
	}
	if quiesced && !dead() {
		// First round trip: every frame sent so far (RST_STREAMs included) has
		// been processed, so a handler that only starts running from now on
		// finds its stream closed and cannot consume or send anything.
		// Handlers already running are waited for. Only then is "all handlers
		// have returned" a fact that holds before the final PING is sent, and
		// every WINDOW_UPDATE their reads caused is queued ahead of its reply.
		r, _ := conn.Sync(waitLong)
		if r == spdycli.SyncPong {
			conn.WaitUntil(waitShort, func() bool { return model.Dead() || cs.runningHandlers() == 0 })
			conn.Locked(func() { allDone = ended() && !model.Dead() })
			r, _ = conn.Sync(waitLong)
			conn.Locked(func() { healthy = r == spdycli.SyncPong && !model.Dead() })
		}
		if r == spdycli.SyncTimeout {
			res.Inconcl = "final PING not answered within the time limit"
		}
	}

	// ---- shut down ----
	conn.Close()
	var end *bfe_spdy.VerifConnEnd
	select {
	case end = <-endCh:
	case <-time.After(waitLong):
		res.Viol = append(res.Viol, spdycli.Violation{Sig: "never-panics:serve-did-not-return",
			What: "serve() had not returned " + waitLong.String() + " after the client closed the connection"})
	}
	srvNC.Close()
	cs.abortAll()
	deadline := time.Now().Add(waitLong)
	for cs.runningHandlers() > 0 && time.Now().Before(deadline) {
		time.Sleep(time.Millisecond)
	}
	if n := cs.runningHandlers(); n > 0 {
		res.Viol = append(res.Viol, spdycli.Violation{Sig: "never-panics:handler-goroutine-stuck",
			What: fmt.Sprintf("%d handler goroutine(s) still blocked inside bfe_spdy %s after the connection ended:\n%s", n, waitLong, spdyStacks())})
	}

	// ---- final checks ----
	var toks []int
	for t := range spec.Scripts {
		toks = append(toks, t)
	}
	facts := spdycli.EndFacts{
		Healthy: healthy, AllDone: allDone, AllTokens: toks,
		Invoked: cs.invokedCount, Corrupt: cs.corrupt, Consumed: cs.Consumed,
	}
	if end != nil {
		facts.HookPresent = true
		facts.SendWindow, facts.RecvWindow, facts.OpenStreams = int64(end.SendWindow), int64(end.RecvWindow), end.OpenStreams
		res.EndState = end
	}
	conn.Locked(func() {
		model.Finish(facts)
		res.Viol = append(res.Viol, model.Viol...)
		bodyCloseFinish(spec, model, healthy, allDone, &res.BC, res)
		for k, v := range model.Obs {
			res.Obs[k] += v
		}
		if model.DataRecv() > 0 {
			res.Obs["cases_with_outbound_data"]++
		}
		for _, s := range model.Streams() {
			if s.RstAcked {
				res.Obs["client_rst_acked_streams"]++
			}
			// the stream was reset under a handler that was in the middle of the body
			if s.ClientRst || s.SrvRst {
				if d, c, _, clean := cs.Done(s.Token); d && !clean && c > 0 && c < s.Sent && cs.MaxRead(s.Token) > 0 {
					res.Obs["reset_while_handler_reading"]++
				}
			}
		}
		if healthy && allDone {
			res.Obs["cases_quiescent_healthy"]++
		}
		if model.GoAwayRecv {
			res.Obs["cases_goaway"]++
		}
	})
	cs.mu.Lock()
	if cs.unknown > 0 {
		res.Viol = append(res.Viol, spdycli.Violation{Sig: "stream-rules:request-without-syn", What: "handler invoked for a path no SYN_STREAM carried"})
	}
	res.HandlerInfo = map[int]string{}
	for t, r := range cs.recs {
		res.HandlerInfo[t] = fmt.Sprintf("invoked=%d done=%v consumed=%d written=%d readErr=%q writeErr=%q", r.invoked, r.done, r.consumed, r.written, r.readErr, r.writeErr)
		if r.invoked > 0 {
			res.Obs["handlers_invoked"]++
		}
	}
	cs.mu.Unlock()
	res.Log = conn.Log()
	for k, v := range res.Obs {
		if v > 0 && (strings.HasPrefix(k, "data_") || strings.HasPrefix(k, "syn_invalid") || strings.HasPrefix(k, "wu_overflow") ||
			strings.HasSuffix(k, "_checked") || k == "cases_with_outbound_data") {
			res.Nontrivial = true
		}
	}
	return res
}

// spdyStacks returns the stacks of all goroutines that are inside bfe_spdy.
func spdyStacks() string {
	buf := make([]byte, 1<<22)
	buf = buf[:runtime.Stack(buf, true)]
	var out []string
	for _, g := range strings.Split(string(buf), "\n\n") {
		if strings.Contains(g, "bfe/bfe_spdy.") {
			out = append(out, g)
		}
	}
	return strings.Join(out, "\n\n")
}

var censusMu sync.Mutex

// spdyGoroutines counts goroutines with a bfe_spdy frame on their stack.
func spdyGoroutines() (int, string) {
	censusMu.Lock()
	defer censusMu.Unlock()
	s := spdyStacks()
	if s == "" {
		return 0, ""
	}
	return len(strings.Split(s, "\n\n")), s
}
