package main

import (
	"bytes"
	"fmt"
	"reflect"
	"sync/atomic"

	"github.com/bfenetworks/bfe/bfe_tls"

	"verifharness/vkit"
)

// C45: every handshake message produced by marshalling parses back to an
// equal message, and parsing any byte string never panics or reads outside
// the message.
//
// Observation goes through bfe_tls.VerifMarshal / VerifUnmarshal (exported
// mirrors of the unexported message structs; the mirror carries no cached raw
// bytes, so marshal really runs). Every input handed to unmarshal is a fresh
// make([]byte, n) copy: cap == len, so a read or re-slice beyond the message
// is a bounds panic that r.Try turns into a violation.
//
// Oracle 1 (round trip): for a generated message value m inside the domain
// that the TLS encoding can represent (length prefixes fit, fixed-size fields
// have their size, ALPN/NPN names are 1..255 bytes, certificates are >= 1
// byte, certificateTypes non-empty - marshal documents panics/truncation
// outside it), unmarshal(marshal(m)) is accepted and equals m field by field.
// One derived field: clientHello.secureRenegotiation is also set by the SCSV
// cipher suite 0x00ff, so the expected value is flag || SCSV present.
// Oracle 2 (robust parsing): for any byte string b, unmarshal(b) returns; when
// it accepts and the parsed value v is representable, marshal(v) is accepted
// again and parses to a value equal to v (the parsed value is a message
// value, so the round-trip statement applies to it).

type c45Msg = bfe_tls.VerifMsg

var c45Kinds = []string{
	"clientHello", "serverHello", "certificate", "serverKeyExchange",
	"certificateStatus", "serverHelloDone", "clientKeyExchange", "finished",
	"nextProto", "certificateRequest", "certificateVerify", "newSessionTicket",
	"sessionState",
}

// boundary-biased length in [lo,hi]
func c45Len(g *vkit.Rand, lo, hi int) int {
	if hi <= lo {
		return lo
	}
	switch g.Intn(10) {
	case 0:
		return lo
	case 1:
		return hi
	case 2:
		cands := []int{1, 2, 3, 31, 32, 33, 127, 128, 129, 254, 255, 256, 257, 511, 512, 65535, 65536, hi - 1, lo + 1}
		c := cands[g.Intn(len(cands))]
		if c >= lo && c <= hi {
			return c
		}
		return lo + g.Intn(hi-lo+1)
	case 3, 4:
		return lo + g.Intn(hi-lo+1)
	default:
		top := lo + 24
		if top > hi {
			top = hi
		}
		return lo + g.Intn(top-lo+1)
	}
}

func c45Str(g *vkit.Rand, n int) string { return string(g.Bytes(n)) }

func c45Gen(kind string, g *vkit.Rand) *c45Msg {
	m := &c45Msg{Kind: kind}
	switch kind {
	case "clientHello":
		m.Vers = uint16(g.Intn(65536))
		m.Random = g.Bytes(32)
		m.SessionId = g.Bytes(c45Len(g, 0, 32))
		n := c45Len(g, 0, 300)
		m.CipherSuites = make([]uint16, n)
		for i := range m.CipherSuites {
			m.CipherSuites[i] = uint16(g.Intn(65536))
			if g.Chance(1, 200) {
				m.CipherSuites[i] = 0x00ff // SCSV
			}
		}
		m.CompressionMethods = g.Bytes(c45Len(g, 0, 255))
		m.NextProtoNeg = g.Chance(1, 3)
		if g.Chance(1, 2) {
			m.ServerName = c45Str(g, c45Len(g, 1, 400))
		}
		m.OcspStapling = g.Chance(1, 3)
		if g.Chance(1, 2) {
			m.SupportedCurves = make([]uint16, c45Len(g, 0, 40))
			for i := range m.SupportedCurves {
				m.SupportedCurves[i] = uint16(g.Intn(65536))
			}
		}
		if g.Chance(1, 2) {
			m.SupportedPoints = g.Bytes(c45Len(g, 0, 255))
		}
		if g.Chance(1, 2) {
			m.TicketSupported = true
			if g.Bool() {
				m.SessionTicket = g.Bytes(c45Len(g, 0, 600))
			}
		}
		if g.Chance(1, 2) {
			m.SigAndHashes = g.Bytes(2 * c45Len(g, 0, 40))
		}
		m.SecureRenegotiation = g.Chance(1, 3)
		if g.Chance(1, 2) {
			k := c45Len(g, 0, 6)
			for i := 0; i < k; i++ {
				m.AlpnProtocols = append(m.AlpnProtocols, c45Str(g, c45Len(g, 1, 255)))
			}
		}
	case "serverHello":
		m.Vers = uint16(g.Intn(65536))
		m.Random = g.Bytes(32)
		m.SessionId = g.Bytes(c45Len(g, 0, 32))
		m.CipherSuite = uint16(g.Intn(65536))
		m.CompressionMethod = uint8(g.Intn(256))
		if g.Chance(1, 2) {
			m.NextProtoNeg = true
			k := c45Len(g, 0, 10)
			for i := 0; i < k; i++ {
				m.NextProtos = append(m.NextProtos, c45Str(g, c45Len(g, 1, 255)))
			}
		}
		m.OcspStapling = g.Chance(1, 3)
		m.TicketSupported = g.Chance(1, 3)
		m.SecureRenegotiation = g.Chance(1, 3)
		if g.Chance(1, 2) {
			m.AlpnProtocol = c45Str(g, c45Len(g, 1, 255))
		}
	case "certificate":
		k := c45Len(g, 0, 20)
		for i := 0; i < k; i++ {
			hi := 300
			if g.Chance(1, 60) {
				hi = 70000
			}
			m.Certificates = append(m.Certificates, g.Bytes(c45Len(g, 1, hi)))
		}
	case "serverKeyExchange":
		m.Key = g.Bytes(c45Len(g, 0, 1000))
	case "certificateStatus":
		if g.Chance(2, 3) {
			m.StatusType = 1
			m.Response = g.Bytes(c45Len(g, 0, 1000))
		} else {
			m.StatusType = uint8(g.Intn(256))
			if m.StatusType == 1 {
				m.StatusType = 2
			}
		}
	case "serverHelloDone":
	case "clientKeyExchange":
		m.Ciphertext = g.Bytes(c45Len(g, 0, 1000))
	case "finished":
		m.VerifyData = g.Bytes(c45Len(g, 0, 255))
	case "nextProto":
		m.Proto = c45Str(g, c45Len(g, 0, 255))
	case "certificateRequest":
		m.HasSigAndHash = g.Bool()
		m.CertificateTypes = g.Bytes(c45Len(g, 1, 255))
		if m.HasSigAndHash {
			m.SigAndHashes = g.Bytes(2 * c45Len(g, 0, 40))
		}
		k := c45Len(g, 0, 50)
		for i := 0; i < k; i++ {
			m.CertificateAuthorities = append(m.CertificateAuthorities, g.Bytes(c45Len(g, 1, 300)))
		}
	case "certificateVerify":
		m.HasSigAndHash = g.Bool()
		if m.HasSigAndHash {
			m.SigAndHash = [2]byte{byte(g.Intn(256)), byte(g.Intn(256))}
		}
		hi := 600
		if g.Chance(1, 50) {
			hi = 65535
		}
		m.Signature = g.Bytes(c45Len(g, 0, hi))
	case "newSessionTicket":
		hi := 600
		if g.Chance(1, 50) {
			hi = 65535
		}
		m.Ticket = g.Bytes(c45Len(g, 0, hi))
	case "sessionState":
		m.Vers = uint16(g.Intn(65536))
		m.CipherSuite = uint16(g.Intn(65536))
		m.MasterSecret = g.Bytes(c45Len(g, 0, 300))
		k := c45Len(g, 0, 20)
		for i := 0; i < k; i++ {
			m.Certificates = append(m.Certificates, g.Bytes(c45Len(g, 0, 300)))
		}
	}
	return m
}

// c45Representable says whether v lies in the domain the TLS encoding of its
// kind can carry (written from RFC 5246/4366/5077/7301 vector bounds).
func c45Representable(v *c45Msg) bool {
	names := func(xs []string) (int, bool) {
		t := 0
		for _, s := range xs {
			if len(s) < 1 || len(s) > 255 {
				return 0, false
			}
			t += 1 + len(s)
		}
		return t, true
	}
	switch v.Kind {
	case "clientHello":
		if len(v.Random) != 32 || len(v.SessionId) > 32 || len(v.CipherSuites) > 32767 || len(v.CompressionMethods) > 255 {
			return false
		}
		ext := 0
		if v.NextProtoNeg {
			ext += 4
		}
		if v.OcspStapling {
			ext += 4 + 5
		}
		if len(v.ServerName) > 0 {
			if len(v.ServerName) > 65535-5 {
				return false
			}
			ext += 4 + 5 + len(v.ServerName)
		}
		if len(v.SupportedCurves) > 0 {
			if len(v.SupportedCurves) > 32766 {
				return false
			}
			ext += 4 + 2 + 2*len(v.SupportedCurves)
		}
		if len(v.SupportedPoints) > 0 {
			if len(v.SupportedPoints) > 255 {
				return false
			}
			ext += 4 + 1 + len(v.SupportedPoints)
		}
		if v.TicketSupported {
			if len(v.SessionTicket) > 65535 {
				return false
			}
			ext += 4 + len(v.SessionTicket)
		} else if len(v.SessionTicket) > 0 {
			return false
		}
		if len(v.SigAndHashes) > 0 {
			if len(v.SigAndHashes)%2 != 0 || len(v.SigAndHashes) > 65532 {
				return false
			}
			ext += 4 + 2 + len(v.SigAndHashes)
		}
		if v.SecureRenegotiation {
			ext += 5
		}
		if len(v.AlpnProtocols) > 0 {
			t, ok := names(v.AlpnProtocols)
			if !ok || t > 65533 {
				return false
			}
			ext += 4 + 2 + t
		}
		return ext <= 65535
	case "serverHello":
		if len(v.Random) != 32 || len(v.SessionId) > 32 || len(v.AlpnProtocol) > 255 {
			return false
		}
		ext := 0
		if v.NextProtoNeg {
			t, ok := names(v.NextProtos)
			if !ok || t > 65535 {
				return false
			}
			ext += 4 + t
		} else if len(v.NextProtos) > 0 {
			return false
		}
		if v.OcspStapling {
			ext += 4
		}
		if v.TicketSupported {
			ext += 4
		}
		if v.SecureRenegotiation {
			ext += 5
		}
		if len(v.AlpnProtocol) > 0 {
			ext += 7 + len(v.AlpnProtocol)
		}
		return ext <= 65535
	case "certificate":
		t := 0
		for _, c := range v.Certificates {
			if len(c) < 1 || len(c) >= 1<<24 {
				return false
			}
			t += 3 + len(c)
		}
		return t < 1<<24-8
	case "serverKeyExchange":
		return len(v.Key) < 1<<24
	case "certificateStatus":
		if v.StatusType != 1 {
			return len(v.Response) == 0
		}
		return len(v.Response) < 1<<24-8
	case "serverHelloDone":
		return true
	case "clientKeyExchange":
		return len(v.Ciphertext) < 1<<24
	case "finished":
		return len(v.VerifyData) <= 255
	case "nextProto":
		return len(v.Proto) <= 255
	case "certificateRequest":
		if len(v.CertificateTypes) < 1 || len(v.CertificateTypes) > 255 {
			return false
		}
		if !v.HasSigAndHash && len(v.SigAndHashes) > 0 {
			return false
		}
		if len(v.SigAndHashes)%2 != 0 || len(v.SigAndHashes) > 65534 {
			return false
		}
		t := 0
		for _, ca := range v.CertificateAuthorities {
			if len(ca) < 1 || len(ca) > 65535 {
				return false
			}
			t += 2 + len(ca)
		}
		return t <= 65535
	case "certificateVerify":
		if !v.HasSigAndHash && v.SigAndHash != [2]byte{} {
			return false
		}
		return len(v.Signature) <= 65535
	case "newSessionTicket":
		return len(v.Ticket) <= 65535
	case "sessionState":
		return len(v.MasterSecret) <= 65535 && len(v.Certificates) <= 65535
	}
	return false
}

// c45Diff returns the names of the fields in which a and b differ (nil if
// equal). nil and empty slices are the same value; Padding / ExtensionIds are
// derived by the clientHello parser only and are not message content.
func c45Diff(a, b *c45Msg) (diff []string) {
	va, vb := reflect.ValueOf(*a), reflect.ValueOf(*b)
	t := va.Type()
	for i := 0; i < t.NumField(); i++ {
		name := t.Field(i).Name
		if name == "Padding" || name == "ExtensionIds" {
			continue
		}
		fa, fb := va.Field(i), vb.Field(i)
		switch fa.Kind() {
		case reflect.Slice:
			if fa.Len() != fb.Len() {
				diff = append(diff, name)
				continue
			}
			if fa.Type().Elem().Kind() == reflect.Uint8 {
				if !bytes.Equal(fa.Bytes(), fb.Bytes()) {
					diff = append(diff, name)
				}
				continue
			}
			for k := 0; k < fa.Len(); k++ {
				ea, eb := fa.Index(k), fb.Index(k)
				if ea.Kind() == reflect.Slice { // [][]byte
					if !bytes.Equal(ea.Bytes(), eb.Bytes()) {
						diff = append(diff, name)
						break
					}
				} else if !reflect.DeepEqual(ea.Interface(), eb.Interface()) {
					diff = append(diff, name)
					break
				}
			}
		default:
			if !reflect.DeepEqual(fa.Interface(), fb.Interface()) {
				diff = append(diff, name)
			}
		}
	}
	return diff
}

func c45HasSCSV(v *c45Msg) bool {
	for _, c := range v.CipherSuites {
		if c == 0x00ff {
			return true
		}
	}
	return false
}

// c45Expected is the value unmarshal(marshal(m)) must produce.
func c45Expected(m *c45Msg) *c45Msg {
	e := *m
	if m.Kind == "clientHello" && c45HasSCSV(m) {
		e.SecureRenegotiation = true
	}
	return &e
}

// exact returns a copy of b in an allocation of exactly len(b) bytes.
func c45Exact(b []byte) []byte {
	x := make([]byte, len(b))
	copy(x, b)
	return x
}

type c45Witness struct {
	Origin string  `json:"origin"` // generated | mutated | random
	Kind   string  `json:"kind"`
	Flag   bool    `json:"has_sig_and_hash"`
	Msg    *c45Msg `json:"msg,omitempty"`   // generated value (origin generated)
	Input  []byte  `json:"input,omitempty"` // bytes given to unmarshal (other origins)
	Note   string  `json:"note,omitempty"`
}

type c45Stats struct {
	gen, genNontrivial, parsedAccept, parsedReject, reparsed, unrepresentable int64
}

// c45RoundTrip checks oracle 1 on a message value. origin tells where the
// value came from (generator, or the parse of some byte string).
func c45RoundTrip(r *vkit.Run, st *c45Stats, m *c45Msg, w *c45Witness) (marshalled []byte, ok bool) {
	var raw []byte
	if r.Try(func() interface{} { return w }, func() { raw = bfe_tls.VerifMarshal(m) }) {
		return nil, false
	}
	var back *c45Msg
	var accepted bool
	in := c45Exact(raw)
	if r.Try(func() interface{} { return w }, func() { back, accepted = bfe_tls.VerifUnmarshal(m.Kind, m.HasSigAndHash, in) }) {
		return raw, false
	}
	if !accepted {
		r.Violation("roundtrip:"+m.Kind+":marshalled-message-rejected",
			fmt.Sprintf("%s (%s): unmarshal rejects the %d bytes marshal produced", m.Kind, w.Origin, len(raw)), w)
		return raw, false
	}
	if fs := c45Diff(c45Expected(m), back); len(fs) > 0 {
		for _, f := range fs {
			r.Violation("roundtrip:"+m.Kind+":"+f,
				fmt.Sprintf("%s (%s): field %s differs after unmarshal(marshal(m))", m.Kind, w.Origin, f), w)
		}
		return raw, false
	}
	return raw, true
}

// c45Parse checks oracle 2 on one byte string.
func c45Parse(r *vkit.Run, st *c45Stats, kind string, flag bool, b []byte, origin string) {
	in := c45Exact(b)
	w := &c45Witness{Origin: origin, Kind: kind, Flag: flag, Input: b}
	var v *c45Msg
	var accepted bool
	if r.Try(func() interface{} { return w }, func() { v, accepted = bfe_tls.VerifUnmarshal(kind, flag, in) }) {
		return
	}
	if !accepted {
		atomic.AddInt64(&st.parsedReject, 1)
		return
	}
	atomic.AddInt64(&st.parsedAccept, 1)
	if !c45Representable(v) {
		atomic.AddInt64(&st.unrepresentable, 1)
		r.Count("unrepresentable_"+kind, 1)
		return
	}
	w2 := *w
	w2.Note = "value obtained by parsing input; re-marshalled and parsed again"
	if _, ok := c45RoundTrip(r, st, v, &w2); ok {
		atomic.AddInt64(&st.reparsed, 1)
	}
}

func c45Nontrivial(m *c45Msg) bool {
	switch m.Kind {
	case "serverHelloDone":
		return false
	case "clientHello":
		return len(m.CipherSuites) > 0 || len(m.ServerName) > 0 || len(m.AlpnProtocols) > 0
	case "serverHello":
		return true
	}
	raw := len(m.Certificates) + len(m.Key) + len(m.Response) + len(m.Ciphertext) + len(m.VerifyData) + len(m.Proto) +
		len(m.CertificateTypes) + len(m.Signature) + len(m.Ticket) + len(m.MasterSecret)
	return raw > 0
}

// c45Mutants derives byte strings from a valid marshalled message.
func c45Mutants(g *vkit.Rand, raw []byte, full bool, emit func([]byte)) {
	n := len(raw)
	// truncation: every offset for small messages, a sample otherwise
	if n <= 400 || full {
		for k := 0; k < n; k++ {
			emit(raw[:k])
		}
	} else {
		for i := 0; i < 64; i++ {
			emit(raw[:g.Intn(n)])
		}
		for k := 0; k < 48 && k < n; k++ {
			emit(raw[:k])
			emit(raw[:n-1-k])
		}
	}
	// extension
	for k := 1; k <= 4; k++ {
		x := append(append([]byte{}, raw...), g.Bytes(k)...)
		emit(x)
		x = append(append([]byte{}, raw...), make([]byte, k)...)
		emit(x)
	}
	// every byte +-1 (this hits every length field) for small messages,
	// otherwise the first 96 bytes and a sample
	mut := func(i int) {
		for _, d := range []byte{1, 0xff} {
			x := append([]byte{}, raw...)
			x[i] += d
			emit(x)
		}
		if g.Chance(1, 4) {
			x := append([]byte{}, raw...)
			x[i] = []byte{0, 0xff, 0x80, 0x7f}[g.Intn(4)]
			emit(x)
		}
	}
	if n <= 400 || full {
		for i := 0; i < n; i++ {
			mut(i)
		}
	} else {
		for i := 0; i < 96; i++ {
			mut(i)
		}
		for k := 0; k < 64; k++ {
			mut(g.Intn(n))
		}
	}
	// length field +-1 combined with matching truncation / extension of the tail
	for k := 0; k < 16 && n > 4; k++ {
		i := g.Intn(n)
		x := append([]byte{}, raw...)
		x[i]++
		x = append(x, byte(g.Intn(256)))
		emit(x)
		y := append([]byte{}, raw[:n-1]...)
		if i < len(y) {
			y[i]--
		}
		emit(y)
	}
}

func c45(r *vkit.Run) {
	r.SetRule("message values: per kind (13 kinds incl. sessionState) fields drawn with boundary-biased lengths (0, 1, max, 31..33, 127..129, 254..257, 65535) inside the representable domain; " +
		"each is marshalled, parsed from an exactly-sized allocation and compared field by field. Byte strings: for every generated message all truncations, +-1 on every byte (so every length field), " +
		"overwrite with 0/ff/80/7f, 1..4 appended bytes, length+-1 combined with tail change (sampled for messages > 400 bytes), plus random strings (0..120 bytes, half with a correct type/length prefix); " +
		"each is parsed from an exactly-sized allocation under recover; accepted + representable values are re-marshalled and re-parsed and must be equal. " +
		"Excluded corners (encoding cannot carry them / RFC minimum sizes): empty certificates and DNs, ALPN/NPN names outside 1..255, random != 32 bytes, sessionTicket without ticketSupported, " +
		"signatureAndHashes without the TLS1.2 flag. clientHello.secureRenegotiation is expected as flag || SCSV(0x00ff) offered. " +
		"Non-trivial generated value = has at least one non-empty variable-length field; every byte string differing from a valid encoding is non-trivial. Distinct = hash(kind, flag, bytes). " +
		"Structured wire messages (built by an own RFC encoder, not by marshal): F1 hello kind x extension type (10 named by bfe_tls + 5 unknown) x body (all lengths 0..5, thorough 0..40, with zero/ff/length-consistent/random fill; " +
		"valid body with 1-/2-byte inner length = actual-1, actual+1, 0, 1, odd, max; body cut/extended by 1,2; every body byte set to 0,1,-1,+1,80,ff) x position (only, first, middle, last; thorough every position among <= 6 extensions), " +
		"outer framing consistent; F2 every length-prefixed vector of every message kind (session id, cipher suites, compression methods, extensions block, extension bodies and their inner lists, certificate list/entries, " +
		"certificate types, signature algorithms, CA names, OCSP response, ticket, signature, NPN proto/padding, sessionState secret/certs/count): declared length 0,1,a-1,a+1,a+2,odd,max,to-end,1-past-end with the rest untouched, and content resized to 0,1,2,3,a-2..a+2,max " +
		"with all enclosing lengths recomputed; F3 extensions-block length +-1,+-2, +1/+2 with bytes appended, no/empty block, truncation at every byte of the last extension with and without the block length repaired. " +
		"Each structured message is one evaluation: parsed from an exact allocation, from the middle of a larger buffer with cap==len, and with cap>len under two surroundings (same result required - a re-slice into spare capacity is a read outside the message); accepted+representable values go through the round-trip oracle. " +
		"Run is inconclusive unless every named extension type had a zero-length body in each of the four positions (in particular LAST) and the len1..3/valid/trunc/outer classes in last position, in both hello kinds. " +
		"Not judged (inside the message, outside the statement): whether the outcome depends on message bytes after the declared body of an extension; it is measured against alternative opaque followers and reported as observed_dependence_* counters.")
	r.Assume("messages observed through bfe_tls.VerifMarshal/VerifUnmarshal (field-for-field mirrors, raw cache empty so marshal() runs)")
	st := &c45Stats{}
	if r.Replay != "" {
		// a witness is either the case itself or (panics caught by r.Try)
		// an envelope {"case": ..., "panic": ..., "stack": ...}
		var env struct {
			c45Witness
			Case *c45Witness `json:"case"`
		}
		if err := r.LoadReplay(&env); err != nil {
			r.Inconclusive(err.Error())
			return
		}
		w := env.c45Witness
		if env.Case != nil {
			w = *env.Case
		}
		switch {
		case w.Msg != nil && w.Origin == "generated":
			c45RoundTrip(r, st, w.Msg, &w)
		case w.Origin == "structured":
			c45SEval(r, st, nil, &c45SCase{Kind: w.Kind, Flag: w.Flag, Ext: "-", Class: "replay", Pos: "-", Msg: w.Input})
			r.SetMinDistinct(0)
			return
		default:
			c45Parse(r, st, w.Kind, w.Flag, w.Input, w.Origin)
		}
		r.Evals(1)
		r.SetMinDistinct(0)
		return
	}

	// tier sizes (case counts): generated values, of which every mutEvery-th is mutated
	nGen := r.N(200000, 2000000)
	mutEvery := r.N(100, 100)
	nRandom := r.N(100000, 2000000)
	var perKindGen [13]int64

	vkit.Parallel(nGen, 0, func(i int) {
		g := r.Rng("gen", i)
		ki := i % len(c45Kinds)
		kind := c45Kinds[ki]
		m := c45Gen(kind, g)
		if !c45Representable(m) {
			r.Violation("harness:generator-left-domain", "generator bug", m)
			return
		}
		w := &c45Witness{Origin: "generated", Kind: kind, Flag: m.HasSigAndHash, Msg: m}
		raw, ok := c45RoundTrip(r, st, m, w)
		nt := c45Nontrivial(m)
		atomic.AddInt64(&st.gen, 1)
		if nt {
			atomic.AddInt64(&st.genNontrivial, 1)
		}
		atomic.AddInt64(&perKindGen[ki], 1)
		r.Case(vkit.Hash64("gen", kind, fmt.Sprint(m.HasSigAndHash), string(raw)), nt)
		if r.WantSample() && nt && i%977 == 0 {
			r.Sample(map[string]interface{}{"kind": kind, "marshalled_len": len(raw), "roundtrip_ok": ok})
		}
		if !ok || raw == nil || i%mutEvery != 0 {
			return
		}
		// hostile strings derived from this valid encoding; small messages so
		// that "every offset" stays cheap
		if len(raw) > 3000 {
			return
		}
		c45Mutants(g.Fork(), raw, false, func(b []byte) {
			flag := m.HasSigAndHash
			c45Parse(r, st, kind, flag, b, "mutated")
			r.Case(vkit.Hash64("mut", kind, fmt.Sprint(flag), string(b)), true)
			if kind == "certificateRequest" || kind == "certificateVerify" {
				// the same bytes under the other context flag
				c45Parse(r, st, kind, !flag, b, "mutated")
				r.Case(vkit.Hash64("mut", kind, fmt.Sprint(!flag), string(b)), true)
			}
		})
	})

	typeByte := map[string]byte{"clientHello": 1, "serverHello": 2, "newSessionTicket": 4, "certificate": 11, "serverKeyExchange": 12,
		"certificateRequest": 13, "serverHelloDone": 14, "certificateVerify": 15, "clientKeyExchange": 16, "finished": 20,
		"certificateStatus": 22, "nextProto": 67}
	vkit.Parallel(nRandom, 0, func(i int) {
		g := r.Rng("random", i)
		kind := c45Kinds[i%len(c45Kinds)]
		n := g.Intn(121)
		b := g.Bytes(n)
		if g.Bool() && n >= 4 && kind != "sessionState" {
			b[0] = typeByte[kind]
			b[1], b[2], b[3] = 0, byte((n-4)>>8), byte(n-4)
			// small values make nested length fields plausible
			if g.Bool() {
				for k := 4; k < n; k++ {
					if g.Chance(1, 2) {
						b[k] = byte(g.Intn(8))
					}
				}
			}
		}
		flag := g.Bool()
		c45Parse(r, st, kind, flag, b, "random")
		r.Case(vkit.Hash64("rnd", kind, fmt.Sprint(flag), string(b)), n > 0)
	})

	// structure-aware wire messages (c45struct.go)
	c45Structured(r, st)

	r.Count("generated_values", st.gen)
	r.Count("generated_nontrivial", st.genNontrivial)
	r.Count("bytestrings_accepted", st.parsedAccept)
	r.Count("bytestrings_rejected", st.parsedReject)
	r.Count("accepted_reparsed_equal", st.reparsed)
	r.Count("accepted_unrepresentable_skipped", st.unrepresentable)
	for i, k := range c45Kinds {
		r.Count("gen_"+k, perKindGen[i])
		if perKindGen[i] == 0 {
			r.Inconclusive("no value generated for kind " + k)
		}
	}
	if st.parsedAccept == 0 || st.parsedReject == 0 {
		r.Inconclusive("byte-string workload did not reach both accept and reject outcomes of unmarshal")
	}
}
