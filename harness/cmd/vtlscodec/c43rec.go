package main

import (
	"bytes"
	"crypto/aes"
	"crypto/cipher"
	"crypto/des"
	"crypto/hmac"
	"crypto/sha1"
	"fmt"
	"hash"
	"sync/atomic"

	"github.com/bfenetworks/bfe/bfe_tls"
	"github.com/tjfoc/gmsm/sm3"
	"github.com/tjfoc/gmsm/sm4"

	"verifharness/vkit"
)

// C43, record-layer family: the padding rule as the record layer applies it.
//
// The direct family (c43.go) calls removePadding itself; which remover the
// record layer SELECTS for a protocol version, and whether it honours the
// remover's verdict, is only visible through halfConn.decrypt. This family
// builds a read halfConn through bfe_tls.VerifRecordDecrypt (real cipherSuites
// entry, real prepareCipherSpec/changeCipherSpec, real decrypt) and feeds it
// records that the harness encrypted itself (crypto/aes, crypto/des, gmsm/sm4
// in CBC mode; HMAC-SHA1 / SSL 3.0 MAC / HMAC-SM3 written here) so that the
// decrypted payload - the thing the statement quantifies over - is exactly
// the plaintext the harness chose.
//
// Judge (c43RecJudge), for the decrypted payload P of a record:
//   TLS 1.0 / 1.1 / 1.2: (accept, remove) = c43Ref(P), the statement.
//     !accept                          -> the record must be rejected;
//     accept, and the bytes before the padding end in a MAC that is correct
//     for the bytes before it         -> the record must be accepted and
//                                         exactly remove + macSize bytes stripped;
//     accept, MAC not correct          -> no verdict (MAC is not C43's concern).
//   SSL 3.0 (its padding content is unspecified; the statement is TLS's rule):
//     p+1 > len(P)                                     -> must be rejected;
//     all final p+1 bytes = p, p < block size, MAC ok  -> must be accepted, exact strip;
//     anything else                                    -> observed and counted, no verdict.

const (
	c43RecType = 23 // application_data
)

var c43RecVersions = []struct {
	v    uint16
	name string
}{
	{bfe_tls.VersionSSL30, "ssl30"},
	{bfe_tls.VersionTLS10, "tls10"},
	{bfe_tls.VersionTLS11, "tls11"},
	{bfe_tls.VersionTLS12, "tls12"},
}

type c43RecSuiteKind struct {
	family string // record-layer family: block cipher + key length + MAC
	block  func(key []byte) (cipher.Block, error)
	sm3    bool // HMAC-SM3 at every version (macSM3 ignores the version); else SHA1 (SSL 3.0 MAC at SSL 3.0)
}

var c43RecKinds = map[uint16]c43RecSuiteKind{
	bfe_tls.TLS_RSA_WITH_AES_128_CBC_SHA:         {"aes128-sha1", aes.NewCipher, false},
	bfe_tls.TLS_ECDHE_RSA_WITH_AES_128_CBC_SHA:   {"aes128-sha1", aes.NewCipher, false},
	bfe_tls.TLS_ECDHE_ECDSA_WITH_AES_128_CBC_SHA: {"aes128-sha1", aes.NewCipher, false},
	bfe_tls.TLS_RSA_WITH_AES_256_CBC_SHA:         {"aes256-sha1", aes.NewCipher, false},
	bfe_tls.TLS_ECDHE_RSA_WITH_AES_256_CBC_SHA:   {"aes256-sha1", aes.NewCipher, false},
	bfe_tls.TLS_ECDHE_ECDSA_WITH_AES_256_CBC_SHA: {"aes256-sha1", aes.NewCipher, false},
	bfe_tls.TLS_RSA_WITH_3DES_EDE_CBC_SHA:        {"3des-sha1", des.NewTripleDESCipher, false},
	bfe_tls.TLS_ECDHE_RSA_WITH_3DES_EDE_CBC_SHA:  {"3des-sha1", des.NewTripleDESCipher, false},
	bfe_tls.TLS_RSA_WITH_SM4_SM3:                 {"sm4-sm3", sm4.NewCipher, true},
}

// c43RecWitness is everything needed to rebuild one record.
type c43RecWitness struct {
	Family  string `json:"family"` // always "record"
	Version uint16 `json:"version"`
	VerName string `json:"version_name"`
	Suite   uint16 `json:"suite"`
	Key     []byte `json:"key"`
	IV      []byte `json:"iv"`      // connection IV (implicit-IV versions: the CBC IV of this record)
	RecIV   []byte `json:"rec_iv"`  // explicit per-record IV (TLS 1.1+), sent in clear before the ciphertext
	MacKey  []byte `json:"mac_key"` //
	Seq     uint64 `json:"seq"`
	Plain   []byte `json:"plain"` // the decrypted CBC payload: data || MAC || padding window
	Variant string `json:"variant"`
	P       int    `json:"last_byte"`
	// distance from the last byte of the byte that was made wrong (0 = none / not a one-wrong case)
	WrongDist int `json:"wrong_dist"`
}

// shapes counted per version
const (
	c43sValidAccept      = iota // spec accepts, MAC correct: must be accepted
	c43sValidP255               // ... with p = 255
	c43sOneWrongNearest         // one wrong byte at distance 1
	c43sOneWrongFarthest        // one wrong byte at distance p
	c43sOneWrongFar255          // one wrong byte at distance 255 (p = 255)
	c43sOneWrongInner           // one wrong byte at 1 < distance < p
	c43sAllWrong                // only the length byte right, MAC correct for the length byte
	c43sStrip1                  // invalid padding whose MAC is correct if exactly one byte is stripped
	c43sOverlong                // p+1 > len(P)
	c43sObsAccept               // observed: accepted
	c43sObsReject               // observed: rejected
	c43sNoVerdict               // judged without verdict (see judge)
	c43sN
)

var c43sNames = [c43sN]string{"valid_mac_ok", "valid_p255", "one_wrong_nearest", "one_wrong_farthest", "one_wrong_dist255",
	"one_wrong_inner", "all_wrong_but_length_byte", "bad_padding_mac_ok_after_1_byte_strip", "overlong",
	"observed_accept", "observed_reject", "no_verdict"}

type c43RecStats struct {
	n [4][c43sN]int64
}

type c43RecCrypto struct {
	kind    c43RecSuiteKind
	version uint16
	blk     cipher.Block
	macKey  []byte
	h       hash.Hash // HMAC (TLS / SM3) or plain SHA1 (SSL 3.0)
	ssl30   bool      // SSL 3.0 MAC construction
}

func c43NewCrypto(kind c43RecSuiteKind, version uint16, key, macKey []byte) (*c43RecCrypto, error) {
	blk, err := kind.block(key)
	if err != nil {
		return nil, err
	}
	c := &c43RecCrypto{kind: kind, version: version, blk: blk, macKey: macKey}
	switch {
	case kind.sm3:
		c.h = hmac.New(sm3.New, macKey)
	case version == bfe_tls.VersionSSL30:
		c.h = sha1.New()
		c.ssl30 = true
	default:
		c.h = hmac.New(sha1.New, macKey)
	}
	return c, nil
}

// mac is the record MAC of data at sequence number seq, written from
// RFC 2246 6.2.3.1 (HMAC(seq || type || version || length || data)) and
// RFC 6101 5.2.3.1 (hash(key || pad2 || hash(key || pad1 || seq || type || length || data)),
// pad length 40 for SHA-1).
func (c *c43RecCrypto) mac(seq uint64, data []byte) []byte {
	var s [8]byte
	for i := 0; i < 8; i++ {
		s[i] = byte(seq >> (8 * uint(7-i)))
	}
	l := []byte{byte(len(data) >> 8), byte(len(data))}
	if c.ssl30 {
		c.h.Reset()
		c.h.Write(c.macKey)
		c.h.Write(bytes.Repeat([]byte{0x36}, 40))
		c.h.Write(s[:])
		c.h.Write([]byte{c43RecType})
		c.h.Write(l)
		c.h.Write(data)
		inner := c.h.Sum(nil)
		c.h.Reset()
		c.h.Write(c.macKey)
		c.h.Write(bytes.Repeat([]byte{0x5c}, 40))
		c.h.Write(inner)
		return c.h.Sum(nil)
	}
	c.h.Reset()
	c.h.Write(s[:])
	c.h.Write([]byte{c43RecType, byte(c.version >> 8), byte(c.version)})
	c.h.Write(l)
	c.h.Write(data)
	return c.h.Sum(nil)
}

func (c *c43RecCrypto) macSize() int { return c.h.Size() }

// c43RecEval encrypts w.Plain into a record, runs the real record layer on it
// and judges the outcome.
func c43RecEval(r *vkit.Run, st *c43RecStats, vi int, cr *c43RecCrypto, w *c43RecWitness) {
	bs := cr.blk.BlockSize()
	ms := cr.macSize()
	n := len(w.Plain)
	explicit := w.Version >= bfe_tls.VersionTLS11
	ivLen := 0
	iv := w.IV
	if explicit {
		ivLen = bs
		iv = w.RecIV
	}
	rec := make([]byte, 5+ivLen+n)
	rec[0], rec[1], rec[2] = c43RecType, byte(w.Version>>8), byte(w.Version)
	rec[3], rec[4] = byte((ivLen+n)>>8), byte(ivLen+n)
	copy(rec[5:], w.RecIV[:ivLen])
	cipher.NewCBCEncrypter(cr.blk, iv).CryptBlocks(rec[5+ivLen:], w.Plain)

	var seq [8]byte
	for i := 0; i < 8; i++ {
		seq[i] = byte(w.Seq >> (8 * uint(7-i)))
	}
	var found, ok bool
	var prefixLen int
	var data []byte
	if r.Try(func() interface{} { return w }, func() {
		found, ok, prefixLen, _, data, _ = bfe_tls.VerifRecordDecrypt(w.Suite, w.Version, w.Key, w.IV, w.MacKey, seq, rec)
	}) {
		return
	}
	if !found {
		r.Inconclusive(fmt.Sprintf("VerifRecordDecrypt: cipher suite %#04x not found", w.Suite))
		return
	}
	if ok {
		atomic.AddInt64(&st.n[vi][c43sObsAccept], 1)
	} else {
		atomic.AddInt64(&st.n[vi][c43sObsReject], 1)
	}

	specAccept, remove := c43Ref(w.Plain)
	macOK := false
	dataLen := n - remove - ms
	if specAccept && dataLen >= 0 {
		macOK = hmac.Equal(cr.mac(w.Seq, w.Plain[:dataLen]), w.Plain[dataLen:dataLen+ms])
	}
	overlong := n == 0 || w.P+1 > n
	sigp := "cbc-rec:" + w.VerName + ":"
	desc := fmt.Sprintf("%s suite %#04x payload len=%d last byte=%d variant=%s wrong byte at distance %d",
		w.VerName, w.Suite, n, w.P, w.Variant, w.WrongDist)

	mustAccept, mustReject := false, false
	if w.Version == bfe_tls.VersionSSL30 {
		switch {
		case overlong:
			mustReject = true
		case specAccept && macOK && w.P < bs:
			mustAccept = true
		}
	} else {
		switch {
		case !specAccept:
			mustReject = true
		case macOK:
			mustAccept = true
		}
	}
	switch {
	case mustAccept:
		atomic.AddInt64(&st.n[vi][c43sValidAccept], 1)
		if w.P == 255 {
			atomic.AddInt64(&st.n[vi][c43sValidP255], 1)
		}
		if !ok {
			r.Violation(sigp+"valid-padding-rejected", desc+": all final p+1 bytes equal p and the MAC is correct, record reported bad", w)
			return
		}
		if got := len(data) - prefixLen; got != dataLen || prefixLen != 5+ivLen {
			sig := sigp + "wrong-removed-count"
			r.Violation(sig, fmt.Sprintf("%s: accepted with %d plaintext bytes after a %d-byte prefix; exactly p+1=%d padding bytes (+%d MAC) removed leaves %d after %d",
				desc, got, prefixLen, remove, ms, dataLen, 5+ivLen), w)
		}
	case mustReject:
		if overlong {
			atomic.AddInt64(&st.n[vi][c43sOverlong], 1)
		}
		if w.Version != bfe_tls.VersionSSL30 && !overlong {
			switch {
			case w.Variant == "one-wrong" && w.WrongDist == 255:
				atomic.AddInt64(&st.n[vi][c43sOneWrongFar255], 1)
				atomic.AddInt64(&st.n[vi][c43sOneWrongFarthest], 1)
			case w.Variant == "one-wrong" && w.WrongDist == w.P:
				atomic.AddInt64(&st.n[vi][c43sOneWrongFarthest], 1)
			case w.Variant == "one-wrong" && w.WrongDist == 1:
				atomic.AddInt64(&st.n[vi][c43sOneWrongNearest], 1)
			case w.Variant == "one-wrong":
				atomic.AddInt64(&st.n[vi][c43sOneWrongInner], 1)
			case w.Variant == "all-wrong":
				atomic.AddInt64(&st.n[vi][c43sAllWrong], 1)
			case w.Variant == "strip1":
				atomic.AddInt64(&st.n[vi][c43sStrip1], 1)
			}
		}
		if ok {
			sig := "invalid-padding-accepted"
			switch {
			case overlong:
				sig = "padding-longer-than-record-accepted"
			case w.Variant == "one-wrong" && w.WrongDist == 255:
				sig = "p255-farthest-byte-unchecked"
			case w.Variant == "one-wrong":
				sig = "wrong-padding-byte-accepted"
			case w.Variant == "all-wrong":
				sig = "padding-content-unchecked-only-length-byte"
			case w.Variant == "strip1":
				sig = "bad-padding-verdict-ignored-mac-over-one-byte-strip"
			}
			r.Violation(sigp+sig, fmt.Sprintf("%s: the final p+1 bytes are not all p (or do not fit), yet the record layer accepted the record (%d plaintext bytes)",
				desc, len(data)-prefixLen), w)
		}
	default:
		atomic.AddInt64(&st.n[vi][c43sNoVerdict], 1)
	}
}

// c43RecMinLen is the smallest decrypted payload the record layer looks at.
func c43RoundUp(a, b int) int { return a + (b-a%b)%b }

func c43Record(r *vkit.Run, masks []byte) {
	suites := bfe_tls.VerifCBCSuites()
	if len(suites) == 0 {
		r.Inconclusive("VerifCBCSuites: the cipher suite table has no CBC suite")
		return
	}
	st := &c43RecStats{}
	famSeen := map[string]bool{}
	famRecords := map[string]*int64{}
	for si, s := range suites {
		kind, known := c43RecKinds[s.ID]
		if !known {
			r.Inconclusive(fmt.Sprintf("CBC cipher suite %#04x of the table is unknown to the harness (cannot encrypt for it)", s.ID))
			continue
		}
		// quick: the full window sweep on the first suite of each record-layer
		// family, a reduced sweep (boundary p only) on its siblings, which
		// differ only in the key exchange. thorough: full sweep everywhere.
		full := !r.Quick() || !famSeen[kind.family]
		famSeen[kind.family] = true
		if famRecords[kind.family] == nil {
			famRecords[kind.family] = new(int64)
		}
		cnt := famRecords[kind.family]
		bs := s.BlockSize
		for vi, ver := range c43RecVersions {
			vi, ver, si, s := vi, ver, si, s
			kg := r.Rng("c43rec-keys", si, vi)
			key, iv, macKey := kg.Bytes(s.KeyLen), kg.Bytes(s.IVLen), kg.Bytes(s.MacLen)
			vkit.Parallel(256, 0, func(p int) {
				if !full && !(p <= 1 || p == bs-1 || p == bs || p == 255) {
					return
				}
				cr, err := c43NewCrypto(kind, ver.v, key, macKey)
				if err != nil {
					r.Inconclusive("harness cipher: " + err.Error())
					return
				}
				ms := cr.macSize()
				if ms != s.MacSize || cr.blk.BlockSize() != bs {
					r.Inconclusive(fmt.Sprintf("suite %#04x: table says block %d / MAC %d, harness primitives give %d / %d",
						s.ID, bs, s.MacSize, cr.blk.BlockSize(), ms))
					return
				}
				g := r.Rng("c43rec", si, vi, p)
				seqs := []uint64{0, 1 + uint64(g.Intn(1<<30)), 0xffffffff00000000 | uint64(g.Intn(1<<30))}
				nrec := int64(0)
				mk := func(plain []byte, variant string, dist int, seq uint64) *c43RecWitness {
					return &c43RecWitness{Family: "record", Version: ver.v, VerName: ver.name, Suite: s.ID, Key: key, IV: iv,
						RecIV: g.Bytes(bs), MacKey: macKey, Seq: seq, Plain: plain, Variant: variant, P: p, WrongDist: dist}
				}
				eval := func(w *c43RecWitness) {
					c43RecEval(r, st, vi, cr, w)
					r.Evals(1)
					nrec++
				}
				// data || MAC(data) || window, window = p+1 bytes
				build := func(d int, seq uint64) []byte {
					data := g.Bytes(d)
					for i := range data { // keep data bytes != p so that only the window decides
						if int(data[i]) == p {
							data[i] ^= 0x5a
						}
					}
					plain := append(data, cr.mac(seq, data)...)
					for i := 0; i <= p; i++ {
						plain = append(plain, byte(p))
					}
					return plain
				}
				d0 := (bs - (ms+p+1)%bs) % bs // smallest data length that block-aligns data||MAC||window
				ds := []int{d0, d0 + bs}
				if !r.Quick() {
					ds = append(ds, d0+5*bs)
				}
				for di, d := range ds {
					seq := seqs[di%len(seqs)]
					// valid: all final p+1 bytes = p
					plain := build(d, seq)
					eval(mk(plain, "valid", 0, seq))
					r.CaseS(fmt.Sprintf("rec|%s|%04x|%d|%d|valid", ver.name, s.ID, p, d), true)
					if p == 0 {
						continue
					}
					// all-wrong: only the length byte is right (what an SSL 3.0 peer may send)
					aw := append([]byte(nil), plain...)
					for i := len(aw) - 1 - p; i < len(aw)-1; i++ {
						b := byte(g.Intn(256))
						if int(b) == p {
							b ^= 0x5a
						}
						aw[i] = b
					}
					eval(mk(aw, "all-wrong", 0, seq))
					r.CaseS(fmt.Sprintf("rec|%s|%04x|%d|%d|all-wrong", ver.name, s.ID, p, d), true)
					// one-wrong: every position of the window (quick: on the shortest record only,
					// one mask per position; thorough: every mask, every record length)
					if di > 0 && r.Quick() {
						continue
					}
					for j := 1; j <= p; j++ {
						ms2 := masks
						if r.Quick() {
							ms2 = masks[(p+j)%len(masks) : (p+j)%len(masks)+1]
						}
						for _, m := range ms2 {
							ow := append([]byte(nil), plain...)
							ow[len(ow)-1-j] ^= m
							eval(mk(ow, "one-wrong", j, seq))
						}
					}
					r.CaseS(fmt.Sprintf("rec|%s|%04x|%d|%d|one-wrong", ver.name, s.ID, p, d), true)
				}
				// strip1: data || MAC(data) || p. removePadding strips exactly one byte when it
				// reports bad padding, so this MAC verifies and only the padding verdict is
				// left to reject the record. p = 0 is valid padding (must be accepted).
				// Short records make p+1 > len (overlong), long ones keep p inside.
				e0 := (bs - (ms+1)%bs) % bs
				for ei, d := range []int{e0, e0 + bs, e0 + c43RoundUp(256, bs), e0 + c43RoundUp(256, bs) + bs} {
					seq := seqs[(ei+1)%len(seqs)]
					data := g.Bytes(d)
					plain := append(data, cr.mac(seq, data)...)
					plain = append(plain, byte(p))
					eval(mk(plain, "strip1", 0, seq))
					r.CaseS(fmt.Sprintf("rec|%s|%04x|%d|%d|strip1", ver.name, s.ID, p, d), p+1 <= len(plain))
				}
				// overlong: every block-aligned payload length shorter than p+1 that the
				// record layer looks at (>= roundUp(MAC+1, block)): all bytes p, and random
				// bytes with last byte p
				for L := c43RoundUp(ms+1, bs); L < p+1; L += bs {
					eval(mk(bytes.Repeat([]byte{byte(p)}, L), "overlong-all-p", 0, 0))
					f := g.Bytes(L)
					f[L-1] = byte(p)
					eval(mk(f, "overlong-filler", 0, 0))
					r.CaseS(fmt.Sprintf("rec|%s|%04x|%d|%d|overlong", ver.name, s.ID, p, L), false)
				}
				atomic.AddInt64(cnt, nrec)
			})
		}
	}
	var total int64
	for vi, ver := range c43RecVersions {
		for s := 0; s < c43sN; s++ {
			r.Count("rec_"+ver.name+"_"+c43sNames[s], st.n[vi][s])
			if s != c43sNoVerdict {
				total += st.n[vi][s]
			}
		}
		need := []int{c43sValidAccept, c43sOverlong, c43sObsAccept, c43sObsReject}
		if ver.v != bfe_tls.VersionSSL30 { // SSL 3.0: valid padding is judged for p < block size only
			need = append(need, c43sValidP255, c43sOneWrongNearest, c43sOneWrongFarthest, c43sOneWrongFar255, c43sOneWrongInner, c43sAllWrong, c43sStrip1)
		}
		for _, s := range need {
			if st.n[vi][s] == 0 {
				r.Inconclusive(fmt.Sprintf("record-layer family: shape %s never occurred at %s", c43sNames[s], ver.name))
			}
		}
	}
	for _, fam := range []string{"aes128-sha1", "aes256-sha1", "3des-sha1"} {
		if famRecords[fam] == nil || *famRecords[fam] == 0 {
			r.Inconclusive("record-layer family: no record was driven through a " + fam + " cipher suite")
		}
	}
	for fam, c := range famRecords {
		r.Count("rec_records_"+fam, *c)
	}
	r.Count("rec_cbc_suites_in_table", int64(len(suites)))
	r.Sample(map[string]interface{}{"family": "record", "version": "tls10", "suite": "TLS_RSA_WITH_AES_128_CBC_SHA",
		"plain": "data(11) || HMAC-SHA1(20) || de ad be ef .. 06 (p=6, only the length byte right)", "variant": "all-wrong", "must": "reject"})
	r.Sample(map[string]interface{}{"family": "record", "version": "tls12", "suite": "TLS_RSA_WITH_3DES_EDE_CBC_SHA",
		"plain": "data(4) || HMAC-SHA1(20) || ff x256 with the byte at distance 255 XOR 0x80", "variant": "one-wrong", "must": "reject"})
	r.Sample(map[string]interface{}{"family": "record", "version": "tls11", "suite": "TLS_RSA_WITH_AES_256_CBC_SHA",
		"plain": "data(11) || HMAC-SHA1(data) || 07 (MAC verifies once one byte is stripped)", "variant": "strip1", "must": "reject"})
}

// c43RecReplay re-executes one record witness.
func c43RecReplay(r *vkit.Run, w *c43RecWitness) {
	kind, known := c43RecKinds[w.Suite]
	if !known {
		r.Inconclusive(fmt.Sprintf("replay: cipher suite %#04x unknown to the harness", w.Suite))
		return
	}
	vi := -1
	for i, ver := range c43RecVersions {
		if ver.v == w.Version {
			vi = i
			w.VerName = ver.name
		}
	}
	if vi < 0 {
		r.Inconclusive(fmt.Sprintf("replay: version %#04x", w.Version))
		return
	}
	cr, err := c43NewCrypto(kind, w.Version, w.Key, w.MacKey)
	if err != nil || len(w.Plain)%cr.blk.BlockSize() != 0 || len(w.RecIV) < cr.blk.BlockSize() || len(w.IV) != cr.blk.BlockSize() {
		r.Inconclusive("replay: malformed record witness")
		return
	}
	c43RecEval(r, &c43RecStats{}, vi, cr, w)
}
