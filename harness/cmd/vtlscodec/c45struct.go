package main

import (
	"encoding/hex"
	"fmt"
	"sort"
	"sync"
	"sync/atomic"
	"time"

	"github.com/bfenetworks/bfe/bfe_tls"

	"verifharness/vkit"
)

// Structure-aware part of the C45 parser-robustness workload.
//
// The byte-level mutants of c45.go start from marshal() output, so they never
// contain a WELL-FRAMED message whose inner structure marshal() cannot emit
// (e.g. a signature_algorithms extension with a zero-length body as the last
// extension of a ClientHello whose extensions-block and handshake lengths are
// all consistent). This file builds such messages directly on the wire, from
// an encoder written from RFC 5246 7.4 / RFC 6066 / RFC 4492 / RFC 5077 /
// RFC 7301 / the NPN draft - never from bfe's marshal().
//
// Families:
//   F1 extension bodies: hello kind x extension type (the 10 types bfe_tls names
//      + unknown ones) x body (every length 0..5 (thorough 0..40) with zero / ff /
//      length-consistent / random fill; the canonical valid body with its 1- and
//      2-byte inner length set to actual-1, actual+1, 0, 1, odd, max; body cut /
//      extended by 1,2; every byte of the canonical body set to 0,1,-1,+1,80,ff)
//      x position (only, first, middle, last; thorough: every position among up
//      to 6 extensions). Outer framing is consistent.
//   F2 vectors: every message kind as a tree of length-prefixed vectors (session
//      id, cipher suites, compression methods, extensions block, every extension
//      body and every list inside it, certificate list and entries, certificate
//      types, CA names, ticket, signature, ...). For every vector: declared length
//      0, 1, actual-1, actual+1, odd, max, 1 past the end of the message with
//      everything else untouched (A), and content really resized to 0, 1,
//      actual-1, actual+1, max with every enclosing length recomputed (B).
//   F3 outer framing: extensions-block length off by +-1/+-2, off by +1/+2 with
//      that many bytes appended, truncation at every byte of the last extension
//      with and without the extensions-block length repaired.
//
// Oracle per message b (kind, flag):
//   1. unmarshal(exact copy of b, cap == len) returns (r.Try: no panic; a read or
//      re-slice beyond b is a bounds panic).
//   2. b placed in the middle of a larger buffer and handed over as
//      buf[o:o+n:o+n] (cap == len): same accept/reject, same fields.
//   3. b handed over as buf[o:o+n] with cap > len, under two different
//      surroundings: same accept/reject and fields as 1 - a parser that re-slices
//      into the capacity reads outside the message without any panic.
//   4. accepted and representable: the round-trip oracle of c45.go.
// Observation only (not a violation, see c45ExtDependence): whether the outcome
// depends on bytes of the message that follow the declared body of the target
// extension.

// ---- wire tree ---------------------------------------------------------

// c45N is a node of a message tree: w bytes of big-endian length prefix (0 =
// none) followed by the content (raw, or the concatenation of the kids).
type c45N struct {
	name string
	w    int
	raw  []byte
	kids []*c45N
	ext  string // extension type (hex) this node belongs to, "" outside extensions
}

type c45Ov struct {
	node       *c45N
	hasContent bool
	content    []byte
	declared   int64 // < 0: computed
}

func c45Put(b []byte, w int, v int64) {
	for i := w - 1; i >= 0; i-- {
		b[i] = byte(v)
		v >>= 8
	}
}

// enc appends the encoding of n to buf. start (optional) receives the offset
// of the content of every node.
func (n *c45N) enc(buf *[]byte, ov *c45Ov, start map[*c45N]int) {
	at := len(*buf)
	for i := 0; i < n.w; i++ {
		*buf = append(*buf, 0)
	}
	if start != nil {
		start[n] = len(*buf)
	}
	c0 := len(*buf)
	switch {
	case ov != nil && ov.node == n && ov.hasContent:
		*buf = append(*buf, ov.content...)
	case n.kids != nil:
		for _, k := range n.kids {
			k.enc(buf, ov, start)
		}
	default:
		*buf = append(*buf, n.raw...)
	}
	if n.w > 0 {
		l := int64(len(*buf) - c0)
		if ov != nil && ov.node == n && ov.declared >= 0 {
			l = ov.declared
		}
		c45Put((*buf)[at:at+n.w], n.w, l)
	}
}

func (n *c45N) bytes(ov *c45Ov) []byte {
	var b []byte
	n.enc(&b, ov, nil)
	return b
}

func c45Raw(name string, b ...byte) *c45N { return &c45N{name: name, raw: append([]byte{}, b...)} }
func c45Vec(name string, w int, kids ...*c45N) *c45N {
	if kids == nil {
		kids = []*c45N{}
	}
	return &c45N{name: name, w: w, kids: kids}
}
func c45VecRaw(name string, w int, b []byte) *c45N {
	return &c45N{name: name, w: w, raw: append([]byte{}, b...)}
}

// walk calls fn for every node with its path.
func (n *c45N) walk(path string, ext string, fn func(path string, ext string, n *c45N)) {
	p := n.name
	if path != "" {
		p = path + "/" + n.name
	}
	if n.ext != "" {
		ext = n.ext
	}
	fn(p, ext, n)
	for _, k := range n.kids {
		k.walk(p, ext, fn)
	}
}

// ---- extensions --------------------------------------------------------

var c45KnownExts = []uint16{0, 5, 10, 11, 13, 16, 21, 35, 13172, 0xff01}
var c45UnknownExts = []uint16{0x0001, 0x0017, 0x002b, 0x0a0a, 0xffff}

func c45ExtName(t uint16) string { return fmt.Sprintf("%04x", t) }

// c45ExtBody returns the body node (w=2) of a valid extension of type t for
// the hello kind; variant selects a second, larger shape.
func c45ExtBody(kind string, t uint16, variant int) *c45N {
	client := kind == "clientHello"
	body := func(kids ...*c45N) *c45N { return c45Vec("body", 2, kids...) }
	switch t {
	case 0: // server_name, RFC 6066 3
		if !client {
			return body()
		}
		if variant == 0 {
			return body(c45Vec("list", 2, c45Raw("type", 0), c45VecRaw("name", 2, []byte("a.bc"))))
		}
		return body(c45Vec("list", 2,
			c45Raw("type", 1), c45VecRaw("name", 2, []byte("xy")),
			c45Raw("type", 0), c45VecRaw("name", 2, []byte("www.example.org"))))
	case 5: // status_request, RFC 6066 8
		if !client {
			return body()
		}
		if variant == 0 {
			return body(c45Raw("type", 1), c45Vec("responders", 2), c45Vec("exts", 2))
		}
		return body(c45Raw("type", 1), c45Vec("responders", 2, c45VecRaw("id", 2, []byte{1, 2, 3})), c45VecRaw("exts", 2, []byte{9}))
	case 10: // supported_groups, RFC 4492 5.1.1
		if variant == 0 {
			return body(c45VecRaw("list", 2, []byte{0, 23}))
		}
		return body(c45VecRaw("list", 2, []byte{0, 23, 0, 24, 0, 25, 0x0a, 0x0a}))
	case 11: // ec_point_formats
		if variant == 0 {
			return body(c45VecRaw("list", 1, []byte{0}))
		}
		return body(c45VecRaw("list", 1, []byte{0, 1, 2}))
	case 13: // signature_algorithms, RFC 5246 7.4.1.4.1
		if variant == 0 {
			return body(c45VecRaw("list", 2, []byte{4, 1}))
		}
		return body(c45VecRaw("list", 2, []byte{4, 1, 5, 1, 6, 1, 4, 3, 5, 3, 2, 1}))
	case 16: // ALPN, RFC 7301
		if variant == 0 || !client {
			return body(c45Vec("list", 2, c45VecRaw("proto", 1, []byte("h2"))))
		}
		return body(c45Vec("list", 2, c45VecRaw("proto", 1, []byte("h2")), c45VecRaw("proto", 1, []byte("http/1.1"))))
	case 21: // padding, RFC 7685
		if variant == 0 {
			return body(c45Raw("zeros", 0, 0, 0, 0, 0, 0))
		}
		return body(c45Raw("zeros", make([]byte, 19)...))
	case 35: // session ticket, RFC 5077
		if !client || variant == 0 {
			return body()
		}
		return body(c45Raw("ticket", 0xde, 0xad, 0xbe, 0xef, 1, 2, 3))
	case 13172: // NPN
		if client {
			return body()
		}
		if variant == 0 {
			return body(c45VecRaw("proto", 1, []byte("h2")))
		}
		return body(c45VecRaw("proto", 1, []byte("h2")), c45VecRaw("proto", 1, []byte("spdy/3.1")))
	case 0xff01: // renegotiation_info, RFC 5746
		return body(c45Vec("data", 1))
	}
	if variant == 0 {
		return body(c45Raw("opaque", 0, 2, 1, 1))
	}
	return body(c45Raw("opaque", 0, 6, 0, 4, 3, 3, 3, 3))
}

// c45ExtNode is type(2) || body.
func c45ExtNode(t uint16, body *c45N) *c45N {
	return &c45N{name: c45ExtName(t), ext: c45ExtName(t), kids: []*c45N{c45Raw("type", byte(t>>8), byte(t)), body}}
}

func c45ExtRaw(t uint16, body []byte) []byte {
	b := []byte{byte(t >> 8), byte(t), byte(len(body) >> 8), byte(len(body))}
	return append(b, body...)
}

// fillers: extensions that both hello parsers accept and that are complete in
// themselves.
type c45Filler struct {
	t    uint16
	body []byte
}

var c45Fillers = []c45Filler{
	{0x0023, nil},
	{0x0015, []byte{0, 0, 0, 0, 0, 0}},
	{0xff01, []byte{0}},
	{0x0017, nil},
	{0x0010, []byte{0, 3, 2, 'h', '2'}},
	{0x0005, nil},
	{0x000b, []byte{1, 0}},
	{0x000a, []byte{0, 2, 0, 23}},
	{0x000d, []byte{0, 2, 4, 1}},
	{0x0000, []byte{0, 7, 0, 0, 4, 'a', '.', 'b', 'c'}},
	{0x7f01, []byte{1, 2, 3}},
}

// opaque extension types: no hello parser interprets them.
var c45Opaque = []uint16{0x0017, 0x0100, 0x0200, 0x0001, 0x0a0a, 0x7f7f, 0x0033}

func c45PickFiller(g *vkit.Rand, not uint16) c45Filler {
	for {
		f := c45Fillers[g.Intn(len(c45Fillers))]
		if f.t != not {
			return f
		}
	}
}

// c45HelloPre returns the hello up to (excluding) the extensions block; the
// 4-byte handshake header is a placeholder patched by c45HelloFrame.
func c45HelloPre(kind string, g *vkit.Rand) []byte {
	b := []byte{1, 0, 0, 0, 3, byte(g.Intn(4))}
	if kind == "serverHello" {
		b[0] = 2
	}
	b = append(b, g.Bytes(32)...)
	switch g.Intn(3) {
	case 0:
		b = append(b, 0)
	case 1:
		b = append(b, 32)
		b = append(b, g.Bytes(32)...)
	default:
		n := 1 + g.Intn(31)
		b = append(b, byte(n))
		b = append(b, g.Bytes(n)...)
	}
	if kind == "serverHello" {
		return append(b, 0xc0, 0x2f, 0)
	}
	suites := [][]byte{{0, 2, 0xc0, 0x2f}, {0, 6, 0xc0, 0x2f, 0xc0, 0x30, 0, 0x9c}, {0, 4, 0, 0x2f, 0, 0xff}, {0, 0}}
	b = append(b, suites[g.Intn(len(suites))]...)
	comps := [][]byte{{1, 0}, {2, 1, 0}, {0}}
	return append(b, comps[g.Intn(len(comps))]...)
}

// c45HelloFrame assembles pre || extLen || exts, with the extensions-block
// length off by outerDelta, and a handshake length equal to the real length.
func c45HelloFrame(pre, exts []byte, outerDelta int) []byte {
	b := append([]byte{}, pre...)
	l := len(exts) + outerDelta
	b = append(b, byte(l>>8), byte(l))
	b = append(b, exts...)
	c45Put(b[1:4], 3, int64(len(b)-4))
	return b
}

func c45FixHeader(b []byte) []byte {
	if len(b) >= 4 {
		c45Put(b[1:4], 3, int64(len(b)-4))
	}
	return b
}

// ---- cases -------------------------------------------------------------

type c45SCase struct {
	Kind  string
	Flag  bool
	Ext   string // extension type (hex) or "-" / vector path
	Class string
	Pos   string // only | first | middle | last | -
	Msg   []byte
	Alt   [][]byte // same message, bytes after the target's declared body replaced by equivalent opaque extensions
}

var c45PosNames = []string{"only", "first", "middle", "last", "-"}

func c45PosIdx(p string) int {
	for i, x := range c45PosNames {
		if x == p {
			return i
		}
	}
	return 4
}

type c45SAcc struct {
	mu        sync.Mutex
	matrix    map[string]map[string]*[5]int64 // kind/ext -> class -> per position
	depend    map[string]int64                // kind/ext -> cases whose outcome depended on bytes after the declared body
	dependWit map[string]interface{}
	dependLen map[string]int
	altCmp    int64
	accepted  int64
	rejected  int64
	cases     int64
}

func (a *c45SAcc) add(c *c45SCase) {
	k := c.Kind + "/" + c.Ext
	a.mu.Lock()
	m := a.matrix[k]
	if m == nil {
		m = map[string]*[5]int64{}
		a.matrix[k] = m
	}
	row := m[c.Class]
	if row == nil {
		row = &[5]int64{}
		m[c.Class] = row
	}
	row[c45PosIdx(c.Pos)]++
	a.mu.Unlock()
}

func c45SWitness(c *c45SCase) *c45Witness {
	return &c45Witness{Origin: "structured", Kind: c.Kind, Flag: c.Flag, Input: c.Msg,
		Note: fmt.Sprintf("ext=%s class=%s pos=%s hex=%s", c.Ext, c.Class, c.Pos, c45Hex(c.Msg))}
}

func c45Hex(b []byte) string {
	if len(b) > 400 {
		return hex.EncodeToString(b[:400]) + "..."
	}
	return hex.EncodeToString(b)
}

func c45SameResult(okA bool, vA *c45Msg, okB bool, vB *c45Msg) (string, bool) {
	if okA != okB {
		return fmt.Sprintf("accept=%v vs accept=%v", okA, okB), false
	}
	if !okA {
		return "", true
	}
	if d := c45Diff(vA, vB); len(d) > 0 {
		return fmt.Sprintf("fields differ: %v", d), false
	}
	if fmt.Sprint(vA.ExtensionIds) != fmt.Sprint(vB.ExtensionIds) || vA.Padding != vB.Padding {
		return "derived fields (extension ids / padding) differ", false
	}
	return "", true
}

// c45Surround places b into a larger buffer filled with fill.
func c45Surround(b []byte, fill byte) (buf []byte, off int) {
	const margin = 24
	buf = make([]byte, len(b)+2*margin)
	for i := range buf {
		buf[i] = fill + byte(i)*7
	}
	copy(buf[margin:], b)
	return buf, margin
}

// c45SEval applies the oracle to one structured message (one evaluation).
func c45SEval(r *vkit.Run, st *c45Stats, acc *c45SAcc, c *c45SCase) {
	w := c45SWitness(c)
	desc := func() interface{} { return w }
	n := len(c.Msg)
	kind, flag := c.Kind, c.Flag
	if acc != nil {
		acc.add(c)
		atomic.AddInt64(&acc.cases, 1)
	}
	r.Case(vkit.Hash64("struct", kind, fmt.Sprint(flag), string(c.Msg)), true)

	// 1. exact allocation
	var vA *c45Msg
	var okA bool
	if r.Try(desc, func() { vA, okA = bfe_tls.VerifUnmarshal(kind, flag, c45Exact(c.Msg)) }) {
		return
	}
	// 2. inside a larger buffer, cap == len
	buf, o := c45Surround(c.Msg, 0xa5)
	var vB *c45Msg
	var okB bool
	if r.Try(desc, func() { vB, okB = bfe_tls.VerifUnmarshal(kind, flag, buf[o:o+n:o+n]) }) {
		return
	}
	if why, same := c45SameResult(okA, vA, okB, vB); !same {
		r.Violation("parse-depends-on-allocation:"+kind, "same bytes, exact allocation vs. middle of a larger buffer (cap==len): "+why, w)
		return
	}
	// 3. cap > len, two different surroundings
	for _, fill := range []byte{0xa5, 0x00} {
		buf, o := c45Surround(c.Msg, fill)
		if fill == 0 {
			for i := range buf[o+n:] {
				buf[o+n+i] = 0
			}
		}
		var vC *c45Msg
		var okC bool
		if r.Try(desc, func() { vC, okC = bfe_tls.VerifUnmarshal(kind, flag, buf[o:o+n]) }) {
			return
		}
		if why, same := c45SameResult(okA, vA, okC, vC); !same {
			r.Violation("reads-outside-message:"+kind+":cap-gt-len",
				"result changes when the message slice has spare capacity (bytes beyond len(b) were used): "+why, w)
			return
		}
	}
	if okA {
		atomic.AddInt64(&st.parsedAccept, 1)
		if acc != nil {
			atomic.AddInt64(&acc.accepted, 1)
		}
	} else {
		atomic.AddInt64(&st.parsedReject, 1)
		if acc != nil {
			atomic.AddInt64(&acc.rejected, 1)
		}
	}
	// observation: dependence on bytes after the declared body of the target extension
	for _, alt := range c.Alt {
		c45ExtDependence(r, acc, c, alt, okA, vA)
	}
	// 4. round trip of the accepted value
	if !okA {
		return
	}
	if !c45Representable(vA) {
		atomic.AddInt64(&st.unrepresentable, 1)
		r.Count("unrepresentable_"+kind, 1)
		return
	}
	w2 := *w
	w2.Note += " | value obtained by parsing input; re-marshalled and parsed again"
	if _, ok := c45RoundTrip(r, st, vA, &w2); ok {
		atomic.AddInt64(&st.reparsed, 1)
	}
}

// c45ExtDependence: alt equals c.Msg up to the end of the DECLARED body of the
// target extension; what follows are, in both, opaque (unknown-type) extensions
// of the same total length. A parser that handles every extension inside its
// declared body gives the same accept/reject and the same fields for both.
//
// This is recorded, NOT judged: the bytes in question lie inside the message, and
// C45 states "never reads outside the message". bfe's server_name parser
// (handshake_messages.go:441-461, inherited from Go <= 1.4) walks `data[2:]`
// rather than `data[2:length]` and therefore does depend on the following
// extensions; judging it here would demand more than the statement does. alt is
// still parsed under r.Try, so a panic on it is a violation like any other.
func c45ExtDependence(r *vkit.Run, acc *c45SAcc, c *c45SCase, alt []byte, okA bool, vA *c45Msg) {
	var vD *c45Msg
	var okD bool
	wa := &c45Witness{Origin: "structured", Kind: c.Kind, Flag: c.Flag, Input: alt,
		Note: fmt.Sprintf("ext=%s class=%s pos=%s (alt followers) hex=%s", c.Ext, c.Class, c.Pos, c45Hex(alt))}
	if r.Try(func() interface{} { return wa }, func() { vD, okD = bfe_tls.VerifUnmarshal(c.Kind, c.Flag, c45Exact(alt)) }) {
		return
	}
	if acc == nil {
		return
	}
	atomic.AddInt64(&acc.altCmp, 1)
	why := ""
	if okA != okD {
		why = fmt.Sprintf("accept=%v vs accept=%v", okA, okD)
	} else if okA {
		if d := c45Diff(vA, vD); len(d) > 0 {
			why = fmt.Sprintf("fields differ: %v", d)
		}
	}
	if why == "" {
		return
	}
	k := c.Kind + "/" + c.Ext
	acc.mu.Lock()
	acc.depend[k]++
	if n, ok := acc.dependLen[k]; !ok || len(c.Msg) < n || (len(c.Msg) == n && c45Hex(c.Msg) < acc.dependWit[k].(map[string]interface{})["msg"].(string)) {
		// keep the shortest (then smallest) witness: independent of scheduling
		acc.dependLen[k] = len(c.Msg)
		acc.dependWit[k] = map[string]interface{}{"msg": c45Hex(c.Msg), "alt": c45Hex(alt), "class": c.Class, "pos": c.Pos, "difference": why}
	}
	acc.mu.Unlock()
}

// ---- F1: extension bodies ------------------------------------------------

type c45Body struct {
	class string
	b     []byte
}

// c45Bodies lists the bodies tried for extension type t of a hello kind.
func c45Bodies(r *vkit.Run, kind string, t uint16, maxLen, nRandom int) []c45Body {
	var out []c45Body
	seen := map[string]bool{}
	add := func(class string, b []byte) {
		k := class + "\x00" + string(b)
		if seen[k] {
			return
		}
		seen[k] = true
		out = append(out, c45Body{class, append([]byte{}, b...)})
	}
	g := r.Rng("struct-bodies", int(t), len(kind))
	for L := 0; L <= maxLen; L++ {
		class := fmt.Sprintf("len%d", L)
		z := make([]byte, L)
		add(class, z)
		f := make([]byte, L)
		for i := range f {
			f[i] = 0xff
		}
		add(class, f)
		if L >= 2 { // 2-byte inner length consistent with L
			x := make([]byte, L)
			c45Put(x[:2], 2, int64(L-2))
			add(class, x)
			for i := 2; i < L; i++ {
				x[i] = byte(g.Intn(256))
			}
			add(class, x)
			if L >= 3 { // ... and a consistent 1-byte length below it
				y := append([]byte{}, x...)
				y[2] = byte(L - 3)
				add(class, y)
			}
		}
		if L >= 1 { // 1-byte inner length consistent with L
			x := make([]byte, L)
			x[0] = byte(L - 1)
			add(class, x)
			x[0] = 1 // status type ocsp / list of one
			add(class, x)
		}
		for k := 0; k < nRandom; k++ {
			x := g.Bytes(L)
			for i := range x {
				if g.Bool() {
					x[i] = byte(g.Intn(5))
				}
			}
			add(class, x)
		}
	}
	for variant := 0; variant < 2; variant++ {
		v := c45ExtBody(kind, t, variant).bytes(nil)[2:]
		add("valid", v)
		n := len(v)
		type pv struct {
			name string
			val  int
		}
		if n >= 2 {
			a := n - 2
			odd := a | 1
			if odd == a {
				odd = a + 2
			}
			for _, p := range []pv{{"a-1", a - 1}, {"a+1", a + 1}, {"0", 0}, {"1", 1}, {"odd", odd}, {"max", 0xffff}} {
				if p.val < 0 {
					continue
				}
				x := append([]byte{}, v...)
				c45Put(x[:2], 2, int64(p.val))
				add("inner16="+p.name, x)
			}
		}
		if n >= 1 {
			a := n - 1
			odd := a | 1
			if odd == a {
				odd = a + 2
			}
			for _, p := range []pv{{"a-1", a - 1}, {"a+1", a + 1}, {"0", 0}, {"1", 1}, {"odd", odd}, {"max", 0xff}} {
				if p.val < 0 {
					continue
				}
				x := append([]byte{}, v...)
				x[0] = byte(p.val)
				add("inner8="+p.name, x)
			}
		}
		for d := 1; d <= 2; d++ {
			if n >= d {
				add(fmt.Sprintf("body-%d", d), v[:n-d])
			}
			add(fmt.Sprintf("body+%d", d), append(append([]byte{}, v...), make([]byte, d)...))
			add(fmt.Sprintf("body+%d", d), append(append([]byte{}, v...), g.Bytes(d)...))
		}
		for p := 0; p < n && p < 24; p++ {
			for _, val := range []byte{0, 1, v[p] - 1, v[p] + 1, 0x80, 0xff} {
				if val == v[p] {
					continue
				}
				x := append([]byte{}, v...)
				x[p] = val
				add("bytemut", x)
			}
		}
	}
	return out
}

// c45Layout describes where the target extension sits.
type c45Layout struct {
	before      int
	after       int
	opaqueAfter bool // followers are opaque extensions and alternatives are built
}

func (l c45Layout) pos() string {
	switch {
	case l.before == 0 && l.after == 0:
		return "only"
	case l.before == 0:
		return "first"
	case l.after == 0:
		return "last"
	}
	return "middle"
}

// c45OpaqueRun returns opaque extensions of exactly total bytes (total >= 4).
func c45OpaqueRun(g *vkit.Rand, total int, not uint16, longFirst bool) []byte {
	var out []byte
	for total > 0 {
		body := total - 4
		if !longFirst && total >= 8+2 && g.Bool() {
			body = g.Intn(total - 8 + 1)
		}
		longFirst = false
		var t uint16
		for {
			t = c45Opaque[g.Intn(len(c45Opaque))]
			if t != not {
				break
			}
		}
		out = append(out, c45ExtRaw(t, g.Bytes(body))...)
		total -= 4 + body
	}
	return out
}

func c45F1(r *vkit.Run, kind string, t uint16, group int, emit func(*c45SCase)) {
	quick := r.Quick()
	maxLen, nRandom := 5, 2
	if !quick {
		maxLen, nRandom = 40, 6
	}
	bodies := c45Bodies(r, kind, t, maxLen, nRandom)
	var layouts []c45Layout
	if quick {
		layouts = []c45Layout{{0, 0, false}, {0, 1, true}, {0, 2, false}, {1, 1, true}, {2, 2, false}, {1, 0, false}, {3, 0, false}}
	} else {
		for n := 1; n <= 6; n++ {
			for p := 0; p < n; p++ {
				layouts = append(layouts, c45Layout{p, n - 1 - p, false})
				if n-1-p > 0 {
					layouts = append(layouts, c45Layout{p, n - 1 - p, true})
				}
			}
		}
	}
	reps := r.N(1, 3)
	ext := c45ExtName(t)
	for bi, body := range bodies {
		for li, lay := range layouts {
			for rep := 0; rep < reps; rep++ {
				g := r.Rng("struct-f1", group, bi, li, rep)
				pre := c45HelloPre(kind, g)
				var exts []byte
				for i := 0; i < lay.before; i++ {
					f := c45PickFiller(g, t)
					exts = append(exts, c45ExtRaw(f.t, f.body)...)
				}
				exts = append(exts, c45ExtRaw(t, body.b)...)
				c := &c45SCase{Kind: kind, Ext: ext, Class: body.class, Pos: lay.pos()}
				if lay.opaqueAfter {
					total := 0
					for i := 0; i < lay.after; i++ {
						total += 4 + g.Intn(9)
					}
					long := g.Chance(1, 6)
					if long {
						total += 300 + g.Intn(300)
					}
					head := len(exts)
					c.Msg = c45HelloFrame(pre, append(append([]byte{}, exts[:head]...), c45OpaqueRun(g, total, t, long)...), 0)
					for k := 0; k < 2; k++ {
						c.Alt = append(c.Alt, c45HelloFrame(pre, append(append([]byte{}, exts[:head]...), c45OpaqueRun(g, total, t, long && k == 0)...), 0))
					}
				} else {
					for i := 0; i < lay.after; i++ {
						f := c45PickFiller(g, t)
						exts = append(exts, c45ExtRaw(f.t, f.body)...)
					}
					c.Msg = c45HelloFrame(pre, exts, 0)
				}
				emit(c)
			}
		}
	}
}

// ---- F3: outer framing of the extensions block ---------------------------

func c45F3(r *vkit.Run, kind string, t uint16, group int, emit func(*c45SCase)) {
	ext := c45ExtName(t)
	bodies := [][]byte{nil, c45ExtBody(kind, t, 0).bytes(nil)[2:], c45ExtBody(kind, t, 1).bytes(nil)[2:]}
	befores := []int{0, 1}
	if !r.Quick() {
		befores = []int{0, 1, 2, 3, 5}
		for L := 1; L <= 8; L++ {
			bodies = append(bodies, make([]byte, L))
		}
	}
	for bi, body := range bodies {
		for _, nb := range befores {
			g := r.Rng("struct-f3", group, bi, nb)
			pre := c45HelloPre(kind, g)
			var exts []byte
			for i := 0; i < nb; i++ {
				f := c45PickFiller(g, t)
				exts = append(exts, c45ExtRaw(f.t, f.body)...)
			}
			lastAt := len(exts)
			exts = append(exts, c45ExtRaw(t, body)...)
			pos := "last"
			if nb == 0 {
				pos = "only"
			}
			mk := func(class string, msg []byte) {
				emit(&c45SCase{Kind: kind, Ext: ext, Class: class, Pos: pos, Msg: msg})
			}
			for _, d := range []int{-2, -1, 1, 2} {
				if len(exts)+d < 0 {
					continue
				}
				mk(fmt.Sprintf("outer%+d", d), c45HelloFrame(pre, exts, d))
				if d > 0 {
					mk(fmt.Sprintf("outerfit%+d", d), c45HelloFrame(pre, append(append([]byte{}, exts...), make([]byte, d)...), 0))
					mk(fmt.Sprintf("outerfit%+d", d), c45HelloFrame(pre, append(append([]byte{}, exts...), g.Bytes(d)...), 0))
				}
			}
			// no extensions block at all / empty block / 1 byte of block length
			if bi == 0 && nb == 0 {
				mk("noblock", c45FixHeader(append([]byte{}, pre...)))
				mk("emptyblock", c45HelloFrame(pre, nil, 0))
				mk("halfblocklen", c45FixHeader(append(append([]byte{}, pre...), 0)))
			}
			for k := lastAt; k < len(exts); k++ {
				mk("trunc", c45FixHeader(c45HelloFrame(pre, exts, 0)[:len(pre)+2+k]))
				mk("truncfix", c45HelloFrame(pre, exts[:k], 0))
			}
		}
	}
}

// ---- F2: every length-prefixed vector of every message kind --------------

type c45Tree struct {
	kind  string
	flags []bool
	typ   int // handshake type byte, -1: no header (sessionState)
	root  *c45N
	pos   map[string]string // extension type -> position in this tree
	label string
}

func (t *c45Tree) enc(ov *c45Ov, start map[*c45N]int) []byte {
	var b []byte
	if t.typ >= 0 {
		b = append(b, byte(t.typ))
	}
	t.root.enc(&b, ov, start)
	return b
}

func c45HelloTree(kind string, g *vkit.Rand, exts []*c45N, pos map[string]string, label string) *c45Tree {
	typ := 1
	kids := []*c45N{c45Raw("version", 3, 3), c45Raw("random", g.Bytes(32)...), c45VecRaw("session_id", 1, g.Bytes(32))}
	if kind == "clientHello" {
		kids = append(kids, c45VecRaw("cipher_suites", 2, []byte{0xc0, 0x2f, 0xc0, 0x30, 0, 0x9c}), c45VecRaw("compression_methods", 1, []byte{0}))
	} else {
		typ = 2
		kids = append(kids, c45Raw("cipher_suite", 0xc0, 0x2f), c45Raw("compression_method", 0))
	}
	if exts != nil {
		kids = append(kids, c45Vec("extensions", 2, exts...))
	}
	return &c45Tree{kind: kind, flags: []bool{false}, typ: typ, root: c45Vec("handshake", 3, kids...), pos: pos, label: label}
}

func c45Trees(r *vkit.Run) []*c45Tree {
	var ts []*c45Tree
	g := r.Rng("struct-trees")
	all := append(append([]uint16{}, c45KnownExts...), c45UnknownExts[:2]...)
	for _, kind := range []string{"clientHello", "serverHello"} {
		ts = append(ts, c45HelloTree(kind, g, nil, nil, "noext"))
		for variant := 0; variant < 2; variant++ {
			// all extensions in one hello, rotated so that each is last once (variant 0)
			rot := len(all)
			if variant == 1 {
				rot = 1
			}
			for s := 0; s < rot; s++ {
				var exts []*c45N
				pos := map[string]string{}
				for i := range all {
					t := all[(i+s)%len(all)]
					exts = append(exts, c45ExtNode(t, c45ExtBody(kind, t, variant)))
					p := "middle"
					if i == 0 {
						p = "first"
					} else if i == len(all)-1 {
						p = "last"
					}
					pos[c45ExtName(t)] = p
				}
				ts = append(ts, c45HelloTree(kind, g, exts, pos, fmt.Sprintf("all.v%d.rot%d", variant, s)))
			}
			for _, t := range all {
				ts = append(ts, c45HelloTree(kind, g, []*c45N{c45ExtNode(t, c45ExtBody(kind, t, variant))},
					map[string]string{c45ExtName(t): "only"}, fmt.Sprintf("only.v%d", variant)))
			}
		}
	}
	// rep 0: the sizes written below; further reps: every size drawn from 0..2*size+1
	for rep := 0; rep < r.N(3, 60); rep++ {
		rep := rep
		sz := func(n int) int {
			if rep == 0 {
				return n
			}
			return g.Intn(2*n + 2)
		}
		hs := func(kind string, typ int, flags []bool, label string, kids ...*c45N) {
			ts = append(ts, &c45Tree{kind: kind, flags: flags, typ: typ, root: c45Vec("handshake", 3, kids...), label: label})
		}
		both := []bool{false, true}
		no := []bool{false}
		cert := func(n int) *c45N { return c45VecRaw("cert", 3, g.Bytes(sz(n))) }
		hs("certificate", 11, no, "three", c45Vec("certificate_list", 3, cert(5), cert(1), cert(40)))
		hs("certificate", 11, no, "one", c45Vec("certificate_list", 3, cert(300)))
		hs("certificate", 11, no, "none", c45Vec("certificate_list", 3))
		dn := func(n int) *c45N { return c45VecRaw("dn", 2, g.Bytes(sz(n))) }
		hs("certificateRequest", 13, both, "tls10", c45VecRaw("certificate_types", 1, []byte{1, 2, 64}), c45Vec("certificate_authorities", 2, dn(3), dn(17)))
		hs("certificateRequest", 13, both, "tls12", c45VecRaw("certificate_types", 1, []byte{1, 64}),
			c45VecRaw("supported_signature_algorithms", 2, []byte{4, 1, 4, 3, 5, 1}), c45Vec("certificate_authorities", 2, dn(1), dn(9), dn(30)))
		hs("certificateRequest", 13, both, "tls12-noca", c45VecRaw("certificate_types", 1, []byte{1}),
			c45VecRaw("supported_signature_algorithms", 2, []byte{4, 1}), c45Vec("certificate_authorities", 2))
		hs("certificateStatus", 22, no, "ocsp", c45Raw("status_type", 1), c45VecRaw("response", 3, g.Bytes(sz(20))))
		hs("certificateStatus", 22, no, "ocsp-empty", c45Raw("status_type", 1), c45VecRaw("response", 3, nil))
		hs("certificateStatus", 22, no, "other", c45Raw("status_type", 2), c45VecRaw("response", 3, g.Bytes(sz(7))))
		hs("serverKeyExchange", 12, no, "ecdhe", c45Raw("curve", 3, 0, 23), c45VecRaw("point", 1, g.Bytes(sz(65))), c45Raw("sigalg", 4, 1), c45VecRaw("signature", 2, g.Bytes(sz(64))))
		hs("serverKeyExchange", 12, no, "empty")
		hs("clientKeyExchange", 16, no, "rsa", c45VecRaw("encrypted_pms", 2, g.Bytes(sz(48))))
		hs("clientKeyExchange", 16, no, "ecdhe", c45VecRaw("point", 1, g.Bytes(sz(65))))
		hs("clientKeyExchange", 16, no, "empty")
		hs("finished", 20, no, "tls", c45Raw("verify_data", g.Bytes(sz(12))...))
		hs("finished", 20, no, "ssl3", c45Raw("verify_data", g.Bytes(sz(36))...))
		hs("finished", 20, no, "empty")
		hs("nextProto", 67, no, "h2", c45VecRaw("proto", 1, []byte("h2")), c45VecRaw("padding", 1, make([]byte, sz(29))))
		hs("nextProto", 67, no, "empty", c45VecRaw("proto", 1, nil), c45VecRaw("padding", 1, nil))
		hs("newSessionTicket", 4, no, "ticket", c45Raw("lifetime", 0, 0, 0x0e, 0x10), c45VecRaw("ticket", 2, g.Bytes(sz(120))))
		hs("newSessionTicket", 4, no, "empty", c45Raw("lifetime", 0, 0, 0, 0), c45VecRaw("ticket", 2, nil))
		hs("certificateVerify", 15, both, "tls12", c45Raw("sigalg", 4, 1), c45VecRaw("signature", 2, g.Bytes(sz(64))))
		hs("certificateVerify", 15, both, "tls10", c45VecRaw("signature", 2, g.Bytes(sz(70))))
		hs("certificateVerify", 15, both, "empty-sig", c45VecRaw("signature", 2, nil))
		hs("serverHelloDone", 14, no, "empty")
		scert := func(n int) *c45N { return c45VecRaw("cert", 4, g.Bytes(sz(n))) }
		ss := func(label string, count int, kids ...*c45N) {
			root := &c45N{name: "sessionState", kids: append([]*c45N{c45Raw("vers_suite", 3, 3, 0xc0, 0x2f), c45VecRaw("master_secret", 2, g.Bytes(sz(48))),
				c45Raw("num_certs", byte(count>>8), byte(count))}, kids...)}
			ts = append(ts, &c45Tree{kind: "sessionState", flags: no, typ: -1, root: root, label: label})
		}
		ss("nocert", 0)
		ss("two", 2, scert(10), scert(1))
		ss("count+1", 3, scert(10), scert(1))
		ss("count-1", 1, scert(10), scert(1))
		ss("count-max", 0xffff, scert(4))
	}
	return ts
}

func c45F2(r *vkit.Run, tr *c45Tree, idx int, emit func(*c45SCase)) {
	g := r.Rng("struct-f2", idx)
	start := map[*c45N]int{}
	canon := tr.enc(nil, start)
	type item struct {
		path, ext string
		n         *c45N
	}
	var items []item
	tr.root.walk("", "", func(path, ext string, n *c45N) {
		if n.w > 0 {
			items = append(items, item{path, ext, n})
		}
	})
	mk := func(it *item, class string, msg []byte) {
		for _, flag := range tr.flags {
			c := &c45SCase{Kind: tr.kind, Flag: flag, Class: class, Msg: msg, Pos: "-"}
			if it == nil {
				c.Ext = "-"
			} else if it.ext != "" {
				c.Ext = it.ext
				c.Pos = tr.pos[it.ext]
				c.Class = class + "@" + it.path[len("handshake/extensions/")+len(it.ext):]
			} else {
				c.Ext = it.path
			}
			emit(c)
		}
	}
	mk(nil, "canonical:"+tr.label, canon)
	for i := range items {
		it := &items[i]
		n := it.n
		var cb []byte
		(&c45N{raw: n.raw, kids: n.kids}).enc(&cb, nil, nil)
		a := int64(len(cb))
		max := int64(1)<<(8*uint(n.w)) - 1
		odd := a | 1
		if odd == a {
			odd = a + 2
		}
		past := int64(len(canon)-start[n]) + 1
		// A: declared length only
		for _, p := range []struct {
			name string
			v    int64
		}{{"0", 0}, {"1", 1}, {"a-1", a - 1}, {"a+1", a + 1}, {"a+2", a + 2}, {"odd", odd}, {"max", max}, {"pastend", past}, {"toend", past - 1}} {
			if p.v < 0 || p.v > max || p.v == a {
				continue
			}
			mk(it, "vecA:decl="+p.name, tr.enc(&c45Ov{node: n, declared: p.v}, nil))
		}
		// B: content resized, every enclosing length consistent
		resize := func(name string, l int64, fill func(int) []byte) {
			if l < 0 || l == a {
				return
			}
			var c []byte
			if l <= a {
				c = append([]byte{}, cb[:l]...)
			} else {
				c = append(append([]byte{}, cb...), fill(int(l-a))...)
			}
			mk(it, "vecB:len="+name, tr.enc(&c45Ov{node: n, hasContent: true, content: c, declared: -1}, nil))
		}
		zeros := func(k int) []byte { return make([]byte, k) }
		rnd := func(k int) []byte { return g.Bytes(k) }
		resize("0", 0, zeros)
		resize("1", 1, zeros)
		resize("1", 1, rnd)
		resize("2", 2, zeros)
		resize("3", 3, rnd)
		resize("a-1", a-1, zeros)
		resize("a-2", a-2, zeros)
		resize("a+1", a+1, zeros)
		resize("a+1", a+1, rnd)
		resize("a+2", a+2, rnd)
		if n.w == 1 || (n.w == 2 && (i%4 == idx%4 || !r.Quick())) {
			resize("max", max, zeros)
			resize("max", max, rnd)
			if max > 1 {
				resize("max-1", max-1, rnd)
			}
		}
	}
}

// ---- driver --------------------------------------------------------------

func c45Structured(r *vkit.Run, st *c45Stats) {
	acc := &c45SAcc{matrix: map[string]map[string]*[5]int64{}, depend: map[string]int64{}, dependWit: map[string]interface{}{}, dependLen: map[string]int{}}
	type job func(emit func(*c45SCase))
	var jobs []job
	exts := append(append([]uint16{}, c45KnownExts...), c45UnknownExts...)
	group := 0
	for _, kind := range []string{"clientHello", "serverHello"} {
		for _, t := range exts {
			kind, t, gi := kind, t, group
			jobs = append(jobs, func(emit func(*c45SCase)) { c45F1(r, kind, t, gi, emit) })
			jobs = append(jobs, func(emit func(*c45SCase)) { c45F3(r, kind, t, gi, emit) })
			group++
		}
	}
	for i, tr := range c45Trees(r) {
		i, tr := i, tr
		jobs = append(jobs, func(emit func(*c45SCase)) { c45F2(r, tr, i, emit) })
	}
	t0 := time.Now() // reported only, never consulted by an oracle
	vkit.Parallel(len(jobs), 0, func(i int) {
		jobs[i](func(c *c45SCase) { c45SEval(r, st, acc, c) })
	})
	r.Extra("structured_wall_s", time.Since(t0).Seconds())

	// accounting
	r.Count("struct_cases", acc.cases)
	r.Count("struct_accepted", acc.accepted)
	r.Count("struct_rejected", acc.rejected)
	r.Count("struct_alt_follower_comparisons", acc.altCmp)
	byKind := map[string]int64{}
	byPos := map[string]int64{}
	byClass := map[string]int64{}
	// evidence matrix: kind/ext (or kind/vector path) -> class -> "only,first,middle,last,n/a";
	// the vector path inside an extension (class suffix @/body/list) is folded away
	matrix := map[string]map[string]string{}
	for k, m := range acc.matrix {
		sum := map[string]*[5]int64{}
		kind := k
		for i := 0; i < len(k); i++ {
			if k[i] == '/' {
				kind = k[:i]
				break
			}
		}
		for class, row := range m {
			fold := class
			for i := 0; i < len(fold); i++ {
				if fold[i] == '@' {
					fold = fold[:i]
					break
				}
			}
			if sum[fold] == nil {
				sum[fold] = &[5]int64{}
			}
			for p, v := range row {
				sum[fold][p] += v
			}
			cl := class
			for i := 0; i < len(cl); i++ {
				if cl[i] == '@' || cl[i] == ':' {
					cl = cl[:i]
					break
				}
			}
			for p, v := range row {
				byKind[kind] += v
				byPos[c45PosNames[p]] += v
				byClass[cl] += v
			}
		}
		out := map[string]string{}
		for class, row := range sum {
			out[class] = fmt.Sprintf("%d,%d,%d,%d,%d", row[0], row[1], row[2], row[3], row[4])
		}
		matrix[k] = out
	}
	for k, v := range byKind {
		r.Count("struct_kind_"+k, v)
	}
	for k, v := range byPos {
		if k == "-" {
			k = "na"
		}
		r.Count("struct_pos_"+k, v)
	}
	for k, v := range byClass {
		r.Count("struct_class_"+k, v)
	}
	r.Extra("structured_matrix_kind_ext__class__only_first_middle_last_na", matrix)
	// required coverage: every known extension type, zero-length body, last
	// position (and the other three positions), in both hello kinds
	var zeroLast int64
	for _, kind := range []string{"clientHello", "serverHello"} {
		for _, t := range c45KnownExts {
			row := acc.matrix[kind+"/"+c45ExtName(t)]["len0"]
			if row == nil {
				row = &[5]int64{}
			}
			zeroLast += row[3]
			for p := 0; p < 4; p++ {
				if row[p] == 0 {
					r.Inconclusive(fmt.Sprintf("structured family: %s extension %s never had a zero-length body in position %s", kind, c45ExtName(t), c45PosNames[p]))
				}
			}
			for _, class := range []string{"len1", "len2", "len3", "valid", "trunc", "truncfix", "outer-1", "outer+1"} {
				rw := acc.matrix[kind+"/"+c45ExtName(t)][class]
				if rw == nil || rw[3] == 0 {
					r.Inconclusive(fmt.Sprintf("structured family: %s extension %s class %s never in last position", kind, c45ExtName(t), class))
				}
			}
		}
	}
	r.Count("struct_known_ext_zero_body_last", zeroLast)
	for _, kind := range c45Kinds {
		if byKind[kind] == 0 {
			r.Inconclusive("structured family: no message of kind " + kind)
		}
	}
	if acc.accepted == 0 || acc.rejected == 0 {
		r.Inconclusive("structured family did not reach both accept and reject")
	}
	// observation (not judged): outcome depends on bytes after the declared body
	keys := make([]string, 0, len(acc.depend))
	for k := range acc.depend {
		keys = append(keys, k)
	}
	sort.Strings(keys)
	for _, k := range keys {
		r.Count("observed_dependence_on_bytes_after_ext_body_"+k, acc.depend[k])
	}
	if len(acc.dependWit) > 0 {
		r.Extra("observed_dependence_on_bytes_after_ext_body_not_judged", acc.dependWit)
	}
}
