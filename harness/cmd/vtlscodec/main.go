// vtlscodec decides the TLS codec properties C43 (CBC padding removal) and
// C45 (handshake message marshal/unmarshal) through the verif-tagged
// accessors in bfe_tls/zz_verif_hooks_vtlscodec.go.
package main

import (
	"fmt"
	"os"

	"verifharness/vkit"
)

func main() {
	r := vkit.Start("exploration")
	switch r.Prop {
	case "C43":
		c43(r)
	case "C45":
		c45(r)
	default:
		fmt.Fprintln(os.Stderr, "vtlscodec: unknown property", r.Prop)
		os.Exit(vkit.ExitInconclusive)
	}
	r.Finish()
}
