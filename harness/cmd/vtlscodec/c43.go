package main

import (
	"fmt"
	"sync/atomic"

	"github.com/bfenetworks/bfe/bfe_tls"

	"verifharness/vkit"
)

// C43: for every decrypted CBC payload, padding is accepted exactly when the
// last byte p satisfies p+1 <= len and the final p+1 bytes all equal p, and
// then exactly p+1 bytes are removed; otherwise the record is reported bad.
//
// Oracle: c43Ref below, written from that statement (a plain loop, no mask
// arithmetic). Observation: removePadding through bfe_tls.VerifRemovePadding,
// which reports (bytes removed, good) where good is the constant-time verdict
// byte of the real function (255 = accepted, 0 = bad record; anything else is
// itself a violation because halfConn.decrypt feeds it to
// subtle.ConstantTimeByteEq(good, 255)).

const c43MaxLen = 300

// c43Ref is the specification: accepted, and bytes to remove when accepted.
func c43Ref(payload []byte) (accept bool, remove int) {
	n := len(payload)
	if n == 0 {
		return false, 0
	}
	p := int(payload[n-1])
	if p+1 > n {
		return false, 0
	}
	for i := n - 1 - p; i < n; i++ {
		if int(payload[i]) != p {
			return false, 0
		}
	}
	return true, p + 1
}

type c43Witness struct {
	Payload []byte `json:"payload"`
	Len     int    `json:"len"`
	LastB   int    `json:"last_byte"`
	Variant string `json:"variant"`
	// distance from the last byte of the byte that was made wrong (0 = none)
	WrongDist int `json:"wrong_dist"`
}

type c43Stats struct {
	acceptWant, rejectWant, acceptGot, rejectGot int64
}

// c43Eval runs one payload against the real function and the specification.
func c43Eval(r *vkit.Run, st *c43Stats, w *c43Witness) {
	want, wantRemove := c43Ref(w.Payload)
	var removed int
	var good byte
	if r.Try(func() interface{} { return w }, func() { removed, good = bfe_tls.VerifRemovePadding(w.Payload) }) {
		return
	}
	if want {
		atomic.AddInt64(&st.acceptWant, 1)
	} else {
		atomic.AddInt64(&st.rejectWant, 1)
	}
	switch good {
	case 255:
		atomic.AddInt64(&st.acceptGot, 1)
	case 0:
		atomic.AddInt64(&st.rejectGot, 1)
	default:
		r.Violation("cbc-pad:good-byte-neither-0-nor-255",
			fmt.Sprintf("removePadding returned good=%d for len=%d last=%d", good, w.Len, w.LastB), w)
		return
	}
	got := good == 255
	switch {
	case want && !got:
		r.Violation("cbc-pad:valid-padding-rejected",
			fmt.Sprintf("len=%d last byte=%d variant=%s: valid padding reported bad", w.Len, w.LastB, w.Variant), w)
	case want && removed != wantRemove:
		sig := "cbc-pad:wrong-removed-count"
		if w.LastB == 255 && removed == 0 {
			sig = "cbc-pad:p255-remove-count-wraps-to-0"
		}
		r.Violation(sig,
			fmt.Sprintf("len=%d last byte=%d: removed %d bytes, specification says %d", w.Len, w.LastB, removed, wantRemove), w)
	case !want && got:
		sig := "cbc-pad:invalid-padding-accepted"
		switch {
		case w.LastB+1 > w.Len:
			sig = "cbc-pad:padding-longer-than-record-accepted"
		case w.WrongDist == 255:
			sig = "cbc-pad:p255-farthest-byte-unchecked"
		case w.WrongDist == w.LastB && w.LastB+1 == w.Len:
			sig = "cbc-pad:first-byte-unchecked-when-padding-fills-record"
		case w.WrongDist > 0:
			sig = "cbc-pad:wrong-padding-byte-accepted"
		}
		r.Violation(sig,
			fmt.Sprintf("len=%d last byte=%d wrong byte at distance %d from the end (variant %s): accepted, removed %d",
				w.Len, w.LastB, w.WrongDist, w.Variant, removed), w)
	}
}

func c43(r *vkit.Run) {
	masks := []byte{0x01, 0x80, 0xff}
	if !r.Quick() {
		masks = []byte{0x01, 0x02, 0x04, 0x08, 0x10, 0x20, 0x40, 0x80, 0xff, 0x55}
	}
	r.SetRule(fmt.Sprintf("exhaustive over payload length L in 0..%d x last byte p in 0..255 x variants: "+
		"(valid) final p+1 bytes = p, every other byte != p; (valid-outside-equal) same but the byte just outside the window also = p "+
		"(must still be accepted, exactly p+1 removed); (one-wrong) for EVERY distance j in 1..p from the last byte, that byte XOR m for each m in %v, rest valid; "+
		"(overlong) p+1 > L with all bytes = p and with filler bytes; (empty) L=0. Oracle = plain-loop transcription of the statement. "+
		"Every evaluation is counted; distinct keys are (L, p, variant) (the per-position/per-mask evaluations of one-wrong share one key). "+
		"Non-trivial = the verdict depends on the window content (valid, valid-outside-equal, one-wrong); overlong/empty are trivial. "+
		"removePaddingSSL30 is not covered: the statement defines TLS semantics only.", c43MaxLen, masks))
	r.Assume("removePadding observed through bfe_tls.VerifRemovePadding (len(in)-len(out), good); halfConn.decrypt treats good==255 as accepted")
	st := &c43Stats{}
	if r.Replay != "" {
		var w c43Witness
		if err := r.LoadReplay(&w); err != nil {
			r.Inconclusive(err.Error())
			return
		}
		c43Eval(r, st, &w)
		r.Evals(1)
		r.SetMinDistinct(0)
		return
	}
	vkit.Parallel(c43MaxLen+1, 0, func(L int) {
		buf := make([]byte, L)
		mk := func(p int, variant string, dist int) *c43Witness {
			return &c43Witness{Payload: buf, Len: L, LastB: p, Variant: variant, WrongDist: dist}
		}
		// the witness aliases buf; Violation serialises it synchronously
		eval := func(w *c43Witness) {
			c43Eval(r, st, w)
			r.Evals(1)
		}
		if L == 0 {
			w := mk(-1, "empty", 0)
			w.Payload = []byte{}
			eval(w)
			r.CaseS("0|empty", false)
			return
		}
		for p := 0; p < 256; p++ {
			filler := byte(p) ^ 0x5a // != p
			if p+1 > L {
				for i := range buf {
					buf[i] = byte(p)
				}
				eval(mk(p, "overlong-all-p", 0))
				for i := range buf {
					buf[i] = filler
				}
				buf[L-1] = byte(p)
				eval(mk(p, "overlong-filler", 0))
				r.CaseS(fmt.Sprintf("%d|%d|overlong", L, p), false)
				continue
			}
			for i := range buf {
				buf[i] = filler
			}
			for i := L - 1 - p; i < L; i++ {
				buf[i] = byte(p)
			}
			eval(mk(p, "valid", 0))
			r.CaseS(fmt.Sprintf("%d|%d|valid", L, p), true)
			if L-2-p >= 0 {
				buf[L-2-p] = byte(p)
				eval(mk(p, "valid-outside-equal", 0))
				r.CaseS(fmt.Sprintf("%d|%d|valid-outside-equal", L, p), true)
				// and the whole prefix equal to p
				for i := 0; i < L-1-p; i++ {
					buf[i] = byte(p)
				}
				eval(mk(p, "valid-prefix-all-p", 0))
				for i := 0; i < L-1-p; i++ {
					buf[i] = filler
				}
			}
			if p > 0 {
				for j := 1; j <= p; j++ {
					idx := L - 1 - j
					for _, m := range masks {
						buf[idx] = byte(p) ^ m
						eval(mk(p, "one-wrong", j))
					}
					buf[idx] = byte(p)
				}
				r.CaseS(fmt.Sprintf("%d|%d|one-wrong", L, p), true)
			}
		}
	})
	r.Count("spec_accept", st.acceptWant)
	r.Count("spec_reject", st.rejectWant)
	r.Count("observed_good_255", st.acceptGot)
	r.Count("observed_good_0", st.rejectGot)
	if st.acceptWant == 0 || st.rejectWant == 0 {
		r.Inconclusive("one side of the accept/reject predicate was never exercised")
	}
	r.Sample(map[string]interface{}{"len": 48, "last_byte": 15, "variant": "one-wrong", "wrong_dist": 15, "mask": 1})
	r.Sample(map[string]interface{}{"len": 256, "last_byte": 255, "variant": "valid"})
	r.SetExhaustive(true)
}
