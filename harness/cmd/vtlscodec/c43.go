package main

import (
	"fmt"
	"sync/atomic"

	"github.com/bfenetworks/bfe/bfe_tls"

	"verifharness/vkit"
)

// C43: for every decrypted CBC payload, padding is accepted exactly when the
// last byte p satisfies p+1 <= len and the final p+1 bytes all equal p, and
// then exactly p+1 bytes are removed; otherwise the record is reported bad.
//
// Oracle: c43Ref below, written from that statement (a plain loop, no mask
// arithmetic). Observation: removePadding through bfe_tls.VerifRemovePadding,
// which reports (bytes removed, good) where good is the constant-time verdict
// byte of the real function (255 = accepted, 0 = bad record; anything else is
// itself a violation because halfConn.decrypt feeds it to
// subtle.ConstantTimeByteEq(good, 255)).

const c43MaxLen = 300

// c43Ref is the specification: accepted, and bytes to remove when accepted.
func c43Ref(payload []byte) (accept bool, remove int) {
	n := len(payload)
	if n == 0 {
		return false, 0
	}
	p := int(payload[n-1])
	if p+1 > n {
		return false, 0
	}
	for i := n - 1 - p; i < n; i++ {
		if int(payload[i]) != p {
			return false, 0
		}
	}
	return true, p + 1
}

type c43Witness struct {
	Payload []byte `json:"payload"`
	Len     int    `json:"len"`
	LastB   int    `json:"last_byte"`
	Variant string `json:"variant"`
	// distance from the last byte of the byte that was made wrong (0 = none)
	WrongDist int `json:"wrong_dist"`
}

type c43Stats struct {
	acceptWant, rejectWant, acceptGot, rejectGot int64
}

// c43Eval runs one payload against the real function and the specification.
func c43Eval(r *vkit.Run, st *c43Stats, w *c43Witness) {
	want, wantRemove := c43Ref(w.Payload)
	var removed int
	var good byte
	if r.Try(func() interface{} { return w }, func() { removed, good = bfe_tls.VerifRemovePadding(w.Payload) }) {
		return
	}
	if want {
		atomic.AddInt64(&st.acceptWant, 1)
	} else {
		atomic.AddInt64(&st.rejectWant, 1)
	}
	switch good {
	case 255:
		atomic.AddInt64(&st.acceptGot, 1)
	case 0:
		atomic.AddInt64(&st.rejectGot, 1)
	default:
		r.Violation("cbc-pad:good-byte-neither-0-nor-255",
			fmt.Sprintf("removePadding returned good=%d for len=%d last=%d", good, w.Len, w.LastB), w)
		return
	}
	got := good == 255
	switch {
	case want && !got:
		r.Violation("cbc-pad:valid-padding-rejected",
			fmt.Sprintf("len=%d last byte=%d variant=%s: valid padding reported bad", w.Len, w.LastB, w.Variant), w)
	case want && removed != wantRemove:
		sig := "cbc-pad:wrong-removed-count"
		if w.LastB == 255 && removed == 0 {
			sig = "cbc-pad:p255-remove-count-wraps-to-0"
		}
		r.Violation(sig,
			fmt.Sprintf("len=%d last byte=%d: removed %d bytes, specification says %d", w.Len, w.LastB, removed, wantRemove), w)
	case !want && got:
		sig := "cbc-pad:invalid-padding-accepted"
		switch {
		case w.LastB+1 > w.Len:
			sig = "cbc-pad:padding-longer-than-record-accepted"
		case w.WrongDist == 255:
			sig = "cbc-pad:p255-farthest-byte-unchecked"
		case w.WrongDist == w.LastB && w.LastB+1 == w.Len:
			sig = "cbc-pad:first-byte-unchecked-when-padding-fills-record"
		case w.WrongDist > 0:
			sig = "cbc-pad:wrong-padding-byte-accepted"
		}
		r.Violation(sig,
			fmt.Sprintf("len=%d last byte=%d wrong byte at distance %d from the end (variant %s): accepted, removed %d",
				w.Len, w.LastB, w.WrongDist, w.Variant, removed), w)
	}
}

func c43(r *vkit.Run) {
	masks := []byte{0x01, 0x80, 0xff}
	if !r.Quick() {
		masks = []byte{0x01, 0x02, 0x04, 0x08, 0x10, 0x20, 0x40, 0x80, 0xff, 0x55}
	}
	r.SetRule(fmt.Sprintf("exhaustive over payload length L in 0..%d x last byte p in 0..255 x variants: "+
		"(valid) final p+1 bytes = p, every other byte != p; (valid-outside-equal) same but the byte just outside the window also = p "+
		"(must still be accepted, exactly p+1 removed); (one-wrong) for EVERY distance j in 1..p from the last byte, that byte XOR m for each m in %v, rest valid; "+
		"(overlong) p+1 > L with all bytes = p and with filler bytes; (empty) L=0. Oracle = plain-loop transcription of the statement. "+
		"Every evaluation is counted; distinct keys are (L, p, variant) (the per-position/per-mask evaluations of one-wrong share one key). "+
		"Non-trivial = the verdict depends on the window content (valid, valid-outside-equal, one-wrong); overlong/empty are trivial. "+
		"removePaddingSSL30 is not covered by this direct family: the statement defines TLS semantics only. "+
		"RECORD-LAYER family (c43rec.go): for every CBC cipher suite of the real cipherSuites table (bfe_tls.VerifCBCSuites: AES-128/256-CBC-SHA, 3DES-EDE-CBC-SHA, SM4-SM3; "+
		"quick: full sweep on the first suite of each cipher/MAC family, p in {0,1,bs-1,bs,255} on its key-exchange siblings; thorough: full sweep on all) x version in "+
		"{SSL 3.0, TLS 1.0 (implicit IV), TLS 1.1, TLS 1.2 (explicit IV)} x last byte p in 0..255 the harness itself MACs and CBC-encrypts (seeded keys, three sequence numbers) "+
		"payloads data||MAC(data)||window and runs the real halfConn.decrypt on them (bfe_tls.VerifRecordDecrypt): (valid) window = p x(p+1), two data lengths (thorough three); "+
		"(all-wrong) only the length byte right; (one-wrong) EVERY distance j in 1..p XOR one mask of %v per position (thorough: every mask, every data length); "+
		"(strip1) data||MAC(data)||p, whose MAC verifies once exactly one byte is stripped, short (p+1 > len) and long (p inside) payloads; (overlong) every block-aligned "+
		"payload length < p+1 the record layer looks at, all-p and random. Oracle per decrypted payload P: TLS 1.0/1.1/1.2: c43Ref(P) rejects -> record must be rejected; "+
		"c43Ref(P) accepts and the MAC before the padding is correct -> record must be accepted with exactly p+1 (+MAC) bytes stripped; accepts but MAC wrong -> no verdict. "+
		"SSL 3.0 (padding content unspecified there): p+1 > len -> must be rejected; all-equal padding with p < block size and correct MAC -> must be accepted, exact strip; "+
		"everything else at SSL 3.0 is observed and counted without verdict. Inconclusive if any shape (valid, valid p=255, one-wrong nearest/farthest/distance-255/inner, "+
		"all-wrong, strip1, overlong) never occurred at a version, or a table suite is unknown to the harness. Record keys are (version, suite, p, data length, variant); "+
		"non-trivial = the verdict depends on the window content.", c43MaxLen, masks, masks))
	r.Assume("record-layer family: halfConn built by bfe_tls.VerifRecordDecrypt through the table's own suite.cipher/suite.mac, prepareCipherSpec, changeCipherSpec; one record per halfConn")
	r.Assume("removePadding observed through bfe_tls.VerifRemovePadding (len(in)-len(out), good); halfConn.decrypt treats good==255 as accepted")
	st := &c43Stats{}
	if r.Replay != "" {
		var rw c43RecWitness
		if err := r.LoadReplay(&rw); err == nil && rw.Family == "record" {
			c43RecReplay(r, &rw)
			r.Evals(1)
			r.SetMinDistinct(0)
			return
		}
		var w c43Witness
		if err := r.LoadReplay(&w); err != nil {
			r.Inconclusive(err.Error())
			return
		}
		c43Eval(r, st, &w)
		r.Evals(1)
		r.SetMinDistinct(0)
		return
	}
	vkit.Parallel(c43MaxLen+1, 0, func(L int) {
		buf := make([]byte, L)
		mk := func(p int, variant string, dist int) *c43Witness {
			return &c43Witness{Payload: buf, Len: L, LastB: p, Variant: variant, WrongDist: dist}
		}
		// the witness aliases buf; Violation serialises it synchronously
		eval := func(w *c43Witness) {
			c43Eval(r, st, w)
			r.Evals(1)
		}
		if L == 0 {
			w := mk(-1, "empty", 0)
			w.Payload = []byte{}
			eval(w)
			r.CaseS("0|empty", false)
			return
		}
		for p := 0; p < 256; p++ {
			filler := byte(p) ^ 0x5a // != p
			if p+1 > L {
				for i := range buf {
					buf[i] = byte(p)
				}
				eval(mk(p, "overlong-all-p", 0))
				for i := range buf {
					buf[i] = filler
				}
				buf[L-1] = byte(p)
				eval(mk(p, "overlong-filler", 0))
				r.CaseS(fmt.Sprintf("%d|%d|overlong", L, p), false)
				continue
			}
			for i := range buf {
				buf[i] = filler
			}
			for i := L - 1 - p; i < L; i++ {
				buf[i] = byte(p)
			}
			eval(mk(p, "valid", 0))
			r.CaseS(fmt.Sprintf("%d|%d|valid", L, p), true)
			if L-2-p >= 0 {
				buf[L-2-p] = byte(p)
				eval(mk(p, "valid-outside-equal", 0))
				r.CaseS(fmt.Sprintf("%d|%d|valid-outside-equal", L, p), true)
				// and the whole prefix equal to p
				for i := 0; i < L-1-p; i++ {
					buf[i] = byte(p)
				}
				eval(mk(p, "valid-prefix-all-p", 0))
				for i := 0; i < L-1-p; i++ {
					buf[i] = filler
				}
			}
			if p > 0 {
				for j := 1; j <= p; j++ {
					idx := L - 1 - j
					for _, m := range masks {
						buf[idx] = byte(p) ^ m
						eval(mk(p, "one-wrong", j))
					}
					buf[idx] = byte(p)
				}
				r.CaseS(fmt.Sprintf("%d|%d|one-wrong", L, p), true)
			}
		}
	})
	c43Record(r, masks)
	r.Count("spec_accept", st.acceptWant)
	r.Count("spec_reject", st.rejectWant)
	r.Count("observed_good_255", st.acceptGot)
	r.Count("observed_good_0", st.rejectGot)
	if st.acceptWant == 0 || st.rejectWant == 0 {
		r.Inconclusive("one side of the accept/reject predicate was never exercised")
	}
	r.Sample(map[string]interface{}{"len": 48, "last_byte": 15, "variant": "one-wrong", "wrong_dist": 15, "mask": 1})
	r.Sample(map[string]interface{}{"len": 256, "last_byte": 255, "variant": "valid"})
	r.SetExhaustive(true)
}
