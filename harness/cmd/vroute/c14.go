package main

import (
	"fmt"
	"os"
	"sort"
	"strings"

	"github.com/bfenetworks/bfe/bfe_balance"
	"github.com/bfenetworks/bfe/bfe_config/bfe_cluster_conf/cluster_table_conf"
	"github.com/bfenetworks/bfe/bfe_config/bfe_cluster_conf/gslb_conf"
	"github.com/bfenetworks/bfe/bfe_route"

	"verifharness/balhist"
	"verifharness/vkit"
)

// C14: loading the same file set always yields the same routing and balancing
// decision for every probe request (or is always rejected).
// Oracle: equality of the decision vector over R independent loads in this
// process (Go randomises every map iteration, so repeated loads already vary
// the order in which the loaders visit map entries).

type c14Conf struct {
	Hazard string            `json:"hazard"`
	Files  map[string]string `json:"files"`
	// Pre, when set, is an earlier gslb.data/cluster_table.data generation that is
	// loaded first; Files is then applied through BalTableReload.
	Pre    map[string]string `json:"pre,omitempty"`
	Probes []probeReq        `json:"probes"`
}

var c14Hazards = []string{
	"none",
	"hosts-differ-only-in-case",
	"wildcard-hosts-differ-only-in-case",
	"same-host-two-tags-case",
	"hosts-differ-only-by-trailing-dot",
	"host-tag-under-two-products",
	"vip-under-two-products",
	"vip-two-spellings-two-products",
	"duplicate-host-under-empty-tag",
	"duplicate-backends",
	"reload-adds-backends",
	"basic-rule-hosts-differ-only-in-case",
	"duplicate-json-keys",
}

func c14Gen(g *vkit.Rand, hazard string) *c14Conf {
	dom := g.PickS([]string{"example.com", "shop.example.org", "x.cn"})
	hA, hA2, hB := "a."+dom, "a2."+dom, "b."+dom
	wild := "*.wild." + dom
	// host table
	tagA1 := []interface{}{hA, wild}
	tagA2 := []interface{}{hA2}
	tagB1 := []interface{}{hB}
	prodA := []interface{}{"tagA1", "tagA2"}
	prodB := []interface{}{"tagB1"}
	hosts := obj()
	vipA := []interface{}{"10.0.0.1"}
	vipB := []interface{}{"10.0.0.2"}
	probeHosts := []string{hA, strings.ToUpper(hA), hA + ":8080", hA + ".", hA2, hB, "q.wild." + dom, "Q.WILD." + dom, "z.y.wild." + dom, "unknown.net", ""}

	switch hazard {
	case "hosts-differ-only-in-case":
		tagB1 = append(tagB1, flipCaseSure(g, hA))
	case "wildcard-hosts-differ-only-in-case":
		tagB1 = append(tagB1, "*.WILD."+dom)
	case "same-host-two-tags-case":
		tagA2 = append(tagA2, flipCaseSure(g, hA))
	case "hosts-differ-only-by-trailing-dot":
		tagB1 = append(tagB1, hA+".")
	case "host-tag-under-two-products":
		prodB = append(prodB, "tagA1")
	case "vip-under-two-products":
		vipB = append(vipB, "10.0.0.1")
	case "vip-two-spellings-two-products":
		vipB = append(vipB, "::ffff:10.0.0.1")
	}
	hosts.set("tagA1", tagA1).set("tagA2", tagA2).set("tagB1", tagB1)
	tags := obj("prodA", prodA, "prodB", prodB)
	if hazard == "duplicate-host-under-empty-tag" {
		d := "dup." + dom
		hosts.set("", []interface{}{d})
		hosts.V[2] = append(tagB1, d)
		tags.V[0] = append(prodA, "")
		probeHosts = append(probeHosts, d)
	}
	if hazard == "duplicate-json-keys" {
		tags.set("prodA", []interface{}{"tagA1", "tagA2"}) // same key again
		hosts.set("tagB1", tagB1)
	}
	host := obj("Version", "c14")
	if g.Bool() {
		host.set("DefaultProduct", "prodB")
	}
	host.set("Hosts", hosts).set("HostTags", tags)
	vip := obj("Version", "c14", "Vips", obj("prodA", vipA, "prodB", vipB))

	// route: the tag is made visible in the cluster decision
	advA := []interface{}{
		obj("Cond", `req_host_tag_in("tagA2")`, "ClusterName", "cA2"),
		obj("Cond", `req_host_tag_in("tagA1")`, "ClusterName", "cA"),
		obj("Cond", "default_t()", "ClusterName", "cAdef"),
	}
	advB := []interface{}{
		obj("Cond", `req_host_tag_in("tagB1")`, "ClusterName", "cB"),
		obj("Cond", "default_t()", "ClusterName", "cBdef"),
	}
	ro := obj("Version", "c14")
	basicA := []interface{}{obj("Hostname", []interface{}{hA}, "Path", []interface{}{"/static/*"}, "ClusterName", "cStatic")}
	if hazard == "basic-rule-hosts-differ-only-in-case" {
		basicA = append(basicA, obj("Hostname", []interface{}{flipCaseSure(g, hA)}, "Path", []interface{}{"/static/*"}, "ClusterName", "cB"))
	}
	if hazard == "duplicate-json-keys" {
		ro.set("BasicRule", obj("prodA", basicA, "prodA", []interface{}{obj("Hostname", []interface{}{hA}, "Path", []interface{}{"/static/*"}, "ClusterName", "cB")}))
	} else {
		ro.set("BasicRule", obj("prodA", basicA))
	}
	ro.set("ProductRule", obj("prodA", advA, "prodB", advB))

	clusters := []string{"cA", "cA2", "cAdef", "cB", "cBdef", "cStatic"}
	cc, gs, ct, ctPre := obj(), obj(), obj(), obj()
	for _, c := range clusters {
		hc := obj("HashStrategy", 1, "SessionSticky", g.Chance(1, 4))
		cc.set(c, obj("GslbBasic", obj("CrossRetry", 0, "RetryMax", 2, "HashConf", hc)))
		ns := g.Range(1, 3)
		sub, tab, tabPre := obj(), obj(), obj()
		rest := 100
		for s := 0; s < ns; s++ {
			name := fmt.Sprintf("%s.s%d", c, s)
			w := rest
			if s < ns-1 {
				w = g.Range(1, rest-(ns-1-s))
			}
			rest -= w
			sub.set(name, w)
			nb := g.Range(2, 4)
			wt := g.Range(1, 3) // equal weights: ties are broken by list order
			var bs, pre []interface{}
			for b := 0; b < nb; b++ {
				be := obj("Addr", fmt.Sprintf("10.1.%d.%d", s, b+1), "Name", fmt.Sprintf("%s-b%d", name, b), "Port", 8000+b, "Weight", wt)
				bs = append(bs, be)
				if b == 0 {
					pre = append(pre, be)
				}
			}
			if hazard == "duplicate-backends" {
				bs = append(bs, obj("Addr", fmt.Sprintf("10.1.%d.1", s), "Name", name+"-dup", "Port", 8000, "Weight", wt+1))
				bs = append(bs, clone(bs[1]))
			}
			tab.set(name, bs)
			tabPre.set(name, pre)
		}
		sub.set("GSLB_BLACKHOLE", 0)
		gs.set(c, sub)
		ct.set(c, tab)
		ctPre.set(c, tabPre)
	}
	conf := &c14Conf{Hazard: hazard, Files: map[string]string{
		fHost:    render(host),
		fVip:     render(vip),
		fRoute:   render(ro),
		fCluster: render(obj("Version", "c14", "Config", cc)),
		fGslb:    render(obj("Clusters", gs, "Hostname", "gslb.example.com", "Ts", "2")),
		fCTable:  render(obj("Config", ct, "Version", "2")),
	}}
	if hazard == "reload-adds-backends" {
		conf.Pre = map[string]string{
			fGslb:   render(obj("Clusters", gs, "Hostname", "gslb.example.com", "Ts", "1")),
			fCTable: render(obj("Config", ctPre, "Version", "1")),
		}
	}
	for _, h := range probeHosts {
		for _, v := range []string{"", "10.0.0.1", "10.0.0.2"} {
			if v != "" && h != "unknown.net" && h != "" && h != hA {
				continue
			}
			for _, p := range []string{"/", "/static/x.css"} {
				conf.Probes = append(conf.Probes, probeReq{Host: h, Vip: v, Path: p})
			}
		}
	}
	return conf
}

// flipCaseSure returns s with at least one letter's case changed.
func flipCaseSure(g *vkit.Rand, s string) string {
	b := []byte(s)
	var idx []int
	for i, c := range b {
		if c >= 'a' && c <= 'z' {
			idx = append(idx, i)
		}
	}
	k := idx[g.Intn(len(idx))]
	b[k] -= 32
	for _, i := range idx {
		if i != k && g.Chance(1, 3) {
			b[i] -= 32
		}
	}
	return string(b)
}

type c14Decision struct {
	Accept  string   // which families were accepted
	Route   []string // per probe: product|cluster|err?
	Balance []string // per cluster x request: sub|backend or error
}

type c14Diff struct{ comp, detail string }

// diffs lists the components in which two decision vectors differ (first
// instance of each): acceptance, product, cluster, backend.
func (d *c14Decision) diffs(o *c14Decision) []c14Diff {
	if d.Accept != o.Accept {
		return []c14Diff{{"acceptance", fmt.Sprintf("%s vs %s", d.Accept, o.Accept)}}
	}
	var out []c14Diff
	seen := map[string]bool{}
	for i := range d.Route {
		if i < len(o.Route) && d.Route[i] != o.Route[i] {
			a, b := strings.Split(d.Route[i], "|"), strings.Split(o.Route[i], "|")
			comp := "cluster"
			if a[1] != b[1] {
				comp = "product"
			}
			if !seen[comp] {
				seen[comp] = true
				out = append(out, c14Diff{comp, fmt.Sprintf("probe #%d %s: %s vs %s", i, a[0], strings.Join(a[1:], "|"), strings.Join(b[1:], "|"))})
			}
		}
	}
	if len(d.Balance) != len(o.Balance) {
		return append(out, c14Diff{"backend", "different number of balance results"})
	}
	for i := range d.Balance {
		if d.Balance[i] != o.Balance[i] {
			out = append(out, c14Diff{"backend", fmt.Sprintf("balance step #%d: %s vs %s", i, d.Balance[i], o.Balance[i])})
			break
		}
	}
	return out
}

// c14Load performs one independent load (+ extra same-file reloads) and returns the decision vector.
func c14Load(c *c14Conf, fs *fileSet, extraReloads int) *c14Decision {
	d := &c14Decision{}
	sdc, err := bfe_route.LoadServerDataConf(fs.path(fHost), fs.path(fVip), fs.path(fRoute), fs.path(fCluster))
	if err != nil {
		d.Accept = "server-data:rejected"
	} else {
		d.Accept = "server-data:accepted"
		for _, p := range c.Probes {
			req := p.build()
			rt := sdc.HostTable.Lookup(req)
			e := ""
			if rt.Error != nil {
				e = "error"
			}
			d.Route = append(d.Route, fmt.Sprintf("%s%s vip=%s|%s|%s|%s", p.Host, p.Path, p.Vip, rt.Product, rt.ClusterName, e))
		}
	}
	bal := bfe_balance.NewBalTable(nil)
	if c.Pre != nil {
		err = bal.Init(fs.path("pre-"+fGslb), fs.path("pre-"+fCTable))
		if err == nil {
			err = c14Reload(bal, fs)
		}
	} else {
		err = bal.Init(fs.path(fGslb), fs.path(fCTable))
	}
	for k := 0; k < extraReloads && err == nil; k++ {
		err = c14Reload(bal, fs)
	}
	if err != nil {
		d.Accept += " bal:rejected"
		return d
	}
	d.Accept += " bal:accepted"
	if sdc != nil {
		bal.SetGslbBasic(sdc.ClusterTable)
	}
	st := bal.GetState()
	var names []string
	for n := range st.Balancers {
		names = append(names, n)
	}
	sort.Strings(names)
	for _, n := range names {
		b, err := bal.Lookup(n)
		if err != nil {
			d.Balance = append(d.Balance, n+":lookup-error")
			continue
		}
		for k := 0; k < 8; k++ {
			pr := probeReq{Host: "a.example.com", Path: "/", Client: fmt.Sprintf("10.9.0.%d", 1+k%3)}
			req := pr.build()
			be, err := b.Balance(req)
			if err != nil {
				d.Balance = append(d.Balance, fmt.Sprintf("%s#%d:error:%v", n, k, err))
			} else {
				d.Balance = append(d.Balance, fmt.Sprintf("%s#%d:%s|%s|%s", n, k, req.Backend.SubclusterName, be.Name, be.GetAddrInfo()))
			}
		}
	}
	return d
}

func c14Reload(bal *bfe_balance.BalTable, fs *fileSet) error {
	gc, err := gslb_conf.GslbConfLoad(fs.path(fGslb))
	if err != nil {
		return err
	}
	tc, err := cluster_table_conf.ClusterTableLoad(fs.path(fCTable))
	if err != nil {
		return err
	}
	return bal.BalTableReload(gc, tc)
}

func c14RunConf(r *vkit.Run, c *c14Conf, fs *fileSet, R int) {
	for n, t := range c.Files {
		fs.write(n, t)
	}
	for n, t := range c.Pre {
		fs.write("pre-"+n, t)
	}
	// first[e] = first decision seen with e extra same-file reloads
	var first [3]*c14Decision
	reported := map[string]bool{}
	failed := false
	loads := 0
	stopAt := R
	for k := 0; k < R && k < stopAt; k++ {
		var d *c14Decision
		extra := k % 3
		if r.Try(func() interface{} { return c }, func() { d = c14Load(c, fs, extra) }) {
			return
		}
		loads++
		if first[extra] == nil {
			first[extra] = d
			continue
		}
		for _, df := range first[extra].diffs(d) {
			if !failed {
				// order dependence is established; a dozen more loads look for further
				// components (a known finding must not hide a different one), then stop
				failed = true
				stopAt = k + 13
			}
			if reported[df.comp] {
				continue
			}
			reported[df.comp] = true
			r.Violation("nondet:"+c.Hazard+":"+df.comp,
				fmt.Sprintf("load #%d and load #%d (same files, same number of reloads) disagree (%s): %s", extra, k, df.comp, df.detail),
				map[string]interface{}{"conf": c, "load_a": extra, "load_b": k, "component": df.comp, "detail": df.detail})
		}
	}
	// same files, different number of same-file reloads: must agree as well. Only
	// judged when the loads with equal reload count agreed among themselves,
	// otherwise the difference is already explained by order dependence.
	for e := 1; e < 3 && !failed; e++ {
		if first[0] == nil || first[e] == nil {
			continue
		}
		for _, df := range first[0].diffs(first[e]) {
			failed = true
			r.Violation("reload-count:"+c.Hazard+":"+df.comp,
				fmt.Sprintf("the same files give a different decision after %d additional BalTableReload of the same files (%s): %s", e, df.comp, df.detail),
				map[string]interface{}{"conf": c, "load_a": 0, "load_b": e, "component": df.comp, "detail": df.detail})
		}
	}
	r.Evals(int64(loads) - 1)
	key := c.Hazard
	for _, n := range c13FileNames {
		key += "|" + c.Files[n]
	}
	r.CaseS(key, c.Hazard != "none")
	r.Count("loads", int64(loads))
	r.Count("hazard_"+c.Hazard, 1)
	out := "always-same"
	if failed {
		out = "order-dependent"
	} else if strings.Contains(first[0].Accept, "rejected") {
		out = "always-rejected"
	}
	r.Count("outcome_"+out, 1)
	r.Count("by_hazard_"+c.Hazard+"_"+out, 1)
}

func c14(r *vkit.Run) {
	r.SetRule("file sets built from a fixed skeleton (2 products, 3 host-tags, exact+wildcard hosts, vips, basic+advanced rules that expose the host-tag in the cluster choice, 6 clusters x 1-3 sub-clusters x 2-4 equal-weight backends, random names/weights) with exactly one hazard injected: " + strings.Join(c14Hazards, ", ") + ". Each file set is loaded R times (q 40 / t 400; a file set already shown order-dependent is abandoned 13 loads later) in this process - LoadServerDataConf + BalTable.Init, followed by 0/1/2 BalTableReload of the same files (load index mod 3); for reload-adds-backends an older cluster_table generation is loaded first. Decision vector = (product, cluster, error?) of ~40 probe requests (host spellings x vip x path) and (sub-cluster, backend) of 8 Balance calls per cluster with fixed client addresses (hash strategy client-ip, no slow start, so no clock or PRNG is involved). Pass = all R vectors equal, or all R loads rejected. Non-trivial = a hazard is present; distinct = file contents." + c14DupRule + " RELOAD-HISTORY MONITOR (harness/balhist): gslb level - a table that reached a gslb configuration through 1-3 reloads must choose the same sub-cluster for 48 clients as a freshly initialised table." + balhist.StickyRule)
	r.Assume("Go randomises map iteration per range statement, so R in-process loads sample R independent visiting orders; child processes add nothing for these loaders (no package-level state)")
	if r.Replay != "" {
		if balhist.ReplaySticky(r, scratchBase()) { // witness of the sticky reload-history family (harness/balhist/sticky.go)
			return
		}
		var dw struct {
			Case c14DupCase `json:"case"`
		}
		if err := r.LoadReplay(&dw); err == nil && dw.Case.Family != "" {
			fs := newFileSet("c14dup", "replay")
			defer fs.remove()
			c14DupRun(r, &dw.Case, fs, 400)
			r.SetMinDistinct(0)
			return
		}
		var w struct {
			Conf c14Conf `json:"conf"`
		}
		if err := loadReplayCase(r, &w); err != nil || w.Conf.Files == nil {
			var c c14Conf
			if err2 := loadReplayCase(r, &c); err2 != nil || c.Files == nil {
				r.Inconclusive(fmt.Sprint("cannot read replay: ", err, err2))
				return
			}
			w.Conf = c
		}
		fs := newFileSet("c14", "replay")
		defer fs.remove()
		c14RunConf(r, &w.Conf, fs, 400)
		r.SetMinDistinct(0)
		return
	}
	perHazard := r.N(20, 120)
	R := r.N(40, 400)
	n := perHazard * len(c14Hazards)
	vkit.Parallel(n, 0, func(i int) {
		hz := c14Hazards[i%len(c14Hazards)]
		g := r.Rng("conf", i)
		c := c14Gen(g, hz)
		fs := newFileSet("c14", i)
		defer fs.remove()
		c14RunConf(r, c, fs, R)
		if r.WantSample() && hz != "none" && i < 3*len(c14Hazards) && i%5 == 1 {
			r.Sample(map[string]interface{}{"hazard": hz, "host_file": c.Files[fHost], "vip_file": c.Files[fVip]})
		}
	})
	if r.Counter("outcome_always-same") == 0 {
		r.Inconclusive("no file set was accepted with a stable decision vector")
	}
	if r.Counter("hazard_none") == 0 {
		r.Inconclusive("control group (no hazard) missing")
	}
	// duplicate family: hosts / tags / VIPs listed twice along every axis of "same"
	c14Dup(r)
	// reload-count independence of the gslb level: a table that reached a configuration through
	// reloads (incl. added sub-clusters) must decide like a table initialised directly with it
	scratch := os.Getenv("VERIF_SCRATCH")
	if scratch == "" {
		scratch = os.TempDir()
	}
	balhist.Run(r, r.N(1500, 30000), scratch)
	if r.Counter("balhist_added_sorts_before_survivor") == 0 {
		r.Inconclusive("reload-history monitor never added a sub-cluster sorting before a survivor")
	}
}
